import OtelVerif.Model.C03Direct
/-!
# C03, queue-less exporters: once `Shutdown` has returned no retry is scheduled any more

State theorems over every reachable state / every run of the direct LTS (`Model/C03Direct.lean`), soundness of the trace monitor
`checkDirect`, and the bridge: the trace of EVERY run of the LTS (any number of callers, any interleaving, any backend outcomes,
callers entering before or after the stop) whose flights carry pairwise disjoint item lists is accepted by `checkDirect`.
-/
namespace OtelVerif.C03.Direct

open OtelVerif.C03

/-! ## generic list facts -/

theorem get_set_cases {α : Type} {l : List α} {f g : Nat} {v a : α} (h : (l.set f v)[g]? = some a) :
    (g = f ∧ a = v) ∨ (g ≠ f ∧ l[g]? = some a) := by
  rw [List.getElem?_set] at h
  by_cases hfg : f = g
  · subst hfg
    by_cases hlt : f < l.length
    · simp [hlt] at h; exact .inl ⟨rfl, h.symm⟩
    · simp [hlt] at h
  · simp [hfg] at h; exact .inr ⟨fun e => hfg e.symm, h⟩

theorem get_set_self {α : Type} {l : List α} {f : Nat} {v old : α} (h : l[f]? = some old) : (l.set f v)[f]? = some v := by
  have hlt : f < l.length := (List.getElem?_eq_some_iff.mp h).1
  rw [List.getElem?_set]; simp [hlt]

theorem get_set_ne {α : Type} {l : List α} {f g : Nat} {v : α} (h : g ≠ f) : (l.set f v)[g]? = l[g]? := by
  have hne : ¬ f = g := fun e => h e.symm
  rw [List.getElem?_set]; simp [hne]

theorem get_append_one {α : Type} {l : List α} {v a : α} {g : Nat} (h : (l ++ [v])[g]? = some a) :
    l[g]? = some a ∨ (g = l.length ∧ a = v) := by
  by_cases hlt : g < l.length
  · rw [List.getElem?_append_left hlt] at h; exact .inl h
  · have hge : l.length ≤ g := Nat.le_of_not_lt hlt
    rw [List.getElem?_append_right hge] at h
    cases hk : g - l.length with
    | zero => rw [hk] at h; simp at h; exact .inr ⟨by omega, h.symm⟩
    | succ k => rw [hk] at h; simp at h

theorem get_append_some {α : Type} {l l' : List α} {a : α} {g : Nat} (h : l[g]? = some a) : (l ++ l')[g]? = some a := by
  have hlt : g < l.length := (List.getElem?_eq_some_iff.mp h).1
  rw [List.getElem?_append_left hlt]; exact h

theorem evsAfter_append (p : Ev → Bool) (l l' : List Ev) :
    evsAfter p (l ++ l') = if l.any p then evsAfter p l ++ l' else evsAfter p l' := by
  induction l with
  | nil => simp
  | cons e l ih =>
    cases hp : p e with
    | true => simp [evsAfter, hp]
    | false => simp [evsAfter, hp, ih]

theorem evsAfter_none (p : Ev → Bool) (l : List Ev) (h : l.any p = false) : evsAfter p l = [] := by
  induction l with
  | nil => rfl
  | cons e l ih =>
    simp only [List.any_cons, Bool.or_eq_false_iff] at h
    simp [evsAfter, h.1, ih h.2]

theorem startsOf_append (t t' : List Ev) : startsOf (t ++ t') = startsOf t ++ startsOf t' := by
  simp [startsOf, List.filterMap_append]

/-- what follows the first `p`-event is part of the trace -/
theorem mem_of_mem_evsAfter (p : Ev → Bool) {e : Ev} : ∀ {l : List Ev}, e ∈ evsAfter p l → e ∈ l
  | [], h => by simp [evsAfter] at h
  | a :: l, h => by
    simp only [evsAfter] at h
    split at h
    · exact List.mem_cons_of_mem _ h
    · exact List.mem_cons_of_mem _ (mem_of_mem_evsAfter p h)

theorem mem_startsOf {t : List Ev} {c : Nat} {b : List Item} : (c, b) ∈ startsOf t ↔ Ev.es c b ∈ t := by
  simp only [startsOf, List.mem_filterMap]
  constructor
  · rintro ⟨e, he, h⟩
    cases e <;> simp at h
    obtain ⟨h1, h2⟩ := h; subst h1; subst h2; exact he
  · intro h; exact ⟨_, h, rfl⟩

theorem mem_starts_of_after {t : List Ev} {c : Nat} {b : List Item} (h : (c, b) ∈ startsOf (evsAfter isShutRet t)) :
    (c, b) ∈ startsOf t := mem_startsOf.mpr (mem_of_mem_evsAfter _ (mem_startsOf.mp h))

/-! ## what a step does to the state -/

/-- a step other than `send` / `shutdown` rewrites exactly one flight, keeps its items, and never makes it `pending` again -/
structure Upd (s s' : DState) (f : Nat) (fl fl' : DFlight) : Prop where
  get : s.flights[f]? = some fl
  eq : s' = { s with flights := s.flights.set f fl' }
  items : fl'.items = fl.items
  notPending : fl'.st ≠ .pending

theorem dfire_expStart {s s' : DState} {f : Nat} (h : dfire s (.expStart f) = some s') :
    ∃ fl, Upd s s' f fl { fl with st := .calling, attempts := fl.attempts + 1 } ∧
      (fl.st = .pending ∨ (fl.st = .backoff ∧ s.stopped = false)) := by
  simp only [dfire] at h
  cases hfl : s.flights[f]? with
  | none => simp [hfl] at h
  | some fl =>
    simp only [hfl] at h
    split at h
    · next hc =>
      simp only [Option.some.injEq] at h
      exact ⟨fl, ⟨hfl, h.symm, rfl, by simp⟩, hc⟩
    · simp at h

theorem dfire_expEnd {s s' : DState} {f : Nat} {o : Outcome} {a : After} (h : dfire s (.expEnd f o a) = some s') :
    ∃ fl fl', Upd s s' f fl fl' ∧ fl.st = .calling ∧ fl'.attempts = fl.attempts ∧
      (fl'.st = .backoff → s.stopped = false ∧ s.retry = true) ∧ (fl'.st = .backoff ∨ fl'.st = .done) := by
  simp only [dfire] at h
  cases hfl : s.flights[f]? with
  | none => simp [hfl] at h
  | some fl =>
    simp only [hfl] at h
    split at h
    · next hc =>
      cases o <;> cases a <;> simp only [dend, Option.some.injEq, reduceCtorEq] at h
      all_goals first
        | exact ⟨fl, _, ⟨hfl, h.symm, rfl, by simp⟩, hc, rfl, by simp, by simp⟩
        | (split at h
           · next hg =>
             simp only [Option.some.injEq] at h
             exact ⟨fl, _, ⟨hfl, h.symm, rfl, by simp⟩, hc, rfl, by simp [hg.1, hg.2], by simp⟩
           · simp at h)
    · simp at h

theorem dfire_giveUp {s s' : DState} {f : Nat} {k : Bool} (h : dfire s (.giveUp f k) = some s') :
    ∃ fl, Upd s s' f fl { fl with st := .done, failures := fl.failures + 0, kept := k } ∧ fl.st = .backoff ∧
      (k = true → s.stopped = true) := by
  simp only [dfire] at h
  cases hfl : s.flights[f]? with
  | none => simp [hfl] at h
  | some fl =>
    simp only [hfl] at h
    split at h
    · next hc =>
      simp only [dend, Option.some.injEq] at h
      exact ⟨fl, ⟨hfl, h.symm, rfl, by simp⟩, hc.1, hc.2⟩
    · simp at h

/-- the three shapes of a step: a new pending flight · the stop · one flight rewritten (attempts + 1 exactly when the step is an
`expStart`, and then the flight was `pending`, or in `backoff` with the retry sender not stopped) -/
theorem dfire_shape {s s' : DState} {l : DLabel} (h : dfire s l = some s') :
    (∃ b, l = .send b ∧ s' = { s with flights := s.flights ++ [DFlight.new b] }) ∨
    (l = .shutdown ∧ s.stopped = false ∧ s' = { s with stopped := true }) ∨
    (∃ f fl fl', Upd s s' f fl fl' ∧
      ((l = .expStart f ∧ fl'.attempts = fl.attempts + 1 ∧ (fl.st = .pending ∨ (fl.st = .backoff ∧ s.stopped = false))) ∨
       ((∀ g, l ≠ .expStart g) ∧ fl'.attempts = fl.attempts))) := by
  cases l with
  | send b => simp only [dfire, Option.some.injEq] at h; exact .inl ⟨b, rfl, h.symm⟩
  | shutdown =>
    simp only [dfire] at h
    split at h
    · next hc => simp only [Option.some.injEq] at h; exact .inr (.inl ⟨rfl, hc, h.symm⟩)
    · simp at h
  | expStart f =>
    obtain ⟨fl, hu, hc⟩ := dfire_expStart h
    exact .inr (.inr ⟨f, fl, _, hu, .inl ⟨rfl, rfl, hc⟩⟩)
  | expEnd f o a =>
    obtain ⟨fl, fl', hu, _, ha, _⟩ := dfire_expEnd h
    exact .inr (.inr ⟨f, fl, fl', hu, .inr ⟨by simp, ha⟩⟩)
  | giveUp f k =>
    obtain ⟨fl, hu, _⟩ := dfire_giveUp h
    exact .inr (.inr ⟨f, fl, _, hu, .inr ⟨by simp, rfl⟩⟩)

/-! ## state invariant: a flight that has not called yet has no attempt -/

def PendZero (s : DState) : Prop := ∀ (f : Nat) (fl : DFlight), s.flights[f]? = some fl → fl.st = .pending → fl.attempts = 0

theorem pendZero_step {s s' : DState} {l : DLabel} (hi : PendZero s) (h : dfire s l = some s') : PendZero s' := by
  rcases dfire_shape h with ⟨b, _, rfl⟩ | ⟨_, _, rfl⟩ | ⟨f, fl, fl', hu, _⟩
  · intro g gl hg hp
    rcases get_append_one hg with hg | ⟨_, rfl⟩
    · exact hi g gl hg hp
    · rfl
  · exact hi
  · intro g gl hg hp
    rw [hu.eq] at hg
    rcases get_set_cases hg with ⟨_, rfl⟩ | ⟨_, hg⟩
    · exact absurd hp hu.notPending
    · exact hi g gl hg hp

theorem pendZero_of_reachable {s : DState} (h : DReachable s) : PendZero s := by
  induction h with
  | init retry => intro f fl hf; simp [dinit] at hf
  | step l _ hf ih => exact pendZero_step ih hf

/-! ## 4. stopped stays true -/

theorem stopped_step {s s' : DState} {l : DLabel} (hs : s.stopped = true) (h : dfire s l = some s') : s'.stopped = true := by
  rcases dfire_shape h with ⟨b, _, rfl⟩ | ⟨_, hn, _⟩ | ⟨f, fl, fl', hu, _⟩
  · exact hs
  · rw [hs] at hn; cases hn
  · rw [hu.eq]; exact hs

/-- **`Shutdown` is not undone**: along any run `stopped` stays true (a closed `stopCh` stays closed). -/
theorem C03_direct_stopped_stable {s s' : DState} (ls : List DLabel) (hs : s.stopped = true) (hr : drunFrom s ls = some s') :
    s'.stopped = true := by
  induction ls generalizing s with
  | nil => simp [drunFrom] at hr; exact hr ▸ hs
  | cons l ls ih =>
    simp only [drunFrom] at hr
    cases hf : dfire s l with
    | none => simp [hf] at hr
    | some s1 => simp [hf] at hr; exact ih (stopped_step hs hf) hr

/-! ## 1. a call that begins after the return is a FIRST attempt -/

/-- **No retry after the return.** In every reachable state in which `Shutdown` has returned, an export call can begin only for a
flight that has made NO call yet: it is the first attempt of a `Send` whose caller is inside the helper — never a retry. -/
theorem C03_direct_no_retry_after_return {s : DState} (h : DReachable s) (hs : s.stopped = true) (f : Nat) (s' : DState)
    (hf : dfire s (.expStart f) = some s') :
    ∃ fl, s.flights[f]? = some fl ∧ fl.attempts = 0 ∧ fl.st = .pending := by
  obtain ⟨fl, hu, hc⟩ := dfire_expStart hf
  rcases hc with hp | ⟨_, hn⟩
  · exact ⟨fl, hu.get, pendZero_of_reachable h f fl hu.get hp, hp⟩
  · rw [hs] at hn; cases hn

/-! ## 2. a flight in back-off at the stop can only give up -/

/-- **A back-off interrupted by the stop ends without a further call.** With `Shutdown` returned, for a flight in `backoff` the
only enabled label is `giveUp` (both flavours: `stopCh` → shutdown error, `ctx.Done` → plain error); it ends the flight (`done`)
with the attempts it had. -/
theorem C03_direct_backoff_ends_kept {s : DState} (hs : s.stopped = true) {f : Nat} {fl : DFlight}
    (hfl : s.flights[f]? = some fl) (hb : fl.st = .backoff) :
    dfire s (.expStart f) = none ∧ (∀ o a, dfire s (.expEnd f o a) = none) ∧
    ∀ k, ∃ s', dfire s (.giveUp f k) = some s' ∧
      s'.flights[f]? = some { fl with st := .done, failures := fl.failures + 0, kept := k } := by
  refine ⟨?_, ?_, ?_⟩
  · simp [dfire, hfl, hb, hs]
  · intro o a; simp [dfire, hfl, hb]
  · intro k
    refine ⟨_, by simp only [dfire, hfl, hb, hs]; simp; rfl, ?_⟩
    simp only [dend]
    exact get_set_self hfl

/-! ## 3. along any run from a stopped state, attempts grow by at most one, and only from 0 -/

theorem att_step {s s' : DState} {l : DLabel} (hi : PendZero s) (hs : s.stopped = true) (h : dfire s l = some s')
    {f : Nat} {fl : DFlight} (hfl : s.flights[f]? = some fl) :
    ∃ fl', s'.flights[f]? = some fl' ∧ fl'.items = fl.items ∧
      (fl'.attempts = fl.attempts ∨ (fl.attempts = 0 ∧ fl'.attempts = 1)) := by
  rcases dfire_shape h with ⟨b, _, rfl⟩ | ⟨_, _, rfl⟩ | ⟨g, gl, gl', hu, hk⟩
  · exact ⟨fl, get_append_some hfl, rfl, .inl rfl⟩
  · exact ⟨fl, hfl, rfl, .inl rfl⟩
  · rw [hu.eq]
    by_cases hfg : f = g
    · subst hfg
      have : gl = fl := by have := hu.get; rw [hfl] at this; exact (Option.some.inj this).symm
      subst this
      refine ⟨gl', get_set_self hfl, hu.items, ?_⟩
      rcases hk with ⟨_, ha, hp | ⟨_, hn⟩⟩ | ⟨_, ha⟩
      · have h0 := hi f gl hfl hp
        exact .inr ⟨h0, by omega⟩
      · rw [hs] at hn; cases hn
      · exact .inl ha
    · exact ⟨fl, by simp only []; rw [get_set_ne hfg]; exact hfl, rfl, .inl rfl⟩

/-- **Attempts after the return.** Along ANY run from a reachable state in which `Shutdown` has returned, every flight is still
there, carries the same items, and its number of export calls grows by at most one and only from 0: a flight that had made a call
makes no further one, a flight that had made none makes at most its first. -/
theorem C03_direct_attempts_after_return {s s' : DState} (ls : List DLabel) (h : DReachable s) (hs : s.stopped = true)
    (hr : drunFrom s ls = some s') (f : Nat) (fl : DFlight) (hfl : s.flights[f]? = some fl) :
    ∃ fl', s'.flights[f]? = some fl' ∧ fl'.items = fl.items ∧ fl'.attempts ≤ max fl.attempts 1 ∧
      (1 ≤ fl.attempts → fl'.attempts = fl.attempts) := by
  induction ls generalizing s fl with
  | nil =>
    simp [drunFrom] at hr; subst hr
    exact ⟨fl, hfl, rfl, by omega, fun _ => rfl⟩
  | cons l ls ih =>
    simp only [drunFrom] at hr
    cases hf : dfire s l with
    | none => simp [hf] at hr
    | some s1 =>
      simp [hf] at hr
      obtain ⟨fl1, hfl1, hi1, ha1⟩ := att_step (pendZero_of_reachable h) hs hf hfl
      obtain ⟨fl', hfl', hi', hle, heq⟩ := ih (DReachable.step l h hf) (stopped_step hs hf) hr fl1 hfl1
      refine ⟨fl', hfl', hi'.trans hi1, ?_, ?_⟩
      · rcases ha1 with ha1 | ⟨h0, h1⟩
        · rw [ha1] at hle; exact hle
        · have := heq (by omega); omega
      · intro hge
        rcases ha1 with ha1 | ⟨h0, h1⟩
        · rw [← ha1]; exact heq (by omega)
        · omega

/-! ## 5. the trace monitor is sound (and complete) for its reading -/

theorem checkDirect_iff (t : List Ev) :
    checkDirect t = true ↔
      ∀ c items, (c, items) ∈ startsOf (evsAfter isShutRet t) → rootOfCall (startsOf t) (c, items) = c := by
  simp only [checkDirect, lateRetries, List.isEmpty_iff, List.map_eq_nil_iff, List.filter_eq_nil_iff]
  constructor
  · intro h c items hm
    have := h (c, items) hm
    simpa using this
  · intro h p hp
    have := h p.1 p.2 hp
    simpa using this

/-- **The monitor means what it says**: a trace accepted by `checkDirect` has no late retry — every export call entered after
`Shutdown` returned is the first call of its chain (no earlier call carried its first item). -/
theorem C03_check_direct_sound (t : List Ev) (h : checkDirect t = true) :
    ∀ c items, (c, items) ∈ startsOf (evsAfter isShutRet t) → rootOfCall (startsOf t) (c, items) = c :=
  (checkDirect_iff t).mp h

/-! ## 6. bridge: the trace of every run of the direct LTS is accepted by the monitor -/

theorem root_append_mem {l l' : List (Nat × List Item)} {p : Nat × List Item} (hp : p ∈ l) :
    rootOfCall (l ++ l') p = rootOfCall l p := by
  obtain ⟨c, b⟩ := p
  cases b with
  | nil => simp [rootOfCall]
  | cons x xs =>
    simp only [rootOfCall, List.find?_append]
    have hsome : (l.find? (fun q => q.2.contains x)).isSome = true := by
      rw [List.find?_isSome]; exact ⟨(c, x :: xs), hp, by simp⟩
    cases hfd : l.find? (fun q => q.2.contains x) with
    | none => rw [hfd] at hsome; simp at hsome
    | some q => simp

theorem root_fresh {l : List (Nat × List Item)} {c : Nat} {b : List Item}
    (h : ∀ q ∈ l, ∀ x ∈ b, x ∉ q.2) : rootOfCall (l ++ [(c, b)]) (c, b) = c := by
  cases b with
  | nil => simp [rootOfCall]
  | cons x xs =>
    simp only [rootOfCall, List.find?_append]
    have hnone : l.find? (fun q => q.2.contains x) = none := by
      rw [List.find?_eq_none]
      intro q hq
      have := h q hq x (by simp)
      simpa using this
    rw [hnone]; simp

/-- the batches of the `Send`s of a schedule, in order -/
def sendsOf : List DLabel → List Batch
  | [] => []
  | .send b :: ls => b :: sendsOf ls
  | _ :: ls => sendsOf ls

def Disj (a b : Batch) : Prop := ∀ x ∈ a, x ∉ b

/-- no item of `b` is carried by a flight of `s` -/
def Fresh (s : DState) (b : Batch) : Prop := ∀ fl ∈ s.flights, Disj fl.items b

/-- different flights carry disjoint items -/
def DisjFl (s : DState) : Prop :=
  ∀ (f g : Nat) (fl gl : DFlight) (x : Item),
    s.flights[f]? = some fl → s.flights[g]? = some gl → x ∈ fl.items → x ∈ gl.items → f = g

theorem disjFl_upd {s s' : DState} {f : Nat} {fl fl' : DFlight} (hd : DisjFl s) (hu : Upd s s' f fl fl') : DisjFl s' := by
  intro g k gl kl x hg hk hxg hxk
  rw [hu.eq] at hg hk
  have key : ∀ (g : Nat) (gl : DFlight), (s.flights.set f fl')[g]? = some gl → ∃ gl0, s.flights[g]? = some gl0 ∧ gl0.items = gl.items := by
    intro g gl hg
    rcases get_set_cases hg with ⟨rfl, rfl⟩ | ⟨_, hg⟩
    · exact ⟨fl, hu.get, hu.items.symm⟩
    · exact ⟨gl, hg, rfl⟩
  obtain ⟨gl0, hg0, hgi⟩ := key g gl hg
  obtain ⟨kl0, hk0, hki⟩ := key k kl hk
  exact hd g k gl0 kl0 x hg0 hk0 (hgi ▸ hxg) (hki ▸ hxk)

theorem disjFl_send {s : DState} {b : Batch} (hd : DisjFl s) (hfr : Fresh s b) :
    DisjFl { s with flights := s.flights ++ [DFlight.new b] } := by
  intro g k gl kl x hg hk hxg hxk
  rcases get_append_one hg with hg | ⟨rfl, rfl⟩ <;> rcases get_append_one hk with hk | ⟨rfl, rfl⟩
  · exact hd g k gl kl x hg hk hxg hxk
  · exact absurd hxk (hfr gl (List.mem_of_getElem? hg) x hxg)
  · exact absurd hxg (hfr kl (List.mem_of_getElem? hk) x hxk)
  · rfl

theorem fresh_step {s s' : DState} {l : DLabel} {b : Batch} (hl : ∀ b', l ≠ .send b') (hfr : Fresh s b)
    (h : dfire s l = some s') : Fresh s' b := by
  rcases dfire_shape h with ⟨b', hb', _⟩ | ⟨_, _, rfl⟩ | ⟨f, fl, fl', hu, _⟩
  · exact absurd hb' (hl b')
  · exact hfr
  · intro gl hgl
    rw [hu.eq] at hgl
    rcases List.mem_or_eq_of_mem_set hgl with hgl | rfl
    · exact hfr gl hgl
    · rw [hu.items]; exact hfr fl (List.mem_of_getElem? hu.get)

/-- the events a step appends to the trace -/
def DRec.evs (r : DRec) : DLabel → List Ev
  | .shutdown => [.shutReq, .shutRet]
  | .expStart f => [.es r.calls ((r.s.flights[f]?.map (·.items)).getD [])]
  | .expEnd f o _ =>
    match r.pending.lookup f with
    | some c => [.ee c (o != .ok)]
    | none => []
  | _ => []

theorem dstep_spec {r r' : DRec} {l : DLabel} (h : r.step l = some r') :
    dfire r.s l = some r'.s ∧ r'.tr = r.tr ++ r.evs l := by
  unfold DRec.step at h
  cases hf : dfire r.s l with
  | none => simp [hf] at h
  | some s' =>
    simp only [hf] at h
    cases l with
    | expEnd f o a =>
      simp only [DRec.evs]
      dsimp only at h
      split at h
      · next c hc => simp only [Option.some.injEq] at h; subst h; simp [hc]
      · next hc => simp only [Option.some.injEq] at h; subst h; simp [hc]
    | _ => simp only [Option.some.injEq] at h; subst h; simp [DRec.evs]

/-- the joint invariant of state and recorded trace -/
structure BInv (r : DRec) : Prop where
  pend0 : PendZero r.s
  disj : DisjFl r.s
  /-- a recorded call belongs to a flight that counts it -/
  starts : ∀ c b, (c, b) ∈ startsOf r.tr → ∃ (f : Nat) (fl : DFlight), r.s.flights[f]? = some fl ∧ fl.items = b ∧ 1 ≤ fl.attempts
  stop : r.s.stopped = r.tr.any isShutRet
  good : ∀ c b, (c, b) ∈ startsOf (evsAfter isShutRet r.tr) → rootOfCall (startsOf r.tr) (c, b) = c

theorem binv_start (retry : Bool) : BInv (DRec.start retry) := by
  refine ⟨?_, ?_, ?_, ?_, ?_⟩
  · intro f fl hf; simp [DRec.start, dinit] at hf
  · intro f g fl gl x hf; simp [DRec.start, dinit] at hf
  · intro c b h; simp [DRec.start, startsOf] at h
  · simp [DRec.start, dinit]
  · intro c b h; simp [DRec.start, startsOf, evsAfter] at h

/-- a step that rewrites one flight and appends `evs` (no `shutRet`; either no call start, or the start of a call of that flight) -/
theorem binv_upd {r r' : DRec} {f : Nat} {fl fl' : DFlight} (hi : BInv r) (hp0 : PendZero r'.s) (hu : Upd r.s r'.s f fl fl')
    (evs : List Ev) (htr : r'.tr = r.tr ++ evs) (hns : evs.any isShutRet = false)
    (hk : (startsOf evs = [] ∧ fl'.attempts = fl.attempts) ∨
          (∃ c, startsOf evs = [(c, fl.items)] ∧ fl'.attempts = fl.attempts + 1 ∧
            (fl.st = .pending ∨ (fl.st = .backoff ∧ r.s.stopped = false)))) : BInv r' := by
  have hge : fl.attempts ≤ fl'.attempts := by
    rcases hk with ⟨_, h⟩ | ⟨_, _, h, _⟩ <;> omega
  have hfl' : r'.s.flights[f]? = some fl' := by rw [hu.eq]; exact get_set_self hu.get
  have hstopEq : r'.s.stopped = r.s.stopped := by rw [hu.eq]
  -- an old start keeps a witness
  have hold : ∀ c b, (c, b) ∈ startsOf r.tr → ∃ (g : Nat) (gl : DFlight), r'.s.flights[g]? = some gl ∧ gl.items = b ∧ 1 ≤ gl.attempts := by
    intro c b hm
    obtain ⟨g, gl, hg, hgi, hga⟩ := hi.starts c b hm
    by_cases hgf : g = f
    · subst hgf
      have : gl = fl := by have := hu.get; rw [hg] at this; exact Option.some.inj this
      subst this
      exact ⟨g, fl', hfl', hu.items.trans hgi, by omega⟩
    · exact ⟨g, gl, by rw [hu.eq]; simp only []; rw [get_set_ne hgf]; exact hg, hgi, hga⟩
  refine ⟨hp0, disjFl_upd hi.disj hu, ?_, ?_, ?_⟩
  · intro c b hm
    rw [htr, startsOf_append, List.mem_append] at hm
    rcases hm with hm | hm
    · exact hold c b hm
    · rcases hk with ⟨h0, _⟩ | ⟨c0, h1, ha, _⟩
      · rw [h0] at hm; simp at hm
      · rw [h1] at hm
        simp only [List.mem_singleton, Prod.mk.injEq] at hm
        exact ⟨f, fl', hfl', hu.items.trans hm.2.symm, by omega⟩
  · rw [hstopEq, htr, List.any_append, hns, Bool.or_false]; exact hi.stop
  · intro c b hm
    rw [htr, evsAfter_append] at hm
    cases hany : r.tr.any isShutRet with
    | false =>
      rw [hany] at hm
      simp only [Bool.false_eq_true, if_false] at hm
      rw [evsAfter_none _ _ hns] at hm
      simp [startsOf] at hm
    | true =>
      rw [hany] at hm
      simp only [if_true] at hm
      rw [startsOf_append, List.mem_append] at hm
      rw [htr, startsOf_append]
      rcases hm with hm | hm
      · rw [root_append_mem (mem_starts_of_after hm)]
        exact hi.good c b hm
      · rcases hk with ⟨h0, _⟩ | ⟨c0, h1, _, hst⟩
        · rw [h0] at hm; simp at hm
        · rw [h1] at hm ⊢
          simp only [List.mem_singleton, Prod.mk.injEq] at hm
          obtain ⟨rfl, rfl⟩ := hm
          have hstopped : r.s.stopped = true := by rw [hi.stop]; exact hany
          have hpend : fl.st = .pending := by
            rcases hst with hp | ⟨_, hn⟩
            · exact hp
            · rw [hstopped] at hn; cases hn
          have h0 : fl.attempts = 0 := hi.pend0 f fl hu.get hpend
          apply root_fresh
          intro q hq x hx hxq
          obtain ⟨g, gl, hg, hgi, hga⟩ := hi.starts q.1 q.2 hq
          have hgf : f = g := hi.disj f g fl gl x hu.get hg hx (hgi ▸ hxq)
          subst hgf
          have : gl = fl := by have := hu.get; rw [hg] at this; exact Option.some.inj this
          subst this
          omega

theorem binv_step {r r' : DRec} {l : DLabel} (hi : BInv r) (hfr : ∀ b, l = .send b → Fresh r.s b)
    (h : r.step l = some r') : BInv r' := by
  obtain ⟨hf, htr⟩ := dstep_spec h
  have hp0 : PendZero r'.s := pendZero_step hi.pend0 hf
  cases l with
  | send b =>
    have hs : r'.s = { r.s with flights := r.s.flights ++ [DFlight.new b] } := by
      simp only [dfire, Option.some.injEq] at hf; exact hf.symm
    have htr' : r'.tr = r.tr := by rw [htr]; simp [DRec.evs]
    refine ⟨hp0, ?_, ?_, ?_, ?_⟩
    · rw [hs]; exact disjFl_send hi.disj (hfr b rfl)
    · intro c b' hm
      rw [htr'] at hm
      obtain ⟨g, gl, hg, hgi, hga⟩ := hi.starts c b' hm
      exact ⟨g, gl, by rw [hs]; exact get_append_some hg, hgi, hga⟩
    · rw [htr', hs]; exact hi.stop
    · rw [htr']; exact hi.good
  | shutdown =>
    have hshape : r.s.stopped = false ∧ r'.s = { r.s with stopped := true } := by
      simp only [dfire] at hf
      split at hf
      · next hc => simp only [Option.some.injEq] at hf; exact ⟨hc, hf.symm⟩
      · simp at hf
    obtain ⟨hn, hs⟩ := hshape
    have htr' : r'.tr = r.tr ++ [.shutReq, .shutRet] := by rw [htr]; rfl
    have hany : r.tr.any isShutRet = false := by rw [← hi.stop]; exact hn
    refine ⟨hp0, ?_, ?_, ?_, ?_⟩
    · rw [hs]; exact hi.disj
    · intro c b hm
      rw [htr', startsOf_append] at hm
      simp only [startsOf, List.filterMap_cons, List.filterMap_nil, List.append_nil] at hm
      obtain ⟨g, gl, hg, hgi, hga⟩ := hi.starts c b hm
      exact ⟨g, gl, by rw [hs]; exact hg, hgi, hga⟩
    · rw [hs, htr']; simp [isShutRet]
    · intro c b hm
      rw [htr', evsAfter_append, hany] at hm
      simp [evsAfter, isShutRet, startsOf] at hm
  | expStart f =>
    obtain ⟨fl, hu, hc⟩ := dfire_expStart hf
    refine binv_upd hi hp0 hu _ htr ?_ (.inr ⟨r.calls, ?_, rfl, hc⟩)
    · simp [DRec.evs, isShutRet]
    · simp [DRec.evs, startsOf, hu.get]
  | expEnd f o a =>
    obtain ⟨fl, fl', hu, _, ha, _⟩ := dfire_expEnd hf
    refine binv_upd hi hp0 hu _ htr ?_ (.inl ⟨?_, ha⟩)
    · simp only [DRec.evs]; split <;> simp [isShutRet]
    · simp only [DRec.evs]; split <;> simp [startsOf]
  | giveUp f k =>
    obtain ⟨fl, hu, _⟩ := dfire_giveUp hf
    exact binv_upd hi hp0 hu _ htr (by simp [DRec.evs]) (.inl ⟨by simp [DRec.evs, startsOf], rfl⟩)

theorem binv_run {r r' : DRec} (ls : List DLabel) (hi : BInv r) (hd : (sendsOf ls).Pairwise Disj)
    (hfr : ∀ b ∈ sendsOf ls, Fresh r.s b) (h : r.run ls = some r') : BInv r' := by
  induction ls generalizing r with
  | nil => simp [DRec.run] at h; exact h ▸ hi
  | cons l ls ih =>
    simp only [DRec.run] at h
    cases hst : r.step l with
    | none => simp [hst] at h
    | some r1 =>
      simp only [hst] at h
      have hf := (dstep_spec hst).1
      cases l with
      | send b =>
        simp only [sendsOf, List.pairwise_cons] at hd
        simp only [sendsOf, List.mem_cons] at hfr
        have hi1 : BInv r1 := binv_step hi (fun b' hb' => by cases hb'; exact hfr b (.inl rfl)) hst
        refine ih hi1 hd.2 ?_ h
        intro b' hb' gl hgl
        simp only [dfire, Option.some.injEq] at hf
        rw [← hf] at hgl
        simp only [List.mem_append, List.mem_singleton] at hgl
        rcases hgl with hgl | rfl
        · exact hfr b' (.inr hb') gl hgl
        · exact hd.1 b' hb'
      | shutdown =>
        have hi1 : BInv r1 := binv_step hi (fun b' hb' => by cases hb') hst
        exact ih hi1 hd (fun b hb => fresh_step (by simp) (hfr b hb) hf) h
      | expStart f =>
        have hi1 : BInv r1 := binv_step hi (fun b' hb' => by cases hb') hst
        exact ih hi1 hd (fun b hb => fresh_step (by simp) (hfr b hb) hf) h
      | expEnd f o a =>
        have hi1 : BInv r1 := binv_step hi (fun b' hb' => by cases hb') hst
        exact ih hi1 hd (fun b hb => fresh_step (by simp) (hfr b hb) hf) h
      | giveUp f k =>
        have hi1 : BInv r1 := binv_step hi (fun b' hb' => by cases hb') hst
        exact ih hi1 hd (fun b hb => fresh_step (by simp) (hfr b hb) hf) h

/-- **Bridge.** The observable trace of EVERY run of the direct LTS from the initial state — any number of callers, any
interleaving, any backend outcomes, `Send`s entering before or after the stop, `Shutdown` at any moment or never — in which the
`Send`s carry pairwise disjoint item lists (item ids unique; empty requests allowed) is accepted by the monitor `checkDirect` that
judges the traces of the real exporter: no export call entered after `Shutdown` returned is a retry. -/
theorem C03_direct_bridge (retry : Bool) (ls : List DLabel) (r : DRec) (hd : (sendsOf ls).Pairwise Disj)
    (hr : (DRec.start retry).run ls = some r) : checkDirect r.tr = true :=
  (checkDirect_iff r.tr).mpr
    (binv_run ls (binv_start retry) hd (fun b _ fl hfl => by simp [DRec.start, dinit] at hfl) hr).good

/-! ## 7. non-vacuity -/

/-- a flight in back-off at the stop: it ends kept, without a further call -/
def demoBackoff : List DLabel :=
  [.send [1, 2], .expStart 0, .expEnd 0 .trans .again, .shutdown, .giveUp 0 true]

/-- a `Send` entering after the stop: one late FIRST call, which fails and ends its `Send` with a shutdown error -/
def demoLate : List DLabel :=
  [.shutdown, .send [7], .expStart 0, .expEnd 0 .trans .keep]

/-- both, with more callers: back-off at the stop, a flight pending at the stop, a `Send` after the stop -/
def demoMixed : List DLabel :=
  [.send [1, 2], .expStart 0, .expEnd 0 .trans .again, .send [3], .shutdown, .giveUp 0 true, .expStart 1,
   .expEnd 1 .trans .keep, .send [4], .expStart 2, .expEnd 2 .ok .drop]

-- the back-off flight: stopped, in back-off with one attempt …
example : (drunFrom (dinit true) (demoBackoff.take 4)).map (fun s => (s.stopped, s.flights.map (fun fl => (fl.st, fl.attempts)))) =
    some (true, [(.backoff, 1)]) := by decide
-- … no further call, no end of a call (hypotheses of `C03_direct_backoff_ends_kept` met; its conclusion evaluated) …
example : ((drunFrom (dinit true) (demoBackoff.take 4)).bind (fun s => dfire s (.expStart 0))) = none := by decide
-- … it ends kept with the one attempt it had
example : (drunFrom (dinit true) demoBackoff).map (fun s => s.flights.map (fun fl => (fl.st, fl.attempts, fl.failures, fl.kept))) =
    some [(.done, 1, 1, true)] := by decide
example : ((DRec.start true).run demoBackoff).map (fun r => r.tr) =
    some [.es 0 [1, 2], .ee 0 true, .shutReq, .shutRet] := by decide

-- hypotheses of `C03_direct_no_retry_after_return` / `C03_direct_attempts_after_return`: a reachable stopped state in which an
-- `expStart` IS enabled (the late `Send`), and a run from it in which a flight goes from 0 to 1 attempt
example : ∃ s s', DReachable s ∧ s.stopped = true ∧ dfire s (.expStart 0) = some s' :=
  ⟨_, _, dreachable_of_drunFrom (demoLate.take 2) (DReachable.init true) rfl, rfl, rfl⟩
example : (drunFrom (dinit true) demoLate).map (fun s => s.flights.map (fun fl => (fl.st, fl.attempts, fl.kept))) =
    some [(.done, 1, true)] := by decide
-- the late `Send`: exactly one call after the return, a first call: accepted
example : ((DRec.start true).run demoLate).map (fun r => (r.tr, startsOf (evsAfter isShutRet r.tr), checkDirect r.tr)) =
    some ([.shutReq, .shutRet, .es 0 [7], .ee 0 true], [(0, [7])], true) := by decide
-- the same with retry disabled (`shutdown` = just "returned"): the failed late call is dropped
example : ((DRec.start false).run [.shutdown, .send [7], .expStart 0, .expEnd 0 .trans .drop]).map (fun r => checkDirect r.tr) =
    some true := by decide
-- with retry disabled no back-off ever exists; with the retry sender stopped none begins
example : (drunFrom (dinit false) [.send [1], .expStart 0, .expEnd 0 .trans .again]) = none := by decide
example : (drunFrom (dinit true) [.send [1], .shutdown, .expStart 0, .expEnd 0 .trans .again]) = none := by decide

-- the mixed run: two calls after the return (flights 1 and 2), both first calls; hypotheses of the bridge met
example : (sendsOf demoMixed).Pairwise Disj := by simp [sendsOf, demoMixed, Disj]
example : ((DRec.start true).run demoMixed).map (fun r => (startsOf (evsAfter isShutRet r.tr), lateRetries r.tr, checkDirect r.tr)) =
    some ([(1, [3]), (2, [4])], [], true) := by decide
example : ((DRec.start true).run demoMixed).map (fun r => r.s.flights.map (fun fl => (fl.st, fl.attempts, fl.kept))) =
    some [(.done, 1, true), (.done, 1, true), (.done, 1, false)] := by decide

-- hand-made BAD traces: a retry after the return is rejected (same items; a sub-list after a partial failure; second of two chains)
example : lateRetries [.es 0 [1], .ee 0 true, .shutReq, .shutRet, .es 1 [1]] = [1] := by decide
example : checkDirect [.es 0 [1], .ee 0 true, .shutReq, .shutRet, .es 1 [1]] = false := by decide
example : checkDirect [.es 0 [1, 2], .ee 0 true, .shutReq, .shutRet, .es 1 [2]] = false := by decide
example : lateRetries [.es 0 [1], .es 1 [5], .ee 0 true, .ee 1 true, .shutReq, .shutRet, .es 2 [9], .es 3 [5], .ee 3 false] = [3] := by
  decide
-- a retry BEFORE the return is none of this monitor's business; an open call at the return neither (callers' goroutines)
example : checkDirect [.es 0 [1], .ee 0 true, .es 1 [1], .shutReq, .shutRet, .ee 1 true] = true := by decide
-- without the disjointness hypothesis the bridge's conclusion can fail (two `Send`s with the same item id look like a retry):
example : ((DRec.start true).run [.send [1], .expStart 0, .shutdown, .send [1], .expStart 1]).map (fun r => checkDirect r.tr) =
    some false := by decide

end OtelVerif.C03.Direct
