import OtelVerif.Model.C03RefCount
/-!
# C03 — `refCountDone`: the request's `Done` fires exactly once, after the last part, with the JOIN of all part errors
(non-nil iff some part failed; shutdown-classified iff some part ended with a shutdown error), whatever the finishing order.
-/
namespace OtelVerif.C03.RefCount

theorem joins : Shape.doneJoinsAll = true := by decide

theorem fold_state (parts : List PErr) (r : RCD) :
    (parts.foldl RCD.onDone r).err = r.err ++ joined parts ∧ (parts.foldl RCD.onDone r).refCount = r.refCount - parts.length := by
  induction parts generalizing r with
  | nil => simp [joined]
  | cons p ps ih =>
    obtain ⟨h1, h2⟩ := ih (r.onDone p)
    simp only [List.foldl_cons, h1, h2]
    constructor
    · cases p <;> simp [RCD.onDone, joins, mappend, joined]
    · simp only [RCD.onDone, List.length_cons]; omega

theorem fold_fired (parts : List PErr) (r : RCD) (hpos : (parts.length : Int) < r.refCount) :
    (parts.foldl RCD.onDone r).fired = r.fired := by
  induction parts generalizing r with
  | nil => rfl
  | cons p ps ih =>
    simp only [List.foldl_cons]
    have hne : r.refCount - 1 ≠ 0 := by simp only [List.length_cons] at hpos; omega
    have h1 : (r.onDone p).fired = r.fired := by simp [RCD.onDone, hne]
    have h2 : (r.onDone p).refCount = r.refCount - 1 := rfl
    rw [ih (r.onDone p) (by rw [h2]; simp only [List.length_cons] at hpos; omega), h1]

/-- **Fires exactly once, with the join.**  A request split into `n ≥ 1` parts: after the `n` calls of `OnDone` — in ANY order of the
parts — the wrapped `Done` has been called exactly once and received the join of ALL part errors; after fewer calls it has not been called. -/
theorem C03_refcount_fires_once (parts : List PErr) (hn : 0 < parts.length) :
    (RCD.run parts.length parts).fired = [joined parts] ∧
    ∀ k, k < parts.length → (RCD.run parts.length (parts.take k)).fired = [] := by
  constructor
  · obtain ⟨l, x, rfl⟩ : ∃ l x, parts = l ++ [x] := by
      cases h : parts.reverse with
      | nil => simp at h; subst h; simp at hn
      | cons x l => exact ⟨l.reverse, x, by simpa using congrArg List.reverse h⟩
    simp only [RCD.run, List.foldl_append, List.foldl_cons, List.foldl_nil]
    have hf := fold_fired l (RCD.new (l ++ [x]).length) (by simp [RCD.new]; omega)
    obtain ⟨he, hc⟩ := fold_state l (RCD.new (l ++ [x]).length)
    have hz : (List.foldl RCD.onDone (RCD.new (l ++ [x]).length) l).refCount - 1 = 0 := by
      rw [hc]; simp [RCD.new]; omega
    simp only [RCD.onDone, hz, if_true, hf, he, joins]
    cases x <;> simp [RCD.new, mappend, joined, List.filter_append]
  · intro k hk
    have := fold_fired (parts.take k) (RCD.new parts.length) (by simp [RCD.new]; omega)
    simpa [RCD.run, RCD.new] using this

/-- **Non-nil iff some part failed** -/
theorem C03_refcount_nonnil_iff (parts : List PErr) : nonNil (joined parts) = true ↔ ∃ p ∈ parts, p ≠ .ok := by
  simp [nonNil, joined, List.filter_eq_nil_iff]

/-- **Shutdown-classified iff some part ended with a shutdown error** — so a persistent queue (`onDone`: `if experr.IsShutdownErr(err)
{ return }` before deleting, `Shape.persistentKeepsOnShutdownErr`) keeps the WHOLE request iff some part was interrupted by the
shutdown, whatever the other parts did (succeeded, failed permanently, ran out of retries) and in whatever order they finished. -/
theorem C03_refcount_shutdown_iff (parts : List PErr) : isShutdown (joined parts) = true ↔ PErr.shutdown ∈ parts := by
  simp [isShutdown, joined, List.mem_filter]

/-- finishing order is irrelevant for both classifications -/
theorem C03_refcount_order_irrelevant {a b : List PErr} (h : a.Perm b) :
    nonNil (joined a) = nonNil (joined b) ∧ isShutdown (joined a) = isShutdown (joined b) := by
  constructor
  · rw [Bool.eq_iff_iff, C03_refcount_nonnil_iff, C03_refcount_nonnil_iff]
    exact ⟨fun ⟨p, hp, hne⟩ => ⟨p, h.mem_iff.mp hp, hne⟩, fun ⟨p, hp, hne⟩ => ⟨p, h.mem_iff.mpr hp, hne⟩⟩
  · rw [Bool.eq_iff_iff, C03_refcount_shutdown_iff, C03_refcount_shutdown_iff]
    exact h.mem_iff

/-- the two seeded variants are NOT this function: keeping the first error only / the last error only loses the classification -/
example : isShutdown (joined [.final, .ok, .shutdown]) = true ∧ isShutdown [PErr.final] = false ∧
    nonNil (joined [.final, .ok, .ok]) = true ∧ nonNil (mappend [] PErr.ok) = false := by decide
example : (RCD.run 3 [.final, .ok, .shutdown]).fired = [[.final, .shutdown]] := by decide
example : (RCD.run 3 [.final, .ok]).fired = [] := by decide

end OtelVerif.C03.RefCount
