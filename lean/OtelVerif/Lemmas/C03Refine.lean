import OtelVerif.Model.C03Spec
import OtelVerif.Props.C03
/-!
# C03 — the shutdown LTS refines the abstract specification `Model/C03Spec.lean`

1. `C03_spec_invariant`: the spec's own invariant (immediate from the guards of `ret`).
2. `C03_refines_spec`: forward simulation — every step of the LTS from a reachable state is one `AStep` or a stutter.
3. `C03_run_refines_spec`: every run of the LTS induces a run of the spec.
4. the property's clauses read off the spec invariant through `abs`.
-/
namespace OtelVerif.C03
open Spec

/-! ## 1. the invariant of the specification -/

def SpecInv (a : AState) : Prop :=
  a.returned = true →
    a.requested = true ∧ a.active = 0 ∧ (a.persistent = false → a.owed = []) ∧ (a.persistent = true → ∀ x ∈ a.owed, x ∈ a.stored)

theorem specInv_step {a b : AState} (h : SpecInv a) (hs : AStep a b) : SpecInv b := by
  cases hs with
  | accept xs hr => intro hret; have := (h hret).1; rw [hr] at this; cases this
  | lateAccept xs hr hp =>
    intro hret
    obtain ⟨h1, h2, h3, h4⟩ := h hret
    exact ⟨h1, h2, h3, fun _ x hx => List.mem_append_left _ (h4 hp x hx)⟩
  | request hr => intro hret; have := (h hret).1; rw [hr] at this; cases this
  | work e st ac hr _ _ _ => intro hret; have hret' : a.returned = true := hret; rw [hr] at hret'; cases hret'
  | ret h1 h2 h3 h4 h5 => intro _; exact ⟨h1, h3, h4, h5⟩

theorem specInv_reach {a : AState} (h : AReach a) : SpecInv a := by
  obtain ⟨a0, hi, hst⟩ := h
  induction hst with
  | refl => intro hr; rw [hi.2.1] at hr; cases hr
  | tail _ hs ih => exact specInv_step ih hs

/-- **Spec invariant.** In every abstract state reachable from an initial one: once `Shutdown` has returned nothing is active,
nothing is owed (memory queue) / everything owed is still stored (persistent queue) — and this stays so for ever
(`AReach` is closed under `AStep`). -/
theorem C03_spec_invariant {a : AState} (h : AReach a) (hr : a.returned = true) :
    a.active = 0 ∧ (a.persistent = false → a.owed = []) ∧ (a.persistent = true → ∀ x ∈ a.owed, x ∈ a.stored) :=
  (specInv_reach h hr).2

theorem areach_star {a b : AState} (h : AReach a) (hs : AStar a b) : AReach b := by
  induction hs with
  | refl => exact h
  | tail _ hs ih => obtain ⟨a0, hi, h0⟩ := ih; exact ⟨a0, hi, .tail h0 hs⟩

theorem astar_trans {a b c : AState} (h1 : AStar a b) (h2 : AStar b c) : AStar a c := by
  induction h2 with
  | refl => exact h1
  | tail _ hs ih => exact .tail ih hs

/-! ## helpers -/

theorem AState.ext' {a b : AState} (h1 : a.persistent = b.persistent) (h2 : a.requested = b.requested) (h3 : a.returned = b.returned)
    (h4 : a.owed = b.owed) (h5 : a.ended = b.ended) (h6 : a.stored = b.stored) (h7 : a.active = b.active) : a = b := by
  cases a; cases b; simp_all

theorem mem_settledItems {p : Bool} {fs : List Flight} {x : Item} :
    x ∈ settledItems p fs ↔ ∃ fl ∈ fs, settled p fl = true ∧ x ∈ fl.batch := by
  simp only [settledItems, List.mem_flatMap]
  constructor
  · rintro ⟨fl, hfl, hx⟩
    by_cases hs : settled p fl = true
    · rw [if_pos hs] at hx; exact ⟨fl, hfl, hs, hx⟩
    · rw [if_neg hs] at hx; simp at hx
  · rintro ⟨fl, hfl, hs, hx⟩
    exact ⟨fl, hfl, by rw [if_pos hs]; exact hx⟩

theorem settled_of_not_done {p : Bool} {fl : Flight} (h : fl.st ≠ .done) : settled p fl = false := by
  simp [settled, h]

theorem settled_mono_set {p : Bool} {fs : List Flight} {f : Nat} {fl v : Flight} {x : Item} (hfl : fs[f]? = some fl)
    (hns : settled p fl = false) (hx : x ∈ settledItems p fs) : x ∈ settledItems p (fs.set f v) := by
  obtain ⟨gl, hgl, hs, hxb⟩ := mem_settledItems.mp hx
  exact mem_settledItems.mpr ⟨gl, mem_set_of_ne hfl hgl (by intro he; rw [he, hns] at hs; cases hs), hs, hxb⟩

theorem settledItems_append_new (p : Bool) (fs : List Flight) (b : Batch) (o : Option Nat) :
    settledItems p (fs ++ [Flight.new b o]) = settledItems p fs := by
  simp [settledItems, settled, Flight.new, List.flatMap_append]

theorem fresh_filter_mono {l e e' : List Item} (h : ∀ x ∈ e, x ∈ e') :
    l.filter (fresh e') = (l.filter (fresh e)).filter (fresh e') := by
  rw [List.filter_filter]
  apply List.filter_congr
  intro x _
  by_cases hx : x ∈ e'
  · simp [fresh, hx]
  · have : x ∉ e := fun h' => hx (h x h')
    simp [fresh, hx, this]

theorem releaseOwner_length (cs : List CSt) (f : Nat) (o : Option Nat) : (releaseOwner cs f o).length = cs.length := by
  cases o with
  | none => rfl
  | some i => simp only [releaseOwner]; split <;> simp

theorem cons_length_step {s s' : State} {l : Label} (hs : Step s l s') : s'.cons.length = s.cons.length := by
  cases hs <;> first | rfl | simp [finalise, releaseOwner_length]

theorem cons_ne_nil_step {s s' : State} {l : Label} (hf : fire s l = some s') (hn : s.cons ≠ []) : s'.cons ≠ [] := by
  have := cons_length_step (fire_step hf)
  intro h
  rw [h] at this
  exact hn (List.length_eq_zero_iff.mp this.symm)

/-- after `Shutdown` has returned the only enabled steps are late offers -/
theorem returned_only_offer {s s' : State} {l : Label} (h : Reachable s) (hp : s.phase = 5) (hs : Step s l s') : ∃ b, l = .offer b := by
  obtain ⟨hall, _, _, htimer, hdone, _⟩ := C03_quiet h hp
  have hc : ∀ {i : Nat} {c : CSt}, s.cons[i]? = some c → c = .exited := fun hc => hall _ (mem_of_getElem? hc)
  have hd : ∀ {f : Nat} {fl : Flight}, s.flights[f]? = some fl → fl.st = .done := fun hf => hdone _ (mem_of_getElem? hf)
  cases hs with
  | offer b => exact ⟨b, rfl⟩
  | read i b late rest hc' hq hg => exact absurd (hc hc') (by simp)
  | exit i hc' hp' hq => exact absurd (hc hc') (by simp)
  | sendSync i b hc' hb => exact absurd (hc hc') (by simp)
  | consume i b flush keep hc' hb hp' => exact absurd (hc hc') (by simp)
  | spawn i b rest hc' hw => exact absurd (hc hc') (by simp)
  | timerTake b ht hc' => rw [ht] at htimer; cases htimer
  | timerSpawn b ht hw => rw [ht] at htimer; cases htimer
  | timerExit ht hp' => rw [ht] at htimer; cases htimer
  | expStart f fl hfl hst =>
    have := hd hfl
    cases hst with
    | inl h1 => rw [h1] at this; cases this
    | inr h1 => rw [h1] at this; cases this
  | expEndDrop f fl o hfl hst => have := hd hfl; rw [hst] at this; cases this
  | expEndAgain f fl hfl hst hr hp0 => have := hd hfl; rw [hst] at this; cases this
  | expEndKeep f fl hfl hst hr hp' => have := hd hfl; rw [hst] at this; cases this
  | giveUp f fl kept hfl hst hk => have := hd hfl; rw [hst] at this; cases this
  | shutRetry hp' => omega
  | shutQueue hp' => omega
  | join hp' hall' => omega
  | shutBatcher hp' hh => omega
  | shutSpawn b hh hp' hw => omega
  | shutWait hp' hb => omega

/-- any step that keeps `cfg`, `early`, "requested", is not after the return, only lets flights settle and only drops settled
items from storage is a `work` step of the spec -/
theorem work_sim {s s' : State} (hcfg : s'.cfg = s.cfg) (he : s'.early = s.early)
    (hreq : decide (1 ≤ s'.phase) = decide (1 ≤ s.phase)) (h5 : s.phase ≠ 5) (h5' : s'.phase ≠ 5)
    (hsub : ∀ x ∈ (abs s).ended, x ∈ (abs s').ended) (hst : ∀ x ∈ s'.stored, x ∈ s.stored)
    (hlost : ∀ x ∈ s.stored, x ∈ s'.stored ∨ x ∈ (abs s').ended) : AStep (abs s) (abs s') := by
  have e : abs s' = { abs s with ended := (abs s').ended, owed := (abs s).owed.filter (fresh (abs s').ended),
                                 stored := s'.stored, active := activeCount s' } := by
    apply AState.ext'
    · show s'.cfg.persistent = s.cfg.persistent; rw [hcfg]
    · exact hreq
    · show decide (s'.phase = 5) = decide (s.phase = 5); simp [h5, h5']
    · show s'.early.filter (fresh (abs s').ended) = (s.early.filter (fresh (abs s).ended)).filter (fresh (abs s').ended)
      rw [he]; exact fresh_filter_mono hsub
    · rfl
    · rfl
    · rfl
  rw [e]
  exact AStep.work (abs s) _ _ _ (by simp [abs, h5]) hsub hst hlost

/-- … in particular a step that leaves the settled flights and the storage alone -/
theorem work_same {s s' : State} (hcfg : s'.cfg = s.cfg) (he : s'.early = s.early)
    (hfl : settledItems s.cfg.persistent s'.flights = settledItems s.cfg.persistent s.flights) (hst : s'.stored = s.stored)
    (hreq : decide (1 ≤ s'.phase) = decide (1 ≤ s.phase)) (h5 : s.phase ≠ 5) (h5' : s'.phase ≠ 5) : AStep (abs s) (abs s') := by
  have hend : (abs s').ended = (abs s).ended := by
    show settledItems s'.cfg.persistent s'.flights = settledItems s.cfg.persistent s.flights
    rw [hcfg, hfl]
  refine work_sim hcfg he hreq h5 h5' ?_ ?_ ?_
  · intro x hx; rw [hend]; exact hx
  · intro x hx; rw [hst] at hx; exact hx
  · intro x hx; left; rw [hst]; exact hx

theorem finalise_sim {s : State} {f : Nat} {fl : Flight} (kept : Bool) (fail : Nat) (hfl : s.flights[f]? = some fl)
    (hnd : fl.st ≠ .done) (h5 : s.phase ≠ 5) : AStep (abs s) (abs (finalise s f fl kept fail)) := by
  have hlt : f < s.flights.length := (List.getElem?_eq_some_iff.mp hfl).1
  refine work_sim rfl rfl rfl h5 h5 ?_ ?_ ?_
  · intro x hx
    exact settled_mono_set hfl (settled_of_not_done hnd) hx
  · intro x hx
    have hx' : x ∈ (if kept then s.stored else s.stored.filter (fun x => !fl.batch.contains x)) := hx
    cases kept with
    | true => simpa using hx'
    | false => simp at hx'; exact hx'.1
  · intro x hx
    cases kept with
    | true => exact .inl hx
    | false =>
      by_cases hxb : x ∈ fl.batch
      · right
        show x ∈ settledItems s.cfg.persistent (s.flights.set f { fl with st := .done, failures := fl.failures + fail, kept := false })
        refine mem_settledItems.mpr ⟨{ fl with st := .done, failures := fl.failures + fail, kept := false }, ?_, by simp [settled], hxb⟩
        exact List.mem_iff_getElem?.mpr ⟨f, by simp [hlt]⟩
      · left
        show x ∈ (if false then s.stored else s.stored.filter (fun x => !fl.batch.contains x))
        simp [hx, hxb]

/-! ## 2. forward simulation -/

/-- **Refinement.** Every step of the LTS from a reachable state (with at least one consumer) is a step of the specification or
leaves the abstract state unchanged.  The `shutWait` step (Shutdown returns) is the spec's `ret`, whose guard is discharged by
`C03_quiet`, `C03_memory_drained` and `C03_persistent_kept`. -/
theorem C03_refines_spec {s s' : State} {l : Label} (h : Reachable s) (hf : fire s l = some s') (hn : s.cons ≠ []) :
    AStep (abs s) (abs s') ∨ abs s' = abs s := by
  have hs := fire_step hf
  have h5 : (∀ b, l ≠ .offer b) → s.phase ≠ 5 := fun hl hp => by
    obtain ⟨b, hb⟩ := returned_only_offer h hp hs; exact hl b hb
  have hr' : Reachable s' := Reachable.step l h hf
  cases hs with
  | offer b hopen =>
    by_cases hp0 : s.phase = 0
    · left
      have e : abs { s with
            queue := s.queue ++ [(b, decide (1 ≤ s.phase))], accepted := s.accepted ++ b
            early := if s.phase = 0 then s.early ++ b else s.early
            stored := if s.cfg.persistent then s.stored ++ b else s.stored
            reqs := s.reqs ++ [b], qsize := s.qsize + reqSize s.cfg b } =
          { abs s with owed := (abs s).owed ++ b.filter (fresh (abs s).ended)
                       stored := if (abs s).persistent then (abs s).stored ++ b else (abs s).stored } := by
        apply AState.ext' <;> simp [abs, activeCount, hp0, List.filter_append]
      rw [e]
      exact AStep.accept _ b (by simp [abs, hp0])
    · by_cases hpers : s.cfg.persistent = true
      · left
        have e : abs { s with
              queue := s.queue ++ [(b, decide (1 ≤ s.phase))], accepted := s.accepted ++ b
              early := if s.phase = 0 then s.early ++ b else s.early
              stored := if s.cfg.persistent then s.stored ++ b else s.stored
              reqs := s.reqs ++ [b], qsize := s.qsize + reqSize s.cfg b } =
            { abs s with stored := (abs s).stored ++ b } := by
          apply AState.ext' <;> simp [abs, activeCount, hp0, hpers]
        rw [e]
        exact AStep.lateAccept _ b (by simp [abs]; omega) (by simp [abs, hpers])
      · right
        apply AState.ext' <;> simp [abs, activeCount, hp0, hpers]
  | read i b late rest hc hq hg => exact .inl (work_same rfl rfl rfl rfl rfl (h5 (by intro _ hb; cases hb)) (h5 (by intro _ hb; cases hb)))
  | exit i hc hp hq => exact .inl (work_same rfl rfl rfl rfl rfl (h5 (by intro _ hb; cases hb)) (h5 (by intro _ hb; cases hb)))
  | sendSync i b hc hb =>
    exact .inl (work_same rfl rfl (settledItems_append_new _ _ _ _) rfl rfl (h5 (by intro _ hb; cases hb)) (h5 (by intro _ hb; cases hb)))
  | consume i b flush keep hc hb hp =>
    exact .inl (work_same rfl rfl rfl rfl rfl (h5 (by intro _ hb; cases hb)) (h5 (by intro _ hb; cases hb)))
  | spawn i b rest hc hw =>
    exact .inl (work_same rfl rfl (settledItems_append_new _ _ _ _) rfl rfl (h5 (by intro _ hb; cases hb)) (h5 (by intro _ hb; cases hb)))
  | timerTake b ht hc => exact .inl (work_same rfl rfl rfl rfl rfl (h5 (by intro _ hb; cases hb)) (h5 (by intro _ hb; cases hb)))
  | timerSpawn b ht hw =>
    exact .inl (work_same rfl rfl (settledItems_append_new _ _ _ _) rfl rfl (h5 (by intro _ hb; cases hb)) (h5 (by intro _ hb; cases hb)))
  | timerExit ht hp => exact .inl (work_same rfl rfl rfl rfl rfl (h5 (by intro _ hb; cases hb)) (h5 (by intro _ hb; cases hb)))
  | expStart f fl hfl hst =>
    have hnd : fl.st ≠ .done := by cases hst with | inl h1 => simp [h1] | inr h1 => simp [h1]
    have h5' := h5 (by intro _ hb; cases hb)
    exact .inl (work_sim rfl rfl rfl h5' h5' (fun x hx => settled_mono_set hfl (settled_of_not_done hnd) hx) (fun _ hx => hx) (fun _ hx => .inl hx))
  | expEndDrop f fl o hfl hst => exact .inl (finalise_sim false (failOf o) hfl (by simp [hst]) (h5 (by intro _ hb; cases hb)))
  | expEndAgain f fl hfl hst hr hp0 =>
    have hnd : fl.st ≠ .done := by simp [hst]
    have h5' := h5 (by intro _ hb; cases hb)
    exact .inl (work_sim rfl rfl rfl h5' h5' (fun x hx => settled_mono_set hfl (settled_of_not_done hnd) hx) (fun _ hx => hx) (fun _ hx => .inl hx))
  | expEndKeep f fl hfl hst hr hp => exact .inl (finalise_sim true 1 hfl (by simp [hst]) (h5 (by intro _ hb; cases hb)))
  | giveUp f fl kept hfl hst hk => exact .inl (finalise_sim kept 0 hfl (by simp [hst]) (h5 (by intro _ hb; cases hb)))
  | shutRetry hp =>
    left
    have e : abs { s with phase := 1 } = { abs s with requested := true } := by
      apply AState.ext' <;> simp [abs, hp, activeCount]
    rw [e]
    exact AStep.request _ (by simp [abs, hp])
  | shutQueue hp => right; apply AState.ext' <;> simp [abs, hp, activeCount]
  | join hp hall => right; apply AState.ext' <;> simp [abs, hp, activeCount]
  | shutBatcher hp hh =>
    exact .inl (work_same rfl rfl rfl rfl (by simp [hp]) (by omega) (by simp))
  | shutSpawn b hh hp hw =>
    exact .inl (work_same rfl rfl (settledItems_append_new _ _ _ _) rfl rfl (by omega) (by show s.phase ≠ 5; omega))
  | shutWait hp hb =>
    left
    obtain ⟨hall, hcur, hhand, htimer, hdone, _⟩ := C03_quiet hr' rfl
    have hcur : s.cur = none := hcur
    have hhand : s.shutHand = none := hhand
    have htimer : s.timer = .dead := htimer
    have e : abs { s with phase := 5 } = { abs s with returned := true } := by
      apply AState.ext' <;> simp [abs, hp, activeCount]
    rw [e]
    refine AStep.ret _ (by simp [abs, hp]) (by simp [abs, hp]) ?_ ?_ ?_
    · show activeCount s = 0
      have h1 : s.cons.filter (fun c => c != .exited) = [] :=
        List.filter_eq_nil_iff.mpr (fun c hc => by simp [hall c hc])
      have h2 : s.flights.filter (fun fl => fl.st != .done) = [] :=
        List.filter_eq_nil_iff.mpr (fun fl hfl => by simp [hdone fl hfl])
      simp [activeCount, h1, h2, hcur, hhand, htimer]
    · intro hm
      have hm' : s.cfg.persistent = false := hm
      show s.early.filter (fresh (settledItems s.cfg.persistent s.flights)) = []
      apply List.filter_eq_nil_iff.mpr
      intro x hx
      obtain ⟨fl, hfl, hxb, hd, _⟩ := C03_memory_drained hr' rfl hm' hn x hx
      have : x ∈ settledItems s.cfg.persistent s.flights := mem_settledItems.mpr ⟨fl, hfl, by simp [settled, hd, hm'], hxb⟩
      simp [fresh, this]
    · intro hpers x hx
      have hpers' : s.cfg.persistent = true := hpers
      have hx' : x ∈ s.early.filter (fresh (settledItems s.cfg.persistent s.flights)) := hx
      obtain ⟨hxe, hxf⟩ := List.mem_filter.mp hx'
      cases C03_persistent_kept h hpers' x hxe with
      | inl h1 => exact h1
      | inr h1 =>
        obtain ⟨fl, hfl, hxb, hd, hk, _⟩ := h1
        have : x ∈ settledItems s.cfg.persistent s.flights := mem_settledItems.mpr ⟨fl, hfl, by simp [settled, hd, hk], hxb⟩
        simp [fresh, this] at hxf

/-! ## 3. runs -/

theorem run_refines {s0 s : State} (ls : List Label) (h : Reachable s0) (hn : s0.cons ≠ []) (hr : runFrom s0 ls = some s) :
    AStar (abs s0) (abs s) := by
  induction ls generalizing s0 with
  | nil => simp [runFrom] at hr; subst hr; exact .refl _
  | cons l ls ih =>
    simp only [runFrom] at hr
    cases hf : fire s0 l with
    | none => simp [hf] at hr
    | some s1 =>
      simp [hf] at hr
      have hrest := ih (Reachable.step l h hf) (cons_ne_nil_step hf hn) hr
      cases C03_refines_spec h hf hn with
      | inl hstep => exact astar_trans (.tail (.refl _) hstep) hrest
      | inr heq => rw [heq] at hrest; exact hrest

/-- **Every run of the LTS is a run of the spec.** -/
theorem C03_run_refines_spec (cfg : Cfg) (n w : Nat) (t : Bool) (ls : List Label) (s : State) (hn : 0 < n)
    (hr : runFrom (init cfg n w t) ls = some s) : AStar (abs (init cfg n w t)) (abs s) := by
  refine run_refines ls (Reachable.init cfg n w t) ?_ hr
  cases n with
  | zero => omega
  | succ k => simp [init, List.replicate_succ]

theorem abs_init_AInit (cfg : Cfg) (n w : Nat) (t : Bool) : AInit (abs (init cfg n w t)) := by
  simp [AInit, abs, init]

/-- the abstraction of every state of a run is a reachable state of the spec -/
theorem abs_areach {cfg : Cfg} {n w : Nat} {t : Bool} {ls : List Label} {s : State} (hn : 0 < n)
    (hr : runFrom (init cfg n w t) ls = some s) : AReach (abs s) :=
  ⟨_, abs_init_AInit cfg n w t, C03_run_refines_spec cfg n w t ls s hn hr⟩

/-! ## 4. the property's clauses, read off the spec invariant -/

/-- **Memory queue.** Shutdown returned ⇒ nothing is owed ⇒ every early item lies in a flight that has ended. -/
theorem C03_spec_memory_clause {cfg : Cfg} {n w : Nat} {t : Bool} {ls : List Label} {s : State} (hn : 0 < n)
    (hr : runFrom (init cfg n w t) ls = some s) (hp : s.phase = 5) (hm : s.cfg.persistent = false) (x : Item) (hx : x ∈ s.early) :
    ∃ fl ∈ s.flights, fl.st = .done ∧ x ∈ fl.batch := by
  have hnil : s.early.filter (fresh (settledItems s.cfg.persistent s.flights)) = [] :=
    (C03_spec_invariant (abs_areach hn hr) (by simp [abs, hp])).2.1 hm
  have := List.filter_eq_nil_iff.mp hnil x hx
  simp only [fresh, Bool.not_eq_true', Bool.not_eq_false, List.contains_iff_mem] at this
  obtain ⟨fl, hfl, hs, hxb⟩ := mem_settledItems.mp this
  simp only [settled, Bool.and_eq_true, beq_iff_eq] at hs
  exact ⟨fl, hfl, hs.1, hxb⟩

theorem filter_nil_of_length {α : Type} {p : α → Bool} {l : List α} (h : (l.filter p).length = 0) : ∀ x ∈ l, p x = false := by
  intro x hx
  have := List.filter_eq_nil_iff.mp (List.length_eq_zero_iff.mp h) x hx
  simpa using this

/-- **Quiet.** Shutdown returned ⇒ `active = 0` ⇒ every consumer has exited, the timer goroutine is gone, every flight has ended,
no batch is in hand. -/
theorem C03_spec_quiet_clause {cfg : Cfg} {n w : Nat} {t : Bool} {ls : List Label} {s : State} (hn : 0 < n)
    (hr : runFrom (init cfg n w t) ls = some s) (hp : s.phase = 5) :
    (∀ c ∈ s.cons, c = .exited) ∧ s.timer = .dead ∧ (∀ fl ∈ s.flights, fl.st = .done) ∧ s.shutHand = none ∧ s.cur = none := by
  have h0 : activeCount s = 0 := (C03_spec_invariant (abs_areach hn hr) (by simp [abs, hp])).1
  unfold activeCount at h0
  have h1 : (s.cons.filter (fun c => c != .exited)).length = 0 := by omega
  have h2 : (if s.timer = .dead then 0 else 1) = 0 := by omega
  have h3 : (s.flights.filter (fun fl => fl.st != .done)).length = 0 := by omega
  have h4 : (if s.shutHand.isSome then 1 else 0) = 0 := by omega
  have h5 : (if s.cur.isSome then 1 else 0) = 0 := by omega
  refine ⟨?_, ?_, ?_, ?_, ?_⟩
  · intro c hc; have := filter_nil_of_length h1 c hc; simpa using this
  · by_cases ht : s.timer = .dead
    · exact ht
    · simp [ht] at h2
  · intro fl hfl; have := filter_nil_of_length h3 fl hfl; simpa using this
  · cases hh : s.shutHand with
    | none => rfl
    | some b => simp [hh] at h4
  · cases hh : s.cur with
    | none => rfl
    | some b => simp [hh] at h5

/-- **Persistent queue.** Shutdown returned ⇒ everything owed is stored ⇒ every early item is still durably stored or lies in a
flight that ended without a shutdown error. -/
theorem C03_spec_persistent_clause {cfg : Cfg} {n w : Nat} {t : Bool} {ls : List Label} {s : State} (hn : 0 < n)
    (hr : runFrom (init cfg n w t) ls = some s) (hp : s.phase = 5) (hpq : s.cfg.persistent = true) (x : Item) (hx : x ∈ s.early) :
    x ∈ s.stored ∨ ∃ fl ∈ s.flights, fl.st = .done ∧ fl.kept = false ∧ x ∈ fl.batch := by
  have hsub : ∀ x ∈ s.early.filter (fresh (settledItems s.cfg.persistent s.flights)), x ∈ s.stored :=
    (C03_spec_invariant (abs_areach hn hr) (by simp [abs, hp])).2.2 hpq
  by_cases hs : x ∈ settledItems s.cfg.persistent s.flights
  · right
    obtain ⟨fl, hfl, hst, hxb⟩ := mem_settledItems.mp hs
    simp only [settled, hpq, Bool.true_and, Bool.and_eq_true, beq_iff_eq, Bool.not_eq_true'] at hst
    exact ⟨fl, hfl, hst.1, hst.2, hxb⟩
  · left
    exact hsub x (List.mem_filter.mpr ⟨hx, by simp [fresh, hs]⟩)

/-! ## 5. non-vacuity: the demo schedules of `Props/C03.lean` seen through `abs` -/

def absTrace (s : State) (ls : List Label) (k : Nat) : Option (Bool × Bool × List Item × Nat) :=
  (runFrom s (ls.take k)).map (fun s => ((abs s).requested, (abs s).returned, (abs s).owed, (abs s).active))

/-- memory queue: before the request everything accepted and not yet exported is owed and work is active … -/
example : absTrace (init { persistent := false, batching := true, retry := true } 1 1 true) demoSchedule 9 =
    some (false, false, [1, 2, 3, 4, 5], 4) := by decide
/-- … after the request the owed set shrinks as flights end … -/
example : absTrace (init { persistent := false, batching := true, retry := true } 1 1 true) demoSchedule 13 =
    some (true, false, [4, 5], 3) := by decide
/-- … and at the return nothing is owed, nothing is active -/
example : absTrace (init { persistent := false, batching := true, retry := true } 1 1 true) demoSchedule 23 =
    some (true, true, [], 0) := by decide
/-- persistent queue: at the return items 1 (shutdown-interrupted) and 3 (never read) are owed and stored -/
example : (demoPFinal.map (fun s => ((abs s).returned, (abs s).owed, (abs s).stored, (abs s).active))) =
    some (true, [1, 3], [1, 3], 0) := by decide
/-- the hypotheses of the clause theorems are met by the demo run -/
theorem demo_run_exists : ∃ s, runFrom (init { persistent := false, batching := true, retry := true } 1 1 true) demoSchedule = some s ∧
    s.phase = 5 ∧ s.cfg.persistent = false ∧ 3 ∈ s.early := by
  cases h : runFrom (init { persistent := false, batching := true, retry := true } 1 1 true) demoSchedule with
  | none => exact absurd h (by decide)
  | some s => exact ⟨s, rfl, by have : (some s).map (·.phase) = some 5 := h ▸ (by decide); simpa using this,
      by have : (some s).map (·.cfg.persistent) = some false := h ▸ (by decide); simpa using this,
      by have : (some s).map (fun s => decide (3 ∈ s.early)) = some true := h ▸ (by decide); simpa using this⟩
/-- … so `C03_spec_invariant` applies to a reachable abstract state that HAS returned, and `C03_refines_spec` to its last step -/
example : ∃ a, AReach a ∧ a.returned = true ∧ a.persistent = false := by
  obtain ⟨s, hr, hp, hm, _⟩ := demo_run_exists
  exact ⟨abs s, abs_areach (by decide) hr, by simp [abs, hp], hm⟩
example : ∃ s s' l, Reachable s ∧ fire s l = some s' ∧ s.cons ≠ [] ∧ (abs s').returned = true ∧ (abs s).returned = false := by
  refine ⟨{ init { persistent := false, batching := false, retry := false } 1 0 false with phase := 4, cons := [.exited] },
   { init { persistent := false, batching := false, retry := false } 1 0 false with phase := 5, cons := [.exited] }, .shutWait,
   ?_, rfl, by simp, rfl, rfl⟩
  exact reachable_of_runFrom [.shutRetry, .shutQueue, .exit 0, .join, .shutBatcher]
    (Reachable.init { persistent := false, batching := false, retry := false } 1 0 false) rfl
/-- the spec is not degenerate: `ret` is refused while something is owed by a memory queue -/
example : ¬ AStep { persistent := false, requested := true, returned := false, owed := [1], ended := [], stored := [], active := 0 }
    { persistent := false, requested := true, returned := true, owed := [1], ended := [], stored := [], active := 0 } := by
  intro h
  cases h
  next _ _ _ h4 _ => exact absurd (h4 rfl) (by decide)

end OtelVerif.C03
