import OtelVerif.Model.C03Replay
/-!
# C03: soundness of the trace replayer

Whatever state the replayer (`Model/C03Replay.lean`) reaches, it reached it by firing ENABLED labels of the LTS: the model state
of the result is obtained from the model state of the argument by a schedule (`runFrom … ls = some …`), hence it is `Reachable`.

Method: `Steps a b := ∃ ls, runFrom a ls = some b` (reflexive, transitive, contains every enabled `fire`); every function of the
replayer is shown to extend a `Steps a ·` fact about the model state of its argument to its result (predicate-transformer style:
`Steps a rs.s → Steps a (f rs).s`), because every change of `RS.s` goes through `fireL`, i.e. through `fire`.
-/
namespace OtelVerif.C03.Replay
open OtelVerif.C03

/-! ## schedules -/

theorem runFrom_append (s : State) (a b : List Label) :
    runFrom s (a ++ b) = (runFrom s a).bind (fun s' => runFrom s' b) := by
  induction a generalizing s with
  | nil => simp [runFrom]
  | cons l ls ih =>
    simp only [List.cons_append, runFrom]
    cases hf : fire s l with
    | none => simp
    | some s1 => simpa using ih s1

/-- `b` is obtained from `a` by a schedule of enabled labels -/
def Steps (a b : State) : Prop := ∃ ls, runFrom a ls = some b

theorem Steps.refl (a : State) : Steps a a := ⟨[], rfl⟩

theorem Steps.trans {a b c : State} (h1 : Steps a b) (h2 : Steps b c) : Steps a c := by
  obtain ⟨l1, h1⟩ := h1
  obtain ⟨l2, h2⟩ := h2
  exact ⟨l1 ++ l2, by rw [runFrom_append, h1]; simpa using h2⟩

theorem Steps.fire {a b : State} (l : Label) (h : fire a l = some b) : Steps a b :=
  ⟨[l], by simp [runFrom, h]⟩

theorem Steps.snoc {a b c : State} (l : Label) (h1 : Steps a b) (h : C03.fire b l = some c) : Steps a c :=
  h1.trans (Steps.fire l h)

theorem Steps.reachable {a b : State} (h : Steps a b) (ha : Reachable a) : Reachable b := by
  obtain ⟨ls, h⟩ := h
  exact reachable_of_runFrom ls ha h

/-! ## the building blocks -/

theorem fail_s (rs : RS) (k d : String) : (fail rs k d).s = rs.s := by
  unfold fail; split <;> rfl

theorem fail_steps {a : State} {rs : RS} (k d : String) (h : Steps a rs.s) : Steps a (fail rs k d).s := by
  rw [fail_s]; exact h

/-- `fireL` either keeps the model state or replaces it by the result of an enabled `fire` -/
theorem fireL_s (rs : RS) (l : Label) (ctx : String) :
    (fireL rs l ctx).s = rs.s ∨ ∃ s', C03.fire rs.s l = some s' ∧ (fireL rs l ctx).s = s' := by
  unfold fireL
  split
  · exact Or.inl rfl
  · split
    · next s' hf => exact Or.inr ⟨s', hf, rfl⟩
    · exact Or.inl (fail_s _ _ _)

theorem fireL_steps {a : State} {rs : RS} (l : Label) (ctx : String) (h : Steps a rs.s) : Steps a (fireL rs l ctx).s := by
  rcases fireL_s rs l ctx with he | ⟨s', hf, he⟩
  · rw [he]; exact h
  · rw [he]; exact h.snoc l hf

theorem foldl_steps {α : Type} {a : State} (f : RS → α → RS) (hf : ∀ rs x, Steps a rs.s → Steps a (f rs x).s)
    (l : List α) (rs : RS) (h : Steps a rs.s) : Steps a (l.foldl f rs).s := by
  induction l generalizing rs with
  | nil => exact h
  | cons x xs ih => exact ih _ (hf rs x h)

theorem repeatN_steps {a : State} (n : Nat) (f : RS → RS) (hf : ∀ rs, Steps a rs.s → Steps a (f rs).s)
    {rs : RS} (h : Steps a rs.s) : Steps a (repeatN n f rs).s := by
  unfold repeatN
  exact foldl_steps _ (fun rs _ h => hf rs h) _ rs h

theorem spawnAll_steps {a : State} {rs : RS} (h : Steps a rs.s) : Steps a (spawnAll rs).s := by
  unfold spawnAll
  refine foldl_steps _ (fun rs i h => ?_) _ rs h
  split
  · exact repeatN_steps _ _ (fun rs h => fireL_steps _ _ h) h
  · exact h

theorem exitAll_steps {a : State} {rs : RS} (h : Steps a rs.s) : Steps a (exitAll rs).s := by
  unfold exitAll
  refine foldl_steps _ (fun rs i h => ?_) _ rs h
  split
  · exact fireL_steps _ _ h
  · exact h
  · exact fail_steps _ _ h
  · exact h

theorem advance1_steps {a : State} {rs : RS} (h : Steps a rs.s) : Steps a (advance1 rs).s := by
  unfold advance1
  split
  · exact foldl_steps _ (fun rs f h => fireL_steps _ _ h) _ _ (fireL_steps (rs := rs) _ _ h)
  · exact fireL_steps _ _ h
  · exact fireL_steps _ _ (exitAll_steps (spawnAll_steps h))
  · exact fireL_steps _ _ h
  · exact h

theorem needPhase_steps {a : State} (k : Nat) {rs : RS} (h : Steps a rs.s) : Steps a (needPhase k rs).s := by
  unfold needPhase
  refine repeatN_steps _ _ (fun rs h => ?_) h
  split
  · exact advance1_steps h
  · exact h

theorem ensureOffered_steps {a : State} (rc : RCfg) {rs : RS} (ids : List Nat) (h : Steps a rs.s) :
    Steps a (ensureOffered rc rs ids).s := by
  unfold ensureOffered
  split
  · exact fail_steps _ _ h
  · split
    · exact h
    · exact fireL_steps (rs := rs) _ _ h

theorem startFlightLast_steps {a : State} {rs : RS} (call : Nat) (h : Steps a rs.s) :
    Steps a (startFlightLast rs call).s := by
  unfold startFlightLast
  exact fireL_steps (rs := rs) _ _ h

/-! ## one event -/
section Handle

-- the building blocks are opaque from here on (their `_steps` lemmas are all that is used): failed `apply`s fail fast
attribute [local irreducible] fail fireL repeatN spawnAll exitAll advance1 needPhase ensureOffered startFlightLast

/-- close a goal `Steps a (… rs …).s` by peeling the replayer's functions / case distinctions -/
local macro "steps_step" : tactic =>
  `(tactic| first
    | assumption
    | apply fireL_steps
    | apply fail_steps
    | apply startFlightLast_steps
    | apply spawnAll_steps
    | apply exitAll_steps
    | apply needPhase_steps
    | apply ensureOffered_steps
    | apply repeatN_steps _ _ (fun _ h => fireL_steps _ _ h)
    | apply foldl_steps _ (fun _ _ h => fireL_steps _ _ h)
    | apply foldl_steps _ (fun _ _ h => ensureOffered_steps _ _ h)
    | split)

theorem handle_acc_steps {a : State} (rc : RCfg) {rs : RS} (rid : Nat) (ids : List Nat) (rest : List TEv)
    (h : Steps a rs.s) : Steps a (handle rc rs (.acc rid ids) rest).s := by
  simp only [handle]
  repeat steps_step

theorem handle_ms_steps {a : State} (rc : RCfg) {rs : RS} (first : Bool) (cur req : List Nat) (res : List (List Nat))
    (keep : Bool) (rest : List TEv) (h : Steps a rs.s) : Steps a (handle rc rs (.ms first cur req res keep) rest).s := by
  simp only [handle]
  repeat steps_step

theorem handle_es_steps {a : State} (rc : RCfg) {rs : RS} (call : Nat) (ids : List Nat) (rest : List TEv)
    (h : Steps a rs.s) : Steps a (handle rc rs (.es call ids) rest).s := by
  simp only [handle]
  repeat steps_step

theorem handle_ee_steps {a : State} (rc : RCfg) {rs : RS} (call : Nat) (failed perm left : Bool) (rest : List TEv)
    (h : Steps a rs.s) : Steps a (handle rc rs (.ee call failed perm left) rest).s := by
  simp only [handle]
  repeat steps_step

theorem handle_shutreq_steps {a : State} (rc : RCfg) {rs : RS} (rest : List TEv)
    (h : Steps a rs.s) : Steps a (handle rc rs .shutreq rest).s := by
  simp only [handle]
  repeat steps_step

theorem handle_shutret_steps {a : State} (rc : RCfg) {rs : RS} (rest : List TEv)
    (h : Steps a rs.s) : Steps a (handle rc rs .shutret rest).s := by
  simp only [handle]
  repeat steps_step

theorem handle_steps {a : State} (rc : RCfg) {rs : RS} (e : TEv) (rest : List TEv)
    (h : Steps a rs.s) : Steps a (handle rc rs e rest).s := by
  cases e with
  | ss _ _ => simp only [handle]; split <;> exact h
  | rej _ _ => simp only [handle]; split <;> exact h
  | wshut => simp only [handle]; split <;> exact h
  | acc rid ids => exact handle_acc_steps rc rid ids rest h
  | ms first cur req res keep => exact handle_ms_steps rc first cur req res keep rest h
  | es call ids => exact handle_es_steps rc call ids rest h
  | ee call failed perm left => exact handle_ee_steps rc call failed perm left rest h
  | shutreq => exact handle_shutreq_steps rc rest h
  | shutret => exact handle_shutret_steps rc rest h

end Handle

/-! ## the whole trace -/

theorem go_steps {a : State} (rc : RCfg) (rs : RS) (t : List TEv) (h : Steps a rs.s) : Steps a (go rc rs t).s := by
  induction t generalizing rs with
  | nil => simpa only [go] using h
  | cons e rest ih => simp only [go]; exact ih _ (handle_steps rc e rest h)

theorem goUntilShutreq_steps {a : State} (rc : RCfg) (rs : RS) (t : List TEv) (h : Steps a rs.s) :
    Steps a (goUntilShutreq rc rs t).s := by
  induction t generalizing rs with
  | nil => simpa only [goUntilShutreq] using h
  | cons e rest ih =>
    cases e <;> simp only [goUntilShutreq] <;> first | exact h | exact ih _ (handle_steps rc _ rest h)

theorem replay_steps (rc : RCfg) (t : List TEv) :
    Steps (init rc.cfg rc.nCons rc.workers rc.timer) (replay rc t).s := by
  unfold replay
  have h := go_steps rc { s := init rc.cfg rc.nCons rc.workers rc.timer } t (Steps.refl _)
  dsimp only
  split
  · exact fail_steps _ _ h
  · exact h

/-- the replayer's state is always a reachable state of the LTS -/
theorem go_reachable (rc : RCfg) (rs : RS) (t : List TEv) (h : Reachable rs.s) : Reachable (go rc rs t).s :=
  (go_steps rc rs t (Steps.refl _)).reachable h

theorem goUntilShutreq_reachable (rc : RCfg) (rs : RS) (t : List TEv) (h : Reachable rs.s) :
    Reachable (goUntilShutreq rc rs t).s :=
  (goUntilShutreq_steps rc rs t (Steps.refl _)).reachable h

theorem replay_reachable (rc : RCfg) (t : List TEv) : Reachable (replay rc t).s :=
  (replay_steps rc t).reachable (Reachable.init _ _ _ _)

/-- …and it is reached from the initial state of the case's configuration by a schedule (list of labels) -/
theorem replay_schedule (rc : RCfg) (t : List TEv) :
    ∃ ls, runFrom (init rc.cfg rc.nCons rc.workers rc.timer) ls = some (replay rc t).s :=
  replay_steps rc t

/-- not vacuous: a concrete trace (one request sent, accepted, exported, shutdown) is replayed without error by 11 fired labels
up to the returned shutdown (phase 5); the theorems above say that this state is `Reachable`, by a schedule from `init` -/
example :
    let rc : RCfg := { cfg := { persistent := false, batching := false, retry := false }, nCons := 1, workers := 0,
                       timer := false, stored := [], sends := [(0, [1, 2])] }
    let r := replay rc [.ss 0 [1, 2], .acc 0 [1, 2], .es 0 [1, 2], .ee 0 false false false, .shutreq, .shutret]
    r.err = none ∧ r.steps = 11 ∧ r.s.phase = 5 ∧ r.retSeen = true := by decide

theorem goN_steps {a : State} (rc : RCfg) (n : Nat) (rs : RS) (t : List TEv) (h : Steps a rs.s) : Steps a (goN rc n rs t).s := by
  induction n generalizing rs t with
  | zero => simp only [goN]; exact h
  | succ n ih =>
    cases t with
    | nil => simp only [goN]; exact h
    | cons e rest => simp only [goN]; exact ih _ _ (handle_steps rc e rest h)

theorem goN_reachable (rc : RCfg) (n : Nat) (t : List TEv) :
    Reachable (goN rc n { s := init rc.cfg rc.nCons rc.workers rc.timer } t).s :=
  (goN_steps rc n _ t (Steps.refl _)).reachable (Reachable.init _ _ _ _)

/-! ## property-level statements (counted obligations) -/

/-- **Replay soundness.** Whatever state the replayer reaches on whatever recorded trace, it reached it by firing enabled labels of
the LTS from the initial state of the case's configuration: `prop refine=ok` means "the recorded trace is explained by a run of the
model", and every theorem about reachable states applies to the state the drivers compare with the implementation. -/
theorem C03_replay_reachable (rc : RCfg) (t : List TEv) : Reachable (replay rc t).s := replay_reachable rc t

theorem C03_replay_schedule (rc : RCfg) (t : List TEv) :
    ∃ ls, runFrom (init rc.cfg rc.nCons rc.workers rc.timer) ls = some (replay rc t).s := replay_schedule rc t

/-- the prefix replay used for the queue-size gauge -/
theorem C03_replay_prefix_reachable (rc : RCfg) (t : List TEv) :
    Reachable (goUntilShutreq rc { s := init rc.cfg rc.nCons rc.workers rc.timer } t).s :=
  goUntilShutreq_reachable rc _ t (Reachable.init _ _ _ _)

end OtelVerif.C03.Replay
