import OtelVerif.Lemmas.C03
/-!
# C03 — termination of the shutdown protocol

Once shutdown has been requested (`1 ≤ phase`) and as long as the environment offers nothing more, every schedule of the
LTS `Model/C03.lean` is finite (`drain_wellFounded`: a lexicographic measure `mu` decreases at every non-offer step), no
reachable state before the return is stuck (`not_stuck`: needs the worker pool of the default batcher to have at least one
slot, free or in use), hence `Shutdown` returns (`shutdown_terminates`).
-/
namespace OtelVerif.C03

/-! ## weighted sums over lists -/

/-- sum of the weights of the elements -/
def wsum {α : Type} (w : α → Nat) : List α → Nat
  | [] => 0
  | a :: l => w a + wsum w l

theorem wsum_append {α : Type} (w : α → Nat) : ∀ (l m : List α), wsum w (l ++ m) = wsum w l + wsum w m
  | [], m => by simp [wsum]
  | a :: l, m => by simp [wsum, wsum_append w l m]; omega

theorem wsum_singleton {α : Type} (w : α → Nat) (a : α) : wsum w [a] = w a := by simp [wsum]

theorem wsum_set {α : Type} (w : α → Nat) :
    ∀ (l : List α) (i : Nat) (old v : α), l[i]? = some old → wsum w (l.set i v) + w old = wsum w l + w v
  | [], i, old, v, h => by simp at h
  | a :: l, 0, old, v, h => by
    simp at h; subst h
    simp [wsum]; omega
  | a :: l, i + 1, old, v, h => by
    simp at h
    have := wsum_set w l i old v h
    simp [wsum]; omega

theorem wsum_pos {α : Type} (w : α → Nat) : ∀ (l : List α), 0 < wsum w l → ∃ (i : Nat) (a : α), l[i]? = some a ∧ 0 < w a
  | [], h => by simp [wsum] at h
  | a :: l, h => by
    by_cases ha : 0 < w a
    · exact ⟨0, a, by simp, ha⟩
    · have : 0 < wsum w l := by simp [wsum] at h; omega
      obtain ⟨i, b, hi, hb⟩ := wsum_pos w l this
      exact ⟨i + 1, b, by simpa using hi, hb⟩

theorem length_filter_eq_wsum {α : Type} (p : α → Bool) :
    ∀ (l : List α), (l.filter p).length = wsum (fun a => if p a then 1 else 0) l
  | [] => by simp [wsum]
  | a :: l => by
    have := length_filter_eq_wsum p l
    by_cases ha : p a = true
    · simp [wsum, ha, this]; omega
    · simp [wsum, ha, this]

/-! ## the statements' vocabulary -/

/-- the environment's label; every other label is a step of a helper goroutine, of the retry loop, of the backend returning,
or of the shutdown goroutine -/
def isOffer : Label → Bool
  | .offer _ => true
  | _ => false

/-- flights of flush goroutines (no owner) that have not ended -/
def liveUnowned (s : State) : Nat := (s.flights.filter (fun fl => fl.owner.isNone && fl.st != .done)).length

/-- the worker pool of the default batcher has at least one slot (free or in use) -/
def PoolOK (s : State) : Prop := s.cfg.batching = true → 0 < s.workers + liveUnowned s

/-- weight of a flight in `liveUnowned` -/
def luW (fl : Flight) : Nat := if (fl.owner.isNone && fl.st != .done) = true then 1 else 0

theorem liveUnowned_eq (s : State) : liveUnowned s = wsum luW s.flights :=
  length_filter_eq_wsum _ s.flights

theorem luW_new_none (b : Batch) : luW (Flight.new b none) = 1 := by simp [luW, Flight.new]
theorem luW_new_some (b : Batch) (i : Nat) : luW (Flight.new b (some i)) = 0 := by simp [luW, Flight.new]

/-! ## what no step changes: the configuration, the order of the phases, the size of the worker pool -/

theorem cfg_step {s s' : State} {l : Label} (hs : Step s l s') : s'.cfg = s.cfg := by
  cases hs <;> rfl

theorem phase_mono {s s' : State} {l : Label} (hs : Step s l s') : s.phase ≤ s'.phase := by
  cases hs <;> first | exact Nat.le_refl _ | (simp only; omega)

theorem phase_le5_step {s s' : State} {l : Label} (h : s.phase ≤ 5) (hs : Step s l s') : s'.phase ≤ 5 := by
  cases hs <;> first | exact h | (simp only; omega)

theorem luW_finalised (fl : Flight) (kept : Bool) (fail : Nat) :
    luW { fl with st := .done, failures := fl.failures + fail, kept := kept } = 0 := by simp [luW]

theorem luW_live {fl : Flight} (hst : fl.st ≠ .done) : luW fl = if fl.owner.isNone = true then 1 else 0 := by
  simp [luW, hst]

/-- `workers + liveUnowned` (the size of the pool) is not changed by the end of a flight -/
theorem pool_finalise {s : State} {f : Nat} {fl : Flight} {kept : Bool} {fail : Nat}
    (hfl : s.flights[f]? = some fl) (hst : fl.st ≠ .done) :
    (finalise s f fl kept fail).workers + liveUnowned (finalise s f fl kept fail) = s.workers + liveUnowned s := by
  have h1 := wsum_set luW s.flights f fl { fl with st := .done, failures := fl.failures + fail, kept := kept } hfl
  rw [luW_finalised, luW_live hst] at h1
  rw [liveUnowned_eq, liveUnowned_eq]
  simp only [finalise]
  cases ho : fl.owner with
  | none => simp only [ho, Option.isNone_none, if_true] at h1 ⊢; omega
  | some i => simp [ho] at h1 ⊢; omega

theorem pool_flight_set {s : State} {f : Nat} {fl v : Flight} (hfl : s.flights[f]? = some fl) (hst : fl.st ≠ .done)
    (hv : v.st ≠ .done) (ho : v.owner = fl.owner) :
    liveUnowned { s with flights := s.flights.set f v } = liveUnowned s := by
  have h1 := wsum_set luW s.flights f fl v hfl
  rw [luW_live hst, luW_live hv, ho] at h1
  rw [liveUnowned_eq, liveUnowned_eq]
  simp only
  omega

theorem pool_new {s : State} (b : Batch) (o : Option Nat) :
    liveUnowned { s with flights := s.flights ++ [Flight.new b o] } = liveUnowned s + luW (Flight.new b o) := by
  rw [liveUnowned_eq, liveUnowned_eq]
  simp only [wsum_append, wsum_singleton]

/-- the size of the worker pool, `workers + liveUnowned`, is constant: `spawn`/`timerSpawn`/`shutSpawn` take a slot and start a
flush goroutine, the end of a flush goroutine gives the slot back -/
theorem pool_const {s s' : State} {l : Label} (hs : Step s l s') : s'.workers + liveUnowned s' = s.workers + liveUnowned s := by
  cases hs with
  | offer b => rfl
  | read i b late rest hc hq hg => rfl
  | exit i hc hp hq => rfl
  | sendSync i b hc hb =>
    have := pool_new (s := s) b (some i)
    rw [luW_new_some] at this
    simp only [liveUnowned] at this ⊢
    omega
  | consume i b flush keep hc hb hp => rfl
  | spawn i b rest hc hw =>
    have := pool_new (s := s) b none
    rw [luW_new_none] at this
    simp only [liveUnowned] at this ⊢
    omega
  | timerTake b ht hc => rfl
  | timerSpawn b ht hw =>
    have := pool_new (s := s) b none
    rw [luW_new_none] at this
    simp only [liveUnowned] at this ⊢
    omega
  | timerExit ht hp => rfl
  | expStart f fl hfl hs =>
    have := pool_flight_set (s := s) (v := { fl with st := .calling, attempts := fl.attempts + 1 }) hfl
      (by cases hs with | inl h => simp [h] | inr h => simp [h]) (by simp) rfl
    simp only [liveUnowned] at this ⊢
    omega
  | expEndDrop f fl o hfl hs => exact pool_finalise hfl (by simp [hs])
  | expEndAgain f fl hfl hs hr hp0 =>
    have := pool_flight_set (s := s) (v := { fl with st := .backoff, failures := fl.failures + 1 }) hfl
      (by simp [hs]) (by simp) rfl
    simp only [liveUnowned] at this ⊢
    omega
  | expEndKeep f fl hfl hs hr hp => exact pool_finalise hfl (by simp [hs])
  | giveUp f fl kept hfl hs hk => exact pool_finalise hfl (by simp [hs])
  | shutRetry hp => rfl
  | shutQueue hp => rfl
  | join hp hall => rfl
  | shutBatcher hp hh => rfl
  | shutSpawn b hh hp hw =>
    have := pool_new (s := s) b none
    rw [luW_new_none] at this
    simp only [liveUnowned] at this ⊢
    omega
  | shutWait hp hb => rfl

theorem poolOK_step {s s' : State} {l : Label} (h : PoolOK s) (hf : fire s l = some s') : PoolOK s' := by
  have hs := fire_step hf
  intro hb
  rw [cfg_step hs] at hb
  rw [pool_const hs]
  exact h hb

/-! ## two more invariants: a `busy f` consumer has a live flight `f`; no consumer is `flushing []` -/

/-- converse of `OwnerInv`: a consumer inside the export chain as flight `f` owns the live flight `f` -/
def BusyInv (fs : List Flight) (cs : List CSt) : Prop :=
  ∀ (i f : Nat), cs[i]? = some (.busy f) → ∃ fl, fs[f]? = some fl ∧ fl.st ≠ .done ∧ fl.owner = some i

def NoEmptyFlush (cs : List CSt) : Prop := ∀ c ∈ cs, c ≠ .flushing []

theorem afterFlush_ne_flushing_nil (l : List Batch) : afterFlush l ≠ .flushing [] := by
  cases l <;> simp [afterFlush]

theorem busyInv_cons_set {fs : List Flight} {cs : List CSt} (w : BusyInv fs cs) {i : Nat} {v : CSt}
    (hv : ∀ f, v ≠ .busy f) : BusyInv fs (cs.set i v) := by
  intro j f hj
  by_cases hij : i = j
  · subst hij
    rw [List.getElem?_set] at hj
    simp only [if_true] at hj
    split at hj
    · simp only [Option.some.injEq] at hj; exact absurd hj (hv f)
    · simp at hj
  · rw [List.getElem?_set_ne hij] at hj
    exact w j f hj

theorem busyInv_new {fs : List Flight} {cs : List CSt} (w : BusyInv fs cs) (v : Flight) : BusyInv (fs ++ [v]) cs := by
  intro j f hj
  obtain ⟨fl, hfl, h1, h2⟩ := w j f hj
  have hlt : f < fs.length := (List.getElem?_eq_some_iff.mp hfl).1
  exact ⟨fl, by rw [List.getElem?_append_left hlt]; exact hfl, h1, h2⟩

theorem busyInv_sendSync {fs : List Flight} {cs : List CSt} (w : BusyInv fs cs) {i : Nat} {c : CSt}
    (hc : cs[i]? = some c) (bt : Batch) :
    BusyInv (fs ++ [Flight.new bt (some i)]) (cs.set i (.busy fs.length)) := by
  intro j f hj
  have hlt : i < cs.length := (List.getElem?_eq_some_iff.mp hc).1
  by_cases hij : i = j
  · subst hij
    rw [List.getElem?_set_self hlt] at hj
    simp only [Option.some.injEq, CSt.busy.injEq] at hj
    subst hj
    exact ⟨Flight.new bt (some i), by simp, by simp [Flight.new], rfl⟩
  · rw [List.getElem?_set_ne hij] at hj
    exact busyInv_new w _ j f hj

theorem busyInv_flights_set {fs : List Flight} {cs : List CSt} (w : BusyInv fs cs) {f : Nat} {fl v : Flight}
    (hfl : fs[f]? = some fl) (hv : v.st ≠ .done) (ho : v.owner = fl.owner) : BusyInv (fs.set f v) cs := by
  intro j g hj
  obtain ⟨gl, hgl, h1, h2⟩ := w j g hj
  by_cases hfg : f = g
  · subst hfg
    have hlt : f < fs.length := (List.getElem?_eq_some_iff.mp hfl).1
    rw [hfl] at hgl
    simp only [Option.some.injEq] at hgl
    subst hgl
    exact ⟨v, List.getElem?_set_self hlt, hv, ho ▸ h2⟩
  · exact ⟨gl, by rw [List.getElem?_set_ne hfg]; exact hgl, h1, h2⟩

theorem busyInv_release {fs : List Flight} {cs : List CSt} (w : BusyInv fs cs) {f : Nat} {fl v : Flight}
    (hfl : fs[f]? = some fl) : BusyInv (fs.set f v) (releaseOwner cs f fl.owner) := by
  intro j g hj
  -- the consumer `j` was `busy g` before, and `g ≠ f`
  have key : cs[j]? = some (.busy g) ∧ f ≠ g := by
    cases ho : fl.owner with
    | none =>
      rw [ho] at hj
      simp only [releaseOwner] at hj
      refine ⟨hj, ?_⟩
      intro hfg; subst hfg
      obtain ⟨gl, hgl, _, h2⟩ := w j f hj
      rw [hfl] at hgl; simp only [Option.some.injEq] at hgl; subst hgl
      rw [ho] at h2; simp at h2
    | some i =>
      rw [ho] at hj
      simp only [releaseOwner] at hj
      split at hj
      · next hb =>
        by_cases hij : i = j
        · subst hij
          have hlt : i < cs.length := (List.getElem?_eq_some_iff.mp hb).1
          rw [List.getElem?_set_self hlt] at hj
          simp at hj
        · rw [List.getElem?_set_ne hij] at hj
          refine ⟨hj, ?_⟩
          intro hfg; subst hfg
          obtain ⟨gl, hgl, _, h2⟩ := w j f hj
          rw [hfl] at hgl; simp only [Option.some.injEq] at hgl; subst hgl
          rw [ho] at h2; simp only [Option.some.injEq] at h2
          exact hij h2
      · next hb =>
        refine ⟨hj, ?_⟩
        intro hfg; subst hfg
        obtain ⟨gl, hgl, _, h2⟩ := w j f hj
        rw [hfl] at hgl; simp only [Option.some.injEq] at hgl; subst hgl
        rw [ho] at h2; simp only [Option.some.injEq] at h2
        subst h2
        exact hb hj
  obtain ⟨gl, hgl, h1, h2⟩ := w j g key.1
  exact ⟨gl, by rw [List.getElem?_set_ne key.2]; exact hgl, h1, h2⟩

theorem busyInv_step {s s' : State} {l : Label} (w : BusyInv s.flights s.cons) (hs : Step s l s') :
    BusyInv s'.flights s'.cons := by
  cases hs with
  | offer b => exact w
  | read i b late rest hc hq hg => exact busyInv_cons_set w (by simp)
  | exit i hc hp hq => exact busyInv_cons_set w (by simp)
  | sendSync i b hc hb => exact busyInv_sendSync w hc b
  | consume i b flush keep hc hb hp => exact busyInv_cons_set w (afterFlush_ne_busy _)
  | spawn i b rest hc hw => exact busyInv_cons_set (busyInv_new w _) (afterFlush_ne_busy _)
  | timerTake b ht hc => exact w
  | timerSpawn b ht hw => exact busyInv_new w _
  | timerExit ht hp => exact w
  | expStart f fl hfl hs => exact busyInv_flights_set w hfl (by simp) rfl
  | expEndDrop f fl o hfl hs => exact busyInv_release w hfl
  | expEndAgain f fl hfl hs hr hp0 => exact busyInv_flights_set w hfl (by simp) rfl
  | expEndKeep f fl hfl hs hr hp => exact busyInv_release w hfl
  | giveUp f fl kept hfl hs hk => exact busyInv_release w hfl
  | shutRetry hp => exact w
  | shutQueue hp => exact w
  | join hp hall => exact w
  | shutBatcher hp hh => exact w
  | shutSpawn b hh hp hw => exact busyInv_new w _
  | shutWait hp hb => exact w

theorem noEmptyFlush_set {cs : List CSt} (w : NoEmptyFlush cs) {i : Nat} {v : CSt} (hv : v ≠ .flushing []) :
    NoEmptyFlush (cs.set i v) := by
  intro c hc
  cases mem_set_cases hc with
  | inl h => exact w c h
  | inr h => exact h ▸ hv

theorem noEmptyFlush_release {cs : List CSt} (w : NoEmptyFlush cs) (f : Nat) (o : Option Nat) :
    NoEmptyFlush (releaseOwner cs f o) := by
  intro c hc
  cases mem_releaseOwner hc with
  | inl h => exact w c h
  | inr h => simp [h]

theorem noEmptyFlush_step {s s' : State} {l : Label} (w : NoEmptyFlush s.cons) (hs : Step s l s') : NoEmptyFlush s'.cons := by
  cases hs with
  | read i b late rest hc hq hg => exact noEmptyFlush_set w (by simp)
  | exit i hc hp hq => exact noEmptyFlush_set w (by simp)
  | sendSync i b hc hb => exact noEmptyFlush_set w (by simp)
  | consume i b flush keep hc hb hp => exact noEmptyFlush_set w (afterFlush_ne_flushing_nil _)
  | spawn i b rest hc hw => exact noEmptyFlush_set w (afterFlush_ne_flushing_nil _)
  | expEndDrop f fl o hfl hs => exact noEmptyFlush_release w _ _
  | expEndKeep f fl hfl hs hr hp => exact noEmptyFlush_release w _ _
  | giveUp f fl kept hfl hs hk => exact noEmptyFlush_release w _ _
  | _ => exact w

/-- the additional invariant used by stuck-freedom -/
structure Inv2 (s : State) : Prop where
  busy : BusyInv s.flights s.cons
  nef : NoEmptyFlush s.cons
  le5 : s.phase ≤ 5

theorem inv2_init (cfg : Cfg) (n w : Nat) (t : Bool) : Inv2 (init cfg n w t) := by
  refine ⟨?_, ?_, ?_⟩
  · intro i f hi
    have := mem_of_getElem? hi
    simp [init, List.mem_replicate] at this
  · intro c hc
    simp [init, List.mem_replicate] at hc
    simp [hc.2]
  · simp [init]

theorem inv2_step {s s' : State} {l : Label} (h : Inv2 s) (hf : fire s l = some s') : Inv2 s' :=
  have hs := fire_step hf
  ⟨busyInv_step h.busy hs, noEmptyFlush_step h.nef hs, phase_le5_step h.le5 hs⟩

theorem inv2_reachable {s : State} (h : Reachable s) : Inv2 s := by
  induction h with
  | init cfg n w t => exact inv2_init cfg n w t
  | step l _ hf ih => exact inv2_step ih hf

/-! ## stuck-freedom -/

/-- a flight that has not ended can move: the export function is called, or (the backend being arbitrary) returns -/
theorem live_flight_step {s : State} {f : Nat} {fl : Flight} (hfl : s.flights[f]? = some fl) (hst : fl.st ≠ .done) :
    ∃ l s', isOffer l = false ∧ fire s l = some s' := by
  cases h : fl.st with
  | pending => exact ⟨.expStart f, _, rfl, step_fire (.expStart s f fl hfl (.inl h))⟩
  | backoff => exact ⟨.expStart f, _, rfl, step_fire (.expStart s f fl hfl (.inr h))⟩
  | calling => exact ⟨.expEnd f .ok .drop, _, rfl, step_fire (.expEndDrop s f fl .ok hfl h)⟩
  | done => exact absurd h hst

/-- a full pool has a live flush goroutine, which can move -/
theorem pool_step {s : State} (hpool : PoolOK s) (hb : s.cfg.batching = true) (hw : ¬ 0 < s.workers) :
    ∃ l s', isOffer l = false ∧ fire s l = some s' := by
  have h := hpool hb
  rw [liveUnowned_eq] at h
  have : 0 < wsum luW s.flights := by omega
  obtain ⟨f, fl, hfl, hpos⟩ := wsum_pos luW s.flights this
  refine live_flight_step hfl ?_
  intro hd
  simp [luW, hd] at hpos

theorem exists_not_exited {cs : List CSt} (h : ¬ ∀ c ∈ cs, c = .exited) : ∃ (i : Nat) (c : CSt), cs[i]? = some c ∧ c ≠ .exited := by
  induction cs with
  | nil => exact absurd (by simp) h
  | cons a cs ih =>
    by_cases ha : a = .exited
    · have : ¬ ∀ c ∈ cs, c = .exited := by
        intro hall
        apply h
        intro c hc
        cases List.mem_cons.mp hc with
        | inl h1 => exact h1 ▸ ha
        | inr h1 => exact hall c h1
      obtain ⟨i, c, hi, hc⟩ := ih this
      exact ⟨i + 1, c, by simpa using hi, hc⟩
    · exact ⟨0, a, by simp, ha⟩

theorem exists_live_unowned {fs : List Flight} (h : ¬ ∀ fl ∈ fs, fl.owner.isSome = true ∨ fl.st = .done) :
    ∃ (f : Nat) (fl : Flight), fs[f]? = some fl ∧ fl.st ≠ .done := by
  induction fs with
  | nil => exact absurd (by simp) h
  | cons a fs ih =>
    by_cases ha : a.owner.isSome = true ∨ a.st = .done
    · have : ¬ ∀ fl ∈ fs, fl.owner.isSome = true ∨ fl.st = .done := by
        intro hall
        apply h
        intro c hc
        cases List.mem_cons.mp hc with
        | inl h1 => exact h1 ▸ ha
        | inr h1 => exact hall c h1
      obtain ⟨i, c, hi, hc⟩ := ih this
      exact ⟨i + 1, c, by simpa using hi, hc⟩
    · exact ⟨0, a, by simp, fun hd => ha (.inr hd)⟩

/-- phase 2 (queue stopped, consumers not yet joined): a consumer that has not left its loop can move, or something it waits
for can -/
theorem not_stuck_consumer {s : State} (w : WF s) (w2 : Inv2 s) (hpool : PoolOK s) (hp : s.phase = 2)
    {i : Nat} {c : CSt} (hc : s.cons[i]? = some c) (hne : c ≠ .exited) :
    ∃ l s', isOffer l = false ∧ fire s l = some s' := by
  cases c with
  | exited => exact absurd rfl hne
  | idle =>
    by_cases hq : s.cfg.persistent = true ∨ s.queue = []
    · exact ⟨.exit i, _, rfl, step_fire (.exit s i hc (by omega) hq)⟩
    · cases hqq : s.queue with
      | nil => exact absurd (.inr hqq) hq
      | cons p rest =>
        obtain ⟨b, late⟩ := p
        exact ⟨.read i, _, rfl, step_fire (.read s i b late rest hc hqq (fun hg => hq (.inl hg.1)))⟩
  | holding b =>
    cases hb : s.cfg.batching with
    | false => exact ⟨.sendSync i, _, rfl, step_fire (.sendSync s i b hc hb)⟩
    | true =>
      refine ⟨.consume i [] (some (s.cur.getD [] ++ b)), _, rfl, step_fire (.consume s i b [] _ hc hb ?_)⟩
      simp
  | flushing pend =>
    cases pend with
    | nil => exact absurd rfl (w2.nef _ (mem_of_getElem? hc))
    | cons b rest =>
      by_cases hw : 0 < s.workers
      · exact ⟨.spawn i, _, rfl, step_fire (.spawn s i b rest hc hw)⟩
      · cases hb : s.cfg.batching with
        | false => exact absurd rfl (w.nb_flush hb _ (mem_of_getElem? hc) (b :: rest))
        | true => exact pool_step hpool hb hw
  | busy f =>
    obtain ⟨fl, hfl, hst, _⟩ := w2.busy i f hc
    exact live_flight_step hfl hst

/-- phase 4 (batcher shutting down) -/
theorem not_stuck_batcher {s : State} (hpool : PoolOK s) (hp : s.phase = 4) :
    ∃ l s', isOffer l = false ∧ fire s l = some s' := by
  cases hb : s.cfg.batching with
  | false => exact ⟨.shutWait, _, rfl, step_fire (.shutWait s hp (fun h => by rw [hb] at h; cases h))⟩
  | true =>
    cases hh : s.shutHand with
    | some b =>
      by_cases hw : 0 < s.workers
      · exact ⟨.shutSpawn, _, rfl, step_fire (.shutSpawn s b hh hp hw)⟩
      · exact pool_step hpool hb hw
    | none =>
      cases ht : s.timer with
      | holding b =>
        by_cases hw : 0 < s.workers
        · exact ⟨.timerSpawn, _, rfl, step_fire (.timerSpawn s b ht hw)⟩
        · exact pool_step hpool hb hw
      | idle => exact ⟨.timerExit, _, rfl, step_fire (.timerExit s ht (by omega))⟩
      | dead =>
        by_cases hall : ∀ fl ∈ s.flights, fl.owner.isSome = true ∨ fl.st = .done
        · exact ⟨.shutWait, _, rfl, step_fire (.shutWait s hp (fun _ => ⟨hh, ht, hall⟩))⟩
        · obtain ⟨f, fl, hfl, hst⟩ := exists_live_unowned hall
          exact live_flight_step hfl hst

/-- STUCK-FREEDOM: while `Shutdown` has not returned, some non-offer step is enabled -/
theorem not_stuck {s : State} (h : Reachable s) (hpool : PoolOK s) (hp : s.phase < 5) :
    ∃ l s', isOffer l = false ∧ fire s l = some s' := by
  have w := (inv_reachable h).wf
  have w2 := inv2_reachable h
  have hcases : s.phase = 0 ∨ s.phase = 1 ∨ s.phase = 2 ∨ s.phase = 3 ∨ s.phase = 4 := by omega
  rcases hcases with h0 | h1 | h2 | h3 | h4
  · exact ⟨.shutRetry, _, rfl, step_fire (.shutRetry s h0)⟩
  · exact ⟨.shutQueue, _, rfl, step_fire (.shutQueue s h1)⟩
  · by_cases hall : ∀ c ∈ s.cons, c = .exited
    · exact ⟨.join, _, rfl, step_fire (.join s h2 hall)⟩
    · obtain ⟨i, c, hc, hne⟩ := exists_not_exited hall
      exact not_stuck_consumer w w2 hpool h2 hc hne
  · exact ⟨.shutBatcher, _, rfl, step_fire (.shutBatcher s h3 (w.hand3 (by omega)))⟩
  · exact not_stuck_batcher hpool h4

/-! ## the measure -/

/-- first component, per consumer: what it still has to do before it has left its loop -/
def cA : CSt → Nat
  | .exited => 0
  | .holding _ => 2
  | _ => 1

/-- second component, per consumer: `flush()` calls still to make -/
def cB : CSt → Nat
  | .flushing pend => 3 * pend.length
  | _ => 0

def tW : TSt → Nat
  | .idle => 1
  | .holding _ => 4
  | .dead => 0

def oW (k : Nat) : Option Batch → Nat
  | some _ => k
  | none => 0

def fW (fl : Flight) : Nat :=
  match fl.st with
  | .pending => 2
  | .calling => 1
  | .backoff => 2
  | .done => 0

/-- first component: progress of the shutdown goroutine, of the queue and of the consumers' loops -/
def muA (s : State) : Nat := 10 * (5 - s.phase) + 2 * s.queue.length + wsum cA s.cons

/-- second component: pending flushes, the partial batch, the timer goroutine, the final flush, the flights -/
def muB (s : State) : Nat := wsum cB s.cons + oW 5 s.cur + tW s.timer + oW 3 s.shutHand + wsum fW s.flights

/-- a lexicographic measure that every non-offer step decreases once shutdown has been requested -/
def mu (s : State) : Nat × Nat := (muA s, muB s)

theorem cA_afterFlush (l : List Batch) : cA (afterFlush l) = 1 := by cases l <;> rfl
theorem cB_afterFlush (l : List Batch) : cB (afterFlush l) = 3 * l.length := by cases l <;> simp [afterFlush, cB]

theorem cA_release (cs : List CSt) (f : Nat) (o : Option Nat) : wsum cA (releaseOwner cs f o) = wsum cA cs := by
  cases o with
  | none => rfl
  | some i =>
    simp only [releaseOwner]
    split
    · next h =>
      have := wsum_set cA cs i _ .idle h
      simp only [cA] at this
      omega
    · rfl

theorem cB_release (cs : List CSt) (f : Nat) (o : Option Nat) : wsum cB (releaseOwner cs f o) = wsum cB cs := by
  cases o with
  | none => rfl
  | some i =>
    simp only [releaseOwner]
    split
    · next h =>
      have := wsum_set cB cs i _ .idle h
      simp only [cB] at this
      omega
    · rfl

theorem muA_finalise (s : State) (f : Nat) (fl : Flight) (kept : Bool) (fail : Nat) : muA (finalise s f fl kept fail) = muA s := by
  simp only [muA, finalise, cA_release]

theorem muB_finalise {s : State} {f : Nat} {fl : Flight} {kept : Bool} {fail : Nat} (hfl : s.flights[f]? = some fl)
    (hst : fl.st ≠ .done) : muB (finalise s f fl kept fail) < muB s := by
  have h1 := wsum_set fW s.flights f fl { fl with st := .done, failures := fl.failures + fail, kept := kept } hfl
  have h2 : fW { fl with st := .done, failures := fl.failures + fail, kept := kept } = 0 := rfl
  have h3 : 0 < fW fl := by
    simp only [fW]
    cases h : fl.st <;> simp_all
  simp only [muB, finalise, cB_release]
  omega

theorem lex_right {a a' b b' : Nat} (ha : a' = a) (hb : b' < b) : Prod.Lex (· < ·) (· < ·) (a', b') (a, b) := by
  subst ha; exact Prod.Lex.right _ hb

theorem lex_left {a a' b b' : Nat} (ha : a' < a) : Prod.Lex (· < ·) (· < ·) (a', b') (a, b) :=
  Prod.Lex.left _ _ ha

theorem mu_decreases_step {s s' : State} {l : Label} (hp : 1 ≤ s.phase) (hl : isOffer l = false) (hs : Step s l s') :
    Prod.Lex (· < ·) (· < ·) (mu s') (mu s) := by
  cases hs with
  | offer b => simp [isOffer] at hl
  | read i b late rest hc hq hg =>
    apply lex_left
    have := wsum_set cA s.cons i _ (.holding b) hc
    simp only [cA] at this
    simp only [muA, hq, List.length_cons]
    omega
  | exit i hc hp2 hq =>
    apply lex_left
    have := wsum_set cA s.cons i _ .exited hc
    simp only [cA] at this
    simp only [muA]
    omega
  | sendSync i b hc hb =>
    apply lex_left
    have := wsum_set cA s.cons i _ (.busy s.flights.length) hc
    simp only [cA] at this
    simp only [muA]
    omega
  | consume i b flush keep hc hb hperm =>
    apply lex_left
    have := wsum_set cA s.cons i _ (afterFlush flush) hc
    rw [cA_afterFlush] at this
    simp only [cA] at this
    simp only [muA]
    omega
  | spawn i b rest hc hw =>
    apply lex_right
    · have := wsum_set cA s.cons i _ (afterFlush rest) hc
      rw [cA_afterFlush] at this
      simp only [cA] at this
      simp only [muA]
      omega
    · have := wsum_set cB s.cons i _ (afterFlush rest) hc
      rw [cB_afterFlush] at this
      simp only [cB, List.length_cons] at this
      have h2 : fW (Flight.new b none) = 2 := rfl
      simp only [muB, wsum_append, wsum_singleton, h2]
      omega
  | timerTake b ht hc =>
    apply lex_right rfl
    simp only [muB, ht, hc, oW, tW]
    omega
  | timerSpawn b ht hw =>
    apply lex_right rfl
    have h2 : fW (Flight.new b none) = 2 := rfl
    simp only [muB, ht, tW, wsum_append, wsum_singleton, h2]
    omega
  | timerExit ht hp4 =>
    apply lex_right rfl
    simp only [muB, ht, tW]
    omega
  | expStart f fl hfl hst =>
    apply lex_right rfl
    have h1 := wsum_set fW s.flights f fl { fl with st := .calling, attempts := fl.attempts + 1 } hfl
    have h2 : fW { fl with st := .calling, attempts := fl.attempts + 1 } = 1 := rfl
    have h3 : fW fl = 2 := by
      simp only [fW]
      cases hst with
      | inl h => rw [h]
      | inr h => rw [h]
    simp only [muB]
    omega
  | expEndDrop f fl o hfl hst => exact lex_right (muA_finalise _ _ _ _ _) (muB_finalise hfl (by simp [hst]))
  | expEndAgain f fl hfl hst hr hp0 => omega
  | expEndKeep f fl hfl hst hr hp1 => exact lex_right (muA_finalise _ _ _ _ _) (muB_finalise hfl (by simp [hst]))
  | giveUp f fl kept hfl hst hk => exact lex_right (muA_finalise _ _ _ _ _) (muB_finalise hfl (by simp [hst]))
  | shutRetry hp0 => omega
  | shutQueue hp1 => apply lex_left; simp only [muA, hp1]; omega
  | join hp2 hall => apply lex_left; simp only [muA, hp2]; omega
  | shutBatcher hp3 hh => apply lex_left; simp only [muA, hp3]; omega
  | shutSpawn b hh hp4 hw =>
    apply lex_right rfl
    have h2 : fW (Flight.new b none) = 2 := rfl
    simp only [muB, hh, oW, wsum_append, wsum_singleton, h2]
    omega
  | shutWait hp4 hb => apply lex_left; simp only [muA, hp4]; omega

theorem mu_decreases {s s' : State} {l : Label} (hp : 1 ≤ s.phase) (hl : isOffer l = false) (hf : fire s l = some s') :
    Prod.Lex (· < ·) (· < ·) (mu s') (mu s) :=
  mu_decreases_step hp hl (fire_step hf)

/-! ## no infinite drain, termination -/

theorem lex_nat_wf : WellFounded (Prod.Lex (fun a b : Nat => a < b) (fun a b : Nat => a < b)) :=
  (Prod.lex ⟨_, Nat.lt_wfRel.wf⟩ ⟨_, Nat.lt_wfRel.wf⟩).wf

/-- NO INFINITE DRAIN: the non-offer step relation after the shutdown request is well-founded -/
theorem drain_wellFounded :
    WellFounded (fun s' s : State => 1 ≤ s.phase ∧ ∃ l, isOffer l = false ∧ fire s l = some s') := by
  refine Subrelation.wf ?_ (InvImage.wf mu lex_nat_wf)
  intro s' s h
  obtain ⟨hp, l, hl, hf⟩ := h
  exact mu_decreases hp hl hf

theorem runFrom_cons {s s1 : State} {l : Label} (hf : fire s l = some s1) (ls : List Label) :
    runFrom s (l :: ls) = runFrom s1 ls := by
  simp only [runFrom, hf]

/-- TERMINATION: from every reachable state in which shutdown has been requested, a schedule without any offer reaches
`phase = 5` (`Shutdown` has returned), provided the worker pool has at least one slot -/
theorem shutdown_terminates {s : State} (h : Reachable s) (hp : 1 ≤ s.phase)
    (hpool : s.cfg.batching = true → 0 < s.workers + (s.flights.filter (fun fl => fl.owner.isNone && fl.st != .done)).length) :
    ∃ ls s', (∀ l ∈ ls, isOffer l = false) ∧ runFrom s ls = some s' ∧ s'.phase = 5 := by
  have hpool' : PoolOK s := hpool
  clear hpool
  induction s using drain_wellFounded.induction with
  | _ s ih =>
    by_cases h5 : s.phase = 5
    · exact ⟨[], s, by simp, rfl, h5⟩
    · have hlt : s.phase < 5 := by have := (inv2_reachable h).le5; omega
      obtain ⟨l, s1, hl, hf⟩ := not_stuck h hpool' hlt
      have hmono := phase_mono (fire_step hf)
      obtain ⟨ls, s2, hls, hrun, hfin⟩ :=
        ih s1 ⟨hp, l, hl, hf⟩ (Reachable.step l h hf) (by omega) (poolOK_step hpool' hf)
      refine ⟨l :: ls, s2, ?_, by rw [runFrom_cons hf]; exact hrun, hfin⟩
      intro l' hl'
      cases List.mem_cons.mp hl' with
      | inl h1 => exact h1 ▸ hl
      | inr h1 => exact hls l' h1

/-! ## non-vacuity -/

/-- a concrete state meeting the hypotheses of `shutdown_terminates` in the middle of a drain: memory queue, default batcher,
one worker slot, which is taken by a flush goroutine inside the export function while a second batch waits for the slot, the
partial batch `[4]` is pending, one request still queued, shutdown requested -/
def termDemo : Option State :=
  runFrom (init { persistent := false, batching := true, retry := true } 1 1 true)
    [.offer [1], .offer [2, 3, 4], .offer [5], .read 0, .consume 0 [] (some [1]), .read 0, .consume 0 [[1, 2], [3]] (some [4]),
     .spawn 0, .expStart 0, .shutRetry, .shutQueue]

example : termDemo.map (fun s => (s.phase, s.queue.length, s.cons, s.cur, s.workers, liveUnowned s)) =
    some (2, 1, [.flushing [[3]]], some [4], 0, 1) := rfl

/-- … and it meets every hypothesis of `not_stuck` / `shutdown_terminates` -/
example (s : State) (hs : termDemo = some s) : Reachable s ∧ 1 ≤ s.phase ∧ s.phase < 5 ∧ PoolOK s := by
  have h1 : termDemo.map (fun s => (s.phase, s.workers, liveUnowned s)) = some (2, 0, 1) := rfl
  rw [hs] at h1
  simp only [Option.map_some, Option.some.injEq, Prod.mk.injEq] at h1
  exact ⟨reachable_of_runFrom _ (Reachable.init _ _ _ _) hs, by omega, by omega, fun _ => by omega⟩

/-- the pool hypothesis cannot be dropped: with an empty worker pool (`workers = 0`, no flush goroutine) a consumer that has a
batch to flush blocks for ever and `Shutdown` never returns -/
def stuckDemo : State :=
  { cfg := { persistent := false, batching := true, retry := true }, phase := 2, queue := [], cons := [.flushing [[1]]],
    cur := none, workers := 0, timer := .dead, shutHand := none, flights := [], early := [1], accepted := [1], stored := [],
    reqs := [[1]], qsize := 1, results := [] }

theorem stuckDemo_reachable : Reachable stuckDemo :=
  reachable_of_runFrom [.offer [1], .read 0, .consume 0 [[1]] none, .shutRetry, .shutQueue]
    (Reachable.init { persistent := false, batching := true, retry := true } 1 0 false) rfl

theorem stuckDemo_stuck (l : Label) (hl : isOffer l = false) : fire stuckDemo l = none := by
  cases l with
  | offer b => simp [isOffer] at hl
  | read i => cases i <;> simp [fire, stuckDemo]
  | exit i => cases i <;> simp [fire, stuckDemo]
  | sendSync i => cases i <;> simp [fire, stuckDemo]
  | consume i fl k => cases i <;> simp [fire, stuckDemo]
  | spawn i => cases i <;> simp [fire, stuckDemo]
  | expStart f => simp [fire, stuckDemo]
  | expEnd f o a => simp [fire, stuckDemo]
  | giveUp f k => simp [fire, stuckDemo]
  | _ => simp [fire, stuckDemo]

example : ¬ PoolOK stuckDemo := by simp [PoolOK, stuckDemo, liveUnowned]


end OtelVerif.C03
