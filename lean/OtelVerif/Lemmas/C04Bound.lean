import OtelVerif.Lemmas.C04Size
/-! lemmas for C04: the size bound of every request `split` returns (generic loop argument; items sizer instances) -/
namespace OtelVerif.C04
open OtelVerif.Payload

/-- what the bound needs from a signal: `heavy p` = number of items of `p` that weigh anything in the configured unit -/
structure Bounded {P : Type} (o : Ops P) (heavy : P → Nat) : Prop where
  extract_cap : ∀ cap p, 0 ≤ cap → o.size (o.extract cap p).1 ≤ cap
  noprog : ∀ cap p, (o.extract cap p).2.2 = 0 → heavy (o.extract cap p).1 = 0
  moveFirst_heavy : ∀ s d, heavy (o.moveFirst s d).2.1 ≤ heavy d + 1
  moveFirst_none : ∀ s d, (o.moveFirst s d).2.2 = false →
    heavy (o.append (o.moveFirst s d).1 (o.moveFirst s d).2.1) ≤ heavy d

/-- a request respects the limit: not larger than `max`, or at most one item that weighs anything -/
def Req.within {P : Type} (o : Ops P) (heavy : P → Nat) (max : Int) (r : Req P) : Prop :=
  o.size r.p ≤ max ∨ heavy r.p ≤ 1

theorem splitLoop_bound {P : Type} (o : Ops P) (heavy : P → Nat) (hs : SizeExact o) (hb : Bounded o heavy) (max : Int)
    (hmax : 0 ≤ max) :
    ∀ (fuel : Nat) (req : Req P) (res out : List (Req P)), splitLoop o max fuel req res = some out →
      req.exact o → (∀ r ∈ res, r.within o heavy max) → ∀ r ∈ out, r.within o heavy max := by
  intro fuel
  induction fuel with
  | zero => intro req res out h; simp [splitLoop] at h
  | succ n ih =>
    intro req res out h hreq hres
    have hn := norm_cached o req hreq
    have hp : (req.norm o).p = req.p := rfl
    simp only [splitLoop] at h
    split at h
    · split at h
      · next hrm =>
        have hrm0 : (o.extract max (req.norm o).p).2.2 = 0 := by simpa using hrm
        have hz := hb.noprog max (req.norm o).p hrm0
        split at h
        · refine ih _ _ _ h (Or.inr rfl) ?_
          intro r hr
          rcases List.mem_append.mp hr with h1 | h1
          · exact hres r h1
          · simp only [List.mem_singleton] at h1; subst h1
            right
            have := hb.moveFirst_heavy (o.extract max (req.norm o).p).2.1 (o.extract max (req.norm o).p).1
            simp only at this ⊢
            omega
        · next hmv =>
          injection h with h
          subst h
          intro r hr
          rcases List.mem_append.mp hr with h1 | h1
          · exact hres r h1
          · simp only [List.mem_singleton] at h1; subst h1
            right
            have := hb.moveFirst_none (o.extract max (req.norm o).p).2.1 (o.extract max (req.norm o).p).1 (by simpa using hmv)
            simp only at this ⊢
            omega
      · refine ih _ _ _ h ?_ ?_
        · right
          have := hs.extract max (req.norm o).p
          show (req.norm o).cached - (o.extract max (req.norm o).p).2.2 = o.size (o.extract max (req.norm o).p).2.1
          rw [this, hn, hp]
        · intro r hr
          rcases List.mem_append.mp hr with h1 | h1
          · exact hres r h1
          · simp only [List.mem_singleton] at h1; subst h1
            left
            exact hb.extract_cap max (req.norm o).p hmax
    · next hle =>
      injection h with h
      subst h
      intro r hr
      rcases List.mem_append.mp hr with h1 | h1
      · exact hres r h1
      · simp only [List.mem_singleton] at h1; subst h1
        left
        show o.size (req.norm o).p ≤ max
        rw [hp, ← hn]
        omega

/-! ### items sizer, logs / traces / profiles -/

abbrev sz0 : Sizer := ⟨false⟩

@[simp] theorem delta0 (n : Int) : Sizer.delta sz0 n = n := by simp [Sizer.delta]
@[simp] theorem own0 (b : Nat) : Sizer.own sz0 b = 0 := by simp [Sizer.own]

theorem sumD0 {α : Type} (f : α → Int) (l : List α) : sumD sz0 f l = isum (l.map f) := by
  simp [sumD]

/-- an extract pass never puts more into the destination than the capacity it started with -/
theorem walk_cap {α : Type} (size : α → Int) (cut : St → α → Option α × Option α × St)
    (hcut : ∀ st c, 0 ≤ st.cap → osize sz0 size (cut st c).1 + (cut st c).2.2.cap ≤ st.cap ∧ 0 ≤ (cut st c).2.2.cap) :
    ∀ (s : St) (l : List α), 0 ≤ s.cap →
      sumD sz0 size (walk stop (fitsBy sz0 size) cut s l).dest + (walk stop (fitsBy sz0 size) cut s l).st.cap ≤ s.cap ∧
      0 ≤ (walk stop (fitsBy sz0 size) cut s l).st.cap := by
  intro s l
  induction l generalizing s with
  | nil => intro h; simp [walk, sumD_nil]; omega
  | cons c cs ih =>
    intro h
    simp only [walk]
    split
    · exact ih s h
    · simp only [fitsBy, delta0]
      split
      · next s1 hs1 =>
        split at hs1
        · cases hs1
        · next hfit =>
          injection hs1 with hs1
          subst hs1
          have := ih ⟨s.cap - size c, s.rm + size c⟩ (by simp only; omega)
          simp only [sumD_cons, delta0] at this ⊢
          omega
      · have h1 := hcut s c h
        have h2 := ih (cut s c).2.2 h1.2
        simp only [sumD_append]
        have e : sumD sz0 size (cut s c).1.toList = osize sz0 size (cut s c).1 := rfl
        rw [e]; omega

/-- items sizer: `removedSize` is the size of what went to the destination -/
theorem walk_rm_dest {α : Type} (size : α → Int) (cut : St → α → Option α × Option α × St)
    (hcut : ∀ st c, (cut st c).2.2.rm - st.rm = osize sz0 size (cut st c).1) :
    ∀ (s : St) (l : List α),
      (walk stop (fitsBy sz0 size) cut s l).st.rm - s.rm = sumD sz0 size (walk stop (fitsBy sz0 size) cut s l).dest := by
  intro s l
  induction l generalizing s with
  | nil => simp [walk, sumD_nil]
  | cons c cs ih =>
    simp only [walk]
    split
    · exact ih s
    · simp only [fitsBy, delta0]
      split
      · next s1 hs1 =>
        split at hs1
        · cases hs1
        · injection hs1 with hs1
          subst hs1
          have := ih ⟨s.cap - size c, s.rm + size c⟩
          simp only [sumD_cons, delta0] at this ⊢
          omega
      · have h1 := hcut s c
        have h2 := ih (cut s c).2.2
        simp only [sumD_append]
        have e : sumD sz0 size (cut s c).1.toList = osize sz0 size (cut s c).1 := rfl
        rw [e]; omega

theorem cutBy_cap {α : Type} (size : α → Int) (ext : Int → α → α × α × Int) (nonEmpty : α → Bool)
    (hext : ∀ cap c, 0 ≤ cap → size (ext cap c).1 ≤ cap) (st : St) (c : α) (h : 0 ≤ st.cap) :
    osize sz0 size (cutBy sz0 size ext nonEmpty st c).1 + (cutBy sz0 size ext nonEmpty st c).2.2.cap ≤ st.cap ∧
    0 ≤ (cutBy sz0 size ext nonEmpty st c).2.2.cap := by
  simp only [cutBy]
  have := hext st.cap c h
  by_cases hn : nonEmpty (ext st.cap c).1 = true
  · simp [hn]; omega
  · simp [hn]; omega

theorem cutBy_rm_dest {α : Type} (size : α → Int) (ext : Int → α → α × α × Int) (nonEmpty : α → Bool)
    (hext : ∀ cap c, size (ext cap c).1 = (ext cap c).2.2)
    (hne : ∀ cap c, nonEmpty (ext cap c).1 = false → size (ext cap c).1 = 0) (st : St) (c : α) :
    (cutBy sz0 size ext nonEmpty st c).2.2.rm - st.rm = osize sz0 size (cutBy sz0 size ext nonEmpty st c).1 := by
  simp only [cutBy, delta0]
  have h1 := hext st.cap c
  by_cases hn : nonEmpty (ext st.cap c).1 = true
  · simp [hn]; omega
  · have := hne st.cap c (by simpa using hn)
    simp [hn]; omega

theorem extractScope_cap (cap : Int) (s : Scope) (h : 0 ≤ cap) : scopeSize sz0 (extractScope sz0 cap s).1 ≤ cap := by
  simp only [extractScope, scopeSize, own0, sumD_nil, innerCap, delta0]
  have := walk_cap (itemSize sz0) cutLeaf (by intro st c hc; simp [cutLeaf]; omega) ⟨cap - (cap - cap) - (0 + 0), 0⟩ s.items
    (by simp only; omega)
  simp only at this
  omega

theorem extractScope_rm_dest (cap : Int) (s : Scope) :
    scopeSize sz0 (extractScope sz0 cap s).1 = (extractScope sz0 cap s).2.2 := by
  simp only [extractScope, scopeSize, own0]
  have := walk_rm_dest (itemSize sz0) cutLeaf (by intro st c; simp [cutLeaf])
    ⟨innerCap sz0 cap (0 + sumD sz0 (itemSize sz0) []), 0⟩ s.items
  simp only at this ⊢
  omega

theorem scope_empty_size (a : Scope) (h : (decide (a.items.length > 0)) = false) : scopeSize sz0 a = 0 := by
  have : a.items = [] := by
    cases hi : a.items with
    | nil => rfl
    | cons x xs => simp [hi] at h
  simp [scopeSize, this, sumD_nil]

theorem res_empty_size (a : Res) (h : (decide (a.scopes.length > 0)) = false) : resSize sz0 a = 0 := by
  have : a.scopes = [] := by
    cases hi : a.scopes with
    | nil => rfl
    | cons x xs => simp [hi] at h
  simp [resSize, this, sumD_nil]

theorem extractRes_cap (cap : Int) (r : Res) (h : 0 ≤ cap) : resSize sz0 (extractRes sz0 cap r).1 ≤ cap := by
  simp only [extractRes, resSize, own0, sumD_nil, innerCap, delta0]
  have := walk_cap (scopeSize sz0) _ (fun st c hc => cutBy_cap (scopeSize sz0) (extractScope sz0) (fun s => s.items.length > 0)
    extractScope_cap st c hc) ⟨cap - (cap - cap) - (0 + 0), 0⟩ r.scopes (by simp only; omega)
  simp only at this
  omega

theorem extractRes_rm_dest (cap : Int) (r : Res) : resSize sz0 (extractRes sz0 cap r).1 = (extractRes sz0 cap r).2.2 := by
  simp only [extractRes, resSize, own0]
  have := walk_rm_dest (scopeSize sz0) _ (cutBy_rm_dest (scopeSize sz0) (extractScope sz0) (fun s => s.items.length > 0)
    extractScope_rm_dest (fun cap c h => scope_empty_size _ h))
    ⟨innerCap sz0 cap (0 + sumD sz0 (scopeSize sz0) []), 0⟩ r.scopes
  simp only at this ⊢
  omega

theorem extract_cap (cap : Int) (p : List Res) (h : 0 ≤ cap) : payloadSize sz0 (extract sz0 cap p).1 ≤ cap := by
  simp only [extract, payloadSize, sumD_nil]
  have := walk_cap (resSize sz0) _ (fun st c hc => cutBy_cap (resSize sz0) (extractRes sz0) (fun r => r.scopes.length > 0)
    extractRes_cap st c hc) ⟨cap - 0, 0⟩ p (by simp only; omega)
  simp only at this
  omega

theorem extract_rm_dest (cap : Int) (p : List Res) : payloadSize sz0 (extract sz0 cap p).1 = (extract sz0 cap p).2.2 := by
  simp only [extract, payloadSize]
  have := walk_rm_dest (resSize sz0) _ (cutBy_rm_dest (resSize sz0) (extractRes sz0) (fun r => r.scopes.length > 0)
    extractRes_rm_dest (fun cap c h => res_empty_size _ h)) ⟨cap - sumD sz0 (resSize sz0) [], 0⟩ p
  simp only at this ⊢
  omega


/-! ### weights: under the items sizer the size of a payload is the sum of its items' weights -/

def wsum (l : List Ctx) : Int := isum (l.map (fun c => (c.2.2.w : Int)))
/-- items that weigh anything under the items sizer -/
def heavyL (l : List Ctx) : Nat := (l.filter (fun c => c.2.2.w > 0)).length
def heavy (p : List Res) : Nat := heavyL (flatten p)

theorem wsum_append (a b : List Ctx) : wsum (a ++ b) = wsum a + wsum b := by simp [wsum, isum_append]
theorem wsum_nonneg (l : List Ctx) : 0 ≤ wsum l := by
  apply isum_nonneg_of
  intro x hx
  simp only [List.mem_map] at hx
  obtain ⟨c, _, rfl⟩ := hx
  exact Int.natCast_nonneg _
where
  isum_nonneg_of : ∀ (l : List Int), (∀ x ∈ l, 0 ≤ x) → 0 ≤ isum l := by
    intro l
    induction l with
    | nil => intro _; simp [isum]
    | cons a l ih =>
      intro h
      have h1 := h a (by simp)
      have h2 := ih (fun x hx => h x (by simp [hx]))
      rw [isum_cons]; omega

theorem wsum_flatMap {α : Type} (f : α → List Ctx) (l : List α) :
    wsum (l.flatMap f) = isum (l.map (fun a => wsum (f a))) := by
  induction l with
  | nil => simp [wsum, isum]
  | cons a l ih => simp only [List.flatMap_cons, wsum_append, ih, List.map_cons, isum_cons]

theorem scopeSize0 (r : RMeta) (s : Scope) : scopeSize sz0 s = wsum (Scope.flat r s) := by
  have e : itemSize sz0 = fun (x : Item) => (x.w : Int) := by funext x; simp [itemSize]
  simp [scopeSize, sumD0, wsum, Scope.flat, e, List.map_map, Function.comp_def]

theorem resSize0 (r : Res) : resSize sz0 r = wsum (Res.flat r) := by
  simp only [resSize, own0, sumD0, Res.flat, wsum_flatMap, Int.zero_add]
  congr 1
  apply List.map_congr_left
  intro s _
  exact scopeSize0 r.rmeta s

theorem payloadSize0 (p : List Res) : payloadSize sz0 p = wsum (flatten p) := by
  simp only [payloadSize, sumD0, flatten, wsum_flatMap]
  congr 1
  apply List.map_congr_left
  intro r _
  exact resSize0 r

theorem heavyL_append (a b : List Ctx) : heavyL (a ++ b) = heavyL a + heavyL b := by simp [heavyL]
theorem heavyL_le_length (l : List Ctx) : heavyL l ≤ l.length := List.length_filter_le _ _

theorem heavyL_zero_of_wsum (l : List Ctx) (h : wsum l = 0) : heavyL l = 0 := by
  induction l with
  | nil => rfl
  | cons a l ih =>
    have e : wsum (a :: l) = (a.2.2.w : Int) + wsum l := by simp [wsum, isum_cons]
    have h1 := wsum_nonneg l
    have h2 : (0 : Int) ≤ (a.2.2.w : Int) := Int.natCast_nonneg _
    rw [e] at h
    have ha : a.2.2.w = 0 := by omega
    have := ih (by omega)
    simp only [heavyL] at this ⊢
    simp [List.filter_cons, ha, this]

theorem heavyL_perm {a b : List Ctx} (h : a.Perm b) : heavyL a = heavyL b := (h.filter _).length_eq

/-! ### moveFirst moves at most one item, and none only if there is none -/

theorem walk_first {α β : Type} (cut : Bool → α → Option α × Option α × Bool) (f : α → List β)
    (hcut : ∀ c, (oflat f (cut false c).1).length ≤ 1 ∧ ((cut false c).2.2 = false → oflat f (cut false c).1 = [] ∧ f c = [])) :
    ∀ (l : List α),
      ((walk (fun moved => moved) (fun _ _ => none) cut false l).dest.flatMap f).length ≤ 1 ∧
      ((walk (fun moved => moved) (fun _ _ => none) cut false l).st = false →
        (walk (fun moved => moved) (fun _ _ => none) cut false l).dest.flatMap f = [] ∧ l.flatMap f = []) := by
  intro l
  induction l with
  | nil => simp [walk]
  | cons c cs ih =>
    simp only [walk, Bool.false_eq_true, if_false]
    have hc := hcut c
    cases hk : (cut false c).2.2 with
    | true =>
      rw [walk_stopped]
      simp only [List.append_nil]
      exact ⟨hc.1, fun h => by cases h⟩
    | false =>
      have := hc.2 hk
      have e : (cut false c).1.toList.flatMap f = oflat f (cut false c).1 := rfl
      simp only [List.flatMap_append, List.flatMap_cons, e, this.1, this.2, List.nil_append]
      exact ih

theorem mfScope_first (r : RMeta) (s : Scope) :
    (oflat (Scope.flat r) (mfScope false s).1).length ≤ 1 ∧
    ((mfScope false s).2.2 = false → oflat (Scope.flat r) (mfScope false s).1 = [] ∧ Scope.flat r s = []) := by
  simp only [mfScope]
  cases hi : s.items with
  | nil => simp [Scope.flat, hi]
  | cons c cs => simp [moveFirstOf_cons, Scope.flat]

theorem mfRes_first (r : Res) :
    (oflat Res.flat (mfRes false r).1).length ≤ 1 ∧
    ((mfRes false r).2.2 = false → oflat Res.flat (mfRes false r).1 = [] ∧ Res.flat r = []) := by
  simp only [mfRes]
  rw [oflat_if_len' Res.flat _ (fun l => { rmeta := r.rmeta, scopes := l }) (by simp [Res.flat])]
  have := walk_first mfScope (Scope.flat r.rmeta) (mfScope_first r.rmeta) r.scopes
  simpa [Res.flat] using this

theorem moveFirst_first (src : List Res) :
    (flatten (walk (fun moved => moved) (fun _ _ => none) mfRes false src).dest).length ≤ 1 ∧
    ((walk (fun moved => moved) (fun _ _ => none) mfRes false src).st = false →
      flatten (walk (fun moved => moved) (fun _ _ => none) mfRes false src).dest = [] ∧ flatten src = []) :=
  walk_first mfRes Res.flat mfRes_first src

theorem logs_bounded : Bounded (logsOps sz0) heavy := by
  refine ⟨fun cap p h => extract_cap cap p h, ?_, ?_, ?_⟩
  · intro cap p h
    have h' : (extract sz0 cap p).2.2 = 0 := h
    have := extract_rm_dest cap p
    rw [h', payloadSize0] at this
    exact heavyL_zero_of_wsum _ this
  · intro s d
    have := (moveFirst_first s).1
    have hl := heavyL_le_length (flatten (walk (fun moved => moved) (fun _ _ => none) mfRes false s).dest)
    simp only [logsOps, moveFirst, heavy, flatten, List.flatMap_append, heavyL_append] at *
    omega
  · intro s d h
    have hm : (walk (fun moved => moved) (fun _ _ => none) mfRes false s).st = false := h
    have hf := (moveFirst_first s).2 hm
    have hp := moveFirst_perm s d
    simp only [logsOps, moveFirst, heavy] at hp ⊢
    have e : flatten ((walk (fun moved => moved) (fun _ _ => none) mfRes false s).rem ++
        (d ++ (walk (fun moved => moved) (fun _ _ => none) mfRes false s).dest)) =
        flatten (walk (fun moved => moved) (fun _ _ => none) mfRes false s).rem ++
        flatten (d ++ (walk (fun moved => moved) (fun _ _ => none) mfRes false s).dest) := by
      simp [flatten]
    rw [e, heavyL_perm hp, hf.2]
    simp

end OtelVerif.C04
