import OtelVerif.Lemmas.C04Bound
import OtelVerif.Lemmas.C04Pinned
/-! C04: the size bound for the BYTES sizer (logs, traces, profiles): `DeltaSize n = 1 + n + sov n` with the varint length -/
namespace OtelVerif.C04
open OtelVerif.Payload

local notation "szB" => (Sizer.mk true)

theorem sovFuel_pos (f n : Nat) : 1 ≤ sovFuel f n := by
  cases f with
  | zero => simp [sovFuel]
  | succ f => simp only [sovFuel]; split <;> omega

theorem sovFuel_mono (f : Nat) : ∀ (a b : Nat), a ≤ b → sovFuel f a ≤ sovFuel f b := by
  induction f with
  | zero => intro a b _; simp [sovFuel]
  | succ f ih =>
    intro a b h
    simp only [sovFuel]
    by_cases ha : a < 128
    · simp only [ha, if_true]
      split
      · omega
      · have := sovFuel_pos f (b / 128); omega
    · have hb : ¬ b < 128 := by omega
      simp only [ha, hb, if_false]
      have := ih (a / 128) (b / 128) (Nat.div_le_div_right h)
      omega

theorem sov_mono (a b : Int) (ha : 0 ≤ a) (hab : a ≤ b) : sov a ≤ sov b := by
  have h1 : ¬ a < 0 := by omega
  have h2 : ¬ b < 0 := by omega
  simp only [sov, h1, h2, if_false]
  have := sovFuel_mono 9 a.toNat b.toNat (by omega)
  omega

theorem sov_pos (n : Int) : 1 ≤ sov n := by
  unfold sov
  split
  · omega
  · have := sovFuel_pos 9 n.toNat; omega

@[simp] theorem deltaB (n : Int) : Sizer.delta szB n = 1 + n + sov n := by simp [Sizer.delta]
@[simp] theorem ownB (b : Nat) : Sizer.own szB b = (b : Int) := by simp [Sizer.own]

theorem deltaB_ge (n : Int) (h : 0 ≤ n) : n + 2 ≤ Sizer.delta szB n := by
  have := sov_pos n; simp only [deltaB]; omega

/-- `DeltaSize` grows at least as fast as its argument -/
theorem deltaB_slope (a b : Int) (hb : 0 ≤ b) (hab : b ≤ a) : a - b ≤ Sizer.delta szB a - Sizer.delta szB b := by
  have := sov_mono b a hb hab
  simp only [deltaB]; omega

theorem itemSizeB_nonneg (i : Item) : 0 ≤ itemSize szB i := by simp [itemSize]
theorem scopeSizeB_nonneg (s : Scope) : 0 ≤ scopeSize szB s := by
  have := sumD_bytes_nonneg (itemSize szB) itemSizeB_nonneg s.items
  simp only [scopeSize, ownB]; omega
theorem resSizeB_nonneg (r : Res) : 0 ≤ resSize szB r := by
  have := sumD_bytes_nonneg (scopeSize szB) scopeSizeB_nonneg r.scopes
  simp only [resSize, ownB]; omega

/-- bytes: a pass never puts more into the destination than the (non-negative part of the) capacity it started with -/
theorem walk_capB {α : Type} (size : α → Int) (hsz : ∀ c, 0 ≤ size c) (cut : St → α → Option α × Option α × St)
    (hcut : ∀ st c, osize szB size (cut st c).1 + max (cut st c).2.2.cap 0 ≤ max st.cap 0) :
    ∀ (s : St) (l : List α),
      sumD szB size (walk stop (fitsBy szB size) cut s l).dest + max (walk stop (fitsBy szB size) cut s l).st.cap 0 ≤ max s.cap 0 := by
  intro s l
  induction l generalizing s with
  | nil => simp [walk, sumD_nil]
  | cons c cs ih =>
    simp only [walk]
    split
    · exact ih s
    · simp only [fitsBy]
      split
      · next s1 hs1 =>
        split at hs1
        · cases hs1
        · next hfit =>
          injection hs1 with hs1
          subst hs1
          have hd := deltaB_ge (size c) (hsz c)
          have := ih ⟨s.cap - Sizer.delta szB (size c), s.rm + Sizer.delta szB (size c)⟩
          simp only [sumD_cons] at this ⊢
          omega
      · have h1 := hcut s c
        have h2 := ih (cut s c).2.2
        simp only [sumD_append]
        have e : sumD szB size (cut s c).1.toList = osize szB size (cut s c).1 := rfl
        rw [e]; omega

theorem cutLeaf_capB {α : Type} (size : α → Int) (st : St) (c : α) :
    osize szB size (cutLeaf st c).1 + max (cutLeaf st c).2.2.cap 0 ≤ max st.cap 0 := by
  simp [cutLeaf]; omega

theorem cutBy_capB {α : Type} (size : α → Int) (ext : Int → α → α × α × Int) (nonEmpty : α → Bool)
    (hext : ∀ cap c, nonEmpty (ext cap c).1 = true → Sizer.delta szB (size (ext cap c).1) ≤ max cap 0) (st : St) (c : α) :
    osize szB size (cutBy szB size ext nonEmpty st c).1 + max (cutBy szB size ext nonEmpty st c).2.2.cap 0 ≤ max st.cap 0 := by
  simp only [cutBy]
  by_cases hn : nonEmpty (ext st.cap c).1 = true
  · have := hext st.cap c hn
    simp only [hn, if_true, osize_some]; omega
  · simp only [hn, Bool.false_eq_true, if_false, osize_none]; omega

/-- a fragment with `own` bytes of its own and children worth `S ≤ innerCap` fits `cap` once its length prefix is added -/
theorem frag_fits (cap own S : Int) (hown : 0 ≤ own) (hS : 0 < S) (hle : S ≤ max (innerCap szB cap own) 0) :
    Sizer.delta szB (own + S) ≤ max cap 0 := by
  simp only [innerCap, deltaB] at hle ⊢
  have hp := sov_pos cap
  have hcap : 0 ≤ cap := by
    by_cases h : cap < 0
    · exfalso
      have : sov cap = 10 := by simp [sov, h]
      omega
    · omega
  have hm := sov_mono (own + S) cap (by omega) (by omega)
  omega

theorem sumD_pos_of_ne {α : Type} (size : α → Int) (hsz : ∀ c, 0 ≤ size c) (l : List α) (h : l ≠ []) : 0 < sumD szB size l := by
  cases l with
  | nil => exact absurd rfl h
  | cons a l =>
    have := sumD_bytes_nonneg size hsz l
    have := deltaB_ge (size a) (hsz a)
    have := hsz a
    rw [sumD_cons]; omega

theorem extractScope_capB (cap : Int) (s : Scope) (h : (decide ((extractScope szB cap s).1.items.length > 0)) = true) :
    Sizer.delta szB (scopeSize szB (extractScope szB cap s).1) ≤ max cap 0 := by
  simp only [extractScope] at h ⊢
  have hw := walk_capB (itemSize szB) itemSizeB_nonneg cutLeaf (cutLeaf_capB (itemSize szB))
    ⟨innerCap szB cap (scopeSize szB { smeta := s.smeta, items := [] }), 0⟩ s.items
  have hne : (walk stop (fitsBy szB (itemSize szB)) cutLeaf ⟨innerCap szB cap (scopeSize szB { smeta := s.smeta, items := [] }), 0⟩ s.items).dest ≠ [] := by
    have hlen := of_decide_eq_true h
    intro h0; simp [h0] at hlen
  have hpos := sumD_pos_of_ne (itemSize szB) itemSizeB_nonneg _ hne
  simp only [scopeSize, ownB, sumD_nil, Int.add_zero] at hw ⊢
  exact frag_fits cap _ _ (Int.natCast_nonneg _) hpos (by omega)

theorem extractRes_capB (cap : Int) (r : Res) (h : (decide ((extractRes szB cap r).1.scopes.length > 0)) = true) :
    Sizer.delta szB (resSize szB (extractRes szB cap r).1) ≤ max cap 0 := by
  simp only [extractRes] at h ⊢
  have hw := walk_capB (scopeSize szB) scopeSizeB_nonneg _
    (cutBy_capB (scopeSize szB) (extractScope szB) (fun s => s.items.length > 0) extractScope_capB)
    ⟨innerCap szB cap (resSize szB { rmeta := r.rmeta, scopes := [] }), 0⟩ r.scopes
  have hne : (walk stop (fitsBy szB (scopeSize szB)) (cutBy szB (scopeSize szB) (extractScope szB) (fun s => s.items.length > 0))
      ⟨innerCap szB cap (resSize szB { rmeta := r.rmeta, scopes := [] }), 0⟩ r.scopes).dest ≠ [] := by
    have hlen := of_decide_eq_true h
    intro h0; simp [h0] at hlen
  have hpos := sumD_pos_of_ne (scopeSize szB) scopeSizeB_nonneg _ hne
  simp only [resSize, ownB, sumD_nil, Int.add_zero] at hw ⊢
  exact frag_fits cap _ _ (Int.natCast_nonneg _) hpos (by omega)

theorem extract_capB (cap : Int) (p : List Res) (h : 0 ≤ cap) : payloadSize szB (extract szB cap p).1 ≤ cap := by
  simp only [extract, payloadSize, sumD_nil]
  have := walk_capB (resSize szB) resSizeB_nonneg _
    (cutBy_capB (resSize szB) (extractRes szB) (fun r => r.scopes.length > 0) extractRes_capB) ⟨cap - 0, 0⟩ p
  simp only at this
  omega


/-! ### bytes: `removedSize = 0` means nothing at all went to the destination -/

theorem walk_rm_zero {α β : Type} (size : α → Int) (hsz : ∀ c, 0 ≤ size c) (cut : St → α → Option α × Option α × St)
    (f : α → List β)
    (hcut : ∀ st c, st.rm ≤ (cut st c).2.2.rm ∧ ((cut st c).2.2.rm = st.rm → oflat f (cut st c).1 = [])) :
    ∀ (s : St) (l : List α),
      s.rm ≤ (walk stop (fitsBy szB size) cut s l).st.rm ∧
      ((walk stop (fitsBy szB size) cut s l).st.rm = s.rm → (walk stop (fitsBy szB size) cut s l).dest.flatMap f = []) := by
  intro s l
  induction l generalizing s with
  | nil => simp [walk]
  | cons c cs ih =>
    simp only [walk]
    split
    · exact ih s
    · simp only [fitsBy]
      split
      · next s1 hs1 =>
        split at hs1
        · cases hs1
        · injection hs1 with hs1
          subst hs1
          have hd := deltaB_ge (size c) (hsz c)
          have h0 := hsz c
          have := ih ⟨s.cap - Sizer.delta szB (size c), s.rm + Sizer.delta szB (size c)⟩
          simp only at this ⊢
          exact ⟨by omega, fun h => by omega⟩
      · have h1 := hcut s c
        have h2 := ih (cut s c).2.2
        dsimp only
        refine ⟨by omega, fun h => ?_⟩
        have e1 : (cut s c).2.2.rm = s.rm := by omega
        have e : (cut s c).1.toList.flatMap f = oflat f (cut s c).1 := rfl
        simp only [List.flatMap_append, e, h1.2 e1, List.nil_append]
        exact h2.2 (by omega)

theorem cutLeaf_rm_zero {α β : Type} (f : α → List β) (st : St) (c : α) :
    st.rm ≤ (cutLeaf st c).2.2.rm ∧ ((cutLeaf st c).2.2.rm = st.rm → oflat f (cutLeaf st c).1 = []) := by
  simp [cutLeaf]

theorem cutBy_rm_zero {α β : Type} (size : α → Int) (hsz : ∀ c, 0 ≤ size c) (ext : Int → α → α × α × Int) (nonEmpty : α → Bool)
    (f : α → List β)
    (hext : ∀ cap c, 0 ≤ (ext cap c).2.2 ∧ size (ext cap c).2.1 = size c - (ext cap c).2.2 ∧ ((ext cap c).2.2 = 0 → f (ext cap c).1 = []))
    (st : St) (c : α) :
    st.rm ≤ (cutBy szB size ext nonEmpty st c).2.2.rm ∧
    ((cutBy szB size ext nonEmpty st c).2.2.rm = st.rm → oflat f (cutBy szB size ext nonEmpty st c).1 = []) := by
  have he := hext st.cap c
  have hrem := hsz (ext st.cap c).2.1
  have hslope := deltaB_slope (size c) (size c - (ext st.cap c).2.2) (by omega) (by omega)
  simp only [cutBy]
  refine ⟨by omega, fun h => ?_⟩
  have h0 : (ext st.cap c).2.2 = 0 := by omega
  have := he.2.2 h0
  by_cases hn : nonEmpty (ext st.cap c).1 = true
  · simp [hn, this]
  · simp [hn]

theorem extractScope_rm_zero (r : RMeta) (cap : Int) (s : Scope) :
    0 ≤ (extractScope szB cap s).2.2 ∧ scopeSize szB (extractScope szB cap s).2.1 = scopeSize szB s - (extractScope szB cap s).2.2 ∧
    ((extractScope szB cap s).2.2 = 0 → Scope.flat r (extractScope szB cap s).1 = []) := by
  refine ⟨?_, extractScope_size szB cap s, ?_⟩
  · simp only [extractScope]
    exact (walk_rm_zero (itemSize szB) itemSizeB_nonneg cutLeaf (fun i => [i]) (cutLeaf_rm_zero _) _ s.items).1
  · simp only [extractScope]
    intro h
    have := (walk_rm_zero (itemSize szB) itemSizeB_nonneg cutLeaf (fun i => [i]) (cutLeaf_rm_zero _)
      ⟨innerCap szB cap (scopeSize szB { smeta := s.smeta, items := [] }), 0⟩ s.items).2 h
    have e : ∀ l : List Item, l.flatMap (fun i => [i]) = l := by intro l; induction l <;> simp_all
    rw [e] at this
    simp [Scope.flat, this]

theorem extractRes_rm_zero (cap : Int) (r : Res) :
    0 ≤ (extractRes szB cap r).2.2 ∧ resSize szB (extractRes szB cap r).2.1 = resSize szB r - (extractRes szB cap r).2.2 ∧
    ((extractRes szB cap r).2.2 = 0 → Res.flat (extractRes szB cap r).1 = []) := by
  have hw := walk_rm_zero (scopeSize szB) scopeSizeB_nonneg
    (cutBy szB (scopeSize szB) (extractScope szB) (fun s => s.items.length > 0)) (Scope.flat r.rmeta)
    (cutBy_rm_zero (scopeSize szB) scopeSizeB_nonneg (extractScope szB) _ (Scope.flat r.rmeta) (extractScope_rm_zero r.rmeta))
    ⟨innerCap szB cap (resSize szB { rmeta := r.rmeta, scopes := [] }), 0⟩ r.scopes
  refine ⟨?_, extractRes_size szB cap r, ?_⟩
  · simp only [extractRes]; exact hw.1
  · simp only [extractRes, Res.flat]; exact hw.2

theorem extract_rm_zero (cap : Int) (p : List Res) (h : (extract szB cap p).2.2 = 0) : flatten (extract szB cap p).1 = [] := by
  have hw := walk_rm_zero (resSize szB) resSizeB_nonneg
    (cutBy szB (resSize szB) (extractRes szB) (fun r => r.scopes.length > 0)) Res.flat
    (cutBy_rm_zero (resSize szB) resSizeB_nonneg (extractRes szB) _ Res.flat extractRes_rm_zero)
    ⟨cap - payloadSize szB [], 0⟩ p
  simp only [extract, flatten] at h ⊢
  exact hw.2 h

/-! ### items that weigh anything, for any sizer -/

def heavyS (sz : Sizer) (p : List Res) : Nat := ((flatten p).filter (fun c => decide (itemSize sz c.2.2 > 0))).length

theorem heavyS_append (sz : Sizer) (a b : List Res) : heavyS sz (a ++ b) = heavyS sz a + heavyS sz b := by
  simp [heavyS, flatten]

theorem heavyS_le (sz : Sizer) (p : List Res) : heavyS sz p ≤ (flatten p).length := List.length_filter_le _ _

theorem heavyS_nil_of_flat (sz : Sizer) (p : List Res) (h : flatten p = []) : heavyS sz p = 0 := by simp [heavyS, h]

theorem moveFirst_heavyS (sz : Sizer) (s d : List Res) : heavyS sz (moveFirst s d).2.1 ≤ heavyS sz d + 1 := by
  have := (moveFirst_first s).1
  have hl := heavyS_le sz (walk (fun moved => moved) (fun _ _ => none) mfRes false s).dest
  simp only [moveFirst, heavyS_append]
  omega

theorem moveFirst_noneS (sz : Sizer) (s d : List Res) (h : (moveFirst s d).2.2 = false) :
    heavyS sz ((moveFirst s d).1 ++ (moveFirst s d).2.1) ≤ heavyS sz d := by
  have hm : (walk (fun moved => moved) (fun _ _ => none) mfRes false s).st = false := h
  have hf := (moveFirst_first s).2 hm
  have hp := moveFirst_perm s d
  simp only [moveFirst] at hp ⊢
  have hfl : flatten ((walk (fun moved => moved) (fun _ _ => none) mfRes false s).rem ++
      (d ++ (walk (fun moved => moved) (fun _ _ => none) mfRes false s).dest)) =
      flatten (walk (fun moved => moved) (fun _ _ => none) mfRes false s).rem ++
      flatten (d ++ (walk (fun moved => moved) (fun _ _ => none) mfRes false s).dest) := by simp [flatten]
  have := (hp.filter (fun c => decide (itemSize sz c.2.2 > 0))).length_eq
  rw [hf.2, List.nil_append] at this
  simp only [heavyS, hfl]
  omega

theorem logs_bounded_bytes : Bounded (logsOps szB) (heavyS szB) :=
  ⟨fun cap p h => extract_capB cap p h,
   fun cap p h => heavyS_nil_of_flat _ _ (extract_rm_zero cap p h),
   fun s d => moveFirst_heavyS szB s d,
   fun s d h => moveFirst_noneS szB s d h⟩

end OtelVerif.C04
