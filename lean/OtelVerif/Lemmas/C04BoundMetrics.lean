import OtelVerif.Lemmas.C04Bound
import OtelVerif.Lemmas.C04Pinned
/-! C04: the size bound for metrics under the items sizer (either fragment construction) -/
namespace OtelVerif.C04
open OtelVerif.Payload

theorem metricSize0 (m : Metric) : metricSize sz0 m = (m.points.length : Int) := by
  simp only [metricSize, Bool.false_eq_true, if_false]
  exact sumD_count_points m.points

theorem extractPoints_cap (keep : Bool) (cap : Int) (m : Metric) (h : 0 ≤ cap) :
    metricSize sz0 (extractPoints keep sz0 cap m).1 ≤ cap := by
  simp only [extractPoints]
  by_cases ht : (m.mmeta.ty == 0) = true
  · simp [ht, metricSize0]; exact h
  · simp only [ht, Bool.false_eq_true, if_false]
    have e : innerCap sz0 cap (metricSize sz0 { mmeta := fragMeta keep m.mmeta, points := [] }) - (Sizer.delta sz0 cap - cap) = cap := by
      simp only [innerCap, delta0, metricSize0, List.length_nil]; omega
    rw [e]
    have := walk_cap (pointSize sz0) cutLeaf (by intro st c hc; simp [cutLeaf]; omega) ⟨cap, 0⟩ m.points (by simp only; omega)
    simp only [metricSize, Bool.false_eq_true, if_false]
    simp only at this
    omega

theorem extractPoints_rm_dest (keep : Bool) (cap : Int) (m : Metric) :
    metricSize sz0 (extractPoints keep sz0 cap m).1 = (extractPoints keep sz0 cap m).2.2 := by
  simp only [extractPoints]
  by_cases ht : (m.mmeta.ty == 0) = true
  · simp [ht, metricSize0]
  · simp only [ht, Bool.false_eq_true, if_false]
    have := walk_rm_dest (pointSize sz0) cutLeaf (by intro st c; simp [cutLeaf])
      ⟨innerCap sz0 cap (metricSize sz0 { mmeta := fragMeta keep m.mmeta, points := [] }) - (Sizer.delta sz0 cap - cap), 0⟩ m.points
    simp only [metricSize, Bool.false_eq_true, if_false] at this ⊢
    omega

theorem metric_empty_size (keep : Bool) (a : Metric)
    (h : (if keep = true then decide (a.points.length > 0) else decide (metricSize sz0 a > 0)) = false) : metricSize sz0 a = 0 := by
  rw [metricSize0] at h ⊢
  cases hp : a.points with
  | nil => simp
  | cons x xs =>
    exfalso
    cases keep <;> simp [hp] at h <;> omega

theorem extractMScope_cap (keep : Bool) (cap : Int) (s : MScope) (h : 0 ≤ cap) :
    mscopeSize sz0 (extractMScope keep sz0 cap s).1 ≤ cap := by
  simp only [extractMScope, mscopeSize, own0, sumD_nil, innerCap, delta0]
  have := walk_cap (metricSize sz0) _ (fun st c hc => cutBy_cap (metricSize sz0) (extractPoints keep sz0)
    (fun m => if keep then m.points.length > 0 else metricSize sz0 m > 0) (extractPoints_cap keep) st c hc)
    ⟨cap - (cap - cap) - (0 + 0), 0⟩ s.metrics (by simp only; omega)
  simp only at this
  omega

theorem extractMScope_rm_dest (keep : Bool) (cap : Int) (s : MScope) :
    mscopeSize sz0 (extractMScope keep sz0 cap s).1 = (extractMScope keep sz0 cap s).2.2 := by
  simp only [extractMScope, mscopeSize, own0]
  have := walk_rm_dest (metricSize sz0) _ (cutBy_rm_dest (metricSize sz0) (extractPoints keep sz0)
    (fun m => if keep then m.points.length > 0 else metricSize sz0 m > 0) (extractPoints_rm_dest keep)
    (fun cap c h => metric_empty_size keep _ h))
    ⟨innerCap sz0 cap (0 + sumD sz0 (metricSize sz0) []), 0⟩ s.metrics
  simp only at this ⊢
  omega

theorem mscope_empty_size (a : MScope) (h : (decide (a.metrics.length > 0)) = false) : mscopeSize sz0 a = 0 := by
  have : a.metrics = [] := by
    cases hi : a.metrics with
    | nil => rfl
    | cons x xs => simp [hi] at h
  simp [mscopeSize, this, sumD_nil]

theorem mres_empty_size (a : MRes) (h : (decide (a.scopes.length > 0)) = false) : mresSize sz0 a = 0 := by
  have : a.scopes = [] := by
    cases hi : a.scopes with
    | nil => rfl
    | cons x xs => simp [hi] at h
  simp [mresSize, this, sumD_nil]

theorem extractMRes_cap (keep : Bool) (cap : Int) (r : MRes) (h : 0 ≤ cap) : mresSize sz0 (extractMRes keep sz0 cap r).1 ≤ cap := by
  simp only [extractMRes, mresSize, own0, sumD_nil, innerCap, delta0]
  have := walk_cap (mscopeSize sz0) _ (fun st c hc => cutBy_cap (mscopeSize sz0) (extractMScope keep sz0)
    (fun s => s.metrics.length > 0) (extractMScope_cap keep) st c hc) ⟨cap - (cap - cap) - (0 + 0), 0⟩ r.scopes (by simp only; omega)
  simp only at this
  omega

theorem extractMRes_rm_dest (keep : Bool) (cap : Int) (r : MRes) :
    mresSize sz0 (extractMRes keep sz0 cap r).1 = (extractMRes keep sz0 cap r).2.2 := by
  simp only [extractMRes, mresSize, own0]
  have := walk_rm_dest (mscopeSize sz0) _ (cutBy_rm_dest (mscopeSize sz0) (extractMScope keep sz0)
    (fun s => s.metrics.length > 0) (extractMScope_rm_dest keep) (fun cap c h => mscope_empty_size _ h))
    ⟨innerCap sz0 cap (0 + sumD sz0 (mscopeSize sz0) []), 0⟩ r.scopes
  simp only at this ⊢
  omega

theorem mextract_cap (keep : Bool) (cap : Int) (p : List MRes) (h : 0 ≤ cap) : mpayloadSize sz0 (mextract keep sz0 cap p).1 ≤ cap := by
  simp only [mextract, mpayloadSize, sumD_nil]
  have := walk_cap (mresSize sz0) _ (fun st c hc => cutBy_cap (mresSize sz0) (extractMRes keep sz0)
    (fun r => r.scopes.length > 0) (extractMRes_cap keep) st c hc) ⟨cap - 0, 0⟩ p (by simp only; omega)
  simp only at this
  omega

theorem mextract_rm_dest (keep : Bool) (cap : Int) (p : List MRes) :
    mpayloadSize sz0 (mextract keep sz0 cap p).1 = (mextract keep sz0 cap p).2.2 := by
  simp only [mextract, mpayloadSize]
  have := walk_rm_dest (mresSize sz0) _ (cutBy_rm_dest (mresSize sz0) (extractMRes keep sz0)
    (fun r => r.scopes.length > 0) (extractMRes_rm_dest keep) (fun cap c h => mres_empty_size _ h))
    ⟨cap - sumD sz0 (mresSize sz0) [], 0⟩ p
  simp only at this ⊢
  omega

/-- under the items sizer the size of a metrics payload is its number of data points -/
theorem isum_length_flatMap {α β : Type} (f : α → List β) (l : List α) :
    isum (l.map (fun a => ((f a).length : Int))) = ((l.flatMap f).length : Int) := by
  induction l with
  | nil => simp [isum]
  | cons a l ih => simp only [List.map_cons, isum_cons, ih, List.flatMap_cons, List.length_append]; omega

theorem mscopeSize0 (r : RMeta) (s : MScope) : mscopeSize sz0 s = ((MScope.flat r s).length : Int) := by
  simp only [mscopeSize, own0, sumD0, Int.zero_add, MScope.flat]
  rw [← isum_length_flatMap]
  congr 1
  apply List.map_congr_left
  intro m _
  simp [metricSize0, Metric.flat]

theorem mresSize0 (r : MRes) : mresSize sz0 r = ((MRes.flat r).length : Int) := by
  simp only [mresSize, own0, sumD0, Int.zero_add, MRes.flat]
  rw [← isum_length_flatMap]
  congr 1
  apply List.map_congr_left
  intro s _
  exact mscopeSize0 r.rmeta s

theorem mpayloadSize0 (p : List MRes) : mpayloadSize sz0 p = ((mflatten p).length : Int) := by
  simp only [mpayloadSize, sumD0, mflatten]
  rw [← isum_length_flatMap]
  congr 1
  apply List.map_congr_left
  intro r _
  exact mresSize0 r

/-- data points (each weighs 1 under the items sizer) -/
def heavyM (p : List MRes) : Nat := (mflatten p).length

theorem mfMetric_first (r : RMeta) (sm : SMeta) (m : Metric) :
    (oflat (Metric.flat r sm) (mfMetric false m).1).length ≤ 1 ∧
    ((mfMetric false m).2.2 = false → oflat (Metric.flat r sm) (mfMetric false m).1 = [] ∧ Metric.flat r sm m = []) := by
  simp only [mfMetric]
  cases hi : m.points with
  | nil => simp [Metric.flat, hi]
  | cons c cs => simp [moveFirstOf_cons, Metric.flat]

theorem mfMScope_first (r : RMeta) (s : MScope) :
    (oflat (MScope.flat r) (mfMScope false s).1).length ≤ 1 ∧
    ((mfMScope false s).2.2 = false → oflat (MScope.flat r) (mfMScope false s).1 = [] ∧ MScope.flat r s = []) := by
  simp only [mfMScope]
  rw [oflat_if_len' (MScope.flat r) _ (fun l => { smeta := s.smeta, metrics := l }) (by simp [MScope.flat])]
  have := walk_first mfMetric (Metric.flat r s.smeta) (mfMetric_first r s.smeta) s.metrics
  simpa [MScope.flat] using this

theorem mfMRes_first (r : MRes) :
    (oflat MRes.flat (mfMRes false r).1).length ≤ 1 ∧
    ((mfMRes false r).2.2 = false → oflat MRes.flat (mfMRes false r).1 = [] ∧ MRes.flat r = []) := by
  simp only [mfMRes]
  rw [oflat_if_len' MRes.flat _ (fun l => { rmeta := r.rmeta, scopes := l }) (by simp [MRes.flat])]
  have := walk_first mfMScope (MScope.flat r.rmeta) (mfMScope_first r.rmeta) r.scopes
  simpa [MRes.flat] using this

theorem mmoveFirst_first (src : List MRes) :
    (mflatten (walk (fun moved => moved) (fun _ _ => none) mfMRes false src).dest).length ≤ 1 ∧
    ((walk (fun moved => moved) (fun _ _ => none) mfMRes false src).st = false →
      mflatten (walk (fun moved => moved) (fun _ _ => none) mfMRes false src).dest = [] ∧ mflatten src = []) :=
  walk_first mfMRes MRes.flat mfMRes_first src

theorem metrics_bounded (keep : Bool) : Bounded (metricsOps keep sz0) heavyM := by
  refine ⟨fun cap p h => mextract_cap keep cap p h, ?_, ?_, ?_⟩
  · intro cap p h
    have h' : (mextract keep sz0 cap p).2.2 = 0 := h
    have := mextract_rm_dest keep cap p
    rw [h', mpayloadSize0] at this
    simp only [heavyM, metricsOps]
    omega
  · intro s d
    have := (mmoveFirst_first s).1
    simp only [metricsOps, mmoveFirst, heavyM, mflatten, List.flatMap_append, List.length_append] at *
    omega
  · intro s d h
    have hm : (walk (fun moved => moved) (fun _ _ => none) mfMRes false s).st = false := h
    have hf := (mmoveFirst_first s).2 hm
    have hp := (mmoveFirst_perm s d).length_eq
    simp only [metricsOps, mmoveFirst, heavyM] at hp ⊢
    simp only [mflatten, List.flatMap_append, List.length_append] at hp hf ⊢
    rw [hf.2] at hp
    simp only [List.length_nil] at hp
    omega

end OtelVerif.C04
