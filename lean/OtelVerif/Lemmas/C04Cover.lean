import OtelVerif.Lemmas.C04Done
/-! C04: every batch that contains an item of a request holds a `Done` of that request (all histories) -/
namespace OtelVerif.C04
open OtelVerif.Payload

/-- the pending batch and the in-flight batches, as (units, multiDone) -/
def BState.slots (s : BState) : List (Parts × List DoneObj) :=
  (match s.cur with | some b => [b] | none => []) ++ s.flights.map (fun f => (f.parts, f.dones))

/-- every unit that holds anything is covered by a `Done` of the request it came from -/
def Covered (refs : List RefCount) (b : Parts × List DoneObj) : Prop :=
  ∀ u ∈ b.1, 0 < u.2 → ∃ d ∈ b.2, tgt refs d = some u.1

/-! ### `pack` -/

theorem pack_mem (max : Nat) : ∀ (all acc : Parts) (room : Nat), ∀ ch ∈ pack max all acc room, ∀ u ∈ ch, u ∈ all ∨ u ∈ acc := by
  intro all
  induction all with
  | nil => intro acc room ch hch u hu; simp only [pack, List.mem_singleton] at hch; subst hch; exact Or.inr (by simpa using hu)
  | cons x rest ih =>
    intro acc room ch hch u hu
    obtain ⟨id, n⟩ := x
    simp only [pack] at hch
    split at hch
    · rcases List.mem_cons.mp hch with h | h
      · subst h; exact Or.inr (by simpa using hu)
      · rcases ih _ _ ch h u hu with h' | h'
        · exact Or.inl (List.mem_cons_of_mem _ h')
        · simp only [List.mem_singleton] at h'; subst h'; exact Or.inl (List.mem_cons_self ..)
    · rcases ih _ _ ch hch u hu with h' | h'
      · exact Or.inl (List.mem_cons_of_mem _ h')
      · rcases List.mem_cons.mp h' with h'' | h''
        · subst h''; exact Or.inl (List.mem_cons_self ..)
        · exact Or.inr h''

/-- the first chunk is what was accumulated plus a prefix of the input; every later chunk holds only later input -/
theorem pack_head (max : Nat) : ∀ (all acc : Parts) (room : Nat),
    ∃ pre post chs, all = pre ++ post ∧ pack max all acc room = (acc.reverse ++ pre) :: chs ∧ ∀ ch ∈ chs, ∀ u ∈ ch, u ∈ post := by
  intro all
  induction all with
  | nil => intro acc room; exact ⟨[], [], [], rfl, by simp [pack], by simp⟩
  | cons x rest ih =>
    intro acc room
    obtain ⟨id, n⟩ := x
    simp only [pack]
    split
    · refine ⟨[], (id, n) :: rest, pack max rest [(id, n)] (max - n), rfl, by simp, ?_⟩
      intro ch hch u hu
      rcases pack_mem max rest [(id, n)] (max - n) ch hch u hu with h | h
      · exact List.mem_cons_of_mem _ h
      · simp only [List.mem_singleton] at h; subst h; exact List.mem_cons_self ..
    · obtain ⟨pre, post, chs, h1, h2, h3⟩ := ih ((id, n) :: acc) (room - n)
      refine ⟨(id, n) :: pre, post, chs, by rw [h1]; rfl, by rw [h2]; simp, h3⟩

/-- units that fit the room left all go into the current chunk -/
theorem pack_fits (max : Nat) (units : Parts) : ∀ (cur acc : Parts) (room : Nat), cur.items ≤ room →
    pack max (cur ++ units) acc room = pack max units (cur.reverse ++ acc) (room - cur.items) := by
  intro cur
  induction cur with
  | nil => intro acc room _; simp [Parts.items, sumBy]
  | cons x rest ih =>
    intro acc room h
    obtain ⟨id, n⟩ := x
    have hi : Parts.items ((id, n) :: rest) = n + Parts.items rest := by simp [Parts.items, sumBy]
    rw [hi] at h
    have hn : ¬ (decide (n > room) && !acc.isEmpty) = true := by
      have : ¬ n > room := by omega
      simp [this]
    simp only [List.cons_append, pack, hn, if_false]
    rw [ih ((id, n) :: acc) (room - n) (by omega), hi]
    have : room - n - Parts.items rest = room - (n + Parts.items rest) := by omega
    rw [this]
    simp [List.reverse_cons, List.append_assoc]

theorem count_append (a b : Parts) : Parts.count (a ++ b) = Parts.count a + Parts.count b := by
  simp [Parts.count]

theorem count_zero_no_pos (p : Parts) (h : Parts.count p = 0) : ∀ u ∈ p, ¬ 0 < u.2 := by
  intro u hu hp
  have : u ∈ p.filter (fun u => decide (u.2 > 0)) := List.mem_filter.mpr ⟨hu, by simpa using hp⟩
  have h0 : p.filter (fun u => decide (u.2 > 0)) = [] := List.eq_nil_of_length_eq_zero h
  rw [h0] at this
  simp at this

/-- the results of merging the pending batch `cur` (which fits a batch) with a request: the first result is `cur` plus a
prefix of the request, every other result holds only units of the request -/
theorem mergeSplit_shape (max : Nat) (cur units : Parts) (hfit : max = 0 ∨ cur.items ≤ max) :
    ∃ pre post chs, units = pre ++ post ∧ partsMergeSplit max cur units = (cur ++ pre) :: chs ∧ ∀ ch ∈ chs, ∀ u ∈ ch, u ∈ post := by
  simp only [partsMergeSplit]
  by_cases h0 : (max == 0) = true
  · simp only [h0, if_true]
    exact ⟨units, [], [], by simp, rfl, by simp⟩
  · simp only [h0, Bool.false_eq_true, if_false]
    have hm : cur.items ≤ max := by
      rcases hfit with h | h
      · simp [h] at h0
      · exact h
    rw [pack_fits max units cur [] max hm]
    obtain ⟨pre, post, chs, h1, h2, h3⟩ := pack_head max units (cur.reverse ++ []) (max - cur.items)
    refine ⟨pre, post, chs, h1, ?_, h3⟩
    rw [h2]; simp


/-! ### the request a `Done` belongs to never changes -/

theorem tgt_append (refs : List RefCount) (x : RefCount) (d : DoneObj) (h : ∀ i, d = .ref i → i < refs.length) :
    tgt (refs ++ [x]) d = tgt refs d := by
  cases d with
  | base id => rfl
  | ref i =>
    have := h i rfl
    simp [tgt, List.getElem?_append_left this]

theorem tgt_onDone (refs : List RefCount) (err : Err) (d0 d : DoneObj) : tgt (onDone refs err d0).1 d = tgt refs d := by
  cases d0 with
  | base id => rfl
  | ref i0 =>
    simp only [onDone]
    cases h : refs[i0]? with
    | none => rfl
    | some r =>
      cases d with
      | base id => rfl
      | ref i =>
        simp only [tgt]
        by_cases e : i0 = i
        · subst e
          have hi : i0 < refs.length := by
            rcases Nat.lt_or_ge i0 refs.length with h1 | h1
            · exact h1
            · exfalso; rw [List.getElem?_eq_none h1] at h; cases h
          rw [List.getElem?_set_self hi, h]
          rfl
        · rw [List.getElem?_set_ne e]

theorem tgt_onDoneAll (err : Err) (ds : List DoneObj) : ∀ (refs : List RefCount) (d : DoneObj),
    tgt (onDoneAll refs err ds).1 d = tgt refs d := by
  induction ds with
  | nil => intro refs d; rfl
  | cons d0 ds ih =>
    intro refs d
    rw [onDoneAll_cons]
    simp only
    rw [ih, tgt_onDone]

theorem Covered.mono {refs refs' : List RefCount} {b : Parts × List DoneObj} (h : Covered refs b)
    (ht : ∀ d ∈ b.2, tgt refs' d = tgt refs d) : Covered refs' b := by
  intro u hu hp
  obtain ⟨d, hd, hdt⟩ := h u hu hp
  exact ⟨d, hd, by rw [ht d hd, hdt]⟩

/-! ### the invariant -/

/-- every pending / in-flight batch covers its units, and the pending batch is smaller than `min_size` -/
def CInv (c : BCfg) (s : BState) : Prop :=
  (∀ b ∈ s.slots, Covered s.refs b) ∧ (∀ b, s.cur = some b → b.1.items < c.min)

theorem start_slots (fl : List (Parts × List DoneObj)) : ∀ (s : BState), (s.start fl).slots = s.slots ++ fl := by
  induction fl with
  | nil => intro s; simp [BState.start]
  | cons x xs ih =>
    intro s
    have := ih { s with flights := s.flights ++ [⟨s.nextF, x.1, x.2⟩], nextF := s.nextF + 1 }
    simp only [BState.start, List.foldl_cons] at this ⊢
    rw [this]
    simp [BState.slots, List.append_assoc]

theorem slots_dones_mem (s : BState) (b : Parts × List DoneObj) (hb : b ∈ s.slots) : ∀ d ∈ b.2, d ∈ s.dones := by
  intro d hd
  simp only [BState.slots, List.mem_append, List.mem_map] at hb
  simp only [BState.dones, BState.curDones, List.mem_append, List.mem_flatMap]
  rcases hb with h | ⟨f, hf, rfl⟩
  · left
    cases hc : s.cur with
    | none => simp [hc] at h
    | some b0 =>
      simp only [hc, List.mem_singleton] at h
      subst h
      obtain ⟨p, ds⟩ := b
      simpa using hd
  · exact Or.inr ⟨f, hf, hd⟩

theorem mkDone_tgt (s : BState) (id k : Nat) :
    tgt (s.mkDone id k).1.refs (s.mkDone id k).2 = some id ∧
    ∀ d, (∀ i, d = .ref i → i < s.refs.length) → tgt (s.mkDone id k).1.refs d = tgt s.refs d := by
  simp only [BState.mkDone]
  split
  · refine ⟨by simp [tgt], fun d hd => tgt_append _ _ d hd⟩
  · exact ⟨rfl, fun _ _ => rfl⟩

theorem consumeMerge_slots (m1 : BState) (d : DoneObj) (dones : List DoneObj) (fhn ff small : Bool) (first last : Parts)
    (rest : List Parts) :
    (∀ b, (consumeMerge m1 d dones fhn ff small first last rest).1.cur = some b →
      (b = (first, if fhn = true then dones ++ [d] else dones) ∧ ff = false ∧ small = false) ∨ (b = (last, [d]) ∧ small = true)) ∧
    (∀ b ∈ (consumeMerge m1 d dones fhn ff small first last rest).2,
      b = (first, if fhn = true then dones ++ [d] else dones) ∨ ∃ ch ∈ rest, b = (ch, [d])) := by
  have hdl : ∀ b, b ∈ (rest.map (fun r => (r, [d]))).dropLast → ∃ ch ∈ rest, b = (ch, [d]) := by
    intro b hb
    have := List.dropLast_subset _ hb
    simp only [List.mem_map] at this
    obtain ⟨ch, hch, rfl⟩ := this
    exact ⟨ch, hch, rfl⟩
  have hmp : ∀ b, b ∈ rest.map (fun r => (r, [d])) → ∃ ch ∈ rest, b = (ch, [d]) := by
    intro b hb
    simp only [List.mem_map] at hb
    obtain ⟨ch, hch, rfl⟩ := hb
    exact ⟨ch, hch, rfl⟩
  cases ff with
  | false =>
    cases small with
    | false =>
      refine ⟨?_, ?_⟩
      · intro b hb
        simp only [consumeMerge, Bool.false_eq_true, if_false, Option.some.injEq] at hb
        exact Or.inl ⟨hb.symm, rfl, rfl⟩
      · intro b hb
        simp only [consumeMerge, Bool.false_eq_true, if_false, List.nil_append] at hb
        exact Or.inr (hmp b hb)
    | true =>
      refine ⟨?_, ?_⟩
      · intro b hb
        simp only [consumeMerge, Bool.false_eq_true, if_false, if_true, Option.some.injEq] at hb
        exact Or.inr ⟨hb.symm, rfl⟩
      · intro b hb
        simp only [consumeMerge, Bool.false_eq_true, if_false, if_true, List.nil_append, List.map_dropLast] at hb
        exact Or.inr (hdl b hb)
  | true =>
    cases small with
    | false =>
      refine ⟨?_, ?_⟩
      · intro b hb
        simp [consumeMerge] at hb
      · intro b hb
        simp only [consumeMerge, Bool.false_eq_true, if_false, if_true, List.cons_append, List.nil_append, List.mem_cons] at hb
        rcases hb with h | h
        · exact Or.inl h
        · exact Or.inr (hmp b h)
    | true =>
      refine ⟨?_, ?_⟩
      · intro b hb
        simp only [consumeMerge, if_true, Option.some.injEq] at hb
        exact Or.inr ⟨hb.symm, rfl⟩
      · intro b hb
        simp only [consumeMerge, if_true, List.cons_append, List.nil_append, List.mem_cons, List.map_dropLast] at hb
        rcases hb with h | h
        · exact Or.inl h
        · exact Or.inr (hdl b h)


theorem mergeSplit_mem (max : Nat) (a b : Parts) : ∀ ch ∈ partsMergeSplit max a b, ∀ u ∈ ch, u ∈ a ++ b := by
  intro ch hch u hu
  simp only [partsMergeSplit] at hch
  split at hch
  · simp only [List.mem_singleton] at hch; subst hch; exact hu
  · rcases pack_mem max (a ++ b) [] max ch hch u hu with h | h
    · exact h
    · simp at h

theorem getLastD_mem (l : List Parts) : l.getLast?.getD [] ∈ l ∨ l.getLast?.getD [] = [] := by
  cases h : l.getLast? with
  | none => right; rfl
  | some x => left; exact List.mem_of_getLast? h

/-- a chunk made only of units of request `id`, with a `Done` of `id` -/
theorem covered_new (refs : List RefCount) (id : Nat) (ch : Parts) (ds : List DoneObj) (d : DoneObj) (hd : d ∈ ds)
    (ht : tgt refs d = some id) (hu : ∀ u ∈ ch, u.1 = id) : Covered refs (ch, ds) := by
  intro u hu' _
  exact ⟨d, hd, by rw [ht, hu u hu']⟩

/-- `Consume` with a pending batch, once the shape of the `MergeSplit` results is known -/
theorem consume_some_eq (c : BCfg) (s : BState) (id : Nat) (units cur pre : Parts) (dones : List DoneObj) (chs : List Parts)
    (hcur : s.cur = some (cur, dones)) (hrl : partsMergeSplit c.max cur units = (cur ++ pre) :: chs) :
    s.consume c id units =
      consumeMerge
        (s.mkDone id (if (chs.length + 1 == 1 || decide ((cur ++ pre).count > cur.count)) = true then chs.length + 1 else chs.length + 1 - 1)).1
        (s.mkDone id (if (chs.length + 1 == 1 || decide ((cur ++ pre).count > cur.count)) = true then chs.length + 1 else chs.length + 1 - 1)).2
        dones (chs.length + 1 == 1 || decide ((cur ++ pre).count > cur.count))
        (decide (chs.length + 1 > 1) || decide ((cur ++ pre).items ≥ c.min))
        (decide (chs.length > 0) && decide ((chs.getLast?.getD []).items < c.min)) (cur ++ pre) (chs.getLast?.getD []) chs := by
  simp only [BState.consume, hcur]
  rw [hrl]
  rfl

theorem consume_cover (c : BCfg) (hv : c.max = 0 ∨ c.min ≤ c.max) (s : BState) (id : Nat) (units : Parts)
    (hu : ∀ u ∈ units, u.1 = id) (hwf : ∀ i, DoneObj.ref i ∈ s.dones → i < s.refs.length) (hc : CInv c s) :
    CInv c ((s.consume c id units).1.start (s.consume c id units).2) := by
  have hstable : ∀ (k : Nat) (b : Parts × List DoneObj), b ∈ s.slots → Covered s.refs b → Covered (s.mkDone id k).1.refs b := by
    intro k b hb hcov
    refine hcov.mono ?_
    intro d hd
    apply (mkDone_tgt s id k).2
    intro i hi
    subst hi
    exact hwf i (slots_dones_mem s b hb _ hd)
  cases hcur : s.cur with
  | none =>
    have hst := start_spec (s.consume c id units).2 (s.consume c id units).1
    have hlast := getLastD_mem (partsMergeSplit c.max units [])
    have hchunk : ∀ ch, ch ∈ partsMergeSplit c.max units [] ∨ ch = [] → ∀ u ∈ ch, u.1 = id := by
      intro ch hch u hu'
      rcases hch with h | h
      · have := mergeSplit_mem c.max units [] ch h u hu'
        simp only [List.append_nil] at this
        exact hu u this
      · subst h; simp at hu'
    have hmk := mkDone_tgt s id (partsMergeSplit c.max units []).length
    have hmf := mkDone_flights s id (partsMergeSplit c.max units []).length
    have hold : ∀ f ∈ s.flights, Covered (s.mkDone id (partsMergeSplit c.max units []).length).1.refs (f.parts, f.dones) := by
      intro f hf
      have hm : (f.parts, f.dones) ∈ s.slots := by
        simp only [BState.slots, hcur, List.nil_append, List.mem_map]; exact ⟨f, hf, rfl⟩
      exact hstable _ _ hm (hc.1 _ hm)
    refine ⟨?_, ?_⟩
    · intro b hb
      rw [start_slots] at hb
      rw [hst.1]
      simp only [BState.consume, hcur] at hb ⊢
      split at hb
      · rename_i hsm
        simp only [hsm, if_true]
        simp only [BState.slots, List.mem_append, List.mem_map, List.mem_singleton] at hb
        rcases hb with (h | ⟨f, hf, rfl⟩) | ⟨ch, hch, rfl⟩
        · subst h
          exact covered_new _ id _ _ _ (by simp) hmk.1 (hchunk _ (hlast.imp (fun x => x) (fun x => x)))
        · rw [hmf.1] at hf; exact hold f hf
        · exact covered_new _ id _ _ _ (by simp) hmk.1 (hchunk _ (Or.inl (List.dropLast_subset _ hch)))
      · rename_i hsm
        simp only [hsm, if_false]
        simp only [BState.slots, hmf.2.2, hcur, List.nil_append, List.mem_append, List.mem_map] at hb
        rcases hb with ⟨f, hf, rfl⟩ | ⟨ch, hch, rfl⟩
        · rw [hmf.1] at hf; exact hold f hf
        · exact covered_new _ id _ _ _ (by simp) hmk.1 (hchunk _ (Or.inl hch))
    · intro b hb
      rw [hst.2.1] at hb
      simp only [BState.consume, hcur] at hb
      split at hb
      · rename_i hsm
        simp only [Option.some.injEq] at hb
        subst hb
        exact hsm
      · rw [hmf.2.2, hcur] at hb
        cases hb
  | some cd =>
    obtain ⟨cur, dones⟩ := cd
    have hcurfit : c.max = 0 ∨ cur.items ≤ c.max := by
      have := hc.2 (cur, dones) hcur
      rcases hv with h | h
      · exact Or.inl h
      · right; simp only at this; omega
    obtain ⟨pre, post, chs, hun, hrl, hchs⟩ := mergeSplit_shape c.max cur units hcurfit
    rw [consume_some_eq c s id units cur pre dones chs hcur hrl]
    generalize hfhn : (chs.length + 1 == 1 || decide ((cur ++ pre).count > cur.count)) = fhn
    generalize hk : (if fhn = true then chs.length + 1 else chs.length + 1 - 1) = k
    generalize hff : (decide (chs.length + 1 > 1) || decide ((cur ++ pre).items ≥ c.min)) = ff
    generalize hsm : (decide (chs.length > 0) && decide ((chs.getLast?.getD []).items < c.min)) = small
    have hmk := mkDone_tgt s id k
    have hcm := consumeMerge_slots (s.mkDone id k).1 (s.mkDone id k).2 dones fhn ff small (cur ++ pre) (chs.getLast?.getD []) chs
    have hcms := consumeMerge_spec (s.mkDone id k).1 (s.mkDone id k).2 dones fhn ff small (cur ++ pre) (chs.getLast?.getD []) chs
      (by intro h; rw [h] at hsm; simp only [Bool.and_eq_true, decide_eq_true_eq] at hsm; exact hsm.1)
      (by intro h; rw [h] at hff
          simp only [Bool.or_eq_false_iff, decide_eq_false_iff_not] at hff
          apply List.eq_nil_of_length_eq_zero; omega)
    have hst := start_spec (consumeMerge (s.mkDone id k).1 (s.mkDone id k).2 dones fhn ff small (cur ++ pre) (chs.getLast?.getD []) chs).2
      (consumeMerge (s.mkDone id k).1 (s.mkDone id k).2 dones fhn ff small (cur ++ pre) (chs.getLast?.getD []) chs).1
    have hfirst : Covered (s.mkDone id k).1.refs (cur ++ pre, if fhn = true then dones ++ [(s.mkDone id k).2] else dones) := by
      intro u hu' hp
      rcases List.mem_append.mp hu' with h | h
      · have hold := hstable k (cur, dones) (by simp [BState.slots, hcur]) (hc.1 _ (by simp [BState.slots, hcur]))
        obtain ⟨d, hd, hdt⟩ := hold u h hp
        refine ⟨d, ?_, hdt⟩
        cases fhn <;> simp [hd]
      · have hid : u.1 = id := hu u (by rw [hun]; exact List.mem_append.mpr (Or.inl h))
        cases fhn with
        | true =>
          refine ⟨(s.mkDone id k).2, ?_, by rw [hmk.1, hid]⟩
          simp
        | false =>
          exfalso
          simp only [Bool.or_eq_false_iff, decide_eq_false_iff_not, count_append] at hfhn
          exact count_zero_no_pos pre (by omega) u h hp
    have hother : ∀ ch, ch ∈ chs ∨ ch = [] → Covered (s.mkDone id k).1.refs (ch, [(s.mkDone id k).2]) := by
      intro ch hch
      apply covered_new _ id _ _ _ (by simp) hmk.1
      intro u hu'
      rcases hch with h | h
      · exact hu u (by rw [hun]; exact List.mem_append.mpr (Or.inr (hchs ch h u hu')))
      · subst h; simp at hu'
    refine ⟨?_, ?_⟩
    · intro b hb
      rw [start_slots] at hb
      rw [hst.1, hcms.2.2.1]
      simp only [BState.slots, List.mem_append, List.mem_map] at hb
      rcases hb with (h | ⟨f, hf, rfl⟩) | h
      · cases hcc : (consumeMerge (s.mkDone id k).1 (s.mkDone id k).2 dones fhn ff small (cur ++ pre) (chs.getLast?.getD []) chs).1.cur with
        | none => simp [hcc] at h
        | some b0 =>
          simp only [hcc, List.mem_singleton] at h
          subst h
          rcases hcm.1 b hcc with ⟨h1, _, _⟩ | ⟨h1, _⟩
          · rw [h1]; exact hfirst
          · rw [h1]; exact hother _ ((getLastD_mem chs).imp (fun x => x) (fun x => x))
      · rw [hcms.1, (mkDone_flights s id k).1] at hf
        have hm : (f.parts, f.dones) ∈ s.slots := by
          simp only [BState.slots, List.mem_append, List.mem_map]; exact Or.inr ⟨f, hf, rfl⟩
        exact hstable k _ hm (hc.1 _ hm)
      · rcases hcm.2 b h with h1 | ⟨ch, hch, h1⟩
        · rw [h1]; exact hfirst
        · rw [h1]; exact hother ch (Or.inl hch)
    · intro b hb
      rw [hst.2.1] at hb
      rcases hcm.1 b hb with ⟨h1, h2, _⟩ | ⟨h1, h2⟩
      · rw [h1]
        rw [h2] at hff
        simp only [Bool.or_eq_false_iff, decide_eq_false_iff_not] at hff
        simp only
        omega
      · rw [h1]
        rw [h2] at hsm
        simp only [Bool.and_eq_true, decide_eq_true_eq] at hsm
        exact hsm.2


theorem flush_cover (c : BCfg) (s : BState) (hc : CInv c s) : CInv c (s.flushCur.1.start s.flushCur.2) := by
  cases hcur : s.cur with
  | none =>
    have : s.flushCur = (s, []) := by simp [BState.flushCur, hcur]
    rw [this]; simpa [BState.start] using hc
  | some pd =>
    obtain ⟨p, ds⟩ := pd
    have e : s.flushCur = (({ s with cur := none } : BState), [(p, ds)]) := by simp [BState.flushCur, hcur]
    rw [e]
    have hst := start_spec [(p, ds)] { s with cur := none }
    refine ⟨?_, ?_⟩
    · intro b hb
      rw [start_slots] at hb
      rw [hst.1]
      apply hc.1
      simp only [BState.slots, List.nil_append, List.mem_append, List.mem_map, List.mem_singleton] at hb
      simp only [BState.slots, hcur, List.mem_append, List.mem_singleton, List.mem_map]
      rcases hb with ⟨f, hf, rfl⟩ | h
      · exact Or.inr ⟨f, hf, rfl⟩
      · exact Or.inl h
    · intro b hb
      rw [hst.2.1] at hb
      cases hb

theorem finish_cover (c : BCfg) (s : BState) (fid : Nat) (err : Err) (hc : CInv c s) : CInv c (s.finish fid err).1 := by
  cases hfind : s.flights.find? (fun f => f.fid = fid) with
  | none =>
    have : s.finish fid err = (s, []) := by simp [BState.finish, hfind]
    rw [this]; exact hc
  | some f =>
    have e : s.finish fid err = (({ s with refs := (onDoneAll s.refs err f.dones).1, flights := s.flights.filter (fun g => g.fid ≠ fid) } : BState),
        (onDoneAll s.refs err f.dones).2) := by
      simp [BState.finish, hfind]
    rw [e]
    refine ⟨?_, ?_⟩
    · intro b hb
      have hb' : b ∈ s.slots := by
        simp only [BState.slots, List.mem_append, List.mem_map] at hb ⊢
        rcases hb with h | ⟨g, hg, rfl⟩
        · exact Or.inl h
        · exact Or.inr ⟨g, (List.mem_filter.mp hg).1, rfl⟩
      exact (hc.1 b hb').mono (fun d _ => tgt_onDoneAll err f.dones s.refs d)
    · intro b hb; exact hc.2 b hb

/-- every `consume` label carries units tagged with its own request id -/
def Tagged : List BLabel → Prop
  | [] => True
  | .consume id units :: ls => (∀ u ∈ units, u.1 = id) ∧ Tagged ls
  | _ :: ls => Tagged ls

theorem brun_cover (c : BCfg) (hv : c.max = 0 ∨ c.min ≤ c.max) :
    ∀ (ls : List BLabel) (s : BState) (fired : List (Nat × Err)) (consumed : List Nat), SInv s fired consumed → CInv c s →
      Tagged ls → (consumedIds ls).Nodup → (∀ id ∈ consumedIds ls, id ∉ consumed) → CInv c (brun c s ls).1 := by
  intro ls
  induction ls with
  | nil => intro s fired consumed _ hc _ _ _; simpa [brun] using hc
  | cons l ls ih =>
    intro s fired consumed h hc ht hnd hnew
    simp only [brun]
    cases l with
    | consume id units =>
      simp only [Tagged] at ht
      simp only [consumedIds, List.nodup_cons] at hnd
      have hid : id ∉ consumed := hnew id (by simp [consumedIds])
      have h1 := consume_inv c s fired consumed id units h hid
      have c1 := consume_cover c hv s id units ht.1 (fun i hi => h.1.wf i hi) hc
      exact ih _ fired (id :: consumed) h1 c1 ht.2 hnd.2 (by
        intro x hx
        simp only [List.mem_cons, not_or]
        exact ⟨fun e => hnd.1 (e ▸ hx), hnew x (by simp [consumedIds, hx])⟩)
    | flush =>
      exact ih _ fired consumed (flush_inv s fired consumed h) (flush_cover c s hc) (by simpa [Tagged] using ht)
        (by simpa [consumedIds] using hnd) (by intro x hx; exact hnew x (by simpa [consumedIds] using hx))
    | finish fid err =>
      exact ih _ _ consumed (finish_inv s fired consumed fid err h) (finish_cover c s fid err hc) (by simpa [Tagged] using ht)
        (by simpa [consumedIds] using hnd) (by intro x hx; exact hnew x (by simpa [consumedIds] using hx))


/-! ### the converse: a `Done` is handed only to batches that contain part of its request -/

/-- every `Done` a batch holds belongs to a request that has a unit in the batch -/
def Conv (refs : List RefCount) (b : Parts × List DoneObj) : Prop :=
  ∀ d ∈ b.2, ∀ id, tgt refs d = some id → ∃ u ∈ b.1, u.1 = id

theorem Conv.mono {refs refs' : List RefCount} {b : Parts × List DoneObj} (h : Conv refs b)
    (ht : ∀ d ∈ b.2, tgt refs' d = tgt refs d) : Conv refs' b := by
  intro d hd id hid
  exact h d hd id (by rw [← ht d hd]; exact hid)

theorem pack_nonempty (max : Nat) : ∀ (all acc : Parts) (room : Nat), (acc ≠ [] ∨ all ≠ []) →
    ∀ ch ∈ pack max all acc room, ch ≠ [] := by
  intro all
  induction all with
  | nil =>
    intro acc room h ch hch
    simp only [pack, List.mem_singleton] at hch
    subst hch
    rcases h with h | h
    · simpa using h
    · exact absurd rfl h
  | cons x rest ih =>
    intro acc room _ ch hch
    obtain ⟨id, n⟩ := x
    simp only [pack] at hch
    split at hch
    · rename_i hc
      rcases List.mem_cons.mp hch with h | h
      · subst h
        simp only [Bool.and_eq_true, Bool.not_eq_true', List.isEmpty_eq_false_iff] at hc
        simpa using hc.2
      · exact ih _ _ (Or.inl (by simp)) ch h
    · exact ih _ _ (Or.inl (by simp)) ch hch

theorem pack_flatten (max : Nat) : ∀ (all acc : Parts) (room : Nat), (pack max all acc room).flatten = acc.reverse ++ all := by
  intro all
  induction all with
  | nil => intro acc room; simp [pack]
  | cons x rest ih =>
    intro acc room
    obtain ⟨id, n⟩ := x
    simp only [pack]
    split
    · simp [ih]
    · rw [ih]; simp

theorem mergeSplit_nonempty (max : Nat) (a b : Parts) (h : a ++ b ≠ []) : ∀ ch ∈ partsMergeSplit max a b, ch ≠ [] := by
  intro ch hch
  simp only [partsMergeSplit] at hch
  split at hch
  · simp only [List.mem_singleton] at hch; subst hch; exact h
  · exact pack_nonempty max (a ++ b) [] max (Or.inr h) ch hch

theorem mergeSplit_flatten (max : Nat) (a b : Parts) : (partsMergeSplit max a b).flatten = a ++ b := by
  simp only [partsMergeSplit]
  split
  · simp
  · rw [pack_flatten]; simp

theorem getLastD_mem_of_ne (l : List Parts) (h : l ≠ []) : l.getLast?.getD [] ∈ l := by
  cases hl : l.getLast? with
  | none => exact absurd (List.getLast?_eq_none_iff.mp hl) h
  | some x => exact List.mem_of_getLast? hl

theorem conv_new (refs : List RefCount) (id : Nat) (ch : Parts) (d : DoneObj) (ht : tgt refs d = some id)
    (hne : ch ≠ []) (hu : ∀ u ∈ ch, u.1 = id) : Conv refs (ch, [d]) := by
  intro d' hd' id' hid'
  simp only [List.mem_singleton] at hd'
  subst hd'
  rw [ht] at hid'
  injection hid' with hid'
  subst hid'
  cases ch with
  | nil => exact absurd rfl hne
  | cons u us => exact ⟨u, List.mem_cons_self .., hu u (List.mem_cons_self ..)⟩

def VInv (s : BState) : Prop := ∀ b ∈ s.slots, Conv s.refs b

theorem consume_conv (c : BCfg) (hv : c.max = 0 ∨ c.min ≤ c.max) (s : BState) (id : Nat) (units : Parts)
    (hne : units ≠ []) (hu : ∀ u ∈ units, u.1 = id) (hwf : ∀ i, DoneObj.ref i ∈ s.dones → i < s.refs.length)
    (hc : CInv c s) (hvi : VInv s) : VInv ((s.consume c id units).1.start (s.consume c id units).2) := by
  have hstable : ∀ (k : Nat) (b : Parts × List DoneObj), b ∈ s.slots → Conv s.refs b → Conv (s.mkDone id k).1.refs b := by
    intro k b hb hcov
    refine hcov.mono ?_
    intro d hd
    apply (mkDone_tgt s id k).2
    intro i hi
    subst hi
    exact hwf i (slots_dones_mem s b hb _ hd)
  cases hcur : s.cur with
  | none =>
    have hst := start_spec (s.consume c id units).2 (s.consume c id units).1
    have hrlne : partsMergeSplit c.max units [] ≠ [] := List.length_pos_iff.mp (mergeSplit_len_pos c.max units [])
    have hchunk : ∀ ch ∈ partsMergeSplit c.max units [], ch ≠ [] ∧ ∀ u ∈ ch, u.1 = id := by
      intro ch hch
      refine ⟨mergeSplit_nonempty c.max units [] (by simpa using hne) ch hch, ?_⟩
      intro u hu'
      have := mergeSplit_mem c.max units [] ch hch u hu'
      simp only [List.append_nil] at this
      exact hu u this
    have hmk := mkDone_tgt s id (partsMergeSplit c.max units []).length
    have hmf := mkDone_flights s id (partsMergeSplit c.max units []).length
    have hold : ∀ f ∈ s.flights, Conv (s.mkDone id (partsMergeSplit c.max units []).length).1.refs (f.parts, f.dones) := by
      intro f hf
      have hm : (f.parts, f.dones) ∈ s.slots := by
        simp only [BState.slots, hcur, List.nil_append, List.mem_map]; exact ⟨f, hf, rfl⟩
      exact hstable _ _ hm (hvi _ hm)
    intro b hb
    rw [start_slots] at hb
    rw [hst.1]
    simp only [BState.consume, hcur] at hb ⊢
    split at hb
    · rename_i hsm
      simp only [hsm, if_true]
      simp only [BState.slots, List.mem_append, List.mem_map, List.mem_singleton] at hb
      rcases hb with (h | ⟨f, hf, rfl⟩) | ⟨ch, hch, rfl⟩
      · subst h
        have := hchunk _ (getLastD_mem_of_ne _ hrlne)
        exact conv_new _ id _ _ hmk.1 this.1 this.2
      · rw [hmf.1] at hf; exact hold f hf
      · have := hchunk _ (List.dropLast_subset _ hch)
        exact conv_new _ id _ _ hmk.1 this.1 this.2
    · rename_i hsm
      simp only [hsm, if_false]
      simp only [BState.slots, hmf.2.2, hcur, List.nil_append, List.mem_append, List.mem_map] at hb
      rcases hb with ⟨f, hf, rfl⟩ | ⟨ch, hch, rfl⟩
      · rw [hmf.1] at hf; exact hold f hf
      · have := hchunk _ hch
        exact conv_new _ id _ _ hmk.1 this.1 this.2
  | some cd =>
    obtain ⟨cur, dones⟩ := cd
    have hcurfit : c.max = 0 ∨ cur.items ≤ c.max := by
      have := hc.2 (cur, dones) hcur
      rcases hv with h | h
      · exact Or.inl h
      · right; simp only at this; omega
    obtain ⟨pre, post, chs, hun, hrl, hchs⟩ := mergeSplit_shape c.max cur units hcurfit
    have hchsne : ∀ ch ∈ chs, ch ≠ [] := by
      intro ch hch
      apply mergeSplit_nonempty c.max cur units (by simp [hne])
      rw [hrl]; exact List.mem_cons_of_mem _ hch
    have hflat := mergeSplit_flatten c.max cur units
    rw [hrl] at hflat
    rw [consume_some_eq c s id units cur pre dones chs hcur hrl]
    generalize hfhn : (chs.length + 1 == 1 || decide ((cur ++ pre).count > cur.count)) = fhn
    generalize hk : (if fhn = true then chs.length + 1 else chs.length + 1 - 1) = k
    generalize hff : (decide (chs.length + 1 > 1) || decide ((cur ++ pre).items ≥ c.min)) = ff
    generalize hsm : (decide (chs.length > 0) && decide ((chs.getLast?.getD []).items < c.min)) = small
    have hmk := mkDone_tgt s id k
    have hcm := consumeMerge_slots (s.mkDone id k).1 (s.mkDone id k).2 dones fhn ff small (cur ++ pre) (chs.getLast?.getD []) chs
    have hcms := consumeMerge_spec (s.mkDone id k).1 (s.mkDone id k).2 dones fhn ff small (cur ++ pre) (chs.getLast?.getD []) chs
      (by intro h; rw [h] at hsm; simp only [Bool.and_eq_true, decide_eq_true_eq] at hsm; exact hsm.1)
      (by intro h; rw [h] at hff
          simp only [Bool.or_eq_false_iff, decide_eq_false_iff_not] at hff
          apply List.eq_nil_of_length_eq_zero; omega)
    have hst := start_spec (consumeMerge (s.mkDone id k).1 (s.mkDone id k).2 dones fhn ff small (cur ++ pre) (chs.getLast?.getD []) chs).2
      (consumeMerge (s.mkDone id k).1 (s.mkDone id k).2 dones fhn ff small (cur ++ pre) (chs.getLast?.getD []) chs).1
    have hfirst : Conv (s.mkDone id k).1.refs (cur ++ pre, if fhn = true then dones ++ [(s.mkDone id k).2] else dones) := by
      have hold := hstable k (cur, dones) (by simp [BState.slots, hcur]) (hvi _ (by simp [BState.slots, hcur]))
      intro d hd id' hid'
      have holdcase : d ∈ dones → ∃ u ∈ cur ++ pre, u.1 = id' := by
        intro hdd
        obtain ⟨u, hu1, hu2⟩ := hold d hdd id' hid'
        exact ⟨u, List.mem_append.mpr (Or.inl hu1), hu2⟩
      cases fhn with
      | false => exact holdcase (by simpa using hd)
      | true =>
        simp only [if_true, List.mem_append, List.mem_singleton] at hd
        rcases hd with h | h
        · exact holdcase h
        · subst h
          rw [hmk.1] at hid'
          injection hid' with hid'
          subst hid'
          -- the first result holds part of the new request: it is the only result, or its item count grew
          simp only [Bool.or_eq_true, beq_iff_eq, decide_eq_true_eq, count_append] at hfhn
          have hpre : pre ≠ [] := by
            rcases hfhn with h1 | h1
            · have hc0 : chs = [] := List.eq_nil_of_length_eq_zero (by omega)
              rw [hc0] at hflat
              simp only [List.flatten_cons, List.flatten_nil, List.append_nil] at hflat
              have : pre = units := List.append_cancel_left hflat
              rw [this]; exact hne
            · intro h0; rw [h0] at h1; simp [Parts.count] at h1
          cases hp : pre with
          | nil => exact absurd hp hpre
          | cons u us =>
            refine ⟨u, List.mem_append.mpr (Or.inr (List.mem_cons_self ..)), ?_⟩
            exact hu u (by rw [hun, hp]; exact List.mem_append.mpr (Or.inl (List.mem_cons_self ..)))
    have hother : ∀ ch ∈ chs, Conv (s.mkDone id k).1.refs (ch, [(s.mkDone id k).2]) := by
      intro ch hch
      apply conv_new _ id _ _ hmk.1 (hchsne ch hch)
      intro u hu'
      exact hu u (by rw [hun]; exact List.mem_append.mpr (Or.inr (hchs ch hch u hu')))
    intro b hb
    rw [start_slots] at hb
    rw [hst.1, hcms.2.2.1]
    simp only [BState.slots, List.mem_append, List.mem_map] at hb
    rcases hb with (h | ⟨f, hf, rfl⟩) | h
    · cases hcc : (consumeMerge (s.mkDone id k).1 (s.mkDone id k).2 dones fhn ff small (cur ++ pre) (chs.getLast?.getD []) chs).1.cur with
      | none => simp [hcc] at h
      | some b0 =>
        simp only [hcc, List.mem_singleton] at h
        subst h
        rcases hcm.1 b hcc with ⟨h1, _, _⟩ | ⟨h1, h2⟩
        · rw [h1]; exact hfirst
        · rw [h1]
          rw [h2] at hsm
          simp only [Bool.and_eq_true, decide_eq_true_eq] at hsm
          exact hother _ (getLastD_mem_of_ne chs (by intro h0; rw [h0] at hsm; simp at hsm))
    · rw [hcms.1, (mkDone_flights s id k).1] at hf
      have hm : (f.parts, f.dones) ∈ s.slots := by
        simp only [BState.slots, List.mem_append, List.mem_map]; exact Or.inr ⟨f, hf, rfl⟩
      exact hstable k _ hm (hvi _ hm)
    · rcases hcm.2 b h with h1 | ⟨ch, hch, h1⟩
      · rw [h1]; exact hfirst
      · rw [h1]; exact hother ch hch

theorem flush_conv (s : BState) (hvi : VInv s) : VInv (s.flushCur.1.start s.flushCur.2) := by
  cases hcur : s.cur with
  | none =>
    have : s.flushCur = (s, []) := by simp [BState.flushCur, hcur]
    rw [this]; simpa [BState.start] using hvi
  | some pd =>
    obtain ⟨p, ds⟩ := pd
    have e : s.flushCur = (({ s with cur := none } : BState), [(p, ds)]) := by simp [BState.flushCur, hcur]
    rw [e]
    have hst := start_spec [(p, ds)] { s with cur := none }
    intro b hb
    rw [start_slots] at hb
    rw [hst.1]
    apply hvi
    simp only [BState.slots, List.nil_append, List.mem_append, List.mem_map, List.mem_singleton] at hb
    simp only [BState.slots, hcur, List.mem_append, List.mem_singleton, List.mem_map]
    rcases hb with ⟨f, hf, rfl⟩ | h
    · exact Or.inr ⟨f, hf, rfl⟩
    · exact Or.inl h

theorem finish_conv (s : BState) (fid : Nat) (err : Err) (hvi : VInv s) : VInv (s.finish fid err).1 := by
  cases hfind : s.flights.find? (fun f => f.fid = fid) with
  | none =>
    have : s.finish fid err = (s, []) := by simp [BState.finish, hfind]
    rw [this]; exact hvi
  | some f =>
    have e : s.finish fid err = (({ s with refs := (onDoneAll s.refs err f.dones).1, flights := s.flights.filter (fun g => g.fid ≠ fid) } : BState),
        (onDoneAll s.refs err f.dones).2) := by
      simp [BState.finish, hfind]
    rw [e]
    intro b hb
    have hb' : b ∈ s.slots := by
      simp only [BState.slots, List.mem_append, List.mem_map] at hb ⊢
      rcases hb with h | ⟨g, hg, rfl⟩
      · exact Or.inl h
      · exact Or.inr ⟨g, (List.mem_filter.mp hg).1, rfl⟩
    exact (hvi b hb').mono (fun d _ => tgt_onDoneAll err f.dones s.refs d)

/-- every `consume` label carries at least one unit (a request without items = one unit of size 0), all tagged with its id -/
def TaggedNE : List BLabel → Prop
  | [] => True
  | .consume id units :: ls => (units ≠ [] ∧ ∀ u ∈ units, u.1 = id) ∧ TaggedNE ls
  | _ :: ls => TaggedNE ls

theorem TaggedNE.tagged (ls : List BLabel) (h : TaggedNE ls) : Tagged ls := by
  induction ls with
  | nil => trivial
  | cons l ls ih =>
    cases l with
    | consume id units => exact ⟨h.1.2, ih h.2⟩
    | flush => exact ih h
    | finish fid err => exact ih h

theorem brun_conv (c : BCfg) (hv : c.max = 0 ∨ c.min ≤ c.max) :
    ∀ (ls : List BLabel) (s : BState) (fired : List (Nat × Err)) (consumed : List Nat), SInv s fired consumed → CInv c s → VInv s →
      TaggedNE ls → (consumedIds ls).Nodup → (∀ id ∈ consumedIds ls, id ∉ consumed) → VInv (brun c s ls).1 := by
  intro ls
  induction ls with
  | nil => intro s fired consumed _ _ hvi _ _ _; simpa [brun] using hvi
  | cons l ls ih =>
    intro s fired consumed h hc hvi ht hnd hnew
    simp only [brun]
    cases l with
    | consume id units =>
      simp only [TaggedNE] at ht
      simp only [consumedIds, List.nodup_cons] at hnd
      have hid : id ∉ consumed := hnew id (by simp [consumedIds])
      have h1 := consume_inv c s fired consumed id units h hid
      have c1 := consume_cover c hv s id units ht.1.2 (fun i hi => h.1.wf i hi) hc
      have v1 := consume_conv c hv s id units ht.1.1 ht.1.2 (fun i hi => h.1.wf i hi) hc hvi
      exact ih _ fired (id :: consumed) h1 c1 v1 ht.2 hnd.2 (by
        intro x hx
        simp only [List.mem_cons, not_or]
        exact ⟨fun e => hnd.1 (e ▸ hx), hnew x (by simp [consumedIds, hx])⟩)
    | flush =>
      exact ih _ fired consumed (flush_inv s fired consumed h) (flush_cover c s hc) (flush_conv s hvi) (by simpa [TaggedNE] using ht)
        (by simpa [consumedIds] using hnd) (by intro x hx; exact hnew x (by simpa [consumedIds] using hx))
    | finish fid err =>
      exact ih _ _ consumed (finish_inv s fired consumed fid err h) (finish_cover c s fid err hc) (finish_conv s fid err hvi)
        (by simpa [TaggedNE] using ht) (by simpa [consumedIds] using hnd) (by intro x hx; exact hnew x (by simpa [consumedIds] using hx))

end OtelVerif.C04
