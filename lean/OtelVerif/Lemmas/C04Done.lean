import OtelVerif.Model.C04
/-! lemmas for C04: the completion-callback accounting of the batcher, over all histories -/
namespace OtelVerif.C04
open OtelVerif.Payload

/-- how often the callback of request `id` has fired -/
def firedCount (fired : List (Nat × Err)) (id : Nat) : Nat := fired.countP (fun e => e.1 == id)
/-- ref-counted `Done`s of request `id` that still wait for a flush -/
def liveP (id : Nat) (r : RefCount) : Bool := r.target == id && decide (r.count > 0)
def liveRefs (refs : List RefCount) (id : Nat) : Nat := refs.countP (liveP id)

theorem firedCount_nil (id : Nat) : firedCount [] id = 0 := rfl
theorem firedCount_single (t : Nat) (e : Err) (id : Nat) : firedCount [(t, e)] id = if t = id then 1 else 0 := by
  by_cases h : t = id <;> simp [firedCount, h]

theorem countP_set {α : Type} (p : α → Bool) (l : List α) (i : Nat) (x : α) (h : i < l.length) :
    (l.set i x).countP p + (if p l[i] then 1 else 0) = l.countP p + (if p x then 1 else 0) := by
  induction l generalizing i with
  | nil => simp at h
  | cons a l ih =>
    cases i with
    | zero => simp only [List.set_cons_zero, List.countP_cons, List.getElem_cons_zero]; omega
    | succ j =>
      have := ih j (by simpa using h)
      simp only [List.set_cons_succ, List.countP_cons, List.getElem_cons_succ]
      omega

/-- the accounting invariant: `M` = every `Done` still held by a pending or in-flight batch (or by the `multiDone` being
called right now) -/
structure Acct (refs : List RefCount) (M : List DoneObj) (fired : List (Nat × Err)) (consumed : List Nat) : Prop where
  wf : ∀ i, DoneObj.ref i ∈ M → i < refs.length
  cnt : ∀ i (h : i < refs.length), refs[i].count = (M.count (.ref i) : Int)
  acct : ∀ id, M.count (.base id) + liveRefs refs id + firedCount fired id = if id ∈ consumed then 1 else 0

theorem Acct.congr {refs : List RefCount} {M M' : List DoneObj} {fired : List (Nat × Err)} {c c' : List Nat}
    (h : Acct refs M fired c) (hM : ∀ d, M'.count d = M.count d) (hc : ∀ x, x ∈ c' ↔ x ∈ c) : Acct refs M' fired c' := by
  refine ⟨?_, ?_, ?_⟩
  · intro i hi
    apply h.wf i
    have : 0 < M'.count (.ref i) := List.count_pos_iff.mpr hi
    rw [hM] at this
    exact List.count_pos_iff.mp this
  · intro i hi; rw [hM]; exact h.cnt i hi
  · intro id
    rw [hM]
    have := h.acct id
    by_cases hx : id ∈ c
    · simp only [hx, (hc id).mpr hx, if_true] at this ⊢; exact this
    · have hx' : id ∉ c' := fun h' => hx ((hc id).mp h')
      simp only [hx, hx', if_false] at this ⊢; exact this

theorem firedCount_append (a b : List (Nat × Err)) (id : Nat) : firedCount (a ++ b) id = firedCount a id + firedCount b id := by
  simp [firedCount]

/-- one `OnDone` call keeps the accounting -/
theorem onDone_acct (refs : List RefCount) (M : List DoneObj) (fired : List (Nat × Err)) (consumed : List Nat) (err : Err)
    (d : DoneObj) (h : Acct refs (d :: M) fired consumed) :
    Acct (onDone refs err d).1 M (fired ++ (onDone refs err d).2) consumed := by
  cases d with
  | base id0 =>
    simp only [onDone]
    refine ⟨fun i hi => h.wf i (List.mem_cons_of_mem _ hi), ?_, ?_⟩
    · intro i hi
      have := h.cnt i hi
      simpa [List.count_cons] using this
    · intro id
      have := h.acct id
      rw [firedCount_append, firedCount_single]
      by_cases e : id0 = id
      · subst e
        simp only [List.count_cons_self, if_true] at this ⊢
        omega
      · have ne : (DoneObj.base id0 == DoneObj.base id) = false := by simp [e]
        simp only [List.count_cons, ne, Bool.false_eq_true, if_false, e] at this ⊢
        omega
  | ref i0 =>
    have hi0 : i0 < refs.length := h.wf i0 (List.mem_cons_self ..)
    have hget : refs[i0]? = some refs[i0] := List.getElem?_eq_getElem hi0
    have hc0 := h.cnt i0 hi0
    simp only [List.count_cons_self] at hc0
    simp only [onDone, hget]
    refine ⟨?_, ?_, ?_⟩
    · intro i hi
      rw [List.length_set]
      exact h.wf i (List.mem_cons_of_mem _ hi)
    · intro i hi
      rw [List.length_set] at hi
      by_cases e : i = i0
      · subst e
        simp only [List.getElem_set_self]
        omega
      · have e' : i0 ≠ i := fun x => e x.symm
        rw [List.getElem_set_ne e']
        have := h.cnt i hi
        have ne : (DoneObj.ref i0 == DoneObj.ref i) = false := by simp [e']
        simpa [List.count_cons, ne] using this
    · intro id
      have hb : (DoneObj.ref i0 :: M).count (.base id) = M.count (.base id) := by simp [List.count_cons]
      have hacc := h.acct id
      rw [hb] at hacc
      have hset := countP_set (liveP id) refs i0
        (⟨refs[i0].target, refs[i0].count - 1, refs[i0].err.or err⟩ : RefCount) hi0
      have hpos : refs[i0].count > 0 := by omega
      simp only [liveRefs] at hacc ⊢
      rw [firedCount_append]
      by_cases ht : refs[i0].target = id
      · subst ht
        have p1 : liveP refs[i0].target refs[i0] = true := by simp [liveP, hpos]
        by_cases hz : refs[i0].count - 1 = 0
        · have p2 : liveP refs[i0].target (⟨refs[i0].target, refs[i0].count - 1, refs[i0].err.or err⟩ : RefCount) = false := by
            simp [liveP, hz]
          have hb0 : ((refs[i0].count - 1 == 0) = true) := by simp [hz]
          simp only [p1, p2, if_true, Bool.false_eq_true, if_false] at hset
          simp only [hb0, if_true, firedCount_single]
          omega
        · have p2 : liveP refs[i0].target (⟨refs[i0].target, refs[i0].count - 1, refs[i0].err.or err⟩ : RefCount) = true := by
            have : refs[i0].count - 1 > 0 := by omega
            simp [liveP]; omega
          have hb0 : ((refs[i0].count - 1 == 0) = false) := by simp [hz]
          simp only [p1, p2, if_true] at hset
          simp only [hb0, Bool.false_eq_true, if_false, firedCount_nil]
          omega
      · have p1 : liveP id refs[i0] = false := by simp [liveP, ht]
        have p2 : liveP id (⟨refs[i0].target, refs[i0].count - 1, refs[i0].err.or err⟩ : RefCount) = false := by
          simp [liveP, ht]
        simp only [p1, p2, Bool.false_eq_true, if_false] at hset
        by_cases hz : refs[i0].count - 1 = 0
        · have hb0 : ((refs[i0].count - 1 == 0) = true) := by simp [hz]
          simp only [hb0, if_true, firedCount_single, ht, if_false]
          omega
        · have hb0 : ((refs[i0].count - 1 == 0) = false) := by simp [hz]
          simp only [hb0, Bool.false_eq_true, if_false, firedCount_nil]
          omega


/-! ### `multiDone.OnDone` -/

theorem onDoneAll_acc (err : Err) (ds : List DoneObj) (refs : List RefCount) (acc : List (Nat × Err)) :
    ds.foldl (fun (a : List RefCount × List (Nat × Err)) d => ((onDone a.1 err d).1, a.2 ++ (onDone a.1 err d).2)) (refs, acc) =
      ((onDoneAll refs err ds).1, acc ++ (onDoneAll refs err ds).2) := by
  induction ds generalizing refs acc with
  | nil => simp [onDoneAll]
  | cons d ds ih =>
    simp only [onDoneAll, List.foldl_cons, List.nil_append]
    rw [ih, ih (acc := (onDone refs err d).2)]
    simp [onDoneAll, List.append_assoc]

theorem onDoneAll_cons (err : Err) (d : DoneObj) (ds : List DoneObj) (refs : List RefCount) :
    onDoneAll refs err (d :: ds) =
      ((onDoneAll (onDone refs err d).1 err ds).1, (onDone refs err d).2 ++ (onDoneAll (onDone refs err d).1 err ds).2) := by
  simp only [onDoneAll, List.foldl_cons, List.nil_append]
  exact onDoneAll_acc err ds _ _

theorem onDoneAll_acct (err : Err) (ds : List DoneObj) :
    ∀ (refs : List RefCount) (M : List DoneObj) (fired : List (Nat × Err)) (consumed : List Nat),
      Acct refs (ds ++ M) fired consumed → Acct (onDoneAll refs err ds).1 M (fired ++ (onDoneAll refs err ds).2) consumed := by
  induction ds with
  | nil => intro refs M fired consumed h; simpa [onDoneAll] using h
  | cons d ds ih =>
    intro refs M fired consumed h
    rw [onDoneAll_cons]
    have h1 := onDone_acct refs (ds ++ M) fired consumed err d h
    have h2 := ih _ M _ consumed h1
    simpa [List.append_assoc] using h2

/-! ### a new request -/

theorem add_base_acct {refs : List RefCount} {M M' : List DoneObj} {fired : List (Nat × Err)} {consumed : List Nat} {id : Nat}
    (h : Acct refs M fired consumed) (hid : id ∉ consumed)
    (hM : ∀ d, M'.count d = M.count d + if d = .base id then 1 else 0) : Acct refs M' fired (id :: consumed) := by
  refine ⟨?_, ?_, ?_⟩
  · intro i hi
    apply h.wf i
    have : 0 < M'.count (.ref i) := List.count_pos_iff.mpr hi
    rw [hM] at this
    simp at this
    exact this
  · intro i hi
    rw [hM]; simp; exact h.cnt i hi
  · intro x
    have := h.acct x
    rw [hM]
    by_cases e : x = id
    · subst e
      simp only [hid, if_false, List.mem_cons, true_or, if_true] at this ⊢
      omega
    · have ne : ¬ DoneObj.base x = DoneObj.base id := by simp [e]
      simp only [ne, if_false, List.mem_cons, e, false_or] at this ⊢
      omega

theorem add_ref_acct {refs : List RefCount} {M M' : List DoneObj} {fired : List (Nat × Err)} {consumed : List Nat} {id k : Nat}
    (h : Acct refs M fired consumed) (hid : id ∉ consumed) (hk : 0 < k)
    (hM : ∀ d, M'.count d = M.count d + if d = .ref refs.length then k else 0) :
    Acct (refs ++ [⟨id, k, {}⟩]) M' fired (id :: consumed) := by
  have hnew : M.count (.ref refs.length) = 0 := by
    apply List.count_eq_zero.mpr
    intro hm
    have := h.wf _ hm
    omega
  refine ⟨?_, ?_, ?_⟩
  · intro i hi
    simp only [List.length_append, List.length_singleton]
    by_cases e : i = refs.length
    · omega
    · have : 0 < M'.count (.ref i) := List.count_pos_iff.mpr hi
      rw [hM] at this
      have ne : ¬ DoneObj.ref i = DoneObj.ref refs.length := by simp [e]
      simp only [ne, if_false, Nat.add_zero] at this
      have := h.wf i (List.count_pos_iff.mp this)
      omega
  · intro i hi
    simp only [List.length_append, List.length_singleton] at hi
    rw [hM]
    by_cases e : i = refs.length
    · subst e
      simp [hnew]
    · have hi' : i < refs.length := by omega
      have ne : ¬ DoneObj.ref i = DoneObj.ref refs.length := by simp [e]
      simp only [ne, if_false, Nat.add_zero, List.getElem_append_left hi']
      exact h.cnt i hi'
  · intro x
    have := h.acct x
    rw [hM]
    have nb : ¬ DoneObj.base x = DoneObj.ref refs.length := by simp
    simp only [nb, if_false, Nat.add_zero, liveRefs, List.countP_append, List.countP_singleton] at this ⊢
    by_cases e : x = id
    · subst e
      have p : liveP x ⟨x, k, {}⟩ = true := by simp [liveP]; omega
      simp only [hid, if_false, List.mem_cons, true_or, if_true, p] at this ⊢
      omega
    · have p : liveP x ⟨id, k, {}⟩ = false := by
        have : ¬ id = x := fun y => e y.symm
        simp [liveP, this]
      simp only [List.mem_cons, e, false_or, p, Bool.false_eq_true, if_false] at this ⊢
      omega


/-! ### the state-level steps -/

/-- flight ids are unique and below the next fresh one -/
def FOK (s : BState) : Prop := (s.flights.map (·.fid)).Nodup ∧ ∀ f ∈ s.flights, f.fid < s.nextF

theorem start_spec (fl : List (Parts × List DoneObj)) :
    ∀ (s : BState), (s.start fl).refs = s.refs ∧ (s.start fl).cur = s.cur ∧
      (s.start fl).flights.flatMap (·.dones) = s.flights.flatMap (·.dones) ++ fl.flatMap (·.2) ∧
      (FOK s → FOK (s.start fl)) := by
  induction fl with
  | nil => intro s; simp [BState.start]
  | cons x xs ih =>
    intro s
    have := ih { s with flights := s.flights ++ [⟨s.nextF, x.1, x.2⟩], nextF := s.nextF + 1 }
    simp only [BState.start, List.foldl_cons] at this ⊢
    refine ⟨this.1, this.2.1, ?_, ?_⟩
    · rw [this.2.2.1]; simp [List.flatMap_append, List.append_assoc]
    · intro hf
      apply this.2.2.2
      refine ⟨?_, ?_⟩
      · simp only [List.map_append, List.map_cons, List.map_nil]
        rw [List.nodup_append]
        refine ⟨hf.1, by simp, ?_⟩
        intro a ha b hb
        simp only [List.mem_singleton] at hb
        subst hb
        simp only [List.mem_map] at ha
        obtain ⟨f, hfm, rfl⟩ := ha
        have := hf.2 f hfm
        omega
      · intro f hfm
        simp only [List.mem_append, List.mem_singleton] at hfm
        rcases hfm with h | h
        · have := hf.2 f h; simp only; omega
        · subst h; simp

theorem start_dones (s : BState) (fl : List (Parts × List DoneObj)) :
    (s.start fl).dones = s.dones ++ fl.flatMap (·.2) := by
  have := start_spec fl s
  simp only [BState.dones, BState.curDones, this.2.1, this.2.2.1, List.append_assoc]

theorem pack_ne_nil (max : Nat) (all cur : Parts) (room : Nat) : pack max all cur room ≠ [] := by
  induction all generalizing cur room with
  | nil => simp [pack]
  | cons u rest ih =>
    obtain ⟨id, n⟩ := u
    simp only [pack]
    split
    · simp
    · exact ih _ _

theorem mergeSplit_len_pos (max : Nat) (a b : Parts) : 0 < (partsMergeSplit max a b).length := by
  simp only [partsMergeSplit]
  split
  · simp
  · exact List.length_pos_iff.mpr (pack_ne_nil _ _ _ _)

theorem flatMap_const_dones (l : List Parts) (d : DoneObj) :
    (l.map (fun r => (r, [d]))).flatMap (·.2) = List.replicate l.length d := by
  induction l with
  | nil => rfl
  | cons a l ih => simp [List.replicate_succ, ih]

theorem count_replicate' (n : Nat) (d d0 : DoneObj) : (List.replicate n d).count d0 = if d0 = d then n else 0 := by
  by_cases h : d0 = d
  · subst h; simp
  · have : ¬ d = d0 := fun x => h x.symm
    simp [List.count_replicate, h, this]

theorem mkDone_flights (s : BState) (id n : Nat) : (s.mkDone id n).1.flights = s.flights ∧ (s.mkDone id n).1.nextF = s.nextF ∧
    (s.mkDone id n).1.cur = s.cur := by
  simp only [BState.mkDone]; split <;> simp

theorem consumeMerge_spec (m1 : BState) (d : DoneObj) (dones : List DoneObj) (fhn ff small : Bool) (first last : Parts)
    (rest : List Parts) (hs : small = true → 0 < rest.length) (hf : ff = false → rest = []) :
    (consumeMerge m1 d dones fhn ff small first last rest).1.flights = m1.flights ∧
    (consumeMerge m1 d dones fhn ff small first last rest).1.nextF = m1.nextF ∧
    (consumeMerge m1 d dones fhn ff small first last rest).1.refs = m1.refs ∧
    ∀ d0, ((consumeMerge m1 d dones fhn ff small first last rest).1.curDones ++
        (consumeMerge m1 d dones fhn ff small first last rest).2.flatMap (·.2)).count d0 =
      dones.count d0 + (if d0 = d then (if fhn = true then 1 else 0) + rest.length else 0) := by
  have hdl : ((rest.map (fun r => (r, [d]))).dropLast).flatMap (·.2) = List.replicate (rest.length - 1) d := by
    rw [← List.map_dropLast, flatMap_const_dones, List.length_dropLast]
  have fin : ∀ (d0 : DoneObj) (a b : Nat), (d0 = d → a = b) → (¬ d0 = d → a = 0) →
      dones.count d0 + a = dones.count d0 + (if d0 = d then b else 0) := by
    intro d0 a b h1 h2
    by_cases e : d0 = d
    · simp [e, h1 e]
    · simp [e, h2 e]
  cases ff with
  | false =>
    have hr := hf rfl
    subst hr
    have : small = false := by
      cases small with
      | false => rfl
      | true => have := hs rfl; simp at this
    subst this
    refine ⟨by simp [consumeMerge], by simp [consumeMerge], by simp [consumeMerge], ?_⟩
    intro d0
    cases fhn with
    | true =>
      simp only [consumeMerge, BState.curDones, if_true, Bool.false_eq_true, if_false, List.map_nil, List.append_nil,
        List.flatMap_nil, List.count_append, List.length_nil, Nat.add_zero]
      apply fin
      · intro e; subst e; simp
      · intro e
        have e' : ¬ d = d0 := fun x => e x.symm
        simp [List.count_cons, e']
    | false =>
      simp only [consumeMerge, BState.curDones, Bool.false_eq_true, if_false, List.map_nil, List.append_nil,
        List.flatMap_nil, List.length_nil, Nat.add_zero]
      have := fin d0 0 0 (fun _ => rfl) (fun _ => rfl)
      simpa using this
  | true =>
    cases small with
    | false =>
      refine ⟨by simp [consumeMerge], by simp [consumeMerge], by simp [consumeMerge], ?_⟩
      intro d0
      cases fhn with
      | true =>
        simp only [consumeMerge, BState.curDones, if_true, Bool.false_eq_true, if_false, List.cons_append, List.nil_append,
          List.flatMap_cons, flatMap_const_dones, List.count_append, count_replicate', Nat.add_assoc]
        apply fin
        · intro e; subst e; simp
        · intro e
          have e' : ¬ d = d0 := fun x => e x.symm
          simp [List.count_cons, e', e]
      | false =>
        simp only [consumeMerge, BState.curDones, if_true, Bool.false_eq_true, if_false, List.cons_append, List.nil_append,
          List.flatMap_cons, flatMap_const_dones, List.count_append, count_replicate', Nat.add_assoc, List.count_nil,
          Nat.zero_add]
    | true =>
      have hp := hs rfl
      refine ⟨by simp [consumeMerge], by simp [consumeMerge], by simp [consumeMerge], ?_⟩
      intro d0
      cases fhn with
      | true =>
        simp only [consumeMerge, BState.curDones, if_true, List.cons_append, List.nil_append,
          List.flatMap_cons, List.map_dropLast, hdl, List.count_append, count_replicate']
        by_cases e : d0 = d
        · subst e; simp [List.count_append, List.count_replicate]; omega
        · have e' : ¬ d = d0 := fun x => e x.symm
          simp [List.count_cons, List.count_append, List.count_replicate, e, e']
      | false =>
        simp only [consumeMerge, BState.curDones, if_true, Bool.false_eq_true, if_false, List.cons_append, List.nil_append,
          List.flatMap_cons, List.map_dropLast, hdl, List.count_append, count_replicate']
        by_cases e : d0 = d
        · subst e; simp [List.count_append, List.count_replicate]; omega
        · have e' : ¬ d = d0 := fun x => e x.symm
          simp [List.count_cons, List.count_append, List.count_replicate, e, e']

/-- `Consume` hands the request's `Done` to exactly as many batches as it told the ref-count (`k`), keeps every other
`Done` where it was (moving the pending batch's to the flush it becomes), and touches no flight -/
theorem consume_spec (c : BCfg) (s : BState) (id : Nat) (units : Parts) :
    (s.consume c id units).1.flights = s.flights ∧ (s.consume c id units).1.nextF = s.nextF ∧
    ∃ k, 0 < k ∧ (s.consume c id units).1.refs = (s.mkDone id k).1.refs ∧
      ∀ d0, ((s.consume c id units).1.curDones ++ (s.consume c id units).2.flatMap (·.2)).count d0 =
        s.curDones.count d0 + (if d0 = (s.mkDone id k).2 then k else 0) := by
  cases hcur : s.cur with
  | none =>
    have hlen := mergeSplit_len_pos c.max units []
    have hmk := mkDone_flights s id (partsMergeSplit c.max units []).length
    simp only [BState.consume, hcur]
    split
    · refine ⟨hmk.1, hmk.2.1, _, hlen, rfl, ?_⟩
      intro d0
      simp only [BState.curDones, hcur, flatMap_const_dones, List.length_dropLast, List.count_append, count_replicate',
        List.count_nil, List.count_cons]
      by_cases e : d0 = (s.mkDone id (partsMergeSplit c.max units []).length).2
      · subst e; simp; omega
      · have e' : ¬ (s.mkDone id (partsMergeSplit c.max units []).length).2 = d0 := fun x => e x.symm
        simp [e, e']
    · refine ⟨hmk.1, hmk.2.1, _, hlen, rfl, ?_⟩
      intro d0
      simp only [BState.curDones, hcur, hmk.2.2, flatMap_const_dones, List.count_append, count_replicate', List.count_nil]
      first | omega | skip
  | some cd =>
    obtain ⟨cur, dones⟩ := cd
    have hlen := mergeSplit_len_pos c.max cur units
    simp only [BState.consume, hcur]
    generalize hrl : partsMergeSplit c.max cur units = rl at hlen ⊢
    generalize hfhn : (rl.length == 1 || decide ((rl.head?.getD []).count > cur.count)) = fhn
    generalize hff : (decide (rl.length > 1) || decide ((rl.head?.getD []).items ≥ c.min)) = ff
    generalize hsm : (decide ((rl.drop 1).length > 0) && decide (((rl.drop 1).getLast?.getD []).items < c.min)) = small
    have hrest : (rl.drop 1).length = rl.length - 1 := by simp
    have hs : small = true → 0 < (rl.drop 1).length := by
      intro h; rw [h] at hsm
      simp only [Bool.and_eq_true, decide_eq_true_eq] at hsm; exact hsm.1
    have hf : ff = false → rl.drop 1 = [] := by
      intro h; rw [h] at hff
      simp only [Bool.or_eq_false_iff, decide_eq_false_iff_not] at hff
      apply List.eq_nil_of_length_eq_zero; omega
    have hk : (if fhn = true then rl.length else rl.length - 1) = (if fhn = true then 1 else 0) + (rl.drop 1).length := by
      rw [hrest]; cases fhn <;> simp <;> omega
    have hkpos : 0 < (if fhn = true then rl.length else rl.length - 1) := by
      cases fhn with
      | true => simpa using hlen
      | false =>
        simp only [Bool.false_eq_true, if_false]
        have : ¬ rl.length = 1 := by
          intro h1
          simp [h1] at hfhn
        omega
    have hmk := mkDone_flights s id (if fhn = true then rl.length else rl.length - 1)
    have hcm := consumeMerge_spec (s.mkDone id (if fhn = true then rl.length else rl.length - 1)).1
      (s.mkDone id (if fhn = true then rl.length else rl.length - 1)).2 dones fhn ff small (rl.head?.getD [])
      ((rl.drop 1).getLast?.getD []) (rl.drop 1) hs hf
    refine ⟨hcm.1.trans hmk.1, hcm.2.1.trans hmk.2.1, _, hkpos, hcm.2.2.1, ?_⟩
    intro d0
    rw [hcm.2.2.2 d0, hk]
    simp [BState.curDones, hcur]


/-! ### the invariant along every history -/

def SInv (s : BState) (fired : List (Nat × Err)) (consumed : List Nat) : Prop := Acct s.refs s.dones fired consumed ∧ FOK s

theorem consume_inv (c : BCfg) (s : BState) (fired : List (Nat × Err)) (consumed : List Nat) (id : Nat) (units : Parts)
    (h : SInv s fired consumed) (hid : id ∉ consumed) :
    SInv ((s.consume c id units).1.start (s.consume c id units).2) fired (id :: consumed) := by
  obtain ⟨hfl, hnf, k, hk, hrefs, hcount⟩ := consume_spec c s id units
  have hst := start_spec (s.consume c id units).2 (s.consume c id units).1
  have hdones : ∀ d0, ((s.consume c id units).1.start (s.consume c id units).2).dones.count d0 =
      s.dones.count d0 + (if d0 = (s.mkDone id k).2 then k else 0) := by
    intro d0
    rw [start_dones]
    have := hcount d0
    simp only [BState.dones, hfl, List.count_append] at this ⊢
    omega
  refine ⟨?_, ?_⟩
  · rw [hst.1, hrefs]
    by_cases hk1 : k > 1
    · have e1 : (s.mkDone id k).1.refs = s.refs ++ [⟨id, k, {}⟩] := by simp [BState.mkDone, hk1]
      have e2 : (s.mkDone id k).2 = .ref s.refs.length := by simp [BState.mkDone, hk1]
      rw [e1]
      exact add_ref_acct h.1 hid hk (by intro d0; rw [hdones d0, e2])
    · have hk' : k = 1 := by omega
      have e1 : (s.mkDone id k).1.refs = s.refs := by simp [BState.mkDone, hk1]
      have e2 : (s.mkDone id k).2 = .base id := by simp [BState.mkDone, hk1]
      rw [e1]
      exact add_base_acct h.1 hid (by intro d0; rw [hdones d0, e2, hk'])
  · apply hst.2.2.2
    refine ⟨by rw [hfl]; exact h.2.1, ?_⟩
    intro f hf
    rw [hfl] at hf
    rw [hnf]
    exact h.2.2 f hf

theorem flush_inv (s : BState) (fired : List (Nat × Err)) (consumed : List Nat) (h : SInv s fired consumed) :
    SInv (s.flushCur.1.start s.flushCur.2) fired consumed := by
  cases hcur : s.cur with
  | none =>
    have : s.flushCur = (s, []) := by simp [BState.flushCur, hcur]
    rw [this]
    simpa [BState.start] using h
  | some pd =>
    obtain ⟨p, ds⟩ := pd
    have e : s.flushCur = ({ s with cur := none }, [(p, ds)]) := by simp [BState.flushCur, hcur]
    rw [e]
    have hst := start_spec [(p, ds)] { s with cur := none }
    refine ⟨?_, ?_⟩
    · rw [hst.1]
      refine h.1.congr ?_ (fun _ => Iff.rfl)
      intro d0
      rw [start_dones]
      simp only [BState.dones, BState.curDones, hcur, List.flatMap_cons, List.flatMap_nil, List.append_nil,
        List.nil_append, List.count_append]
      omega
    · exact hst.2.2.2 h.2

theorem filter_fid_count (l : List Flight) (f : Flight) (hf : f ∈ l) (hnd : (l.map (·.fid)).Nodup) :
    ∀ d0, (l.flatMap (·.dones)).count d0 =
      ((l.filter (fun g => g.fid ≠ f.fid)).flatMap (·.dones)).count d0 + f.dones.count d0 := by
  induction l with
  | nil => simp at hf
  | cons a l ih =>
    intro d0
    simp only [List.map_cons, List.nodup_cons] at hnd
    by_cases e : a.fid = f.fid
    · have hfa : f = a := by
        rcases List.mem_cons.mp hf with h | h
        · exact h
        · exfalso
          apply hnd.1
          rw [e]
          exact List.mem_map.mpr ⟨f, h, rfl⟩
      subst hfa
      have hrest : l.filter (fun g => decide (g.fid ≠ f.fid)) = l := by
        apply List.filter_eq_self.mpr
        intro g hg
        apply decide_eq_true
        intro hh
        apply hnd.1
        rw [← hh]
        exact List.mem_map.mpr ⟨g, hg, rfl⟩
      have hpa : decide (f.fid ≠ f.fid) = false := by simp
      have hc : (f :: l).filter (fun g => decide (g.fid ≠ f.fid)) = l := by
        rw [List.filter_cons]; simp only [hpa, Bool.false_eq_true, if_false]; exact hrest
      rw [hc]
      simp only [List.flatMap_cons, List.count_append]
      omega
    · have hfl : f ∈ l := by
        rcases List.mem_cons.mp hf with h | h
        · exact absurd (by rw [h]) e
        · exact h
      have := ih hfl hnd.2 d0
      have hpa : decide (a.fid ≠ f.fid) = true := decide_eq_true e
      have hc : (a :: l).filter (fun g => decide (g.fid ≠ f.fid)) = a :: l.filter (fun g => decide (g.fid ≠ f.fid)) := by
        rw [List.filter_cons]; simp only [hpa, if_true]
      rw [hc]
      simp only [List.flatMap_cons, List.count_append]
      omega

theorem finish_inv (s : BState) (fired : List (Nat × Err)) (consumed : List Nat) (fid : Nat) (err : Err)
    (h : SInv s fired consumed) : SInv (s.finish fid err).1 (fired ++ (s.finish fid err).2) consumed := by
  cases hfind : s.flights.find? (fun f => f.fid = fid) with
  | none =>
    have : s.finish fid err = (s, []) := by simp [BState.finish, hfind]
    rw [this]; simpa using h
  | some f =>
    have hfm : f ∈ s.flights := List.mem_of_find?_eq_some hfind
    have hfid : f.fid = fid := by simpa using List.find?_some hfind
    have e : s.finish fid err = (({ s with refs := (onDoneAll s.refs err f.dones).1, flights := s.flights.filter (fun g => g.fid ≠ fid) } : BState),
        (onDoneAll s.refs err f.dones).2) := by
      simp [BState.finish, hfind]
    rw [e]
    refine ⟨?_, ?_⟩
    · have hc := filter_fid_count s.flights f hfm h.2.1
      rw [hfid] at hc
      have h1 : Acct s.refs (f.dones ++ (s.curDones ++ (s.flights.filter (fun g => g.fid ≠ fid)).flatMap (·.dones))) fired consumed := by
        refine h.1.congr ?_ (fun _ => Iff.rfl)
        intro d0
        have := hc d0
        simp only [BState.dones, List.count_append] at this ⊢
        omega
      have := onDoneAll_acct err f.dones s.refs _ fired consumed h1
      simpa [BState.dones, BState.curDones] using this
    · refine ⟨?_, ?_⟩
      · exact List.Nodup.sublist (List.Sublist.map _ List.filter_sublist) h.2.1
      · intro g hg
        exact h.2.2 g (List.mem_filter.mp hg).1

theorem brun_inv (c : BCfg) :
    ∀ (ls : List BLabel) (s : BState) (fired : List (Nat × Err)) (consumed : List Nat), SInv s fired consumed →
      (consumedIds ls).Nodup → (∀ id ∈ consumedIds ls, id ∉ consumed) →
      SInv (brun c s ls).1 (fired ++ (brun c s ls).2) (consumedIds ls ++ consumed) := by
  intro ls
  induction ls with
  | nil => intro s fired consumed h _ _; simpa [brun, consumedIds] using h
  | cons l ls ih =>
    intro s fired consumed h hnd hnew
    simp only [brun]
    cases l with
    | consume id units =>
      simp only [consumedIds, List.nodup_cons] at hnd
      have hid : id ∉ consumed := hnew id (by simp [consumedIds])
      have h1 := consume_inv c s fired consumed id units h hid
      have := ih _ fired (id :: consumed) h1 hnd.2 (by
        intro x hx
        simp only [List.mem_cons, not_or]
        exact ⟨fun e => hnd.1 (e ▸ hx), hnew x (by simp [consumedIds, hx])⟩)
      simp only [bstep, List.nil_append]
      refine ⟨this.1.congr (fun _ => rfl) ?_, this.2⟩
      intro x
      simp only [consumedIds, List.mem_append, List.mem_cons]
      constructor
      · rintro ((h | h) | h)
        · exact Or.inr (Or.inl h)
        · exact Or.inl h
        · exact Or.inr (Or.inr h)
      · rintro (h | h | h)
        · exact Or.inl (Or.inr h)
        · exact Or.inl (Or.inl h)
        · exact Or.inr h
    | flush =>
      have h1 := flush_inv s fired consumed h
      have := ih _ fired consumed h1 (by simpa [consumedIds] using hnd) (by
        intro x hx; exact hnew x (by simpa [consumedIds] using hx))
      simpa [bstep, consumedIds] using this
    | finish fid err =>
      have h1 := finish_inv s fired consumed fid err h
      have := ih _ _ consumed h1 (by simpa [consumedIds] using hnd) (by
        intro x hx; exact hnew x (by simpa [consumedIds] using hx))
      simpa [bstep, consumedIds, List.append_assoc] using this

end OtelVerif.C04
