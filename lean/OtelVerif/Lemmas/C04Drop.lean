import OtelVerif.Lemmas.C04Split
/-! `split()` does not return an emptied receiver: how the facts about the loop (`splitLoop`) carry over to `split` -/
namespace OtelVerif.C04
open OtelVerif.Payload

theorem split_some {P : Type} (o : Ops P) (max : Int) (r : Req P) (out : List (Req P)) (h : split o max r = some out) :
    ∃ out0, splitLoop o max (o.nodes r.p + 1) r [] = some out0 ∧ out = dropEmptyLast o out0 := by
  simp only [split, splitRaw, Option.map_eq_some_iff] at h
  obtain ⟨a, ha, hb⟩ := h
  exact ⟨a, ha, hb.symm⟩

theorem split_isSome {P : Type} (o : Ops P) (max : Int) (r : Req P)
    (h : (splitLoop o max (o.nodes r.p + 1) r []).isSome = true) : (split o max r).isSome = true := by
  simpa [split, splitRaw] using h

theorem eq_dropLast_append {α : Type} (l : List α) (a : α) (h : l.getLast? = some a) : l = l.dropLast ++ [a] := by
  induction l with
  | nil => simp at h
  | cons x t ih =>
    cases t with
    | nil => simp at h; simp [h]
    | cons y t' =>
      simp only [List.getLast?_cons_cons] at h
      simp only [List.dropLast_cons_cons, List.cons_append]
      rw [← ih h]

theorem dropEmptyLast_mem {P : Type} (o : Ops P) (rs : List (Req P)) (r : Req P) (h : r ∈ dropEmptyLast o rs) : r ∈ rs := by
  unfold dropEmptyLast at h
  split at h
  · split at h
    · exact List.dropLast_subset _ h
    · exact h
  · exact h

theorem dropEmptyLast_flat {P β : Type} (o : Ops P) (flat : P → List β) (hE : ∀ p, o.empty p = true → flat p = [])
    (rs : List (Req P)) : flatReqs flat (dropEmptyLast o rs) = flatReqs flat rs := by
  unfold dropEmptyLast
  split
  · rename_i l hl
    split
    · rename_i hc
      simp only [Bool.and_eq_true, decide_eq_true_eq] at hc
      have hrs : rs = rs.dropLast ++ [l] := eq_dropLast_append rs l hl
      conv => rhs; rw [hrs]
      rw [flatReqs_append]
      simp [flatReqs, hE l.p hc.2]
    · rfl
  · rfl

theorem dropEmptyLast_head {P : Type} (o : Ops P) (rs : List (Req P)) : (dropEmptyLast o rs).head? = rs.head? := by
  unfold dropEmptyLast
  split
  · split
    · rename_i hc
      simp only [Bool.and_eq_true, decide_eq_true_eq] at hc
      match rs, hc.1 with
      | a :: b :: t, _ => simp [List.dropLast]
    · rfl
  · rfl

theorem logs_empty_flat (sz : Sizer) : ∀ p, (logsOps sz).empty p = true → flatten p = [] := by
  intro p hp
  simp only [logsOps, Bool.and_eq_true, List.isEmpty_iff] at hp
  rw [hp.2]
  rfl

theorem metrics_empty_flat (keep : Bool) (sz : Sizer) : ∀ p, (metricsOps keep sz).empty p = true → mflatten p = [] := by
  intro p hp
  simp only [metricsOps, Bool.and_eq_true, List.isEmpty_iff] at hp
  rw [hp.2]
  rfl

theorem splitLoop_ne_nil {P : Type} (o : Ops P) (max : Int) : ∀ (fuel : Nat) (req : Req P) (res out : List (Req P)),
    splitLoop o max fuel req res = some out → out ≠ [] := by
  intro fuel
  induction fuel with
  | zero => intro req res out h; simp [splitLoop] at h
  | succ n ih =>
    intro req res out h
    simp only [splitLoop] at h
    split at h
    · split at h
      · split at h
        · exact ih _ _ _ h
        · injection h with h; subst h; simp
      · exact ih _ _ _ h
    · injection h with h; subst h; simp

theorem dropEmptyLast_ne_nil {P : Type} (o : Ops P) (rs : List (Req P)) (h : rs ≠ []) : dropEmptyLast o rs ≠ [] := by
  unfold dropEmptyLast
  split
  · split
    · rename_i hc
      simp only [Bool.and_eq_true, decide_eq_true_eq] at hc
      match rs, hc.1 with
      | a :: b :: t, _ => simp [List.dropLast]
    · exact h
  · exact h

end OtelVerif.C04
