import OtelVerif.Lemmas.C04Cover
/-! C04: the error a callback reports is the combination of the outcomes of exactly the flushes that held one of its `Done`s —
over every history of the batcher -/
namespace OtelVerif.C04
open OtelVerif.Payload

/-- combined outcome recorded for request `id`: every `(id, outcome)` entry, `multierr.Append`-ed in order -/
def accId (log : List (Nat × Err)) (id : Nat) : Err := (log.filter (fun x => x.1 == id)).foldl (fun a x => a.or x.2) {}

theorem Err.or_empty_left (e : Err) : ({} : Err).or e = e := by cases e; simp [Err.or]

theorem accId_append_single (log : List (Nat × Err)) (t : Nat) (e : Err) (id : Nat) :
    accId (log ++ [(t, e)]) id = if t = id then (accId log id).or e else accId log id := by
  simp only [accId, List.filter_append, List.foldl_append]
  by_cases h : t = id
  · subst h; simp
  · have : ((t, e).1 == id) = false := by simp [h]
    simp [List.filter_cons, this, h]

theorem accId_nil_of_not_mem (log : List (Nat × Err)) (id : Nat) (h : ∀ x ∈ log, x.1 ≠ id) : accId log id = {} := by
  have : log.filter (fun x => x.1 == id) = [] := by
    apply List.filter_eq_nil_iff.mpr
    intro x hx; simp [h x hx]
  simp [accId, this]

/-- what one `OnDone(err)` call on `d` contributes to the record: the outcome, under the request `d` belongs to -/
def logOf (refs : List RefCount) (d : DoneObj) (err : Err) : List (Nat × Err) :=
  match tgt refs d with
  | some t => [(t, err)]
  | none => []

/-- the error-accounting invariant on top of `Acct` -/
structure EInv (refs : List RefCount) (M : List DoneObj) (fired : List (Nat × Err)) (log : List (Nat × Err))
    (consumed : List Nat) : Prop where
  acct : Acct refs M fired consumed
  r : ∀ i (h : i < refs.length), refs[i].err = accId log refs[i].target
  b : ∀ id, DoneObj.base id ∈ M → accId log id = {}
  f : ∀ x ∈ fired, x.2 = accId log x.1
  l : ∀ x ∈ log, x.1 ∈ consumed
  t : ∀ i (h : i < refs.length), refs[i].target ∈ consumed
  u : ∀ i j (hi : i < refs.length) (hj : j < refs.length), refs[i].target = refs[j].target → i = j
  v : ∀ id, DoneObj.base id ∈ M → ∀ i (h : i < refs.length), refs[i].target ≠ id

theorem EInv.congrM {refs : List RefCount} {M M' : List DoneObj} {fired log : List (Nat × Err)} {c c' : List Nat}
    (h : EInv refs M fired log c) (hM : ∀ d, M'.count d = M.count d) (hc : ∀ x, x ∈ c' ↔ x ∈ c) : EInv refs M' fired log c' := by
  have hmem : ∀ d, d ∈ M' → d ∈ M := by
    intro d hd
    have : 0 < M'.count d := List.count_pos_iff.mpr hd
    rw [hM] at this
    exact List.count_pos_iff.mp this
  exact ⟨h.acct.congr hM hc, h.r, fun id hid => h.b id (hmem _ hid), h.f, fun x hx => (hc _).mpr (h.l x hx),
    fun i hi => (hc _).mpr (h.t i hi), h.u, fun id hid => h.v id (hmem _ hid)⟩

/-- a consumed request has something pending or has fired; in particular a fired request has no live `Done` -/
theorem acct_fired_excl {refs : List RefCount} {M : List DoneObj} {fired : List (Nat × Err)} {consumed : List Nat}
    (h : Acct refs M fired consumed) (id : Nat) (e : Err) (hf : (id, e) ∈ fired) :
    DoneObj.base id ∉ M ∧ ∀ i (hi : i < refs.length), refs[i].target = id → ¬ refs[i].count > 0 := by
  have hacc := h.acct id
  have hfc : 0 < firedCount fired id := by
    apply List.countP_pos_iff.mpr
    exact ⟨(id, e), hf, by simp⟩
  have hsum : M.count (.base id) + liveRefs refs id = 0 := by
    split at hacc <;> omega
  refine ⟨?_, ?_⟩
  · intro hm
    have : 0 < M.count (.base id) := List.count_pos_iff.mpr hm
    omega
  · intro i hi ht hc
    have : 0 < liveRefs refs id := by
      apply List.countP_pos_iff.mpr
      exact ⟨refs[i], List.getElem_mem hi, by simp [liveP, ht, hc]⟩
    omega

theorem onDone_einv (refs : List RefCount) (M : List DoneObj) (fired log : List (Nat × Err)) (consumed : List Nat) (err : Err)
    (d : DoneObj) (h : EInv refs (d :: M) fired log consumed) :
    EInv (onDone refs err d).1 M (fired ++ (onDone refs err d).2) (log ++ logOf refs d err) consumed := by
  have hA := onDone_acct refs M fired consumed err d h.acct
  cases d with
  | base id0 =>
    have hcons : id0 ∈ consumed := by
      have := h.acct.acct id0
      by_cases hc : id0 ∈ consumed
      · exact hc
      · simp only [hc, if_false, List.count_cons_self] at this; omega
    have hb0 := h.b id0 (List.mem_cons_self ..)
    have hcnt1 : M.count (.base id0) = 0 := by
      have := h.acct.acct id0
      simp only [List.count_cons_self] at this
      split at this <;> omega
    simp only [onDone, logOf, tgt] at hA ⊢
    refine ⟨hA, ?_, ?_, ?_, ?_, h.t, h.u, ?_⟩
    · intro i hi
      rw [accId_append_single]
      have := h.v id0 (List.mem_cons_self ..) i hi
      have hne : ¬ id0 = refs[i].target := fun x => this x.symm
      simp only [hne, if_false]
      exact h.r i hi
    · intro id hid
      rw [accId_append_single]
      have hne : ¬ id0 = id := by
        intro x; subst x
        have : 0 < M.count (.base id0) := List.count_pos_iff.mpr hid
        omega
      simp only [hne, if_false]
      exact h.b id (List.mem_cons_of_mem _ hid)
    · intro x hx
      rcases List.mem_append.mp hx with h' | h'
      · rw [accId_append_single]
        have hne : ¬ id0 = x.1 := by
          intro e
          have := (acct_fired_excl h.acct x.1 x.2 (by simpa using h')).1
          apply this; rw [← e]; exact List.mem_cons_self ..
        simp only [hne, if_false]
        exact h.f x h'
      · simp only [List.mem_singleton] at h'
        subst h'
        rw [accId_append_single]
        simp only [if_true, hb0, Err.or_empty_left]
    · intro x hx
      rcases List.mem_append.mp hx with h' | h'
      · exact h.l x h'
      · simp only [List.mem_singleton] at h'; subst h'; exact hcons
    · intro id hid i hi
      exact h.v id (List.mem_cons_of_mem _ hid) i hi
  | ref i0 =>
    have hi0 : i0 < refs.length := h.acct.wf i0 (List.mem_cons_self ..)
    have hget : refs[i0]? = some refs[i0] := List.getElem?_eq_getElem hi0
    have hc0 := h.acct.cnt i0 hi0
    simp only [List.count_cons_self] at hc0
    have hpos : refs[i0].count > 0 := by omega
    simp only [onDone, hget, logOf, tgt, Option.map_some] at hA ⊢
    have hlen : (refs.set i0 ⟨refs[i0].target, refs[i0].count - 1, refs[i0].err.or err⟩).length = refs.length := List.length_set
    have hnb : ∀ id, DoneObj.base id ∈ M → ¬ refs[i0].target = id := by
      intro id hid e
      exact h.v id (List.mem_cons_of_mem _ hid) i0 hi0 e
    refine ⟨hA, ?_, ?_, ?_, ?_, ?_, ?_, ?_⟩
    · intro i hi
      have hi' : i < refs.length := by simpa using hi
      rw [accId_append_single]
      by_cases e : i = i0
      · subst e
        simp only [List.getElem_set_self, if_true]
        rw [h.r i hi']
      · have e' : i0 ≠ i := fun x => e x.symm
        rw [List.getElem_set_ne e']
        have hne : ¬ refs[i0].target = refs[i].target := fun x => e (h.u i i0 hi' hi0 x.symm)
        simp only [hne, if_false]
        exact h.r i hi'
    · intro id hid
      rw [accId_append_single]
      simp only [hnb id hid, if_false]
      exact h.b id (List.mem_cons_of_mem _ hid)
    · intro x hx
      rcases List.mem_append.mp hx with h' | h'
      · rw [accId_append_single]
        have hne : ¬ refs[i0].target = x.1 := by
          intro e
          exact (acct_fired_excl h.acct x.1 x.2 (by simpa using h')).2 i0 hi0 e hpos
        simp only [hne, if_false]
        exact h.f x h'
      · split at h'
        · simp only [List.mem_singleton] at h'
          subst h'
          rw [accId_append_single]
          simp only [if_true]
          rw [h.r i0 hi0]
        · simp at h'
    · intro x hx
      rcases List.mem_append.mp hx with h' | h'
      · exact h.l x h'
      · simp only [List.mem_singleton] at h'; subst h'; exact h.t i0 hi0
    · intro i hi
      have hi' : i < refs.length := by simpa using hi
      by_cases e : i = i0
      · subst e; simp only [List.getElem_set_self]; exact h.t i hi'
      · have e' : i0 ≠ i := fun x => e x.symm
        rw [List.getElem_set_ne e']; exact h.t i hi'
    · intro i j hi hj
      have hi' : i < refs.length := by simpa using hi
      have hj' : j < refs.length := by simpa using hj
      have ti : (refs.set i0 ⟨refs[i0].target, refs[i0].count - 1, refs[i0].err.or err⟩)[i].target = refs[i].target := by
        by_cases e : i = i0
        · subst e; simp
        · have e' : i0 ≠ i := fun x => e x.symm
          rw [List.getElem_set_ne e']
      have tj : (refs.set i0 ⟨refs[i0].target, refs[i0].count - 1, refs[i0].err.or err⟩)[j].target = refs[j].target := by
        by_cases e : j = i0
        · subst e; simp
        · have e' : i0 ≠ j := fun x => e x.symm
          rw [List.getElem_set_ne e']
      rw [ti, tj]
      exact h.u i j hi' hj'
    · intro id hid i hi
      have hi' : i < refs.length := by simpa using hi
      have ti : (refs.set i0 ⟨refs[i0].target, refs[i0].count - 1, refs[i0].err.or err⟩)[i].target = refs[i].target := by
        by_cases e : i = i0
        · subst e; simp
        · have e' : i0 ≠ i := fun x => e x.symm
          rw [List.getElem_set_ne e']
      rw [ti]
      exact h.v id (List.mem_cons_of_mem _ hid) i hi'


/-- the record of one `multiDone.OnDone(err)` call -/
def logAll (refs : List RefCount) (err : Err) (ds : List DoneObj) : List (Nat × Err) := ds.flatMap (fun d => logOf refs d err)

theorem logOf_stable (refs : List RefCount) (err e2 : Err) (d0 d : DoneObj) : logOf (onDone refs e2 d0).1 d err = logOf refs d err := by
  simp only [logOf, tgt_onDone]

theorem onDoneAll_einv (err : Err) (ds : List DoneObj) :
    ∀ (refs : List RefCount) (M : List DoneObj) (fired log : List (Nat × Err)) (consumed : List Nat),
      EInv refs (ds ++ M) fired log consumed →
      EInv (onDoneAll refs err ds).1 M (fired ++ (onDoneAll refs err ds).2) (log ++ logAll refs err ds) consumed := by
  induction ds with
  | nil => intro refs M fired log consumed h; simpa [onDoneAll, logAll] using h
  | cons d ds ih =>
    intro refs M fired log consumed h
    rw [onDoneAll_cons]
    have h1 := onDone_einv refs (ds ++ M) fired log consumed err d h
    have h2 := ih _ M _ _ consumed h1
    have e : logAll (onDone refs err d).1 err ds = logAll refs err ds := by
      simp only [logAll]
      congr 1
      funext d'
      exact logOf_stable refs err err d d'
    rw [e] at h2
    simpa [logAll, List.append_assoc] using h2

theorem add_base_einv {refs : List RefCount} {M M' : List DoneObj} {fired log : List (Nat × Err)} {consumed : List Nat} {id : Nat}
    (h : EInv refs M fired log consumed) (hid : id ∉ consumed)
    (hM : ∀ d, M'.count d = M.count d + if d = .base id then 1 else 0) : EInv refs M' fired log (id :: consumed) := by
  have hmem : ∀ d, d ∈ M' → d ∈ M ∨ d = .base id := by
    intro d hd
    have : 0 < M'.count d := List.count_pos_iff.mpr hd
    rw [hM] at this
    by_cases e : d = .base id
    · exact Or.inr e
    · simp only [e, if_false, Nat.add_zero] at this
      exact Or.inl (List.count_pos_iff.mp this)
  have hfresh : accId log id = {} := accId_nil_of_not_mem log id (fun x hx e => hid (e ▸ h.l x hx))
  refine ⟨add_base_acct h.acct hid hM, h.r, ?_, h.f, fun x hx => List.mem_cons_of_mem _ (h.l x hx),
    fun i hi => List.mem_cons_of_mem _ (h.t i hi), h.u, ?_⟩
  · intro id' hid'
    rcases hmem _ hid' with h' | h'
    · exact h.b id' h'
    · injection h' with h'; subst h'; exact hfresh
  · intro id' hid' i hi
    rcases hmem _ hid' with h' | h'
    · exact h.v id' h' i hi
    · injection h' with h'; subst h'
      intro e; exact hid (e ▸ h.t i hi)

theorem add_ref_einv {refs : List RefCount} {M M' : List DoneObj} {fired log : List (Nat × Err)} {consumed : List Nat} {id k : Nat}
    (h : EInv refs M fired log consumed) (hid : id ∉ consumed) (hk : 0 < k)
    (hM : ∀ d, M'.count d = M.count d + if d = .ref refs.length then k else 0) :
    EInv (refs ++ [⟨id, k, {}⟩]) M' fired log (id :: consumed) := by
  have hmem : ∀ d, d ∈ M' → d ∈ M ∨ d = .ref refs.length := by
    intro d hd
    have : 0 < M'.count d := List.count_pos_iff.mpr hd
    rw [hM] at this
    by_cases e : d = .ref refs.length
    · exact Or.inr e
    · simp only [e, if_false, Nat.add_zero] at this
      exact Or.inl (List.count_pos_iff.mp this)
  have hfresh : accId log id = {} := accId_nil_of_not_mem log id (fun x hx e => hid (e ▸ h.l x hx))
  have hget : ∀ i (hi : i < (refs ++ [(⟨id, k, {}⟩ : RefCount)]).length) (hlt : i < refs.length),
      (refs ++ [(⟨id, k, {}⟩ : RefCount)])[i] = refs[i] := by
    intro i hi hlt; exact List.getElem_append_left hlt
  have hlast : ∀ i (hi : i < (refs ++ [(⟨id, k, {}⟩ : RefCount)]).length), ¬ i < refs.length →
      (refs ++ [(⟨id, k, {}⟩ : RefCount)])[i] = ⟨id, k, {}⟩ := by
    intro i hi hge
    have : i = refs.length := by simp at hi; omega
    subst this; simp
  have hnobase : DoneObj.base id ∉ M := by
    intro hm
    have := h.acct.acct id
    have : 0 < M.count (.base id) := List.count_pos_iff.mpr hm
    simp only [hid, if_false] at *
    omega
  refine ⟨add_ref_acct h.acct hid hk hM, ?_, ?_, h.f, fun x hx => List.mem_cons_of_mem _ (h.l x hx), ?_, ?_, ?_⟩
  · intro i hi
    by_cases hlt : i < refs.length
    · rw [hget i hi hlt]; exact h.r i hlt
    · rw [hlast i hi hlt]; exact hfresh.symm
  · intro id' hid'
    rcases hmem _ hid' with h' | h'
    · exact h.b id' h'
    · cases h'
  · intro i hi
    by_cases hlt : i < refs.length
    · rw [hget i hi hlt]; exact List.mem_cons_of_mem _ (h.t i hlt)
    · rw [hlast i hi hlt]; exact List.mem_cons_self ..
  · intro i j hi hj e
    by_cases hli : i < refs.length
    · by_cases hlj : j < refs.length
      · rw [hget i hi hli, hget j hj hlj] at e; exact h.u i j hli hlj e
      · rw [hget i hi hli, hlast j hj hlj] at e
        have e' : refs[i].target = id := e
        exact absurd (e' ▸ h.t i hli) hid
    · by_cases hlj : j < refs.length
      · rw [hlast i hi hli, hget j hj hlj] at e
        have e' : refs[j].target = id := e.symm
        exact absurd (e' ▸ h.t j hlj) hid
      · simp at hi hj; omega
  · intro id' hid' i hi
    rcases hmem _ hid' with h' | h'
    · by_cases hlt : i < refs.length
      · rw [hget i hi hlt]; exact h.v id' h' i hlt
      · rw [hlast i hi hlt]
        intro e
        simp only at e
        subst e
        exact hnobase h'
    · cases h'


/-! ### along every history -/

/-- the record of a history: for every flush that ends, its outcome under every request one of its `Done`s belongs to -/
def doneLog (c : BCfg) : BState → List BLabel → List (Nat × Err)
  | _, [] => []
  | s, l :: ls =>
    (match l with
     | .finish fid err =>
       (match s.flights.find? (fun f => f.fid = fid) with
        | some f => logAll s.refs err f.dones
        | none => [])
     | _ => []) ++ doneLog c (bstep c s l).1 ls

def SEInv (s : BState) (fired log : List (Nat × Err)) (consumed : List Nat) : Prop :=
  EInv s.refs s.dones fired log consumed ∧ FOK s

theorem consume_einv (c : BCfg) (s : BState) (fired log : List (Nat × Err)) (consumed : List Nat) (id : Nat) (units : Parts)
    (h : SEInv s fired log consumed) (hid : id ∉ consumed) :
    SEInv ((s.consume c id units).1.start (s.consume c id units).2) fired log (id :: consumed) := by
  obtain ⟨hfl, hnf, k, hk, hrefs, hcount⟩ := consume_spec c s id units
  have hst := start_spec (s.consume c id units).2 (s.consume c id units).1
  have hdones : ∀ d0, ((s.consume c id units).1.start (s.consume c id units).2).dones.count d0 =
      s.dones.count d0 + (if d0 = (s.mkDone id k).2 then k else 0) := by
    intro d0
    rw [start_dones]
    have := hcount d0
    simp only [BState.dones, hfl, List.count_append] at this ⊢
    omega
  refine ⟨?_, ?_⟩
  · rw [hst.1, hrefs]
    by_cases hk1 : k > 1
    · have e1 : (s.mkDone id k).1.refs = s.refs ++ [⟨id, k, {}⟩] := by simp [BState.mkDone, hk1]
      have e2 : (s.mkDone id k).2 = .ref s.refs.length := by simp [BState.mkDone, hk1]
      rw [e1]
      exact add_ref_einv h.1 hid hk (by intro d0; rw [hdones d0, e2])
    · have hk' : k = 1 := by omega
      have e1 : (s.mkDone id k).1.refs = s.refs := by simp [BState.mkDone, hk1]
      have e2 : (s.mkDone id k).2 = .base id := by simp [BState.mkDone, hk1]
      rw [e1]
      exact add_base_einv h.1 hid (by intro d0; rw [hdones d0, e2, hk'])
  · apply hst.2.2.2
    refine ⟨by rw [hfl]; exact h.2.1, ?_⟩
    intro f hf
    rw [hfl] at hf
    rw [hnf]
    exact h.2.2 f hf

theorem flush_einv (s : BState) (fired log : List (Nat × Err)) (consumed : List Nat) (h : SEInv s fired log consumed) :
    SEInv (s.flushCur.1.start s.flushCur.2) fired log consumed := by
  have hS : SInv s fired consumed := ⟨h.1.acct, h.2⟩
  have hf := flush_inv s fired consumed hS
  refine ⟨?_, hf.2⟩
  cases hcur : s.cur with
  | none =>
    have : s.flushCur = (s, []) := by simp [BState.flushCur, hcur]
    rw [this]; simpa [BState.start] using h.1
  | some pd =>
    obtain ⟨p, ds⟩ := pd
    have e : s.flushCur = (({ s with cur := none } : BState), [(p, ds)]) := by simp [BState.flushCur, hcur]
    rw [e]
    have hst := start_spec [(p, ds)] { s with cur := none }
    rw [hst.1]
    refine h.1.congrM ?_ (fun _ => Iff.rfl)
    intro d0
    rw [start_dones]
    simp only [BState.dones, BState.curDones, hcur, List.flatMap_cons, List.flatMap_nil, List.append_nil,
      List.nil_append, List.count_append]
    omega

theorem finish_einv (s : BState) (fired log : List (Nat × Err)) (consumed : List Nat) (fid : Nat) (err : Err)
    (h : SEInv s fired log consumed) :
    SEInv (s.finish fid err).1 (fired ++ (s.finish fid err).2)
      (log ++ (match s.flights.find? (fun f => f.fid = fid) with | some f => logAll s.refs err f.dones | none => [])) consumed := by
  cases hfind : s.flights.find? (fun f => f.fid = fid) with
  | none =>
    have : s.finish fid err = (s, []) := by simp [BState.finish, hfind]
    rw [this]; simpa using h
  | some f =>
    have hfm : f ∈ s.flights := List.mem_of_find?_eq_some hfind
    have hfid : f.fid = fid := by simpa using List.find?_some hfind
    have e : s.finish fid err = (({ s with refs := (onDoneAll s.refs err f.dones).1, flights := s.flights.filter (fun g => g.fid ≠ fid) } : BState),
        (onDoneAll s.refs err f.dones).2) := by
      simp [BState.finish, hfind]
    rw [e]
    refine ⟨?_, ?_⟩
    · have hc := filter_fid_count s.flights f hfm h.2.1
      rw [hfid] at hc
      have h1 : EInv s.refs (f.dones ++ (s.curDones ++ (s.flights.filter (fun g => g.fid ≠ fid)).flatMap (·.dones))) fired log consumed := by
        refine h.1.congrM ?_ (fun _ => Iff.rfl)
        intro d0
        have := hc d0
        simp only [BState.dones, List.count_append] at this ⊢
        omega
      have := onDoneAll_einv err f.dones s.refs _ fired log consumed h1
      simpa [BState.dones, BState.curDones] using this
    · refine ⟨?_, ?_⟩
      · exact List.Nodup.sublist (List.Sublist.map _ List.filter_sublist) h.2.1
      · intro g hg
        exact h.2.2 g (List.mem_filter.mp hg).1

theorem brun_einv (c : BCfg) :
    ∀ (ls : List BLabel) (s : BState) (fired log : List (Nat × Err)) (consumed : List Nat), SEInv s fired log consumed →
      (consumedIds ls).Nodup → (∀ id ∈ consumedIds ls, id ∉ consumed) →
      SEInv (brun c s ls).1 (fired ++ (brun c s ls).2) (log ++ doneLog c s ls) (consumedIds ls ++ consumed) := by
  intro ls
  induction ls with
  | nil => intro s fired log consumed h _ _; simpa [brun, consumedIds, doneLog] using h
  | cons l ls ih =>
    intro s fired log consumed h hnd hnew
    simp only [brun, doneLog]
    cases l with
    | consume id units =>
      simp only [consumedIds, List.nodup_cons] at hnd
      have hid : id ∉ consumed := hnew id (by simp [consumedIds])
      have h1 := consume_einv c s fired log consumed id units h hid
      have := ih _ fired log (id :: consumed) h1 hnd.2 (by
        intro x hx
        simp only [List.mem_cons, not_or]
        exact ⟨fun e => hnd.1 (e ▸ hx), hnew x (by simp [consumedIds, hx])⟩)
      simp only [bstep, List.nil_append]
      refine ⟨this.1.congrM (fun _ => rfl) ?_, this.2⟩
      intro x
      simp only [consumedIds, List.mem_append, List.mem_cons]
      constructor
      · rintro ((h | h) | h)
        · exact Or.inr (Or.inl h)
        · exact Or.inl h
        · exact Or.inr (Or.inr h)
      · rintro (h | h | h)
        · exact Or.inl (Or.inr h)
        · exact Or.inl (Or.inl h)
        · exact Or.inr h
    | flush =>
      have h1 := flush_einv s fired log consumed h
      have := ih _ fired log consumed h1 (by simpa [consumedIds] using hnd) (by
        intro x hx; exact hnew x (by simpa [consumedIds] using hx))
      simpa [bstep, consumedIds] using this
    | finish fid err =>
      have h1 := finish_einv s fired log consumed fid err h
      have := ih _ _ _ consumed h1 (by simpa [consumedIds] using hnd) (by
        intro x hx; exact hnew x (by simpa [consumedIds] using hx))
      simpa [bstep, consumedIds, List.append_assoc] using this

theorem seinv_init : SEInv {} [] [] [] := by
  refine ⟨⟨?_, ?_, ?_, ?_, ?_, ?_, ?_, ?_⟩, by simp [FOK]⟩
  · exact ⟨by intro i hi; simp [BState.dones, BState.curDones] at hi, by intro i hi; simp at hi,
      by intro id; simp [BState.dones, BState.curDones, liveRefs, firedCount]⟩
  · intro i hi; simp at hi
  · intro id hid; simp [BState.dones, BState.curDones] at hid
  · intro x hx; simp at hx
  · intro x hx; simp at hx
  · intro i hi; simp at hi
  · intro i j hi; simp at hi
  · intro id hid; simp [BState.dones, BState.curDones] at hid

end OtelVerif.C04
