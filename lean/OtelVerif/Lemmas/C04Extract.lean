import OtelVerif.Model.C04
import OtelVerif.Lemmas.C04Walk
/-! lemmas for C04: conservation of extract / moveFirst / split, level by level -/
namespace OtelVerif.C04
open OtelVerif.Payload

theorem map_eq_flatMap_single {α β : Type} (g : α → β) (l : List α) : l.map g = l.flatMap (fun a => [g a]) := by
  induction l with
  | nil => rfl
  | cons a l ih => simp [List.flatMap_cons, ih]

/-- innermost `RemoveIf` of the extract functions conserves the items -/
theorem leaf_perm {β : Type} (g : Item → β) (fits : St → Item → Option St) (st : St) (items : List Item) :
    ((walk stop fits cutLeaf st items).dest.map g ++ (walk stop fits cutLeaf st items).rem.map g).Perm (items.map g) := by
  simp only [map_eq_flatMap_single]
  exact walk_perm _ _ _ _ (by intro s c; simp [cutLeaf]) st items

/-- an outer-level cut conserves the flattening if extracting from the child does and a fragment that is not added to
the destination has no items -/
theorem cutBy_perm' {α β : Type} (sz : Sizer) (size : α → Int) (ext : Int → α → α × α × Int) (nonEmpty : α → Bool)
    (f : α → List β)
    (hext : ∀ cap c, (f (ext cap c).1 ++ f (ext cap c).2.1).Perm (f c))
    (hne : ∀ cap c, nonEmpty (ext cap c).1 = false → f (ext cap c).1 = []) (st : St) (c : α) :
    (oflat f (cutBy sz size ext nonEmpty st c).1 ++ oflat f (cutBy sz size ext nonEmpty st c).2.1).Perm (f c) := by
  simp only [cutBy]
  by_cases h : nonEmpty (ext st.cap c).1 = true
  · simp only [h, if_true, oflat_some]; exact hext st.cap c
  · have h' : nonEmpty (ext st.cap c).1 = false := by simpa using h
    simp only [h', Bool.false_eq_true, if_false, oflat_none, oflat_some, List.nil_append]
    have := hext st.cap c
    rw [hne _ _ h'] at this
    simpa using this

theorem cutBy_perm {α β : Type} (sz : Sizer) (size : α → Int) (ext : Int → α → α × α × Int) (nonEmpty : α → Bool)
    (f : α → List β)
    (hext : ∀ cap c, (f (ext cap c).1 ++ f (ext cap c).2.1).Perm (f c))
    (hne : ∀ a, nonEmpty a = false → f a = []) (st : St) (c : α) :
    (oflat f (cutBy sz size ext nonEmpty st c).1 ++ oflat f (cutBy sz size ext nonEmpty st c).2.1).Perm (f c) :=
  cutBy_perm' sz size ext nonEmpty f hext (fun cap c h => hne _ h) st c

theorem extractScope_perm (r : RMeta) (sz : Sizer) (cap : Int) (s : Scope) :
    (Scope.flat r (extractScope sz cap s).1 ++ Scope.flat r (extractScope sz cap s).2.1).Perm (Scope.flat r s) := by
  simp only [extractScope, Scope.flat]
  exact leaf_perm _ _ _ s.items

theorem extractRes_perm (sz : Sizer) (cap : Int) (r : Res) :
    (Res.flat (extractRes sz cap r).1 ++ Res.flat (extractRes sz cap r).2.1).Perm (Res.flat r) := by
  simp only [extractRes, Res.flat]
  refine walk_perm _ _ _ (Scope.flat r.rmeta) ?_ _ r.scopes
  intro st c
  refine cutBy_perm sz _ _ _ _ (extractScope_perm r.rmeta sz) ?_ st c
  intro a ha
  have : a.items = [] := by
    cases hi : a.items with
    | nil => rfl
    | cons x xs => simp [hi] at ha
  simp [Scope.flat, this]

theorem extract_perm (sz : Sizer) (cap : Int) (p : List Res) :
    (flatten (extract sz cap p).1 ++ flatten (extract sz cap p).2.1).Perm (flatten p) := by
  simp only [extract, flatten]
  refine walk_perm _ _ _ Res.flat ?_ _ p
  intro st c
  refine cutBy_perm sz _ _ _ _ (extractRes_perm sz) ?_ st c
  intro a ha
  have : a.scopes = [] := by
    cases hi : a.scopes with
    | nil => rfl
    | cons x xs => simp [hi] at ha
  simp [Res.flat, this]

/-! ### metrics (repaired code: `keep = true`) -/

theorem extractPoints_perm (r : RMeta) (sm : SMeta) (sz : Sizer) (cap : Int) (m : Metric) :
    (Metric.flat r sm (extractPoints true sz cap m).1 ++ Metric.flat r sm (extractPoints true sz cap m).2.1).Perm (Metric.flat r sm m) := by
  simp only [extractPoints]
  by_cases h : (m.mmeta.ty == 0) = true
  · simp [h, Metric.flat]
  · simp only [h, Bool.false_eq_true, if_false, Metric.flat, fragMeta, if_true]
    exact leaf_perm _ _ _ m.points

theorem extractMScope_perm (r : RMeta) (sz : Sizer) (cap : Int) (s : MScope) :
    (MScope.flat r (extractMScope true sz cap s).1 ++ MScope.flat r (extractMScope true sz cap s).2.1).Perm (MScope.flat r s) := by
  simp only [extractMScope, MScope.flat]
  refine walk_perm _ _ _ (Metric.flat r s.smeta) ?_ _ s.metrics
  intro st c
  refine cutBy_perm sz _ _ _ _ (extractPoints_perm r s.smeta sz) ?_ st c
  intro a ha
  have : a.points = [] := by
    cases hi : a.points with
    | nil => rfl
    | cons x xs => simp [hi] at ha
  simp [Metric.flat, this]

theorem extractMRes_perm (sz : Sizer) (cap : Int) (r : MRes) :
    (MRes.flat (extractMRes true sz cap r).1 ++ MRes.flat (extractMRes true sz cap r).2.1).Perm (MRes.flat r) := by
  simp only [extractMRes, MRes.flat]
  refine walk_perm _ _ _ (MScope.flat r.rmeta) ?_ _ r.scopes
  intro st c
  refine cutBy_perm sz _ _ _ _ (extractMScope_perm r.rmeta sz) ?_ st c
  intro a ha
  have : a.metrics = [] := by
    cases hi : a.metrics with
    | nil => rfl
    | cons x xs => simp [hi] at ha
  simp [MScope.flat, this]

theorem mextract_perm (sz : Sizer) (cap : Int) (p : List MRes) :
    (mflatten (mextract true sz cap p).1 ++ mflatten (mextract true sz cap p).2.1).Perm (mflatten p) := by
  simp only [mextract, mflatten]
  refine walk_perm _ _ _ MRes.flat ?_ _ p
  intro st c
  refine cutBy_perm sz _ _ _ _ (extractMRes_perm sz) ?_ st c
  intro a ha
  have : a.scopes = [] := by
    cases hi : a.scopes with
    | nil => rfl
    | cons x xs => simp [hi] at ha
  simp [MRes.flat, this]

end OtelVerif.C04
