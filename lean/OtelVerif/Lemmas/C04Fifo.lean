import OtelVerif.Lemmas.C04Bound
/-! C04: `MergeSplit` is FIFO — results, concatenated, list the items in the order they came in (pending batch first).
This is the bridge between the real `mergeSplit` and the contract (`pack`) the batcher theorems are stated over. -/
namespace OtelVerif.C04
open OtelVerif.Payload

theorem walk_stopped_gen {α σ : Type} (stop : σ → Bool) (fits : σ → α → Option σ) (cut : σ → α → Option α × Option α × σ)
    (s : σ) (hs : stop s = true) (l : List α) : walk stop fits cut s l = ⟨[], l, s⟩ := by
  induction l with
  | nil => rfl
  | cons c cs ih => simp [walk, hs, ih]

/-- a pass whose cuts either stop it or concern a child without items splits the flattening into prefix and suffix -/
theorem walk_eq {α σ β : Type} (stop : σ → Bool) (fits : σ → α → Option σ) (cut : σ → α → Option α × Option α × σ)
    (f : α → List β)
    (hcut : ∀ s c, oflat f (cut s c).1 ++ oflat f (cut s c).2.1 = f c ∧ (stop (cut s c).2.2 = true ∨ f c = [])) :
    ∀ (s : σ) (l : List α),
      (walk stop fits cut s l).dest.flatMap f ++ (walk stop fits cut s l).rem.flatMap f = l.flatMap f := by
  intro s l
  induction l generalizing s with
  | nil => simp [walk]
  | cons c cs ih =>
    by_cases hs : stop s = true
    · rw [walk_stopped_gen stop fits cut s hs]; simp
    · have hs' : stop s = false := by simpa using hs
      cases hf : fits s c with
      | some s1 =>
        simp only [walk, hs', Bool.false_eq_true, if_false, hf, List.flatMap_cons, List.append_assoc]
        rw [ih s1]
      | none =>
        have hc := hcut s c
        simp only [walk, hs', Bool.false_eq_true, if_false, hf]
        have e1 : (cut s c).1.toList.flatMap f = oflat f (cut s c).1 := rfl
        have e2 : (cut s c).2.1.toList.flatMap f = oflat f (cut s c).2.1 := rfl
        rcases hc.2 with h | h
        · rw [walk_stopped_gen stop fits cut _ h]
          simp only [List.append_nil, List.flatMap_append, List.flatMap_cons]
          rw [e1, e2, ← List.append_assoc, hc.1]
        · have h12 := hc.1
          rw [h] at h12
          have h1 : oflat f (cut s c).1 = [] := (List.append_eq_nil_iff.mp h12).1
          have h2 : oflat f (cut s c).2.1 = [] := (List.append_eq_nil_iff.mp h12).2
          simp only [List.flatMap_append, List.flatMap_cons, e1, e2, h1, h2, h, List.nil_append]
          exact ih _

theorem leaf_eq {β : Type} (g : Item → β) (fits : St → Item → Option St) (st : St) (items : List Item) :
    (walk stop fits cutLeaf st items).dest.map g ++ (walk stop fits cutLeaf st items).rem.map g = items.map g := by
  simp only [map_eq_flatMap_single]
  exact walk_eq _ _ _ _ (by intro s c; simp [cutLeaf, stop]) st items

theorem cutBy_eq {α β : Type} (sz : Sizer) (size : α → Int) (ext : Int → α → α × α × Int) (nonEmpty : α → Bool)
    (f : α → List β) (hext : ∀ cap c, f (ext cap c).1 ++ f (ext cap c).2.1 = f c)
    (hne : ∀ a, nonEmpty a = false → f a = []) (st : St) (c : α) :
    oflat f (cutBy sz size ext nonEmpty st c).1 ++ oflat f (cutBy sz size ext nonEmpty st c).2.1 = f c ∧
    (stop (cutBy sz size ext nonEmpty st c).2.2 = true ∨ f c = []) := by
  refine ⟨?_, Or.inl (by simp [cutBy, stop])⟩
  simp only [cutBy]
  by_cases h : nonEmpty (ext st.cap c).1 = true
  · simp only [h, if_true, oflat_some]; exact hext st.cap c
  · have h' : nonEmpty (ext st.cap c).1 = false := by simpa using h
    have := hext st.cap c
    rw [hne _ h'] at this
    simpa [h'] using this

theorem extractScope_eq (r : RMeta) (sz : Sizer) (cap : Int) (s : Scope) :
    Scope.flat r (extractScope sz cap s).1 ++ Scope.flat r (extractScope sz cap s).2.1 = Scope.flat r s := by
  simp only [extractScope, Scope.flat]
  exact leaf_eq _ _ _ s.items

theorem extractRes_eq (sz : Sizer) (cap : Int) (r : Res) :
    Res.flat (extractRes sz cap r).1 ++ Res.flat (extractRes sz cap r).2.1 = Res.flat r := by
  simp only [extractRes, Res.flat]
  refine walk_eq _ _ _ (Scope.flat r.rmeta) ?_ _ r.scopes
  intro st c
  refine cutBy_eq sz _ _ _ _ (extractScope_eq r.rmeta sz) ?_ st c
  intro a ha
  have : a.items = [] := by
    cases hi : a.items with
    | nil => rfl
    | cons x xs => simp [hi] at ha
  simp [Scope.flat, this]

theorem extract_eq (sz : Sizer) (cap : Int) (p : List Res) :
    flatten (extract sz cap p).1 ++ flatten (extract sz cap p).2.1 = flatten p := by
  simp only [extract, flatten]
  refine walk_eq _ _ _ Res.flat ?_ _ p
  intro st c
  refine cutBy_eq sz _ _ _ _ (extractRes_eq sz) ?_ st c
  intro a ha
  have : a.scopes = [] := by
    cases hi : a.scopes with
    | nil => rfl
    | cons x xs => simp [hi] at ha
  simp [Res.flat, this]

/-! moveFirst takes the FIRST item -/

theorem mfScope_eq (r : RMeta) (moved : Bool) (s : Scope) :
    oflat (Scope.flat r) (mfScope moved s).1 ++ oflat (Scope.flat r) (mfScope moved s).2.1 = Scope.flat r s ∧
    ((mfScope moved s).2.2 = true ∨ Scope.flat r s = []) := by
  simp only [mfScope]
  cases hi : s.items with
  | nil => simp [Scope.flat, hi]
  | cons c cs =>
    simp only [List.length_cons, moveFirstOf_cons]
    have h0 : (cs.length + 1 == 0) = false := by simp
    simp only [h0, Bool.false_eq_true, if_false, oflat_some]
    refine ⟨?_, Or.inl (by first | rfl | trivial)⟩
    rw [oflat_if_len' (Scope.flat r) cs (fun l => { s with items := l }) (by simp [Scope.flat])]
    simp [Scope.flat, hi]

theorem mfRes_eq (moved : Bool) (r : Res) :
    oflat Res.flat (mfRes moved r).1 ++ oflat Res.flat (mfRes moved r).2.1 = Res.flat r ∧
    ((mfRes moved r).2.2 = true ∨ Res.flat r = []) := by
  simp only [mfRes]
  rw [oflat_if_len' Res.flat _ (fun l => { rmeta := r.rmeta, scopes := l }) (by simp [Res.flat]),
    oflat_if_len Res.flat _ _ (fun l => { r with scopes := l }) (by simp [Res.flat])]
  have he := walk_eq (fun moved => moved) (fun _ _ => none) mfScope (Scope.flat r.rmeta) (mfScope_eq r.rmeta) false r.scopes
  refine ⟨by simpa [Res.flat] using he, ?_⟩
  cases hst : (walk (fun moved => moved) (fun _ _ => none) mfScope false r.scopes).st with
  | true => exact Or.inl rfl
  | false =>
    right
    have := (walk_first mfScope (Scope.flat r.rmeta) (mfScope_first r.rmeta) r.scopes).2 hst
    simpa [Res.flat] using this.2

theorem moveFirst_eq (src dest : List Res) :
    flatten (moveFirst src dest).2.1 ++ flatten (moveFirst src dest).1 = flatten dest ++ flatten src := by
  simp only [moveFirst, flatten, List.flatMap_append, List.append_assoc]
  have := walk_eq (fun moved => moved) (fun _ _ => none) mfRes Res.flat mfRes_eq false src
  rw [this]

/-! the loop -/

structure FifoOps {P β : Type} (o : Ops P) (flat : P → List β) : Prop where
  extract : ∀ cap p, flat (o.extract cap p).1 ++ flat (o.extract cap p).2.1 = flat p
  moveFirst : ∀ s d, flat (o.moveFirst s d).2.1 ++ flat (o.moveFirst s d).1 = flat d ++ flat s
  moveFirst_none : ∀ s d, (o.moveFirst s d).2.2 = false →
    flat (o.moveFirst s d).1 = [] ∧ flat (o.moveFirst s d).2.1 = flat d ∧ flat s = []
  append : ∀ a b, flat (o.append a b) = flat a ++ flat b

theorem splitLoop_fifo {P β : Type} (o : Ops P) (flat : P → List β) (hc : FifoOps o flat) (max : Int) :
    ∀ (fuel : Nat) (req : Req P) (res out : List (Req P)), splitLoop o max fuel req res = some out →
      flatReqs flat out = flatReqs flat res ++ flat req.p := by
  intro fuel
  induction fuel with
  | zero => intro req res out h; simp [splitLoop] at h
  | succ n ih =>
    intro req res out h
    have hp : (req.norm o).p = req.p := rfl
    simp only [splitLoop] at h
    split at h
    · split at h
      · split at h
        · rw [ih _ _ _ h]
          simp only [flatReqs_append, flatReqs_single, List.append_assoc]
          rw [hc.moveFirst, hc.extract, hp]
        · next hmv =>
          injection h with h
          subst h
          have hnil := hc.moveFirst_none (o.extract max (req.norm o).p).2.1 (o.extract max (req.norm o).p).1 (by simpa using hmv)
          have he := hc.extract max (req.norm o).p
          rw [hnil.2.2, List.append_nil] at he
          simp only [flatReqs_append, flatReqs_single, hc.append, hnil.1, hnil.2.1, List.nil_append]
          rw [he, hp]
      · rw [ih _ _ _ h]
        simp only [flatReqs_append, flatReqs_single, List.append_assoc]
        rw [hc.extract, hp]
    · injection h with h
      subst h
      simp [flatReqs_append, flatReqs_single, Req.norm]

theorem logs_fifoOps (sz : Sizer) : FifoOps (logsOps sz) flatten :=
  ⟨extract_eq sz, moveFirst_eq,
   fun s d h => by
     have hf := (moveFirst_first s).2 h
     have hp := moveFirst_perm s d
     have h : (moveFirst s d).2.2 = false := h
     have hrem : flatten (moveFirst s d).1 = [] := by
       have := hp.length_eq
       simp only [moveFirst, flatten, List.flatMap_append, List.length_append] at this hf ⊢
       rw [hf.2] at this
       apply List.eq_nil_of_length_eq_zero
       simp only [List.length_nil] at this
       rw [hf.1] at this
       simp only [List.length_nil] at this
       omega
     refine ⟨hrem, ?_, hf.2⟩
     show flatten (moveFirst s d).2.1 = flatten d
     simp only [moveFirst, flatten, List.flatMap_append] at hf ⊢
     rw [hf.1, List.append_nil],
   by intro a b; simp [logsOps, flatten]⟩

end OtelVerif.C04
