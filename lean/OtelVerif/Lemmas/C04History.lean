import OtelVerif.Lemmas.C04Cover
import OtelVerif.Lemmas.C04Walk
/-! C04: conservation of units through every history of the batcher -/
namespace OtelVerif.C04
open OtelVerif.Payload

/-- every unit in the pending batch or in a flight -/
def BState.units (s : BState) : Parts := s.slots.flatMap (·.1)

/-- units of the requests a history consumes, in order -/
def consumedUnits : List BLabel → Parts
  | [] => []
  | .consume _ units :: ls => units ++ consumedUnits ls
  | _ :: ls => consumedUnits ls

/-- the batches whose export finished during a history (with the state the history starts from) -/
def finishedParts (c : BCfg) : BState → List BLabel → List Parts
  | _, [] => []
  | s, l :: ls =>
    (match l with
     | .finish fid _ => ((s.flights.find? (fun f => f.fid = fid)).toList.map (·.parts))
     | _ => []) ++ finishedParts c (bstep c s l).1 ls

theorem dropLast_getLast (l : List Parts) (h : 0 < l.length) : l.dropLast ++ [l.getLast?.getD []] = l := by
  have hne : l ≠ [] := List.length_pos_iff.mp h
  rw [List.getLast?_eq_some_getLast hne]
  exact List.dropLast_concat_getLast hne

theorem consumeMerge_units (m1 : BState) (d : DoneObj) (dones : List DoneObj) (fhn ff small : Bool) (first last : Parts)
    (rest : List Parts) (hs : small = true → 0 < rest.length ∧ last = rest.getLast?.getD []) (hf : ff = false → rest = []) :
    (((match (consumeMerge m1 d dones fhn ff small first last rest).1.cur with | some b => [b] | none => []) ++
        (consumeMerge m1 d dones fhn ff small first last rest).2).flatMap (·.1)).Perm (first ++ rest.flatten) := by
  cases ff with
  | false =>
    have hr := hf rfl
    subst hr
    have : small = false := by
      cases small with
      | false => rfl
      | true => have := (hs rfl).1; simp at this
    subst this
    simp [consumeMerge]
  | true =>
    cases small with
    | false =>
      simp only [consumeMerge, if_true, Bool.false_eq_true, if_false, List.nil_append, List.cons_append, List.flatMap_cons]
      have : (rest.map (fun r => (r, [d]))).flatMap (·.1) = rest.flatten := by
        induction rest with
        | nil => rfl
        | cons a l ih => simp [ih]
      rw [this]
    | true =>
      have h := hs rfl
      simp only [consumeMerge, if_true, List.cons_append, List.nil_append, List.flatMap_cons]
      have hm : ∀ l : List Parts, (l.map (fun r => (r, [d]))).flatMap (·.1) = l.flatten := by
        intro l; induction l with
        | nil => rfl
        | cons a l ih => simp [ih]
      rw [hm]
      have hd := dropLast_getLast rest h.1
      rw [← h.2] at hd
      have : rest.flatten = rest.dropLast.flatten ++ last := by
        conv => lhs; rw [← hd]
        simp
      rw [this]
      exact (perm_mid last first rest.dropLast.flatten).trans (List.Perm.append_left _ List.perm_append_comm)

theorem start_units (s : BState) (fl : List (Parts × List DoneObj)) : (s.start fl).units = s.units ++ fl.flatMap (·.1) := by
  simp [BState.units, start_slots]

theorem consume_units (c : BCfg) (s : BState) (id : Nat) (units : Parts) :
    ((s.consume c id units).1.start (s.consume c id units).2).units.Perm (s.units ++ units) := by
  rw [start_units]
  cases hcur : s.cur with
  | none =>
    have hfl := mergeSplit_flatten c.max units []
    have hlen := mergeSplit_len_pos c.max units []
    have hmf := mkDone_flights s id (partsMergeSplit c.max units []).length
    have hm : ∀ (d : DoneObj) (l : List Parts), (l.map (fun r => (r, [d]))).flatMap (·.1) = l.flatten := by
      intro d l; induction l with
      | nil => rfl
      | cons a l ih => simp [ih]
    simp only [BState.consume, hcur]
    split
    · simp only [BState.units, BState.slots, hmf.1, List.flatMap_append, List.flatMap_cons, List.flatMap_nil, List.append_nil, hm]
      simp only [hcur, List.flatMap_nil, List.nil_append]
      have hd := dropLast_getLast (partsMergeSplit c.max units []) hlen
      have : units = (partsMergeSplit c.max units []).dropLast.flatten ++ (partsMergeSplit c.max units []).getLast?.getD [] := by
        have := hfl
        rw [← hd] at this
        simpa using this.symm
      conv => rhs; rw [this]
      -- (L ++ F) ++ D ~ F ++ (D ++ L)
      apply List.perm_iff_count.mpr
      intro a
      simp only [List.count_append]
      omega
    · simp only [BState.units, BState.slots, hmf.1, hmf.2.2, hcur, List.flatMap_append, hm, List.flatMap_nil, List.nil_append, hfl,
        List.append_nil]
      exact List.Perm.refl _
  | some cd =>
    obtain ⟨cur, dones⟩ := cd
    have hfl := mergeSplit_flatten c.max cur units
    have hlen := mergeSplit_len_pos c.max cur units
    simp only [BState.consume, hcur]
    generalize hrl : partsMergeSplit c.max cur units = rl at hfl hlen ⊢
    generalize (rl.length == 1 || decide ((rl.head?.getD []).count > cur.count)) = fhn
    generalize hff : (decide (rl.length > 1) || decide ((rl.head?.getD []).items ≥ c.min)) = ff
    generalize hsm : (decide ((rl.drop 1).length > 0) && decide (((rl.drop 1).getLast?.getD []).items < c.min)) = small
    generalize hmk : s.mkDone id (if fhn = true then rl.length else rl.length - 1) = m
    have hmfl : m.1.flights = s.flights := by rw [← hmk]; exact (mkDone_flights s id _).1
    have hcu := consumeMerge_units m.1 m.2 dones fhn ff small (rl.head?.getD []) ((rl.drop 1).getLast?.getD []) (rl.drop 1)
      (by intro h; rw [h] at hsm; simp only [Bool.and_eq_true, decide_eq_true_eq] at hsm; exact ⟨hsm.1, rfl⟩)
      (by intro h; rw [h] at hff
          simp only [Bool.or_eq_false_iff, decide_eq_false_iff_not] at hff
          apply List.eq_nil_of_length_eq_zero; simp; omega)
    have hcs := consumeMerge_spec m.1 m.2 dones fhn ff small (rl.head?.getD []) ((rl.drop 1).getLast?.getD []) (rl.drop 1)
      (by intro h; rw [h] at hsm; simp only [Bool.and_eq_true, decide_eq_true_eq] at hsm; exact hsm.1)
      (by intro h; rw [h] at hff
          simp only [Bool.or_eq_false_iff, decide_eq_false_iff_not] at hff
          apply List.eq_nil_of_length_eq_zero; simp; omega)
    have hrlsplit : rl.head?.getD [] ++ (rl.drop 1).flatten = cur ++ units := by
      cases rl with
      | nil => simp at hlen
      | cons a l => simpa using hfl
    rw [hrlsplit] at hcu
    simp only [BState.units, BState.slots, hcs.1, hmfl, hcur, List.flatMap_append, List.flatMap_cons, List.flatMap_nil,
      List.append_nil] at hcu ⊢
    -- (C ++ F) ++ N ~ (cur ++ F) ++ units   from   C ++ N ~ cur ++ units
    refine (List.perm_append_comm.trans ?_)
    rw [← List.append_assoc]
    refine (List.Perm.append_right _ (List.perm_append_comm.trans hcu)).trans ?_
    rw [List.append_assoc, List.append_assoc]
    exact List.Perm.append_left _ List.perm_append_comm


theorem flush_units (s : BState) : (s.flushCur.1.start s.flushCur.2).units.Perm s.units := by
  rw [start_units]
  cases hcur : s.cur with
  | none => simp [BState.flushCur, hcur]
  | some pd =>
    obtain ⟨p, ds⟩ := pd
    simp only [BState.flushCur, hcur, BState.units, BState.slots, List.flatMap_append, List.flatMap_cons, List.flatMap_nil,
      List.append_nil, List.nil_append]
    exact List.perm_append_comm

theorem filter_fid_parts (l : List Flight) (f : Flight) (hf : f ∈ l) (hnd : (l.map (·.fid)).Nodup) :
    (l.flatMap (·.parts)).Perm (f.parts ++ (l.filter (fun g => g.fid ≠ f.fid)).flatMap (·.parts)) := by
  induction l with
  | nil => simp at hf
  | cons a l ih =>
    simp only [List.map_cons, List.nodup_cons] at hnd
    by_cases e : a.fid = f.fid
    · have hfa : f = a := by
        rcases List.mem_cons.mp hf with h | h
        · exact h
        · exfalso; apply hnd.1; rw [e]; exact List.mem_map.mpr ⟨f, h, rfl⟩
      subst hfa
      have hrest : l.filter (fun g => decide (g.fid ≠ f.fid)) = l := by
        apply List.filter_eq_self.mpr
        intro g hg
        apply decide_eq_true
        intro hh
        apply hnd.1
        rw [← hh]
        exact List.mem_map.mpr ⟨g, hg, rfl⟩
      have hpa : decide (f.fid ≠ f.fid) = false := by simp
      have hc : (f :: l).filter (fun g => decide (g.fid ≠ f.fid)) = l := by
        rw [List.filter_cons]; simp only [hpa, Bool.false_eq_true, if_false]; exact hrest
      rw [hc]
      simp
    · have hfl : f ∈ l := by
        rcases List.mem_cons.mp hf with h | h
        · exact absurd (by rw [h]) e
        · exact h
      have := ih hfl hnd.2
      have hpa : decide (a.fid ≠ f.fid) = true := decide_eq_true e
      have hc : (a :: l).filter (fun g => decide (g.fid ≠ f.fid)) = a :: l.filter (fun g => decide (g.fid ≠ f.fid)) := by
        rw [List.filter_cons]; simp only [hpa, if_true]
      rw [hc]
      simp only [List.flatMap_cons]
      exact (List.Perm.append_left _ this).trans (perm_mid _ _ _)

theorem finish_units (s : BState) (fid : Nat) (err : Err) (hok : FOK s) :
    ((s.finish fid err).1.units ++ ((s.flights.find? (fun f => f.fid = fid)).toList.map (·.parts)).flatten).Perm s.units := by
  cases hfind : s.flights.find? (fun f => f.fid = fid) with
  | none =>
    have : s.finish fid err = (s, []) := by simp [BState.finish, hfind]
    rw [this]; simp
  | some f =>
    have hfm : f ∈ s.flights := List.mem_of_find?_eq_some hfind
    have hfid : f.fid = fid := by simpa using List.find?_some hfind
    have e : s.finish fid err = (({ s with refs := (onDoneAll s.refs err f.dones).1, flights := s.flights.filter (fun g => g.fid ≠ fid) } : BState),
        (onDoneAll s.refs err f.dones).2) := by
      simp [BState.finish, hfind]
    rw [e]
    have hp := filter_fid_parts s.flights f hfm hok.1
    rw [hfid] at hp
    have hm : ∀ l : List Flight, (l.map (fun f => (f.parts, f.dones))).flatMap (·.1) = l.flatMap (·.parts) := by
      intro l; induction l with
      | nil => rfl
      | cons a l ih => simp [ih]
    simp only [BState.units, BState.slots, List.flatMap_append, hm, Option.toList, List.map_cons, List.map_nil,
      List.flatten_cons, List.flatten_nil, List.append_nil]
    rw [List.append_assoc]
    refine List.Perm.append_left _ ?_
    exact (List.perm_append_comm).trans hp.symm

/-- **conservation through every history of the batcher**: whatever sequence of requests is consumed and whichever flushes
have ended, every unit of every consumed request is — exactly once — in the pending batch, in a batch in flight, or in a
batch whose export has finished -/
theorem brun_units (c : BCfg) : ∀ (ls : List BLabel) (s : BState), FOK s →
    ((brun c s ls).1.units ++ (finishedParts c s ls).flatten).Perm (s.units ++ consumedUnits ls) ∧ FOK (brun c s ls).1 := by
  intro ls
  induction ls with
  | nil => intro s h; simp [brun, finishedParts, consumedUnits, h]
  | cons l ls ih =>
    intro s hok
    simp only [brun, finishedParts]
    cases l with
    | consume id units =>
      have hk : FOK ((s.consume c id units).1.start (s.consume c id units).2) := by
        have hsp := consume_spec c s id units
        apply (start_spec _ _).2.2.2
        refine ⟨by rw [hsp.1]; exact hok.1, ?_⟩
        intro f hf; rw [hsp.1] at hf; rw [hsp.2.1]; exact hok.2 f hf
      have r := ih _ hk
      refine ⟨?_, r.2⟩
      simp only [bstep, List.nil_append, consumedUnits]
      refine r.1.trans ?_
      rw [← List.append_assoc]
      exact List.Perm.append_right _ (consume_units c s id units)
    | flush =>
      have hk : FOK (s.flushCur.1.start s.flushCur.2) := by
        apply (start_spec _ _).2.2.2
        cases hcur : s.cur with
        | none => simpa [BState.flushCur, hcur] using hok
        | some pd => obtain ⟨p, ds⟩ := pd; simpa [BState.flushCur, hcur, FOK] using hok
      have r := ih _ hk
      refine ⟨?_, r.2⟩
      simp only [bstep, List.nil_append, consumedUnits]
      exact r.1.trans (List.Perm.append_right _ (flush_units s))
    | finish fid err =>
      have hk : FOK (s.finish fid err).1 := by
        cases hfind : s.flights.find? (fun f => f.fid = fid) with
        | none =>
          have : s.finish fid err = (s, []) := by simp [BState.finish, hfind]
          rw [this]; exact hok
        | some f =>
          have e : s.finish fid err = (({ s with refs := (onDoneAll s.refs err f.dones).1, flights := s.flights.filter (fun g => g.fid ≠ fid) } : BState),
              (onDoneAll s.refs err f.dones).2) := by simp [BState.finish, hfind]
          rw [e]
          exact ⟨List.Nodup.sublist (List.Sublist.map _ List.filter_sublist) hok.1, fun g hg => hok.2 g (List.mem_filter.mp hg).1⟩
      have r := ih _ hk
      refine ⟨?_, r.2⟩
      simp only [bstep, consumedUnits, List.flatten_append]
      have hf := finish_units s fid err hok
      -- U' ++ (Ff ++ Fr) ~ (U' ++ Fr) ++ Ff ~ (S' ++ C) ++ Ff ~ (S' ++ Ff) ++ C ~ S ++ C
      apply List.perm_iff_count.mpr
      intro a
      have h1 := List.perm_iff_count.mp r.1 a
      have h2 := List.perm_iff_count.mp hf a
      simp only [List.count_append] at h1 h2 ⊢
      omega

end OtelVerif.C04
