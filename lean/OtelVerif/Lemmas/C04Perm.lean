import OtelVerif.Model.Payload
/-! the drivers' multiset oracle `permB` (erase-based) decides `List.Perm` exactly -/
namespace OtelVerif.Payload

theorem permB_sound {β : Type} [DecidableEq β] : ∀ (l₁ l₂ : List β), permB l₁ l₂ = true → l₁.Perm l₂
  | [], l₂, h => by
    simp only [permB, List.isEmpty_iff] at h
    subst h; exact List.Perm.refl _
  | a :: l₁, l₂, h => by
    simp only [permB, Bool.and_eq_true, List.contains_iff_mem] at h
    have ih := permB_sound l₁ (l₂.erase a) h.2
    exact (List.Perm.cons a ih).trans (List.perm_cons_erase h.1).symm

theorem permB_complete {β : Type} [DecidableEq β] : ∀ (l₁ l₂ : List β), l₁.Perm l₂ → permB l₁ l₂ = true
  | [], l₂, h => by
    have := h.symm.eq_nil
    simp [permB, this]
  | a :: l₁, l₂, h => by
    have hm : a ∈ l₂ := h.subset (List.mem_cons_self)
    simp only [permB, Bool.and_eq_true, List.contains_iff_mem]
    refine ⟨hm, permB_complete l₁ (l₂.erase a) ?_⟩
    have := (List.perm_cons_erase hm)
    exact (List.Perm.cons_inv (h.trans this))

end OtelVerif.Payload
