import OtelVerif.Lemmas.C04Split
/-!
Conservation for BOTH metric fragment constructions (`keep = metricFragmentKeepsIdentity`): whatever the flag, every
data point is conserved exactly once with its resource, scope, both schema URLs and metric *type*, and its metric
identity is the source's or the anonymous typed fragment's.
-/
namespace OtelVerif.C04
open OtelVerif.Payload

/-- the identity of the fragment the pinned `extract*DataPoints` build: only the type -/
def anonMeta (m : MMeta) : MMeta := { zeroMMeta with ty := m.ty }
/-- a data point's context with the metric reduced to its type -/
def anon (c : MCtx) : MCtx := (c.1, c.2.1, anonMeta c.2.2.1, c.2.2.2)

theorem anonMeta_frag (keep : Bool) (m : MMeta) : anonMeta (fragMeta keep m) = anonMeta m := by
  cases keep <;> simp [fragMeta, anonMeta, zeroMMeta]

theorem anon_anon (c : MCtx) : anon (anon c) = anon c := by simp [anon, anonMeta, zeroMMeta]

/-- flattening with the metric reduced to its type -/
def wflatten (p : List MRes) : List MCtx := (mflatten p).map anon

/-! ### part 1: the multiset of (resource, scope, schema URLs, metric type, point) is conserved, for either flag -/

theorem extractPoints_wperm (keep : Bool) (r : RMeta) (sm : SMeta) (sz : Sizer) (cap : Int) (m : Metric) :
    ((Metric.flat r sm (extractPoints keep sz cap m).1).map anon ++ (Metric.flat r sm (extractPoints keep sz cap m).2.1).map anon).Perm
      ((Metric.flat r sm m).map anon) := by
  simp only [extractPoints]
  by_cases h : (m.mmeta.ty == 0) = true
  · simp [h, Metric.flat]
  · simp only [h, Bool.false_eq_true, if_false, Metric.flat, List.map_map]
    have e : (anon ∘ fun i => (r, sm, fragMeta keep m.mmeta, i)) = (anon ∘ fun i => (r, sm, m.mmeta, i)) := by
      funext i; simp [anon, anonMeta_frag]
    rw [e]
    exact leaf_perm _ _ _ m.points

theorem sov_nonneg (n : Int) : 0 ≤ sov n := by
  unfold sov
  split
  · omega
  · exact Int.natCast_nonneg _

theorem isum_nonneg (l : List Int) (h : ∀ x ∈ l, 0 ≤ x) : 0 ≤ isum l := by
  induction l with
  | nil => simp [isum]
  | cons a l ih =>
    simp only [isum, List.foldr_cons]
    have h1 := h a (by simp)
    have h2 := ih (fun x hx => h x (by simp [hx]))
    simp only [isum] at h2
    omega

theorem sumD_bytes_nonneg {α : Type} (f : α → Int) (hf : ∀ c, 0 ≤ f c) (l : List α) : 0 ≤ sumD ⟨true⟩ f l := by
  apply isum_nonneg
  intro x hx
  simp only [List.mem_map] at hx
  obtain ⟨c, _, rfl⟩ := hx
  have := sov_nonneg (f c)
  have := hf c
  simp only [Sizer.delta, if_true]
  omega

theorem sumD_count_points (l : List Item) : sumD ⟨false⟩ (pointSize ⟨false⟩) l = (l.length : Int) := by
  induction l with
  | nil => simp [sumD, isum]
  | cons a l ih =>
    simp only [sumD, isum, List.map_cons, List.foldr_cons] at ih ⊢
    rw [ih]
    simp [Sizer.delta, pointSize]
    omega

/-- a typed metric with the anonymous identity has a positive size under the bytes sizer, and the number of its points
under the items sizer -/
theorem frag_size_pos (sz : Sizer) (m : MMeta) (pts : List Item) (hty : (m.ty == 0) = false)
    (h : ¬ metricSize sz { mmeta := fragMeta false m, points := pts } > 0) : pts = [] := by
  cases sz with
  | mk b =>
    cases b with
    | true =>
      exfalso
      apply h
      have hs := sumD_bytes_nonneg (pointSize ⟨true⟩) (fun c => by simp [pointSize]) pts
      have hv := sov_nonneg (sumD ⟨true⟩ (pointSize ⟨true⟩) pts)
      have e : metricSize ⟨true⟩ { mmeta := fragMeta false m, points := pts } =
          1 + sumD ⟨true⟩ (pointSize ⟨true⟩) pts + sov (sumD ⟨true⟩ (pointSize ⟨true⟩) pts) := by
        simp [metricSize, fragMeta, zeroMMeta, hty, Sizer.delta]
      rw [e]
      omega
    | false =>
      simp only [metricSize, Bool.false_eq_true, if_false, sumD_count_points] at h
      cases pts with
      | nil => rfl
      | cons a l => simp at h; first | omega | skip

theorem extractMScope_wperm (keep : Bool) (r : RMeta) (sz : Sizer) (cap : Int) (s : MScope) :
    ((MScope.flat r (extractMScope keep sz cap s).1).map anon ++ (MScope.flat r (extractMScope keep sz cap s).2.1).map anon).Perm
      ((MScope.flat r s).map anon) := by
  simp only [extractMScope, MScope.flat, List.map_flatMap]
  refine walk_perm _ _ _ (fun m => (Metric.flat r s.smeta m).map anon) ?_ _ s.metrics
  intro st c
  refine cutBy_perm' sz _ _ _ _ (extractPoints_wperm keep r s.smeta sz) ?_ st c
  intro cap m ha
  -- a fragment that is not added to the batch has no points (repaired: tested directly; pinned: its size is 0)
  simp only [extractPoints] at ha ⊢
  by_cases hty : (m.mmeta.ty == 0) = true
  · simp [hty, Metric.flat]
  · have hty' : (m.mmeta.ty == 0) = false := by simpa using hty
    simp only [hty, Bool.false_eq_true, if_false] at ha ⊢
    have hp : (walk stop (fitsBy sz (pointSize sz)) cutLeaf
        ⟨innerCap sz cap (metricSize sz { mmeta := fragMeta keep m.mmeta, points := [] }) - (sz.delta cap - cap), 0⟩ m.points).dest = [] := by
      cases keep with
      | true =>
        cases hi : (walk stop (fitsBy sz (pointSize sz)) cutLeaf
          ⟨innerCap sz cap (metricSize sz { mmeta := fragMeta true m.mmeta, points := [] }) - (sz.delta cap - cap), 0⟩ m.points).dest with
        | nil => rfl
        | cons x xs => simp [hi] at ha
      | false =>
        apply frag_size_pos sz m.mmeta _ hty'
        simpa using ha
    simp [Metric.flat, hp]

theorem extractMRes_wperm (keep : Bool) (sz : Sizer) (cap : Int) (r : MRes) :
    ((MRes.flat (extractMRes keep sz cap r).1).map anon ++ (MRes.flat (extractMRes keep sz cap r).2.1).map anon).Perm
      ((MRes.flat r).map anon) := by
  simp only [extractMRes, MRes.flat, List.map_flatMap]
  refine walk_perm _ _ _ (fun s => (MScope.flat r.rmeta s).map anon) ?_ _ r.scopes
  intro st c
  refine cutBy_perm sz _ _ _ _ (extractMScope_wperm keep r.rmeta sz) ?_ st c
  intro a ha
  have : a.metrics = [] := by
    cases hi : a.metrics with
    | nil => rfl
    | cons x xs => simp [hi] at ha
  simp [MScope.flat, this]

theorem mextract_wperm (keep : Bool) (sz : Sizer) (cap : Int) (p : List MRes) :
    (wflatten (mextract keep sz cap p).1 ++ wflatten (mextract keep sz cap p).2.1).Perm (wflatten p) := by
  simp only [mextract, wflatten, mflatten, List.map_flatMap]
  refine walk_perm _ _ _ (fun r => (MRes.flat r).map anon) ?_ _ p
  intro st c
  refine cutBy_perm sz _ _ _ _ (extractMRes_wperm keep sz) ?_ st c
  intro a ha
  have : a.scopes = [] := by
    cases hi : a.scopes with
    | nil => rfl
    | cons x xs => simp [hi] at ha
  simp [MRes.flat, this]

theorem metrics_wconserves (keep : Bool) (sz : Sizer) : Conserves (metricsOps keep sz) wflatten :=
  ⟨mextract_wperm keep sz,
   fun s d => by
     have := (mmoveFirst_perm s d).map anon
     simpa [wflatten, metricsOps] using this,
   fun a b => by simp [metricsOps, wflatten, mflatten]⟩

/-! ### part 2: every output context is a source context or the anonymous version of one -/

/-- `c` is an element of `src`, or the anonymous-fragment version of one -/
def Allowed (src : List MCtx) (c : MCtx) : Prop := c ∈ src ∨ ∃ c' ∈ src, c = anon c'

theorem Allowed.mono {src src' : List MCtx} {c : MCtx} (h : Allowed src c) (hs : ∀ x ∈ src, x ∈ src') : Allowed src' c := by
  rcases h with h | ⟨c', h, e⟩
  · exact Or.inl (hs _ h)
  · exact Or.inr ⟨c', hs _ h, e⟩

theorem Allowed.trans {src mid : List MCtx} {c : MCtx} (h : Allowed mid c) (hm : ∀ x ∈ mid, Allowed src x) : Allowed src c := by
  rcases h with h | ⟨c', h, e⟩
  · exact hm _ h
  · rcases hm _ h with h' | ⟨c'', h', e'⟩
    · exact Or.inr ⟨c', h', e⟩
    · exact Or.inr ⟨c'', h', by rw [e, e', anon_anon]⟩

theorem Allowed.of_perm {src l : List MCtx} (h : l.Perm src) : ∀ c ∈ l, Allowed src c :=
  fun c hc => Or.inl (h.subset hc)

/-- one pass keeps every context allowed if cutting a child does -/
theorem walk_allowed {α σ : Type} (stop : σ → Bool) (fits : σ → α → Option σ) (cut : σ → α → Option α × Option α × σ)
    (f : α → List MCtx)
    (hcut : ∀ s c, ∀ x ∈ oflat f (cut s c).1 ++ oflat f (cut s c).2.1, Allowed (f c) x) :
    ∀ (s : σ) (l : List α), ∀ x ∈ (walk stop fits cut s l).dest.flatMap f ++ (walk stop fits cut s l).rem.flatMap f,
      Allowed (l.flatMap f) x := by
  intro s l
  induction l generalizing s with
  | nil => intro x hx; simp [walk] at hx
  | cons c cs ih =>
    intro x hx
    simp only [walk] at hx
    have here : ∀ y, Allowed (f c) y → Allowed ((c :: cs).flatMap f) y :=
      fun y hy => hy.mono (fun z hz => by simp [List.flatMap_cons, hz])
    have there : ∀ y, Allowed (cs.flatMap f) y → Allowed ((c :: cs).flatMap f) y :=
      fun y hy => hy.mono (fun z hz => by simp only [List.flatMap_cons, List.mem_append]; exact Or.inr hz)
    split at hx
    · simp only [List.flatMap_cons, List.mem_append] at hx
      rcases hx with h | h | h
      · exact there x (ih s x (List.mem_append.mpr (Or.inl h)))
      · exact here x (Or.inl h)
      · exact there x (ih s x (List.mem_append.mpr (Or.inr h)))
    · split at hx
      · next s1 _ =>
        simp only [List.flatMap_cons, List.mem_append] at hx
        rcases hx with (h | h) | h
        · exact here x (Or.inl h)
        · exact there x (ih s1 x (List.mem_append.mpr (Or.inl h)))
        · exact there x (ih s1 x (List.mem_append.mpr (Or.inr h)))
      · simp only [List.flatMap_append, List.mem_append] at hx
        rcases hx with (h | h) | (h | h)
        · exact here x (hcut s c x (List.mem_append.mpr (Or.inl h)))
        · exact there x (ih _ x (List.mem_append.mpr (Or.inl h)))
        · exact here x (hcut s c x (List.mem_append.mpr (Or.inr h)))
        · exact there x (ih _ x (List.mem_append.mpr (Or.inr h)))

theorem cutBy_allowed {α : Type} (sz : Sizer) (size : α → Int) (ext : Int → α → α × α × Int) (nonEmpty : α → Bool)
    (f : α → List MCtx)
    (hext : ∀ cap c, ∀ x ∈ f (ext cap c).1 ++ f (ext cap c).2.1, Allowed (f c) x) (st : St) (c : α) :
    ∀ x ∈ oflat f (cutBy sz size ext nonEmpty st c).1 ++ oflat f (cutBy sz size ext nonEmpty st c).2.1, Allowed (f c) x := by
  intro x hx
  simp only [cutBy] at hx
  apply hext st.cap c x
  by_cases h : nonEmpty (ext st.cap c).1 = true
  · simpa [h] using hx
  · have h' : nonEmpty (ext st.cap c).1 = false := by simpa using h
    simp only [h', Bool.false_eq_true, if_false, oflat_none, oflat_some, List.nil_append] at hx
    exact List.mem_append.mpr (Or.inr hx)

theorem extractPoints_allowed (keep : Bool) (r : RMeta) (sm : SMeta) (sz : Sizer) (cap : Int) (m : Metric) :
    ∀ x ∈ Metric.flat r sm (extractPoints keep sz cap m).1 ++ Metric.flat r sm (extractPoints keep sz cap m).2.1,
      Allowed (Metric.flat r sm m) x := by
  intro x hx
  simp only [extractPoints] at hx
  by_cases h : (m.mmeta.ty == 0) = true
  · simp only [h, if_true, Metric.flat, List.map_nil, List.nil_append] at hx
    exact Or.inl (by simpa [Metric.flat] using hx)
  · simp only [h, Bool.false_eq_true, if_false, Metric.flat, List.mem_append, List.mem_map] at hx
    have hp := leaf_perm (fun i => i) (fitsBy sz (pointSize sz))
      ⟨innerCap sz cap (metricSize sz { mmeta := fragMeta keep m.mmeta, points := [] }) - (sz.delta cap - cap), 0⟩ m.points
    simp only [List.map_id'] at hp
    rcases hx with ⟨i, hi, rfl⟩ | ⟨i, hi, rfl⟩
    · have him : i ∈ m.points := hp.subset (List.mem_append.mpr (Or.inl hi))
      cases keep with
      | true => exact Or.inl (by simp only [Metric.flat, fragMeta, if_true, List.mem_map]; exact ⟨i, him, rfl⟩)
      | false =>
        refine Or.inr ⟨(r, sm, m.mmeta, i), by simp only [Metric.flat, List.mem_map]; exact ⟨i, him, rfl⟩, ?_⟩
        simp [anon, anonMeta, fragMeta]
    · have him : i ∈ m.points := hp.subset (List.mem_append.mpr (Or.inr hi))
      exact Or.inl (by simp only [Metric.flat, List.mem_map]; exact ⟨i, him, rfl⟩)

theorem extractMScope_allowed (keep : Bool) (r : RMeta) (sz : Sizer) (cap : Int) (s : MScope) :
    ∀ x ∈ MScope.flat r (extractMScope keep sz cap s).1 ++ MScope.flat r (extractMScope keep sz cap s).2.1,
      Allowed (MScope.flat r s) x := by
  simp only [extractMScope, MScope.flat]
  exact walk_allowed _ _ _ (Metric.flat r s.smeta)
    (fun st c => cutBy_allowed sz _ _ _ _ (extractPoints_allowed keep r s.smeta sz) st c) _ s.metrics

theorem extractMRes_allowed (keep : Bool) (sz : Sizer) (cap : Int) (r : MRes) :
    ∀ x ∈ MRes.flat (extractMRes keep sz cap r).1 ++ MRes.flat (extractMRes keep sz cap r).2.1, Allowed (MRes.flat r) x := by
  simp only [extractMRes, MRes.flat]
  exact walk_allowed _ _ _ (MScope.flat r.rmeta)
    (fun st c => cutBy_allowed sz _ _ _ _ (extractMScope_allowed keep r.rmeta sz) st c) _ r.scopes

theorem mextract_allowed (keep : Bool) (sz : Sizer) (cap : Int) (p : List MRes) :
    ∀ x ∈ mflatten (mextract keep sz cap p).1 ++ mflatten (mextract keep sz cap p).2.1, Allowed (mflatten p) x := by
  simp only [mextract, mflatten]
  exact walk_allowed _ _ _ MRes.flat
    (fun st c => cutBy_allowed sz _ _ _ _ (extractMRes_allowed keep sz) st c) _ p

/-- the split loop keeps every context allowed -/
theorem splitLoop_allowed (keep : Bool) (sz : Sizer) (max : Int) :
    ∀ (fuel : Nat) (req : Req (List MRes)) (res out : List (Req (List MRes))),
      splitLoop (metricsOps keep sz) max fuel req res = some out →
      ∀ x ∈ flatReqs mflatten out, Allowed (flatReqs mflatten res ++ mflatten req.p) x := by
  intro fuel
  induction fuel with
  | zero => intro req res out h; simp [splitLoop] at h
  | succ n ih =>
    intro req res out h x hx
    simp only [splitLoop] at h
    have hex := mextract_allowed keep sz max (req.norm (metricsOps keep sz)).p
    have hp : (req.norm (metricsOps keep sz)).p = req.p := rfl
    rw [hp] at hex
    split at h
    · split at h
      · split at h
        · have := ih _ _ _ h x hx
          refine this.trans ?_
          intro y hy
          simp only [flatReqs_append, flatReqs_single, List.mem_append] at hy
          have hm := mmoveFirst_perm (mextract keep sz max req.p).2.1 (mextract keep sz max req.p).1
          rcases hy with (hy | hy) | hy
          · exact Or.inl (List.mem_append.mpr (Or.inl hy))
          · have : y ∈ mflatten (mextract keep sz max req.p).2.1 ++ mflatten (mextract keep sz max req.p).1 :=
              hm.subset (List.mem_append.mpr (Or.inr hy))
            have := hex y (List.perm_append_comm.subset this)
            exact this.mono (fun z hz => List.mem_append.mpr (Or.inr hz))
          · have : y ∈ mflatten (mextract keep sz max req.p).2.1 ++ mflatten (mextract keep sz max req.p).1 :=
              hm.subset (List.mem_append.mpr (Or.inl hy))
            have := hex y (List.perm_append_comm.subset this)
            exact this.mono (fun z hz => List.mem_append.mpr (Or.inr hz))
        · injection h with h
          subst h
          simp only [flatReqs_append, flatReqs_single, List.mem_append] at hx
          rcases hx with hx | hx
          · exact Or.inl (List.mem_append.mpr (Or.inl hx))
          · have hm := mmoveFirst_perm (mextract keep sz max req.p).2.1 (mextract keep sz max req.p).1
            have hx' : x ∈ mflatten (mmoveFirst (mextract keep sz max req.p).2.1 (mextract keep sz max req.p).1).1 ++
                mflatten (mmoveFirst (mextract keep sz max req.p).2.1 (mextract keep sz max req.p).1).2.1 := by
              simpa [metricsOps, mflatten, Req.norm] using hx
            have := hex x (List.perm_append_comm.subset (hm.subset hx'))
            exact this.mono (fun z hz => List.mem_append.mpr (Or.inr hz))
      · have := ih _ _ _ h x hx
        refine this.trans ?_
        intro y hy
        simp only [flatReqs_append, flatReqs_single, List.mem_append] at hy
        rcases hy with (hy | hy) | hy
        · exact Or.inl (List.mem_append.mpr (Or.inl hy))
        · exact (hex y (List.mem_append.mpr (Or.inl hy))).mono (fun z hz => List.mem_append.mpr (Or.inr hz))
        · exact (hex y (List.mem_append.mpr (Or.inr hy))).mono (fun z hz => List.mem_append.mpr (Or.inr hz))
    · injection h with h
      subst h
      simp only [flatReqs_append, flatReqs_single, List.mem_append, Req.norm] at hx
      exact Or.inl (List.mem_append.mpr hx)

end OtelVerif.C04
