import OtelVerif.Lemmas.C04Term
/-! lemmas for C04: `removedSize` is exactly what the source shrinks by (cached size stays exact) -/
namespace OtelVerif.C04
open OtelVerif.Payload

theorem isum_cons (a : Int) (l : List Int) : isum (a :: l) = a + isum l := rfl
theorem isum_append (a b : List Int) : isum (a ++ b) = isum a + isum b := by
  induction a with
  | nil => simp [isum]
  | cons x xs ih => simp only [List.cons_append, isum_cons, ih]; omega

theorem sumD_nil {α : Type} (sz : Sizer) (f : α → Int) : sumD sz f [] = 0 := rfl
theorem sumD_cons {α : Type} (sz : Sizer) (f : α → Int) (a : α) (l : List α) :
    sumD sz f (a :: l) = sz.delta (f a) + sumD sz f l := rfl
theorem sumD_append {α : Type} (sz : Sizer) (f : α → Int) (a b : List α) :
    sumD sz f (a ++ b) = sumD sz f a + sumD sz f b := by
  simp [sumD, isum_append]

/-- size contributed by an optional child -/
def osize {α : Type} (sz : Sizer) (f : α → Int) (o : Option α) : Int := sumD sz f o.toList
@[simp] theorem osize_none {α : Type} (sz : Sizer) (f : α → Int) : osize sz f none = 0 := rfl
@[simp] theorem osize_some {α : Type} (sz : Sizer) (f : α → Int) (a : α) : osize sz f (some a) = sz.delta (f a) := by
  simp [osize, sumD, isum]

/-- one extract pass: `removedSize` grows by exactly what the children left in the source lost -/
theorem walk_removed {α : Type} (sz : Sizer) (size : α → Int) (cut : St → α → Option α × Option α × St)
    (hcut : ∀ st c, (cut st c).2.2.rm - st.rm = sz.delta (size c) - osize sz size (cut st c).2.1) :
    ∀ (s : St) (l : List α),
      (walk stop (fitsBy sz size) cut s l).st.rm - s.rm = sumD sz size l - sumD sz size (walk stop (fitsBy sz size) cut s l).rem := by
  intro s l
  induction l generalizing s with
  | nil => simp [walk, sumD_nil]
  | cons c cs ih =>
    simp only [walk]
    split
    · have := ih s
      simp only [sumD_cons]; omega
    · simp only [fitsBy]
      split
      · next s1 hs1 =>
        split at hs1
        · cases hs1
        · injection hs1 with hs1
          have := ih s1
          subst hs1
          simp only [sumD_cons] at this ⊢
          omega
      · have h1 := hcut s c
        have h2 := ih (cut s c).2.2
        simp only [sumD_cons, sumD_append]
        have e : sumD sz size (cut s c).2.1.toList = osize sz size (cut s c).2.1 := rfl
        rw [e]; omega

theorem cutLeaf_removed {α : Type} (sz : Sizer) (size : α → Int) (st : St) (c : α) :
    (cutLeaf st c).2.2.rm - st.rm = sz.delta (size c) - osize sz size (cutLeaf st c).2.1 := by
  simp [cutLeaf]

/-- outer level: exact if the child extraction reports exactly what the child lost -/
theorem cutBy_removed {α : Type} (sz : Sizer) (size : α → Int) (ext : Int → α → α × α × Int) (nonEmpty : α → Bool)
    (hext : ∀ cap c, size (ext cap c).2.1 = size c - (ext cap c).2.2) (st : St) (c : α) :
    (cutBy sz size ext nonEmpty st c).2.2.rm - st.rm = sz.delta (size c) - osize sz size (cutBy sz size ext nonEmpty st c).2.1 := by
  simp only [cutBy, osize_some, hext]
  omega

theorem extractScope_size (sz : Sizer) (cap : Int) (s : Scope) :
    scopeSize sz (extractScope sz cap s).2.1 = scopeSize sz s - (extractScope sz cap s).2.2 := by
  simp only [extractScope, scopeSize]
  have := walk_removed sz (itemSize sz) cutLeaf (cutLeaf_removed sz (itemSize sz))
    ⟨innerCap sz cap (sz.own s.smeta.base + sumD sz (itemSize sz) []), 0⟩ s.items
  simp only [scopeSize] at this ⊢
  omega

theorem extractRes_size (sz : Sizer) (cap : Int) (r : Res) :
    resSize sz (extractRes sz cap r).2.1 = resSize sz r - (extractRes sz cap r).2.2 := by
  simp only [extractRes, resSize]
  have := walk_removed sz (scopeSize sz) _ (cutBy_removed sz (scopeSize sz) (extractScope sz) (fun s => s.items.length > 0)
    (extractScope_size sz)) ⟨innerCap sz cap (sz.own r.rmeta.base + sumD sz (scopeSize sz) []), 0⟩ r.scopes
  simp only [resSize] at this ⊢
  omega

theorem extract_size (sz : Sizer) (cap : Int) (p : List Res) :
    payloadSize sz (extract sz cap p).2.1 = payloadSize sz p - (extract sz cap p).2.2 := by
  simp only [extract, payloadSize]
  have := walk_removed sz (resSize sz) _ (cutBy_removed sz (resSize sz) (extractRes sz) (fun r => r.scopes.length > 0)
    (extractRes_size sz)) ⟨cap - sumD sz (resSize sz) [], 0⟩ p
  simp only at this ⊢
  omega

/-! ### the cached size of every request `split` returns is exact -/

/-- `cachedSize` is unset or the size of the payload -/
def Req.exact {P : Type} (o : Ops P) (r : Req P) : Prop := r.cached = -1 ∨ r.cached = o.size r.p

structure SizeExact {P : Type} (o : Ops P) : Prop where
  extract : ∀ cap p, o.size (o.extract cap p).2.1 = o.size p - (o.extract cap p).2.2
  append : ∀ a b, o.size (o.append a b) = o.size a + o.size b

theorem norm_cached {P : Type} (o : Ops P) (r : Req P) (h : r.exact o) : (r.norm o).cached = o.size r.p := by
  simp only [Req.norm, Req.size]
  rcases h with h | h
  · simp [h]
  · by_cases h1 : (r.cached == -1) = true
    · simp [h1]
    · simp [h1, h]

theorem splitLoop_exact {P : Type} (o : Ops P) (hs : SizeExact o) (max : Int) :
    ∀ (fuel : Nat) (req : Req P) (res out : List (Req P)), splitLoop o max fuel req res = some out →
      req.exact o → (∀ r ∈ res, r.exact o) → ∀ r ∈ out, r.exact o := by
  intro fuel
  induction fuel with
  | zero => intro req res out h; simp [splitLoop] at h
  | succ n ih =>
    intro req res out h hreq hres
    have hn := norm_cached o req hreq
    simp only [splitLoop] at h
    split at h
    · split at h
      · split at h
        · refine ih _ _ _ h (Or.inr rfl) ?_
          intro r hr
          rcases List.mem_append.mp hr with h1 | h1
          · exact hres r h1
          · simp only [List.mem_singleton] at h1; subst h1; exact Or.inl rfl
        · injection h with h
          subst h
          intro r hr
          rcases List.mem_append.mp hr with h1 | h1
          · exact hres r h1
          · simp only [List.mem_singleton] at h1; subst h1; exact Or.inr rfl
      · refine ih _ _ _ h ?_ ?_
        · right
          have := hs.extract max (req.norm o).p
          have hp : (req.norm o).p = req.p := rfl
          show (req.norm o).cached - (o.extract max (req.norm o).p).2.2 = o.size (o.extract max (req.norm o).p).2.1
          rw [this, hn, hp]
        · intro r hr
          rcases List.mem_append.mp hr with h1 | h1
          · exact hres r h1
          · simp only [List.mem_singleton] at h1; subst h1; exact Or.inl rfl
    · injection h with h
      subst h
      intro r hr
      rcases List.mem_append.mp hr with h1 | h1
      · exact hres r h1
      · simp only [List.mem_singleton] at h1; subst h1
        right; rw [hn]; rfl

theorem logs_sizeExact (sz : Sizer) : SizeExact (logsOps sz) :=
  ⟨extract_size sz, fun a b => by simp [logsOps, payloadSize, sumD_append]⟩


/-! metrics, items sizer (with the bytes sizer the accounting of a metric cut in two is an upper bound only: the data
message's own length prefix may shrink) -/

theorem extractPoints_size (keep : Bool) (cap : Int) (m : Metric) :
    metricSize ⟨false⟩ (extractPoints keep ⟨false⟩ cap m).2.1 = metricSize ⟨false⟩ m - (extractPoints keep ⟨false⟩ cap m).2.2 := by
  simp only [extractPoints]
  by_cases h : (m.mmeta.ty == 0) = true
  · simp [h]
  · simp only [h, Bool.false_eq_true, if_false, metricSize]
    have := walk_removed ⟨false⟩ (pointSize ⟨false⟩) cutLeaf (cutLeaf_removed ⟨false⟩ (pointSize ⟨false⟩))
      ⟨innerCap ⟨false⟩ cap (metricSize ⟨false⟩ { mmeta := fragMeta keep m.mmeta, points := [] }) - (Sizer.delta ⟨false⟩ cap - cap), 0⟩ m.points
    simp only [metricSize, Bool.false_eq_true, if_false] at this ⊢
    omega

theorem extractMScope_size (keep : Bool) (cap : Int) (s : MScope) :
    mscopeSize ⟨false⟩ (extractMScope keep ⟨false⟩ cap s).2.1 = mscopeSize ⟨false⟩ s - (extractMScope keep ⟨false⟩ cap s).2.2 := by
  simp only [extractMScope, mscopeSize]
  have := walk_removed ⟨false⟩ (metricSize ⟨false⟩) _ (cutBy_removed ⟨false⟩ (metricSize ⟨false⟩) (extractPoints keep ⟨false⟩)
    (fun m => if keep then m.points.length > 0 else metricSize ⟨false⟩ m > 0) (extractPoints_size keep))
    ⟨innerCap ⟨false⟩ cap (Sizer.own ⟨false⟩ s.smeta.base + sumD ⟨false⟩ (metricSize ⟨false⟩) []), 0⟩ s.metrics
  simp only [mscopeSize] at this ⊢
  omega

theorem extractMRes_size (keep : Bool) (cap : Int) (r : MRes) :
    mresSize ⟨false⟩ (extractMRes keep ⟨false⟩ cap r).2.1 = mresSize ⟨false⟩ r - (extractMRes keep ⟨false⟩ cap r).2.2 := by
  simp only [extractMRes, mresSize]
  have := walk_removed ⟨false⟩ (mscopeSize ⟨false⟩) _ (cutBy_removed ⟨false⟩ (mscopeSize ⟨false⟩) (extractMScope keep ⟨false⟩)
    (fun s => s.metrics.length > 0) (extractMScope_size keep))
    ⟨innerCap ⟨false⟩ cap (Sizer.own ⟨false⟩ r.rmeta.base + sumD ⟨false⟩ (mscopeSize ⟨false⟩) []), 0⟩ r.scopes
  simp only [mresSize] at this ⊢
  omega

theorem mextract_size (keep : Bool) (cap : Int) (p : List MRes) :
    mpayloadSize ⟨false⟩ (mextract keep ⟨false⟩ cap p).2.1 = mpayloadSize ⟨false⟩ p - (mextract keep ⟨false⟩ cap p).2.2 := by
  simp only [mextract, mpayloadSize]
  have := walk_removed ⟨false⟩ (mresSize ⟨false⟩) _ (cutBy_removed ⟨false⟩ (mresSize ⟨false⟩) (extractMRes keep ⟨false⟩)
    (fun r => r.scopes.length > 0) (extractMRes_size keep)) ⟨cap - sumD ⟨false⟩ (mresSize ⟨false⟩) [], 0⟩ p
  simp only at this ⊢
  omega

theorem metrics_sizeExact (keep : Bool) : SizeExact (metricsOps keep ⟨false⟩) :=
  ⟨mextract_size keep, fun a b => by simp [metricsOps, mpayloadSize, sumD_append]⟩

end OtelVerif.C04
