import OtelVerif.Lemmas.C04Extract
/-! lemmas for C04: moveFirst, the split loop (conservation, termination measure) -/
namespace OtelVerif.C04
open OtelVerif.Payload

/-! ### moveFirst conserves -/

theorem perm_shuffle {β : Type} (R D W S : List β) (h : (W ++ R).Perm S) : (R ++ (D ++ W)).Perm (S ++ D) := by
  refine List.perm_append_comm.trans ?_
  rw [List.append_assoc]
  exact (List.Perm.append_left D h).trans List.perm_append_comm

theorem moveFirstOf_perm {β : Type} (g : Item → β) (items : List Item) :
    ((moveFirstOf items).dest.map g ++ (moveFirstOf items).rem.map g).Perm (items.map g) := by
  simp only [map_eq_flatMap_single]
  exact walk_perm _ _ _ _ (by intro s c; simp) false items

theorem oflat_if_len {α β : Type} (f : α → List β) (b : Bool) (l : List γ) (mk : List γ → α)
    (h : f (mk []) = []) :
    oflat f (if (b && (l.length == 0)) = true then none else some (mk l)) = f (mk l) := by
  cases l with
  | nil => cases b <;> simp [h]
  | cons a l => simp

theorem oflat_if_len' {α β : Type} (f : α → List β) (l : List γ) (mk : List γ → α)
    (h : f (mk []) = []) :
    oflat f (if (l.length == 0) = true then none else some (mk l)) = f (mk l) := by
  cases l with
  | nil => simp [h]
  | cons a l => simp

theorem mfScope_perm (r : RMeta) (moved : Bool) (s : Scope) :
    (oflat (Scope.flat r) (mfScope moved s).1 ++ oflat (Scope.flat r) (mfScope moved s).2.1).Perm (Scope.flat r s) := by
  simp only [mfScope]
  by_cases h : (s.items.length == 0) = true
  · simp [h]
  · simp only [h, Bool.false_eq_true, if_false, oflat_some]
    rw [oflat_if_len' (Scope.flat r) _ (fun l => { s with items := l }) (by simp [Scope.flat])]
    simp only [Scope.flat]
    exact moveFirstOf_perm _ s.items

theorem mfRes_perm (moved : Bool) (r : Res) :
    (oflat Res.flat (mfRes moved r).1 ++ oflat Res.flat (mfRes moved r).2.1).Perm (Res.flat r) := by
  simp only [mfRes]
  rw [oflat_if_len' Res.flat _ (fun l => { rmeta := r.rmeta, scopes := l }) (by simp [Res.flat]),
    oflat_if_len Res.flat _ _ (fun l => { r with scopes := l }) (by simp [Res.flat])]
  simp only [Res.flat]
  exact walk_perm _ _ _ (Scope.flat r.rmeta) (mfScope_perm r.rmeta) false r.scopes

theorem moveFirst_perm (src dest : List Res) :
    (flatten (moveFirst src dest).1 ++ flatten (moveFirst src dest).2.1).Perm (flatten src ++ flatten dest) := by
  simp only [moveFirst, flatten, List.flatMap_append]
  have := walk_perm (fun moved => moved) (fun _ _ => none) mfRes Res.flat mfRes_perm false src
  exact perm_shuffle _ _ _ _ this

theorem mfMetric_perm (r : RMeta) (sm : SMeta) (moved : Bool) (m : Metric) :
    (oflat (Metric.flat r sm) (mfMetric moved m).1 ++ oflat (Metric.flat r sm) (mfMetric moved m).2.1).Perm (Metric.flat r sm m) := by
  simp only [mfMetric]
  by_cases h : (m.points.length == 0) = true
  · simp [h]
  · simp only [h, Bool.false_eq_true, if_false, oflat_some]
    rw [oflat_if_len' (Metric.flat r sm) _ (fun l => { m with points := l }) (by simp [Metric.flat])]
    simp only [Metric.flat]
    exact moveFirstOf_perm _ m.points

theorem mfMScope_perm (r : RMeta) (moved : Bool) (s : MScope) :
    (oflat (MScope.flat r) (mfMScope moved s).1 ++ oflat (MScope.flat r) (mfMScope moved s).2.1).Perm (MScope.flat r s) := by
  simp only [mfMScope]
  rw [oflat_if_len' (MScope.flat r) _ (fun l => { smeta := s.smeta, metrics := l }) (by simp [MScope.flat]),
    oflat_if_len (MScope.flat r) _ _ (fun l => { s with metrics := l }) (by simp [MScope.flat])]
  simp only [MScope.flat]
  exact walk_perm _ _ _ (Metric.flat r s.smeta) (mfMetric_perm r s.smeta) false s.metrics

theorem mfMRes_perm (moved : Bool) (r : MRes) :
    (oflat MRes.flat (mfMRes moved r).1 ++ oflat MRes.flat (mfMRes moved r).2.1).Perm (MRes.flat r) := by
  simp only [mfMRes]
  rw [oflat_if_len' MRes.flat _ (fun l => { rmeta := r.rmeta, scopes := l }) (by simp [MRes.flat]),
    oflat_if_len MRes.flat _ _ (fun l => { r with scopes := l }) (by simp [MRes.flat])]
  simp only [MRes.flat]
  exact walk_perm _ _ _ (MScope.flat r.rmeta) (mfMScope_perm r.rmeta) false r.scopes

theorem mmoveFirst_perm (src dest : List MRes) :
    (mflatten (mmoveFirst src dest).1 ++ mflatten (mmoveFirst src dest).2.1).Perm (mflatten src ++ mflatten dest) := by
  simp only [mmoveFirst, mflatten, List.flatMap_append]
  have := walk_perm (fun moved => moved) (fun _ _ => none) mfMRes MRes.flat mfMRes_perm false src
  exact perm_shuffle _ _ _ _ this

/-! ### the split loop conserves (generic in the signal) -/

/-- what conservation needs from a signal's operations -/
structure Conserves {P β : Type} (o : Ops P) (flat : P → List β) : Prop where
  extract : ∀ cap p, (flat (o.extract cap p).1 ++ flat (o.extract cap p).2.1).Perm (flat p)
  moveFirst : ∀ s d, (flat (o.moveFirst s d).1 ++ flat (o.moveFirst s d).2.1).Perm (flat s ++ flat d)
  append : ∀ a b, flat (o.append a b) = flat a ++ flat b

def flatReqs {P β : Type} (flat : P → List β) (rs : List (Req P)) : List β := rs.flatMap (fun r => flat r.p)

theorem flatReqs_append {P β : Type} (flat : P → List β) (a b : List (Req P)) :
    flatReqs flat (a ++ b) = flatReqs flat a ++ flatReqs flat b := by simp [flatReqs]

theorem flatReqs_single {P β : Type} (flat : P → List β) (r : Req P) : flatReqs flat [r] = flat r.p := by
  simp [flatReqs]

theorem splitLoop_perm {P β : Type} (o : Ops P) (flat : P → List β) (hc : Conserves o flat) (max : Int) :
    ∀ (fuel : Nat) (req : Req P) (res out : List (Req P)), splitLoop o max fuel req res = some out →
      (flatReqs flat out).Perm (flatReqs flat res ++ flat req.p) := by
  intro fuel
  induction fuel with
  | zero => intro req res out h; simp [splitLoop] at h
  | succ n ih =>
    intro req res out h
    simp only [splitLoop] at h
    split at h
    · split at h
      · split at h
        · -- moved: one item left alone, loop continues
          have := ih _ _ _ h
          refine this.trans ?_
          simp only [flatReqs_append, flatReqs_single, List.append_assoc]
          refine List.Perm.append_left _ ?_
          have hm := hc.moveFirst (o.extract max (req.norm o).p).2.1 (o.extract max (req.norm o).p).1
          have he := hc.extract max (req.norm o).p
          refine (List.perm_append_comm.trans hm).trans ?_
          exact (List.perm_append_comm.trans he)
        · -- nothing to move: everything goes back to req
          injection h with h
          subst h
          simp only [flatReqs_append, flatReqs_single, hc.append]
          refine List.Perm.append_left _ ?_
          have hm := hc.moveFirst (o.extract max (req.norm o).p).2.1 (o.extract max (req.norm o).p).1
          have he := hc.extract max (req.norm o).p
          exact hm.trans (List.perm_append_comm.trans he)
      · have := ih _ _ _ h
        refine this.trans ?_
        simp only [flatReqs_append, flatReqs_single, List.append_assoc]
        exact List.Perm.append_left _ (hc.extract max (req.norm o).p)
    · injection h with h
      subst h
      simp [flatReqs_append, flatReqs_single, Req.norm]

theorem logs_conserves (sz : Sizer) : Conserves (logsOps sz) flatten :=
  ⟨extract_perm sz, moveFirst_perm, by intro a b; simp [logsOps, flatten]⟩

theorem metrics_conserves (sz : Sizer) : Conserves (metricsOps true sz) mflatten :=
  ⟨mextract_perm sz, mmoveFirst_perm, by intro a b; simp [metricsOps, mflatten]⟩

end OtelVerif.C04
