import OtelVerif.Lemmas.C04Split
/-! lemmas for C04: every iteration of the split loop removes a node from the request (termination) -/
namespace OtelVerif.C04
open OtelVerif.Payload

/-- a pass never adds nodes to the source, and removes at least one whenever the observed part `g` of the closure
state changed -/
theorem walk_nodes {α σ γ : Type} [DecidableEq γ] (stop : σ → Bool) (fits : σ → α → Option σ)
    (cut : σ → α → Option α × Option α × σ) (n : α → Nat) (g : σ → γ)
    (hn : ∀ c, 0 < n c)
    (hcut : ∀ s c, stop s = false → (ocnt n (cut s c).2.1 ≤ n c ∧ (g (cut s c).2.2 ≠ g s → ocnt n (cut s c).2.1 < n c))) :
    ∀ (s : σ) (l : List α),
      sumBy n (walk stop fits cut s l).rem ≤ sumBy n l ∧
      (g (walk stop fits cut s l).st ≠ g s → sumBy n (walk stop fits cut s l).rem < sumBy n l) := by
  intro s l
  induction l generalizing s with
  | nil => simp [walk, sumBy_nil]
  | cons c cs ih =>
    simp only [walk]
    split
    · have := ih s
      simp only [sumBy_cons]
      exact ⟨by omega, fun h => by have := this.2 h; omega⟩
    · next hns =>
      have hns' : stop s = false := by simpa using hns
      split
      · next s1 _ =>
        have := ih s1
        have := hn c
        simp only [sumBy_cons]
        exact ⟨by omega, fun _ => by omega⟩
      · have h1 := hcut s c hns'
        have h2 := ih (cut s c).2.2
        simp only [sumBy_cons, sumBy_append]
        have e : sumBy n (cut s c).2.1.toList = ocnt n (cut s c).2.1 := rfl
        rw [e]
        refine ⟨by omega, fun h => ?_⟩
        by_cases hk : g (cut s c).2.2 = g s
        · have := h2.2 (by rw [hk]; exact h)
          omega
        · have := h1.2 hk
          omega

theorem sumBy_one {α : Type} (l : List α) : sumBy (fun _ => 1) l = l.length := by
  induction l with
  | nil => rfl
  | cons a l ih => rw [sumBy_cons, ih]; simp; omega

/-- outer-level cut: the child never grows and shrinks whenever `removedSize` moved -/
theorem cutBy_nodes {α : Type} (sz : Sizer) (size : α → Int) (ext : Int → α → α × α × Int) (nonEmpty : α → Bool)
    (n : α → Nat)
    (hext : ∀ cap c, n (ext cap c).2.1 ≤ n c ∧ ((ext cap c).2.2 ≠ 0 → n (ext cap c).2.1 < n c)) (st : St) (c : α) :
    ocnt n (cutBy sz size ext nonEmpty st c).2.1 ≤ n c ∧
    ((cutBy sz size ext nonEmpty st c).2.2.rm ≠ st.rm → ocnt n (cutBy sz size ext nonEmpty st c).2.1 < n c) := by
  simp only [cutBy, ocnt_some]
  refine ⟨(hext st.cap c).1, fun h => (hext st.cap c).2 ?_⟩
  intro h0
  apply h
  rw [h0]
  simp

theorem leaf_nodes (fits : St → Item → Option St) (st : St) (items : List Item) :
    (walk stop fits cutLeaf st items).rem.length ≤ items.length ∧
    ((walk stop fits cutLeaf st items).st.rm ≠ st.rm → (walk stop fits cutLeaf st items).rem.length < items.length) := by
  have := walk_nodes stop fits cutLeaf (fun _ => 1) St.rm (by intro; omega)
    (by intro s c _; simp [cutLeaf]) st items
  simpa [sumBy_one] using this

theorem extractScope_nodes (sz : Sizer) (cap : Int) (s : Scope) :
    (extractScope sz cap s).2.1.nodes ≤ s.nodes ∧ ((extractScope sz cap s).2.2 ≠ 0 → (extractScope sz cap s).2.1.nodes < s.nodes) := by
  simp only [extractScope, Scope.nodes]
  have := leaf_nodes (fitsBy sz (itemSize sz)) ⟨innerCap sz cap (scopeSize sz { smeta := s.smeta, items := [] }), 0⟩ s.items
  exact ⟨by omega, fun h => by have := this.2 h; omega⟩

theorem scope_nodes_pos (s : Scope) : 0 < s.nodes := by simp [Scope.nodes]; omega
theorem res_nodes_pos (r : Res) : 0 < r.nodes := by simp [Res.nodes]; omega

theorem extractRes_nodes (sz : Sizer) (cap : Int) (r : Res) :
    (extractRes sz cap r).2.1.nodes ≤ r.nodes ∧ ((extractRes sz cap r).2.2 ≠ 0 → (extractRes sz cap r).2.1.nodes < r.nodes) := by
  simp only [extractRes, Res.nodes]
  have := walk_nodes stop (fitsBy sz (scopeSize sz))
    (cutBy sz (scopeSize sz) (extractScope sz) (fun s => s.items.length > 0)) Scope.nodes St.rm scope_nodes_pos
    (fun s c _ => cutBy_nodes sz _ _ _ _ (extractScope_nodes sz) s c) ⟨innerCap sz cap (resSize sz { rmeta := r.rmeta, scopes := [] }), 0⟩ r.scopes
  exact ⟨by omega, fun h => by have := this.2 h; omega⟩

theorem extract_nodes (sz : Sizer) (cap : Int) (p : List Res) :
    nodes (extract sz cap p).2.1 ≤ nodes p ∧ ((extract sz cap p).2.2 ≠ 0 → nodes (extract sz cap p).2.1 < nodes p) := by
  simp only [extract, nodes]
  exact walk_nodes stop (fitsBy sz (resSize sz))
    (cutBy sz (resSize sz) (extractRes sz) (fun r => r.scopes.length > 0)) Res.nodes St.rm res_nodes_pos
    (fun s c _ => cutBy_nodes sz _ _ _ _ (extractRes_nodes sz) s c) ⟨cap - payloadSize sz [], 0⟩ p

/-! metrics -/

theorem extractPoints_nodes (keep : Bool) (sz : Sizer) (cap : Int) (m : Metric) :
    (extractPoints keep sz cap m).2.1.nodes ≤ m.nodes ∧ ((extractPoints keep sz cap m).2.2 ≠ 0 → (extractPoints keep sz cap m).2.1.nodes < m.nodes) := by
  simp only [extractPoints]
  by_cases h : (m.mmeta.ty == 0) = true
  · simp [h]
  · simp only [h, Bool.false_eq_true, if_false, Metric.nodes]
    have := leaf_nodes (fitsBy sz (pointSize sz))
      ⟨innerCap sz cap (metricSize sz { mmeta := fragMeta keep m.mmeta, points := [] }) - (sz.delta cap - cap), 0⟩ m.points
    exact ⟨by omega, fun h => by have := this.2 h; omega⟩

theorem metric_nodes_pos (m : Metric) : 0 < m.nodes := by simp [Metric.nodes]; omega
theorem mscope_nodes_pos (s : MScope) : 0 < s.nodes := by simp [MScope.nodes]; omega
theorem mres_nodes_pos (r : MRes) : 0 < r.nodes := by simp [MRes.nodes]; omega

theorem extractMScope_nodes (keep : Bool) (sz : Sizer) (cap : Int) (s : MScope) :
    (extractMScope keep sz cap s).2.1.nodes ≤ s.nodes ∧ ((extractMScope keep sz cap s).2.2 ≠ 0 → (extractMScope keep sz cap s).2.1.nodes < s.nodes) := by
  simp only [extractMScope, MScope.nodes]
  have := walk_nodes stop (fitsBy sz (metricSize sz))
    (cutBy sz (metricSize sz) (extractPoints keep sz) (fun m => if keep then m.points.length > 0 else metricSize sz m > 0))
    Metric.nodes St.rm metric_nodes_pos
    (fun s c _ => cutBy_nodes sz _ _ _ _ (extractPoints_nodes keep sz) s c) ⟨innerCap sz cap (mscopeSize sz { smeta := s.smeta, metrics := [] }), 0⟩ s.metrics
  exact ⟨by omega, fun h => by have := this.2 h; omega⟩

theorem extractMRes_nodes (keep : Bool) (sz : Sizer) (cap : Int) (r : MRes) :
    (extractMRes keep sz cap r).2.1.nodes ≤ r.nodes ∧ ((extractMRes keep sz cap r).2.2 ≠ 0 → (extractMRes keep sz cap r).2.1.nodes < r.nodes) := by
  simp only [extractMRes, MRes.nodes]
  have := walk_nodes stop (fitsBy sz (mscopeSize sz))
    (cutBy sz (mscopeSize sz) (extractMScope keep sz) (fun s => s.metrics.length > 0)) MScope.nodes St.rm mscope_nodes_pos
    (fun s c _ => cutBy_nodes sz _ _ _ _ (extractMScope_nodes keep sz) s c) ⟨innerCap sz cap (mresSize sz { rmeta := r.rmeta, scopes := [] }), 0⟩ r.scopes
  exact ⟨by omega, fun h => by have := this.2 h; omega⟩

theorem mextract_nodes (keep : Bool) (sz : Sizer) (cap : Int) (p : List MRes) :
    mnodes (mextract keep sz cap p).2.1 ≤ mnodes p ∧ ((mextract keep sz cap p).2.2 ≠ 0 → mnodes (mextract keep sz cap p).2.1 < mnodes p) := by
  simp only [mextract, mnodes]
  exact walk_nodes stop (fitsBy sz (mresSize sz))
    (cutBy sz (mresSize sz) (extractMRes keep sz) (fun r => r.scopes.length > 0)) MRes.nodes St.rm mres_nodes_pos
    (fun s c _ => cutBy_nodes sz _ _ _ _ (extractMRes_nodes keep sz) s c) ⟨cap - mpayloadSize sz [], 0⟩ p


/-! ### moveFirst removes a node when it moves something -/

theorem walk_stopped {α : Type} (fits : Bool → α → Option Bool) (cut : Bool → α → Option α × Option α × Bool) (l : List α) :
    walk (fun moved => moved) fits cut true l = ⟨[], l, true⟩ := by
  induction l with
  | nil => rfl
  | cons c cs ih => simp [walk, ih]

theorem moveFirstOf_cons (c : Item) (cs : List Item) : moveFirstOf (c :: cs) = ⟨[c], cs, true⟩ := by
  simp [moveFirstOf, walk, walk_stopped]

theorem ocnt_if_le {α γ : Type} (n : α → Nat) (b : Bool) (l : List γ) (mk : List γ → α) :
    ocnt n (if (b && (l.length == 0)) = true then none else some (mk l)) ≤ n (mk l) := by
  by_cases h : (b && (l.length == 0)) = true <;> simp [h]

theorem ocnt_if_le' {α γ : Type} (n : α → Nat) (l : List γ) (mk : List γ → α) :
    ocnt n (if (l.length == 0) = true then none else some (mk l)) ≤ n (mk l) := by
  by_cases h : (l.length == 0) = true <;> simp [h]

theorem mfScope_nodes (moved : Bool) (s : Scope) :
    ocnt Scope.nodes (mfScope moved s).2.1 ≤ s.nodes ∧
    ((mfScope moved s).2.2 ≠ moved → ocnt Scope.nodes (mfScope moved s).2.1 < s.nodes) := by
  simp only [mfScope]
  cases hi : s.items with
  | nil => simp [Scope.nodes, hi]
  | cons c cs =>
    simp only [List.length_cons, moveFirstOf_cons]
    have h0 : (cs.length + 1 == 0) = false := by simp
    simp only [h0, Bool.false_eq_true, if_false]
    have := ocnt_if_le' Scope.nodes cs (fun l => { s with items := l })
    simp only [Scope.nodes, hi, List.length_cons] at this ⊢
    exact ⟨by omega, fun _ => by omega⟩

theorem mfRes_nodes (moved : Bool) (r : Res) :
    ocnt Res.nodes (mfRes moved r).2.1 ≤ r.nodes ∧
    ((mfRes moved r).2.2 ≠ false → ocnt Res.nodes (mfRes moved r).2.1 < r.nodes) := by
  simp only [mfRes]
  have hw := walk_nodes (fun moved => moved) (fun _ _ => none) mfScope Scope.nodes id scope_nodes_pos
    (fun s c _ => mfScope_nodes s c) false r.scopes
  have := ocnt_if_le Res.nodes (walk (fun moved => moved) (fun _ _ => none) mfScope false r.scopes).st
    (walk (fun moved => moved) (fun _ _ => none) mfScope false r.scopes).rem (fun l => { r with scopes := l })
  simp only [Res.nodes] at this ⊢
  exact ⟨by omega, fun h => by have := hw.2 h; omega⟩

theorem moveFirst_nodes (src dest : List Res) :
    (moveFirst src dest).2.2 = true → nodes (moveFirst src dest).1 < nodes src := by
  simp only [moveFirst, nodes]
  intro h
  have hw := walk_nodes (fun moved => moved) (fun _ _ => none) mfRes Res.nodes id res_nodes_pos
    (fun s c hs => by
      have hs' : s = false := hs
      subst hs'
      exact mfRes_nodes false c) false src
  exact hw.2 (by simp [h])

theorem mfMetric_nodes (moved : Bool) (m : Metric) :
    ocnt Metric.nodes (mfMetric moved m).2.1 ≤ m.nodes ∧
    ((mfMetric moved m).2.2 ≠ moved → ocnt Metric.nodes (mfMetric moved m).2.1 < m.nodes) := by
  simp only [mfMetric]
  cases hi : m.points with
  | nil => simp [Metric.nodes, hi]
  | cons c cs =>
    simp only [List.length_cons, moveFirstOf_cons]
    have h0 : (cs.length + 1 == 0) = false := by simp
    simp only [h0, Bool.false_eq_true, if_false]
    have := ocnt_if_le' Metric.nodes cs (fun l => { m with points := l })
    simp only [Metric.nodes, hi, List.length_cons] at this ⊢
    exact ⟨by omega, fun _ => by omega⟩

theorem mfMScope_nodes (moved : Bool) (s : MScope) :
    ocnt MScope.nodes (mfMScope moved s).2.1 ≤ s.nodes ∧
    ((mfMScope moved s).2.2 ≠ false → ocnt MScope.nodes (mfMScope moved s).2.1 < s.nodes) := by
  simp only [mfMScope]
  have hw := walk_nodes (fun moved => moved) (fun _ _ => none) mfMetric Metric.nodes id metric_nodes_pos
    (fun s c _ => mfMetric_nodes s c) false s.metrics
  have := ocnt_if_le MScope.nodes (walk (fun moved => moved) (fun _ _ => none) mfMetric false s.metrics).st
    (walk (fun moved => moved) (fun _ _ => none) mfMetric false s.metrics).rem (fun l => { s with metrics := l })
  simp only [MScope.nodes] at this ⊢
  exact ⟨by omega, fun h => by have := hw.2 h; omega⟩

theorem mfMRes_nodes (moved : Bool) (r : MRes) :
    ocnt MRes.nodes (mfMRes moved r).2.1 ≤ r.nodes ∧
    ((mfMRes moved r).2.2 ≠ false → ocnt MRes.nodes (mfMRes moved r).2.1 < r.nodes) := by
  simp only [mfMRes]
  have hw := walk_nodes (fun moved => moved) (fun _ _ => none) mfMScope MScope.nodes id mscope_nodes_pos
    (fun s c hs => by
      have hs' : s = false := hs
      subst hs'
      exact mfMScope_nodes false c) false r.scopes
  have := ocnt_if_le MRes.nodes (walk (fun moved => moved) (fun _ _ => none) mfMScope false r.scopes).st
    (walk (fun moved => moved) (fun _ _ => none) mfMScope false r.scopes).rem (fun l => { r with scopes := l })
  simp only [MRes.nodes] at this ⊢
  exact ⟨by omega, fun h => by have := hw.2 h; omega⟩

theorem mmoveFirst_nodes (src dest : List MRes) :
    (mmoveFirst src dest).2.2 = true → mnodes (mmoveFirst src dest).1 < mnodes src := by
  simp only [mmoveFirst, mnodes]
  intro h
  have hw := walk_nodes (fun moved => moved) (fun _ _ => none) mfMRes MRes.nodes id mres_nodes_pos
    (fun s c hs => by
      have hs' : s = false := hs
      subst hs'
      exact mfMRes_nodes false c) false src
  exact hw.2 (by simp [h])

/-! ### the loop ends -/

structure Shrinks {P : Type} (o : Ops P) : Prop where
  extract_le : ∀ cap p, o.nodes (o.extract cap p).2.1 ≤ o.nodes p
  extract_lt : ∀ cap p, (o.extract cap p).2.2 ≠ 0 → o.nodes (o.extract cap p).2.1 < o.nodes p
  moveFirst_lt : ∀ s d, (o.moveFirst s d).2.2 = true → o.nodes (o.moveFirst s d).1 < o.nodes s

theorem splitLoop_isSome {P : Type} (o : Ops P) (hs : Shrinks o) (max : Int) :
    ∀ (fuel : Nat) (req : Req P) (res : List (Req P)), o.nodes req.p < fuel → (splitLoop o max fuel req res).isSome = true := by
  intro fuel
  induction fuel with
  | zero => intro req res h; omega
  | succ n ih =>
    intro req res h
    simp only [splitLoop]
    split
    · split
      · split
        · next hm =>
          apply ih
          have h1 := hs.moveFirst_lt _ _ hm
          have h2 := hs.extract_le max (req.norm o).p
          simp only [Req.norm] at h1 h2 ⊢
          omega
        · rfl
      · next hrm =>
        apply ih
        have := hs.extract_lt max (req.norm o).p (by simpa using hrm)
        simp only [Req.norm] at this ⊢
        omega
    · rfl

theorem logs_shrinks (sz : Sizer) : Shrinks (logsOps sz) :=
  ⟨fun cap p => (extract_nodes sz cap p).1, fun cap p => (extract_nodes sz cap p).2, moveFirst_nodes⟩

theorem metrics_shrinks (keep : Bool) (sz : Sizer) : Shrinks (metricsOps keep sz) :=
  ⟨fun cap p => (mextract_nodes keep sz cap p).1, fun cap p => (mextract_nodes keep sz cap p).2, mmoveFirst_nodes⟩

end OtelVerif.C04
