import OtelVerif.Model.Payload
/-!
# Generic lemmas about `walk` (one `RemoveIf` pass with a stateful closure)

Shared by C04 (extract / moveFirst) and C17 (split): conservation of any flattening, node count.
-/
namespace OtelVerif.Payload

theorem perm_mid {β : Type} (A B C : List β) : (A ++ (B ++ C)).Perm (B ++ (A ++ C)) := by
  rw [← List.append_assoc, ← List.append_assoc]
  exact List.Perm.append_right C List.perm_append_comm

theorem perm_four {β : Type} (A B C D : List β) : ((A ++ B) ++ (C ++ D)).Perm ((A ++ C) ++ (B ++ D)) := by
  rw [List.append_assoc, List.append_assoc]
  exact List.Perm.append_left A (perm_mid B C D)

/-- flattening of an optional child -/
def oflat {α β : Type} (f : α → List β) (o : Option α) : List β := o.toList.flatMap f

@[simp] theorem oflat_none {α β : Type} (f : α → List β) : oflat f none = [] := rfl
@[simp] theorem oflat_some {α β : Type} (f : α → List β) (a : α) : oflat f (some a) = f a := by
  simp [oflat]

/-- one `RemoveIf` pass conserves the flattening if cutting a child does -/
theorem walk_perm {α σ β : Type} (stop : σ → Bool) (fits : σ → α → Option σ) (cut : σ → α → Option α × Option α × σ)
    (f : α → List β)
    (hcut : ∀ s c, (oflat f (cut s c).1 ++ oflat f (cut s c).2.1).Perm (f c)) :
    ∀ (s : σ) (l : List α),
      ((walk stop fits cut s l).dest.flatMap f ++ (walk stop fits cut s l).rem.flatMap f).Perm (l.flatMap f) := by
  intro s l
  induction l generalizing s with
  | nil => simp [walk]
  | cons c cs ih =>
    simp only [walk]
    split
    · simp only [List.flatMap_cons]
      exact (perm_mid _ _ _).trans (List.Perm.append_left _ (ih s))
    · split
      · next s1 _ =>
        simp only [List.flatMap_cons, List.append_assoc]
        exact List.Perm.append_left _ (ih s1)
      · simp only [List.flatMap_cons, List.flatMap_append]
        refine (perm_four _ _ _ _).trans ?_
        exact List.Perm.append (hcut s c) (ih _)

end OtelVerif.Payload

namespace OtelVerif.Payload

theorem sumBy_nil {α : Type} (f : α → Nat) : sumBy f [] = 0 := rfl
theorem sumBy_cons {α : Type} (f : α → Nat) (a : α) (l : List α) : sumBy f (a :: l) = f a + sumBy f l := by
  simp [sumBy]
theorem sumBy_append {α : Type} (f : α → Nat) (l₁ l₂ : List α) : sumBy f (l₁ ++ l₂) = sumBy f l₁ + sumBy f l₂ := by
  simp [sumBy]

/-- count of an optional child -/
def ocnt {α : Type} (f : α → Nat) (o : Option α) : Nat := sumBy f o.toList
@[simp] theorem ocnt_none {α : Type} (f : α → Nat) : ocnt f none = 0 := rfl
@[simp] theorem ocnt_some {α : Type} (f : α → Nat) (a : α) : ocnt f (some a) = f a := by simp [ocnt, sumBy]

/-- a count-driven pass (state = items copied so far, target `size`) copies exactly up to `size` -/
theorem walk_fill {α : Type} (size : Nat) (stop : Nat → Bool) (fits : Nat → α → Option Nat)
    (cut : Nat → α → Option α × Option α × Nat) (cnt : α → Nat)
    (hstop : ∀ t, stop t = (t == size))
    (hfits : ∀ t c, t < size → fits t c = if t + cnt c ≤ size then some (t + cnt c) else none)
    (hcut : ∀ t c, t < size → size < t + cnt c → (cut t c).2.2 = size ∧ ocnt cnt (cut t c).1 = size - t) :
    ∀ (t : Nat) (l : List α), t ≤ size →
      (walk stop fits cut t l).st = min size (t + sumBy cnt l) ∧
      sumBy cnt (walk stop fits cut t l).dest = (walk stop fits cut t l).st - t := by
  intro t l
  induction l generalizing t with
  | nil => intro h; simp [walk, sumBy_nil]; omega
  | cons c cs ih =>
    intro h
    simp only [walk, hstop]
    by_cases hts : t = size
    · subst hts
      have := ih t (Nat.le_refl _)
      simp only [beq_self_eq_true, if_true, sumBy_cons]
      constructor
      · rw [this.1]; omega
      · rw [this.2, this.1] <;> omega
    · have hlt : t < size := by omega
      have hb : (t == size) = false := by simp [hts]
      simp only [hb, Bool.false_eq_true, if_false, hfits t c hlt]
      by_cases hfit : t + cnt c ≤ size
      · simp only [hfit, if_true, sumBy_cons]
        have := ih (t + cnt c) hfit
        constructor
        · rw [this.1]; omega
        · rw [this.2, this.1]; omega
      · simp only [hfit, if_false, sumBy_cons, sumBy_append]
        have hc := hcut t c hlt (by omega)
        rw [hc.1]
        have := ih size (Nat.le_refl _)
        constructor
        · rw [this.1]; omega
        · rw [this.2, this.1]
          have : sumBy cnt (cut t c).1.toList = size - t := hc.2
          rw [this]; omega

end OtelVerif.Payload
