import OtelVerif.Model.C06
/-! helper lemmas for C06 -/
namespace OtelVerif.C06

theorem idxWhere_mem (b : Bool) (caps : List Bool) (s i : Nat) :
    i ∈ idxWhere b caps s ↔ s ≤ i ∧ caps[i - s]? = some b := by
  induction caps generalizing s with
  | nil => simp [idxWhere]
  | cons c cs ih =>
    by_cases hc : c = b
    · simp only [idxWhere, hc, if_true, List.mem_cons, ih]
      constructor
      · rintro (rfl | ⟨h1, h2⟩)
        · simp
        · refine ⟨by omega, ?_⟩
          have : i - s = (i - (s + 1)) + 1 := by omega
          rw [this]; simpa using h2
      · rintro ⟨h1, h2⟩
        by_cases he : i = s
        · exact Or.inl he
        · right
          refine ⟨by omega, ?_⟩
          have : i - s = (i - (s + 1)) + 1 := by omega
          rw [this] at h2; simpa using h2
    · simp only [idxWhere, hc, if_false, ih]
      constructor
      · rintro ⟨h1, h2⟩
        refine ⟨by omega, ?_⟩
        have : i - s = (i - (s + 1)) + 1 := by omega
        rw [this]; simpa using h2
      · rintro ⟨h1, h2⟩
        by_cases he : i = s
        · subst he; simp at h2; exact absurd h2 hc
        · refine ⟨by omega, ?_⟩
          have : i - s = (i - (s + 1)) + 1 := by omega
          rw [this] at h2; simpa using h2

theorem mem_mutableIdx (caps : List Bool) (i : Nat) : i ∈ mutableIdx caps ↔ caps[i]? = some true := by
  simp [mutableIdx, idxWhere_mem]

theorem mem_readonlyIdx (caps : List Bool) (i : Nat) : i ∈ readonlyIdx caps ↔ caps[i]? = some false := by
  simp [readonlyIdx, idxWhere_mem]

theorem idxWhere_perm (caps : List Bool) (s : Nat) :
    (idxWhere true caps s ++ idxWhere false caps s).Perm (List.range' s caps.length) := by
  induction caps generalizing s with
  | nil => simp [idxWhere]
  | cons c cs ih =>
    cases c with
    | true =>
      simp only [idxWhere, if_true, List.length_cons, List.range'_succ, List.cons_append]
      exact List.Perm.cons _ (by simpa using ih (s + 1))
    | false =>
      simp only [idxWhere, List.length_cons, List.range'_succ]
      have h1 : (idxWhere true cs (s + 1) ++ s :: idxWhere false cs (s + 1)).Perm
          (s :: (idxWhere true cs (s + 1) ++ idxWhere false cs (s + 1))) := List.perm_middle
      simpa using h1.trans (List.Perm.cons _ (ih (s + 1)))

theorem idxWhere_lt (b : Bool) (caps : List Bool) (s : Nat) : ∀ i ∈ idxWhere b caps s, s ≤ i := by
  intro i hi; exact ((idxWhere_mem b caps s i).1 hi).1

theorem idxWhere_nodup (b : Bool) (caps : List Bool) (s : Nat) : (idxWhere b caps s).Nodup := by
  induction caps generalizing s with
  | nil => simp [idxWhere]
  | cons c cs ih =>
    by_cases hc : c = b
    · simp only [idxWhere, hc, if_true, List.nodup_cons]
      refine ⟨?_, ih (s + 1)⟩
      intro h; have := idxWhere_lt b cs (s + 1) s h; omega
    · simp only [idxWhere, hc, if_false]; exact ih (s + 1)

/-! ### mutable phase, structure -/

theorem mutDeliveries_consumers (L : Bool) (m : List Nat) (k : Nat) : (mutDeliveries L m k).map (·.consumer) = m := by
  induction m generalizing k with
  | nil => simp [mutDeliveries]
  | cons c rest ih =>
    cases rest with
    | nil => simp [mutDeliveries]
    | cons c' rest' => simp only [mutDeliveries, List.map_cons]; rw [ih (k + 1)]

theorem mutDeliveries_obj (L : Bool) (m : List Nat) (k : Nat) :
    ∀ d ∈ mutDeliveries L m k, (d.obj = .orig ∧ L = true) ∨ ∃ j, d.obj = .clone j ∧ k ≤ j := by
  induction m generalizing k with
  | nil => simp [mutDeliveries]
  | cons c rest ih =>
    cases rest with
    | nil =>
      intro d hd
      simp only [mutDeliveries, List.mem_singleton] at hd
      subst hd
      cases L <;> simp
    | cons c' rest' =>
      intro d hd
      simp only [mutDeliveries, List.mem_cons] at hd
      rcases hd with rfl | hd
      · right; exact ⟨k, rfl, Nat.le_refl _⟩
      · rcases ih (k + 1) d (by simpa [mutDeliveries] using hd) with h | ⟨j, hj, hk⟩
        · exact Or.inl h
        · exact Or.inr ⟨j, hj, by omega⟩

theorem mutDeliveries_false_clone (m : List Nat) (k : Nat) : ∀ d ∈ mutDeliveries false m k, ∃ j, d.obj = .clone j := by
  intro d hd
  rcases mutDeliveries_obj false m k d hd with ⟨_, h⟩ | ⟨j, hj, _⟩
  · exact absurd h (by simp)
  · exact ⟨j, hj⟩

theorem mutDeliveries_pairwise (L : Bool) (m : List Nat) (k : Nat) :
    (mutDeliveries L m k).Pairwise (fun a b => a.obj ≠ b.obj) := by
  induction m generalizing k with
  | nil => simp [mutDeliveries]
  | cons c rest ih =>
    cases rest with
    | nil => simp [mutDeliveries]
    | cons c' rest' =>
      simp only [mutDeliveries, List.pairwise_cons]
      refine ⟨?_, ih (k + 1)⟩
      intro d hd
      rcases mutDeliveries_obj L (c' :: rest') (k + 1) d hd with ⟨h, _⟩ | ⟨j, hj, hk⟩
      · simp [h]
      · simp only [hj, ne_eq, Obj.clone.injEq]; omega

/-! ### heap facts -/

theorem write_origRO (h : Heap) (o : Obj) (v : Nat) : (h.write o v).1.origRO = h.origRO := by
  cases o with
  | orig => simp only [Heap.write]; split <;> rfl
  | clone k => rfl

theorem write_clone_orig (h : Heap) (k v : Nat) : (h.write (.clone k) v).1.orig = h.orig := rfl

theorem write_ro_noop (h : Heap) (v : Nat) (hro : h.origRO = true) : h.write .orig v = (h, true) := by
  simp [Heap.write, hro]

theorem write_orig_of_ro (h : Heap) (o : Obj) (v : Nat) (hro : h.origRO = true) : (h.write o v).1.orig = h.orig := by
  cases o with
  | orig => simp [Heap.write, hro]
  | clone k => rfl

/-- one call to a clone: the consumer sees the original's current content, the original is untouched -/
theorem call_clone (syncW : Nat → Option Nat) (h : Heap) (c k : Nat) :
    (call syncW h ⟨c, .clone k⟩).2.atCall = some h.orig ∧ (call syncW h ⟨c, .clone k⟩).1.orig = h.orig ∧
      (call syncW h ⟨c, .clone k⟩).1.origRO = h.origRO := by
  simp only [call]
  cases syncW c <;> simp [Heap.read, List.lookup, Heap.write]

theorem call_orig_atCall (syncW : Nat → Option Nat) (h : Heap) (c : Nat) :
    (call syncW h ⟨c, .orig⟩).2.atCall = some h.orig ∧ (call syncW h ⟨c, .orig⟩).1.origRO = h.origRO := by
  simp only [call]
  cases hs : syncW c with
  | none => simp [Heap.read]
  | some v => simp only [Heap.read, true_and]; exact write_origRO h .orig v

theorem call_orig_ro (syncW : Nat → Option Nat) (h : Heap) (c : Nat) (hro : h.origRO = true) :
    (call syncW h ⟨c, .orig⟩).1 = h := by
  simp only [call]
  cases hs : syncW c with
  | none => rfl
  | some v => simp [write_ro_noop h v hro]

theorem call_orig_silent (syncW : Nat → Option Nat) (h : Heap) (c : Nat) (hs : syncW c = none) :
    (call syncW h ⟨c, .orig⟩).1 = h := by
  simp [call, hs]

/-! ### phase A: calls to the mutating consumers -/

theorem phaseA (syncW : Nat → Option Nat) (L : Bool) (m : List Nat) (k : Nat) (h : Heap) :
    (∀ s ∈ (callAll syncW h (mutDeliveries L m k)).2, s.atCall = some h.orig) ∧
    (callAll syncW h (mutDeliveries L m k)).1.origRO = h.origRO ∧
    (L = false → (callAll syncW h (mutDeliveries L m k)).1.orig = h.orig) := by
  induction m generalizing k h with
  | nil => simp [mutDeliveries, callAll]
  | cons c rest ih =>
    cases rest with
    | nil =>
      cases L with
      | true =>
        have := call_orig_atCall syncW h c
        simp only [mutDeliveries, callAll, if_true, List.mem_singleton, forall_eq]
        exact ⟨this.1, this.2, by simp⟩
      | false =>
        have := call_clone syncW h c k
        simp only [mutDeliveries, callAll, List.mem_singleton, forall_eq]
        exact ⟨this.1, this.2.2, fun _ => this.2.1⟩
    | cons c' rest' =>
      have hc := call_clone syncW h c k
      have := ih (k + 1) (call syncW h ⟨c, .clone k⟩).1
      simp only [mutDeliveries, callAll, List.mem_cons, forall_eq_or_imp] at this ⊢
      rw [hc.2.1, hc.2.2] at this
      exact ⟨⟨hc.1, this.1⟩, this.2.1, this.2.2⟩

/-! ### phase B: calls to the non-mutating consumers (all handed the original) -/

theorem phaseB_ro (syncW : Nat → Option Nat) (r : List Nat) (h : Heap) (hro : h.origRO = true) :
    (callAll syncW h (roDeliveries r)).1 = h ∧ ∀ s ∈ (callAll syncW h (roDeliveries r)).2, s.atCall = some h.orig ∧ s.ro = true := by
  induction r with
  | nil => simp [roDeliveries, callAll]
  | cons c rest ih =>
    have h1 := call_orig_ro syncW h c hro
    have h2 := call_orig_atCall syncW h c
    have hr : (call syncW h ⟨c, .orig⟩).2.ro = true := by
      simp only [call]; cases syncW c <;> simp [hro]
    simp only [roDeliveries, List.map_cons, callAll, List.mem_cons, forall_eq_or_imp] at ih ⊢
    rw [h1]
    exact ⟨ih.1, ⟨h2.1, hr⟩, ih.2⟩

theorem phaseB_single (syncW : Nat → Option Nat) (c : Nat) (h : Heap) :
    ∀ s ∈ (callAll syncW h (roDeliveries [c])).2, s.atCall = some h.orig := by
  have := call_orig_atCall syncW h c
  simp [roDeliveries, callAll, this.1]

theorem phaseB_silent (syncW : Nat → Option Nat) (r : List Nat) (h : Heap) (hs : ∀ c ∈ r, syncW c = none) :
    (callAll syncW h (roDeliveries r)).1 = h := by
  induction r with
  | nil => simp [roDeliveries, callAll]
  | cons c rest ih =>
    have h1 := call_orig_silent syncW h c (hs c (by simp))
    simp only [roDeliveries, List.map_cons, callAll] at ih ⊢
    rw [h1]
    exact ih (fun c' hc' => hs c' (by simp [hc']))

theorem markRO_orig (b : Bool) (h : Heap) : (markRO b h).orig = h.orig := by
  simp only [markRO]; split <;> rfl

theorem markRO_origRO (b : Bool) (h : Heap) : (markRO b h).origRO = (b || h.origRO) := by
  simp only [markRO]; cases b <;> simp

theorem heapA_spec (caps : List Bool) (inputRO : Bool) (c0 : Nat) (syncW : Nat → Option Nat) :
    (∀ s ∈ (heapA caps inputRO c0 syncW).2, s.atCall = some c0) ∧
    (heapA caps inputRO c0 syncW).1.origRO = inputRO ∧
    (lastGetsOrig caps inputRO = false → (heapA caps inputRO c0 syncW).1.orig = c0) :=
  phaseA syncW (lastGetsOrig caps inputRO) (mutableIdx caps) 0 { orig := c0, origRO := inputRO }

theorem callAll_consumers (syncW : Nat → Option Nat) (h : Heap) (ds : List Delivery) :
    ∀ s ∈ (callAll syncW h ds).2, s.consumer ∈ ds.map (·.consumer) := by
  induction ds generalizing h with
  | nil => simp [callAll]
  | cons d ds ih =>
    intro s hs
    simp only [callAll, List.mem_cons] at hs
    rcases hs with rfl | hs
    · simp only [call]; cases syncW d.consumer <;> simp
    · simp only [List.map_cons, List.mem_cons]; exact Or.inr (ih _ s hs)

/-- after marking, the original is read-only iff the input was, or several non-mutating consumers share it -/
theorem marked_origRO (caps : List Bool) (inputRO : Bool) (c0 : Nat) (syncW : Nat → Option Nat) :
    (markRO (marksRO caps inputRO) (heapA caps inputRO c0 syncW).1).origRO =
      (inputRO || decide ((readonlyIdx caps).length > 1)) := by
  rw [markRO_origRO, (heapA_spec caps inputRO c0 syncW).2.1]
  simp only [marksRO]
  cases inputRO <;> simp

/-! ### who holds what -/

theorem objOf_append_clone_or_ro (M : List Delivery) (r : List Nat) (c : Nat)
    (hM : ∀ d ∈ M, ∃ j, d.obj = .clone j) :
    objOf (M ++ roDeliveries r) c = none ∨ (∃ j, objOf (M ++ roDeliveries r) c = some (.clone j)) ∨
      (objOf (M ++ roDeliveries r) c = some .orig ∧ c ∈ r) := by
  simp only [objOf, List.find?_append]
  cases hf : M.find? (fun d => decide (d.consumer = c)) with
  | some d =>
    obtain ⟨j, hj⟩ := hM d (List.mem_of_find?_eq_some hf)
    right; left; exact ⟨j, by simp [hj]⟩
  | none =>
    simp only [Option.none_or]
    cases hg : (roDeliveries r).find? (fun d => decide (d.consumer = c)) with
    | none => left; rfl
    | some d =>
      right; right
      have hmem := List.mem_of_find?_eq_some hg
      have hp := List.find?_some hg
      simp only [roDeliveries, List.mem_map] at hmem
      obtain ⟨c', hc', rfl⟩ := hmem
      simp only [decide_eq_true_eq] at hp
      subst hp
      exact ⟨rfl, hc'⟩

/-- asynchronous writes by anybody but `c` leave the original untouched as long as every mutating
consumer holds a clone and the original is either read-only or held by `c` alone -/
theorem asyncWrites_orig (M : List Delivery) (r : List Nat) (c : Nat) (h : Heap) (ws : List (Nat × Nat))
    (hM : ∀ d ∈ M, ∃ j, d.obj = .clone j)
    (hw : ∀ p ∈ ws, p.1 ≠ c) (hshare : h.origRO = true ∨ ∀ c' ∈ r, c' = c) :
    (asyncWrites (M ++ roDeliveries r) h ws).orig = h.orig := by
  induction ws generalizing h with
  | nil => rfl
  | cons p ps ih =>
    obtain ⟨c', v⟩ := p
    have hne : c' ≠ c := hw (c', v) (by simp)
    have hps : ∀ p ∈ ps, p.1 ≠ c := fun p hp => hw p (by simp [hp])
    rcases objOf_append_clone_or_ro M r c' hM with hn | ⟨j, hj⟩ | ⟨ho, hr⟩
    · simp only [asyncWrites, hn]; exact ih h hps hshare
    · simp only [asyncWrites, hj]
      rw [ih _ hps (by rw [write_origRO]; exact hshare)]
      rfl
    · simp only [asyncWrites, ho]
      rcases hshare with hro | hall
      · rw [ih _ hps (by rw [write_origRO]; exact Or.inl hro)]
        exact write_orig_of_ro h .orig v hro
      · exact absurd (hall c' hr) hne


/-! ### order-independent summary -/

theorem mutDeliveries_origCount (L : Bool) (m : List Nat) (k : Nat) :
    ((mutDeliveries L m k).filter (fun d => decide (d.obj = .orig))).length = if L && !m.isEmpty then 1 else 0 := by
  induction m generalizing k with
  | nil => simp [mutDeliveries]
  | cons c rest ih =>
    cases rest with
    | nil => cases L <;> simp [mutDeliveries]
    | cons c' rest' =>
      have := ih (k + 1)
      simp only [mutDeliveries, List.filter_cons] at this ⊢
      simp only [reduceCtorEq, decide_false, Bool.false_eq_true, if_false]
      simpa using this

/-- in the mutable phase nobody is handed a read-only object (the original goes to a mutating consumer only when it is mutable) -/
theorem phaseA_seen_ro (syncW : Nat → Option Nat) (L : Bool) (m : List Nat) (k : Nat) (h : Heap)
    (hL : L = true → h.origRO = false) : ∀ s ∈ (callAll syncW h (mutDeliveries L m k)).2, s.ro = false := by
  induction m generalizing k h with
  | nil => simp [mutDeliveries, callAll]
  | cons c rest ih =>
    cases rest with
    | nil =>
      cases L with
      | true =>
        simp only [mutDeliveries, callAll, if_true, List.mem_singleton, forall_eq]
        simp only [call]; cases syncW c <;> simp [hL rfl]
      | false =>
        simp only [mutDeliveries, callAll, List.mem_singleton, forall_eq]
        simp only [call]; cases syncW c <;> simp
    | cons c' rest' =>
      have hc := call_clone syncW h c k
      have := ih (k + 1) (call syncW h ⟨c, .clone k⟩).1 (by rw [hc.2.2]; exact hL)
      simp only [mutDeliveries, callAll, List.mem_cons, forall_eq_or_imp] at this ⊢
      refine ⟨?_, this⟩
      simp only [call]; cases syncW c <;> simp

/-- in the read-only phase everybody sees the original's flag as it is after the marking -/
theorem phaseB_seen_ro (syncW : Nat → Option Nat) (r : List Nat) (h : Heap) :
    ∀ s ∈ (callAll syncW h (roDeliveries r)).2, s.ro = h.origRO := by
  induction r generalizing h with
  | nil => simp [roDeliveries, callAll]
  | cons c rest ih =>
    have h2 := call_orig_atCall syncW h c
    have := ih (call syncW h ⟨c, .orig⟩).1
    simp only [roDeliveries, List.map_cons, callAll, List.mem_cons, forall_eq_or_imp] at this ⊢
    refine ⟨?_, fun s hs => by rw [this s hs, h2.2]⟩
    simp only [call]; cases syncW c <;> simp

end OtelVerif.C06
