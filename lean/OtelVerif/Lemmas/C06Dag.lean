import OtelVerif.Lemmas.C06
import OtelVerif.Model.C06Dag
/-! lemmas for the whole-graph model of C06 (`Model/C06Dag.lean`) -/
namespace OtelVerif.C06.Dag
open OtelVerif.C06

/-! ### heap operations -/

@[simp] theorem write_next (h : Heap) (o t : Nat) : (h.write o t).next = h.next := by
  unfold Heap.write; split <;> rfl
@[simp] theorem write_ro (h : Heap) (o t : Nat) : (h.write o t).ro = h.ro := by
  unfold Heap.write; split <;> rfl
theorem write_content_ne (h : Heap) (o t x : Nat) (hx : x ≠ o) : (h.write o t).content x = h.content x := by
  unfold Heap.write; split <;> simp [hx]
theorem write_panics (h : Heap) (o t : Nat) (hro : h.ro o = false) : (h.write o t).panics = h.panics := by
  unfold Heap.write; simp [hro]
theorem write_content_self (h : Heap) (o t : Nat) (hro : h.ro o = false) :
    (h.write o t).content o = h.content o ++ [t] := by
  unfold Heap.write; simp [hro]

@[simp] theorem mark_content (h : Heap) (o : Nat) : (h.mark o).content = h.content := rfl
@[simp] theorem mark_next (h : Heap) (o : Nat) : (h.mark o).next = h.next := rfl
@[simp] theorem mark_panics (h : Heap) (o : Nat) : (h.mark o).panics = h.panics := rfl
theorem mark_ro_ne (h : Heap) (o x : Nat) (hx : x ≠ o) : (h.mark o).ro x = h.ro x := by simp [Heap.mark, hx]

@[simp] theorem writeAll_next (ws : List (Nat × Bool)) (o : Nat) (h : Heap) : (writeAll ws o h).next = h.next := by
  induction ws generalizing h with
  | nil => rfl
  | cons w ws ih => simp only [writeAll]; rw [ih]; split <;> simp
@[simp] theorem writeAll_ro (ws : List (Nat × Bool)) (o : Nat) (h : Heap) : (writeAll ws o h).ro = h.ro := by
  induction ws generalizing h with
  | nil => rfl
  | cons w ws ih => simp only [writeAll]; rw [ih]; split <;> simp
theorem writeAll_content_ne (ws : List (Nat × Bool)) (o : Nat) (h : Heap) (x : Nat) (hx : x ≠ o) :
    (writeAll ws o h).content x = h.content x := by
  induction ws generalizing h with
  | nil => rfl
  | cons w ws ih =>
    simp only [writeAll]; rw [ih]; split
    · exact write_content_ne _ _ _ _ hx
    · rfl
theorem writeAll_panics (ws : List (Nat × Bool)) (o : Nat) (h : Heap) (hro : h.ro o = false) :
    (writeAll ws o h).panics = h.panics := by
  induction ws generalizing h with
  | nil => rfl
  | cons w ws ih =>
    simp only [writeAll]
    split
    · rw [ih _ (by simpa using hro)]; exact write_panics _ _ _ hro
    · exact ih _ hro
theorem writeAll_content_self (ws : List (Nat × Bool)) (o : Nat) (h : Heap) (hro : h.ro o = false) :
    (writeAll ws o h).content o = h.content o ++ tags ws := by
  induction ws generalizing h with
  | nil => simp [writeAll, tags]
  | cons w ws ih =>
    simp only [writeAll]
    by_cases hw : w.2 = true
    · simp only [hw, if_true]
      rw [ih _ (by simpa using hro), write_content_self _ _ _ hro]
      simp [tags, hw]
    · have hw' : w.2 = false := by simpa using hw
      simp only [hw', Bool.false_eq_true, if_false]
      rw [ih _ hro]
      simp [tags, hw']
theorem writeAll_none (ws : List (Nat × Bool)) (o : Nat) (h : Heap) (hw : anyW ws = false) :
    writeAll ws o h = h ∧ tags ws = [] := by
  induction ws generalizing h with
  | nil => simp [writeAll, tags]
  | cons w ws ih =>
    simp only [anyW, List.any_cons, Bool.or_eq_false_iff] at hw
    have := ih h (by simpa [anyW] using hw.2)
    simp [writeAll, hw.1, this.1, tags]
    simpa [tags] using this.2

/-! ### capabilities -/

@[simp] theorem hasMut_nil : hasMut .nil = false := rfl
@[simp] theorem hasRO_nil : hasRO .nil = false := rfl
@[simp] theorem hasMut_exp (id : Nat) (m : Bool) (rest : Forest) : hasMut (.exp id m rest) = (m || hasMut rest) := by
  simp [hasMut, caps]
@[simp] theorem hasRO_exp (id : Nat) (m : Bool) (rest : Forest) : hasRO (.exp id m rest) = (!m || hasRO rest) := by
  simp [hasRO, caps]
@[simp] theorem hasMut_inner (k : Kind) (ws : List (Nat × Bool)) (kids rest : Forest) :
    hasMut (.inner k ws kids rest) = (innerCap k ws (caps kids) || hasMut rest) := by
  simp [hasMut, caps]
@[simp] theorem hasRO_inner (k : Kind) (ws : List (Nat × Bool)) (kids rest : Forest) :
    hasRO (.inner k ws kids rest) = (!innerCap k ws (caps kids) || hasRO rest) := by
  simp [hasRO, caps]

theorem roCount_exp (id : Nat) (m : Bool) (rest : Forest) :
    roCount (.exp id m rest) = roCount rest + (if m then 0 else 1) := by
  cases m <;> simp [roCount, caps]
theorem roCount_inner (k : Kind) (ws : List (Nat × Bool)) (kids rest : Forest) :
    roCount (.inner k ws kids rest) = roCount rest + (if innerCap k ws (caps kids) then 0 else 1) := by
  cases h : innerCap k ws (caps kids) <;> simp [roCount, caps, h]
theorem roCount_zero (f : Forest) (h : roCount f = 0) : hasRO f = false := by
  simp only [roCount, List.count_eq_zero] at h
  simp only [hasRO, List.any_eq_false, Bool.not_eq_true', Bool.not_eq_false]
  intro x hx
  cases x
  · exact absurd hx h
  · rfl

theorem idxWhere_nil_iff' (b : Bool) (cs : List Bool) (s : Nat) : idxWhere b cs s = [] ↔ ∀ c ∈ cs, c ≠ b := by
  induction cs generalizing s with
  | nil => simp [idxWhere]
  | cons c cs ih =>
    by_cases hc : c = b
    · simp [idxWhere, hc]
    · simp [idxWhere, hc, ih]

/-- a fan-out that does not advertise mutation has a non-mutating consumer or no mutating one -/
theorem fanCap_false (cs : List Bool) (h : fanCap cs = false) : cs.any (!·) = true ∨ cs.any id = false := by
  simp only [fanCap, Bool.and_eq_false_iff, Bool.not_eq_false', List.isEmpty_iff] at h
  rcases h with h | h
  · right
    have := (idxWhere_nil_iff' true cs 0).1 h
    simp only [List.any_eq_false, id]
    intro c hc; simpa using this c hc
  · left
    have hne : ¬ (readonlyIdx cs = []) := by intro e; simp [e] at h
    have : ¬ ∀ c ∈ cs, c ≠ false := fun hh => hne ((idxWhere_nil_iff' false cs 0).2 hh)
    simp only [List.any_eq_true, Bool.not_eq_true']
    apply Classical.byContradiction
    intro hcon
    exact this (fun c hc e => hcon ⟨c, hc, e⟩)

/-- an inner node that does not advertise mutation declares no mutator of its own, and its fan-out never hands its
object to a mutating kid -/
theorem innerCap_false (k : Kind) (ws : List (Nat × Bool)) (kids : Forest) (h : innerCap k ws (caps kids) = false) :
    anyW ws = false ∧ (hasRO kids = true ∨ hasMut kids = false) := by
  cases k with
  | pipe =>
    simp only [innerCap, pipelineCap, Bool.or_eq_false_iff] at h
    refine ⟨by simpa [anyW, List.any_map, Function.comp_def] using h.2, ?_⟩
    exact fanCap_false _ h.1
  | conn =>
    simp only [innerCap, aggregateCap, Bool.or_eq_false_iff] at h
    exact ⟨h.1, Or.inr h.2⟩

/-! ### passes with nothing to serve -/

theorem run_noMut (f : Forest) (noRO : Bool) (o : Nat) (h : Heap) (t : Trail) (hm : hasMut f = false) :
    run true noRO f o h = (h, []) ∧ spec true f t = [] := by
  induction f generalizing h with
  | nil => simp [run, spec]
  | exp id m rest ih =>
    simp only [hasMut_exp, Bool.or_eq_false_iff] at hm
    have := ih h hm.2
    simp [run, spec, hm.1, this]
  | inner k ws kids rest _ ih =>
    simp only [hasMut_inner, Bool.or_eq_false_iff] at hm
    have := ih h hm.2
    simp [run, spec, hm.1, this]

theorem run_noRO (f : Forest) (x : Bool) (o : Nat) (h : Heap) (t : Trail) (hm : hasRO f = false) :
    run false x f o h = (h, []) ∧ spec false f t = [] := by
  induction f generalizing h with
  | nil => simp [run, spec]
  | exp id m rest ih =>
    simp only [hasRO_exp, Bool.or_eq_false_iff, Bool.not_eq_false'] at hm
    have := ih h hm.2
    simp [run, spec, hm.1, this]
  | inner k ws kids rest _ ih =>
    simp only [hasRO_inner, Bool.or_eq_false_iff, Bool.not_eq_false'] at hm
    have := ih h hm.2
    simp [run, spec, hm.1, this]

/-! ### the refinement invariant -/

/-- what one pass guarantees -/
structure Good (mode noRO : Bool) (f : Forest) (o : Nat) (h : Heap) (r : Heap × List Obs) : Prop where
  obs : r.2.map Obs.proj = spec mode f (h.content o)
  panics : r.1.panics = h.panics
  next : h.next ≤ r.1.next
  frame : ∀ x, x < h.next → x ≠ o → r.1.content x = h.content x ∧ r.1.ro x = h.ro x
  quiet : (mode = false ∨ noRO = false ∨ h.ro o = true) → r.1.content o = h.content o
  roKeep : h.ro o = true → r.1.ro o = true
  objs : ∀ ob ∈ r.2, (ob.obj = o ∨ h.next ≤ ob.obj) ∧ ob.obj < r.1.next
  final : ∀ ob ∈ r.2, r.1.content ob.obj = ob.content ++ ob.own
  wr : ∀ ob ∈ r.2, ob.own ≠ [] → ob.ro = false
  roSee : h.ro o = true → ∀ ob ∈ r.2, ob.obj = o → ob.ro = true
  origFree : mode = true → (noRO = false ∨ h.ro o = true) → ∀ ob ∈ r.2, ob.obj ≠ o
  pw : (mode = false → roCount f ≤ 1 ∨ h.ro o = true) →
    r.2.Pairwise (fun a b => a.obj = b.obj → a.ro = true ∧ b.ro = true)

theorem Good.keep {mode noRO : Bool} {f : Forest} {o : Nat} {h : Heap} {r : Heap × List Obs}
    (G : Good mode noRO f o h r) (x : Nat) (hx : x < h.next)
    (hq : x ≠ o ∨ mode = false ∨ noRO = false ∨ h.ro o = true) : r.1.content x = h.content x := by
  by_cases hxo : x = o
  · subst hxo
    rcases hq with hq | hq
    · exact absurd rfl hq
    · exact G.quiet hq
  · exact (G.frame x hx hxo).1

/-- what a whole fan-out call guarantees -/
structure FanGood (f : Forest) (o : Nat) (h : Heap) (r : Heap × List Obs) : Prop where
  obs : r.2.map Obs.proj = specFan f (h.content o)
  panics : r.1.panics = h.panics
  next : h.next ≤ r.1.next
  frame : ∀ x, x < h.next → x ≠ o → r.1.content x = h.content x ∧ r.1.ro x = h.ro x
  quiet : (hasRO f = true ∨ hasMut f = false) → r.1.content o = h.content o
  roKeep : h.ro o = true → r.1.ro o = true
  objs : ∀ ob ∈ r.2, (ob.obj = o ∨ h.next ≤ ob.obj) ∧ ob.obj < r.1.next
  final : ∀ ob ∈ r.2, r.1.content ob.obj = ob.content ++ ob.own
  wr : ∀ ob ∈ r.2, ob.own ≠ [] → ob.ro = false
  roSee : h.ro o = true → ∀ ob ∈ r.2, ob.obj = o → ob.ro = true
  pw : r.2.Pairwise (fun a b => a.obj = b.obj → a.ro = true ∧ b.ro = true)

theorem fan_good_of (f : Forest)
    (ih : ∀ (mode noRO : Bool) (o : Nat) (h : Heap), o < h.next → Good mode noRO f o h (run mode noRO f o h))
    (o : Nat) (h : Heap) (ho : o < h.next) : FanGood f o h (fan f o h) := by
  have Ga := ih true (!hasRO f) o h ho
  -- content of `o` after the mutable pass, whenever the read-only pass serves anybody
  have hquietA : hasRO f = true ∨ hasMut f = false → (run true (!hasRO f) f o h).1.content o = h.content o := by
    rintro (hr | hm)
    · exact Ga.quiet (Or.inr (Or.inl (by simp [hr])))
    · rw [(run_noMut f _ o h [] hm).1]
  let a := run true (!hasRO f) f o h
  let h3 : Heap := if decide (roCount f > 1) && !a.1.ro o then a.1.mark o else a.1
  have h3c : h3.content = a.1.content := by simp only [h3]; split <;> rfl
  have h3n : h3.next = a.1.next := by simp only [h3]; split <;> rfl
  have h3p : h3.panics = a.1.panics := by simp only [h3]; split <;> rfl
  have h3ro : ∀ x, x ≠ o → h3.ro x = a.1.ro x := by
    intro x hx; simp only [h3]; split
    · exact mark_ro_ne _ _ _ hx
    · rfl
  have h3keep : a.1.ro o = true → h3.ro o = true := by
    intro hh; simp only [h3]; split
    · simp [Heap.mark]
    · exact hh
  have ho3 : o < h3.next := by rw [h3n]; exact Nat.lt_of_lt_of_le ho Ga.next
  have Gb := ih false false o h3 ho3
  have hfan : fan f o h = ((run false false f o h3).1, a.2 ++ (run false false f o h3).2) := rfl
  have hnb : a.1.next ≤ (run false false f o h3).1.next := by rw [← h3n]; exact Gb.next
  rw [hfan]
  refine ⟨?_, ?_, ?_, ?_, ?_, ?_, ?_, ?_, ?_, ?_, ?_⟩
  · -- observations
    simp only [List.map_append, specFan]
    rw [Ga.obs]
    by_cases hr : hasRO f = true
    · rw [Gb.obs, h3c, hquietA (Or.inl hr)]
    · have hr' : hasRO f = false := by simpa using hr
      rw [(run_noRO f false o h3 (h.content o) hr').1]
      simp [(run_noRO f false o h3 (h.content o) hr').2]
  · show (run false false f o h3).1.panics = h.panics
    rw [Gb.panics, h3p]; exact Ga.panics
  · show h.next ≤ (run false false f o h3).1.next
    exact Nat.le_trans Ga.next hnb
  · intro x hx hxo
    have hx3 : x < h3.next := by rw [h3n]; exact Nat.lt_of_lt_of_le hx Ga.next
    have b := Gb.frame x hx3 hxo
    have a' := Ga.frame x hx hxo
    show (run false false f o h3).1.content x = h.content x ∧ (run false false f o h3).1.ro x = h.ro x
    rw [b.1, b.2, h3c, h3ro x hxo]; exact a'
  · intro hq
    show (run false false f o h3).1.content o = h.content o
    rw [Gb.quiet (Or.inl rfl), h3c]; exact hquietA hq
  · intro hro
    show (run false false f o h3).1.ro o = true
    exact Gb.roKeep (h3keep (Ga.roKeep hro))
  · intro ob hob
    show (ob.obj = o ∨ h.next ≤ ob.obj) ∧ ob.obj < (run false false f o h3).1.next
    rcases List.mem_append.1 hob with hob | hob
    · have := Ga.objs ob hob
      exact ⟨this.1, Nat.lt_of_lt_of_le this.2 hnb⟩
    · have := Gb.objs ob hob
      refine ⟨?_, this.2⟩
      rcases this.1 with e | e
      · exact Or.inl e
      · right; rw [h3n] at e; exact Nat.le_trans Ga.next e
  · intro ob hob
    show (run false false f o h3).1.content ob.obj = ob.content ++ ob.own
    rcases List.mem_append.1 hob with hob | hob
    · have hlt : ob.obj < h3.next := by rw [h3n]; exact (Ga.objs ob hob).2
      rw [Gb.keep ob.obj hlt (Or.inr (Or.inl rfl)), h3c]
      exact Ga.final ob hob
    · exact Gb.final ob hob
  · intro ob hob
    rcases List.mem_append.1 hob with hob | hob
    · exact Ga.wr ob hob
    · exact Gb.wr ob hob
  · intro hro ob hob hobj
    rcases List.mem_append.1 hob with hob | hob
    · exact Ga.roSee hro ob hob hobj
    · exact Gb.roSee (h3keep (Ga.roKeep hro)) ob hob hobj
  · -- any two exporter calls on the same object both see it read-only
    show (a.2 ++ (run false false f o h3).2).Pairwise (fun a b => a.obj = b.obj → a.ro = true ∧ b.ro = true)
    by_cases hr : hasRO f = true
    · -- the read-only pass serves somebody: the mutable pass used clones only
      have hpremB : (false = false → roCount f ≤ 1 ∨ h3.ro o = true) := by
        intro _
        by_cases hc : roCount f > 1
        · right
          simp only [h3]
          by_cases hro : a.1.ro o = true
          · simp [hro]
          · have : a.1.ro o = false := by simpa using hro
            simp [hc, this, Heap.mark]
        · left; omega
      refine List.pairwise_append.2 ⟨Ga.pw (fun hm => by cases hm), Gb.pw hpremB, ?_⟩
      intro x hx y hy hxy
      -- x comes from the mutable pass with clones only: its object is not `o` and older than everything of the second pass
      exfalso
      have hxo := Ga.objs x hx
      have hyo := Gb.objs y hy
      have hxne : x.obj ≠ o := by
        -- with a non-mutating consumer present nobody of the mutable pass is handed `o`
        intro e
        have := Ga.origFree rfl (Or.inl (by simp [hr])) x hx
        exact this e
      rcases hyo.1 with e | e
      · exact hxne (hxy.trans e)
      · rw [h3n] at e
        have hx2 : x.obj < a.1.next := hxo.2
        have hxy' : x.obj = y.obj := hxy
        omega
    · have hr' : hasRO f = false := by simpa using hr
      rw [(run_noRO f false o h3 [] hr').1, List.append_nil]
      exact Ga.pw (fun hm => by cases hm)

theorem FanGood.keep {f : Forest} {o : Nat} {h : Heap} {r : Heap × List Obs} (F : FanGood f o h r) (x : Nat) (hx : x < h.next)
    (hq : x ≠ o ∨ hasRO f = true ∨ hasMut f = false) : r.1.content x = h.content x := by
  by_cases hxo : x = o
  · subst hxo
    rcases hq with hq | hq
    · exact absurd rfl hq
    · exact F.quiet hq
  · exact (F.frame x hx hxo).1

theorem run_inner (mode noRO : Bool) (k : Kind) (ws : List (Nat × Bool)) (kids rest : Forest) (o : Nat) (h : Heap) :
    run mode noRO (.inner k ws kids rest) o h =
      if innerCap k ws (caps kids) = mode then
        ((run mode noRO rest o (fan kids (deliver mode noRO (hasMut rest) o h).2
            (writeAll ws (deliver mode noRO (hasMut rest) o h).2 (deliver mode noRO (hasMut rest) o h).1)).1).1,
          (fan kids (deliver mode noRO (hasMut rest) o h).2
            (writeAll ws (deliver mode noRO (hasMut rest) o h).2 (deliver mode noRO (hasMut rest) o h).1)).2 ++
          (run mode noRO rest o (fan kids (deliver mode noRO (hasMut rest) o h).2
            (writeAll ws (deliver mode noRO (hasMut rest) o h).2 (deliver mode noRO (hasMut rest) o h).1)).1).2)
      else run mode noRO rest o h := by
  simp only [run, fan, List.append_assoc]

/-- the three ways a consumer is handed its object -/
theorem deliver_cases (mode noRO restHasMut : Bool) (o : Nat) (h : Heap) :
    (mode = false ∧ deliver mode noRO restHasMut o h = (h, o)) ∨
    (mode = true ∧ restHasMut = false ∧ noRO = true ∧ h.ro o = false ∧ deliver mode noRO restHasMut o h = (h, o)) ∨
    (mode = true ∧ deliver mode noRO restHasMut o h = h.clone o) := by
  cases mode
  · left; simp [deliver]
  · right
    by_cases hc : (!restHasMut && noRO && !h.ro o) = true
    · left
      have hc' := hc
      simp only [Bool.and_eq_true, Bool.not_eq_true'] at hc'
      exact ⟨rfl, hc'.1.1, hc'.1.2, hc'.2, by simp [deliver, hc]⟩
    · right; exact ⟨rfl, by simp [deliver, hc]⟩

@[simp] theorem clone_snd (h : Heap) (o : Nat) : (h.clone o).2 = h.next := rfl
@[simp] theorem clone_next (h : Heap) (o : Nat) : (h.clone o).1.next = h.next + 1 := rfl
@[simp] theorem clone_panics (h : Heap) (o : Nat) : (h.clone o).1.panics = h.panics := rfl
theorem clone_content (h : Heap) (o x : Nat) : (h.clone o).1.content x = if x = h.next then h.content o else h.content x := rfl
theorem clone_ro (h : Heap) (o x : Nat) : (h.clone o).1.ro x = if x = h.next then false else h.ro x := rfl

/-- **the refinement invariant holds for every forest, every pass, every heap** -/
theorem run_good (f : Forest) : ∀ (mode noRO : Bool) (o : Nat) (h : Heap), o < h.next →
    Good mode noRO f o h (run mode noRO f o h) := by
  induction f with
  | nil =>
    intro mode noRO o h _
    exact ⟨by simp [run, spec], rfl, Nat.le_refl _, fun _ _ _ => ⟨rfl, rfl⟩, fun _ => rfl, fun hh => hh,
      by simp [run], by simp [run], by simp [run], by simp [run], by simp [run], by simp [run]⟩
  | exp id m rest ih =>
    intro mode noRO o h ho
    by_cases hm : m = mode
    · subst hm
      rcases deliver_cases m noRO (hasMut rest) o h with ⟨hmode, hd⟩ | ⟨hmode, hrm, hnr, hro, hd⟩ | ⟨hmode, hd⟩
      · -- read-only pass
        subst hmode
        have G := ih false noRO o h ho
        have hrun : run false noRO (.exp id false rest) o h =
            ((run false noRO rest o h).1, ⟨id, o, h.content o, h.ro o, []⟩ :: (run false noRO rest o h).2) := by
          simp [run, deliver]
        rw [hrun]
        refine ⟨by simp [spec, Obs.proj, G.obs], G.panics, G.next, G.frame, G.quiet, G.roKeep, ?_, ?_, ?_, ?_, ?_, ?_⟩
        · intro ob hob
          rcases List.mem_cons.1 hob with rfl | hob
          · exact ⟨Or.inl rfl, Nat.lt_of_lt_of_le ho G.next⟩
          · exact G.objs ob hob
        · intro ob hob
          rcases List.mem_cons.1 hob with rfl | hob
          · simp [G.quiet (Or.inl rfl)]
          · exact G.final ob hob
        · intro ob hob
          rcases List.mem_cons.1 hob with rfl | hob
          · intro hh; exact absurd rfl hh
          · exact G.wr ob hob
        · intro hro ob hob hobj
          rcases List.mem_cons.1 hob with rfl | hob
          · exact hro
          · exact G.roSee hro ob hob hobj
        · intro hmode; cases hmode
        · intro hprem
          rcases hprem rfl with hcnt | hro
          · -- this is the only non-mutating consumer: nobody else is served in this pass
            have h0 : roCount rest = 0 := by rw [roCount_exp] at hcnt; simp at hcnt; omega
            have hnone := (run_noRO rest noRO o h [] (roCount_zero rest h0)).1
            rw [hnone]; simp
          · refine List.pairwise_cons.2 ⟨?_, G.pw (fun _ => Or.inr hro)⟩
            intro b hb hab
            exact ⟨hro, G.roSee hro b hb hab.symm⟩
      · -- the last mutating consumer is handed the original
        subst hmode
        have hrest := run_noMut rest noRO o (h.write o id) (h.content o) hrm
        have hrun : run true noRO (.exp id true rest) o h = (h.write o id, [⟨id, o, h.content o, h.ro o, [id]⟩]) := by
          simp [run, hd, hrest.1]
        rw [hrun]
        refine ⟨by simp [spec, Obs.proj, hrest.2], write_panics _ _ _ hro, by simp, ?_, ?_, ?_, ?_, ?_, ?_, ?_, ?_, ?_⟩
        · intro x _ hxo; exact ⟨write_content_ne _ _ _ _ hxo, by simp⟩
        · rintro (hh | hh | hh)
          · cases hh
          · rw [hnr] at hh; cases hh
          · rw [hro] at hh; cases hh
        · intro hh; rw [hro] at hh; cases hh
        · intro ob hob
          simp only [List.mem_singleton] at hob; subst hob
          exact ⟨Or.inl rfl, by simpa using ho⟩
        · intro ob hob
          simp only [List.mem_singleton] at hob; subst hob
          exact write_content_self _ _ _ hro
        · intro ob hob _
          simp only [List.mem_singleton] at hob; subst hob
          exact hro
        · intro hh; rw [hro] at hh; cases hh
        · rintro _ (hh | hh)
          · rw [hnr] at hh; cases hh
          · rw [hro] at hh; cases hh
        · intro _; simp
      · -- a mutating consumer is handed a clone
        subst hmode
        have hne : o ≠ h.next := Nat.ne_of_lt ho
        have hro1 : (h.clone o).1.ro h.next = false := by simp [clone_ro]
        have G := ih true noRO o ((h.clone o).1.write h.next id) (by simp; omega)
        have hGn : h.next + 1 ≤ (run true noRO rest o ((h.clone o).1.write h.next id)).1.next := by
          have := G.next; simpa using this
        have hrun : run true noRO (.exp id true rest) o h =
            ((run true noRO rest o ((h.clone o).1.write h.next id)).1,
              ⟨id, h.next, h.content o, false, [id]⟩ :: (run true noRO rest o ((h.clone o).1.write h.next id)).2) := by
          simp [run, hd, clone_content, clone_ro]
        have hc2 : ((h.clone o).1.write h.next id).content o = h.content o := by
          rw [write_content_ne _ _ _ _ hne, clone_content]; simp [hne]
        have hr2 : ((h.clone o).1.write h.next id).ro o = h.ro o := by simp [clone_ro, hne]
        rw [hrun]
        refine ⟨?_, ?_, ?_, ?_, ?_, ?_, ?_, ?_, ?_, ?_, ?_, ?_⟩
        · simp [spec, Obs.proj, G.obs, hc2]
        · rw [G.panics, write_panics _ _ _ hro1]; rfl
        · exact Nat.le_trans (by omega) hGn
        · intro x hx hxo
          have hxn : x ≠ h.next := Nat.ne_of_lt hx
          have g := G.frame x (by simp; omega) hxo
          rw [g.1, g.2, write_content_ne _ _ _ _ hxn]
          simp [clone_content, clone_ro, hxn]
        · intro hq
          rw [G.quiet (by rw [hr2]; exact hq), hc2]
        · intro hh; exact G.roKeep (by rw [hr2]; exact hh)
        · intro ob hob
          rcases List.mem_cons.1 hob with rfl | hob
          · exact ⟨Or.inr (Nat.le_refl _), Nat.lt_of_lt_of_le (Nat.lt_succ_self _) hGn⟩
          · have := G.objs ob hob
            refine ⟨?_, this.2⟩
            rcases this.1 with e | e
            · exact Or.inl e
            · right; simp at e; omega
        · intro ob hob
          rcases List.mem_cons.1 hob with rfl | hob
          · show (run true noRO rest o ((h.clone o).1.write h.next id)).1.content h.next = h.content o ++ [id]
            rw [G.keep h.next (by simp) (Or.inl (Ne.symm hne)), write_content_self _ _ _ hro1, clone_content]; simp
          · exact G.final ob hob
        · intro ob hob
          rcases List.mem_cons.1 hob with rfl | hob
          · intro _; rfl
          · exact G.wr ob hob
        · intro hro ob hob hobj
          rcases List.mem_cons.1 hob with rfl | hob
          · exact absurd hobj (Ne.symm hne)
          · exact G.roSee (by rw [hr2]; exact hro) ob hob hobj
        · intro _ hq ob hob
          rcases List.mem_cons.1 hob with rfl | hob
          · exact Ne.symm hne
          · exact G.origFree rfl (by rw [hr2]; exact hq) ob hob
        · intro _
          refine List.pairwise_cons.2 ⟨?_, G.pw (fun hm => by cases hm)⟩
          intro b hb hab
          exfalso
          have := (G.objs b hb).1
          simp only [write_next, clone_next] at this
          have hab' : h.next = b.obj := hab
          rcases this with e | e
          · exact hne (e.symm.trans hab'.symm)
          · omega
    · have hrun : run mode noRO (.exp id m rest) o h = run mode noRO rest o h := by simp [run, hm]
      have G := ih mode noRO o h ho
      rw [hrun]
      refine ⟨by simp [spec, hm, G.obs], G.panics, G.next, G.frame, G.quiet, G.roKeep, G.objs, G.final, G.wr, G.roSee,
        G.origFree, ?_⟩
      intro hprem
      apply G.pw
      intro hmode
      rcases hprem hmode with hcnt | hro
      · left
        subst hmode
        have hmt : m = true := by cases m <;> simp_all
        rw [roCount_exp, hmt] at hcnt; simpa using hcnt
      · exact Or.inr hro
  | inner k ws kids rest ihk ihr =>
    intro mode noRO o h ho
    rw [run_inner]
    by_cases hc : innerCap k ws (caps kids) = mode
    · simp only [hc, if_true]
      rcases deliver_cases mode noRO (hasMut rest) o h with ⟨hmode, hd⟩ | ⟨hmode, hrm, hnr, hro, hd⟩ | ⟨hmode, hd⟩
      · -- read-only pass: the node declares no mutator and its fan-out leaves the shared object alone
        subst hmode
        rw [hd]
        obtain ⟨hw, hq⟩ := innerCap_false k ws kids hc
        have hwa := writeAll_none ws o h hw
        simp only [hwa.1]
        have F := fan_good_of kids ihk o h ho
        have G := ihr false noRO o (fan kids o h).1 (Nat.lt_of_lt_of_le ho F.next)
        have hco : (fan kids o h).1.content o = h.content o := F.quiet hq
        refine ⟨?_, ?_, ?_, ?_, ?_, ?_, ?_, ?_, ?_, ?_, ?_, ?_⟩
        · simp only [List.map_append, spec, hc, if_true, F.obs, G.obs, hco, hwa.2, List.append_nil, specFan,
            List.append_assoc]
        · rw [G.panics, F.panics]
        · exact Nat.le_trans F.next G.next
        · intro x hx hxo
          have g := G.frame x (Nat.lt_of_lt_of_le hx F.next) hxo
          rw [g.1, g.2]; exact F.frame x hx hxo
        · intro _; rw [G.quiet (Or.inl rfl), hco]
        · intro hh; exact G.roKeep (F.roKeep hh)
        · intro ob hob
          rcases List.mem_append.1 hob with hob | hob
          · have := F.objs ob hob
            exact ⟨this.1, Nat.lt_of_lt_of_le this.2 G.next⟩
          · have := G.objs ob hob
            refine ⟨?_, this.2⟩
            rcases this.1 with e | e
            · exact Or.inl e
            · exact Or.inr (Nat.le_trans F.next e)
        · intro ob hob
          rcases List.mem_append.1 hob with hob | hob
          · rw [G.keep ob.obj (F.objs ob hob).2 (Or.inr (Or.inl rfl))]; exact F.final ob hob
          · exact G.final ob hob
        · intro ob hob
          rcases List.mem_append.1 hob with hob | hob
          · exact F.wr ob hob
          · exact G.wr ob hob
        · intro hro ob hob hobj
          rcases List.mem_append.1 hob with hob | hob
          · exact F.roSee hro ob hob hobj
          · exact G.roSee (F.roKeep hro) ob hob hobj
        · intro hmode; cases hmode
        · intro hprem
          rcases hprem rfl with hcnt | hro
          · have h0 : roCount rest = 0 := by rw [roCount_inner, hc] at hcnt; simp at hcnt; omega
            have hnone := (run_noRO rest noRO o (fan kids o h).1 [] (roCount_zero rest h0)).1
            rw [hnone, List.append_nil]; exact F.pw
          · refine List.pairwise_append.2 ⟨F.pw, G.pw (fun _ => Or.inr (F.roKeep hro)), ?_⟩
            intro a ha b hb hab
            have hbo : b.obj = o := by
              rcases (G.objs b hb).1 with e | e
              · exact e
              · have := (F.objs a ha).2; omega
            exact ⟨F.roSee hro a ha (hab.trans hbo), G.roSee (F.roKeep hro) b hb hbo⟩
      · -- the last mutating consumer is handed the original
        subst hmode
        rw [hd]
        have F := fan_good_of kids ihk o (writeAll ws o h) (by simp; exact ho)
        have hrest := run_noMut rest noRO o (fan kids o (writeAll ws o h)).1 (h.content o) hrm
        simp only [hrest.1, List.append_nil]
        refine ⟨?_, ?_, ?_, ?_, ?_, ?_, ?_, ?_, ?_, ?_, ?_, ?_⟩
        · simp only [spec, hc, if_true, F.obs, hrest.2, List.append_nil, specFan,
            writeAll_content_self ws o h hro]
        · rw [F.panics, writeAll_panics ws o h hro]
        · have := F.next; simpa using this
        · intro x hx hxo
          have f' := F.frame x (by simpa using hx) hxo
          rw [f'.1, f'.2, writeAll_content_ne ws o h x hxo]; simp
        · rintro (hh | hh | hh)
          · cases hh
          · rw [hnr] at hh; cases hh
          · rw [hro] at hh; cases hh
        · intro hh; rw [hro] at hh; cases hh
        · intro ob hob
          have := F.objs ob hob
          simpa using this
        · exact F.final
        · exact F.wr
        · intro hh; rw [hro] at hh; cases hh
        · rintro _ (hh | hh)
          · rw [hnr] at hh; cases hh
          · rw [hro] at hh; cases hh
        · intro _; exact F.pw
      · -- a mutating consumer is handed a clone
        subst hmode
        rw [hd]
        simp only [clone_snd]
        have hne : o ≠ h.next := Nat.ne_of_lt ho
        have hro1 : (h.clone o).1.ro h.next = false := by simp [clone_ro]
        have F := fan_good_of kids ihk h.next (writeAll ws h.next (h.clone o).1) (by simp)
        have hFo := F.frame o (by simp; omega) hne
        have hco : (fan kids h.next (writeAll ws h.next (h.clone o).1)).1.content o = h.content o := by
          rw [hFo.1, writeAll_content_ne _ _ _ _ hne, clone_content]; simp [hne]
        have hroo : (fan kids h.next (writeAll ws h.next (h.clone o).1)).1.ro o = h.ro o := by
          rw [hFo.2]; simp [clone_ro, hne]
        have hFn : h.next + 1 ≤ (fan kids h.next (writeAll ws h.next (h.clone o).1)).1.next := by
          have := F.next; simpa using this
        have G := ihr true noRO o (fan kids h.next (writeAll ws h.next (h.clone o).1)).1 (by omega)
        have hc1 : (writeAll ws h.next (h.clone o).1).content h.next = h.content o ++ tags ws := by
          rw [writeAll_content_self _ _ _ hro1, clone_content]; simp
        have hFge : ∀ ob ∈ (fan kids h.next (writeAll ws h.next (h.clone o).1)).2, h.next ≤ ob.obj := by
          intro ob hob
          rcases (F.objs ob hob).1 with e | e
          · omega
          · simp at e; omega
        refine ⟨?_, ?_, ?_, ?_, ?_, ?_, ?_, ?_, ?_, ?_, ?_, ?_⟩
        · simp only [List.map_append, spec, hc, if_true, F.obs, G.obs, hco, hc1, specFan, List.append_assoc]
        · rw [G.panics, F.panics, writeAll_panics _ _ _ hro1]; rfl
        · exact Nat.le_trans (by omega) G.next
        · intro x hx hxo
          have hxn : x ≠ h.next := Nat.ne_of_lt hx
          have g := G.frame x (by omega) hxo
          have f' := F.frame x (by simp; omega) hxn
          rw [g.1, g.2, f'.1, f'.2, writeAll_content_ne _ _ _ _ hxn]
          simp [clone_content, clone_ro, hxn]
        · intro hq
          rw [G.quiet (by rw [hroo]; exact hq), hco]
        · intro hh; exact G.roKeep (by rw [hroo]; exact hh)
        · intro ob hob
          rcases List.mem_append.1 hob with hob | hob
          · exact ⟨Or.inr (hFge ob hob), Nat.lt_of_lt_of_le (F.objs ob hob).2 G.next⟩
          · have := G.objs ob hob
            refine ⟨?_, this.2⟩
            rcases this.1 with e | e
            · exact Or.inl e
            · right; omega
        · intro ob hob
          rcases List.mem_append.1 hob with hob | hob
          · have hge := hFge ob hob
            rw [G.keep ob.obj (F.objs ob hob).2 (Or.inl (by omega))]; exact F.final ob hob
          · exact G.final ob hob
        · intro ob hob
          rcases List.mem_append.1 hob with hob | hob
          · exact F.wr ob hob
          · exact G.wr ob hob
        · intro hro ob hob hobj
          rcases List.mem_append.1 hob with hob | hob
          · have := hFge ob hob; omega
          · exact G.roSee (by rw [hroo]; exact hro) ob hob hobj
        · intro _ hq ob hob
          rcases List.mem_append.1 hob with hob | hob
          · have := hFge ob hob; omega
          · exact G.origFree rfl (by rw [hroo]; exact hq) ob hob
        · intro _
          refine List.pairwise_append.2 ⟨F.pw, G.pw (fun hm => by cases hm), ?_⟩
          intro a ha b hb hab
          exfalso
          have h1 := hFge a ha
          have h2 := (F.objs a ha).2
          rcases (G.objs b hb).1 with e | e
          · omega
          · omega
    · simp only [hc, if_false]
      have G := ihr mode noRO o h ho
      refine ⟨by simp [spec, hc, G.obs], G.panics, G.next, G.frame, G.quiet, G.roKeep, G.objs, G.final, G.wr, G.roSee,
        G.origFree, ?_⟩
      intro hprem
      apply G.pw
      intro hmode
      rcases hprem hmode with hcnt | hro
      · left
        subst hmode
        have hct : innerCap k ws (caps kids) = true := by
          cases hh : innerCap k ws (caps kids)
          · exact absurd hh hc
          · rfl
        rw [roCount_inner, hct] at hcnt; simpa using hcnt
      · exact Or.inr hro

theorem fan_good (f : Forest) (o : Nat) (h : Heap) (ho : o < h.next) : FanGood f o h (fan f o h) :=
  fan_good_of f (run_good f) o h ho

/-- the serving order of a fan-out is a permutation of the natural order -/
theorem specFan_perm (f : Forest) : ∀ t : Trail, (specFan f t).Perm (specAll f t) := by
  induction f with
  | nil => intro t; simp [specFan, spec, specAll]
  | exp id m rest ih =>
    intro t
    have := ih t
    cases m
    · simp only [specFan, spec, specAll, if_true]
      simp only [specFan] at this
      have h1 : (spec true rest t ++ (id, t) :: spec false rest t).Perm ((id, t) :: (spec true rest t ++ spec false rest t)) :=
        List.perm_middle
      simpa using h1.trans (List.Perm.cons _ this)
    · simp only [specFan, spec, specAll, if_true]
      simp only [specFan] at this
      simpa using List.Perm.cons (id, t) this
  | inner k ws kids rest ihk ihr =>
    intro t
    have hk := ihk (t ++ tags ws)
    have hr := ihr t
    simp only [specFan] at hk hr
    by_cases hc : innerCap k ws (caps kids) = true
    · have hc' : ¬ (innerCap k ws (caps kids) = false) := by simp [hc]
      simp only [specFan, spec, specAll, hc, if_true, List.append_assoc]
      have := List.Perm.append hk hr
      simpa [List.append_assoc] using this
    · have hc' : innerCap k ws (caps kids) = false := by simpa using hc
      simp only [specFan, spec, specAll, hc', if_true, List.append_assoc]
      have h1 : (spec true rest t ++ (spec true kids (t ++ tags ws) ++ (spec false kids (t ++ tags ws) ++ spec false rest t))).Perm
          ((spec true kids (t ++ tags ws) ++ spec false kids (t ++ tags ws)) ++ (spec true rest t ++ spec false rest t)) := by
        rw [← List.append_assoc (spec true kids _), ← List.append_assoc (spec true rest t)]
        rw [← List.append_assoc (spec true kids _ ++ spec false kids _)]
        exact List.Perm.append_right _ List.perm_append_comm
      have h2 := h1.trans (List.Perm.append hk hr)
      simpa [List.append_assoc] using h2

end OtelVerif.C06.Dag
