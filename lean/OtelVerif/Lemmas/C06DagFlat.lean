import OtelVerif.Lemmas.C06Dag
/-! the whole-graph semantics (`Dag.fan`) restricted to ONE fan-out over plain exporters is the flat, code-tied model
(`deliveries`, `seenRO`) -/
namespace OtelVerif.C06.Dag
open OtelVerif.C06

/-- number of the object a delivery of the flat model denotes: the caller's object, or the `k`-th object allocated after `base` -/
def objNum (o base : Nat) : Obj → Nat
  | .orig => o
  | .clone k => base + k

@[simp] theorem objNum_orig (o base : Nat) : objNum o base .orig = o := rfl
@[simp] theorem objNum_clone (o base k : Nat) : objNum o base (.clone k) = base + k := rfl

theorem mark_if_ro (b : Bool) (H : Heap) (o : Nat) : (if (b && !H.ro o) = true then H.mark o else H).ro o = (H.ro o || b) := by
  cases b <;> cases hr : H.ro o <;> simp [hr, Heap.mark]

theorem caps_ofCaps (cs : List Bool) (i : Nat) : caps (ofCaps cs i) = cs := by
  induction cs generalizing i with
  | nil => rfl
  | cons c cs ih => simp [ofCaps, caps, ih]

theorem hasMut_ofCaps_false (cs : List Bool) (i j : Nat) :
    hasMut (ofCaps cs i) = false ↔ idxWhere true cs j = [] := by
  rw [hasMut, caps_ofCaps, idxWhere_nil_iff']
  simp only [List.any_eq_false, id]

/-- the loop over the mutating consumers -/
theorem run_true_ofCaps (cs : List Bool) : ∀ (i k base : Nat) (noRO : Bool) (o : Nat) (h : Heap),
    h.next = base + k → o < h.next →
    (run true noRO (ofCaps cs i) o h).2.map (fun ob => (ob.id, ob.obj)) =
      (mutDeliveries (noRO && !h.ro o) (idxWhere true cs i) k).map (fun d => (d.consumer, objNum o base d.obj)) ∧
    (run true noRO (ofCaps cs i) o h).1.ro o = h.ro o := by
  induction cs with
  | nil => intro i k base noRO o h _ _; simp [ofCaps, run, idxWhere, mutDeliveries]
  | cons c cs ih =>
    intro i k base noRO o h hn ho
    cases c with
    | false =>
      have := ih (i + 1) k base noRO o h hn ho
      simpa [ofCaps, run, idxWhere] using this
    | true =>
      have hne : o ≠ h.next := Nat.ne_of_lt ho
      cases hM : idxWhere true cs (i + 1) with
      | nil =>
        -- the last mutating consumer
        have hm : hasMut (ofCaps cs (i + 1)) = false := (hasMut_ofCaps_false cs (i + 1) (i + 1)).2 hM
        by_cases hL : (noRO && !h.ro o) = true
        · have hd : deliver true noRO false o h = (h, o) := by
            simp only [Bool.and_eq_true, Bool.not_eq_true'] at hL
            simp [deliver, hL.1, hL.2]
          have hrest := (run_noMut (ofCaps cs (i + 1)) noRO o (h.write o i) [] hm).1
          simp [ofCaps, run, idxWhere, hM, mutDeliveries, hm, hd, hrest, hL]
        · have hL' : (noRO && !h.ro o) = false := by simpa using hL
          have hd : deliver true noRO false o h = h.clone o := by
            simp only [deliver, if_true, Bool.not_false, Bool.true_and]
            rw [hL']; simp
          have hrest := (run_noMut (ofCaps cs (i + 1)) noRO o ((h.clone o).1.write h.next i) [] hm).1
          simp [ofCaps, run, idxWhere, hM, mutDeliveries, hm, hd, hrest, hL', ← hn, clone_ro, hne]
      | cons c' M' =>
        have hm : hasMut (ofCaps cs (i + 1)) = true := by
          cases hh : hasMut (ofCaps cs (i + 1))
          · have := (hasMut_ofCaps_false cs (i + 1) (i + 1)).1 hh; rw [hM] at this; cases this
          · rfl
        have hd : deliver true noRO true o h = h.clone o := by simp [deliver]
        have hro2 : ((h.clone o).1.write h.next i).ro o = h.ro o := by simp [clone_ro, hne]
        have := ih (i + 1) (k + 1) base noRO o ((h.clone o).1.write h.next i) (by simp; omega) (by simp; omega)
        rw [hro2, hM] at this
        simp only [ofCaps, run, if_true, hm, hd, clone_snd, idxWhere, hM, mutDeliveries, List.map_cons, objNum_clone, ← hn]
        exact ⟨by rw [this.1], this.2⟩

/-- the loop over the non-mutating consumers: everybody is handed the caller's object; nothing is written -/
theorem run_false_ofCaps (cs : List Bool) : ∀ (i : Nat) (x : Bool) (o : Nat) (h : Heap),
    run false x (ofCaps cs i) o h =
      (h, (idxWhere false cs i).map (fun c => (⟨c, o, h.content o, h.ro o, []⟩ : Obs))) := by
  induction cs with
  | nil => intro i x o h; simp [ofCaps, run, idxWhere]
  | cons c cs ih =>
    intro i x o h
    cases c with
    | false => simp [ofCaps, run, idxWhere, deliver, ih (i + 1) x o h]
    | true => simp [ofCaps, run, idxWhere, ih (i + 1) x o h]

theorem idxWhere_length (b : Bool) (cs : List Bool) (s : Nat) : (idxWhere b cs s).length = cs.count b := by
  induction cs generalizing s with
  | nil => simp [idxWhere]
  | cons x xs ih =>
    by_cases hx : x = b
    · subst hx; simp [idxWhere, ih]
    · have : (x == b) = false := by simpa using hx
      simp [idxWhere, hx, ih]

theorem hasRO_ofCaps (cs : List Bool) (i : Nat) : hasRO (ofCaps cs i) = !(readonlyIdx cs).isEmpty := by
  rw [hasRO, caps_ofCaps]
  cases h : (readonlyIdx cs) with
  | nil =>
    have := (idxWhere_nil_iff' false cs 0).1 h
    simp only [List.isEmpty_nil, Bool.not_true, List.any_eq_false, Bool.not_eq_true', Bool.not_eq_false]
    intro c hc; cases c
    · exact absurd rfl (this false hc)
    · rfl
  | cons a b =>
    have hne : ¬ (idxWhere false cs 0 = []) := by intro e; simp [readonlyIdx, e] at h
    have : ¬ ∀ c ∈ cs, c ≠ false := fun hh => hne ((idxWhere_nil_iff' false cs 0).2 hh)
    simp only [List.isEmpty_cons, Bool.not_false, List.any_eq_true, Bool.not_eq_true']
    apply Classical.byContradiction
    intro hcon
    exact this (fun c hc e => hcon ⟨c, hc, e⟩)

/-- **one level of the whole-graph semantics = the flat model**: who is handed which object, and the read-only flag each sees -/
theorem fan_ofCaps (cs : List Bool) (o : Nat) (h : Heap) (ho : o < h.next) :
    (fan (ofCaps cs 0) o h).2.map (fun ob => (ob.id, ob.obj)) =
      (deliveries cs (h.ro o)).map (fun d => (d.consumer, objNum o h.next d.obj)) ∧
    ∀ ob ∈ (fan (ofCaps cs 0) o h).2, ob.ro = seenRO cs (h.ro o) ob.id := by
  have hA := run_true_ofCaps cs 0 0 h.next (!hasRO (ofCaps cs 0)) o h (by simp) ho
  have hnoRO : (!hasRO (ofCaps cs 0)) = (readonlyIdx cs).isEmpty := by rw [hasRO_ofCaps]; simp
  have hcount : roCount (ofCaps cs 0) = (readonlyIdx cs).length := by
    rw [roCount, caps_ofCaps, readonlyIdx, idxWhere_length]
  have Ga := run_good (ofCaps cs 0) true (!hasRO (ofCaps cs 0)) o h ho
  simp only [fan, run_false_ofCaps]
  constructor
  · rw [List.map_append, hA.1, hnoRO]
    simp only [deliveries, lastGetsOrig, List.map_append, mutableIdx, readonlyIdx, roDeliveries, List.map_map]
    congr 1
  · intro ob hob
    rcases List.mem_append.1 hob with hob | hob
    · -- a mutating consumer never sees a read-only object
      have hid : (ob.id, ob.obj) ∈ (run true (!hasRO (ofCaps cs 0)) (ofCaps cs 0) o h).2.map (fun ob => (ob.id, ob.obj)) :=
        List.mem_map_of_mem hob
      rw [hA.1] at hid
      obtain ⟨d, hd, hde⟩ := List.mem_map.1 hid
      have hc : d.consumer ∈ (mutDeliveries ((!hasRO (ofCaps cs 0)) && !h.ro o) (idxWhere true cs 0) 0).map (·.consumer) :=
        List.mem_map_of_mem hd
      rw [mutDeliveries_consumers] at hc
      have hmut : cs[ob.id]? = some true := by
        have := (mem_mutableIdx cs d.consumer).1 hc
        have e : d.consumer = ob.id := by simpa using congrArg Prod.fst hde
        rw [← e]; exact this
      have hspec : ((run true (!hasRO (ofCaps cs 0)) (ofCaps cs 0) o h).2.map Obs.proj) = spec true (ofCaps cs 0) (h.content o) := Ga.obs
      -- its `own` is non-empty, so `wr` applies
      have hown : ob.own ≠ [] := by
        have key : ∀ (cs : List Bool) (i : Nat) (noRO : Bool) (h : Heap),
            ∀ ob ∈ (run true noRO (ofCaps cs i) o h).2, ob.own ≠ [] := by
          intro cs
          induction cs with
          | nil => intro i noRO h ob hob; simp [ofCaps, run] at hob
          | cons c cs ih =>
            intro i noRO h ob hob
            cases c with
            | false =>
              have : run true noRO (ofCaps (false :: cs) i) o h = run true noRO (ofCaps cs (i + 1)) o h := by simp [ofCaps, run]
              rw [this] at hob; exact ih _ _ _ ob hob
            | true =>
              simp only [ofCaps, run, if_true, List.mem_cons] at hob
              rcases hob with rfl | hob
              · simp
              · exact ih _ _ _ ob hob
        exact key cs 0 _ h ob hob
      rw [Ga.wr ob hob hown]
      simp [seenRO, hmut]
    · obtain ⟨c, hc, rfl⟩ := List.mem_map.1 hob
      have hro : cs[c]? = some false := (mem_readonlyIdx cs c).1 hc
      simp only [seenRO, hro, beq_self_eq_true, Bool.true_and]
      rw [mark_if_ro, hA.2, hcount]

end OtelVerif.C06.Dag
