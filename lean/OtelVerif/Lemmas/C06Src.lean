import OtelVerif.Lemmas.C06
import OtelVerif.Model.C06Src
import OtelVerif.Gen.FanoutShape
/-! the translated fan-out source (`Gen/FanoutShape.lean`) means what the hand-written model says -/
namespace OtelVerif.C06.Src
open OtelVerif.C06

theorem callEvs_orig (cs : List Nat) (k : Nat) : callEvs cs .orig k = cs.map (fun c => Ev.call c .orig) := by
  induction cs with
  | nil => rfl
  | cons c cs ih => simp [callEvs, ih]

/-- the loop over all mutating consumers but the last, then the last one: exactly `mutDeliveries` -/
theorem mutDeliveries_evs (L : Bool) (m : List Nat) (k : Nat) :
    (mutDeliveries L m k).map toEv =
      match m.getLast? with
      | none => []
      | some c => callEvs m.dropLast .clone k ++ [Ev.call c (if L then .orig else .clone (k + (m.length - 1)))] := by
  induction m generalizing k with
  | nil => simp [mutDeliveries]
  | cons c rest ih =>
    cases rest with
    | nil => simp [mutDeliveries, toEv, callEvs]
    | cons c' rest' =>
      have := ih (k + 1)
      simp only [mutDeliveries, List.map_cons, this, toEv]
      simp only [List.getLast?_cons_cons, List.dropLast_cons_cons, callEvs]
      cases hl : (c' :: rest').getLast? with
      | none => simp at hl
      | some x =>
        simp only [List.cons_append, List.length_cons]
        have e : k + 1 + (rest'.length + 1 - 1) = k + (rest'.length + 1 + 1 - 1) := by omega
        rw [e]

theorem exec_canon_lists (mu ro : List Nat) (r0 : Bool) :
    (exec canon.consume mu ro ⟨[], 0, r0⟩).evs =
      (mutDeliveries (ro.isEmpty && !r0) mu 0).map toEv ++
        (if decide (ro.length > 1) && !r0 then [Ev.mark] else []) ++ (roDeliveries ro).map toEv := by
  have hro : (roDeliveries ro).map toEv = ro.map (fun c => Ev.call c .orig) := by
    simp [roDeliveries, toEv, Function.comp_def]
  have hempty : decide (ro.length = 0) = ro.isEmpty := by cases ro <;> simp
  rw [mutDeliveries_evs, hro]
  cases hl : mu.getLast? with
  | none =>
    have hmu : mu = [] := by simpa using hl
    subst hmu
    by_cases hm : (decide (ro.length > 1) && !r0) = true
    · simp [exec, canon, evalB, lstOf, callList, callEvs_orig, hm]
    · simp [exec, canon, evalB, lstOf, callList, callEvs_orig, hm]
  | some c =>
    have hne : mu ≠ [] := by intro e; simp [e] at hl
    have hpos : mu.length > 0 := List.length_pos_iff.2 hne
    have htake : mu.take (mu.length - 1) = mu.dropLast := (List.dropLast_eq_take).symm
    have hlen : (mu.dropLast).length = mu.length - 1 := by simp
    by_cases hL : (ro.isEmpty && !r0) = true
    · have hL' := hL
      simp only [Bool.and_eq_true, Bool.not_eq_true', List.isEmpty_iff] at hL'
      obtain ⟨hroE, hr0⟩ := hL'
      subst hroE; subst hr0
      simp [exec, canon, evalB, lstOf, callList, callEvs, hpos, htake, hl, nextAfter]
    · have hLp : ¬ (ro = [] ∧ r0 = false) := by
        intro h; apply hL; simp [h.1, h.2]
      by_cases hm : (decide (ro.length > 1) && !r0) = true
      · have hmp : 1 < ro.length ∧ r0 = false := by simpa using hm
        have hroNe : ro ≠ [] := by intro e; simp [e] at hmp
        simp [exec, canon, evalB, lstOf, callList, callEvs, callEvs_orig, hpos, htake, hl, nextAfter, hmp, hlen, hroNe]
      · have hmp : ¬ (1 < ro.length ∧ r0 = false) := by
          intro h; apply hm; simp [h.1, h.2]
        have hL2 : (ro.isEmpty && !r0) = false := by simpa using hL
        have hm2 : (decide (ro.length > 1) && !r0) = false := by simpa using hm
        simp [exec, canon, evalB, lstOf, callList, callEvs, callEvs_orig, hpos, htake, hl, nextAfter, hLp, hmp, hlen, hL2]

theorem exec_canon (caps : List Bool) (inputRO : Bool) :
    (exec canon.consume (mutableIdx caps) (readonlyIdx caps) ⟨[], 0, inputRO⟩).evs = planEvs caps inputRO := by
  rw [exec_canon_lists]; rfl

theorem evalB_canon_cap (caps : List Bool) (r : Bool) :
    evalB canon.capExp (mutableIdx caps) (readonlyIdx caps) r = fanCap caps := by
  simp only [canon, evalB, lstOf, fanCap]
  cases mutableIdx caps <;> cases readonlyIdx caps <;> simp

theorem part_canon (caps : List Bool) (i : Nat) :
    part canon.part caps i = (idxWhere true caps i, idxWhere false caps i) := by
  induction caps generalizing i with
  | nil => simp [part, idxWhere]
  | cons c cs ih =>
    have := ih (i + 1)
    simp only [canon] at this
    cases c <;> simp [part, canon, idxWhere, this]

theorem runEvs_map (syncW : Nat → Option Nat) (h : Heap) (ds : List Delivery) :
    runEvs syncW h (ds.map toEv) = callAll syncW h ds := by
  induction ds generalizing h with
  | nil => simp [runEvs, callAll]
  | cons d ds ih => simp [runEvs, callAll, toEv, ih]

theorem runEvs_append (syncW : Nat → Option Nat) (h : Heap) (a b : List Ev) :
    runEvs syncW h (a ++ b) =
      ((runEvs syncW (runEvs syncW h a).1 b).1, (runEvs syncW h a).2 ++ (runEvs syncW (runEvs syncW h a).1 b).2) := by
  induction a generalizing h with
  | nil => simp [runEvs]
  | cons e es ih =>
    cases e with
    | mark => simp [runEvs, ih]
    | call c o => simp [runEvs, ih]

theorem runEvs_plan (caps : List Bool) (inputRO : Bool) (c0 : Nat) (syncW : Nat → Option Nat) :
    runEvs syncW { orig := c0, origRO := inputRO } (planEvs caps inputRO) = runFan caps inputRO c0 syncW := by
  simp only [planEvs, runEvs_append, runEvs_map, runFan, heapA]
  cases hm : marksRO caps inputRO <;> simp [runEvs, markRO]

theorem orLoop_eq (acc : Bool) (xs : List Bool) : orLoop acc xs = (acc || xs.any id) := by
  induction xs generalizing acc with
  | nil => simp [orLoop]
  | cons x xs ih => simp [orLoop, ih, Bool.or_assoc]

theorem gen_eq_canon : Gen.FanoutShape.logs = canon ∧ Gen.FanoutShape.metrics = canon ∧
    Gen.FanoutShape.traces = canon ∧ Gen.FanoutShape.profiles = canon := by decide

example : (exec canon.consume (mutableIdx [true, false, true, false]) (readonlyIdx [true, false, true, false]) ⟨[], 0, false⟩).evs =
    [.call 0 (.clone 0), .call 2 (.clone 1), .mark, .call 1 .orig, .call 3 .orig] := by decide

end OtelVerif.C06.Src
