import OtelVerif.Model.C07
/-! lemmas about `keep` (the elements for which a remove-if predicate answered false) -/
namespace OtelVerif.C07

theorem keep_sublist {α : Type} (l : List α) (m : List Bool) : (keep l m).Sublist l := by
  induction l generalizing m with
  | nil => simp [keep]
  | cons x xs ih =>
    cases m with
    | nil => simp [keep]
    | cons b bs =>
      cases b
      · simpa [keep] using (ih bs).cons_cons x
      · simpa [keep] using (ih bs).cons x

theorem map_keep {α β : Type} (f : α → β) (l : List α) (m : List Bool) : (keep l m).map f = keep (l.map f) m := by
  induction l generalizing m with
  | nil => simp [keep]
  | cons x xs ih =>
    cases m with
    | nil => simp [keep]
    | cons b bs => cases b <;> simp [keep, ih]

/-- with a predicate on the element, `keep` is `filter` of the negation -/
theorem keep_map_pred {α : Type} (p : α → Bool) (l : List α) : keep l (l.map p) = l.filter (fun x => !p x) := by
  induction l with
  | nil => simp [keep]
  | cons x xs ih => cases h : p x <;> simp [keep, h, ih]

end OtelVerif.C07
