import OtelVerif.Model.C07Map
/-! helper lemmas for the `pcommon.Map` heap model (C07 part B): separation invariant on the bytes
wrappers reachable from live slots, and the per-operation specifications -/
namespace OtelVerif.C07.M
open OtelVerif.C07 (upd keep)

theorem upd_same {β : Type} (f : Nat → β) (i : Nat) (v : β) : upd f i v i = v := by simp [upd]
theorem upd_other {β : Type} (f : Nat → β) (i j : Nat) (v : β) (h : j ≠ i) : upd f i v j = f j := by simp [upd, h]

/-- the bytes wrapper a slot points to -/
def bid : KV → Option Nat
  | ⟨_, .bytes i⟩ => some i
  | _ => none

def bids (l : List KV) : List Nat := l.filterMap bid

@[simp] theorem bids_nil : bids [] = [] := rfl
@[simp] theorem bids_cons_bytes (k i : Nat) (l : List KV) : bids (⟨k, .bytes i⟩ :: l) = i :: bids l := rfl
@[simp] theorem bids_cons_nil (k : Nat) (l : List KV) : bids (⟨k, .nil⟩ :: l) = bids l := rfl
@[simp] theorem bids_cons_scalar (k a b : Nat) (l : List KV) : bids (⟨k, .scalar a b⟩ :: l) = bids l := rfl
theorem bids_append (l₁ l₂ : List KV) : bids (l₁ ++ l₂) = bids l₁ ++ bids l₂ := by simp [bids]
theorem bids_replicate_zero (n : Nat) : bids (List.replicate n KV.zero) = [] := by
  induction n with
  | zero => rfl
  | succ n ih => rw [List.replicate_succ]; exact ih
theorem bids_sublist {l₁ l₂ : List KV} (h : l₁.Sublist l₂) : (bids l₁).Sublist (bids l₂) := h.filterMap bid

theorem bids_cons_sub (d : KV) (l : List KV) (o : Nat) (h : o ∈ bids l) : o ∈ bids (d :: l) :=
  (bids_sublist (List.sublist_cons_self d l)).subset h

theorem mem_bids_of_getElem? {l : List KV} {i k id : Nat} (h : l[i]? = some ⟨k, .bytes id⟩) : id ∈ bids l := by
  have := List.mem_of_getElem? h
  simp only [bids, List.mem_filterMap]
  exact ⟨_, this, rfl⟩

/-! ### abstraction -/

theorem absKV_congr (w w' : Nat → List Nat) (kv : KV) (h : ∀ i, bid kv = some i → w' i = w i) : absKV w' kv = absKV w kv := by
  obtain ⟨k, v⟩ := kv
  cases v with
  | nil => rfl
  | scalar a b => rfl
  | bytes i => simp [absKV, absV, h i rfl]

theorem map_absKV_congr (w w' : Nat → List Nat) (l : List KV) (h : ∀ i ∈ bids l, w' i = w i) :
    l.map (absKV w') = l.map (absKV w) := by
  apply List.map_congr_left
  intro kv hkv
  apply absKV_congr
  intro i hi
  exact h i (by simp only [bids, List.mem_filterMap]; exact ⟨kv, hkv, hi⟩)

theorem find_map (w : Nat → List Nat) (l : List KV) (k : Nat) : pfind (l.map (absKV w)) k = find l k := by
  simp only [pfind, find]
  induction l with
  | nil => rfl
  | cons x xs ih => simp [List.findIdx?_cons, absKV, ih]

/-- editing the one bytes wrapper slot `i` points to changes exactly entry `i` -/
theorem map_absKV_upd (w : Nat → List Nat) (l : List KV) (i k id : Nat) (v : List Nat) (hn : (bids l).Nodup)
    (hi : l[i]? = some ⟨k, .bytes id⟩) :
    l.map (absKV (upd w id v)) = (l.map (absKV w)).set i (k, .bytes v) := by
  induction l generalizing i with
  | nil => simp at hi
  | cons x xs ih =>
    cases i with
    | zero =>
      simp at hi; subst hi
      simp only [bids_cons_bytes, List.nodup_cons] at hn
      simp only [List.map_cons, List.set_cons_zero]
      rw [map_absKV_congr w (upd w id v) xs (fun j hj => upd_other _ _ _ _ (fun e => hn.1 (e ▸ hj)))]
      simp [absKV, absV, upd_same]
    | succ j =>
      simp at hi
      have hmem : id ∈ bids xs := mem_bids_of_getElem? hi
      have hsub : (bids xs).Sublist (bids (x :: xs)) := bids_sublist (List.sublist_cons_self x xs)
      simp only [List.map_cons, List.set_cons_succ]
      rw [ih j (hn.sublist hsub) hi]
      congr 1
      apply absKV_congr
      intro o ho
      apply upd_other
      intro e; subst e
      obtain ⟨xk, xv⟩ := x
      cases xv <;> simp [bid] at ho
      subst ho
      simp only [bids_cons_bytes, List.nodup_cons] at hn
      exact hn.1 hmem

/-! ### `bids` under `set` -/

theorem bids_set_mem (l : List KV) (i : Nat) (kv : KV) (o : Nat) (h : o ∈ bids (l.set i kv)) : o ∈ bids l ∨ bid kv = some o := by
  induction l generalizing i with
  | nil => simp at h
  | cons x xs ih =>
    cases i with
    | zero =>
      simp only [List.set_cons_zero, bids, List.filterMap_cons] at h
      cases hb : bid kv with
      | none => simp only [hb] at h; exact Or.inl (bids_cons_sub x xs o h)
      | some j =>
        simp only [hb, List.mem_cons] at h
        rcases h with rfl | h
        · exact Or.inr rfl
        · exact Or.inl (bids_cons_sub x xs o h)
    | succ j =>
      simp only [List.set_cons_succ, bids, List.filterMap_cons] at h
      cases hb : bid x with
      | none =>
        simp only [hb] at h
        rcases ih j h with h' | h'
        · exact Or.inl (bids_cons_sub x xs o h')
        · exact Or.inr h'
      | some j' =>
        simp only [hb, List.mem_cons] at h
        rcases h with rfl | h
        · left; simp [bids, List.filterMap_cons, hb]
        · rcases ih j h with h' | h'
          · exact Or.inl (bids_cons_sub x xs o h')
          · exact Or.inr h'

theorem bids_set_nodup (l : List KV) (i : Nat) (kv : KV) (hn : (bids l).Nodup) (hf : ∀ o, bid kv = some o → o ∉ bids l) :
    (bids (l.set i kv)).Nodup := by
  induction l generalizing i with
  | nil => simpa using hn
  | cons x xs ih =>
    have hsub : (bids xs).Sublist (bids (x :: xs)) := bids_sublist (List.sublist_cons_self x xs)
    cases i with
    | zero =>
      simp only [List.set_cons_zero, bids, List.filterMap_cons]
      cases hb : bid kv with
      | none => exact hn.sublist hsub
      | some j =>
        simp only []
        exact List.nodup_cons.mpr ⟨fun hm => hf j hb (bids_cons_sub x xs j hm), hn.sublist hsub⟩
    | succ j =>
      have ih' := ih j (hn.sublist hsub) (fun o ho hm => hf o ho (bids_cons_sub x xs o hm))
      simp only [List.set_cons_succ, bids, List.filterMap_cons]
      cases hb : bid x with
      | none => exact ih'
      | some j' =>
        simp only []
        refine List.nodup_cons.mpr ⟨?_, ih'⟩
        intro hm
        have hnc : (j' :: bids xs).Nodup := by simpa [bids, List.filterMap_cons, hb] using hn
        rcases bids_set_mem xs j kv j' hm with h' | h'
        · exact (List.nodup_cons.mp hnc).1 h'
        · exact hf j' h' (by simp [bids, List.filterMap_cons, hb])

/-! ### separation invariant -/

structure Inv (s : St) : Prop where
  lt : ∀ a, ∀ o ∈ bids (s.hd a).live, o < s.next
  nodup : ∀ a, (bids (s.hd a).live).Nodup
  disj : ∀ a b, a ≠ b → ∀ o ∈ bids (s.hd a).live, o ∉ bids (s.hd b).live

def WfOp : Op → Prop
  | .copyTo a b => a ≠ b
  | .moveTo a b => a ≠ b
  | _ => True

instance (op : Op) : Decidable (WfOp op) := by cases op <;> simp only [WfOp] <;> infer_instance

theorem inv_init : Inv St.init := ⟨by simp [St.init], by simp [St.init], by simp [St.init]⟩

theorem inv_update {s : St} (hi : Inv s) (a : Nat) (l t : List KV) (w' : Nat → List Nat)
    (next' : Nat) (ro' : Nat → Bool) (hnext : s.next ≤ next') (hnd : (bids l).Nodup)
    (hmem : ∀ o ∈ bids l, (o ∈ bids (s.hd a).live ∨ s.next ≤ o) ∧ o < next') :
    Inv { w := w', next := next', hd := upd s.hd a ⟨l, t⟩, ro := ro' } := by
  refine ⟨?_, ?_, ?_⟩
  · intro c o ho
    by_cases hc : c = a
    · subst hc; simp only [upd_same] at ho; exact (hmem o ho).2
    · simp only [upd_other _ _ _ _ hc] at ho; exact Nat.lt_of_lt_of_le (hi.lt c o ho) hnext
  · intro c
    by_cases hc : c = a
    · subst hc; simpa only [upd_same] using hnd
    · simpa only [upd_other _ _ _ _ hc] using hi.nodup c
  · intro c d hcd o ho
    by_cases hc : c = a
    · subst hc
      have hd : d ≠ c := fun e => hcd e.symm
      simp only [upd_same] at ho
      simp only [upd_other _ _ _ _ hd]
      rcases (hmem o ho).1 with h | h
      · exact hi.disj c d hcd o h
      · intro hm; have := hi.lt d o hm; omega
    · simp only [upd_other _ _ _ _ hc] at ho
      by_cases hd : d = a
      · subst hd
        simp only [upd_same]
        intro hm
        rcases (hmem o hm).1 with h | h
        · exact hi.disj c d hcd o ho h
        · have := hi.lt c o ho; omega
      · simp only [upd_other _ _ _ _ hd]; exact hi.disj c d hcd o ho

/-- the new live list only holds wrappers the handle already had -/
theorem inv_update_sub {s : St} (hi : Inv s) (a : Nat) (l t : List KV) (hnd : (bids l).Nodup)
    (hsub : ∀ o ∈ bids l, o ∈ bids (s.hd a).live) :
    Inv { s with hd := upd s.hd a ⟨l, t⟩ } :=
  inv_update hi a l t s.w s.next s.ro (Nat.le_refl _) hnd (fun o ho => ⟨Or.inl (hsub o ho), hi.lt a o (hsub o ho)⟩)

theorem PSt.ext' (p q : PSt) (hv : p.val = q.val) (hr : p.ro = q.ro) : p = q := by
  cases p; cases q; simp_all

theorem abs_update_val (s : St) (a : Nat) (h' : Hdr) (w' : Nat → List Nat) (next' : Nat) (v : List Entry)
    (ha : h'.live.map (absKV w') = v)
    (hframe : ∀ c, c ≠ a → ∀ o ∈ bids (s.hd c).live, w' o = s.w o) :
    (abs { w := w', next := next', hd := upd s.hd a h', ro := s.ro }).val = upd (abs s).val a v := by
  funext c
  by_cases hc : c = a
  · subst hc; simp [abs, upd_same, ha]
  · simp only [abs, upd_other _ _ _ _ hc]
    exact map_absKV_congr _ _ _ (hframe c hc)

/-! ### `copyElems` -/

theorem copyElems_nil_left (w : Nat → List Nat) (n : Nat) (ds : List KV) : copyElems w n [] ds = (w, n, []) := by
  simp [copyElems]

/-- what one run of the element loop guarantees -/
abbrev CopySpec (w : Nat → List Nat) (next : Nat) (ss ds : List KV) (r : (Nat → List Nat) × Nat × List KV) : Prop :=
  next ≤ r.2.1 ∧
  (∀ x, x < next → x ∉ bids ds → r.1 x = w x) ∧
  r.2.2.map (absKV r.1) = ss.map (absKV w) ∧
  (∀ o ∈ bids r.2.2, (o ∈ bids ds ∨ next ≤ o) ∧ o < r.2.1) ∧
  (bids r.2.2).Nodup

theorem copyElems_spec (ss : List KV) : ∀ (w : Nat → List Nat) (next : Nat) (ds : List KV),
    ss.length = ds.length →
    (∀ i ∈ bids ss, i < next) → (∀ i ∈ bids ds, i < next) → (bids ds).Nodup → (∀ i ∈ bids ss, i ∉ bids ds) →
    CopySpec w next ss ds (copyElems w next ss ds) := by
  induction ss with
  | nil =>
    intro w next ds _ _ _ _ _
    simp [copyElems_nil_left, CopySpec]
  | cons s ss ih =>
    intro w next ds hlen hs hd hnd hdis
    cases ds with
    | nil => simp at hlen
    | cons d ds =>
      have hlen' : ss.length = ds.length := by simpa using hlen
      obtain ⟨sk, sv⟩ := s
      obtain ⟨dk, dv⟩ := d
      have hs' : ∀ i ∈ bids ss, i < next := fun i hi => hs i (bids_cons_sub _ _ i hi)
      have hd' : ∀ i ∈ bids ds, i < next := fun i hi => hd i (bids_cons_sub _ _ i hi)
      have hnd' : (bids ds).Nodup := hnd.sublist (bids_sublist (List.sublist_cons_self _ _))
      have hdis' : ∀ i ∈ bids ss, i ∉ bids ds := fun i hi hm => hdis i (bids_cons_sub _ _ i hi) (bids_cons_sub _ _ i hm)
      -- source not bytes: the value is taken over as it is
      have nonbytes : ∀ v : V, (∀ i, v ≠ .bytes i) → sv = v →
          copyElems w next (⟨sk, sv⟩ :: ss) (⟨dk, dv⟩ :: ds) =
            ((copyElems w next ss ds).1, (copyElems w next ss ds).2.1, ⟨sk, sv⟩ :: (copyElems w next ss ds).2.2) →
          bids ((⟨sk, sv⟩ : KV) :: (copyElems w next ss ds).2.2) = bids (copyElems w next ss ds).2.2 →
          absKV (copyElems w next ss ds).1 ⟨sk, sv⟩ = absKV w ⟨sk, sv⟩ →
          CopySpec w next (⟨sk, sv⟩ :: ss) (⟨dk, dv⟩ :: ds) (copyElems w next (⟨sk, sv⟩ :: ss) (⟨dk, dv⟩ :: ds)) := by
        intro v _ _ heq hb ha
        obtain ⟨i1, i2, i3, i4, i5⟩ := ih w next ds hlen' hs' hd' hnd' hdis'
        rw [heq]
        refine ⟨i1, fun x hx hxn => i2 x hx (fun hm => hxn (bids_cons_sub _ _ x hm)), ?_, ?_, ?_⟩
        · simp only [List.map_cons, ha, i3]
        · intro o ho
          simp only [hb] at ho
          obtain ⟨h1, h2⟩ := i4 o ho
          exact ⟨h1.imp (bids_cons_sub _ _ o) id, h2⟩
        · simpa only [hb] using i5
      cases sv with
      | nil => exact nonbytes .nil (by simp) rfl (by simp [copyElems]) (by simp) rfl
      | scalar a b => exact nonbytes (.scalar a b) (by simp) rfl (by simp [copyElems]) (by simp) rfl
      | bytes sid =>
        have hsid : sid < next := hs sid (by simp)
        have hsidnd : sid ∉ bids (⟨dk, dv⟩ :: ds) := hdis sid (by simp)
        -- destination without a bytes wrapper: a new wrapper
        have fresh : (∀ i, dv ≠ .bytes i) → bids ((⟨dk, dv⟩ : KV) :: ds) = bids ds →
            copyElems w next (⟨sk, .bytes sid⟩ :: ss) (⟨dk, dv⟩ :: ds) =
              ((copyElems (upd w next (w sid)) (next + 1) ss ds).1, (copyElems (upd w next (w sid)) (next + 1) ss ds).2.1,
                ⟨sk, .bytes next⟩ :: (copyElems (upd w next (w sid)) (next + 1) ss ds).2.2) →
            CopySpec w next (⟨sk, .bytes sid⟩ :: ss) (⟨dk, dv⟩ :: ds) (copyElems w next (⟨sk, .bytes sid⟩ :: ss) (⟨dk, dv⟩ :: ds)) := by
          intro _ hb heq
          obtain ⟨i1, i2, i3, i4, i5⟩ := ih (upd w next (w sid)) (next + 1) ds hlen'
            (fun i hi => Nat.lt_succ_of_lt (hs' i hi)) (fun i hi => Nat.lt_succ_of_lt (hd' i hi)) hnd' hdis'
          have hnextnd : next ∉ bids ds := fun hm => Nat.lt_irrefl _ (hd' next hm)
          rw [heq]; unfold CopySpec; rw [hb]
          refine ⟨Nat.le_of_succ_le i1, ?_, ?_, ?_, ?_⟩
          · intro x hx hxn
            rw [i2 x (Nat.lt_succ_of_lt hx) hxn]
            exact upd_other _ _ _ _ (by omega)
          · simp only [List.map_cons]
            rw [i3, map_absKV_congr w (upd w next (w sid)) ss (fun i hi => upd_other _ _ _ _ (by have := hs' i hi; omega))]
            simp [absKV, absV, i2 next (Nat.lt_succ_self _) hnextnd, upd_same]
          · intro o ho
            simp only [bids_cons_bytes, List.mem_cons] at ho
            rcases ho with rfl | ho
            · exact ⟨Or.inr (Nat.le_refl _), i1⟩
            · obtain ⟨h1, h2⟩ := i4 o ho
              exact ⟨h1.imp id (fun h => Nat.le_of_succ_le h), h2⟩
          · simp only [bids_cons_bytes]
            refine List.nodup_cons.mpr ⟨?_, i5⟩
            intro hm
            rcases (i4 next hm).1 with h | h
            · exact hnextnd h
            · omega
        cases dv with
        | nil => exact fresh (by simp) (by simp) (by simp [copyElems])
        | scalar a b => exact fresh (by simp) (by simp) (by simp [copyElems])
        | bytes did =>
          have hdid : did < next := hd did (by simp)
          have hdidnd : did ∉ bids ds := by
            have := hnd; simp only [bids_cons_bytes, List.nodup_cons] at this; exact this.1
          have hne : sid ≠ did := fun e => hsidnd (by simp [e])
          obtain ⟨i1, i2, i3, i4, i5⟩ := ih (upd w did (w sid)) next ds hlen' hs' hd' hnd' hdis'
          have heq : copyElems w next (⟨sk, .bytes sid⟩ :: ss) (⟨dk, .bytes did⟩ :: ds) =
              ((copyElems (upd w did (w sid)) next ss ds).1, (copyElems (upd w did (w sid)) next ss ds).2.1,
                ⟨sk, .bytes did⟩ :: (copyElems (upd w did (w sid)) next ss ds).2.2) := by simp [copyElems]
          rw [heq]
          refine ⟨i1, ?_, ?_, ?_, ?_⟩
          · intro x hx hxn
            simp only [bids_cons_bytes, List.mem_cons, not_or] at hxn
            rw [i2 x hx hxn.2]
            exact upd_other _ _ _ _ hxn.1
          · simp only [List.map_cons]
            rw [i3, map_absKV_congr w (upd w did (w sid)) ss
              (fun i hi => upd_other _ _ _ _ (fun e => hdis i (bids_cons_sub _ _ i hi) (by simp [e])))]
            simp [absKV, absV, i2 did hdid hdidnd, upd_same]
          · intro o ho
            simp only [bids_cons_bytes, List.mem_cons] at ho
            rcases ho with rfl | ho
            · exact ⟨Or.inl (by simp), Nat.lt_of_lt_of_le hdid i1⟩
            · obtain ⟨h1, h2⟩ := i4 o ho
              exact ⟨h1.imp (bids_cons_sub _ _ o) id, h2⟩
          · simp only [bids_cons_bytes]
            refine List.nodup_cons.mpr ⟨?_, i5⟩
            intro hm
            rcases (i4 did hm).1 with h | h
            · exact hdidnd h
            · omega

end OtelVerif.C07.M
