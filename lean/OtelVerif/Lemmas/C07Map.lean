import OtelVerif.Model.C07Map
import OtelVerif.Lemmas.C07
/-! helper lemmas for the `pcommon.Map` heap model (C07 part B): separation invariant on the bytes
wrappers reachable from live slots, and the per-operation specifications -/
namespace OtelVerif.C07.M
open OtelVerif.C07 (upd keep keep_sublist map_keep)

theorem upd_same {β : Type} (f : Nat → β) (i : Nat) (v : β) : upd f i v i = v := by simp [upd]
theorem upd_other {β : Type} (f : Nat → β) (i j : Nat) (v : β) (h : j ≠ i) : upd f i v j = f j := by simp [upd, h]

/-- the bytes wrapper a slot points to -/
def bid : KV → Option Nat
  | ⟨_, .bytes i⟩ => some i
  | _ => none

def bids (l : List KV) : List Nat := l.filterMap bid

@[simp] theorem bids_nil : bids [] = [] := rfl
@[simp] theorem bids_cons_bytes (k i : Nat) (l : List KV) : bids (⟨k, .bytes i⟩ :: l) = i :: bids l := rfl
@[simp] theorem bids_cons_nil (k : Nat) (l : List KV) : bids (⟨k, .nil⟩ :: l) = bids l := rfl
@[simp] theorem bids_cons_scalar (k a b : Nat) (l : List KV) : bids (⟨k, .scalar a b⟩ :: l) = bids l := rfl
theorem bids_append (l₁ l₂ : List KV) : bids (l₁ ++ l₂) = bids l₁ ++ bids l₂ := by simp [bids]
theorem bids_replicate_zero (n : Nat) : bids (List.replicate n KV.zero) = [] := by
  induction n with
  | zero => rfl
  | succ n ih => rw [List.replicate_succ]; exact ih
theorem bids_sublist {l₁ l₂ : List KV} (h : l₁.Sublist l₂) : (bids l₁).Sublist (bids l₂) := h.filterMap bid

theorem bids_cons_sub (d : KV) (l : List KV) (o : Nat) (h : o ∈ bids l) : o ∈ bids (d :: l) :=
  (bids_sublist (List.sublist_cons_self d l)).subset h

theorem mem_bids_of_getElem? {l : List KV} {i k id : Nat} (h : l[i]? = some ⟨k, .bytes id⟩) : id ∈ bids l := by
  have := List.mem_of_getElem? h
  simp only [bids, List.mem_filterMap]
  exact ⟨_, this, rfl⟩

/-! ### abstraction -/

theorem absKV_congr (w w' : Nat → List Nat) (kv : KV) (h : ∀ i, bid kv = some i → w' i = w i) : absKV w' kv = absKV w kv := by
  obtain ⟨k, v⟩ := kv
  cases v with
  | nil => rfl
  | scalar a b => rfl
  | bytes i => simp [absKV, absV, h i rfl]

theorem map_absKV_congr (w w' : Nat → List Nat) (l : List KV) (h : ∀ i ∈ bids l, w' i = w i) :
    l.map (absKV w') = l.map (absKV w) := by
  apply List.map_congr_left
  intro kv hkv
  apply absKV_congr
  intro i hi
  exact h i (by simp only [bids, List.mem_filterMap]; exact ⟨kv, hkv, hi⟩)

theorem find_map (w : Nat → List Nat) (l : List KV) (k : Nat) : pfind (l.map (absKV w)) k = find l k := by
  simp only [pfind, find]
  induction l with
  | nil => rfl
  | cons x xs ih => simp [List.findIdx?_cons, absKV, ih]

/-- editing the one bytes wrapper slot `i` points to changes exactly entry `i` -/
theorem map_absKV_upd (w : Nat → List Nat) (l : List KV) (i k id : Nat) (v : List Nat) (hn : (bids l).Nodup)
    (hi : l[i]? = some ⟨k, .bytes id⟩) :
    l.map (absKV (upd w id v)) = (l.map (absKV w)).set i (k, .bytes v) := by
  induction l generalizing i with
  | nil => simp at hi
  | cons x xs ih =>
    cases i with
    | zero =>
      simp at hi; subst hi
      simp only [bids_cons_bytes, List.nodup_cons] at hn
      simp only [List.map_cons, List.set_cons_zero]
      rw [map_absKV_congr w (upd w id v) xs (fun j hj => upd_other _ _ _ _ (fun e => hn.1 (e ▸ hj)))]
      simp [absKV, absV, upd_same]
    | succ j =>
      simp at hi
      have hmem : id ∈ bids xs := mem_bids_of_getElem? hi
      have hsub : (bids xs).Sublist (bids (x :: xs)) := bids_sublist (List.sublist_cons_self x xs)
      simp only [List.map_cons, List.set_cons_succ]
      rw [ih j (hn.sublist hsub) hi]
      congr 1
      apply absKV_congr
      intro o ho
      apply upd_other
      intro e; subst e
      obtain ⟨xk, xv⟩ := x
      cases xv <;> simp [bid] at ho
      subst ho
      simp only [bids_cons_bytes, List.nodup_cons] at hn
      exact hn.1 hmem

/-! ### `bids` under `set` -/

theorem bids_set_mem (l : List KV) (i : Nat) (kv : KV) (o : Nat) (h : o ∈ bids (l.set i kv)) : o ∈ bids l ∨ bid kv = some o := by
  induction l generalizing i with
  | nil => simp at h
  | cons x xs ih =>
    cases i with
    | zero =>
      simp only [List.set_cons_zero, bids, List.filterMap_cons] at h
      cases hb : bid kv with
      | none => simp only [hb] at h; exact Or.inl (bids_cons_sub x xs o h)
      | some j =>
        simp only [hb, List.mem_cons] at h
        rcases h with rfl | h
        · exact Or.inr rfl
        · exact Or.inl (bids_cons_sub x xs o h)
    | succ j =>
      simp only [List.set_cons_succ, bids, List.filterMap_cons] at h
      cases hb : bid x with
      | none =>
        simp only [hb] at h
        rcases ih j h with h' | h'
        · exact Or.inl (bids_cons_sub x xs o h')
        · exact Or.inr h'
      | some j' =>
        simp only [hb, List.mem_cons] at h
        rcases h with rfl | h
        · left; simp [bids, List.filterMap_cons, hb]
        · rcases ih j h with h' | h'
          · exact Or.inl (bids_cons_sub x xs o h')
          · exact Or.inr h'

theorem bids_set_nodup (l : List KV) (i : Nat) (kv : KV) (hn : (bids l).Nodup) (hf : ∀ o, bid kv = some o → o ∉ bids l) :
    (bids (l.set i kv)).Nodup := by
  induction l generalizing i with
  | nil => simpa using hn
  | cons x xs ih =>
    have hsub : (bids xs).Sublist (bids (x :: xs)) := bids_sublist (List.sublist_cons_self x xs)
    cases i with
    | zero =>
      simp only [List.set_cons_zero, bids, List.filterMap_cons]
      cases hb : bid kv with
      | none => exact hn.sublist hsub
      | some j =>
        simp only []
        exact List.nodup_cons.mpr ⟨fun hm => hf j hb (bids_cons_sub x xs j hm), hn.sublist hsub⟩
    | succ j =>
      have ih' := ih j (hn.sublist hsub) (fun o ho hm => hf o ho (bids_cons_sub x xs o hm))
      simp only [List.set_cons_succ, bids, List.filterMap_cons]
      cases hb : bid x with
      | none => exact ih'
      | some j' =>
        simp only []
        refine List.nodup_cons.mpr ⟨?_, ih'⟩
        intro hm
        have hnc : (j' :: bids xs).Nodup := by simpa [bids, List.filterMap_cons, hb] using hn
        rcases bids_set_mem xs j kv j' hm with h' | h'
        · exact (List.nodup_cons.mp hnc).1 h'
        · exact hf j' h' (by simp [bids, List.filterMap_cons, hb])

/-! ### separation invariant -/

structure Inv (s : St) : Prop where
  lt : ∀ a, ∀ o ∈ bids (s.hd a).live, o < s.next
  nodup : ∀ a, (bids (s.hd a).live).Nodup
  disj : ∀ a b, a ≠ b → ∀ o ∈ bids (s.hd a).live, o ∉ bids (s.hd b).live

def WfOp : Op → Prop
  | .copyTo a b => a ≠ b
  | .moveTo a b => a ≠ b
  | _ => True

instance (op : Op) : Decidable (WfOp op) := by cases op <;> simp only [WfOp] <;> infer_instance

theorem inv_init : Inv St.init := ⟨by simp [St.init], by simp [St.init], by simp [St.init]⟩

theorem inv_update {s : St} (hi : Inv s) (a : Nat) (l t : List KV) (w' : Nat → List Nat)
    (next' : Nat) (ro' : Nat → Bool) (hnext : s.next ≤ next') (hnd : (bids l).Nodup)
    (hmem : ∀ o ∈ bids l, (o ∈ bids (s.hd a).live ∨ s.next ≤ o) ∧ o < next') :
    Inv { w := w', next := next', hd := upd s.hd a ⟨l, t⟩, ro := ro' } := by
  refine ⟨?_, ?_, ?_⟩
  · intro c o ho
    by_cases hc : c = a
    · subst hc; simp only [upd_same] at ho; exact (hmem o ho).2
    · simp only [upd_other _ _ _ _ hc] at ho; exact Nat.lt_of_lt_of_le (hi.lt c o ho) hnext
  · intro c
    by_cases hc : c = a
    · subst hc; simpa only [upd_same] using hnd
    · simpa only [upd_other _ _ _ _ hc] using hi.nodup c
  · intro c d hcd o ho
    by_cases hc : c = a
    · subst hc
      have hd : d ≠ c := fun e => hcd e.symm
      simp only [upd_same] at ho
      simp only [upd_other _ _ _ _ hd]
      rcases (hmem o ho).1 with h | h
      · exact hi.disj c d hcd o h
      · intro hm; have := hi.lt d o hm; omega
    · simp only [upd_other _ _ _ _ hc] at ho
      by_cases hd : d = a
      · subst hd
        simp only [upd_same]
        intro hm
        rcases (hmem o hm).1 with h | h
        · exact hi.disj c d hcd o ho h
        · have := hi.lt c o ho; omega
      · simp only [upd_other _ _ _ _ hd]; exact hi.disj c d hcd o ho

/-- the new live list only holds wrappers the handle already had -/
theorem inv_update_sub {s : St} (hi : Inv s) (a : Nat) (l t : List KV) (hnd : (bids l).Nodup)
    (hsub : ∀ o ∈ bids l, o ∈ bids (s.hd a).live) :
    Inv { s with hd := upd s.hd a ⟨l, t⟩ } :=
  inv_update hi a l t s.w s.next s.ro (Nat.le_refl _) hnd (fun o ho => ⟨Or.inl (hsub o ho), hi.lt a o (hsub o ho)⟩)

theorem PSt.ext' (p q : PSt) (hv : p.val = q.val) (hr : p.ro = q.ro) : p = q := by
  cases p; cases q; simp_all

theorem abs_update_val (s : St) (a : Nat) (h' : Hdr) (w' : Nat → List Nat) (next' : Nat) (v : List Entry)
    (ha : h'.live.map (absKV w') = v)
    (hframe : ∀ c, c ≠ a → ∀ o ∈ bids (s.hd c).live, w' o = s.w o) :
    (abs { w := w', next := next', hd := upd s.hd a h', ro := s.ro }).val = upd (abs s).val a v := by
  funext c
  by_cases hc : c = a
  · subst hc; simp [abs, upd_same, ha]
  · simp only [abs, upd_other _ _ _ _ hc]
    exact map_absKV_congr _ _ _ (hframe c hc)

/-! ### `copyElems` -/

theorem copyElems_nil_left (w : Nat → List Nat) (n : Nat) (ds : List KV) : copyElems w n [] ds = (w, n, []) := by
  simp [copyElems]

/-- what one run of the element loop guarantees -/
abbrev CopySpec (w : Nat → List Nat) (next : Nat) (ss ds : List KV) (r : (Nat → List Nat) × Nat × List KV) : Prop :=
  next ≤ r.2.1 ∧
  (∀ x, x < next → x ∉ bids ds → r.1 x = w x) ∧
  r.2.2.map (absKV r.1) = ss.map (absKV w) ∧
  (∀ o ∈ bids r.2.2, (o ∈ bids ds ∨ next ≤ o) ∧ o < r.2.1) ∧
  (bids r.2.2).Nodup

theorem copyElems_spec (ss : List KV) : ∀ (w : Nat → List Nat) (next : Nat) (ds : List KV),
    ss.length = ds.length →
    (∀ i ∈ bids ss, i < next) → (∀ i ∈ bids ds, i < next) → (bids ds).Nodup → (∀ i ∈ bids ss, i ∉ bids ds) →
    CopySpec w next ss ds (copyElems w next ss ds) := by
  induction ss with
  | nil =>
    intro w next ds _ _ _ _ _
    simp [copyElems_nil_left, CopySpec]
  | cons s ss ih =>
    intro w next ds hlen hs hd hnd hdis
    cases ds with
    | nil => simp at hlen
    | cons d ds =>
      have hlen' : ss.length = ds.length := by simpa using hlen
      obtain ⟨sk, sv⟩ := s
      obtain ⟨dk, dv⟩ := d
      have hs' : ∀ i ∈ bids ss, i < next := fun i hi => hs i (bids_cons_sub _ _ i hi)
      have hd' : ∀ i ∈ bids ds, i < next := fun i hi => hd i (bids_cons_sub _ _ i hi)
      have hnd' : (bids ds).Nodup := hnd.sublist (bids_sublist (List.sublist_cons_self _ _))
      have hdis' : ∀ i ∈ bids ss, i ∉ bids ds := fun i hi hm => hdis i (bids_cons_sub _ _ i hi) (bids_cons_sub _ _ i hm)
      -- source not bytes: the value is taken over as it is
      have nonbytes : ∀ v : V, (∀ i, v ≠ .bytes i) → sv = v →
          copyElems w next (⟨sk, sv⟩ :: ss) (⟨dk, dv⟩ :: ds) =
            ((copyElems w next ss ds).1, (copyElems w next ss ds).2.1, ⟨sk, sv⟩ :: (copyElems w next ss ds).2.2) →
          bids ((⟨sk, sv⟩ : KV) :: (copyElems w next ss ds).2.2) = bids (copyElems w next ss ds).2.2 →
          absKV (copyElems w next ss ds).1 ⟨sk, sv⟩ = absKV w ⟨sk, sv⟩ →
          CopySpec w next (⟨sk, sv⟩ :: ss) (⟨dk, dv⟩ :: ds) (copyElems w next (⟨sk, sv⟩ :: ss) (⟨dk, dv⟩ :: ds)) := by
        intro v _ _ heq hb ha
        obtain ⟨i1, i2, i3, i4, i5⟩ := ih w next ds hlen' hs' hd' hnd' hdis'
        rw [heq]
        refine ⟨i1, fun x hx hxn => i2 x hx (fun hm => hxn (bids_cons_sub _ _ x hm)), ?_, ?_, ?_⟩
        · simp only [List.map_cons, ha, i3]
        · intro o ho
          simp only [hb] at ho
          obtain ⟨h1, h2⟩ := i4 o ho
          exact ⟨h1.imp (bids_cons_sub _ _ o) id, h2⟩
        · simpa only [hb] using i5
      cases sv with
      | nil => exact nonbytes .nil (by simp) rfl (by simp [copyElems]) (by simp) rfl
      | scalar a b => exact nonbytes (.scalar a b) (by simp) rfl (by simp [copyElems]) (by simp) rfl
      | bytes sid =>
        have hsid : sid < next := hs sid (by simp)
        have hsidnd : sid ∉ bids (⟨dk, dv⟩ :: ds) := hdis sid (by simp)
        -- destination without a bytes wrapper: a new wrapper
        have fresh : (∀ i, dv ≠ .bytes i) → bids ((⟨dk, dv⟩ : KV) :: ds) = bids ds →
            copyElems w next (⟨sk, .bytes sid⟩ :: ss) (⟨dk, dv⟩ :: ds) =
              ((copyElems (upd w next (w sid)) (next + 1) ss ds).1, (copyElems (upd w next (w sid)) (next + 1) ss ds).2.1,
                ⟨sk, .bytes next⟩ :: (copyElems (upd w next (w sid)) (next + 1) ss ds).2.2) →
            CopySpec w next (⟨sk, .bytes sid⟩ :: ss) (⟨dk, dv⟩ :: ds) (copyElems w next (⟨sk, .bytes sid⟩ :: ss) (⟨dk, dv⟩ :: ds)) := by
          intro _ hb heq
          obtain ⟨i1, i2, i3, i4, i5⟩ := ih (upd w next (w sid)) (next + 1) ds hlen'
            (fun i hi => Nat.lt_succ_of_lt (hs' i hi)) (fun i hi => Nat.lt_succ_of_lt (hd' i hi)) hnd' hdis'
          have hnextnd : next ∉ bids ds := fun hm => Nat.lt_irrefl _ (hd' next hm)
          rw [heq]; unfold CopySpec; rw [hb]
          refine ⟨Nat.le_of_succ_le i1, ?_, ?_, ?_, ?_⟩
          · intro x hx hxn
            rw [i2 x (Nat.lt_succ_of_lt hx) hxn]
            exact upd_other _ _ _ _ (by omega)
          · simp only [List.map_cons]
            rw [i3, map_absKV_congr w (upd w next (w sid)) ss (fun i hi => upd_other _ _ _ _ (by have := hs' i hi; omega))]
            simp [absKV, absV, i2 next (Nat.lt_succ_self _) hnextnd, upd_same]
          · intro o ho
            simp only [bids_cons_bytes, List.mem_cons] at ho
            rcases ho with rfl | ho
            · exact ⟨Or.inr (Nat.le_refl _), i1⟩
            · obtain ⟨h1, h2⟩ := i4 o ho
              exact ⟨h1.imp id (fun h => Nat.le_of_succ_le h), h2⟩
          · simp only [bids_cons_bytes]
            refine List.nodup_cons.mpr ⟨?_, i5⟩
            intro hm
            rcases (i4 next hm).1 with h | h
            · exact hnextnd h
            · omega
        cases dv with
        | nil => exact fresh (by simp) (by simp) (by simp [copyElems])
        | scalar a b => exact fresh (by simp) (by simp) (by simp [copyElems])
        | bytes did =>
          have hdid : did < next := hd did (by simp)
          have hdidnd : did ∉ bids ds := by
            have := hnd; simp only [bids_cons_bytes, List.nodup_cons] at this; exact this.1
          have hne : sid ≠ did := fun e => hsidnd (by simp [e])
          obtain ⟨i1, i2, i3, i4, i5⟩ := ih (upd w did (w sid)) next ds hlen' hs' hd' hnd' hdis'
          have heq : copyElems w next (⟨sk, .bytes sid⟩ :: ss) (⟨dk, .bytes did⟩ :: ds) =
              ((copyElems (upd w did (w sid)) next ss ds).1, (copyElems (upd w did (w sid)) next ss ds).2.1,
                ⟨sk, .bytes did⟩ :: (copyElems (upd w did (w sid)) next ss ds).2.2) := by simp [copyElems]
          rw [heq]
          refine ⟨i1, ?_, ?_, ?_, ?_⟩
          · intro x hx hxn
            simp only [bids_cons_bytes, List.mem_cons, not_or] at hxn
            rw [i2 x hx hxn.2]
            exact upd_other _ _ _ _ hxn.1
          · simp only [List.map_cons]
            rw [i3, map_absKV_congr w (upd w did (w sid)) ss
              (fun i hi => upd_other _ _ _ _ (fun e => hdis i (bids_cons_sub _ _ i hi) (by simp [e])))]
            simp [absKV, absV, i2 did hdid hdidnd, upd_same]
          · intro o ho
            simp only [bids_cons_bytes, List.mem_cons] at ho
            rcases ho with rfl | ho
            · exact ⟨Or.inl (by simp), Nat.lt_of_lt_of_le hdid i1⟩
            · obtain ⟨h1, h2⟩ := i4 o ho
              exact ⟨h1.imp (bids_cons_sub _ _ o) id, h2⟩
          · simp only [bids_cons_bytes]
            refine List.nodup_cons.mpr ⟨?_, i5⟩
            intro hm
            rcases (i4 did hm).1 with h | h
            · exact hdidnd h
            · omega

/-! ### per-operation specifications -/

theorem bids_singleton (kv : KV) (o : Nat) : o ∈ bids [kv] ↔ bid kv = some o := by
  simp [bids, List.filterMap_cons]
  cases bid kv <;> simp [eq_comm]

theorem putVal_bids_mem (h : Hdr) (k : Nat) (x : V) (c o : Nat) (ho : o ∈ bids (putVal h k x c).live) :
    o ∈ bids h.live ∨ bid ⟨k, x⟩ = some o := by
  unfold putVal at ho
  cases hf : find h.live k with
  | some i => simp only [hf] at ho; exact bids_set_mem _ _ _ _ ho
  | none =>
    simp only [hf, bids_append, List.mem_append] at ho
    exact ho.imp id (fun h' => (bids_singleton _ _).mp h')

theorem putVal_bids_nodup (h : Hdr) (k : Nat) (x : V) (c : Nat) (hn : (bids h.live).Nodup)
    (hf : ∀ o, bid ⟨k, x⟩ = some o → o ∉ bids h.live) : (bids (putVal h k x c).live).Nodup := by
  unfold putVal
  cases hfi : find h.live k with
  | some i => simp only []; exact bids_set_nodup _ _ _ hn hf
  | none =>
    simp only [bids_append]
    refine List.nodup_append.mpr ⟨hn, ?_, ?_⟩
    · cases hb : bid (⟨k, x⟩ : KV) <;> simp [bids, List.filterMap_cons, hb]
    · intro a ha b hb e; subst e
      exact hf a ((bids_singleton _ _).mp hb) ha

theorem putVal_abs (h : Hdr) (k : Nat) (x : V) (c : Nat) (w w' : Nat → List Nat)
    (hw : ∀ i ∈ bids h.live, w' i = w i) :
    (putVal h k x c).live.map (absKV w') = pput (h.live.map (absKV w)) k (absV w' x) := by
  have hm := map_absKV_congr w w' h.live hw
  unfold putVal pput
  rw [find_map]
  cases hf : find h.live k with
  | some i => simp only [List.map_set, hm]; rfl
  | none => simp only [List.map_append, hm]; rfl

theorem removeKey_live (h : Hdr) (k : Nat) :
    (∃ i last, find h.live k = some i ∧ h.live.getLast? = some last ∧ (removeKey h k).live = (h.live.set i last).dropLast) ∨
    (removeKey h k).live = h.live := by
  unfold removeKey
  cases hf : find h.live k with
  | none => right; rfl
  | some i =>
    cases hl : h.live.getLast? with
    | none => right; rfl
    | some last => left; exact ⟨i, last, rfl, rfl, rfl⟩

theorem setLast_bids (l : List KV) (i : Nat) (last : KV) (hl : l.getLast? = some last) (hn : (bids l).Nodup) :
    (bids ((l.set i last).dropLast)).Nodup ∧ ∀ o ∈ bids ((l.set i last).dropLast), o ∈ bids l := by
  obtain ⟨ys, rfl⟩ := List.getLast?_eq_some_iff.mp hl
  rw [bids_append] at hn
  obtain ⟨hny, _, hdis⟩ := List.nodup_append.mp hn
  by_cases hi : i < ys.length
  · have : ((ys ++ [last]).set i last).dropLast = ys.set i last := by
      rw [List.set_append]; simp [hi]
    rw [this]
    constructor
    · exact bids_set_nodup _ _ _ hny (fun o ho hm => hdis o hm o ((bids_singleton _ _).mpr ho) rfl)
    · intro o ho
      rw [bids_append, List.mem_append]
      exact (bids_set_mem _ _ _ _ ho).imp id (fun h' => (bids_singleton _ _).mpr h')
  · have : ((ys ++ [last]).set i last).dropLast = ys := by
      rw [List.set_append]; simp only [hi, if_false]
      cases (i - ys.length) <;> simp
    rw [this]
    exact ⟨hny, fun o ho => by rw [bids_append, List.mem_append]; exact Or.inl ho⟩

theorem removeKey_abs (h : Hdr) (k : Nat) (w : Nat → List Nat) :
    (removeKey h k).live.map (absKV w) = premove (h.live.map (absKV w)) k := by
  unfold removeKey premove
  rw [find_map, List.getLast?_map]
  cases hf : find h.live k with
  | none => rfl
  | some i =>
    cases hl : h.live.getLast? with
    | none => rfl
    | some last => simp [List.map_set, List.map_dropLast]

/-- outcome of every operation: invariant kept, readers show the pure result, same panic -/
theorem step_spec {s : St} (hi : Inv s) (op : Op) (hw : WfOp op) :
    Inv (step s op).1 ∧ abs (step s op).1 = (pstep (abs s) op).1 ∧ (step s op).2 = (pstep (abs s) op).2 := by
  have habs_ro : (abs s).ro = s.ro := rfl
  have same : Inv s ∧ abs s = abs s ∧ True := ⟨hi, rfl, trivial⟩
  cases op with
  | putScalar a k kind v c =>
    simp only [step, pstep, habs_ro]
    by_cases hr : s.ro a = true
    · simp [hr, hi]
    · simp only [hr, Bool.false_eq_true, ↓reduceIte]
      refine ⟨?_, PSt.ext' _ _ ?_ rfl, by first | rfl | trivial⟩
      · exact inv_update_sub hi a _ _ (putVal_bids_nodup _ _ _ _ (hi.nodup a) (by simp [bid]))
          (fun o ho => (putVal_bids_mem _ _ _ _ _ ho).resolve_right (by simp [bid]))
      · exact abs_update_val s a _ s.w s.next _ (putVal_abs _ _ _ _ s.w s.w (fun _ _ => rfl)) (fun _ _ _ _ => rfl)
  | putEmpty a k c =>
    simp only [step, pstep, habs_ro]
    by_cases hr : s.ro a = true
    · simp [hr, hi]
    · simp only [hr, Bool.false_eq_true, ↓reduceIte]
      refine ⟨?_, PSt.ext' _ _ ?_ rfl, by first | rfl | trivial⟩
      · exact inv_update_sub hi a _ _ (putVal_bids_nodup _ _ _ _ (hi.nodup a) (by simp [bid]))
          (fun o ho => (putVal_bids_mem _ _ _ _ _ ho).resolve_right (by simp [bid]))
      · exact abs_update_val s a _ s.w s.next _ (putVal_abs _ _ _ _ s.w s.w (fun _ _ => rfl)) (fun _ _ _ _ => rfl)
  | putBytes a k bs c =>
    simp only [step, pstep, habs_ro]
    by_cases hr : s.ro a = true
    · simp [hr, hi]
    · simp only [hr, Bool.false_eq_true, ↓reduceIte]
      have hfresh : ∀ d, s.next ∉ bids (s.hd d).live := fun d hm => Nat.lt_irrefl _ (hi.lt d _ hm)
      have hframe : ∀ d, ∀ o ∈ bids (s.hd d).live, upd s.w s.next bs o = s.w o :=
        fun d o ho => upd_other _ _ _ _ (fun e => hfresh d (e ▸ ho))
      refine ⟨?_, PSt.ext' _ _ ?_ rfl, by first | rfl | trivial⟩
      · apply inv_update hi a _ _ _ _ _ (Nat.le_succ _)
        · exact putVal_bids_nodup _ _ _ _ (hi.nodup a) (fun o ho => by simp [bid] at ho; subst ho; exact hfresh a)
        · intro o ho
          rcases putVal_bids_mem _ _ _ _ _ ho with h | h
          · exact ⟨Or.inl h, Nat.lt_succ_of_lt (hi.lt a o h)⟩
          · simp [bid] at h; subst h; exact ⟨Or.inr (Nat.le_refl _), Nat.lt_succ_self _⟩
      · apply abs_update_val s a _ _ _ _ _ (fun d _ => hframe d)
        rw [putVal_abs _ _ _ _ s.w _ (hframe a)]
        simp [absV, upd_same, abs]
  | bytesAppend a k x =>
    simp only [step, pstep, habs_ro]
    by_cases hr : s.ro a = true
    · simp [hr, hi]
    · simp only [hr, Bool.false_eq_true, ↓reduceIte]
      have hfm : pfind ((abs s).val a) k = find (s.hd a).live k := find_map _ _ _
      rw [hfm]
      cases hf : find (s.hd a).live k with
      | none => exact ⟨hi, rfl, by first | rfl | trivial⟩
      | some i =>
        simp only []
        have hget : ((abs s).val a)[i]? = ((s.hd a).live[i]?).map (absKV s.w) := by simp [abs]
        rw [hget]
        cases hg : (s.hd a).live[i]? with
        | none => exact ⟨hi, rfl, by first | rfl | trivial⟩
        | some kv =>
          obtain ⟨k', v⟩ := kv
          cases v with
          | nil => exact ⟨hi, rfl, by first | rfl | trivial⟩
          | scalar p q => exact ⟨hi, rfl, by first | rfl | trivial⟩
          | bytes id =>
            have hmem : id ∈ bids (s.hd a).live := mem_bids_of_getElem? hg
            simp only [Option.map_some, absKV, absV]
            refine ⟨⟨hi.lt, hi.nodup, hi.disj⟩, PSt.ext' _ _ ?_ rfl, by first | rfl | trivial⟩
            funext d
            by_cases hd : d = a
            · subst hd
              simp only [abs, upd_same]
              exact map_absKV_upd _ _ _ _ _ _ (hi.nodup d) hg
            · simp only [abs, upd_other _ _ _ _ hd]
              exact map_absKV_congr _ _ _ (fun o ho => upd_other _ _ _ _ (fun e => hi.disj a d (fun e' => hd e'.symm) id hmem (e ▸ ho)))
  | remove a k =>
    simp only [step, pstep, habs_ro]
    by_cases hr : s.ro a = true
    · simp [hr, hi]
    · simp only [hr, Bool.false_eq_true, ↓reduceIte]
      refine ⟨?_, PSt.ext' _ _ ?_ rfl, by first | rfl | trivial⟩
      · have hnd : (bids (removeKey (s.hd a) k).live).Nodup ∧
            ∀ o ∈ bids (removeKey (s.hd a) k).live, o ∈ bids (s.hd a).live := by
          rcases removeKey_live (s.hd a) k with ⟨i, last, _, hl, hlive⟩ | hlive
          · rw [hlive]; exact setLast_bids _ i last hl (hi.nodup a)
          · rw [hlive]; exact ⟨hi.nodup a, fun o ho => ho⟩
        exact inv_update_sub hi a _ _ hnd.1 hnd.2
      · exact abs_update_val s a _ s.w s.next _ (removeKey_abs _ _ _) (fun _ _ _ _ => rfl)
  | removeIf a m =>
    simp only [step, pstep, habs_ro]
    by_cases hr : s.ro a = true
    · simp [hr, hi]
    · simp only [hr, Bool.false_eq_true, ↓reduceIte]
      have hsub := bids_sublist (keep_sublist (s.hd a).live m)
      refine ⟨?_, PSt.ext' _ _ ?_ rfl, by first | rfl | trivial⟩
      · exact inv_update_sub hi a _ _ ((hi.nodup a).sublist hsub) (fun o ho => hsub.subset ho)
      · exact abs_update_val s a _ s.w s.next _ (by simp [removeIfH, map_keep, abs]) (fun _ _ _ _ => rfl)
  | ensureCap a n =>
    simp only [step, pstep, habs_ro]
    by_cases hr : s.ro a = true
    · simp [hr, hi]
    · simp only [hr, Bool.false_eq_true, ↓reduceIte]
      by_cases hn : n ≤ (s.hd a).cap
      · simp only [hn, ↓reduceIte]; exact ⟨hi, by first | rfl | trivial, by first | rfl | trivial⟩
      · simp only [hn, ↓reduceIte]
        refine ⟨inv_update_sub hi a _ _ (hi.nodup a) (fun o ho => ho), PSt.ext' _ _ ?_ rfl, by first | rfl | trivial⟩
        funext d
        by_cases hd : d = a
        · subst hd; simp [abs, upd_same]
        · simp [abs, upd_other _ _ _ _ hd]
  | clear a =>
    simp only [step, pstep, habs_ro]
    by_cases hr : s.ro a = true
    · simp [hr, hi]
    · simp only [hr, Bool.false_eq_true, ↓reduceIte]
      refine ⟨inv_update_sub hi a [] [] (by simp) (by simp), PSt.ext' _ _ ?_ rfl, by first | rfl | trivial⟩
      exact abs_update_val s a _ s.w s.next _ rfl (fun _ _ _ _ => rfl)
  | copyTo a b =>
    simp only [step, pstep, habs_ro]
    by_cases hr : s.ro b = true
    · simp [hr, hi]
    · simp only [hr, Bool.false_eq_true, ↓reduceIte]
      have hab : a ≠ b := hw
      -- both branches: destination slots = some of b's own live slots followed by zero slots
      have core : ∀ (ds t : List KV), (s.hd a).live.length = ds.length → (∀ o ∈ bids ds, o ∈ bids (s.hd b).live) → (bids ds).Nodup →
          let r := copyElems s.w s.next (s.hd a).live ds
          Inv { s with w := r.1, next := r.2.1, hd := upd s.hd b ⟨r.2.2, t⟩ } ∧
          (abs { s with w := r.1, next := r.2.1, hd := upd s.hd b ⟨r.2.2, t⟩ }).val = upd (abs s).val b ((abs s).val a) := by
        intro ds t hlen hsub hnd r
        obtain ⟨i1, i2, i3, i4, i5⟩ := copyElems_spec (s.hd a).live s.w s.next ds hlen (hi.lt a)
          (fun o ho => hi.lt b o (hsub o ho)) hnd (fun o ho hm => hi.disj a b hab o ho (hsub o hm))
        constructor
        · exact inv_update hi b _ _ _ _ _ i1 i5 (fun o ho => ⟨(i4 o ho).1.imp (hsub o) id, (i4 o ho).2⟩)
        · apply abs_update_val s b _ _ _ _ i3
          intro c hc o ho
          exact i2 o (hi.lt c o ho) (fun hm => hi.disj c b hc o ho (hsub o hm))
      unfold copyTo
      by_cases hn : (s.hd a).live.length ≤ (s.hd b).cap
      · simp only [hn, ↓reduceIte]
        have hb : bids ((s.hd b).live.take (s.hd a).live.length ++ List.replicate ((s.hd a).live.length - (s.hd b).live.length) KV.zero)
            = bids ((s.hd b).live.take (s.hd a).live.length) := by rw [bids_append, bids_replicate_zero, List.append_nil]
        have hts := bids_sublist (List.take_sublist (s.hd a).live.length (s.hd b).live)
        obtain ⟨h1, h2⟩ := core ((s.hd b).live.take (s.hd a).live.length ++ List.replicate ((s.hd a).live.length - (s.hd b).live.length) KV.zero) ((s.hd b).live.drop (s.hd a).live.length ++ (s.hd b).tail.drop ((s.hd a).live.length - (s.hd b).live.length))
          (by simp [List.length_take]; omega) (by rw [hb]; exact fun o ho => hts.subset ho) (by rw [hb]; exact (hi.nodup b).sublist hts)
        exact ⟨h1, PSt.ext' _ _ h2 rfl, by first | rfl | trivial⟩
      · simp only [hn, ↓reduceIte]
        obtain ⟨h1, h2⟩ := core (List.replicate (s.hd a).live.length KV.zero) [] (by simp)
          (by rw [bids_replicate_zero]; simp) (by rw [bids_replicate_zero]; simp)
        exact ⟨h1, PSt.ext' _ _ h2 rfl, by first | rfl | trivial⟩
  | moveTo a b =>
    simp only [step, pstep, habs_ro]
    by_cases hr : (s.ro a || s.ro b) = true
    · simp [hr, hi]
    · simp only [hr, Bool.false_eq_true, ↓reduceIte]
      have hab : a ≠ b := hw
      have hba : b ≠ a := fun e => hab e.symm
      have hlive : ∀ d, (upd (upd s.hd b (s.hd a)) a {} d).live =
          if d = a then [] else if d = b then (s.hd a).live else (s.hd d).live := by
        intro d
        by_cases hda : d = a
        · subst hda; simp [upd_same]
        · by_cases hdb : d = b
          · subst hdb; simp [upd_other _ _ _ _ hda, upd_same, hda]
          · simp [upd_other _ _ _ _ hda, upd_other _ _ _ _ hdb, hda, hdb]
      refine ⟨⟨?_, ?_, ?_⟩, PSt.ext' _ _ ?_ rfl, by first | rfl | trivial⟩
      · intro d o ho
        simp only [hlive] at ho
        split at ho
        · simp at ho
        · split at ho
          · exact hi.lt a o ho
          · exact hi.lt d o ho
      · intro d
        simp only [hlive]
        split
        · simp
        · split
          · exact hi.nodup a
          · exact hi.nodup d
      · intro d e hde o ho hm
        simp only [hlive] at ho hm
        by_cases hda : d = a
        · simp [hda] at ho
        · by_cases hea : e = a
          · simp [hea] at hm
          · simp only [hda, hea, if_false] at ho hm
            by_cases hdb : d = b
            · have heb : e ≠ b := fun h => hde (hdb.trans h.symm)
              simp only [hdb, heb, if_true, if_false] at ho hm
              exact hi.disj a e (fun h => hea h.symm) o ho hm
            · by_cases heb : e = b
              · simp only [hdb, heb, if_true, if_false] at ho hm
                exact hi.disj d a hda o ho hm
              · simp only [hdb, heb, if_false] at ho hm
                exact hi.disj d e hde o ho hm
      · funext d
        simp only [abs, hlive]
        by_cases hda : d = a
        · subst hda; simp [upd_same]
        · by_cases hdb : d = b
          · subst hdb; simp [hda, upd_other _ _ _ _ hda, upd_same]
          · simp [hda, hdb, upd_other _ _ _ _ hda, upd_other _ _ _ _ hdb]
  | markRO a =>
    simp only [step, pstep]
    refine ⟨⟨hi.lt, hi.nodup, hi.disj⟩, ?_, ?_⟩ <;> first | rfl | trivial

end OtelVerif.C07.M
