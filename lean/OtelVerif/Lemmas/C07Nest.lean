import OtelVerif.Model.C07Nest
import OtelVerif.Lemmas.C07
/-! lemmas for the nested `pcommon.Value` heap model (C07 part C): frame/congruence of footprint,
depth and abstraction; specification of the deep copy at every depth -/
namespace OtelVerif.C07.N
open OtelVerif.C07 (upd keep keep_sublist map_keep)

theorem upd_same {β : Type} (f : Nat → β) (i : Nat) (v : β) : upd f i v i = v := by simp [upd]
theorem upd_other {β : Type} (f : Nat → β) (i j : Nat) (v : β) (h : j ≠ i) : upd f i v j = f j := by simp [upd, h]

theorem flatMap_congr' {α β : Type} (l : List α) (f g : α → List β) (h : ∀ a ∈ l, f a = g a) : l.flatMap f = l.flatMap g := by
  induction l with
  | nil => rfl
  | cons x xs ih =>
    simp only [List.flatMap_cons]
    rw [h x List.mem_cons_self, ih (fun a ha => h a (List.mem_cons_of_mem _ ha))]

theorem sublist_flatMap {α β : Type} {l₁ l₂ : List α} (f : α → List β) (h : l₁.Sublist l₂) : (l₁.flatMap f).Sublist (l₂.flatMap f) := by
  induction h with
  | slnil => simp
  | cons a _ ih => simp only [List.flatMap_cons]; exact ih.trans (List.sublist_append_right _ _)
  | cons_cons a _ ih => simp only [List.flatMap_cons]; exact List.Sublist.append (List.Sublist.refl _) ih

theorem mem_flatMap_of_mem {α β : Type} {l : List α} {f : α → List β} {a : α} {b : β} (ha : a ∈ l) (hb : b ∈ f a) : b ∈ l.flatMap f :=
  List.mem_flatMap.mpr ⟨a, ha, hb⟩

/-- the two heaps hold the same wrappers at `ids` -/
def Agree (h h' : Heap) (ids : List Nat) : Prop := ∀ i ∈ ids, h'.wb i = h.wb i ∧ h'.wl i = h.wl i

/-- children footprint of a container header -/
def reachL (d : Nat) (h : Heap) (l : List KV) : List Nat := l.flatMap (fun kv => reachV d h kv.val)

theorem reachV_list_succ (d : Nat) (h : Heap) (km : Bool) (i : Nat) :
    reachV (d + 1) h (.list km i) = i :: reachL d h (h.wl i).live := rfl

theorem reach_congr (d : Nat) : ∀ (h h' : Heap) (v : V), Agree h h' (reachV d h v) → reachV d h' v = reachV d h v := by
  induction d with
  | zero => intro h h' v _; cases v <;> rfl
  | succ d ih =>
    intro h h' v ha
    cases v with
    | nil => rfl
    | scalar a b => rfl
    | bytes i => rfl
    | list km i =>
      have hi := ha i (by simp [reachV])
      simp only [reachV, hi.2]
      congr 1
      apply flatMap_congr'
      intro kv hkv
      apply ih
      intro j hj
      exact ha j (by simp only [reachV]; exact List.mem_cons_of_mem _ (mem_flatMap_of_mem hkv hj))

theorem abs_congr (d : Nat) : ∀ (h h' : Heap) (v : V), Agree h h' (reachV d h v) → absV d h' v = absV d h v := by
  induction d with
  | zero =>
    intro h h' v ha
    cases v with
    | bytes i => simp [absV, (ha i (by simp [reachV])).1]
    | nil => rfl
    | scalar a b => rfl
    | list km i => rfl
  | succ d ih =>
    intro h h' v ha
    cases v with
    | nil => rfl
    | scalar a b => rfl
    | bytes i => simp [absV, (ha i (by simp [reachV])).1]
    | list km i =>
      have hi := ha i (by simp [reachV])
      simp only [absV, hi.2]
      congr 1
      apply flatMap_congr'
      intro kv hkv
      congr 1
      apply ih
      intro j hj
      exact ha j (by simp only [reachV]; exact List.mem_cons_of_mem _ (mem_flatMap_of_mem hkv hj))

theorem fits_congr (d : Nat) : ∀ (h h' : Heap) (v : V), Agree h h' (reachV d h v) → fits d h v → fits d h' v := by
  induction d with
  | zero => intro h h' v _ hf; cases v <;> simp_all [fits]
  | succ d ih =>
    intro h h' v ha hf
    cases v with
    | nil => trivial
    | scalar a b => trivial
    | bytes i => trivial
    | list km i =>
      have hi := ha i (by simp [reachV])
      simp only [fits, hi.2] at hf ⊢
      intro kv hkv
      apply ih h h' kv.val _ (hf kv hkv)
      intro j hj
      exact ha j (by simp only [reachV]; exact List.mem_cons_of_mem _ (mem_flatMap_of_mem hkv hj))

instance fitsDec : (d : Nat) → (h : Heap) → (v : V) → Decidable (fits d h v)
  | 0, _, .list _ _ => isFalse (by simp [fits])
  | 0, _, .nil => isTrue trivial
  | 0, _, .scalar _ _ => isTrue trivial
  | 0, _, .bytes _ => isTrue trivial
  | _ + 1, _, .nil => isTrue trivial
  | _ + 1, _, .scalar _ _ => isTrue trivial
  | _ + 1, _, .bytes _ => isTrue trivial
  | d + 1, h, .list _ i =>
    have : ∀ kv : KV, Decidable (fits d h kv.val) := fun kv => fitsDec d h kv.val
    inferInstanceAs (Decidable (∀ kv ∈ (h.wl i).live, fits d h kv.val))

theorem fits_succ (d : Nat) : ∀ (h : Heap) (v : V), fits d h v → fits (d + 1) h v := by
  induction d with
  | zero => intro h v hf; cases v <;> simp_all [fits]
  | succ d ih =>
    intro h v hf
    cases v with
    | nil => trivial
    | scalar a b => trivial
    | bytes i => trivial
    | list km i =>
      simp only [fits] at hf ⊢
      exact fun kv hkv => ih h kv.val (hf kv hkv)

theorem fits_mono {d e : Nat} (hde : d ≤ e) (h : Heap) (v : V) (hf : fits d h v) : fits e h v := by
  induction hde with
  | refl => exact hf
  | step _ ih => exact fits_succ _ h v ih

/-! ## deep copy: contract of a value copy at depth `d` -/

structure Pre (d : Nat) (h : Heap) (sv dv : V) : Prop where
  fit : fits d h sv
  slt : ∀ i ∈ reachV d h sv, i < h.next
  dlt : ∀ i ∈ reachV d h dv, i < h.next
  dnd : (reachV d h dv).Nodup
  dis : ∀ i ∈ reachV d h sv, i ∉ reachV d h dv

structure Post (d : Nat) (h : Heap) (sv dv : V) (r : Heap × V) : Prop where
  next_le : h.next ≤ r.1.next
  frame : ∀ x, x < h.next → x ∉ reachV d h dv → r.1.wb x = h.wb x ∧ r.1.wl x = h.wl x
  abs_eq : absV d r.1 r.2 = absV d h sv
  foot : ∀ o ∈ reachV d r.1 r.2, (o ∈ reachV d h dv ∨ h.next ≤ o) ∧ o < r.1.next
  nodup : (reachV d r.1 r.2).Nodup
  fit : fits d r.1 r.2

/-- contract of the element loop -/
structure LoopPost (d : Nat) (h : Heap) (ss ds : List KV) (r : Heap × List KV) : Prop where
  next_le : h.next ≤ r.1.next
  frame : ∀ x, x < h.next → x ∉ reachL d h ds → r.1.wb x = h.wb x ∧ r.1.wl x = h.wl x
  abs_eq : r.2.flatMap (fun kv => Tok.key kv.key :: absV d r.1 kv.val) = ss.flatMap (fun kv => Tok.key kv.key :: absV d h kv.val)
  len : r.2.length = ss.length
  foot : ∀ o ∈ reachL d r.1 r.2, (o ∈ reachL d h ds ∨ h.next ≤ o) ∧ o < r.1.next
  nodup : (reachL d r.1 r.2).Nodup
  fit : ∀ kv ∈ r.2, fits d r.1 kv.val

theorem reachL_cons (d : Nat) (h : Heap) (kv : KV) (l : List KV) : reachL d h (kv :: l) = reachV d h kv.val ++ reachL d h l := by
  simp [reachL]

theorem copyElemsWith_spec (d : Nat) (cv : Heap → V → V → Heap × V)
    (hcv : ∀ h sv dv, Pre d h sv dv → Post d h sv dv (cv h sv dv)) (ss : List KV) :
    ∀ (h : Heap) (ds : List KV), ss.length = ds.length →
      (∀ kv ∈ ss, fits d h kv.val) → (∀ i ∈ reachL d h ss, i < h.next) → (∀ i ∈ reachL d h ds, i < h.next) →
      (reachL d h ds).Nodup → (∀ i ∈ reachL d h ss, i ∉ reachL d h ds) →
      LoopPost d h ss ds (copyElemsWith cv h ss ds) := by
  induction ss with
  | nil =>
    intro h ds _ _ _ _ _ _
    have : copyElemsWith cv h [] ds = (h, []) := by simp [copyElemsWith]
    rw [this]
    exact ⟨Nat.le_refl _, fun _ _ _ => ⟨rfl, rfl⟩, rfl, rfl, by simp [reachL], by simp [reachL], by simp⟩
  | cons s ss ih =>
    intro h ds hlen hfit hslt hdlt hdnd hdis
    cases ds with
    | nil => simp at hlen
    | cons dd ds =>
      have hlen' : ss.length = ds.length := by simpa using hlen
      rw [reachL_cons] at hslt hdlt hdnd hdis
      rw [reachL_cons] at hdis
      have hdnd' := List.nodup_append.mp hdnd
      -- the first element
      have pre1 : Pre d h s.val dd.val :=
        ⟨hfit s List.mem_cons_self, fun i hi => hslt i (List.mem_append_left _ hi), fun i hi => hdlt i (List.mem_append_left _ hi),
         hdnd'.1, fun i hi hm => hdis i (List.mem_append_left _ hi) (List.mem_append_left _ hm)⟩
      have p1 := hcv h s.val dd.val pre1
      -- the heap after it agrees with the old one on everything the rest of the loop looks at
      have agree_old : ∀ ids : List Nat, (∀ i ∈ ids, i < h.next) → (∀ i ∈ ids, i ∉ reachV d h dd.val) → Agree h (cv h s.val dd.val).1 ids :=
        fun ids h1 h2 i hi => p1.frame i (h1 i hi) (h2 i hi)
      have ag_ss : ∀ kv ∈ ss, Agree h (cv h s.val dd.val).1 (reachV d h kv.val) := by
        intro kv hkv
        apply agree_old
        · exact fun i hi => hslt i (List.mem_append_right _ (mem_flatMap_of_mem hkv hi))
        · exact fun i hi hm => hdis i (List.mem_append_right _ (mem_flatMap_of_mem hkv hi)) (List.mem_append_left _ hm)
      have ag_ds : ∀ kv ∈ ds, Agree h (cv h s.val dd.val).1 (reachV d h kv.val) := by
        intro kv hkv
        apply agree_old
        · exact fun i hi => hdlt i (List.mem_append_right _ (mem_flatMap_of_mem hkv hi))
        · exact fun i hi hm => hdnd'.2.2 i hm i (mem_flatMap_of_mem hkv hi) rfl
      have rs_eq : reachL d (cv h s.val dd.val).1 ss = reachL d h ss :=
        flatMap_congr' _ _ _ (fun kv hkv => reach_congr d _ _ _ (ag_ss kv hkv))
      have rd_eq : reachL d (cv h s.val dd.val).1 ds = reachL d h ds :=
        flatMap_congr' _ _ _ (fun kv hkv => reach_congr d _ _ _ (ag_ds kv hkv))
      have p2 := ih (cv h s.val dd.val).1 ds hlen'
        (fun kv hkv => fits_congr d _ _ _ (ag_ss kv hkv) (hfit kv (List.mem_cons_of_mem _ hkv)))
        (by rw [rs_eq]; exact fun i hi => Nat.lt_of_lt_of_le (hslt i (List.mem_append_right _ hi)) p1.next_le)
        (by rw [rd_eq]; exact fun i hi => Nat.lt_of_lt_of_le (hdlt i (List.mem_append_right _ hi)) p1.next_le)
        (by rw [rd_eq]; exact hdnd'.2.1)
        (by rw [rs_eq, rd_eq]; exact fun i hi hm => hdis i (List.mem_append_right _ hi) (List.mem_append_right _ hm))
      have p2_frame : ∀ x, x < (cv h s.val dd.val).1.next → x ∉ reachL d h ds →
          (copyElemsWith cv (cv h s.val dd.val).1 ss ds).1.wb x = (cv h s.val dd.val).1.wb x ∧
          (copyElemsWith cv (cv h s.val dd.val).1 ss ds).1.wl x = (cv h s.val dd.val).1.wl x :=
        fun x hx hn => p2.frame x hx (by rw [rd_eq]; exact hn)
      have p2_foot : ∀ o ∈ reachL d (copyElemsWith cv (cv h s.val dd.val).1 ss ds).1 (copyElemsWith cv (cv h s.val dd.val).1 ss ds).2,
          (o ∈ reachL d h ds ∨ (cv h s.val dd.val).1.next ≤ o) ∧ o < (copyElemsWith cv (cv h s.val dd.val).1 ss ds).1.next :=
        fun o ho => by have := p2.foot o ho; rwa [rd_eq] at this
      have heq : copyElemsWith cv h (s :: ss) (dd :: ds) =
          ((copyElemsWith cv (cv h s.val dd.val).1 ss ds).1, ⟨s.key, (cv h s.val dd.val).2⟩ :: (copyElemsWith cv (cv h s.val dd.val).1 ss ds).2) := by
        simp [copyElemsWith]
      rw [heq]
      -- the rest of the loop leaves the first copy alone
      have ag_head : Agree (cv h s.val dd.val).1 (copyElemsWith cv (cv h s.val dd.val).1 ss ds).1 (reachV d (cv h s.val dd.val).1 (cv h s.val dd.val).2) := by
        intro o ho
        obtain ⟨h1, h2⟩ := p1.foot o ho
        apply p2_frame o h2
        intro hm
        rcases h1 with h1 | h1
        · exact hdnd'.2.2 o h1 o hm rfl
        · have := hdlt o (List.mem_append_right _ hm); omega
      have rh_eq := reach_congr d _ _ _ ag_head
      refine ⟨Nat.le_trans p1.next_le p2.next_le, ?_, ?_, by simp [p2.len], ?_, ?_, ?_⟩
      · intro x hx hxn
        rw [reachL_cons, List.mem_append, not_or] at hxn
        have a := p2_frame x (Nat.lt_of_lt_of_le hx p1.next_le) hxn.2
        have b := p1.frame x hx hxn.1
        exact ⟨a.1.trans b.1, a.2.trans b.2⟩
      · simp only [List.flatMap_cons]
        rw [abs_congr d _ _ _ ag_head, p1.abs_eq, p2.abs_eq]
        congr 1
        exact flatMap_congr' _ _ _ (fun kv hkv => by rw [abs_congr d _ _ _ (ag_ss kv hkv)])
      · intro o ho
        rw [reachL_cons, List.mem_append] at ho
        rw [reachL_cons]
        rcases ho with ho | ho
        · rw [rh_eq] at ho
          obtain ⟨h1, h2⟩ := p1.foot o ho
          exact ⟨h1.imp (List.mem_append_left _) id, Nat.lt_of_lt_of_le h2 p2.next_le⟩
        · obtain ⟨h1, h2⟩ := p2_foot o ho
          exact ⟨h1.imp (List.mem_append_right _) (fun h' => Nat.le_trans p1.next_le h'), h2⟩
      · rw [reachL_cons, rh_eq]
        refine List.nodup_append.mpr ⟨p1.nodup, p2.nodup, ?_⟩
        intro a ha b hb e; subst e
        obtain ⟨h1, h2⟩ := p1.foot a ha
        obtain ⟨h3, _⟩ := p2_foot a hb
        rcases h3 with h3 | h3
        · rcases h1 with h1 | h1
          · exact hdnd'.2.2 a h1 a h3 rfl
          · have := hdlt a (List.mem_append_right _ h3); omega
        · omega
      · intro kv hkv
        rcases List.mem_cons.mp hkv with rfl | hkv
        · exact fits_congr d _ _ _ ag_head p1.fit
        · exact p2.fit kv hkv

/-! ### header copy (repaired `Map.CopyTo` / `Slice.CopyTo`) -/

theorem reachL_append (d : Nat) (h : Heap) (l₁ l₂ : List KV) : reachL d h (l₁ ++ l₂) = reachL d h l₁ ++ reachL d h l₂ := by
  simp [reachL]

theorem reachV_nil (d : Nat) (h : Heap) : reachV d h .nil = [] := by cases d <;> rfl
theorem reachV_scalar (d : Nat) (h : Heap) (a b : Nat) : reachV d h (.scalar a b) = [] := by cases d <;> rfl
theorem reachV_bytes (d : Nat) (h : Heap) (i : Nat) : reachV d h (.bytes i) = [i] := by cases d <;> rfl
theorem absV_nil (d : Nat) (h : Heap) : absV d h .nil = [.nil] := by cases d <;> rfl
theorem absV_scalar (d : Nat) (h : Heap) (a b : Nat) : absV d h (.scalar a b) = [.scalar a b] := by cases d <;> rfl
theorem absV_bytes (d : Nat) (h : Heap) (i : Nat) : absV d h (.bytes i) = [.bytes (h.wb i)] := by cases d <;> rfl
theorem fits_nil (d : Nat) (h : Heap) : fits d h .nil := by cases d <;> trivial
theorem fits_scalar (d : Nat) (h : Heap) (a b : Nat) : fits d h (.scalar a b) := by cases d <;> trivial
theorem fits_bytes (d : Nat) (h : Heap) (i : Nat) : fits d h (.bytes i) := by cases d <;> trivial

theorem reachL_replicate_zero (d : Nat) (h : Heap) (n : Nat) : reachL d h (List.replicate n KV.zero) = [] := by
  induction n with
  | zero => rfl
  | succ n ih => rw [List.replicate_succ, reachL_cons, ih]; simp [KV.zero, reachV_nil]

structure HdrPost (d : Nat) (h : Heap) (ss dl : List KV) (r : Heap × Hdr) : Prop where
  next_le : h.next ≤ r.1.next
  frame : ∀ x, x < h.next → x ∉ reachL d h dl → r.1.wb x = h.wb x ∧ r.1.wl x = h.wl x
  abs_eq : r.2.live.flatMap (fun kv => Tok.key kv.key :: absV d r.1 kv.val) = ss.flatMap (fun kv => Tok.key kv.key :: absV d h kv.val)
  len : r.2.live.length = ss.length
  foot : ∀ o ∈ reachL d r.1 r.2.live, (o ∈ reachL d h dl ∨ h.next ≤ o) ∧ o < r.1.next
  nodup : (reachL d r.1 r.2.live).Nodup
  fit : ∀ kv ∈ r.2.live, fits d r.1 kv.val

theorem copyHdrWith_spec (d : Nat) (cv : Heap → V → V → Heap × V)
    (hcv : ∀ h sv dv, Pre d h sv dv → Post d h sv dv (cv h sv dv)) (h : Heap) (src dst : Hdr)
    (hfit : ∀ kv ∈ src.live, fits d h kv.val) (hslt : ∀ i ∈ reachL d h src.live, i < h.next)
    (hdlt : ∀ i ∈ reachL d h dst.live, i < h.next) (hdnd : (reachL d h dst.live).Nodup)
    (hdis : ∀ i ∈ reachL d h src.live, i ∉ reachL d h dst.live) :
    HdrPost d h src.live dst.live (copyHdrWith cv h src dst) := by
  -- both branches run the loop over some of the destination's own slots followed by zero slots
  have core : ∀ (pre : List KV) (k : Nat) (t : List KV), pre.Sublist dst.live → src.live.length = (pre ++ List.replicate k KV.zero).length →
      HdrPost d h src.live dst.live
        ((copyElemsWith cv h src.live (pre ++ List.replicate k KV.zero)).1,
          { live := (copyElemsWith cv h src.live (pre ++ List.replicate k KV.zero)).2, tail := t }) := by
    intro pre k t hsub hlen
    have hr : reachL d h (pre ++ List.replicate k KV.zero) = reachL d h pre := by
      rw [reachL_append, reachL_replicate_zero, List.append_nil]
    have hss : (reachL d h pre).Sublist (reachL d h dst.live) := sublist_flatMap _ hsub
    have lp := copyElemsWith_spec d cv hcv src.live h _ hlen hfit hslt
      (by rw [hr]; exact fun i hi => hdlt i (hss.subset hi)) (by rw [hr]; exact hdnd.sublist hss)
      (by rw [hr]; exact fun i hi hm => hdis i hi (hss.subset hm))
    refine ⟨lp.next_le, ?_, lp.abs_eq, lp.len, ?_, lp.nodup, lp.fit⟩
    · exact fun x hx hn => lp.frame x hx (by rw [hr]; exact fun hm => hn (hss.subset hm))
    · intro o ho
      obtain ⟨h1, h2⟩ := lp.foot o ho
      rw [hr] at h1
      exact ⟨h1.imp (fun h' => hss.subset h') id, h2⟩
  unfold copyHdrWith
  by_cases hn : src.live.length ≤ dst.cap
  · simp only [hn, ↓reduceIte]
    exact core _ _ _ (List.take_sublist _ _) (by simp [List.length_take]; omega)
  · simp only [hn, ↓reduceIte]
    have := core [] src.live.length [] (List.nil_sublist _) (by simp)
    simpa using this

/-! ### `Value.CopyTo` at every depth -/

theorem copyVal_nil (d : Nat) (h : Heap) (dv : V) : copyVal d h .nil dv = (h, .nil) := by
  cases d <;> cases dv <;> rfl
theorem copyVal_scalar (d : Nat) (h : Heap) (a b : Nat) (dv : V) : copyVal d h (.scalar a b) dv = (h, .scalar a b) := by
  cases d <;> cases dv <;> rfl
theorem copyVal_bytes_bytes (d : Nat) (h : Heap) (sid did : Nat) :
    copyVal d h (.bytes sid) (.bytes did) = ({ h with wb := upd h.wb did (h.wb sid) }, .bytes did) := by
  cases d <;> rfl
theorem copyVal_bytes_other (d : Nat) (h : Heap) (sid : Nat) (dv : V) (hdv : ∀ i, dv ≠ .bytes i) :
    copyVal d h (.bytes sid) dv = ({ h with wb := upd h.wb h.next (h.wb sid), next := h.next + 1 }, .bytes h.next) := by
  cases d <;> cases dv <;> first | rfl | exact absurd rfl (hdv _)

theorem reuse_some {km : Bool} {dv : V} {did : Nat} (h : reuse km dv = some did) : dv = .list km did := by
  cases dv with
  | list km' i =>
    simp only [reuse] at h
    by_cases hk : km' = km
    · simp [hk] at h; rw [hk, h]
    · simp [hk] at h
  | nil => simp [reuse] at h
  | scalar a b => simp [reuse] at h
  | bytes i => simp [reuse] at h

theorem copyVal_flat_spec (d : Nat) (h : Heap) (sv dv : V) (hsv : ∀ km i, sv ≠ .list km i) (pre : Pre d h sv dv) :
    Post d h sv dv (copyVal d h sv dv) := by
  cases sv with
  | list km i => exact absurd rfl (hsv km i)
  | nil =>
    rw [copyVal_nil]
    exact ⟨Nat.le_refl _, fun _ _ _ => ⟨rfl, rfl⟩, rfl, by simp [reachV_nil], by simp [reachV_nil], fits_nil _ _⟩
  | scalar a b =>
    rw [copyVal_scalar]
    exact ⟨Nat.le_refl _, fun _ _ _ => ⟨rfl, rfl⟩, rfl, by simp [reachV_scalar], by simp [reachV_scalar], fits_scalar _ _ _ _⟩
  | bytes sid =>
    by_cases hb : ∃ did, dv = .bytes did
    · obtain ⟨did, rfl⟩ := hb
      rw [copyVal_bytes_bytes]
      have hdid : did < h.next := pre.dlt did (by simp [reachV_bytes])
      refine ⟨Nat.le_refl _, ?_, ?_, ?_, by simp [reachV_bytes], fits_bytes _ _ _⟩
      · intro x _ hxn
        simp only [reachV_bytes, List.mem_singleton] at hxn
        exact ⟨upd_other _ _ _ _ hxn, rfl⟩
      · simp [absV_bytes, upd_same]
      · intro o ho
        simp only [reachV_bytes, List.mem_singleton] at ho ⊢
        subst ho; exact ⟨Or.inl rfl, hdid⟩
    · have hdv : ∀ i, dv ≠ .bytes i := fun i e => hb ⟨i, e⟩
      rw [copyVal_bytes_other _ _ _ _ hdv]
      refine ⟨Nat.le_succ _, ?_, ?_, ?_, by simp [reachV_bytes], fits_bytes _ _ _⟩
      · intro x hx _
        exact ⟨upd_other _ _ _ _ (by omega), rfl⟩
      · simp [absV_bytes, upd_same]
      · intro o ho
        simp only [reachV_bytes, List.mem_singleton] at ho
        subst ho; exact ⟨Or.inr (Nat.le_refl _), Nat.lt_succ_self _⟩

/-- writing a copied header into wrapper `t` that none of the copied children reaches -/
theorem writeback (d : Nat) (g : Heap) (t : Nat) (R : Hdr) (km : Bool) (hne : ∀ o ∈ reachL d g R.live, o ≠ t) :
    reachV (d + 1) { g with wl := upd g.wl t R } (.list km t) = t :: reachL d g R.live ∧
    absV (d + 1) { g with wl := upd g.wl t R } (.list km t) =
      .opn km R.live.length :: R.live.flatMap (fun kv => Tok.key kv.key :: absV d g kv.val) ∧
    ((∀ kv ∈ R.live, fits d g kv.val) → fits (d + 1) { g with wl := upd g.wl t R } (.list km t)) := by
  have ag : ∀ kv ∈ R.live, Agree g { g with wl := upd g.wl t R } (reachV d g kv.val) :=
    fun kv hkv o ho => ⟨rfl, upd_other _ _ _ _ (hne o (mem_flatMap_of_mem hkv ho))⟩
  refine ⟨?_, ?_, ?_⟩
  · simp only [reachV, upd_same]
    congr 1
    exact flatMap_congr' _ _ _ (fun kv hkv => reach_congr d _ _ _ (ag kv hkv))
  · simp only [absV, upd_same]
    congr 1
    exact flatMap_congr' _ _ _ (fun kv hkv => by rw [abs_congr d _ _ _ (ag kv hkv)])
  · intro hf
    simp only [fits, upd_same]
    exact fun kv hkv => fits_congr d _ _ _ (ag kv hkv) (hf kv hkv)

/-- **deep copy**: whatever the destination holds (any shape, any kind, any capacities, any garbage
beyond `len` at any level), after `Value.CopyTo` it shows what the source shows; only wrappers of
the destination's own footprint and new ones were written; the result's footprint is duplicate-free
and made of the destination's old footprint and new wrappers only (so it shares nothing with the
source or anything else) -/
theorem copyVal_spec (d : Nat) : ∀ (h : Heap) (sv dv : V), Pre d h sv dv → Post d h sv dv (copyVal d h sv dv) := by
  induction d with
  | zero =>
    intro h sv dv pre
    apply copyVal_flat_spec 0 h sv dv _ pre
    intro km i e; subst e; exact pre.fit
  | succ d ih =>
    intro h sv dv pre
    by_cases hl : ∃ km sid, sv = .list km sid
    case neg => exact copyVal_flat_spec (d + 1) h sv dv (fun km i e => hl ⟨km, i, e⟩) pre
    obtain ⟨km, sid, rfl⟩ := hl
    have hfit : ∀ kv ∈ (h.wl sid).live, fits d h kv.val := pre.fit
    have hsid : sid < h.next := pre.slt sid (by simp [reachV])
    have hslt : ∀ i ∈ reachL d h (h.wl sid).live, i < h.next := fun i hi => pre.slt i (by rw [reachV_list_succ]; exact List.mem_cons_of_mem _ hi)
    cases hr : reuse km dv with
    | some did =>
      have hdv := reuse_some hr; subst hdv
      have hdnd := pre.dnd; rw [reachV_list_succ] at hdnd
      have hdnd' := List.nodup_cons.mp hdnd
      have hdid : did < h.next := pre.dlt did (by simp [reachV])
      have hp := copyHdrWith_spec d (copyVal d) ih h (h.wl sid) (h.wl did) hfit hslt
        (fun i hi => pre.dlt i (by rw [reachV_list_succ]; exact List.mem_cons_of_mem _ hi)) hdnd'.2
        (fun i hi hm => pre.dis i (by rw [reachV_list_succ]; exact List.mem_cons_of_mem _ hi) (by rw [reachV_list_succ]; exact List.mem_cons_of_mem _ hm))
      have heq : copyVal (d + 1) h (.list km sid) (.list km did) =
          ({ (copyHdrWith (copyVal d) h (h.wl sid) (h.wl did)).1 with
              wl := upd (copyHdrWith (copyVal d) h (h.wl sid) (h.wl did)).1.wl did (copyHdrWith (copyVal d) h (h.wl sid) (h.wl did)).2 },
            .list km did) := by simp [copyVal, hr]
      rw [heq]
      generalize copyHdrWith (copyVal d) h (h.wl sid) (h.wl did) = r at hp
      have hchild : ∀ o ∈ reachL d r.1 r.2.live, o ≠ did := by
        intro o ho e; subst e
        rcases (hp.foot o ho).1 with h1 | h1
        · exact hdnd'.1 h1
        · omega
      obtain ⟨w1, w2, w3⟩ := writeback d r.1 did r.2 km hchild
      refine ⟨hp.next_le, ?_, ?_, ?_, ?_, w3 hp.fit⟩
      · intro x hx hxn
        rw [reachV_list_succ, List.mem_cons, not_or] at hxn
        obtain ⟨a, b⟩ := hp.frame x hx hxn.2
        exact ⟨a, by simp only [upd_other _ _ _ _ hxn.1]; exact b⟩
      · rw [w2, hp.abs_eq, hp.len]; rfl
      · intro o ho
        rw [w1] at ho
        rw [reachV_list_succ]
        rcases List.mem_cons.mp ho with rfl | ho
        · exact ⟨Or.inl List.mem_cons_self, Nat.lt_of_lt_of_le hdid hp.next_le⟩
        · obtain ⟨h1, h2⟩ := hp.foot o ho
          exact ⟨h1.imp (List.mem_cons_of_mem _) id, h2⟩
      · rw [w1]
        exact List.nodup_cons.mpr ⟨fun hm => hchild did hm rfl, hp.nodup⟩
    | none =>
      -- the heap with the new (empty) wrapper agrees with the old one on everything allocated
      have ag_kv : ∀ kv ∈ (h.wl sid).live, Agree h { h with wl := upd h.wl h.next {}, next := h.next + 1 } (reachV d h kv.val) :=
        fun kv hkv i hi => ⟨rfl, upd_other _ _ _ _ (by have := hslt i (mem_flatMap_of_mem hkv hi); omega)⟩
      have rs_eq : reachL d { h with wl := upd h.wl h.next {}, next := h.next + 1 } (h.wl sid).live = reachL d h (h.wl sid).live :=
        flatMap_congr' _ _ _ (fun kv hkv => reach_congr d _ _ _ (ag_kv kv hkv))
      have abs0 : (h.wl sid).live.flatMap (fun kv => Tok.key kv.key :: absV d { h with wl := upd h.wl h.next {}, next := h.next + 1 } kv.val)
          = (h.wl sid).live.flatMap (fun kv => Tok.key kv.key :: absV d h kv.val) :=
        flatMap_congr' _ _ _ (fun kv hkv => by rw [abs_congr d _ _ _ (ag_kv kv hkv)])
      have hp := copyHdrWith_spec d (copyVal d) ih { h with wl := upd h.wl h.next {}, next := h.next + 1 } (h.wl sid) {}
        (fun kv hkv => fits_congr d _ _ _ (ag_kv kv hkv) (hfit kv hkv))
        (by rw [rs_eq]; exact fun i hi => Nat.lt_succ_of_lt (hslt i hi)) (by simp [reachL]) (by simp [reachL]) (by simp [reachL])
      have heq : copyVal (d + 1) h (.list km sid) dv =
          ({ (copyHdrWith (copyVal d) { h with wl := upd h.wl h.next {}, next := h.next + 1 } (h.wl sid) {}).1 with
              wl := upd (copyHdrWith (copyVal d) { h with wl := upd h.wl h.next {}, next := h.next + 1 } (h.wl sid) {}).1.wl h.next
                (copyHdrWith (copyVal d) { h with wl := upd h.wl h.next {}, next := h.next + 1 } (h.wl sid) {}).2 },
            .list km h.next) := by simp [copyVal, hr]
      rw [heq]
      generalize copyHdrWith (copyVal d) { h with wl := upd h.wl h.next {}, next := h.next + 1 } (h.wl sid) {} = r at hp
      have hnl : h.next + 1 ≤ r.1.next := hp.next_le
      have hfoot : ∀ o ∈ reachL d r.1 r.2.live, h.next + 1 ≤ o := by
        intro o ho
        rcases (hp.foot o ho).1 with h1 | h1
        · simp [reachL] at h1
        · exact h1
      obtain ⟨w1, w2, w3⟩ := writeback d r.1 h.next r.2 km (fun o ho => by have := hfoot o ho; omega)
      refine ⟨Nat.le_of_succ_le hnl, ?_, ?_, ?_, ?_, w3 hp.fit⟩
      · intro x hx _
        obtain ⟨a, b⟩ := hp.frame x (Nat.lt_succ_of_lt hx) (by simp [reachL])
        have hxn : x ≠ h.next := by omega
        exact ⟨a, by simp only [upd_other _ _ _ _ hxn] at b ⊢; exact b⟩
      · rw [w2, hp.abs_eq, hp.len, abs0]; rfl
      · intro o ho
        rw [w1] at ho
        rcases List.mem_cons.mp ho with rfl | ho
        · exact ⟨Or.inr (Nat.le_refl _), hnl⟩
        · exact ⟨Or.inr (Nat.le_of_succ_le (hfoot o ho)), (hp.foot o ho).2⟩
      · rw [w1]
        exact List.nodup_cons.mpr ⟨fun hm => by have := hfoot _ hm; omega, hp.nodup⟩

/-! ### fuel independence: with enough fuel the result does not depend on it -/

theorem reach_fits_succ (d : Nat) : ∀ (h : Heap) (v : V), fits d h v → reachV (d + 1) h v = reachV d h v := by
  induction d with
  | zero => intro h v hf; cases v <;> simp_all [fits, reachV]
  | succ d ih =>
    intro h v hf
    cases v with
    | nil => rfl
    | scalar a b => rfl
    | bytes i => rfl
    | list km i =>
      simp only [fits] at hf
      simp only [reachV]
      congr 1
      exact flatMap_congr' _ _ _ (fun kv hkv => ih h kv.val (hf kv hkv))

theorem abs_fits_succ (d : Nat) : ∀ (h : Heap) (v : V), fits d h v → absV (d + 1) h v = absV d h v := by
  induction d with
  | zero => intro h v hf; cases v <;> simp_all [fits, absV]
  | succ d ih =>
    intro h v hf
    cases v with
    | nil => rfl
    | scalar a b => rfl
    | bytes i => rfl
    | list km i =>
      simp only [fits] at hf
      simp only [absV]
      congr 1
      exact flatMap_congr' _ _ _ (fun kv hkv => by rw [ih h kv.val (hf kv hkv)])

theorem reach_fits_mono {d e : Nat} (hde : d ≤ e) (h : Heap) (v : V) (hf : fits d h v) : reachV e h v = reachV d h v := by
  induction hde with
  | refl => rfl
  | step hle ih => rw [reach_fits_succ _ h v (fits_mono hle h v hf), ih]

theorem abs_fits_mono {d e : Nat} (hde : d ≤ e) (h : Heap) (v : V) (hf : fits d h v) : absV e h v = absV d h v := by
  induction hde with
  | refl => rfl
  | step hle ih => rw [abs_fits_succ _ h v (fits_mono hle h v hf), ih]

theorem le_bump (d : Nat) : d ≤ bump d := by simp [bump]; omega

/-! ### separation invariant over the named roots -/

structure Inv (s : St) : Prop where
  pos : 0 < s.dep
  fit : ∀ r, fits s.dep s.h (s.root r)
  lt : ∀ r, ∀ i ∈ reachV s.dep s.h (s.root r), i < s.h.next
  nodup : ∀ r, (reachV s.dep s.h (s.root r)).Nodup
  disj : ∀ a b, a ≠ b → ∀ i ∈ reachV s.dep s.h (s.root a), i ∉ reachV s.dep s.h (s.root b)

theorem inv_init : Inv St.init :=
  ⟨by simp [St.init], fun _ => trivial, by simp [St.init, reachV_nil], by simp [St.init, reachV_nil], by simp [St.init, reachV_nil]⟩

/-- rebuild the invariant for a state whose roots are given with their footprints at the OLD fuel -/
theorem inv_of {s : St} (h' : Heap) (root' : Nat → V) (ro' : Nat → Bool)
    (hfit : ∀ r, fits s.dep h' (root' r)) (hlt : ∀ r, ∀ i ∈ reachV s.dep h' (root' r), i < h'.next)
    (hnd : ∀ r, (reachV s.dep h' (root' r)).Nodup)
    (hdis : ∀ a b, a ≠ b → ∀ i ∈ reachV s.dep h' (root' a), i ∉ reachV s.dep h' (root' b)) :
    Inv { h := h', root := root', ro := ro', dep := bump s.dep } := by
  have e : ∀ r, reachV (bump s.dep) h' (root' r) = reachV s.dep h' (root' r) :=
    fun r => reach_fits_mono (le_bump _) h' _ (hfit r)
  refine ⟨by simp [bump], fun r => fits_mono (le_bump _) h' _ (hfit r), ?_, ?_, ?_⟩
  · intro r i hi; simp only [e] at hi; exact hlt r i hi
  · intro r; simp only [e]; exact hnd r
  · intro a b hab i hi; simp only [e] at hi ⊢; exact hdis a b hab i hi

theorem absRoot_bump {s : St} (h' : Heap) (root' : Nat → V) (ro' : Nat → Bool) (r : Nat) (hfit : fits s.dep h' (root' r)) :
    absRoot { h := h', root := root', ro := ro', dep := bump s.dep } r = absV s.dep h' (root' r) :=
  abs_fits_mono (le_bump _) h' _ hfit

/-- programs whose operations address whole root values (their contents are arbitrarily nested) -/
def WfRootOp (s : St) : Op → Prop
  | .setRoot _ _ => True
  | .copyVal rs (.root a) rd (.root b) => rs = a ∧ rd = b ∧ a ≠ b
  | .moveRoot a b => a ≠ b
  | .bytesAppend r b _ => s.root r = .bytes b
  | .markRO _ => True
  | _ => False

/-! pure specification on what the readers show of each root -/

structure PSt where
  val : Nat → List Tok
  ro : Nat → Bool

def absNew : NewV → List Tok
  | .nil => [.nil]
  | .scalar k v => [.scalar k v]
  | .bytes bs => [.bytes bs]
  | .list km => [.opn km 0]

def pstep (p : PSt) : Op → PSt × Bool
  | .setRoot r x => if p.ro r then (p, true) else ({ p with val := upd p.val r (absNew x) }, false)
  | .copyVal _ (.root a) rd (.root b) => if p.ro rd then (p, true) else ({ p with val := upd p.val b (p.val a) }, false)
  | .moveRoot a b => if p.ro a || p.ro b then (p, true) else ({ p with val := upd (upd p.val b (p.val a)) a [.nil] }, false)
  | .bytesAppend r _ x =>
    if p.ro r then (p, true) else
    match p.val r with
    | [.bytes bs] => ({ p with val := upd p.val r [.bytes (bs ++ [x])] }, false)
    | _ => (p, false)
  | .markRO r => ({ p with ro := upd p.ro r true }, false)
  | _ => (p, false)

def prun (p : PSt) : List Op → PSt
  | [] => p
  | op :: ops => prun (pstep p op).1 ops

def abs (s : St) : PSt := { val := absRoot s, ro := s.ro }

theorem PSt.ext' (p q : PSt) (hv : p.val = q.val) (hr : p.ro = q.ro) : p = q := by
  cases p; cases q; simp_all

theorem mkNew_spec (h : Heap) (x : NewV) (d : Nat) :
    h.next ≤ (mkNew h x).1.next ∧
    (∀ i, i < h.next → (mkNew h x).1.wb i = h.wb i ∧ (mkNew h x).1.wl i = h.wl i) ∧
    absV (d + 1) (mkNew h x).1 (mkNew h x).2 = absNew x ∧
    fits (d + 1) (mkNew h x).1 (mkNew h x).2 ∧
    (reachV (d + 1) (mkNew h x).1 (mkNew h x).2).Nodup ∧
    (∀ o ∈ reachV (d + 1) (mkNew h x).1 (mkNew h x).2, h.next ≤ o ∧ o < (mkNew h x).1.next) := by
  cases x with
  | nil => simp [mkNew, absNew, absV, fits, reachV]
  | scalar a b => simp [mkNew, absNew, absV, fits, reachV]
  | bytes bs =>
    refine ⟨Nat.le_succ _, fun i hi => ⟨upd_other _ _ _ _ (by omega), rfl⟩, ?_, trivial, by simp [mkNew, reachV], ?_⟩
    · simp [mkNew, absNew, absV, upd_same]
    · simp [mkNew, reachV]
  | list km =>
    refine ⟨Nat.le_succ _, fun i hi => ⟨rfl, upd_other _ _ _ _ (by omega)⟩, ?_, ?_, by simp [mkNew, reachV, upd_same], ?_⟩
    · simp [mkNew, absNew, absV, upd_same]
    · simp [mkNew, fits, upd_same]
    · simp [mkNew, reachV, upd_same]

/-- one root gets a new value made of its own old footprint and new wrappers; nothing else was written -/
theorem root_update {s : St} (hi : Inv s) (b : Nat) (h' : Heap) (v' : V) (ro' : Nat → Bool)
    (hnext : s.h.next ≤ h'.next)
    (hframe : ∀ x, x < s.h.next → x ∉ reachV s.dep s.h (s.root b) → h'.wb x = s.h.wb x ∧ h'.wl x = s.h.wl x)
    (hfit : fits s.dep h' v') (hnd : (reachV s.dep h' v').Nodup)
    (hfoot : ∀ o ∈ reachV s.dep h' v', (o ∈ reachV s.dep s.h (s.root b) ∨ s.h.next ≤ o) ∧ o < h'.next) :
    Inv { h := h', root := upd s.root b v', ro := ro', dep := bump s.dep } ∧
    absRoot { h := h', root := upd s.root b v', ro := ro', dep := bump s.dep } b = absV s.dep h' v' ∧
    ∀ c, c ≠ b → absRoot { h := h', root := upd s.root b v', ro := ro', dep := bump s.dep } c = absRoot s c := by
  have ag : ∀ c, c ≠ b → Agree s.h h' (reachV s.dep s.h (s.root c)) :=
    fun c hc i hic => hframe i (hi.lt c i hic) (fun hm => hi.disj c b hc i hic hm)
  have hreach : ∀ c, c ≠ b → reachV s.dep h' (s.root c) = reachV s.dep s.h (s.root c) := fun c hc => reach_congr _ _ _ _ (ag c hc)
  have hfits : ∀ r, fits s.dep h' (upd s.root b v' r) := by
    intro r
    by_cases hr : r = b
    · subst hr; simpa [upd_same] using hfit
    · simp only [upd_other _ _ _ _ hr]; exact fits_congr _ _ _ _ (ag r hr) (hi.fit r)
  refine ⟨inv_of h' _ ro' hfits ?_ ?_ ?_, ?_, ?_⟩
  · intro r i hir
    by_cases hr : r = b
    · subst hr; simp only [upd_same] at hir; exact (hfoot i hir).2
    · simp only [upd_other _ _ _ _ hr, hreach r hr] at hir; exact Nat.lt_of_lt_of_le (hi.lt r i hir) hnext
  · intro r
    by_cases hr : r = b
    · subst hr; simpa [upd_same] using hnd
    · simp only [upd_other _ _ _ _ hr, hreach r hr]; exact hi.nodup r
  · intro a c hac i hia hic
    by_cases ha : a = b
    · subst ha
      have hc : c ≠ a := fun e => hac e.symm
      simp only [upd_same] at hia
      simp only [upd_other _ _ _ _ hc, hreach c hc] at hic
      rcases (hfoot i hia).1 with h1 | h1
      · exact hi.disj a c hac i h1 hic
      · have := hi.lt c i hic; omega
    · simp only [upd_other _ _ _ _ ha, hreach a ha] at hia
      by_cases hc : c = b
      · subst hc
        simp only [upd_same] at hic
        rcases (hfoot i hic).1 with h1 | h1
        · exact hi.disj a c hac i hia h1
        · have := hi.lt a i hia; omega
      · simp only [upd_other _ _ _ _ hc, hreach c hc] at hic
        exact hi.disj a c hac i hia hic
  · rw [absRoot_bump h' _ ro' b (hfits b)]; simp [upd_same]
  · intro c hc
    rw [absRoot_bump h' _ ro' c (hfits c)]
    simp only [upd_other _ _ _ _ hc]
    exact abs_congr _ _ _ _ (ag c hc)

/-- every root-level operation: invariant kept, readers show the pure result, same panic -/
theorem step_root_spec {s : St} (hi : Inv s) (op : Op) (hw : WfRootOp s op) :
    Inv (step s op).1 ∧ abs (step s op).1 = (pstep (abs s) op).1 ∧ (step s op).2 = (pstep (abs s) op).2 := by
  have habs_ro : (abs s).ro = s.ro := rfl
  obtain ⟨d, hd⟩ : ∃ d, s.dep = d + 1 := ⟨s.dep - 1, by have := hi.pos; omega⟩
  cases op with
  | setRoot r x =>
    simp only [step, pstep, habs_ro]
    by_cases hr : s.ro r = true
    · simp [hr, hi]
    · simp only [hr, Bool.false_eq_true, ↓reduceIte]
      obtain ⟨m1, m2, m3, m4, m5, m6⟩ := mkNew_spec s.h x d
      rw [← hd] at m3 m4 m5 m6
      obtain ⟨u1, u2, u3⟩ := root_update hi r (mkNew s.h x).1 (mkNew s.h x).2 s.ro m1 (fun i hi' _ => m2 i hi') m4 m5
        (fun o ho => ⟨Or.inr (m6 o ho).1, (m6 o ho).2⟩)
      refine ⟨u1, PSt.ext' _ _ ?_ rfl, by first | rfl | trivial⟩
      funext c
      by_cases hc : c = r
      · subst hc; simp only [abs, upd_same]; rw [u2, m3]
      · simp only [abs, upd_other _ _ _ _ hc]; exact u3 c hc
  | copyVal rs src rd dst =>
    cases src with
    | slot o i => exact absurd hw (by simp [WfRootOp])
    | root a =>
      cases dst with
      | slot o i => exact absurd hw (by simp [WfRootOp])
      | root b =>
        obtain ⟨rfl, rfl, hab⟩ := hw
        simp only [step, pstep, habs_ro]
        by_cases hr : s.ro rd = true
        · simp [hr, hi]
        · simp only [hr, Bool.false_eq_true, ↓reduceIte, readLoc, writeLoc]
          have pre : Pre s.dep s.h (s.root rs) (s.root rd) :=
            ⟨hi.fit rs, hi.lt rs, hi.lt rd, hi.nodup rd, hi.disj rs rd hab⟩
          have post := copyVal_spec s.dep s.h _ _ pre
          obtain ⟨u1, u2, u3⟩ := root_update hi rd _ _ s.ro post.next_le post.frame post.fit post.nodup post.foot
          refine ⟨u1, PSt.ext' _ _ ?_ rfl, by first | rfl | trivial⟩
          funext c
          by_cases hc : c = rd
          · subst hc; simp only [abs, upd_same]; rw [u2, post.abs_eq]; rfl
          · simp only [abs, upd_other _ _ _ _ hc]; exact u3 c hc
  | moveRoot a b =>
    have hab : a ≠ b := hw
    have hba : b ≠ a := fun e => hab e.symm
    simp only [step, pstep, habs_ro]
    by_cases hr : (s.ro a || s.ro b) = true
    · simp [hr, hi]
    · simp only [hr, Bool.false_eq_true, ↓reduceIte]
      have hroot : ∀ r, upd (upd s.root b (s.root a)) a V.nil r = if r = a then V.nil else if r = b then s.root a else s.root r := by
        intro r
        by_cases h1 : r = a
        · subst h1; simp [upd_same]
        · by_cases h2 : r = b
          · subst h2; simp [upd_other _ _ _ _ h1, upd_same, h1]
          · simp [upd_other _ _ _ _ h1, upd_other _ _ _ _ h2, h1, h2]
      have hfits : ∀ r, fits s.dep s.h (upd (upd s.root b (s.root a)) a V.nil r) := by
        intro r; rw [hroot]; split
        · exact fits_nil _ _
        · split
          · exact hi.fit a
          · exact hi.fit r
      refine ⟨inv_of s.h _ s.ro hfits ?_ ?_ ?_, PSt.ext' _ _ ?_ rfl, by first | rfl | trivial⟩
      · intro r i hir; rw [hroot] at hir; split at hir
        · simp [reachV_nil] at hir
        · split at hir
          · exact hi.lt a i hir
          · exact hi.lt r i hir
      · intro r; rw [hroot]; split
        · simp [reachV_nil]
        · split
          · exact hi.nodup a
          · exact hi.nodup r
      · intro x y hxy i hix hiy
        rw [hroot] at hix hiy
        by_cases hxa : x = a
        · simp [hxa, reachV_nil] at hix
        · by_cases hya : y = a
          · simp [hya, reachV_nil] at hiy
          · simp only [hxa, hya, if_false] at hix hiy
            by_cases hxb : x = b
            · have hyb : y ≠ b := fun e => hxy (hxb.trans e.symm)
              simp only [hxb, hyb, if_true, if_false] at hix hiy
              exact hi.disj a y (fun e => hya e.symm) i hix hiy
            · by_cases hyb : y = b
              · simp only [hxb, hyb, if_true, if_false] at hix hiy
                exact hi.disj x a hxa i hix hiy
              · simp only [hxb, hyb, if_false] at hix hiy
                exact hi.disj x y hxy i hix hiy
      · funext c
        simp only [abs]
        rw [absRoot_bump s.h _ s.ro c (hfits c), hroot]
        by_cases h1 : c = a
        · subst h1; simp [upd_same, absV_nil]
        · by_cases h2 : c = b
          · subst h2; simp [h1, upd_other _ _ _ _ h1, upd_same, absRoot]
          · simp [h1, h2, upd_other _ _ _ _ h1, upd_other _ _ _ _ h2, absRoot]
  | bytesAppend r b x =>
    have hrb : s.root r = .bytes b := hw
    simp only [step, pstep, habs_ro]
    by_cases hr : s.ro r = true
    · simp [hr, hi]
    · simp only [hr, Bool.false_eq_true, ↓reduceIte]
      have hval : (abs s).val r = [.bytes (s.h.wb b)] := by simp [abs, absRoot, hrb, absV_bytes]
      rw [hval]
      have hb : b < s.h.next := hi.lt r b (by rw [hrb, reachV_bytes]; simp)
      obtain ⟨u1, u2, u3⟩ := root_update hi r { s.h with wb := upd s.h.wb b (s.h.wb b ++ [x]) } (.bytes b) s.ro (Nat.le_refl _)
        (fun y _ hy => ⟨upd_other _ _ _ _ (by rw [hrb, reachV_bytes] at hy; simpa using hy), rfl⟩)
        (fits_bytes _ _ _) (by simp [reachV_bytes]) (fun o ho => by
          rw [reachV_bytes] at ho; simp at ho; subst ho
          exact ⟨Or.inl (by rw [hrb, reachV_bytes]; simp), hb⟩)
      have hsame : upd s.root r (V.bytes b) = s.root := by
        funext c; by_cases hc : c = r
        · subst hc; simp [upd_same, hrb]
        · simp [upd_other _ _ _ _ hc]
      rw [hsame] at u1 u2 u3
      refine ⟨u1, PSt.ext' _ _ ?_ rfl, by first | rfl | trivial⟩
      funext c
      by_cases hc : c = r
      · subst hc; simp only [abs, upd_same]; rw [u2]; simp [absV_bytes, upd_same]
      · simp only [abs, upd_other _ _ _ _ hc]; exact u3 c hc
  | markRO r =>
    simp only [step, pstep]
    refine ⟨⟨hi.pos, hi.fit, hi.lt, hi.nodup, hi.disj⟩, ?_, ?_⟩ <;> first | rfl | trivial
  | setSlot r o sel x c => exact absurd hw (by simp [WfRootOp])
  | remove r o k => exact absurd hw (by simp [WfRootOp])
  | removeIf r o m => exact absurd hw (by simp [WfRootOp])
  | ensureCap r o n => exact absurd hw (by simp [WfRootOp])
  | clear r o => exact absurd hw (by simp [WfRootOp])
  | copyList rs o1 rd o2 => exact absurd hw (by simp [WfRootOp])
  | moveAppend rs o1 rd o2 c => exact absurd hw (by simp [WfRootOp])

end OtelVerif.C07.N
