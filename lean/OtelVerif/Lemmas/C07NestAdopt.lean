import OtelVerif.Lemmas.C07NestRaw
import OtelVerif.Lemmas.C07NestMove
/-!
# C07 part C: `Slice.MoveAndAppendTo` between slices nested ANYWHERE — the "adopted footprint" generalisation of the local-update lemma

The children of the source container are neither old children of the destination nor new wrappers: the contracts `Repl` / `HRepl` are
generalised by a list `A` of ADOPTED ids (orphans: allocated, reachable from no root) and a list `X` of ids that must have become
UNREACHABLE.  The move is then two local updates: unlink (source header := {}; `X` = the source's children footprint, which becomes orphan)
and link (destination header := old ++ moved; `A` = that orphan footprint).
-/
namespace OtelVerif.C07.N
open OtelVerif.C07 (upd keep)

/-- the forest facts at a fuel (the invariant without the ghost depth) -/
structure Forest (d : Nat) (h : Heap) (root : Nat → V) : Prop where
  fit : ∀ r, fits d h (root r)
  lt : ∀ r, ∀ i ∈ reachV d h (root r), i < h.next
  nodup : ∀ r, (reachV d h (root r)).Nodup
  disj : ∀ a b, a ≠ b → ∀ i ∈ reachV d h (root a), i ∉ reachV d h (root b)

theorem Inv.forest {s : St} (hi : Inv s) : Forest s.dep s.h s.root := ⟨hi.fit, hi.lt, hi.nodup, hi.disj⟩

structure ReplA (A X : List Nat) (d D : Nat) (h : Heap) (dv : V) (h' : Heap) (v' : V) : Prop where
  upd : Upd h h' (reachV d h dv)
  fit : fits D h' v'
  nodup : (reachV D h' v').Nodup
  foot : ∀ o ∈ reachV D h' v', (o ∈ reachV d h dv ∨ h.next ≤ o ∨ o ∈ A) ∧ o < h'.next
  excl : ∀ x ∈ X, x ∉ reachV D h' v'

structure HReplA (A X : List Nat) (G D : Nat) (h : Heap) (o : Nat) (h' : Heap) : Prop where
  upd : Upd h h' (o :: reachL G h (h.wl o).live)
  fit : ∀ kv ∈ (h'.wl o).live, fits D h' kv.val
  nodup : (reachL D h' (h'.wl o).live).Nodup
  foot : ∀ x ∈ reachL D h' (h'.wl o).live, (x ∈ reachL G h (h.wl o).live ∨ h.next ≤ x ∨ x ∈ A) ∧ x < h'.next
  xold : ∀ x ∈ X, x ∈ reachL G h (h.wl o).live
  xnew : ∀ x ∈ X, x ∉ reachL D h' (h'.wl o).live

/-- **local update with adoption** (`lift` generalised) -/
theorem liftA (A X : List Nat) (G D : Nat) (h h' : Heap) (o : Nat) (hc : HReplA A X G D h o h') :
    ∀ d, d ≤ G → ∀ v, fits d h v → (reachV d h v).Nodup → (∀ i ∈ reachV d h v, i < h.next) →
      (∀ x ∈ A, x ∉ reachV d h v) → ownsList d h v o → ReplA A X d (d + D) h v h' v := by
  intro d
  induction d with
  | zero => intro _ v _ _ _ _ ho; cases v <;> simp [ownsList] at ho
  | succ d ih =>
    intro hdG v hf hnd hlt hA ho
    cases v with
    | nil => simp [ownsList] at ho
    | scalar a b => simp [ownsList] at ho
    | bytes i => simp [ownsList] at ho
    | list km i =>
      have hdG' : d ≤ G := Nat.le_of_succ_le hdG
      have hfi : ∀ kv ∈ (h.wl i).live, fits d h kv.val := hf
      rw [reachV_list_succ] at hnd hlt hA
      have hnd' := List.nodup_cons.mp hnd
      have hfuel : d + 1 + D = (d + D) + 1 := by omega
      by_cases hio : i = o
      · subst hio
        have hG : reachL G h (h.wl i).live = reachL d h (h.wl i).live := reachL_fits_mono hdG' h _ hfi
        have hD : reachL (d + D) h' (h'.wl i).live = reachL D h' (h'.wl i).live :=
          reachL_fits_mono (Nat.le_add_left _ _) h' _ hc.fit
        have hi : i < h.next := hlt i List.mem_cons_self
        refine ⟨⟨hc.upd.next_le, ?_⟩, ?_, ?_, ?_, ?_⟩
        · intro x hx hxn
          rw [reachV_list_succ, ← hG] at hxn
          exact hc.upd.frame x hx hxn
        · rw [hfuel]
          exact fun kv hkv => fits_mono (Nat.le_add_left _ _) h' _ (hc.fit kv hkv)
        · rw [hfuel, reachV_list_succ, hD]
          refine List.nodup_cons.mpr ⟨?_, hc.nodup⟩
          intro hm
          rcases (hc.foot i hm).1 with h1 | h1 | h1
          · rw [hG] at h1; exact hnd'.1 h1
          · omega
          · exact hA i h1 List.mem_cons_self
        · intro x hx
          rw [hfuel, reachV_list_succ, hD] at hx
          rw [reachV_list_succ]
          rcases List.mem_cons.mp hx with rfl | hx
          · exact ⟨Or.inl List.mem_cons_self, Nat.lt_of_lt_of_le hi hc.upd.next_le⟩
          · obtain ⟨h1, h2⟩ := hc.foot x hx
            rw [hG] at h1
            exact ⟨h1.imp (List.mem_cons_of_mem _) id, h2⟩
        · intro x hx hm
          rw [hfuel, reachV_list_succ, hD] at hm
          rcases List.mem_cons.mp hm with rfl | hm
          · have := hc.xold x hx; rw [hG] at this; exact hnd'.1 this
          · exact hc.xnew x hx hm
      · have ho' : ∃ kv ∈ (h.wl i).live, ownsList d h kv.val o := by
          rcases ho with h1 | h1
          · exact absurd h1 hio
          · exact h1
        obtain ⟨kv, hkv, hkvo⟩ := ho'
        obtain ⟨s, t, hst⟩ := List.append_of_mem hkv
        have hreach : reachL d h (h.wl i).live = reachL d h s ++ reachV d h kv.val ++ reachL d h t := by
          rw [hst, reachL_append, reachL_cons, List.append_assoc]
        rw [hreach] at hnd' hlt hA
        obtain ⟨hsub, _⟩ := owns_sublist G h o d hdG' kv.val (hfi kv hkv) hkvo
        have hW : ∀ x, x ∈ o :: reachL G h (h.wl o).live → x ∈ reachV d h kv.val := fun x hx => hsub.subset hx
        have hnd3 := List.nodup_append.mp hnd'.2
        have hnd2 := List.nodup_append.mp hnd3.1
        have hkvnd : (reachV d h kv.val).Nodup := hnd2.2.1
        have hkvlt : ∀ x ∈ reachV d h kv.val, x < h.next := fun x hx =>
          hlt x (List.mem_cons_of_mem _ (List.mem_append_left _ (List.mem_append_right _ hx)))
        have hkvA : ∀ x ∈ A, x ∉ reachV d h kv.val := fun x hx hm =>
          hA x hx (List.mem_cons_of_mem _ (List.mem_append_left _ (List.mem_append_right _ hm)))
        have rk := ih hdG' kv.val (hfi kv hkv) hkvnd hkvlt hkvA hkvo
        have hi : i < h.next := hlt i List.mem_cons_self
        have hi_notin : i ∉ reachV d h kv.val := fun hm =>
          hnd'.1 (List.mem_append_left _ (List.mem_append_right _ hm))
        have hwli : h'.wl i = h.wl i := (hc.upd.frame i hi (fun hm => hi_notin (hW i hm))).2
        have sib : ∀ l : List KV, (∀ x ∈ reachL d h l, x < h.next) → (∀ x ∈ reachL d h l, x ∉ reachV d h kv.val) →
            (∀ kv' ∈ l, fits d h kv'.val) →
            reachL (d + D) h' l = reachL d h l ∧ ∀ kv' ∈ l, fits (d + D) h' kv'.val := by
          intro l hl1 hl2 hl3
          have ag : ∀ kv' ∈ l, Agree h h' (reachV d h kv'.val) := fun kv' hkv' x hx =>
            hc.upd.frame x (hl1 x (mem_flatMap_of_mem hkv' hx)) (fun hm => hl2 x (mem_flatMap_of_mem hkv' hx) (hW x hm))
          constructor
          · apply flatMap_congr'
            intro kv' hkv'
            rw [reach_fits_mono (Nat.le_add_right _ _) h' _ (fits_congr d _ _ _ (ag kv' hkv') (hl3 kv' hkv'))]
            exact reach_congr d _ _ _ (ag kv' hkv')
          · exact fun kv' hkv' => fits_mono (Nat.le_add_right _ _) h' _ (fits_congr d _ _ _ (ag kv' hkv') (hl3 kv' hkv'))
        have hs := sib s (fun x hx => hlt x (List.mem_cons_of_mem _ (List.mem_append_left _ (List.mem_append_left _ hx))))
          (fun x hx hm => hnd2.2.2 x hx x hm rfl) (fun kv' hkv' => hfi kv' (by rw [hst]; exact List.mem_append_left _ hkv'))
        have ht := sib t (fun x hx => hlt x (List.mem_cons_of_mem _ (List.mem_append_right _ hx)))
          (fun x hx hm => hnd3.2.2 x (List.mem_append_right _ hm) x hx rfl)
          (fun kv' hkv' => hfi kv' (by rw [hst]; exact List.mem_append_right _ (List.mem_cons_of_mem _ hkv')))
        have hreach' : reachL (d + D) h' (h'.wl i).live = reachL d h s ++ reachV (d + D) h' kv.val ++ reachL d h t := by
          rw [hwli, hst, reachL_append, reachL_cons, hs.1, ht.1, List.append_assoc]
        have hfootk : ∀ x ∈ reachV (d + D) h' kv.val, x ∈ reachV d h kv.val ∨ (x ∉ reachL d h s ∧ x ∉ reachL d h t) := by
          intro x hx
          rcases (rk.foot x hx).1 with h1 | h1 | h1
          · exact Or.inl h1
          · right
            constructor
            · intro hm; have := hlt x (List.mem_cons_of_mem _ (List.mem_append_left _ (List.mem_append_left _ hm))); omega
            · intro hm; have := hlt x (List.mem_cons_of_mem _ (List.mem_append_right _ hm)); omega
          · right
            constructor
            · intro hm; exact hA x h1 (List.mem_cons_of_mem _ (List.mem_append_left _ (List.mem_append_left _ hm)))
            · intro hm; exact hA x h1 (List.mem_cons_of_mem _ (List.mem_append_right _ hm))
        refine ⟨⟨hc.upd.next_le, ?_⟩, ?_, ?_, ?_, ?_⟩
        · intro x hx hxn
          apply hc.upd.frame x hx
          intro hm
          apply hxn
          rw [reachV_list_succ, hreach]
          exact List.mem_cons_of_mem _ (List.mem_append_left _ (List.mem_append_right _ (hW x hm)))
        · rw [hfuel]
          show ∀ kv' ∈ (h'.wl i).live, fits (d + D) h' kv'.val
          rw [hwli, hst]
          intro kv' hkv'
          rcases List.mem_append.mp hkv' with h1 | h1
          · exact hs.2 kv' h1
          · rcases List.mem_cons.mp h1 with rfl | h1
            · exact rk.fit
            · exact ht.2 kv' h1
        · rw [hfuel, reachV_list_succ, hreach']
          refine List.nodup_cons.mpr ⟨?_, nodup_replace hnd'.2 rk.nodup hfootk⟩
          intro hm
          rcases List.mem_append.mp hm with h1 | h1
          · rcases List.mem_append.mp h1 with h2 | h2
            · exact hnd'.1 (List.mem_append_left _ (List.mem_append_left _ h2))
            · rcases (rk.foot i h2).1 with h3 | h3 | h3
              · exact hi_notin h3
              · omega
              · exact hA i h3 List.mem_cons_self
          · exact hnd'.1 (List.mem_append_right _ h1)
        · intro x hx
          rw [hfuel, reachV_list_succ, hreach'] at hx
          rw [reachV_list_succ, hreach]
          rcases List.mem_cons.mp hx with rfl | hx
          · exact ⟨Or.inl List.mem_cons_self, Nat.lt_of_lt_of_le hi hc.upd.next_le⟩
          · have hlt' : ∀ y, y ∈ reachL d h s ++ reachV d h kv.val ++ reachL d h t → y < h'.next := fun y hy =>
              Nat.lt_of_lt_of_le (hlt y (List.mem_cons_of_mem _ hy)) hc.upd.next_le
            rcases List.mem_append.mp hx with h1 | h1
            · rcases List.mem_append.mp h1 with h2 | h2
              · exact ⟨Or.inl (List.mem_cons_of_mem _ (List.mem_append_left _ (List.mem_append_left _ h2))),
                  hlt' x (List.mem_append_left _ (List.mem_append_left _ h2))⟩
              · obtain ⟨h3, h4⟩ := rk.foot x h2
                exact ⟨h3.imp (fun h5 => List.mem_cons_of_mem _ (List.mem_append_left _ (List.mem_append_right _ h5))) id, h4⟩
            · exact ⟨Or.inl (List.mem_cons_of_mem _ (List.mem_append_right _ h1)), hlt' x (List.mem_append_right _ h1)⟩
        · intro x hx hm
          rw [hfuel, reachV_list_succ, hreach'] at hm
          have hxk : x ∈ reachV d h kv.val := hW x (List.mem_cons_of_mem _ (hc.xold x hx))
          rcases List.mem_cons.mp hm with rfl | hm
          · exact hi_notin hxk
          · rcases List.mem_append.mp hm with h1 | h1
            · rcases List.mem_append.mp h1 with h2 | h2
              · exact hnd2.2.2 x h2 x hxk rfl
              · exact rk.excl x hx h2
            · exact hnd3.2.2 x (List.mem_append_right _ hxk) x h1 rfl

/-- one root replaced under the adoption contract; the adopted ids were reachable from NO root -/
theorem root_updateA {d : Nat} {h : Heap} {root : Nat → V} (f : Forest d h root) (A X : List Nat) (b : Nat) (h' : Heap) (v' : V)
    (D : Nat) (hD1 : d ≤ D) (rp : ReplA A X d D h (root b) h' v') (hA : ∀ x ∈ A, ∀ r, x ∉ reachV d h (root r)) :
    Forest D h' (upd root b v') ∧
    ∀ c, c ≠ b → reachV D h' (root c) = reachV d h (root c) ∧ absV D h' (root c) = absV d h (root c) := by
  have ag : ∀ c, c ≠ b → Agree h h' (reachV d h (root c)) :=
    fun c hc i hic => rp.upd.frame i (f.lt c i hic) (fun hm => f.disj c b hc i hic hm)
  have hfitc : ∀ c, c ≠ b → fits d h' (root c) := fun c hc => fits_congr _ _ _ _ (ag c hc) (f.fit c)
  have hreach : ∀ c, c ≠ b → reachV D h' (root c) = reachV d h (root c) := fun c hc => by
    rw [reach_fits_mono hD1 h' _ (hfitc c hc)]; exact reach_congr _ _ _ _ (ag c hc)
  have habs : ∀ c, c ≠ b → absV D h' (root c) = absV d h (root c) := fun c hc => by
    rw [abs_fits_mono hD1 h' _ (hfitc c hc)]; exact abs_congr _ _ _ _ (ag c hc)
  refine ⟨⟨?_, ?_, ?_, ?_⟩, fun c hc => ⟨hreach c hc, habs c hc⟩⟩
  · intro r
    by_cases hr : r = b
    · subst hr; simpa [upd_same] using rp.fit
    · simp only [upd_other _ _ _ _ hr]; exact fits_mono hD1 h' _ (hfitc r hr)
  · intro r i hir
    by_cases hr : r = b
    · subst hr; simp only [upd_same] at hir; exact (rp.foot i hir).2
    · simp only [upd_other _ _ _ _ hr, hreach r hr] at hir; exact Nat.lt_of_lt_of_le (f.lt r i hir) rp.upd.next_le
  · intro r
    by_cases hr : r = b
    · subst hr; simpa [upd_same] using rp.nodup
    · simp only [upd_other _ _ _ _ hr, hreach r hr]; exact f.nodup r
  · intro a c hac i hia hic
    by_cases ha : a = b
    · subst ha
      have hc : c ≠ a := fun e => hac e.symm
      simp only [upd_same] at hia
      simp only [upd_other _ _ _ _ hc, hreach c hc] at hic
      rcases (rp.foot i hia).1 with h1 | h1 | h1
      · exact f.disj a c hac i h1 hic
      · have := f.lt c i hic; omega
      · exact hA i h1 c hic
    · simp only [upd_other _ _ _ _ ha, hreach a ha] at hia
      by_cases hc : c = b
      · subst hc
        simp only [upd_same] at hic
        rcases (rp.foot i hic).1 with h1 | h1 | h1
        · exact f.disj a c hac i hia h1
        · have := f.lt a i hia; omega
        · exact hA i h1 a hia
      · simp only [upd_other _ _ _ _ hc, hreach c hc] at hic
        exact f.disj a c hac i hia hic

theorem upd_self {β : Type} (f : Nat → β) (r : Nat) : upd f r (f r) = f := by
  funext c; by_cases hc : c = r
  · subst hc; simp [upd_same]
  · simp [upd_other _ _ _ _ hc]

/-- an operation on a container `o` below root `r` under the adoption contract -/
theorem nested_updateA {d : Nat} {h : Heap} {root : Nat → V} (f : Forest d h root) (A X : List Nat) (r o : Nat) (h' : Heap) (D : Nat)
    (ho : ownsList d h (root r) o) (hc : HReplA A X d D h o h') (hA : ∀ x ∈ A, ∀ r, x ∉ reachV d h (root r)) :
    Forest (d + D) h' root ∧
    (∀ c, c ≠ r → reachV (d + D) h' (root c) = reachV d h (root c) ∧ absV (d + D) h' (root c) = absV d h (root c)) ∧
    (∀ x ∈ X, x ∉ reachV (d + D) h' (root r)) := by
  have rp := liftA A X d D h h' o hc d (Nat.le_refl _) (root r) (f.fit r) (f.nodup r) (f.lt r) (fun x hx => hA x hx r) ho
  obtain ⟨u1, u2⟩ := root_updateA f A X r h' (root r) (d + D) (Nat.le_add_right _ _) rp hA
  rw [upd_self] at u1
  exact ⟨u1, u2, rp.excl⟩

theorem owns_mem : ∀ (d : Nat) (h : Heap) (v : V) (o : Nat), ownsList d h v o → o ∈ reachV d h v := by
  intro d
  induction d with
  | zero => intro h v o ho; cases v <;> simp [ownsList] at ho
  | succ d ih =>
    intro h v o ho
    cases v with
    | list km i =>
      rw [reachV_list_succ]
      rcases ho with e | ⟨kv, hkv, hk⟩
      · subst e; exact List.mem_cons_self
      · exact List.mem_cons_of_mem _ (mem_flatMap_of_mem hkv (ih h kv.val o hk))
    | nil => simp [ownsList] at ho
    | scalar a b => simp [ownsList] at ho
    | bytes i => simp [ownsList] at ho

/-- ownership of `o2` survives a change of the header of a container `o1` that `o2` is not below -/
theorem owns_preserved (G : Nat) (h h' : Heap) (o1 o2 : Nat) (hwl : ∀ x, x ≠ o1 → h'.wl x = h.wl x)
    (hno : ∀ kv ∈ (h.wl o1).live, ¬ ownsList G h kv.val o2) :
    ∀ d, d ≤ G + 1 → ∀ v, ownsList d h v o2 → ownsList d h' v o2 := by
  intro d
  induction d with
  | zero => intro _ v ho; cases v <;> simp [ownsList] at ho
  | succ d ih =>
    intro hd v ho
    cases v with
    | list km i =>
      simp only [ownsList] at ho ⊢
      rcases ho with e | ⟨kv, hkv, hk⟩
      · exact Or.inl e
      · by_cases hi : i = o1
        · subst hi
          exact absurd (owns_mono (by omega) h kv.val o2 hk) (hno kv hkv)
        · rw [hwl i hi]
          exact Or.inr ⟨kv, hkv, ih (by omega) kv.val hk⟩
    | nil => simp [ownsList] at ho
    | scalar a b => simp [ownsList] at ho
    | bytes i => simp [ownsList] at ho

/-- well-formed `Slice.MoveAndAppendTo`: both are containers of the forest, distinct, neither lies inside the other -/
def WfMove (s : St) (rs o1 rd o2 : Nat) : Prop :=
  ownsList s.dep s.h (s.root rs) o1 ∧ ownsList s.dep s.h (s.root rd) o2 ∧ o1 ≠ o2 ∧
  o2 ∉ reachL s.dep s.h (s.h.wl o1).live ∧ o1 ∉ reachL s.dep s.h (s.h.wl o2).live

instance (s : St) (rs o1 rd o2 : Nat) : Decidable (WfMove s rs o1 rd o2) := by unfold WfMove; infer_instance


/-- **`Slice.MoveAndAppendTo` between containers nested anywhere** (same root or different roots, all three branches of the code): the
forest invariant is kept — the moved elements are owned by the destination alone — and every root that is neither above the source
nor above the destination reads as before -/
theorem move_append_spec {s : St} (hi : Inv s) (rs o1 rd o2 c : Nat) (hw : WfMove s rs o1 rd o2) :
    Inv (step s (.moveAppend rs o1 rd o2 c)).1 ∧
    ∀ x, x ∉ touched (.moveAppend rs o1 rd o2 c) → absRoot (step s (.moveAppend rs o1 rd o2 c)).1 x = absRoot s x := by
  by_cases hro : (s.ro rs || s.ro rd) = true
  · have e : (step s (.moveAppend rs o1 rd o2 c)).1 = s := by simp [step, hro]
    rw [e]; exact ⟨hi, fun _ _ => rfl⟩
  have hro' : (s.ro rs || s.ro rd) = false := by simpa using hro
  obtain ⟨ho1, ho2, h12, ho2F, ho1K⟩ := hw
  have f0 := hi.forest
  have ow1 := owned_of hi rs o1 ho1
  have ow2 := owned_of hi rd o2 ho2
  have inRs := (owns_facts hi rs o1 ho1).2.2.2.2.2
  -- phase 1: unlink — the source header becomes {}
  have hc1 : HReplA [] (reachL s.dep s.h (s.h.wl o1).live) s.dep 0 s.h o1 { s.h with wl := upd s.h.wl o1 {} } := by
    refine ⟨⟨Nat.le_refl _, fun x _ hxn => ⟨rfl, upd_other _ _ _ _ (fun e => hxn (e ▸ List.mem_cons_self))⟩⟩, ?_, ?_, ?_, fun x hx => hx, ?_⟩
    · intro kv hkv; simp [upd_same] at hkv
    · simp [upd_same, reachL]
    · intro x hx; simp [upd_same, reachL] at hx
    · intro x _ hm; simp [upd_same, reachL] at hm
  obtain ⟨p1f, p1frame, p1excl⟩ := nested_updateA f0 [] _ rs o1 _ 0 ho1 hc1 (by simp)
  simp only [Nat.add_zero] at p1f p1frame p1excl
  generalize hh1 : ({ s.h with wl := upd s.h.wl o1 {} } : Heap) = h1 at p1f p1frame p1excl
  have h1wl : ∀ x, x ≠ o1 → h1.wl x = s.h.wl x := fun x hx => by rw [← hh1]; exact upd_other _ _ _ _ hx
  have h1wl1 : h1.wl o1 = {} := by rw [← hh1]; exact upd_same _ _ _
  have h1wb : h1.wb = s.h.wb := by rw [← hh1]
  have h1next : h1.next = s.h.next := by rw [← hh1]
  have orphan : ∀ x ∈ reachL s.dep s.h (s.h.wl o1).live, ∀ r, x ∉ reachV s.dep h1 (s.root r) := by
    intro x hx r
    by_cases hr : r = rs
    · subst hr; exact p1excl x hx
    · rw [(p1frame r hr).1]
      exact hi.disj rs r (fun e => hr e.symm) x (inRs x (List.mem_cons_of_mem _ hx))
  have ho2' : ownsList s.dep h1 (s.root rd) o2 :=
    owns_preserved s.dep s.h h1 o1 o2 h1wl
      (fun kv hkv hk => ho2F (mem_flatMap_of_mem hkv (owns_mem s.dep s.h kv.val o2 hk))) s.dep (by omega) _ ho2
  -- phase 2: link — the destination header becomes old ++ moved
  obtain ⟨m1, m2, _, m4, m5⟩ := move_append_hdr s rs o1 rd o2 c hro' h12
  have eS : (step s (.moveAppend rs o1 rd o2 c)).1 =
      { h := (step s (.moveAppend rs o1 rd o2 c)).1.h, root := s.root, ro := s.ro, dep := bump s.dep } := by
    simp [step, hro']
  have hnext : (step s (.moveAppend rs o1 rd o2 c)).1.h.next = s.h.next := by simp [step, hro']
  generalize hH : (step s (.moveAppend rs o1 rd o2 c)).1.h = H at m1 m2 m4 m5 eS hnext
  have agOf : ∀ ids : List Nat, o1 ∉ ids → o2 ∉ ids → Agree s.h H ids := agree_of_not_mem s.h H o1 o2 m5 m4
  have agF : Agree s.h H (reachL s.dep s.h (s.h.wl o1).live) := agOf _ ow1.notin ho2F
  have agK : Agree s.h H (reachL s.dep s.h (s.h.wl o2).live) := agOf _ ho1K ow2.notin
  have eF := reachL_agree s.dep s.h H _ agF
  have eK := reachL_agree s.dep s.h H _ agK
  -- the destination's old children read the same in the intermediate heap
  have agK1 : Agree s.h h1 (reachL s.dep s.h (s.h.wl o2).live) :=
    fun i hi' => ⟨by rw [h1wb], h1wl i (fun e => ho1K (e ▸ hi'))⟩
  have eK1 := reachL_agree s.dep s.h h1 _ agK1
  have h1o2 : h1.wl o2 = s.h.wl o2 := h1wl o2 (fun e => h12 e.symm)
  have subK : (o2 :: reachL s.dep h1 (h1.wl o2).live).Sublist (reachV s.dep h1 (s.root rd)) :=
    (owns_sublist s.dep h1 o2 s.dep (Nat.le_refl _) (s.root rd) (p1f.fit rd) ho2').1
  have reachNew : reachL s.dep H (H.wl o2).live = reachL s.dep s.h (s.h.wl o2).live ++ reachL s.dep s.h (s.h.wl o1).live := by
    rw [m1, reachL_append, eF, eK]
  have hc2 : HReplA (reachL s.dep s.h (s.h.wl o1).live) [] s.dep s.dep h1 o2 H := by
    refine ⟨⟨by rw [hnext, h1next]; exact Nat.le_refl _, ?_⟩, ?_, ?_, ?_, (fun x hx => by cases hx), (fun x hx => by cases hx)⟩
    · intro x _ hxn
      have hx2 : x ≠ o2 := fun e => hxn (e ▸ List.mem_cons_self)
      refine ⟨by rw [m5, h1wb], ?_⟩
      by_cases hx1 : x = o1
      · subst hx1; rw [m2, h1wl1]
      · rw [m4 x hx1 hx2, h1wl x hx1]
    · rw [m1]
      intro kv hkv
      rcases List.mem_append.mp hkv with hk | hk
      · exact fits_congr s.dep _ _ _ (fun i hi' => agK i (mem_flatMap_of_mem hk hi')) (ow2.fit kv hk)
      · exact fits_congr s.dep _ _ _ (fun i hi' => agF i (mem_flatMap_of_mem hk hi')) (ow1.fit kv hk)
    · rw [reachNew]
      refine List.nodup_append.mpr ⟨ow2.nodup, ow1.nodup, ?_⟩
      intro x hx y hy exy; subst exy
      have : x ∈ reachV s.dep h1 (s.root rd) := subK.subset (List.mem_cons_of_mem _ (by rw [h1o2, eK1]; exact hx))
      exact orphan x hy rd this
    · intro x hx
      rw [reachNew] at hx
      rcases List.mem_append.mp hx with hk | hk
      · exact ⟨Or.inl (by rw [h1o2, eK1]; exact hk), by rw [hnext]; exact ow2.clt x hk⟩
      · exact ⟨Or.inr (Or.inr hk), by rw [hnext]; exact ow1.clt x hk⟩
  obtain ⟨p2f, p2frame, _⟩ := nested_updateA p1f _ [] rd o2 H s.dep ho2' hc2 orphan
  rw [eS]
  refine ⟨inv_of_gen (bump s.dep) (s.dep + s.dep) (by simp [bump]; omega) (by simp [bump]) H s.root s.ro p2f.fit p2f.lt p2f.nodup p2f.disj, ?_⟩
  intro x hx
  simp only [touched, List.mem_cons, List.not_mem_nil, or_false, not_or] at hx
  show absV (bump s.dep) H (s.root x) = absV s.dep s.h (s.root x)
  rw [abs_fits_mono (by simp [bump]; omega : s.dep + s.dep ≤ bump s.dep) H _ (p2f.fit x), (p2frame x hx.2).2, (p1frame x hx.1).2]


/-- result of `Slice.MoveAndAppendTo` between slices nested anywhere: the destination holds its old elements followed by the source's old
elements, IN ORDER, each reading exactly as before; the source keeps neither elements nor a backing array -/
theorem move_append_children_same {s : St} (hi : Inv s) (rs o1 rd o2 c : Nat) (hw : WfMove s rs o1 rd o2)
    (hro : (s.ro rs || s.ro rd) = false) :
    ((step s (.moveAppend rs o1 rd o2 c)).1.h.wl o2).live = (s.h.wl o2).live ++ (s.h.wl o1).live ∧
    (step s (.moveAppend rs o1 rd o2 c)).1.h.wl o1 = {} ∧
    ∀ kv ∈ (s.h.wl o2).live ++ (s.h.wl o1).live,
      absV s.dep (step s (.moveAppend rs o1 rd o2 c)).1.h kv.val = absV s.dep s.h kv.val := by
  obtain ⟨ho1, ho2, h12, ho2F, ho1K⟩ := hw
  have ow1 := owned_of hi rs o1 ho1
  have ow2 := owned_of hi rd o2 ho2
  obtain ⟨m1, m2, _, m4, m5⟩ := move_append_hdr s rs o1 rd o2 c hro h12
  refine ⟨m1, m2, ?_⟩
  generalize (step s (.moveAppend rs o1 rd o2 c)).1.h = H at m1 m2 m4 m5
  have agOf : ∀ ids : List Nat, o1 ∉ ids → o2 ∉ ids → Agree s.h H ids := agree_of_not_mem s.h H o1 o2 m5 m4
  have agF : Agree s.h H (reachL s.dep s.h (s.h.wl o1).live) := agOf _ ow1.notin ho2F
  have agK : Agree s.h H (reachL s.dep s.h (s.h.wl o2).live) := agOf _ ho1K ow2.notin
  intro kv hkv
  rcases List.mem_append.mp hkv with hk | hk
  · exact abs_congr s.dep _ _ _ (fun i hi' => agK i (mem_flatMap_of_mem hk hi'))
  · exact abs_congr s.dep _ _ _ (fun i hi' => agF i (mem_flatMap_of_mem hk hi'))

end OtelVerif.C07.N
