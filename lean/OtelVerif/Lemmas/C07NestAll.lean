import OtelVerif.Lemmas.C07NestRaw
import OtelVerif.Lemmas.C07NestMove
import OtelVerif.Lemmas.C07NestAdopt
/-!
# C07 part C: programs of ALL operations of the nested model — `N.WfOp` (every operation on targets at any depth),
`Map.FromRaw` / `Slice.FromRaw` on a container at any depth, and `Slice.MoveAndAppendTo` between two slices nested ANYWHERE (`WfMove`)
-/
namespace OtelVerif.C07.N
open OtelVerif.C07 (upd keep)

/-- `o` is the container held directly by root `r` -/
def rootIs (s : St) (r o : Nat) : Prop := s.root r = .list true o ∨ s.root r = .list false o

instance (s : St) (r o : Nat) : Decidable (rootIs s r o) := by unfold rootIs; infer_instance

def WfOpX (s : St) : OpR → Prop
  | .base (.moveAppend rs o1 rd o2 _) => WfMove s rs o1 rd o2
  | op => WfOpR s op

instance (s : St) (op : OpR) : Decidable (WfOpX s op) := by
  cases op with
  | base op => cases op <;> simp only [WfOpX] <;> infer_instance
  | fromRawList r o kids => simp only [WfOpX]; infer_instance

theorem stepX_spec {s : St} (hi : Inv s) (op : OpR) (hw : WfOpX s op) :
    Inv (stepR s op).1 ∧ ∀ c, c ∉ touchedR op → absRoot (stepR s op).1 c = absRoot s c := by
  cases op with
  | fromRawList r o kids => exact stepR_spec hi _ hw
  | base op =>
    cases op with
    | moveAppend rs o1 rd o2 c =>
      obtain ⟨a, b⟩ := move_append_spec hi rs o1 rd o2 c hw
      exact ⟨a, fun x hx => b x (by simpa [touchedR] using hx)⟩
    | setRoot r x => exact stepR_spec hi _ hw
    | setSlot r o sel x c => exact stepR_spec hi _ hw
    | bytesAppend r b x => exact stepR_spec hi _ hw
    | remove r o k => exact stepR_spec hi _ hw
    | removeIf r o m => exact stepR_spec hi _ hw
    | ensureCap r o n => exact stepR_spec hi _ hw
    | clear r o => exact stepR_spec hi _ hw
    | copyVal rs src rd dst => exact stepR_spec hi _ hw
    | copyList rs o1 rd o2 => exact stepR_spec hi _ hw
    | moveRoot a b => exact stepR_spec hi _ hw
    | markRO r => exact stepR_spec hi _ hw

def WfProgX : St → List OpR → Prop
  | _, [] => True
  | s, op :: ops => WfOpX s op ∧ WfProgX (stepR s op).1 ops

instance instDecWfProgX : ∀ (s : St) (prog : List OpR), Decidable (WfProgX s prog)
  | _, [] => isTrue trivial
  | s, op :: ops => by
    have := instDecWfProgX (stepR s op).1 ops
    simp only [WfProgX]; infer_instance

end OtelVerif.C07.N
