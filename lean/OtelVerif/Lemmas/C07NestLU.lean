import OtelVerif.Lemmas.C07Nest
/-! nested model, "local update": replacing the header of a container nested anywhere below a value
(or the value in one of its slots) re-establishes the replacement contract for the whole value, so
the forest invariant of the roots survives operations on nested targets -/
namespace OtelVerif.C07.N
open OtelVerif.C07 (upd keep keep_sublist map_keep)

/-! ### list lemmas -/

theorem nodup_replace {A X X' B : List Nat} (h : (A ++ X ++ B).Nodup) (hx : X'.Nodup)
    (hm : ∀ x ∈ X', x ∈ X ∨ (x ∉ A ∧ x ∉ B)) : (A ++ X' ++ B).Nodup := by
  obtain ⟨hax, hb, hd1⟩ := List.nodup_append.mp h
  obtain ⟨ha, _, hd2⟩ := List.nodup_append.mp hax
  refine List.nodup_append.mpr ⟨List.nodup_append.mpr ⟨ha, hx, ?_⟩, hb, ?_⟩
  · intro a haA b hbX e; subst e
    rcases hm a hbX with h1 | h1
    · exact hd2 a haA a h1 rfl
    · exact h1.1 haA
  · intro a haAX b hbB e; subst e
    rcases List.mem_append.mp haAX with h1 | h1
    · exact hd1 a (List.mem_append_left _ h1) a hbB rfl
    · rcases hm a h1 with h2 | h2
      · exact hd1 a (List.mem_append_right _ h2) a hbB rfl
      · exact h2.2 hbB

theorem set_split {α : Type} (l : List α) (i : Nat) (a b : α) (h : l[i]? = some a) :
    ∃ s t, l = s ++ a :: t ∧ l.set i b = s ++ b :: t := by
  induction l generalizing i with
  | nil => simp at h
  | cons x xs ih =>
    cases i with
    | zero => simp at h; subst h; exact ⟨[], xs, rfl, rfl⟩
    | succ j =>
      simp at h
      obtain ⟨s, t, h1, h2⟩ := ih j h
      exact ⟨x :: s, t, by simp [h1], by simp [h2]⟩

theorem sublist_flatMap_of_mem {α β : Type} {l : List α} (f : α → List β) {a : α} (ha : a ∈ l) : (f a).Sublist (l.flatMap f) := by
  induction l with
  | nil => simp at ha
  | cons x xs ih =>
    simp only [List.flatMap_cons]
    rcases List.mem_cons.mp ha with rfl | h
    · exact List.sublist_append_left _ _
    · exact (ih h).trans (List.sublist_append_right _ _)

/-! ### replacement contracts -/

/-- `h'` extends `h`; among the wrappers allocated in `h` it differs from `h` at most on `W` -/
structure Upd (h h' : Heap) (W : List Nat) : Prop where
  next_le : h.next ≤ h'.next
  frame : ∀ x, x < h.next → x ∉ W → h'.wb x = h.wb x ∧ h'.wl x = h.wl x

/-- the value `dv` (footprint at fuel `d` in `h`) is replaced by `v'` (measured at fuel `D` in `h'`) -/
structure Repl (d D : Nat) (h : Heap) (dv : V) (h' : Heap) (v' : V) : Prop where
  upd : Upd h h' (reachV d h dv)
  fit : fits D h' v'
  nodup : (reachV D h' v').Nodup
  foot : ∀ o ∈ reachV D h' v', (o ∈ reachV d h dv ∨ h.next ≤ o) ∧ o < h'.next

theorem Post.repl {d : Nat} {h : Heap} {sv dv : V} {r : Heap × V} (p : Post d h sv dv r) : Repl d d h dv r.1 r.2 :=
  ⟨⟨p.next_le, p.frame⟩, p.fit, p.nodup, p.foot⟩

/-- the header of container `o` is replaced (fuel `G` = any bound on the old depth, `D` on the new children) -/
structure HRepl (G D : Nat) (h : Heap) (o : Nat) (h' : Heap) : Prop where
  upd : Upd h h' (o :: reachL G h (h.wl o).live)
  fit : ∀ kv ∈ (h'.wl o).live, fits D h' kv.val
  nodup : (reachL D h' (h'.wl o).live).Nodup
  foot : ∀ x ∈ reachL D h' (h'.wl o).live, (x ∈ reachL G h (h.wl o).live ∨ h.next ≤ x) ∧ x < h'.next

/-- `o` is a container (kvlist / array wrapper) of the tree below `v` -/
def ownsList : Nat → Heap → V → Nat → Prop
  | d + 1, h, .list _ i, o => i = o ∨ ∃ kv ∈ (h.wl i).live, ownsList d h kv.val o
  | _, _, _, _ => False

instance ownsDec : ∀ (d : Nat) (h : Heap) (v : V) (o : Nat), Decidable (ownsList d h v o)
  | 0, _, v, _ => isFalse (by cases v <;> simp [ownsList])
  | _ + 1, _, .nil, _ => isFalse (by simp [ownsList])
  | _ + 1, _, .scalar _ _, _ => isFalse (by simp [ownsList])
  | _ + 1, _, .bytes _, _ => isFalse (by simp [ownsList])
  | d + 1, h, .list _ i, o =>
    have : ∀ kv : KV, Decidable (ownsList d h kv.val o) := fun kv => ownsDec d h kv.val o
    inferInstanceAs (Decidable (i = o ∨ ∃ kv ∈ (h.wl i).live, ownsList d h kv.val o))

theorem reachL_fits_mono {d e : Nat} (hde : d ≤ e) (h : Heap) (l : List KV) (hf : ∀ kv ∈ l, fits d h kv.val) :
    reachL e h l = reachL d h l :=
  flatMap_congr' _ _ _ (fun kv hkv => reach_fits_mono hde h _ (hf kv hkv))

/-- a container of the tree below `v` sits, with its children's footprint, inside `v`'s footprint -/
theorem owns_sublist (G : Nat) (h : Heap) (o : Nat) : ∀ d, d ≤ G → ∀ v, fits d h v → ownsList d h v o →
    (o :: reachL G h (h.wl o).live).Sublist (reachV d h v) ∧ ∀ kv ∈ (h.wl o).live, fits G h kv.val := by
  intro d
  induction d with
  | zero => intro _ v _ ho; cases v <;> simp [ownsList] at ho
  | succ d ih =>
    intro hdG v hf ho
    cases v with
    | nil => simp [ownsList] at ho
    | scalar a b => simp [ownsList] at ho
    | bytes i => simp [ownsList] at ho
    | list km i =>
      have hfi : ∀ kv ∈ (h.wl i).live, fits d h kv.val := hf
      rcases ho with rfl | ⟨kv, hkv, hkvo⟩
      · have : reachL G h (h.wl i).live = reachL d h (h.wl i).live := reachL_fits_mono (Nat.le_of_succ_le hdG) h _ hfi
        rw [this, reachV_list_succ]
        exact ⟨List.Sublist.refl _, fun kv hkv => fits_mono (Nat.le_of_succ_le hdG) h _ (hfi kv hkv)⟩
      · obtain ⟨h1, h2⟩ := ih (Nat.le_of_succ_le hdG) kv.val (hfi kv hkv) hkvo
        rw [reachV_list_succ]
        have h3 : (reachV d h kv.val).Sublist (reachL d h (h.wl i).live) :=
          sublist_flatMap_of_mem (fun kv => reachV d h kv.val) hkv
        exact ⟨(h1.trans h3).trans (List.sublist_cons_self _ _), h2⟩

/-- **local update**: if the header of a container `o` somewhere below `v` is replaced under the header
contract, the whole value `v` satisfies the replacement contract (with itself) -/
theorem lift (G D : Nat) (h h' : Heap) (o : Nat) (hc : HRepl G D h o h') :
    ∀ d, d ≤ G → ∀ v, fits d h v → (reachV d h v).Nodup → (∀ i ∈ reachV d h v, i < h.next) → ownsList d h v o →
      Repl d (d + D) h v h' v := by
  intro d
  induction d with
  | zero => intro _ v _ _ _ ho; cases v <;> simp [ownsList] at ho
  | succ d ih =>
    intro hdG v hf hnd hlt ho
    cases v with
    | nil => simp [ownsList] at ho
    | scalar a b => simp [ownsList] at ho
    | bytes i => simp [ownsList] at ho
    | list km i =>
      have hdG' : d ≤ G := Nat.le_of_succ_le hdG
      have hfi : ∀ kv ∈ (h.wl i).live, fits d h kv.val := hf
      rw [reachV_list_succ] at hnd hlt
      have hnd' := List.nodup_cons.mp hnd
      have hfuel : d + 1 + D = (d + D) + 1 := by omega
      by_cases hio : i = o
      · -- the container itself
        subst hio
        have hG : reachL G h (h.wl i).live = reachL d h (h.wl i).live := reachL_fits_mono hdG' h _ hfi
        have hD : reachL (d + D) h' (h'.wl i).live = reachL D h' (h'.wl i).live :=
          reachL_fits_mono (Nat.le_add_left _ _) h' _ hc.fit
        have hi : i < h.next := hlt i List.mem_cons_self
        refine ⟨⟨hc.upd.next_le, ?_⟩, ?_, ?_, ?_⟩
        · intro x hx hxn
          rw [reachV_list_succ, ← hG] at hxn
          exact hc.upd.frame x hx hxn
        · rw [hfuel]
          exact fun kv hkv => fits_mono (Nat.le_add_left _ _) h' _ (hc.fit kv hkv)
        · rw [hfuel, reachV_list_succ, hD]
          refine List.nodup_cons.mpr ⟨?_, hc.nodup⟩
          intro hm
          rcases (hc.foot i hm).1 with h1 | h1
          · rw [hG] at h1; exact hnd'.1 h1
          · omega
        · intro x hx
          rw [hfuel, reachV_list_succ, hD] at hx
          rw [reachV_list_succ]
          rcases List.mem_cons.mp hx with rfl | hx
          · exact ⟨Or.inl List.mem_cons_self, Nat.lt_of_lt_of_le hi hc.upd.next_le⟩
          · obtain ⟨h1, h2⟩ := hc.foot x hx
            rw [hG] at h1
            exact ⟨h1.imp (List.mem_cons_of_mem _) id, h2⟩
      · -- a container below one of the children
        have ho' : ∃ kv ∈ (h.wl i).live, ownsList d h kv.val o := by
          rcases ho with h1 | h1
          · exact absurd h1 hio
          · exact h1
        obtain ⟨kv, hkv, hkvo⟩ := ho'
        obtain ⟨s, t, hst⟩ := List.append_of_mem hkv
        have hreach : reachL d h (h.wl i).live = reachL d h s ++ reachV d h kv.val ++ reachL d h t := by
          rw [hst, reachL_append, reachL_cons, List.append_assoc]
        rw [hreach] at hnd' hlt
        obtain ⟨hsub, _⟩ := owns_sublist G h o d hdG' kv.val (hfi kv hkv) hkvo
        -- the write set lies inside the child's footprint
        have hW : ∀ x, x ∈ o :: reachL G h (h.wl o).live → x ∈ reachV d h kv.val := fun x hx => hsub.subset hx
        have hnd3 := List.nodup_append.mp hnd'.2
        have hnd2 := List.nodup_append.mp hnd3.1
        have hkvnd : (reachV d h kv.val).Nodup := hnd2.2.1
        have hkvlt : ∀ x ∈ reachV d h kv.val, x < h.next := fun x hx =>
          hlt x (List.mem_cons_of_mem _ (List.mem_append_left _ (List.mem_append_right _ hx)))
        have rk := ih hdG' kv.val (hfi kv hkv) hkvnd hkvlt hkvo
        have hi : i < h.next := hlt i List.mem_cons_self
        have hi_notin : i ∉ reachV d h kv.val := fun hm =>
          hnd'.1 (List.mem_append_left _ (List.mem_append_right _ hm))
        have hwli : h'.wl i = h.wl i := (hc.upd.frame i hi (fun hm => hi_notin (hW i hm))).2
        -- siblings are untouched
        have sib : ∀ l : List KV, (∀ x ∈ reachL d h l, x < h.next) → (∀ x ∈ reachL d h l, x ∉ reachV d h kv.val) →
            (∀ kv' ∈ l, fits d h kv'.val) →
            reachL (d + D) h' l = reachL d h l ∧ ∀ kv' ∈ l, fits (d + D) h' kv'.val := by
          intro l hl1 hl2 hl3
          have ag : ∀ kv' ∈ l, Agree h h' (reachV d h kv'.val) := fun kv' hkv' x hx =>
            hc.upd.frame x (hl1 x (mem_flatMap_of_mem hkv' hx)) (fun hm => hl2 x (mem_flatMap_of_mem hkv' hx) (hW x hm))
          constructor
          · apply flatMap_congr'
            intro kv' hkv'
            rw [reach_fits_mono (Nat.le_add_right _ _) h' _ (fits_congr d _ _ _ (ag kv' hkv') (hl3 kv' hkv'))]
            exact reach_congr d _ _ _ (ag kv' hkv')
          · exact fun kv' hkv' => fits_mono (Nat.le_add_right _ _) h' _ (fits_congr d _ _ _ (ag kv' hkv') (hl3 kv' hkv'))
        have hs := sib s (fun x hx => hlt x (List.mem_cons_of_mem _ (List.mem_append_left _ (List.mem_append_left _ hx))))
          (fun x hx hm => hnd2.2.2 x hx x hm rfl) (fun kv' hkv' => hfi kv' (by rw [hst]; exact List.mem_append_left _ hkv'))
        have ht := sib t (fun x hx => hlt x (List.mem_cons_of_mem _ (List.mem_append_right _ hx)))
          (fun x hx hm => hnd3.2.2 x (List.mem_append_right _ hm) x hx rfl)
          (fun kv' hkv' => hfi kv' (by rw [hst]; exact List.mem_append_right _ (List.mem_cons_of_mem _ hkv')))
        have hreach' : reachL (d + D) h' (h'.wl i).live = reachL d h s ++ reachV (d + D) h' kv.val ++ reachL d h t := by
          rw [hwli, hst, reachL_append, reachL_cons, hs.1, ht.1, List.append_assoc]
        have hfootk : ∀ x ∈ reachV (d + D) h' kv.val, x ∈ reachV d h kv.val ∨ (x ∉ reachL d h s ∧ x ∉ reachL d h t) := by
          intro x hx
          rcases (rk.foot x hx).1 with h1 | h1
          · exact Or.inl h1
          · right
            constructor
            · intro hm; have := hlt x (List.mem_cons_of_mem _ (List.mem_append_left _ (List.mem_append_left _ hm))); omega
            · intro hm; have := hlt x (List.mem_cons_of_mem _ (List.mem_append_right _ hm)); omega
        refine ⟨⟨hc.upd.next_le, ?_⟩, ?_, ?_, ?_⟩
        · intro x hx hxn
          apply hc.upd.frame x hx
          intro hm
          apply hxn
          rw [reachV_list_succ, hreach]
          exact List.mem_cons_of_mem _ (List.mem_append_left _ (List.mem_append_right _ (hW x hm)))
        · rw [hfuel]
          show ∀ kv' ∈ (h'.wl i).live, fits (d + D) h' kv'.val
          rw [hwli, hst]
          intro kv' hkv'
          rcases List.mem_append.mp hkv' with h1 | h1
          · exact hs.2 kv' h1
          · rcases List.mem_cons.mp h1 with rfl | h1
            · exact rk.fit
            · exact ht.2 kv' h1
        · rw [hfuel, reachV_list_succ, hreach']
          refine List.nodup_cons.mpr ⟨?_, nodup_replace hnd'.2 rk.nodup hfootk⟩
          intro hm
          rcases List.mem_append.mp hm with h1 | h1
          · rcases List.mem_append.mp h1 with h2 | h2
            · exact hnd'.1 (List.mem_append_left _ (List.mem_append_left _ h2))
            · rcases (rk.foot i h2).1 with h3 | h3
              · exact hi_notin h3
              · omega
          · exact hnd'.1 (List.mem_append_right _ h1)
        · intro x hx
          rw [hfuel, reachV_list_succ, hreach'] at hx
          rw [reachV_list_succ, hreach]
          rcases List.mem_cons.mp hx with rfl | hx
          · exact ⟨Or.inl List.mem_cons_self, Nat.lt_of_lt_of_le hi hc.upd.next_le⟩
          · have hlt' : ∀ y, y ∈ reachL d h s ++ reachV d h kv.val ++ reachL d h t → y < h'.next := fun y hy =>
              Nat.lt_of_lt_of_le (hlt y (List.mem_cons_of_mem _ hy)) hc.upd.next_le
            rcases List.mem_append.mp hx with h1 | h1
            · rcases List.mem_append.mp h1 with h2 | h2
              · exact ⟨Or.inl (List.mem_cons_of_mem _ (List.mem_append_left _ (List.mem_append_left _ h2))),
                  hlt' x (List.mem_append_left _ (List.mem_append_left _ h2))⟩
              · obtain ⟨h3, h4⟩ := rk.foot x h2
                exact ⟨h3.imp (fun h5 => List.mem_cons_of_mem _ (List.mem_append_left _ (List.mem_append_right _ h5))) id, h4⟩
            · exact ⟨Or.inl (List.mem_cons_of_mem _ (List.mem_append_right _ h1)), hlt' x (List.mem_append_right _ h1)⟩

/-! ### from the contract of a root value to the forest invariant -/

theorem inv_of_gen (E D : Nat) (hDE : D ≤ E) (hpos : 0 < E) (h' : Heap) (root' : Nat → V) (ro' : Nat → Bool)
    (hfit : ∀ r, fits D h' (root' r)) (hlt : ∀ r, ∀ i ∈ reachV D h' (root' r), i < h'.next)
    (hnd : ∀ r, (reachV D h' (root' r)).Nodup)
    (hdis : ∀ a b, a ≠ b → ∀ i ∈ reachV D h' (root' a), i ∉ reachV D h' (root' b)) :
    Inv { h := h', root := root', ro := ro', dep := E } := by
  have e : ∀ r, reachV E h' (root' r) = reachV D h' (root' r) := fun r => reach_fits_mono hDE h' _ (hfit r)
  refine ⟨hpos, fun r => fits_mono hDE h' _ (hfit r), ?_, ?_, ?_⟩
  · intro r i hi; simp only [e] at hi; exact hlt r i hi
  · intro r; simp only [e]; exact hnd r
  · intro a b hab i hi; simp only [e] at hi ⊢; exact hdis a b hab i hi

/-- one root is replaced under the replacement contract (new value measured at any fuel `D` between
the old bound and the new one): the forest invariant holds again, the root reads as the new value,
every other root reads as before -/
theorem root_update_gen {s : St} (hi : Inv s) (b : Nat) (h' : Heap) (v' : V) (ro' : Nat → Bool) (D : Nat)
    (hD1 : s.dep ≤ D) (hD2 : D ≤ bump s.dep) (rp : Repl s.dep D s.h (s.root b) h' v') :
    Inv { h := h', root := upd s.root b v', ro := ro', dep := bump s.dep } ∧
    absRoot { h := h', root := upd s.root b v', ro := ro', dep := bump s.dep } b = absV D h' v' ∧
    ∀ c, c ≠ b → absRoot { h := h', root := upd s.root b v', ro := ro', dep := bump s.dep } c = absRoot s c := by
  have ag : ∀ c, c ≠ b → Agree s.h h' (reachV s.dep s.h (s.root c)) :=
    fun c hc i hic => rp.upd.frame i (hi.lt c i hic) (fun hm => hi.disj c b hc i hic hm)
  have hfitc : ∀ c, c ≠ b → fits s.dep h' (s.root c) := fun c hc => fits_congr _ _ _ _ (ag c hc) (hi.fit c)
  have hreach : ∀ c, c ≠ b → reachV D h' (s.root c) = reachV s.dep s.h (s.root c) := fun c hc => by
    rw [reach_fits_mono hD1 h' _ (hfitc c hc)]; exact reach_congr _ _ _ _ (ag c hc)
  have hfits : ∀ r, fits D h' (upd s.root b v' r) := by
    intro r
    by_cases hr : r = b
    · subst hr; simpa [upd_same] using rp.fit
    · simp only [upd_other _ _ _ _ hr]; exact fits_mono hD1 h' _ (hfitc r hr)
  refine ⟨inv_of_gen (bump s.dep) D hD2 (by simp [bump]) h' _ ro' hfits ?_ ?_ ?_, ?_, ?_⟩
  · intro r i hir
    by_cases hr : r = b
    · subst hr; simp only [upd_same] at hir; exact (rp.foot i hir).2
    · simp only [upd_other _ _ _ _ hr, hreach r hr] at hir; exact Nat.lt_of_lt_of_le (hi.lt r i hir) rp.upd.next_le
  · intro r
    by_cases hr : r = b
    · subst hr; simpa [upd_same] using rp.nodup
    · simp only [upd_other _ _ _ _ hr, hreach r hr]; exact hi.nodup r
  · intro a c hac i hia hic
    by_cases ha : a = b
    · subst ha
      have hc : c ≠ a := fun e => hac e.symm
      simp only [upd_same] at hia
      simp only [upd_other _ _ _ _ hc, hreach c hc] at hic
      rcases (rp.foot i hia).1 with h1 | h1
      · exact hi.disj a c hac i h1 hic
      · have := hi.lt c i hic; omega
    · simp only [upd_other _ _ _ _ ha, hreach a ha] at hia
      by_cases hc : c = b
      · subst hc
        simp only [upd_same] at hic
        rcases (rp.foot i hic).1 with h1 | h1
        · exact hi.disj a c hac i hia h1
        · have := hi.lt a i hia; omega
      · simp only [upd_other _ _ _ _ hc, hreach c hc] at hic
        exact hi.disj a c hac i hia hic
  · show absV (bump s.dep) h' (upd s.root b v' b) = absV D h' v'
    rw [abs_fits_mono hD2 h' _ (hfits b)]; simp [upd_same]
  · intro c hc
    show absV (bump s.dep) h' (upd s.root b v' c) = absV s.dep s.h (s.root c)
    rw [abs_fits_mono hD2 h' _ (hfits c)]
    simp only [upd_other _ _ _ _ hc]
    rw [abs_fits_mono hD1 h' _ (hfitc c hc)]
    exact abs_congr _ _ _ _ (ag c hc)

/-- an operation on a container `o` below root `r` under the header contract keeps the forest
invariant and leaves every other root as it reads -/
theorem nested_update {s : St} (hi : Inv s) (r o : Nat) (h' : Heap) (ro' : Nat → Bool)
    (ho : ownsList s.dep s.h (s.root r) o) (hc : HRepl s.dep s.dep s.h o h') :
    Inv { h := h', root := s.root, ro := ro', dep := bump s.dep } ∧
    ∀ c, c ≠ r → absRoot { h := h', root := s.root, ro := ro', dep := bump s.dep } c = absRoot s c := by
  have rp := lift s.dep s.dep s.h h' o hc s.dep (Nat.le_refl _) (s.root r) (hi.fit r) (hi.nodup r) (hi.lt r) ho
  obtain ⟨u1, _, u3⟩ := root_update_gen hi r h' (s.root r) ro' (s.dep + s.dep) (Nat.le_add_right _ _) (by simp [bump]; omega) rp
  have hsame : upd s.root r (s.root r) = s.root := by
    funext c; by_cases hc' : c = r
    · subst hc'; simp [upd_same]
    · simp [upd_other _ _ _ _ hc']
  rw [hsame] at u1 u3
  exact ⟨u1, u3⟩

/-- facts about a container of the forest -/
theorem owns_facts {s : St} (hi : Inv s) (r o : Nat) (ho : ownsList s.dep s.h (s.root r) o) :
    o < s.h.next ∧ (∀ kv ∈ (s.h.wl o).live, fits s.dep s.h kv.val) ∧
    (reachL s.dep s.h (s.h.wl o).live).Nodup ∧ o ∉ reachL s.dep s.h (s.h.wl o).live ∧
    (∀ x ∈ reachL s.dep s.h (s.h.wl o).live, x < s.h.next) ∧
    (∀ x ∈ o :: reachL s.dep s.h (s.h.wl o).live, x ∈ reachV s.dep s.h (s.root r)) := by
  obtain ⟨h1, h2⟩ := owns_sublist s.dep s.h o s.dep (Nat.le_refl _) (s.root r) (hi.fit r) ho
  have hnd := (hi.nodup r).sublist h1
  have hnd' := List.nodup_cons.mp hnd
  exact ⟨hi.lt r o (h1.subset List.mem_cons_self), h2, hnd'.2, hnd'.1,
    fun x hx => hi.lt r x (h1.subset (List.mem_cons_of_mem _ hx)), fun x hx => h1.subset hx⟩

/-- common last step of every operation on a container: an intermediate heap `g` (changed only inside
the old children's footprint, or newly allocated) plus the new header `R` whose children are measured in `g` -/
theorem hrepl_of_children (d : Nat) (h g : Heap) (o : Nat) (R : Hdr) (ho : o < h.next)
    (hon : o ∉ reachL d h (h.wl o).live)
    (hg : Upd h g (reachL d h (h.wl o).live))
    (hfit : ∀ kv ∈ R.live, fits d g kv.val) (hnd : (reachL d g R.live).Nodup)
    (hfoot : ∀ x ∈ reachL d g R.live, (x ∈ reachL d h (h.wl o).live ∨ h.next ≤ x) ∧ x < g.next) :
    HRepl d d h o { g with wl := upd g.wl o R } := by
  have hne : ∀ x ∈ reachL d g R.live, x ≠ o := by
    intro x hx e; subst e
    rcases (hfoot x hx).1 with h1 | h1
    · exact hon h1
    · omega
  have ag : ∀ kv ∈ R.live, Agree g { g with wl := upd g.wl o R } (reachV d g kv.val) :=
    fun kv hkv x hx => ⟨rfl, upd_other _ _ _ _ (hne x (mem_flatMap_of_mem hkv hx))⟩
  have hreach : reachL d { g with wl := upd g.wl o R } R.live = reachL d g R.live :=
    flatMap_congr' _ _ _ (fun kv hkv => reach_congr d _ _ _ (ag kv hkv))
  refine ⟨⟨hg.next_le, ?_⟩, ?_, ?_, ?_⟩
  · intro x hx hxn
    rw [List.mem_cons, not_or] at hxn
    obtain ⟨a, b⟩ := hg.frame x hx hxn.2
    exact ⟨a, by simp only [upd_other _ _ _ _ hxn.1]; exact b⟩
  · simp only [upd_same]
    exact fun kv hkv => fits_congr d _ _ _ (ag kv hkv) (hfit kv hkv)
  · simp only [upd_same]; rw [hreach]; exact hnd
  · simp only [upd_same]; rw [hreach]; exact hfoot

/-- the value in slot `i` is replaced under the replacement contract: the children of the new header -/
theorem children_set_slot (d : Nat) (h g : Heap) (L : List KV) (i : Nat) (a : KV) (k : Nat) (v' : V)
    (hLi : L[i]? = some a) (hnd : (reachL d h L).Nodup) (hlt : ∀ x ∈ reachL d h L, x < h.next)
    (hfitL : ∀ kv ∈ L, fits d h kv.val) (rp : Repl d d h a.val g v') :
    (∀ kv ∈ L.set i ⟨k, v'⟩, fits d g kv.val) ∧ (reachL d g (L.set i ⟨k, v'⟩)).Nodup ∧
    (∀ x ∈ reachL d g (L.set i ⟨k, v'⟩), (x ∈ reachL d h L ∨ h.next ≤ x) ∧ x < g.next) ∧
    Upd h g (reachL d h L) := by
  obtain ⟨s, t, hL, hset⟩ := set_split L i a ⟨k, v'⟩ hLi
  have hreach : reachL d h L = reachL d h s ++ reachV d h a.val ++ reachL d h t := by
    rw [hL, reachL_append, reachL_cons, List.append_assoc]
  rw [hreach] at hnd hlt
  have hnd3 := List.nodup_append.mp hnd
  have hnd2 := List.nodup_append.mp hnd3.1
  have sib : ∀ l : List KV, (∀ x ∈ reachL d h l, x < h.next) → (∀ x ∈ reachL d h l, x ∉ reachV d h a.val) →
      (∀ kv' ∈ l, fits d h kv'.val) → reachL d g l = reachL d h l ∧ ∀ kv' ∈ l, fits d g kv'.val := by
    intro l hl1 hl2 hl3
    have ag : ∀ kv' ∈ l, Agree h g (reachV d h kv'.val) := fun kv' hkv' x hx =>
      rp.upd.frame x (hl1 x (mem_flatMap_of_mem hkv' hx)) (hl2 x (mem_flatMap_of_mem hkv' hx))
    exact ⟨flatMap_congr' _ _ _ (fun kv' hkv' => reach_congr d _ _ _ (ag kv' hkv')),
      fun kv' hkv' => fits_congr d _ _ _ (ag kv' hkv') (hl3 kv' hkv')⟩
  have hs := sib s (fun x hx => hlt x (List.mem_append_left _ (List.mem_append_left _ hx)))
    (fun x hx hm => hnd2.2.2 x hx x hm rfl) (fun kv' hkv' => hfitL kv' (by rw [hL]; exact List.mem_append_left _ hkv'))
  have ht := sib t (fun x hx => hlt x (List.mem_append_right _ hx))
    (fun x hx hm => hnd3.2.2 x (List.mem_append_right _ hm) x hx rfl)
    (fun kv' hkv' => hfitL kv' (by rw [hL]; exact List.mem_append_right _ (List.mem_cons_of_mem _ hkv')))
  have hreach' : reachL d g (L.set i ⟨k, v'⟩) = reachL d h s ++ reachV d g v' ++ reachL d h t := by
    rw [hset, reachL_append, reachL_cons, hs.1, ht.1, List.append_assoc]
  refine ⟨?_, ?_, ?_, ⟨rp.upd.next_le, ?_⟩⟩
  · rw [hset]
    intro kv' hkv'
    rcases List.mem_append.mp hkv' with h1 | h1
    · exact hs.2 kv' h1
    · rcases List.mem_cons.mp h1 with rfl | h1
      · exact rp.fit
      · exact ht.2 kv' h1
  · rw [hreach']
    apply nodup_replace hnd rp.nodup
    intro x hx
    rcases (rp.foot x hx).1 with h1 | h1
    · exact Or.inl h1
    · right
      constructor
      · intro hm; have := hlt x (List.mem_append_left _ (List.mem_append_left _ hm)); omega
      · intro hm; have := hlt x (List.mem_append_right _ hm); omega
  · intro x hx
    rw [hreach'] at hx
    rw [hreach]
    have hlt' : ∀ y, y ∈ reachL d h s ++ reachV d h a.val ++ reachL d h t → y < g.next := fun y hy =>
      Nat.lt_of_lt_of_le (hlt y hy) rp.upd.next_le
    rcases List.mem_append.mp hx with h1 | h1
    · rcases List.mem_append.mp h1 with h2 | h2
      · exact ⟨Or.inl (List.mem_append_left _ (List.mem_append_left _ h2)), hlt' x (List.mem_append_left _ (List.mem_append_left _ h2))⟩
      · obtain ⟨h3, h4⟩ := rp.foot x h2
        exact ⟨h3.imp (fun h5 => List.mem_append_left _ (List.mem_append_right _ h5)) id, h4⟩
    · exact ⟨Or.inl (List.mem_append_right _ h1), hlt' x (List.mem_append_right _ h1)⟩
  · intro x hx hxn
    apply rp.upd.frame x hx
    intro hm; apply hxn; rw [hreach]
    exact List.mem_append_left _ (List.mem_append_right _ hm)

/-! ### header contracts of the operations -/

/-- what is known of a container of the forest, bundled -/
structure Owned (d : Nat) (h : Heap) (o : Nat) : Prop where
  lt : o < h.next
  fit : ∀ kv ∈ (h.wl o).live, fits d h kv.val
  nodup : (reachL d h (h.wl o).live).Nodup
  notin : o ∉ reachL d h (h.wl o).live
  clt : ∀ x ∈ reachL d h (h.wl o).live, x < h.next

theorem owned_of {s : St} (hi : Inv s) (r o : Nat) (ho : ownsList s.dep s.h (s.root r) o) : Owned s.dep s.h o := by
  obtain ⟨a, b, c, d, e, _⟩ := owns_facts hi r o ho
  exact ⟨a, b, c, d, e⟩

/-- slot `i` gets a new value under the replacement contract (`Set*`, `Put*` on an existing key, `Value.CopyTo` into the slot) -/
theorem hrepl_set (d : Nat) (h g : Heap) (o i k : Nat) (a : KV) (v' : V) (T : List KV) (ow : Owned d h o)
    (hLi : (h.wl o).live[i]? = some a) (rp : Repl d d h a.val g v') :
    HRepl d d h o { g with wl := upd g.wl o { live := (h.wl o).live.set i ⟨k, v'⟩, tail := T } } := by
  obtain ⟨c1, c2, c3, c4⟩ := children_set_slot d h g (h.wl o).live i a k v' hLi ow.nodup ow.clt ow.fit rp
  exact hrepl_of_children d h g o _ ow.lt ow.notin c4 c1 c2 c3

/-- a slot is appended (`Put*` of a new key, `AppendEmpty`) holding a newly made value -/
theorem hrepl_append (d : Nat) (h g : Heap) (o : Nat) (kv : KV) (T : List KV) (ow : Owned d h o)
    (hg : Upd h g []) (hfit : fits d g kv.val) (hnd : (reachV d g kv.val).Nodup)
    (hfoot : ∀ x ∈ reachV d g kv.val, h.next ≤ x ∧ x < g.next) :
    HRepl d d h o { g with wl := upd g.wl o { live := (h.wl o).live ++ [kv], tail := T } } := by
  have ag : ∀ kv' ∈ (h.wl o).live, Agree h g (reachV d h kv'.val) := fun kv' hkv' x hx =>
    hg.frame x (ow.clt x (mem_flatMap_of_mem hkv' hx)) (by simp)
  have hr : reachL d g (h.wl o).live = reachL d h (h.wl o).live :=
    flatMap_congr' _ _ _ (fun kv' hkv' => reach_congr d _ _ _ (ag kv' hkv'))
  have hreach : reachL d g ((h.wl o).live ++ [kv]) = reachL d h (h.wl o).live ++ reachV d g kv.val := by
    rw [reachL_append, hr]; simp [reachL]
  apply hrepl_of_children d h g o _ ow.lt ow.notin ⟨hg.next_le, fun x hx _ => hg.frame x hx (by simp)⟩
  · intro kv' hkv'
    rcases List.mem_append.mp hkv' with h1 | h1
    · exact fits_congr d _ _ _ (ag kv' h1) (ow.fit kv' h1)
    · simp at h1; subst h1; exact hfit
  · show (reachL d g ((h.wl o).live ++ [kv])).Nodup
    rw [hreach]
    refine List.nodup_append.mpr ⟨ow.nodup, hnd, ?_⟩
    intro x hx y hy e; subst e
    have := ow.clt x hx; have := (hfoot x hy).1; omega
  · intro x hx
    have hx' : x ∈ reachL d h (h.wl o).live ++ reachV d g kv.val := by rw [← hreach]; exact hx
    rcases List.mem_append.mp hx' with h1 | h1
    · exact ⟨Or.inl h1, Nat.lt_of_lt_of_le (ow.clt x h1) hg.next_le⟩
    · exact ⟨Or.inr (hfoot x h1).1, (hfoot x h1).2⟩

/-- the new header keeps some of the old slots (`Remove`, `RemoveIf`, `EnsureCapacity`, `Clear`) -/
theorem hrepl_sub (d : Nat) (h : Heap) (o : Nat) (R : Hdr) (ow : Owned d h o)
    (hmem : ∀ kv ∈ R.live, kv ∈ (h.wl o).live) (hnd : (reachL d h R.live).Nodup)
    (hsub : ∀ x ∈ reachL d h R.live, x ∈ reachL d h (h.wl o).live) :
    HRepl d d h o { h with wl := upd h.wl o R } :=
  hrepl_of_children d h h o R ow.lt ow.notin ⟨Nat.le_refl _, fun _ _ _ => ⟨rfl, rfl⟩⟩
    (fun kv hkv => ow.fit kv (hmem kv hkv)) hnd
    (fun x hx => ⟨Or.inl (hsub x hx), ow.clt x (hsub x hx)⟩)

theorem find_some {l : List KV} {k i : Nat} (h : find l k = some i) : ∃ a, l[i]? = some a := by
  have : i < l.length := by
    simp only [find] at h
    exact (List.findIdx?_eq_some_iff_getElem.mp h).1
  exact ⟨l[i], List.getElem?_eq_getElem this⟩

/-- `Map.Remove`'s header: the footprint of `(l.set i last).dropLast` -/
theorem removeKey_children (d : Nat) (h : Heap) (l : List KV) (i : Nat) (last : KV) (hl : l.getLast? = some last)
    (hn : (reachL d h l).Nodup) :
    (reachL d h ((l.set i last).dropLast)).Nodup ∧ (∀ x ∈ reachL d h ((l.set i last).dropLast), x ∈ reachL d h l) ∧
    ∀ kv ∈ (l.set i last).dropLast, kv ∈ l := by
  obtain ⟨ys, rfl⟩ := List.getLast?_eq_some_iff.mp hl
  by_cases hi : i < ys.length
  · have e : ((ys ++ [last]).set i last).dropLast = ys.set i last := by
      rw [List.set_append]; simp [hi]
    rw [e]
    obtain ⟨a, ha⟩ : ∃ a, ys[i]? = some a := ⟨ys[i], List.getElem?_eq_getElem hi⟩
    obtain ⟨s, t, hys, hset⟩ := set_split ys i a last ha
    rw [hset]
    have hold : reachL d h (ys ++ [last]) = reachL d h s ++ reachV d h a.val ++ reachL d h t ++ reachV d h last.val := by
      rw [hys]; simp [reachL, List.append_assoc]
    have hnew : reachL d h (s ++ last :: t) = reachL d h s ++ reachV d h last.val ++ reachL d h t := by
      simp [reachL, List.append_assoc]
    rw [hold] at hn
    rw [hnew, hold]
    -- drop `a`'s footprint, then move `last`'s footprint into its place
    have hsl : (reachL d h s ++ reachL d h t ++ reachV d h last.val).Sublist
        (reachL d h s ++ reachV d h a.val ++ reachL d h t ++ reachV d h last.val) :=
      List.Sublist.append (List.Sublist.append (List.sublist_append_left _ _) (List.Sublist.refl _)) (List.Sublist.refl _)
    have h1 : (reachL d h s ++ reachL d h t ++ reachV d h last.val).Nodup := List.Nodup.sublist hsl hn
    have hp : (reachL d h s ++ reachV d h last.val ++ reachL d h t).Perm (reachL d h s ++ reachL d h t ++ reachV d h last.val) := by
      rw [List.append_assoc, List.append_assoc]
      exact List.Perm.append_left _ List.perm_append_comm
    refine ⟨hp.nodup_iff.mpr h1, ?_, ?_⟩
    · intro x hx
      simp only [List.mem_append] at hx ⊢
      rcases hx with (h2 | h2) | h2
      · exact Or.inl (Or.inl (Or.inl h2))
      · exact Or.inr h2
      · exact Or.inl (Or.inr h2)
    · intro kv hkv
      rw [hys]
      simp only [List.mem_append, List.mem_cons, List.not_mem_nil, or_false] at hkv ⊢
      rcases hkv with h2 | h2 | h2
      · exact Or.inl (Or.inl h2)
      · exact Or.inr h2
      · exact Or.inl (Or.inr (Or.inr h2))
  · have e : ((ys ++ [last]).set i last).dropLast = ys := by
      rw [List.set_append]; simp only [hi, if_false]
      cases (i - ys.length) <;> simp
    rw [e]
    have hsub : (reachL d h ys).Sublist (reachL d h (ys ++ [last])) := sublist_flatMap _ (List.sublist_append_left _ _)
    exact ⟨hn.sublist hsub, fun x hx => hsub.subset hx, fun kv hkv => List.mem_append_left _ hkv⟩

end OtelVerif.C07.N
