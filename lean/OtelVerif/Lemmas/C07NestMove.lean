import OtelVerif.Lemmas.C07NestOps
/-!
# C07 part C: `Slice.MoveAndAppendTo` at PROGRAM level between two root slices

`N.WfOp (.moveAppend …) = False` (Lemmas/C07NestOps): the children of the source are ADOPTED by the destination, which the replacement
contracts `Repl` / `HRepl` (old footprint of the same value + new wrappers) cannot express.  Here the step lemma is proved directly from the
definition of the forest invariant for the case in which both slices are ROOT values (two top-level `pcommon.Slice`s with arbitrarily nested
elements, arbitrary capacities and garbage beyond `len`): all three branches of the code (never-used destination takes the whole vector;
append in place; grow).
-/
namespace OtelVerif.C07.N
open OtelVerif.C07 (upd keep)

theorem agree_of_not_mem (h h' : Heap) (o1 o2 : Nat) (hwb : h'.wb = h.wb) (hwl : ∀ x, x ≠ o1 → x ≠ o2 → h'.wl x = h.wl x)
    (ids : List Nat) (h1 : o1 ∉ ids) (h2 : o2 ∉ ids) : Agree h h' ids :=
  fun i hi => ⟨by rw [hwb], hwl i (fun e => h1 (e ▸ hi)) (fun e => h2 (e ▸ hi))⟩

theorem reachL_agree (d : Nat) (h h' : Heap) (l : List KV) (ag : Agree h h' (reachL d h l)) : reachL d h' l = reachL d h l :=
  flatMap_congr' _ _ _ (fun kv hkv => reach_congr d _ _ _ (fun i hi => ag i (mem_flatMap_of_mem hkv hi)))

/-- `Slice.MoveAndAppendTo` between the slices held by two distinct roots keeps the forest invariant, leaves every other root reading as
before, empties the source and makes the destination read as its old elements followed by the source's old elements -/
theorem move_append_roots_spec {s : St} (hi : Inv s) (rs rd o1 o2 c : Nat) (k1 k2 : Bool) (hne : rs ≠ rd)
    (h1 : s.root rs = .list k1 o1) (h2 : s.root rd = .list k2 o2) :
    Inv (step s (.moveAppend rs o1 rd o2 c)).1 ∧
    (∀ x, x ≠ rs → x ≠ rd → absRoot (step s (.moveAppend rs o1 rd o2 c)).1 x = absRoot s x) ∧
    ((s.ro rs || s.ro rd) = false →
      absRoot (step s (.moveAppend rs o1 rd o2 c)).1 rs = [.opn k1 0] ∧
      ∃ d0, s.dep = d0 + 1 ∧
        absRoot (step s (.moveAppend rs o1 rd o2 c)).1 rd =
          .opn k2 ((s.h.wl o2).live.length + (s.h.wl o1).live.length) ::
            ((s.h.wl o2).live ++ (s.h.wl o1).live).flatMap (fun kv => Tok.key kv.key :: absV d0 s.h kv.val)) := by
  by_cases hro : (s.ro rs || s.ro rd) = true
  · have e : (step s (.moveAppend rs o1 rd o2 c)).1 = s := by simp [step, hro]
    rw [e]
    exact ⟨hi, fun _ _ _ => rfl, fun hf => by rw [hro] at hf; cases hf⟩
  have hro' : (s.ro rs || s.ro rd) = false := by simpa using hro
  obtain ⟨d0, hd0⟩ : ∃ d, s.dep = d + 1 := ⟨s.dep - 1, by have := hi.pos; omega⟩
  -- footprints of the two roots in the old state
  have r1 : reachV s.dep s.h (s.root rs) = o1 :: reachL d0 s.h (s.h.wl o1).live := by rw [h1, hd0]; rfl
  have r2 : reachV s.dep s.h (s.root rd) = o2 :: reachL d0 s.h (s.h.wl o2).live := by rw [h2, hd0]; rfl
  have n1 := hi.nodup rs; rw [r1] at n1
  have n2 := hi.nodup rd; rw [r2] at n2
  have n1' := List.nodup_cons.mp n1
  have n2' := List.nodup_cons.mp n2
  have dj : ∀ i ∈ o1 :: reachL d0 s.h (s.h.wl o1).live, i ∉ o2 :: reachL d0 s.h (s.h.wl o2).live := by
    intro i hi1; have := hi.disj rs rd hne i (by rw [r1]; exact hi1); rw [r2] at this; exact this
  have h12 : o1 ≠ o2 := fun e => dj o1 List.mem_cons_self (e ▸ List.mem_cons_self)
  have o1F2 : o1 ∉ reachL d0 s.h (s.h.wl o2).live := fun hm => dj o1 List.mem_cons_self (List.mem_cons_of_mem _ hm)
  have o2F1 : o2 ∉ reachL d0 s.h (s.h.wl o1).live := fun hm => dj o2 (List.mem_cons_of_mem _ hm) List.mem_cons_self
  have f1 : ∀ kv ∈ (s.h.wl o1).live, fits d0 s.h kv.val := by
    have := hi.fit rs; rw [h1, hd0] at this; exact this
  have f2 : ∀ kv ∈ (s.h.wl o2).live, fits d0 s.h kv.val := by
    have := hi.fit rd; rw [h2, hd0] at this; exact this
  -- the new state
  obtain ⟨m1, m2, _, m4, m5⟩ := move_append_hdr s rs o1 rd o2 c hro' h12
  have eS : (step s (.moveAppend rs o1 rd o2 c)).1 =
      { h := (step s (.moveAppend rs o1 rd o2 c)).1.h, root := s.root, ro := s.ro, dep := bump s.dep } := by
    simp [step, hro']
  generalize hH : (step s (.moveAppend rs o1 rd o2 c)).1.h = H at m1 m2 m4 m5 eS
  have agOf : ∀ ids : List Nat, o1 ∉ ids → o2 ∉ ids → Agree s.h H ids := agree_of_not_mem s.h H o1 o2 m5 m4
  have ag1 : Agree s.h H (reachL d0 s.h (s.h.wl o1).live) := agOf _ n1'.1 o2F1
  have ag2 : Agree s.h H (reachL d0 s.h (s.h.wl o2).live) := agOf _ o1F2 n2'.1
  have e1 := reachL_agree d0 s.h H _ ag1
  have e2 := reachL_agree d0 s.h H _ ag2
  -- new footprints at the old fuel
  have R1 : reachV s.dep H (s.root rs) = [o1] := by rw [h1, hd0, reachV_list_succ, m2]; rfl
  have R2 : reachV s.dep H (s.root rd) = o2 :: (reachL d0 s.h (s.h.wl o2).live ++ reachL d0 s.h (s.h.wl o1).live) := by
    rw [h2, hd0, reachV_list_succ, m1, reachL_append, e1, e2]
  have agC : ∀ x, x ≠ rs → x ≠ rd → Agree s.h H (reachV s.dep s.h (s.root x)) := by
    intro x hx1 hx2
    apply agOf
    · intro hm; exact hi.disj rs x (fun e => hx1 e.symm) o1 (by rw [r1]; exact List.mem_cons_self) hm
    · intro hm; exact hi.disj rd x (fun e => hx2 e.symm) o2 (by rw [r2]; exact List.mem_cons_self) hm
  have RC : ∀ x, x ≠ rs → x ≠ rd → reachV s.dep H (s.root x) = reachV s.dep s.h (s.root x) :=
    fun x a b => reach_congr _ _ _ _ (agC x a b)
  have hfit : ∀ r, fits s.dep H (s.root r) := by
    intro r
    by_cases e1' : r = rs
    · subst e1'; rw [h1, hd0]; simp only [fits, m2]; intro kv hkv; cases hkv
    · by_cases e2' : r = rd
      · subst e2'; rw [h2, hd0]; simp only [fits, m1]
        intro kv hkv
        rcases List.mem_append.mp hkv with hk | hk
        · exact fits_congr d0 _ _ _ (fun i hi' => ag2 i (mem_flatMap_of_mem hk hi')) (f2 kv hk)
        · exact fits_congr d0 _ _ _ (fun i hi' => ag1 i (mem_flatMap_of_mem hk hi')) (f1 kv hk)
      · exact fits_congr _ _ _ _ (agC r e1' e2') (hi.fit r)
  have hnext : H.next = s.h.next := by rw [← hH]; simp [step, hro']
  have hinv : Inv { h := H, root := s.root, ro := s.ro, dep := bump s.dep } := by
    apply inv_of H s.root s.ro hfit
    · intro r i hir
      rw [hnext]
      by_cases e1' : r = rs
      · subst e1'; rw [R1] at hir; simp only [List.mem_singleton] at hir; subst hir
        exact hi.lt r i (by rw [r1]; exact List.mem_cons_self)
      · by_cases e2' : r = rd
        · subst e2'; rw [R2] at hir
          rcases List.mem_cons.mp hir with rfl | hir
          · exact hi.lt r _ (by rw [r2]; exact List.mem_cons_self)
          · rcases List.mem_append.mp hir with hk | hk
            · exact hi.lt r i (by rw [r2]; exact List.mem_cons_of_mem _ hk)
            · exact hi.lt rs i (by rw [r1]; exact List.mem_cons_of_mem _ hk)
        · rw [RC r e1' e2'] at hir; exact hi.lt r i hir
    · intro r
      by_cases e1' : r = rs
      · subst e1'; rw [R1]; simp
      · by_cases e2' : r = rd
        · subst e2'; rw [R2]
          refine List.nodup_cons.mpr ⟨?_, List.nodup_append.mpr ⟨n2'.2, n1'.2, ?_⟩⟩
          · intro hm
            rcases List.mem_append.mp hm with hk | hk
            · exact n2'.1 hk
            · exact o2F1 hk
          · intro x hx y hy exy; subst exy
            exact dj x (List.mem_cons_of_mem _ hy) (List.mem_cons_of_mem _ hx)
        · rw [RC r e1' e2']; exact hi.nodup r
    · intro a b hab i hia hib
      -- every id of a new footprint lies in the OLD footprint of the same root, or (for `rd`) in the old footprint of `rs`
      have old : ∀ r j, j ∈ reachV s.dep H (s.root r) →
          j ∈ reachV s.dep s.h (s.root r) ∨ (r = rd ∧ j ∈ reachL d0 s.h (s.h.wl o1).live) := by
        intro r j hj
        by_cases e1' : r = rs
        · subst e1'; rw [R1] at hj; simp only [List.mem_singleton] at hj; subst hj
          exact Or.inl (by rw [r1]; exact List.mem_cons_self)
        · by_cases e2' : r = rd
          · subst e2'; rw [R2] at hj
            rcases List.mem_cons.mp hj with rfl | hj
            · exact Or.inl (by rw [r2]; exact List.mem_cons_self)
            · rcases List.mem_append.mp hj with hk | hk
              · exact Or.inl (by rw [r2]; exact List.mem_cons_of_mem _ hk)
              · exact Or.inr ⟨rfl, hk⟩
          · rw [RC r e1' e2'] at hj; exact Or.inl hj
      rcases old a i hia with ha | ⟨ea, ha⟩ <;> rcases old b i hib with hb | ⟨eb, hb⟩
      · exact hi.disj a b hab i ha hb
      · -- i ∈ old(a), b = rd, i ∈ F1 ⊆ old(rs): then a = rs, whose NEW footprint is [o1], and o1 ∉ F1
        subst eb
        by_cases e1' : a = rs
        · subst e1'; rw [R1] at hia; simp only [List.mem_singleton] at hia; subst hia
          exact n1'.1 hb
        · exact hi.disj a rs e1' i ha (by rw [r1]; exact List.mem_cons_of_mem _ hb)
      · subst ea
        by_cases e1' : b = rs
        · subst e1'; rw [R1] at hib; simp only [List.mem_singleton] at hib; subst hib
          exact n1'.1 ha
        · exact hi.disj b rs e1' i hb (by rw [r1]; exact List.mem_cons_of_mem _ ha)
      · exact hab (ea.trans eb.symm)
  rw [eS]
  refine ⟨hinv, ?_, fun _ => ⟨?_, d0, hd0, ?_⟩⟩
  · intro x hx1 hx2
    rw [absRoot_bump H s.root s.ro x (hfit x)]
    exact abs_congr _ _ _ _ (agC x hx1 hx2)
  · rw [absRoot_bump H s.root s.ro rs (hfit rs), h1, hd0]
    simp [absV, m2]
  · rw [absRoot_bump H s.root s.ro rd (hfit rd), h2, hd0]
    simp only [absV, m1, List.length_append]
    congr 1
    apply flatMap_congr'
    intro kv hkv
    congr 1
    rcases List.mem_append.mp hkv with hk | hk
    · exact abs_congr d0 _ _ _ (fun i hi' => ag2 i (mem_flatMap_of_mem hk hi'))
    · exact abs_congr d0 _ _ _ (fun i hi' => ag1 i (mem_flatMap_of_mem hk hi'))

end OtelVerif.C07.N
