import OtelVerif.Lemmas.C07NestLU
/-! nested model: every operation (also on nested targets) keeps the forest invariant and leaves the
roots it does not target as they read -/
namespace OtelVerif.C07.N
open OtelVerif.C07 (upd keep keep_sublist map_keep)

/-- footprint and depth do not depend on the bytes contents -/
theorem wl_only (d : Nat) : ∀ (h h' : Heap) (v : V), (∀ i, h'.wl i = h.wl i) →
    reachV d h' v = reachV d h v ∧ (fits d h v → fits d h' v) := by
  induction d with
  | zero => intro h h' v _; cases v <;> simp [reachV, fits]
  | succ d ih =>
    intro h h' v hw
    cases v with
    | nil => simp [reachV, fits]
    | scalar a b => simp [reachV, fits]
    | bytes i => simp [reachV, fits]
    | list km i =>
      simp only [reachV, fits, hw i]
      exact ⟨by congr 1; exact flatMap_congr' _ _ _ (fun kv _ => (ih h h' kv.val hw).1),
        fun hf kv hkv => (ih h h' kv.val hw).2 (hf kv hkv)⟩

/-- the roots an operation may change (all others must read as before) -/
def touched : Op → List Nat
  | .setRoot r _ | .setSlot r .. | .bytesAppend r .. | .remove r .. | .removeIf r .. | .ensureCap r .. | .clear r _ => [r]
  | .copyVal _ _ rd _ => [rd]
  | .copyList _ _ rd _ => [rd]
  | .moveAppend rs _ rd _ _ => [rs, rd]
  | .moveRoot a b => [a, b]
  | .markRO _ => []

/-- the position is a root, or a slot of a container of the forest below the named root -/
def LocOk (s : St) (r : Nat) : Loc → Prop
  | .root a => a = r
  | .slot o _ => ownsList s.dep s.h (s.root r) o

/-- well-formed operations: targets are containers / positions of the forest; copies are between
distinct values (disjoint footprints; the destination slot's container is not inside the source) -/
def WfOp (s : St) : Op → Prop
  | .setRoot _ _ => True
  | .setSlot r o _ _ _ => ownsList s.dep s.h (s.root r) o
  | .bytesAppend r b _ => b ∈ reachV s.dep s.h (s.root r)
  | .remove r o _ => ownsList s.dep s.h (s.root r) o
  | .removeIf r o _ => ownsList s.dep s.h (s.root r) o
  | .ensureCap r o _ => ownsList s.dep s.h (s.root r) o
  | .clear r o => ownsList s.dep s.h (s.root r) o
  | .copyVal rs src rd dst =>
    LocOk s rs src ∧ LocOk s rd dst ∧
    match readLoc s src, readLoc s dst with
    | some sv, some dv =>
      (∀ x ∈ reachV s.dep s.h sv, x ∉ reachV s.dep s.h dv) ∧
      (match dst with
        | .slot o _ => o ∉ reachV s.dep s.h sv
        | .root _ => True)
    | _, _ => True
  | .copyList rs o1 rd o2 =>
    ownsList s.dep s.h (s.root rs) o1 ∧ ownsList s.dep s.h (s.root rd) o2 ∧
    (∀ x ∈ reachL s.dep s.h (s.h.wl o1).live, x ∉ reachL s.dep s.h (s.h.wl o2).live) ∧
    o2 ∉ reachL s.dep s.h (s.h.wl o1).live
  | .moveAppend _ _ _ _ _ => False      -- see `move_append_hdr` (header level); program level: pointer slices (part A)
  | .moveRoot a b => a ≠ b
  | .markRO _ => True

instance (s : St) (r : Nat) (l : Loc) : Decidable (LocOk s r l) := by
  cases l <;> simp only [LocOk] <;> infer_instance

instance (s : St) (op : Op) : Decidable (WfOp s op) := by
  cases op with
  | copyVal rs src rd dst =>
    simp only [WfOp]
    cases readLoc s src <;> cases readLoc s dst <;> cases dst <;> simp only [] <;> infer_instance
  | _ => simp only [WfOp] <;> infer_instance

theorem absRoot_same_heap {s : St} (hi : Inv s) (c : Nat) :
    absRoot { s with dep := bump s.dep } c = absRoot s c :=
  abs_fits_mono (le_bump _) s.h _ (hi.fit c)

theorem inv_bump {s : St} (hi : Inv s) : Inv { s with dep := bump s.dep } :=
  inv_of s.h s.root s.ro hi.fit hi.lt hi.nodup hi.disj

/-- source facts: the value read at a well-formed position fits and is allocated -/
theorem src_facts {s : St} (hi : Inv s) (r : Nat) (l : Loc) (hl : LocOk s r l) (sv : V) (hr : readLoc s l = some sv) :
    fits s.dep s.h sv ∧ ∀ x ∈ reachV s.dep s.h sv, x < s.h.next := by
  cases l with
  | root a =>
    have : a = r := hl
    subst this
    simp only [readLoc, Option.some.injEq] at hr; subst hr
    exact ⟨hi.fit a, hi.lt a⟩
  | slot o i =>
    have ow := owned_of hi r o hl
    simp only [readLoc, Option.map_eq_some_iff] at hr
    obtain ⟨kv, hkv, rfl⟩ := hr
    have hm := List.mem_of_getElem? hkv
    exact ⟨ow.fit kv hm, fun x hx => ow.clt x (mem_flatMap_of_mem hm hx)⟩

theorem mkNew_repl (h : Heap) (x : NewV) (d : Nat) (dv : V) : Repl (d + 1) (d + 1) h dv (mkNew h x).1 (mkNew h x).2 := by
  obtain ⟨m1, m2, _, m4, m5, m6⟩ := mkNew_spec h x d
  exact ⟨⟨m1, fun i hi _ => m2 i hi⟩, m4, m5, fun o ho => ⟨Or.inr (m6 o ho).1, (m6 o ho).2⟩⟩

theorem pstep_frame_root (s : St) (p : PSt) (op : Op) (hwr : WfRootOp s op) (c : Nat) (hc : c ∉ touched op) :
    ((pstep p op).1).val c = p.val c := by
  cases op with
  | setRoot r x =>
    simp only [touched, List.mem_cons, List.not_mem_nil, or_false] at hc
    simp only [pstep]; split <;> simp [upd_other _ _ _ _ hc]
  | moveRoot a b =>
    simp only [touched, List.mem_cons, List.not_mem_nil, or_false, not_or] at hc
    simp only [pstep]; split <;> simp [upd_other _ _ _ _ hc.1, upd_other _ _ _ _ hc.2]
  | markRO r => rfl
  | bytesAppend r b x =>
    simp only [touched, List.mem_cons, List.not_mem_nil, or_false] at hc
    simp only [pstep]; split
    · rfl
    · split <;> simp [upd_other _ _ _ _ hc]
  | copyVal rs src rd dst =>
    simp only [touched, List.mem_cons, List.not_mem_nil, or_false] at hc
    cases src with
    | slot o i => simp [WfRootOp] at hwr
    | root a =>
      cases dst with
      | slot o i => simp [WfRootOp] at hwr
      | root b =>
        obtain ⟨_, rfl, _⟩ := hwr
        simp only [pstep]; split <;> simp [upd_other _ _ _ _ hc]
  | setSlot r o sel x c' => simp [WfRootOp] at hwr
  | remove r o k => simp [WfRootOp] at hwr
  | removeIf r o m => simp [WfRootOp] at hwr
  | ensureCap r o n => simp [WfRootOp] at hwr
  | clear r o => simp [WfRootOp] at hwr
  | copyList rs o1 rd o2 => simp [WfRootOp] at hwr
  | moveAppend rs o1 rd o2 c' => simp [WfRootOp] at hwr

theorem step_all_spec {s : St} (hi : Inv s) (op : Op) (hw : WfOp s op) :
    Inv (step s op).1 ∧ ∀ c, c ∉ touched op → absRoot (step s op).1 c = absRoot s c := by
  obtain ⟨d0, hd0⟩ : ∃ d, s.dep = d + 1 := ⟨s.dep - 1, by have := hi.pos; omega⟩
  -- root-level operations: from the root-level specification
  have viaRoot : WfRootOp s op → Inv (step s op).1 ∧ ∀ c, c ∉ touched op → absRoot (step s op).1 c = absRoot s c := by
    intro hwr
    obtain ⟨h1, h2, _⟩ := step_root_spec hi op hwr
    refine ⟨h1, fun c hc => ?_⟩
    have hv : (abs (step s op).1).val c = ((pstep (abs s) op).1).val c := by rw [h2]
    exact hv.trans (pstep_frame_root s (abs s) op hwr c hc)
  -- operations on a container below root `r` under a header contract
  have viaNested : ∀ (r o : Nat) (h' : Heap), ownsList s.dep s.h (s.root r) o → HRepl s.dep s.dep s.h o h' →
      Inv { h := h', root := s.root, ro := s.ro, dep := bump s.dep } ∧
      ∀ c, c ≠ r → absRoot { h := h', root := s.root, ro := s.ro, dep := bump s.dep } c = absRoot s c :=
    fun r o h' ho hc => nested_update hi r o h' s.ro ho hc
  have same : Inv s ∧ ∀ c, c ∉ touched op → absRoot s c = absRoot s c := ⟨hi, fun _ _ => rfl⟩
  cases op with
  | setRoot r x => exact viaRoot trivial
  | moveRoot a b => exact viaRoot hw
  | markRO r => exact viaRoot trivial
  | moveAppend rs o1 rd o2 c => exact absurd hw (by simp [WfOp])
  | bytesAppend r b x =>
    simp only [step]
    by_cases hr : s.ro r = true
    · simp only [hr, ↓reduceIte]; first | exact same | exact ⟨hi, fun _ _ => trivial⟩
    · simp only [hr, Bool.false_eq_true, ↓reduceIte]
      have hb : b ∈ reachV s.dep s.h (s.root r) := hw
      have hwl : ∀ i, ({ s.h with wb := upd s.h.wb b (s.h.wb b ++ [x]) } : Heap).wl i = s.h.wl i := fun _ => rfl
      have rp : Repl s.dep s.dep s.h (s.root r) { s.h with wb := upd s.h.wb b (s.h.wb b ++ [x]) } (s.root r) := by
        refine ⟨⟨Nat.le_refl _, fun y _ hy => ⟨upd_other _ _ _ _ (fun e => hy (e ▸ hb)), rfl⟩⟩, ?_, ?_, ?_⟩
        · exact (wl_only _ _ _ _ hwl).2 (hi.fit r)
        · rw [(wl_only _ _ _ _ hwl).1]; exact hi.nodup r
        · intro o ho; rw [(wl_only _ _ _ _ hwl).1] at ho; exact ⟨Or.inl ho, hi.lt r o ho⟩
      obtain ⟨u1, _, u3⟩ := root_update_gen hi r _ (s.root r) s.ro s.dep (Nat.le_refl _) (le_bump _) rp
      have hsame : upd s.root r (s.root r) = s.root := by
        funext c; by_cases hc' : c = r
        · subst hc'; simp [upd_same]
        · simp [upd_other _ _ _ _ hc']
      rw [hsame] at u1 u3
      exact ⟨u1, fun c hc => u3 c (by simpa [touched] using hc)⟩
  | remove r o k =>
    simp only [step]
    by_cases hr : s.ro r = true
    · simp only [hr, ↓reduceIte]; first | exact same | exact ⟨hi, fun _ _ => trivial⟩
    · simp only [hr, Bool.false_eq_true, ↓reduceIte]
      have ho : ownsList s.dep s.h (s.root r) o := hw
      have ow := owned_of hi r o ho
      have hc : HRepl s.dep s.dep s.h o { s.h with wl := upd s.h.wl o (removeKey (s.h.wl o) k) } := by
        unfold removeKey
        cases hf : find (s.h.wl o).live k with
        | none =>
          exact hrepl_sub _ _ _ _ ow (fun kv hkv => hkv) ow.nodup (fun x hx => hx)
        | some i =>
          cases hl : (s.h.wl o).live.getLast? with
          | none => exact hrepl_sub _ _ _ _ ow (fun kv hkv => hkv) ow.nodup (fun x hx => hx)
          | some last =>
            obtain ⟨c1, c2, c3⟩ := removeKey_children s.dep s.h (s.h.wl o).live i last hl ow.nodup
            exact hrepl_sub _ _ _ _ ow c3 c1 c2
      obtain ⟨u1, u2⟩ := viaNested r o _ ho hc
      exact ⟨u1, fun c hc' => u2 c (by simpa [touched] using hc')⟩
  | removeIf r o m =>
    simp only [step]
    by_cases hr : s.ro r = true
    · simp only [hr, ↓reduceIte]; first | exact same | exact ⟨hi, fun _ _ => trivial⟩
    · simp only [hr, Bool.false_eq_true, ↓reduceIte]
      have ho : ownsList s.dep s.h (s.root r) o := hw
      have ow := owned_of hi r o ho
      have hsl := keep_sublist (s.h.wl o).live m
      have hsub : (reachL s.dep s.h (keep (s.h.wl o).live m)).Sublist (reachL s.dep s.h (s.h.wl o).live) := sublist_flatMap _ hsl
      have hc : HRepl s.dep s.dep s.h o { s.h with wl := upd s.h.wl o (removeIfH (s.h.wl o) m) } :=
        hrepl_sub _ _ _ _ ow (fun kv hkv => hsl.subset hkv) (ow.nodup.sublist hsub) (fun x hx => hsub.subset hx)
      obtain ⟨u1, u2⟩ := viaNested r o _ ho hc
      exact ⟨u1, fun c hc' => u2 c (by simpa [touched] using hc')⟩
  | ensureCap r o n =>
    simp only [step]
    by_cases hr : s.ro r = true
    · simp only [hr, ↓reduceIte]; first | exact same | exact ⟨hi, fun _ _ => trivial⟩
    · simp only [hr, Bool.false_eq_true, ↓reduceIte]
      by_cases hn : n ≤ (s.h.wl o).cap
      · simp only [hn, ↓reduceIte]
        exact ⟨inv_bump hi, fun c _ => absRoot_same_heap hi c⟩
      · simp only [hn, ↓reduceIte]
        have ho : ownsList s.dep s.h (s.root r) o := hw
        have ow := owned_of hi r o ho
        have hc : HRepl s.dep s.dep s.h o { s.h with wl := upd s.h.wl o ⟨(s.h.wl o).live, List.replicate (n - (s.h.wl o).live.length) KV.zero⟩ } :=
          hrepl_sub _ _ _ _ ow (fun kv hkv => hkv) ow.nodup (fun x hx => hx)
        obtain ⟨u1, u2⟩ := viaNested r o _ ho hc
        exact ⟨u1, fun c hc' => u2 c (by simpa [touched] using hc')⟩
  | clear r o =>
    simp only [step]
    by_cases hr : s.ro r = true
    · simp only [hr, ↓reduceIte]; first | exact same | exact ⟨hi, fun _ _ => trivial⟩
    · simp only [hr, Bool.false_eq_true, ↓reduceIte]
      have ho : ownsList s.dep s.h (s.root r) o := hw
      have ow := owned_of hi r o ho
      have hc : HRepl s.dep s.dep s.h o { s.h with wl := upd s.h.wl o {} } :=
        hrepl_sub _ _ _ _ ow (by simp) (by simp [reachL]) (by simp [reachL])
      obtain ⟨u1, u2⟩ := viaNested r o _ ho hc
      exact ⟨u1, fun c hc' => u2 c (by simpa [touched] using hc')⟩
  | setSlot r o sel x c =>
    simp only [step]
    by_cases hr : s.ro r = true
    · simp only [hr, ↓reduceIte]; first | exact same | exact ⟨hi, fun _ _ => trivial⟩
    · simp only [hr, Bool.false_eq_true, ↓reduceIte]
      have ho : ownsList s.dep s.h (s.root r) o := hw
      have ow := owned_of hi r o ho
      have hwlo : (mkNew s.h x).1.wl o = s.h.wl o := ((mkNew_spec s.h x d0).2.1 o ow.lt).2
      have rpn : ∀ dv, Repl s.dep s.dep s.h dv (mkNew s.h x).1 (mkNew s.h x).2 := fun dv => by
        rw [hd0]; exact mkNew_repl s.h x d0 dv
      have fin : ∀ hd, HRepl s.dep s.dep s.h o { (mkNew s.h x).1 with wl := upd (mkNew s.h x).1.wl o hd } →
          Inv { s with h := { (mkNew s.h x).1 with wl := upd (mkNew s.h x).1.wl o hd }, dep := bump s.dep } ∧
          ∀ c, c ∉ touched (Op.setSlot r o sel x c) →
            absRoot { s with h := { (mkNew s.h x).1 with wl := upd (mkNew s.h x).1.wl o hd }, dep := bump s.dep } c = absRoot s c := by
        intro hd hc
        obtain ⟨u1, u2⟩ := viaNested r o _ ho hc
        exact ⟨u1, fun c hc' => u2 c (by simpa [touched] using hc')⟩
      have grows : ∀ kv : KV, kv.val = (mkNew s.h x).2 → ∀ T, HRepl s.dep s.dep s.h o
          { (mkNew s.h x).1 with wl := upd (mkNew s.h x).1.wl o { live := (s.h.wl o).live ++ [kv], tail := T } } := by
        intro kv hkv T
        have rp := rpn V.nil
        apply hrepl_append _ _ _ _ _ _ ow ⟨rp.upd.next_le, fun y hy _ => rp.upd.frame y hy (by simp [reachV_nil])⟩
        · rw [hkv]; exact rp.fit
        · rw [hkv]; exact rp.nodup
        · intro y hy
          rw [hkv] at hy
          rcases (rp.foot y hy).1 with h1 | h1
          · simp [reachV_nil] at h1
          · exact ⟨h1, (rp.foot y hy).2⟩
      rw [hwlo]
      cases sel with
      | key k =>
        simp only [place]
        cases hf : find (s.h.wl o).live k with
        | some i =>
          simp only []
          obtain ⟨a, ha⟩ := find_some hf
          exact fin _ (hrepl_set _ _ _ _ i k a _ _ ow ha (rpn a.val))
        | none =>
          simp only [grow]
          exact fin _ (grows ⟨k, (mkNew s.h x).2⟩ rfl _)
      | idx i =>
        simp only [place]
        by_cases hil : i < (s.h.wl o).live.length
        · simp only [hil, ↓reduceIte]
          exact fin _ (hrepl_set _ _ _ _ i 0 _ _ _ ow (List.getElem?_eq_getElem hil) (rpn _))
        · simp only [hil, ↓reduceIte]; first | exact same | exact ⟨hi, fun _ _ => trivial⟩
      | push =>
        simp only [place, grow]
        exact fin _ (grows ⟨0, (mkNew s.h x).2⟩ rfl _)
  | copyList rs o1 rd o2 =>
    simp only [step]
    by_cases hr : s.ro rd = true
    · simp only [hr, ↓reduceIte]; first | exact same | exact ⟨hi, fun _ _ => trivial⟩
    · simp only [hr, Bool.false_eq_true, ↓reduceIte]
      obtain ⟨ho1, ho2, hdis, _⟩ := hw
      have ow1 := owned_of hi rs o1 ho1
      have ow2 := owned_of hi rd o2 ho2
      have hp := copyHdrWith_spec s.dep (copyVal s.dep) (copyVal_spec s.dep) s.h (s.h.wl o1) (s.h.wl o2)
        ow1.fit ow1.clt ow2.clt ow2.nodup hdis
      have hc : HRepl s.dep s.dep s.h o2
          { (copyHdrWith (copyVal s.dep) s.h (s.h.wl o1) (s.h.wl o2)).1 with
            wl := upd (copyHdrWith (copyVal s.dep) s.h (s.h.wl o1) (s.h.wl o2)).1.wl o2 (copyHdrWith (copyVal s.dep) s.h (s.h.wl o1) (s.h.wl o2)).2 } :=
        hrepl_of_children _ _ _ _ _ ow2.lt ow2.notin ⟨hp.next_le, hp.frame⟩ hp.fit hp.nodup hp.foot
      obtain ⟨u1, u2⟩ := viaNested rd o2 _ ho2 hc
      exact ⟨u1, fun c hc' => u2 c (by simpa [touched] using hc')⟩
  | copyVal rs src rd dst =>
    simp only [step]
    by_cases hr : s.ro rd = true
    · simp only [hr, ↓reduceIte]; first | exact same | exact ⟨hi, fun _ _ => trivial⟩
    · simp only [hr, Bool.false_eq_true, ↓reduceIte]
      obtain ⟨hsrc, hdst, hsep⟩ := hw
      cases hrs : readLoc s src with
      | none => first | exact same | exact ⟨hi, fun _ _ => trivial⟩
      | some sv =>
        cases hrd : readLoc s dst with
        | none => first | exact same | exact ⟨hi, fun _ _ => trivial⟩
        | some dv =>
          simp only []
          obtain ⟨sfit, slt⟩ := src_facts hi rs src hsrc sv hrs
          have hsep' := hsep; simp only [hrs, hrd] at hsep'
          obtain ⟨hdisj, _⟩ := hsep'
          cases dst with
          | root b =>
            have hb : b = rd := hdst
            subst hb
            simp only [readLoc, Option.some.injEq] at hrd; subst hrd
            have pre : Pre s.dep s.h sv (s.root b) := ⟨sfit, slt, hi.lt b, hi.nodup b, hdisj⟩
            have post := copyVal_spec s.dep s.h sv (s.root b) pre
            obtain ⟨u1, _, u3⟩ := root_update_gen hi b _ _ s.ro s.dep (Nat.le_refl _) (le_bump _) post.repl
            exact ⟨u1, fun c hc' => u3 c (by simpa [touched] using hc')⟩
          | slot o i =>
            have ho : ownsList s.dep s.h (s.root rd) o := hdst
            have ow := owned_of hi rd o ho
            simp only [readLoc, Option.map_eq_some_iff] at hrd
            obtain ⟨a, ha, rfl⟩ := hrd
            have hm := List.mem_of_getElem? ha
            have hsubl : (reachV s.dep s.h a.val).Sublist (reachL s.dep s.h (s.h.wl o).live) :=
              sublist_flatMap_of_mem (fun kv => reachV s.dep s.h kv.val) hm
            have pre : Pre s.dep s.h sv a.val :=
              ⟨sfit, slt, fun x hx => ow.clt x (hsubl.subset hx), ow.nodup.sublist hsubl, hdisj⟩
            have post := copyVal_spec s.dep s.h sv a.val pre
            have hwlo : (copyVal s.dep s.h sv a.val).1.wl o = s.h.wl o :=
              (post.frame o ow.lt (fun hm' => ow.notin (hsubl.subset hm'))).2
            have hc := hrepl_set s.dep s.h (copyVal s.dep s.h sv a.val).1 o i a.key a (copyVal s.dep s.h sv a.val).2
              (s.h.wl o).tail ow ha post.repl
            obtain ⟨u1, u2⟩ := viaNested rd o _ ho hc
            simp only [writeLoc, hwlo, ha, Option.map_some, Option.getD_some]
            exact ⟨u1, fun c hc' => u2 c (by simpa [touched] using hc')⟩

/-- `Slice.MoveAndAppendTo`, header level: the destination gets its old elements followed by the
source's; the source keeps neither elements nor a backing array (capacity 0), so refilling it can
never write into the array the destination now owns -/
theorem move_append_hdr (s : St) (rs o1 rd o2 c : Nat) (hro : (s.ro rs || s.ro rd) = false) (h12 : o1 ≠ o2) :
    ((step s (.moveAppend rs o1 rd o2 c)).1.h.wl o2).live = (s.h.wl o2).live ++ (s.h.wl o1).live ∧
    (step s (.moveAppend rs o1 rd o2 c)).1.h.wl o1 = {} ∧ ((step s (.moveAppend rs o1 rd o2 c)).1.h.wl o1).cap = 0 ∧
    (∀ x, x ≠ o1 → x ≠ o2 → (step s (.moveAppend rs o1 rd o2 c)).1.h.wl x = s.h.wl x) ∧
    (step s (.moveAppend rs o1 rd o2 c)).1.h.wb = s.h.wb := by
  have h21 : o2 ≠ o1 := fun e => h12 e.symm
  simp only [step, hro, Bool.false_eq_true, ↓reduceIte]
  refine ⟨?_, by simp [upd_same], by simp [upd_same, Hdr.cap], fun x h1 h2 => by simp [upd_other _ _ _ _ h1, upd_other _ _ _ _ h2], by first | rfl | trivial⟩
  simp only [upd_other _ _ _ _ h21, upd_same]
  by_cases hc : (s.h.wl o2).cap = 0
  · have : (s.h.wl o2).live = [] := by
      simp only [Hdr.cap] at hc
      exact List.eq_nil_of_length_eq_zero (by omega)
    simp [hc, this]
  · simp only [hc, ↓reduceIte]
    split <;> rfl

/-- `Value.CopyTo` into a slot of a nested container: afterwards the slot reads exactly as the source read before -/
theorem copy_slot_abs {s : St} (hi : Inv s) (rs : Nat) (src : Loc) (rd o i : Nat)
    (hw : WfOp s (.copyVal rs src rd (.slot o i))) (hro : s.ro rd = false) (sv : V) (hrs : readLoc s src = some sv)
    (hin : i < (s.h.wl o).live.length) :
    ∃ v', readLoc (step s (.copyVal rs src rd (.slot o i))).1 (.slot o i) = some v' ∧
      absV (step s (.copyVal rs src rd (.slot o i))).1.dep (step s (.copyVal rs src rd (.slot o i))).1.h v' = absV s.dep s.h sv := by
  obtain ⟨hsrc, hdst, hsep⟩ := hw
  have ho : ownsList s.dep s.h (s.root rd) o := hdst
  have ow := owned_of hi rd o ho
  have ha : (s.h.wl o).live[i]? = some (s.h.wl o).live[i] := List.getElem?_eq_getElem hin
  have hrd : readLoc s (.slot o i) = some (s.h.wl o).live[i].val := by simp [readLoc, ha]
  obtain ⟨sfit, slt⟩ := src_facts hi rs src hsrc sv hrs
  have hsep' := hsep; simp only [hrs, hrd] at hsep'
  obtain ⟨hdisj, _⟩ := hsep'
  have hm := List.mem_of_getElem? ha
  have hsubl : (reachV s.dep s.h (s.h.wl o).live[i].val).Sublist (reachL s.dep s.h (s.h.wl o).live) :=
    sublist_flatMap_of_mem (fun kv => reachV s.dep s.h kv.val) hm
  have pre : Pre s.dep s.h sv (s.h.wl o).live[i].val :=
    ⟨sfit, slt, fun x hx => ow.clt x (hsubl.subset hx), ow.nodup.sublist hsubl, hdisj⟩
  have post := copyVal_spec s.dep s.h sv _ pre
  have hwlo : (copyVal s.dep s.h sv (s.h.wl o).live[i].val).1.wl o = s.h.wl o :=
    (post.frame o ow.lt (fun hm' => ow.notin (hsubl.subset hm'))).2
  refine ⟨(copyVal s.dep s.h sv (s.h.wl o).live[i].val).2, ?_, ?_⟩
  · simp only [step, hro, Bool.false_eq_true, ↓reduceIte, hrs, hrd, writeLoc, hwlo, ha, Option.map_some, Option.getD_some]
    simp [readLoc, upd_same, hin]
  · simp only [step, hro, Bool.false_eq_true, ↓reduceIte, hrs, hrd, writeLoc, hwlo, ha, Option.map_some, Option.getD_some]
    -- the copied value does not reach `o`: writing the parent's header back does not disturb it
    have hne : ∀ x ∈ reachV s.dep (copyVal s.dep s.h sv (s.h.wl o).live[i].val).1 (copyVal s.dep s.h sv (s.h.wl o).live[i].val).2, x ≠ o := by
      intro x hx e; subst e
      rcases (post.foot x hx).1 with h1 | h1
      · exact ow.notin (hsubl.subset h1)
      · have := ow.lt; omega
    have ag : Agree (copyVal s.dep s.h sv (s.h.wl o).live[i].val).1
        { (copyVal s.dep s.h sv (s.h.wl o).live[i].val).1 with
          wl := upd (copyVal s.dep s.h sv (s.h.wl o).live[i].val).1.wl o
            { live := (s.h.wl o).live.set i ⟨(s.h.wl o).live[i].key, (copyVal s.dep s.h sv (s.h.wl o).live[i].val).2⟩, tail := (s.h.wl o).tail } }
        (reachV s.dep (copyVal s.dep s.h sv (s.h.wl o).live[i].val).1 (copyVal s.dep s.h sv (s.h.wl o).live[i].val).2) :=
      fun x hx => ⟨rfl, upd_other _ _ _ _ (hne x hx)⟩
    rw [abs_fits_mono (le_bump _) _ _ (fits_congr _ _ _ _ ag post.fit), abs_congr _ _ _ _ ag]
    exact post.abs_eq

/-- an operation that rewrites only the header of container `o` (and allocates): every old child of `o` reads the same afterwards -/
theorem kept_children_same {s : St} (hi : Inv s) (r o : Nat) (ho : ownsList s.dep s.h (s.root r) o) (h' : Heap)
    (hframe : ∀ x, x ≠ o → x < s.h.next → h'.wb x = s.h.wb x ∧ h'.wl x = s.h.wl x) :
    ∀ kv ∈ (s.h.wl o).live, absV (bump s.dep) h' kv.val = absV s.dep s.h kv.val := by
  intro kv hkv
  have ow := owned_of hi r o ho
  have ag : Agree s.h h' (reachV s.dep s.h kv.val) := fun x hx => by
    have hx' : x ∈ reachL s.dep s.h (s.h.wl o).live := mem_flatMap_of_mem hkv hx
    exact hframe x (fun e => ow.notin (e ▸ hx')) (ow.clt x hx')
  rw [abs_fits_mono (le_bump _) h' _ (fits_congr _ _ _ _ ag (ow.fit kv hkv))]
  exact abs_congr _ _ _ _ ag

end OtelVerif.C07.N
