import OtelVerif.Model.C07NestRaw
import OtelVerif.Lemmas.C07NestOps
/-!
# C07 part C' lemmas: `FromRaw` with nested raw input builds a value made of NEW wrappers only that reads exactly as the raw input
-/
namespace OtelVerif.C07.N
open OtelVerif.C07 (upd keep)

/-- contract of `Value.FromRaw` (heap level, any heap whatsoever): nothing allocated before is written; at every fuel that covers the
raw input's depth the result fits, its footprint is duplicate-free and consists of NEW wrappers only, and it reads as the raw input -/
structure RawPost (h : Heap) (r : Raw) (res : Heap × V) : Prop where
  next_le : h.next ≤ res.1.next
  frame : ∀ x, x < h.next → res.1.wb x = h.wb x ∧ res.1.wl x = h.wl x
  good : ∀ D, depth r ≤ D → fits D res.1 res.2 ∧ (reachV D res.1 res.2).Nodup ∧
    (∀ o ∈ reachV D res.1 res.2, h.next ≤ o ∧ o < res.1.next) ∧ absV D res.1 res.2 = absRaw r

structure RawLPost (h : Heap) (l : RawL) (res : Heap × List KV) : Prop where
  next_le : h.next ≤ res.1.next
  frame : ∀ x, x < h.next → res.1.wb x = h.wb x ∧ res.1.wl x = h.wl x
  len : res.2.length = lenL l
  good : ∀ D, depthL l ≤ D → (∀ kv ∈ res.2, fits D res.1 kv.val) ∧ (reachL D res.1 res.2).Nodup ∧
    (∀ o ∈ reachL D res.1 res.2, h.next ≤ o ∧ o < res.1.next) ∧
    res.2.flatMap (fun kv => Tok.key kv.key :: absV D res.1 kv.val) = absRawL l

mutual
theorem fromRaw_spec : ∀ (r : Raw) (h : Heap), RawPost h r (fromRaw h r)
  | .nil, h => by
    refine ⟨Nat.le_refl _, fun _ _ => ⟨rfl, rfl⟩, fun D _ => ?_⟩
    simp only [fromRaw, absRaw]
    exact ⟨fits_nil D h, by simp [reachV_nil], by simp [reachV_nil], absV_nil D h⟩
  | .scalar k v, h => by
    refine ⟨Nat.le_refl _, fun _ _ => ⟨rfl, rfl⟩, fun D _ => ?_⟩
    simp only [fromRaw, absRaw]
    exact ⟨fits_scalar D h k v, by simp [reachV_scalar], by simp [reachV_scalar], absV_scalar D h k v⟩
  | .bytes bs, h => by
    refine ⟨Nat.le_succ _, fun x hx => ⟨upd_other _ _ _ _ (by omega), rfl⟩, fun D _ => ?_⟩
    simp only [fromRaw, absRaw]
    refine ⟨fits_bytes D _ _, by simp [reachV_bytes], ?_, by simp [absV_bytes, upd_same]⟩
    intro o ho
    simp only [reachV_bytes, List.mem_singleton] at ho
    subst ho; exact ⟨Nat.le_refl _, Nat.lt_succ_self _⟩
  | .list km kids, h => by
    have ih := fromRawL_spec kids { h with wl := upd h.wl h.next {}, next := h.next + 1 }
    simp only [fromRaw]
    refine ⟨?_, ?_, ?_⟩
    · have := ih.next_le; simp only at this ⊢; omega
    · intro x hx
      have hx' : x < h.next + 1 := by omega
      obtain ⟨f1, f2⟩ := ih.frame x hx'
      have hne : x ≠ h.next := by omega
      exact ⟨f1, by simp only [upd_other _ _ _ _ hne]; rw [f2]; exact upd_other _ _ _ _ hne⟩
    · intro D hD
      simp only [depth] at hD
      obtain ⟨D', rfl⟩ : ∃ D', D = D' + 1 := ⟨D - 1, by omega⟩
      obtain ⟨g1, g2, g3, g4⟩ := ih.good D' (by omega)
      have hne : ∀ o ∈ reachL D' (fromRawL { h with wl := upd h.wl h.next {}, next := h.next + 1 } kids).1
          ({ live := (fromRawL { h with wl := upd h.wl h.next {}, next := h.next + 1 } kids).2, tail := [] } : Hdr).live, o ≠ h.next := by
        intro o ho
        have := (g3 o ho).1
        simp only at this
        omega
      obtain ⟨w1, w2, w3⟩ := writeback D' (fromRawL { h with wl := upd h.wl h.next {}, next := h.next + 1 } kids).1 h.next
        { live := (fromRawL { h with wl := upd h.wl h.next {}, next := h.next + 1 } kids).2, tail := [] } km hne
      refine ⟨w3 g1, ?_, ?_, ?_⟩
      · rw [w1]
        refine List.nodup_cons.mpr ⟨fun hm => ?_, g2⟩
        exact hne _ hm rfl
      · intro o ho
        rw [w1] at ho
        rcases List.mem_cons.mp ho with rfl | ho
        · have := ih.next_le; simp only at this ⊢; exact ⟨Nat.le_refl _, by omega⟩
        · obtain ⟨a, b⟩ := g3 o ho
          simp only at a b ⊢
          exact ⟨by omega, b⟩
      · rw [w2]
        simp only [absRaw, ih.len, g4]
theorem fromRawL_spec : ∀ (l : RawL) (h : Heap), RawLPost h l (fromRawL h l)
  | .nil, h => by
    refine ⟨Nat.le_refl _, fun _ _ => ⟨rfl, rfl⟩, rfl, fun D _ => ?_⟩
    simp [fromRawL, reachL, absRawL]
  | .cons k r rest, h => by
    have A := fromRaw_spec r h
    have B := fromRawL_spec rest (fromRaw h r).1
    simp only [fromRawL]
    refine ⟨Nat.le_trans A.next_le B.next_le, ?_, by simp [lenL, B.len], ?_⟩
    · intro x hx
      obtain ⟨a1, a2⟩ := A.frame x hx
      obtain ⟨b1, b2⟩ := B.frame x (Nat.lt_of_lt_of_le hx A.next_le)
      exact ⟨b1.trans a1, b2.trans a2⟩
    · intro D hD
      simp only [depthL] at hD
      obtain ⟨a1, a2, a3, a4⟩ := A.good D (by omega)
      obtain ⟨b1, b2, b3, b4⟩ := B.good D (by omega)
      -- the first element, built in `(fromRaw h r).1`, is not disturbed by the rest of the loop
      have ag : Agree (fromRaw h r).1 (fromRawL (fromRaw h r).1 rest).1 (reachV D (fromRaw h r).1 (fromRaw h r).2) :=
        fun o ho => B.frame o (a3 o ho).2
      have er := reach_congr D _ _ _ ag
      have ea := abs_congr D _ _ _ ag
      refine ⟨?_, ?_, ?_, ?_⟩
      · intro kv hkv
        rcases List.mem_cons.mp hkv with rfl | hkv
        · exact fits_congr D _ _ _ ag a1
        · exact b1 kv hkv
      · rw [reachL_cons]
        simp only [er]
        refine List.nodup_append.mpr ⟨a2, b2, ?_⟩
        intro x hx y hy hxy
        subst hxy
        have := (a3 x hx).2
        have := (b3 x hy).1
        omega
      · intro o ho
        rw [reachL_cons] at ho
        simp only [er] at ho
        rcases List.mem_append.mp ho with ho | ho
        · obtain ⟨x1, x2⟩ := a3 o ho
          exact ⟨x1, Nat.lt_of_lt_of_le x2 B.next_le⟩
        · obtain ⟨x1, x2⟩ := b3 o ho
          exact ⟨Nat.le_trans A.next_le x1, x2⟩
      · simp only [List.flatMap_cons, absRawL, ea, a4, b4, List.cons_append]
end


/-! ## program level: `Map.FromRaw` / `Slice.FromRaw` on a container at ANY depth

`Value.FromRaw(iv)` at a position is, as in the code, `Set*` / `SetEmptyBytes().FromRaw` / `SetEmptyMap()` / `SetEmptySlice()`
(= `setRoot` / `setSlot` of the nested model) followed, for a map or slice input, by `Map.FromRaw` / `Slice.FromRaw` on the NEW container:
so one more operation suffices. -/

def touchedR : OpR → List Nat
  | .base op => touched op
  | .fromRawList r _ _ => [r]

def WfOpR (s : St) : OpR → Prop
  | .base op => WfOp s op
  | .fromRawList r o _ => ownsList s.dep s.h (s.root r) o

instance (s : St) (op : OpR) : Decidable (WfOpR s op) := by
  cases op <;> simp only [WfOpR] <;> infer_instance

theorem owns_succ : ∀ (d : Nat) (h : Heap) (v : V) (o : Nat), ownsList d h v o → ownsList (d + 1) h v o := by
  intro d
  induction d with
  | zero => intro h v o ho; cases v <;> simp [ownsList] at ho
  | succ d ih =>
    intro h v o ho
    cases v with
    | list km i =>
      simp only [ownsList] at ho ⊢
      rcases ho with e | ⟨kv, hkv, hk⟩
      · exact Or.inl e
      · exact Or.inr ⟨kv, hkv, ih h kv.val o hk⟩
    | nil => simp [ownsList] at ho
    | scalar a b => simp [ownsList] at ho
    | bytes i => simp [ownsList] at ho

theorem owns_mono {d e : Nat} (hde : d ≤ e) (h : Heap) (v : V) (o : Nat) (ho : ownsList d h v o) : ownsList e h v o := by
  induction hde with
  | refl => exact ho
  | step _ ih => exact owns_succ _ h v o ih

/-- the ghost depth bound may be raised at will -/
theorem inv_raise {s : St} (hi : Inv s) (E : Nat) (hE : s.dep ≤ E) :
    Inv { s with dep := E } ∧ ∀ c, absRoot { s with dep := E } c = absRoot s c := by
  refine ⟨inv_of_gen E s.dep hE (Nat.lt_of_lt_of_le hi.pos hE) s.h s.root s.ro hi.fit hi.lt hi.nodup hi.disj, fun c => ?_⟩
  exact abs_fits_mono hE s.h _ (hi.fit c)

/-- `Map.FromRaw` / `Slice.FromRaw` on a container of the forest: the forest invariant is kept, every root the container is not
below reads as before, the container's header is a NEW array of exactly `len` slots (capacity = length) whose entries read as the raw input -/
theorem fromRawList_full {s : St} (hi : Inv s) (r o : Nat) (kids : RawL) (ho : ownsList s.dep s.h (s.root r) o) (hro : s.ro r = false) :
    Inv (stepR s (.fromRawList r o kids)).1 ∧
    (∀ c, c ≠ r → absRoot (stepR s (.fromRawList r o kids)).1 c = absRoot s c) ∧
    ((stepR s (.fromRawList r o kids)).1.h.wl o).tail = [] ∧ ((stepR s (.fromRawList r o kids)).1.h.wl o).live.length = lenL kids ∧
    ((stepR s (.fromRawList r o kids)).1.h.wl o).live.flatMap
        (fun kv => Tok.key kv.key :: absV (max s.dep (depthL kids)) (stepR s (.fromRawList r o kids)).1.h kv.val) = absRawL kids ∧
    (∀ kv ∈ ((stepR s (.fromRawList r o kids)).1.h.wl o).live, fits (max s.dep (depthL kids)) (stepR s (.fromRawList r o kids)).1.h kv.val) := by
  obtain ⟨hi1, habs1⟩ := inv_raise hi (max s.dep (depthL kids)) (Nat.le_max_left _ _)
  have E : ∃ E, E = max s.dep (depthL kids) := ⟨_, rfl⟩
  obtain ⟨E, hE⟩ := E
  have ho1 : ownsList E s.h (s.root r) o := owns_mono (by omega) s.h _ o ho
  have P := fromRawL_spec kids s.h
  obtain ⟨g1, g2, g3, g4⟩ := P.good E (by omega)
  have ow : Owned E s.h o := by
    have := owned_of (s := { s with dep := max s.dep (depthL kids) }) hi1 r o (by rw [← hE]; exact ho1)
    rw [← hE] at this; exact this
  have hne : ∀ x ∈ reachL E (fromRawL s.h kids).1 (fromRawL s.h kids).2, x ≠ o := by
    intro x hx e; subst e
    have := (g3 x hx).1; have := ow.lt; omega
  have hc : HRepl E E s.h o (fromRawHdr s.h o kids) := by
    apply hrepl_of_children E s.h (fromRawL s.h kids).1 o { live := (fromRawL s.h kids).2, tail := [] } ow.lt ow.notin
      ⟨P.next_le, fun x hx _ => P.frame x hx⟩ g1 g2
    intro x hx
    exact ⟨Or.inr (g3 x hx).1, (g3 x hx).2⟩
  have nu := nested_update (s := { s with dep := max s.dep (depthL kids) }) hi1 r o (fromRawHdr s.h o kids) s.ro
    (by rw [← hE]; exact ho1) (by rw [← hE]; exact hc)
  simp only [stepR, hro, Bool.false_eq_true, ↓reduceIte]
  refine ⟨nu.1, fun c hc' => (nu.2 c hc').trans (habs1 c), by simp [fromRawHdr, upd_same], by simp [fromRawHdr, upd_same, P.len], ?_, by rw [← hE]; exact hc.fit⟩
  simp only [fromRawHdr, upd_same]
  rw [← g4, hE]
  apply flatMap_congr'
  intro kv hkv
  congr 1
  have ag : Agree (fromRawL s.h kids).1 { (fromRawL s.h kids).1 with wl := upd (fromRawL s.h kids).1.wl o { live := (fromRawL s.h kids).2, tail := [] } }
      (reachV E (fromRawL s.h kids).1 kv.val) :=
    fun x hx => ⟨rfl, upd_other _ _ _ _ (hne x (mem_flatMap_of_mem hkv hx))⟩
  rw [← hE]
  exact abs_congr E _ _ _ ag

theorem fromRawList_spec {s : St} (hi : Inv s) (r o : Nat) (kids : RawL) (ho : ownsList s.dep s.h (s.root r) o) (hro : s.ro r = false) :
    Inv (stepR s (.fromRawList r o kids)).1 ∧
    (∀ c, c ≠ r → absRoot (stepR s (.fromRawList r o kids)).1 c = absRoot s c) ∧
    ((stepR s (.fromRawList r o kids)).1.h.wl o).tail = [] ∧ ((stepR s (.fromRawList r o kids)).1.h.wl o).live.length = lenL kids ∧
    ((stepR s (.fromRawList r o kids)).1.h.wl o).live.flatMap
        (fun kv => Tok.key kv.key :: absV (max s.dep (depthL kids)) (stepR s (.fromRawList r o kids)).1.h kv.val) = absRawL kids := by
  obtain ⟨a, b, c, d, e, _⟩ := fromRawList_full hi r o kids ho hro
  exact ⟨a, b, c, d, e⟩

/-- `Value.FromRaw` of a map / slice input on a ROOT value, as the code does it: `SetEmptyMap()` / `SetEmptySlice()`, then
`Map.FromRaw` / `Slice.FromRaw` on the container just made -/
def fromRawRoot (s : St) (r : Nat) (km : Bool) (kids : RawL) : St :=
  (stepR (step s (.setRoot r (.list km))).1 (.fromRawList r s.h.next kids)).1

/-- end to end: afterwards the root reads EXACTLY as the raw input, the forest invariant holds (so it shares nothing with any other
value), every other root reads as before -/
theorem fromRawRoot_reads {s : St} (hi : Inv s) (r : Nat) (km : Bool) (kids : RawL) (hro : s.ro r = false) :
    Inv (fromRawRoot s r km kids) ∧ absRoot (fromRawRoot s r km kids) r = absRaw (.list km kids) ∧
    ∀ c, c ≠ r → absRoot (fromRawRoot s r km kids) c = absRoot s c := by
  obtain ⟨i1, f1⟩ := step_all_spec hi (.setRoot r (.list km)) trivial
  have e1 : (step s (.setRoot r (.list km))).1 =
      { h := { s.h with wl := upd s.h.wl s.h.next {}, next := s.h.next + 1 }, root := upd s.root r (.list km s.h.next), ro := s.ro, dep := bump s.dep } := by
    simp [step, hro, mkNew]
  generalize hs1 : (step s (.setRoot r (.list km))).1 = s1 at i1 f1 e1
  have hroot : s1.root r = .list km s.h.next := by rw [e1]; simp [upd_same]
  have hdep : s1.dep = (2 * s.dep + 1) + 1 := by rw [e1]; simp [bump]
  have hro1 : s1.ro r = false := by rw [e1]; exact hro
  have ho : ownsList s1.dep s1.h (s1.root r) s.h.next := by rw [hroot, hdep]; exact Or.inl rfl
  obtain ⟨i2, f2, _, hlen, hread, hfit⟩ := fromRawList_full i1 r s.h.next kids ho hro1
  have e2 : (stepR s1 (.fromRawList r s.h.next kids)).1.root = s1.root ∧
      (stepR s1 (.fromRawList r s.h.next kids)).1.dep = bump (max s1.dep (depthL kids)) := by
    simp [stepR, hro1]
  unfold fromRawRoot
  rw [hs1]
  refine ⟨i2, ?_, fun c hc => (f2 c hc).trans (f1 c (by simpa [touched] using hc))⟩
  generalize hs2 : (stepR s1 (.fromRawList r s.h.next kids)).1 = s2 at i2 hlen hread hfit e2
  show absV s2.dep s2.h (s2.root r) = absRaw (.list km kids)
  rw [e2.1, hroot, e2.2]
  have hb : bump (max s1.dep (depthL kids)) = (2 * max s1.dep (depthL kids) + 1) + 1 := by simp [bump]
  rw [hb]
  simp only [absV, absRaw, hlen]
  congr 1
  rw [← hread]
  apply flatMap_congr'
  intro kv hkv
  congr 1
  exact abs_fits_mono (by omega) s2.h _ (hfit kv hkv)

theorem stepR_spec {s : St} (hi : Inv s) (op : OpR) (hw : WfOpR s op) :
    Inv (stepR s op).1 ∧ ∀ c, c ∉ touchedR op → absRoot (stepR s op).1 c = absRoot s c := by
  cases op with
  | base op => exact step_all_spec hi op hw
  | fromRawList r o kids =>
    by_cases hro : s.ro r = true
    · simp only [stepR, hro, ↓reduceIte]; first | exact ⟨hi, fun _ _ => rfl⟩ | exact ⟨hi, fun _ _ => trivial⟩
    · have hro' : s.ro r = false := by simpa using hro
      obtain ⟨a, b, _⟩ := fromRawList_spec hi r o kids hw hro'
      exact ⟨a, fun c hc => b c (by simpa [touchedR] using hc)⟩

def WfProgR : St → List OpR → Prop
  | _, [] => True
  | s, op :: ops => WfOpR s op ∧ WfProgR (stepR s op).1 ops

instance : ∀ (s : St) (prog : List OpR), Decidable (WfProgR s prog)
  | _, [] => isTrue trivial
  | s, op :: ops => by
    have := instDecidableWfProgR (stepR s op).1 ops
    simp only [WfProgR]; infer_instance

end OtelVerif.C07.N
