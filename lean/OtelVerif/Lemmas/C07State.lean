import OtelVerif.Model.C07State
/-!
# C07 part F lemmas: state propagation along access paths, outcome of calls, for ANY method table that passes `methOk`
-/
namespace OtelVerif.C07.S
open OtelVerif.Gen.PdataState

theorem childOk_who {m : Meth} (h : childOk m = true) {c : Child} (hc : c ∈ m.children) :
    c.who = .recv ∨ (c.who = .param ∧ m.role = .copy) := by
  simp only [childOk, List.all_eq_true] at h
  have := h c hc
  simp only [Bool.or_eq_true, Bool.and_eq_true, beq_iff_eq] at this
  exact this

/-- along an accessor path every wrapper carries the cell of the wrapper the path started from -/
theorem follow_cell (cs : Cells) (tbl : List Meth) (hg : ∀ m ∈ tbl, childOk m = true) :
    ∀ (steps : List Step) (w : W), Valid tbl w.ty steps → NoCopy steps → (follow cs w steps).cell = w.cell := by
  intro steps
  induction steps with
  | nil => intro w _ _; rfl
  | cons s ss ih =>
    intro w hv hn
    obtain ⟨hm, _, hc, hv'⟩ := hv
    obtain ⟨hr, hn'⟩ := hn
    have hw : s.c.who = .recv := by
      rcases childOk_who (hg _ hm) hc with h | ⟨_, h⟩
      · exact h
      · exact absurd h hr
    simp only [follow]
    have := ih ⟨s.c.typ, cellOf cs w.cell s.param s.c.who⟩ hv' hn'
    rw [this, hw]
    rfl

/-- the type reached by a valid path is the type of its last child (the table is consulted, not the cells) -/
def endTy : Nat → List Step → Nat
  | t, [] => t
  | _, s :: ss => endTy s.c.typ ss

theorem follow_ty (cs : Cells) : ∀ (steps : List Step) (w : W), (follow cs w steps).ty = endTy w.ty steps := by
  intro steps
  induction steps with
  | nil => intro w; rfl
  | cons s ss ih => intro w; simp only [follow, endTy]; exact ih _

/-- in general (also through `CopyTo`): a constructed wrapper never gets a fresh or foreign state -/
theorem child_cell_mem (cs : Cells) (m : Meth) (hg : childOk m = true) (c : Child) (hc : c ∈ m.children) (recv param : Nat) :
    cellOf cs recv param c.who = recv ∨ cellOf cs recv param c.who = param := by
  rcases childOk_who hg hc with h | ⟨h, _⟩ <;> simp [h, cellOf]

theorem guarded_asserts {m : Meth} (hok : assertsOk m = true) (hg : m.cls = .guarded) :
    (m.role = .copy → m.asserts = [.param]) ∧ (m.role = .move → m.asserts = [.recv, .param]) ∧
    (m.role = .other → m.asserts = [.recv]) ∧ m.later = false := by
  simp only [assertsOk, hg] at hok
  cases hr : m.role <;> simp [hr] at hok <;> simp [hok]

/-- a guarded mutator called with a read-only cell in the role its assertions check panics at an assertion statement that is
preceded by assertion statements only (so before any write) -/
theorem guarded_panics (cs : Cells) (m : Meth) (hok : assertsOk m = true) (hg : m.cls = .guarded) (recv param : Nat) :
    (m.role ≠ .copy → cs.ro recv = true → call cs m recv param = .panicked 0) ∧
    (m.role = .copy → cs.ro param = true → call cs m recv param = .panicked 0) ∧
    (m.role = .move → cs.ro recv = false → cs.ro param = true → call cs m recv param = .panicked 1) := by
  obtain ⟨hc, hm, ho, _⟩ := guarded_asserts hok hg
  refine ⟨fun hne hro => ?_, fun he hro => ?_, fun he hr hp => ?_⟩
  · cases hr : m.role with
    | copy => exact absurd hr hne
    | move => simp [call, hm hr, runAsserts, cellOf, hro]
    | other => simp [call, ho hr, runAsserts, cellOf, hro]
  · simp [call, hc he, runAsserts, cellOf, hro]
  · simp [call, hm he, runAsserts, cellOf, hr, hp]

/-- …and runs when every cell it checks is mutable; in particular `CopyTo` FROM a read-only source into a mutable destination -/
theorem guarded_runs (cs : Cells) (m : Meth) (hok : assertsOk m = true) (hg : m.cls = .guarded) (recv param : Nat) :
    (m.role = .copy → cs.ro param = false → call cs m recv param = .ran) ∧
    (m.role = .move → cs.ro recv = false → cs.ro param = false → call cs m recv param = .ran) ∧
    (m.role = .other → cs.ro recv = false → call cs m recv param = .ran) := by
  obtain ⟨hc, hm, ho, _⟩ := guarded_asserts hok hg
  refine ⟨fun he hp => ?_, fun he hr hp => ?_, fun he hr => ?_⟩
  · simp [call, hc he, runAsserts, cellOf, hp]
  · simp [call, hm he, runAsserts, cellOf, hr, hp]
  · simp [call, ho he, runAsserts, cellOf, hr]

/-- a reader asserts nothing, anywhere, and writes nothing: it runs whatever the cells hold -/
theorem reader_runs (cs : Cells) (m : Meth) (hok : assertsOk m = true) (hr : m.cls = .reader) (recv param : Nat) :
    call cs m recv param = .ran ∧ m.later = false ∧ m.writes = false := by
  simp only [assertsOk, hr, Bool.and_eq_true, beq_iff_eq, Bool.not_eq_true'] at hok
  obtain ⟨⟨ha, hl⟩, hw⟩ := hok
  exact ⟨by simp [call, ha, runAsserts], hl, hw⟩


/-- a delegating `CopyTo` (`Logs.CopyTo` …) whose destination is read-only panics in the first statement of the child's `CopyTo`
(nothing was written before: the delegating body has no other statement); into a mutable destination it runs -/
theorem callD_delegating (tbl : List Meth) (payloads : List Nat) (cs : Cells) (m : Meth) (hd : m.cls = .delegating)
    (hok : delegOk tbl payloads m = true) (recv param : Nat) :
    (cs.ro param = true → callD tbl cs m recv param = .panicked 0) ∧ (cs.ro param = false → callD tbl cs m recv param = .ran) := by
  simp only [delegOk, hd, bne_self_eq_false, Bool.false_or, Bool.and_eq_true] at hok
  obtain ⟨_, hany⟩ := hok
  cases hf : m.children.find? (fun c => c.who == .recv &&
      tbl.any (fun m' => m'.typ == c.typ && m'.role == .copy && m'.cls == .guarded && m'.asserts == [.param])) with
  | none =>
    rw [List.find?_eq_none] at hf
    rw [List.any_eq_true] at hany
    obtain ⟨c, hc, hp⟩ := hany
    exact absurd hp (hf c hc)
  | some c =>
    have hp := List.find?_some hf
    simp only [Bool.and_eq_true, beq_iff_eq] at hp
    obtain ⟨hw, hany'⟩ := hp
    cases hf' : tbl.find? (fun m' => m'.typ == c.typ && m'.role == .copy && m'.cls == .guarded && m'.asserts == [.param]) with
    | none =>
      rw [List.find?_eq_none] at hf'
      rw [List.any_eq_true] at hany'
      obtain ⟨m', hm', hq⟩ := hany'
      exact absurd hq (hf' m' hm')
    | some m' =>
      have hq := List.find?_some hf'
      simp only [Bool.and_eq_true, beq_iff_eq] at hq
      have ha : m'.asserts = [.param] := hq.2
      simp only [callD, hd, hf, hf', hw, cellOf]
      exact ⟨fun hro => by simp [call, ha, runAsserts, cellOf, hro], fun hro => by simp [call, ha, runAsserts, cellOf, hro]⟩

theorem callD_other (tbl : List Meth) (cs : Cells) (m : Meth) (hd : m.cls ≠ .delegating) (recv param : Nat) :
    callD tbl cs m recv param = call cs m recv param := by
  cases hc : m.cls <;> simp [callD, hc] at hd ⊢

theorem markRO_ro (cs : Cells) (w : W) : (markRO cs w).ro w.cell = true := by simp [markRO]

theorem markRO_other (cs : Cells) (w : W) (c : Nat) (h : c ≠ w.cell) : (markRO cs w).ro c = cs.ro c := by simp [markRO, h]

theorem newRoot_mutable (cs : Cells) (ty : Nat) : (newRoot cs ty).1.ro (newRoot cs ty).2.cell = false := by simp [newRoot]

theorem newRoot_keeps (cs : Cells) (ty c : Nat) (h : c < cs.next) : (newRoot cs ty).1.ro c = cs.ro c := by
  have : c ≠ cs.next := by omega
  simp [newRoot, this]


/-! ## the regenerated table -/

set_option maxRecDepth 200000 in
/-- decided over all methods of all wrapper types of the regenerated table -/
theorem table_decided :
    chunks.all (fun ch => ch.all (fun m => methOk m && delegOk meths payloads m && noPayloadChild payloads m)) = true := by decide

theorem table_ok {m : Meth} (hm : m ∈ meths) :
    methOk m = true ∧ delegOk meths payloads m = true ∧ noPayloadChild payloads m = true := by
  have h := table_decided
  simp only [meths, List.mem_flatten] at hm
  obtain ⟨ch, hch, hm⟩ := hm
  have := List.all_eq_true.mp (List.all_eq_true.mp h ch hch) m hm
  simp only [Bool.and_eq_true] at this
  exact ⟨this.1.1, this.1.2, this.2⟩


/-- build the path that calls the named methods in turn, taking the first child wrapper each constructs -/
def pathOf (tbl : List Meth) : Nat → List String → Option (List Step)
  | _, [] => some []
  | t, n :: ns =>
    match tbl.find? (fun m => m.typ == t && m.name == n) with
    | some m =>
      match m.children with
      | c :: _ => (pathOf tbl c.typ ns).map (fun ss => ⟨m, c, 0⟩ :: ss)
      | [] => none
    | none => none

theorem pathOf_valid (tbl : List Meth) : ∀ (ns : List String) (t : Nat) (ss : List Step), pathOf tbl t ns = some ss → Valid tbl t ss := by
  intro ns
  induction ns with
  | nil => intro t ss h; simp only [pathOf, Option.some.injEq] at h; subst h; trivial
  | cons n ns ih =>
    intro t ss h
    simp only [pathOf] at h
    cases hf : tbl.find? (fun m => m.typ == t && m.name == n) with
    | none => simp [hf] at h
    | some m =>
      simp only [hf] at h
      cases hc : m.children with
      | nil => simp [hc] at h
      | cons c cs =>
        simp only [hc, Option.map_eq_some_iff] at h
        obtain ⟨ss', hs', rfl⟩ := h
        have hp := List.find?_some hf
        simp only [Bool.and_eq_true, beq_iff_eq] at hp
        exact ⟨List.mem_of_find?_eq_some hf, hp.1, by simp [hc], ih _ _ hs'⟩

def tyOf (n : String) : Nat := types.idxOf n

/-- Logs → ResourceLogs() → At → ScopeLogs() → At → LogRecords() → At → Attributes() → Get → Map() → Get → Slice() → At → Map(): 13 accessor steps -/
def demoPath : Option (List Step) :=
  pathOf meths (tyOf "plog.Logs") ["Logs.ResourceLogs", "ResourceLogsSlice.At", "ResourceLogs.ScopeLogs", "ScopeLogsSlice.At",
    "ScopeLogs.LogRecords", "LogRecordSlice.At", "LogRecord.Attributes", "Map.Get", "Value.Map", "Map.Get", "Value.Slice", "Slice.At", "Value.Map"]


end OtelVerif.C07.S
