import OtelVerif.Model.C08Conf
/-! helper lemmas for C08 (core Lean only) -/
namespace OtelVerif.C08
open OtelVerif.Wire OtelVerif.Proto

/-! ## size -/

theorem zigzag64_sext32 (n : Nat) : zigzag64 (sext32 n) = zigzag32 n := by
  simp only [zigzag64, sext32, zigzag32]
  split <;> split <;> omega

theorem encScalar_length (ty : Ty) (n : Nat) : (encScalar ty n).length = scalarSize ty n := by
  cases ty <;> simp [encScalar, scalarSize, varint_length, le_length, zigzag64_sext32]

theorem packedBody_length (ty : Ty) (v : Val) : (packedBody ty v).length = packedSize ty v := by
  induction v with
  | cons h t _ iht =>
    cases h <;> simp [packedBody, packedSize, encScalar_length, iht]
  | _ => simp [packedBody, packedSize]

theorem lenPrefixed_length (p : Bytes) : (lenPrefixed p).length = sov p.length + p.length := by
  simp [lenPrefixed, varint_length]

theorem sov_zero : sov 0 = 1 := by rw [sov]; simp

theorem leaf_length (ty : Ty) (v : Val) : (leaf ty v).length = leafSize ty v := by
  cases v <;> simp only [leaf, leafSize] <;> split <;> simp [encScalar_length, lenPrefixed_length, sov_zero]

theorem tag_length (n w : Nat) : (tag n w).length = sov (n * 8 + w) := by simp [tag, varint_length]

theorem sz_eq_length (S : Schema) (m : Mode) (v : Val) : sz S m v = (enc S m v).length := by
  fun_induction enc S m v <;> simp_all [sz, tag_length, lenPrefixed_length, leaf_length, packedBody_length]

/-! ## chains -/

def app : Val → Val → Val
  | .cons h t, v => .cons h (app t v)
  | _, v => v

def proper : Val → Bool
  | .nil => true
  | .cons _ t => proper t
  | _ => false

theorem set_get_self (v : Val) (i : Nat) : Val.set v i (Val.get v i) = v := by
  induction v generalizing i with
  | cons h t _ iht => cases i <;> simp [Val.set, Val.get, iht]
  | _ => cases i <;> simp [Val.set]

theorem set_set (v : Val) (i : Nat) (x y : Val) : Val.set (Val.set v i x) i y = Val.set v i y := by
  induction v generalizing i with
  | cons h t _ iht => cases i <;> simp [Val.set, iht]
  | _ => cases i <;> simp [Val.set]

theorem get_ofList_append (l1 : List Val) (d : Val) (l2 : List Val) :
    Val.get (Val.ofList (l1 ++ d :: l2)) l1.length = d := by
  induction l1 with
  | nil => simp [Val.ofList, Val.get]
  | cons a l ih => simp [Val.ofList, Val.get, ih]

theorem set_ofList_append (l1 : List Val) (d x : Val) (l2 : List Val) :
    Val.set (Val.ofList (l1 ++ d :: l2)) l1.length x = Val.ofList (l1 ++ x :: l2) := by
  induction l1 with
  | nil => simp [Val.ofList, Val.set]
  | cons a l ih => simp [Val.ofList, Val.set, ih]

theorem get_set_ofList (l1 : List Val) (d x : Val) (l2 : List Val) :
    Val.get (Val.set (Val.ofList (l1 ++ d :: l2)) l1.length x) l1.length = x := by
  rw [set_ofList_append, get_ofList_append]

theorem snoc_eq_app (c x : Val) : Val.snoc c x = app c (.cons x .nil) := by
  induction c with
  | cons h t _ iht => simp [Val.snoc, app, iht]
  | _ => simp [Val.snoc, app]

theorem app_assoc (a b c : Val) : app (app a b) c = app a (app b c) := by
  induction a with
  | cons h t _ iht => simp [app, iht]
  | _ => simp [app]

theorem app_nil (a : Val) (h : proper a = true) : app a .nil = a := by
  induction a with
  | cons x t _ iht => simp [app, proper] at *; exact iht h
  | nil => rfl
  | _ => simp [proper] at h

theorem ofList_toList (v : Val) (h : proper v = true) : Val.ofList (Val.toList v) = v := by
  induction v with
  | cons x t _ iht => simp [Val.toList, Val.ofList, proper] at *; exact iht h
  | nil => rfl
  | _ => simp [proper] at h

/-! ## scalars -/

theorem varint_small (b : Nat) (h : b < 128) : varint b = [b] := by rw [varint]; simp [h]

theorem sext32_lt (n : Nat) : sext32 n < 2 ^ 64 := by
  simp only [sext32]; split <;> omega

theorem zigzag32_lt (n : Nat) : zigzag32 n < 2 ^ 64 := by
  simp only [zigzag32]; split <;> omega

theorem decScalar_encScalar (ty : Ty) (n : Nat) (rest : Bytes) (hs : isScalar ty = true) (hn : scalarOk ty n = true) :
    decScalar ty (encScalar ty n ++ rest) = some (n, rest) := by
  cases ty <;> simp [isScalar] at hs <;> simp [scalarOk] at hn <;> simp only [decScalar, wireType, encScalar]
  case u64 => simp [decVarint_varint n hn, fromVarint]
  case i64 => simp [decVarint_varint n hn, fromVarint]
  case u32 =>
    have : n < 2 ^ 64 := by omega
    simp [decVarint_varint n this, fromVarint]; omega
  case i32 =>
    rw [decVarint_varint _ (sext32_lt n)]
    have : sext32 n % 2 ^ 32 = n := by simp only [sext32]; split <;> omega
    simp [fromVarint, this]
  case enum e =>
    rw [decVarint_varint _ (sext32_lt n)]
    have : sext32 n % 2 ^ 32 = n := by simp only [sext32]; split <;> omega
    simp [fromVarint, this]
  case bool =>
    have h1 : (if n = 0 then 0 else 1) < 128 := by split <;> omega
    have h2 : (if n = 0 then 0 else 1) < 2 ^ 64 := by split <;> omega
    rw [← varint_small _ h1, decVarint_varint _ h2]; simp [fromVarint]; split <;> omega
  case s32 =>
    rw [decVarint_varint _ (zigzag32_lt n)]
    have : unzigzag32 (zigzag32 n) = n := by simp only [zigzag32, unzigzag32]; split <;> split <;> omega
    simp [fromVarint, this]
  case fixed64 => exact unle_le 8 n rest (by simpa using hn)
  case sfixed64 => exact unle_le 8 n rest (by simpa using hn)
  case double => exact unle_le 8 n rest (by simpa using hn)
  case fixed32 => exact unle_le 4 n rest (by simpa using hn)

/-! ## protobuf round trip -/

theorem decVarint_nil : decVarint [] = none := by simp [decVarint, decVarintAux]

theorem decMsg_nil (S : Schema) (D : List Val) (m : Nat) (acc : Val) : decMsg S D m acc [] = some acc := by
  rw [decMsg]; simp

theorem decMsg_unfold_leaf (S : Schema) (D : List Val) (m : Nat) (acc : Val) (bs : Bytes) (key : Nat) (r : Bytes)
    (hit : Hit) (nv : Val) (r' : Bytes)
    (hdec : decVarint bs = some (key, r))
    (hwt4 : key % 8 ≠ 4) (hfn : ¬ (key / 8 % 2 ^ 32 = 0 ∨ key / 8 % 2 ^ 32 ≥ 2 ^ 31))
    (hfind : findSlot (S.slots m) 0 (key / 8 % 2 ^ 32) = some hit)
    (hty : ∀ sub, hit.f.ty ≠ .msg sub)
    (hleaf : decLeaf hit.f hit.alt (key % 8) (Val.get acc hit.idx) r = some (nv, r'))
    (hlen : r'.length < bs.length) :
    decMsg S D m acc bs = decMsg S D m (Val.set acc hit.idx nv) r' := by
  have hne : bs.isEmpty = false := by
    cases bs with
    | nil => simp [decVarint_nil] at hdec
    | cons _ _ => rfl
  rw [decMsg]
  simp only [hne, Bool.false_eq_true, if_false, hdec, hwt4, hfn, hfind]
  cases hty' : hit.f.ty <;> first | (exact absurd hty' (hty _)) | (simp only [hleaf, hlen, dite_true])

theorem decMsg_unfold_msg (S : Schema) (D : List Val) (m : Nat) (acc : Val) (bs : Bytes) (key : Nat) (r : Bytes)
    (hit : Hit) (sub : Nat) (p r' : Bytes) (x : Val)
    (hdec : decVarint bs = some (key, r))
    (hwt : key % 8 = 2) (hfn : ¬ (key / 8 % 2 ^ 32 = 0 ∨ key / 8 % 2 ^ 32 ≥ 2 ^ 31))
    (hfind : findSlot (S.slots m) 0 (key / 8 % 2 ^ 32) = some hit)
    (hty : hit.f.ty = .msg sub)
    (hld : lenDelim r = some (p, r'))
    (hsub : decMsg S D sub (if hit.alt then D.getD sub .nil else if hit.f.card = .req then Val.get acc hit.idx else D.getD sub .nil) p = some x) :
    decMsg S D m acc bs = decMsg S D m (Val.set acc hit.idx
      (if hit.alt then Val.cons (.num hit.f.num) (.cons x .nil)
       else if hit.f.card = .req then x else Val.snoc (Val.get acc hit.idx) x)) r' := by
  have hne : bs.isEmpty = false := by
    cases bs with
    | nil => simp [decVarint_nil] at hdec
    | cons _ _ => rfl
  have h1 := decVarint_length hdec
  have h2 := lenDelim_length hld
  have hlen : p.length < bs.length ∧ r'.length < bs.length := by omega
  rw [decMsg]
  simp only [hne, Bool.false_eq_true, if_false, hdec, hwt, hfn, hfind, hty, hld]
  simp only [hlen, and_self, dite_true, hsub]
  simp

/-- what one wire entry of field `f` does to the slot value `cur` -/
def upd (f : Field) (alt : Bool) (cur v : Val) : Val :=
  if alt then Val.cons (.num f.num) (.cons v .nil) else if f.card = .rep then Val.snoc cur v else v

def InRange (acc : Val) (i : Nat) : Prop := ∀ x, Val.get (Val.set acc i x) i = x

theorem InRange_set {acc : Val} {i : Nat} (h : InRange acc i) (y : Val) : InRange (Val.set acc i y) i := by
  intro x; rw [set_set]; exact h x

theorem InRange_ofList (l1 : List Val) (d : Val) (l2 : List Val) : InRange (Val.ofList (l1 ++ d :: l2)) l1.length := by
  intro x; exact get_set_ofList l1 d x l2

theorem proper_snoc (c x : Val) : proper (Val.snoc c x) = true := by
  induction c with
  | cons h t _ iht => simp [Val.snoc, proper, iht]
  | _ => simp [Val.snoc, proper]

/-- leaf entry: `decLeaf` on the encoding of a conforming non-packed leaf -/
theorem decLeaf_leaf (f : Field) (alt : Bool) (cur v : Val) (tail : Bytes)
    (hty : ∀ sub, f.ty ≠ .msg sub) (hnp : alt = true ∨ f.card ≠ .packed)
    (hok : leafOk f.ty v = true) (hlen : (leaf f.ty v).length < 2 ^ 63) :
    decLeaf f alt (wireType f.ty) cur (leaf f.ty v ++ tail) = some (upd f alt cur v, tail) := by
  have hpk : ¬ (f.card = .packed ∧ (!alt) = true) := by
    rcases hnp with h | h
    · simp [h]
    · simp [h]
  cases hty' : f.ty with
  | msg sub => exact absurd hty' (hty sub)
  | string =>
    cases v <;> simp [hty', leafOk, scalarOk] at hok
    rename_i b
    rw [hty'] at hlen
    have hb : b.length < 2 ^ 63 := by simp [leaf, isScalar, lenPrefixed_length] at hlen; omega
    simp [decLeaf, hty', wireType, leaf, isScalar, lenDelim_lenPrefixed b tail hb, upd]
  | bytes =>
    cases v <;> simp [hty', leafOk, scalarOk] at hok
    rename_i b
    rw [hty'] at hlen
    have hb : b.length < 2 ^ 63 := by simp [leaf, isScalar, lenPrefixed_length] at hlen; omega
    simp [decLeaf, hty', wireType, leaf, isScalar, lenDelim_lenPrefixed b tail hb, upd]
  | id k =>
    cases v <;> simp [hty', leafOk, scalarOk] at hok
    rename_i b
    rw [hty'] at hlen
    have hb : b.length < 2 ^ 63 := by simp [leaf, isScalar, lenPrefixed_length] at hlen; omega
    simp only [decLeaf, hty', wireType, leaf, isScalar, Bool.false_eq_true, if_false, ne_eq, not_true_eq_false]
    rw [lenDelim_lenPrefixed b tail hb]
    rcases hok with h | ⟨h1, h2⟩
    · subst h; simp [upd]
    · have : b.length ≠ 0 := by
        intro h0; have : b = [] := List.length_eq_zero_iff.mp h0; subst this; simp [allZero] at h2
      have hk0 : k ≠ 0 := by omega
      simp [h1, h2, upd, hk0]
  | u64 | i64 | u32 | i32 | bool | s32 | fixed64 | sfixed64 | double | fixed32 | enum _ =>
    cases v with
    | num n =>
      have hok' : scalarOk f.ty n = true := by rw [← hok, hty']; rfl
      rw [hty'] at hok'
      simp only [decLeaf, hty', hpk, if_false, leaf, isScalar, if_true, ne_eq, not_true_eq_false]
      rw [decScalar_encScalar _ n tail (by simp [isScalar]) hok']
      simp [upd]
    | _ => simp [hty', leafOk] at hok


theorem encScalar_ne_nil (ty : Ty) (n : Nat) (hs : isScalar ty = true) : 0 < (encScalar ty n).length := by
  rw [encScalar_length]
  cases ty <;> simp [isScalar] at hs <;> simp [scalarSize, sov_pos]

theorem decPackedLoop_body (ty : Ty) (hs : isScalar ty = true) : ∀ (v cur : Val) (fuel : Nat) (tail : Bytes),
    packedOk ty v = true → proper cur = true → (packedBody ty v).length < fuel →
    decPackedLoop ty fuel (packedBody ty v).length cur (packedBody ty v ++ tail) = some (app cur v, tail) := by
  intro v
  induction v with
  | nil =>
    intro cur fuel tail _ hp hf
    cases fuel with
    | zero => simp at hf
    | succ fuel => simp [packedBody, decPackedLoop, app_nil cur hp]
  | cons h t _ iht =>
    intro cur fuel tail hok hp hf
    cases h with
    | num n =>
      simp only [packedOk, Bool.and_eq_true] at hok
      cases fuel with
      | zero => simp at hf
      | succ fuel =>
        have hpos := encScalar_ne_nil ty n hs
        simp only [packedBody, List.length_append] at hf ⊢
        have hb : ¬ ((encScalar ty n).length + (packedBody ty t).length = 0) := by omega
        simp only [decPackedLoop, hb, if_false, List.append_assoc]
        rw [decScalar_encScalar ty n _ hs hok.1]
        simp only [List.length_append]
        have : (encScalar ty n).length + (packedBody ty t).length -
            ((encScalar ty n).length + ((packedBody ty t).length + tail.length) - ((packedBody ty t).length + tail.length))
            = (packedBody ty t).length := by omega
        rw [this, iht _ fuel tail hok.2 (proper_snoc _ _) (by omega), snoc_eq_app, app_assoc]
        simp [app]
    | _ => simp [packedOk] at hok
  | _ => intro cur fuel tail hok; simp [packedOk] at hok

def SlotAt (all : List Slot) (i : Nat) : Slot → Prop
  | .one f => fieldOk false f = true ∧ findSlot all 0 f.num = some ⟨i, f, false⟩
  | .oneof _ alts => ∀ a, a ∈ alts → fieldOk true a = true ∧ findSlot all 0 a.num = some ⟨i, a, true⟩ ∧ findAlt alts a.num = some a

theorem slotsOk_at (all : List Slot) : ∀ (pre' : List Slot) (i : Nat) (s : Slot) (post : List Slot),
    slotsOkFrom all (pre' ++ s :: post) i = true → SlotAt all (i + pre'.length) s := by
  intro pre'
  induction pre' with
  | nil =>
    intro i s post h
    cases s with
    | one f => simp [slotsOkFrom] at h; simp [SlotAt, h.1.1, h.1.2]
    | oneof g alts =>
      simp only [List.nil_append, slotsOkFrom, Bool.and_eq_true, List.all_eq_true] at h
      intro a ha
      have := h.1 a ha
      simp at this
      simp [this.1.1, this.1.2, this.2]
  | cons s' pre' ih =>
    intro i s post h
    have h' : slotsOkFrom all (pre' ++ s :: post) (i + 1) = true := by
      cases s' with
      | one f => simp [slotsOkFrom] at h; exact h.2
      | oneof g alts => simp only [List.cons_append, slotsOkFrom, Bool.and_eq_true] at h; exact h.2
    have := ih (i + 1) s post h'
    simp only [List.length_cons]
    rw [show i + (pre'.length + 1) = i + 1 + pre'.length by omega]
    exact this


theorem conf_slots_proper (S : Schema) (api : Bool) : ∀ (v : Val) (ss : List Slot), conf S api (.slots ss) v = true → proper v = true := by
  intro v
  induction v with
  | cons x xs _ ih =>
    intro ss h
    cases ss with
    | nil => simp [conf] at h
    | cons s ss => simp only [conf, Bool.and_eq_true] at h; simp [proper, ih ss h.2]
  | nil => intro _ _; rfl
  | _ => intro ss h; cases ss <;> simp [conf] at h

theorem conf_reps_nil (S : Schema) (f : Field) (v : Val) (hne : ∀ e rest, v = Val.cons e rest → False)
    (h : conf S false (.reps f) v = true) : v = .nil := by
  cases v with
  | cons e rest => exact (hne e rest rfl).elim
  | nil => rfl
  | _ => simp [conf] at h

theorem conf_elem_leaf (S : Schema) (f : Field) (v : Val) (hty : ∀ sub, f.ty ≠ .msg sub) :
    conf S false (.elem f) v = leafOk f.ty v := by
  rw [conf]; split
  · next sub h => exact absurd h (hty sub)
  · rfl

theorem enc_elem_leaf (S : Schema) (f : Field) (v : Val) (hty : ∀ sub, f.ty ≠ .msg sub) :
    enc S (.elem f) v = tag f.num (wireType f.ty) ++ leaf f.ty v := by
  rw [enc]; split
  · next sub h => exact absurd h (hty sub)
  · rfl

theorem wireType_lt (ty : Ty) : wireType ty < 8 ∧ wireType ty ≠ 4 := by cases ty <;> simp [wireType]

theorem tag_facts (num wt : Nat) (rest : Bytes) (h0 : 0 < num) (h1 : num < 2 ^ 28) (hw : wt < 8) :
    decVarint (tag num wt ++ rest) = some (num * 8 + wt, rest) ∧ (num * 8 + wt) % 8 = wt ∧
    (num * 8 + wt) / 8 % 2 ^ 32 = num ∧ ¬ ((num * 8 + wt) / 8 % 2 ^ 32 = 0 ∨ (num * 8 + wt) / 8 % 2 ^ 32 ≥ 2 ^ 31) := by
  refine ⟨decVarint_varint _ (by omega) rest, by omega, by omega, by omega⟩

theorem fieldOk_num {alt : Bool} {f : Field} (h : fieldOk alt f = true) : 0 < f.num ∧ f.num < 2 ^ 28 := by
  simp only [fieldOk, Bool.and_eq_true, decide_eq_true_eq] at h
  exact ⟨h.1.1, h.1.2⟩

theorem opt_zero_default (D : List Val) (f : Field) (v : Val) (hc : f.card = .opt) (hf : fieldOk false f = true)
    (hok : leafOk f.ty v = true) (hnz : (f.ty == .double && v == .num (2 ^ 63)) = false) (hz : isZero f.ty v = true) :
    v = slotDefault D (.one f) := by
  simp only [fieldOk, hc, Bool.and_eq_true] at hf
  have hf := hf.2
  simp only [slotDefault, hc]
  cases hty : f.ty <;> rw [hty] at hok hz hnz hf <;> cases v <;>
    simp_all [leafOk, scalarOk, isZero, isScalar]
  all_goals omega

theorem mem_of_findAlt {alts : List Field} {k : Nat} {a : Field} (h : findAlt alts k = some a) : a ∈ alts ∧ a.num = k := by
  simp only [findAlt] at h
  exact ⟨List.mem_of_find?_eq_some h, by have := List.find?_some h; simpa using this⟩

theorem decLeaf_packed (f : Field) (v : Val) (tail : Bytes) (hc : f.card = .packed) (hs : isScalar f.ty = true)
    (hok : packedOk f.ty v = true) (hlen : (lenPrefixed (packedBody f.ty v)).length < 2 ^ 63) :
    decLeaf f false 2 .nil (lenPrefixed (packedBody f.ty v) ++ tail) = some (v, tail) := by
  have hb : (packedBody f.ty v).length < 2 ^ 63 := by rw [lenPrefixed_length] at hlen; omega
  have hb64 : (packedBody f.ty v).length < 2 ^ 64 := by omega
  have hw : (2 = wireType f.ty) = False := by
    cases hty : f.ty <;> simp [hty, isScalar] at hs <;> simp [wireType]
  have hloop := decPackedLoop_body f.ty hs v .nil ((packedBody f.ty v).length + 1) tail hok rfl (by omega)
  cases hty : f.ty <;> simp [hty, isScalar] at hs <;>
    (simp only [decLeaf, hc, lenPrefixed, List.append_assoc, hty]
     rw [hty] at hw hloop hb hb64
     simp only [hw, if_false, Bool.not_false, and_self, if_true, decVarint_varint _ hb64,
       Nat.not_le.mpr hb, List.length_append, hloop]
     simp [app])


theorem conf_slots_cons (S : Schema) (s : Slot) (ss : List Slot) (x xs : Val) :
    conf S false (.slots (s :: ss)) (.cons x xs) = (conf S false (.slot s) x && conf S false (.slots ss) xs) := by conv => lhs; rw [conf]
theorem enc_slots_cons (S : Schema) (s : Slot) (ss : List Slot) (x xs : Val) :
    enc S (.slots (s :: ss)) (.cons x xs) = enc S (.slot s) x ++ enc S (.slots ss) xs := by conv => lhs; rw [enc]
theorem conf_reps_cons (S : Schema) (f : Field) (e rest : Val) :
    conf S false (.reps f) (.cons e rest) = (conf S false (.elem f) e && conf S false (.reps f) rest) := by conv => lhs; rw [conf]
theorem enc_reps_cons (S : Schema) (f : Field) (e rest : Val) :
    enc S (.reps f) (.cons e rest) = enc S (.elem f) e ++ enc S (.reps f) rest := by conv => lhs; rw [enc]
theorem conf_slots_nil_nil (S : Schema) : conf S false (.slots []) .nil = true := by conv => lhs; rw [conf]
theorem enc_slots_nil (S : Schema) (v : Val) : enc S (.slots []) v = [] := by rw [enc]; intro s ss x xs _ h; cases h

/-- the round-trip statement, per mode of `enc` -/
def RT (S : Schema) (D : List Val) : Mode → Val → Prop
  | .slots rem, v => ∀ (m : Nat) (pre : List Slot) (done : List Val) (tail : Bytes),
      S.slots m = pre ++ rem → done.length = pre.length → conf S false (.slots rem) v = true →
      (enc S (.slots rem) v).length < 2 ^ 63 →
      decMsg S D m (Val.ofList (done ++ rem.map (slotDefault D))) (enc S (.slots rem) v ++ tail)
        = decMsg S D m (Val.ofList (done ++ Val.toList v)) tail
  | .elem f, v => ∀ (m i : Nat) (alt : Bool) (acc : Val) (tail : Bytes),
      findSlot (S.slots m) 0 f.num = some ⟨i, f, alt⟩ → fieldOk alt f = true →
      (alt = true ∨ f.card ≠ .packed) →
      (alt = false → f.card = .req → ∀ sub, f.ty = .msg sub → Val.get acc i = D.getD sub .nil) →
      conf S false (.elem f) v = true → (enc S (.elem f) v).length < 2 ^ 63 →
      decMsg S D m acc (enc S (.elem f) v ++ tail) = decMsg S D m (Val.set acc i (upd f alt (Val.get acc i) v)) tail
  | .reps f, v => ∀ (m i : Nat) (acc : Val) (tail : Bytes),
      findSlot (S.slots m) 0 f.num = some ⟨i, f, false⟩ → fieldOk false f = true → f.card = .rep →
      InRange acc i → proper (Val.get acc i) = true →
      conf S false (.reps f) v = true → (enc S (.reps f) v).length < 2 ^ 63 →
      decMsg S D m acc (enc S (.reps f) v ++ tail) = decMsg S D m (Val.set acc i (app (Val.get acc i) v)) tail
  | .slot s, v => ∀ (m i : Nat) (acc : Val) (tail : Bytes),
      SlotAt (S.slots m) i s → InRange acc i → Val.get acc i = slotDefault D s →
      conf S false (.slot s) v = true → (enc S (.slot s) v).length < 2 ^ 63 →
      decMsg S D m acc (enc S (.slot s) v ++ tail) = decMsg S D m (Val.set acc i v) tail

theorem rt_all (S : Schema) (D : List Val)
    (hwf : ∀ m, slotsOkFrom (S.slots m) (S.slots m) 0 = true)
    (hD : ∀ sub, D.getD sub .nil = msgDefault D (S.slots sub)) :
    ∀ mode v, RT S D mode v := by
  intro mode v
  fun_induction enc S mode v
  case case1 s ss x xs ih2 ih1 =>
    intro m pre done tail hsl hlen hconf hbound
    rw [conf_slots_cons, Bool.and_eq_true] at hconf
    rw [enc_slots_cons, List.length_append] at hbound
    rw [enc_slots_cons, List.append_assoc, List.map_cons]
    have hat : SlotAt (S.slots m) pre.length s := by
      have := slotsOk_at (S.slots m) pre 0 s ss (by rw [← hsl]; exact hwf m)
      simpa using this
    have h1 := ih2 m pre.length (Val.ofList (done ++ slotDefault D s :: ss.map (slotDefault D)))
      (enc S (.slots ss) xs ++ tail) hat
      (by rw [← hlen]; exact InRange_ofList _ _ _) (by rw [← hlen]; exact get_ofList_append _ _ _) hconf.1 (by omega)
    rw [h1, ← hlen, set_ofList_append]
    have h2 := ih1 m (pre ++ [s]) (done ++ [x]) tail (by simp [hsl]) (by simp [hlen]) hconf.2 (by omega)
    simp only [List.append_assoc, List.singleton_append] at h2
    rw [h2]; simp [Val.toList]
  case case2 ss v hne =>
    intro m pre done tail hsl hlen hconf hbound
    cases ss with
    | nil =>
      cases v with
      | nil => simp [enc_slots_nil, Val.toList]
      | _ => simp [conf] at hconf
    | cons s ss =>
      cases v with
      | cons x xs => exact (hne s ss x xs rfl rfl).elim
      | _ => simp [conf] at hconf
  case case3 f v sub hty ih =>
    intro m i alt acc tail hfind hfok hnp hreq hconf hbound
    have hconf' : conf S false (.slots (S.slots sub)) v = true := by rw [conf] at hconf; simpa [hty] using hconf
    have henc : enc S (.elem f) v = tag f.num 2 ++ lenPrefixed (enc S (.slots (S.slots sub)) v) := by
      (conv => lhs; rw [enc]); simp [hty]
    rw [henc] at hbound ⊢
    have hp : (enc S (.slots (S.slots sub)) v).length < 2 ^ 63 := by
      simp only [List.length_append, lenPrefixed_length] at hbound; omega
    have hinner : decMsg S D sub (D.getD sub .nil) (enc S (.slots (S.slots sub)) v) = some v := by
      have := ih sub [] [] [] (by simp) rfl hconf' hp
      simp only [List.nil_append, List.append_nil] at this
      rw [hD sub, msgDefault, this, decMsg_nil, ofList_toList v (conf_slots_proper S false v _ hconf')]
    obtain ⟨hn0, hn1⟩ := fieldOk_num hfok
    obtain ⟨hdec, hk1, hk2, hk3⟩ := tag_facts f.num 2 (lenPrefixed (enc S (.slots (S.slots sub)) v) ++ tail) hn0 hn1 (by omega)
    rw [List.append_assoc]
    have hstart : (if alt = true then D.getD sub .nil else if f.card = .req then Val.get acc i else D.getD sub .nil)
        = D.getD sub .nil := by
      cases alt with
      | true => simp
      | false =>
        by_cases hc : f.card = .req
        · simp [hc, hreq rfl hc sub hty]
        · simp [hc]
    rw [decMsg_unfold_msg S D m acc _ (f.num * 8 + 2) _ ⟨i, f, alt⟩ sub _ tail v hdec hk1 hk3 (by rw [hk2]; exact hfind) hty
      (lenDelim_lenPrefixed _ tail hp) (by simp only []; rw [hstart]; exact hinner)]
    congr 2
    simp only [upd]
    cases alt with
    | true => simp
    | false =>
      simp only [fieldOk, hty, Bool.false_eq_true, if_false, Bool.and_eq_true] at hfok
      cases hc : f.card <;> simp [hc, isScalar] at hfok ⊢
  case case4 f v hty =>
    intro m i alt acc tail hfind hfok hnp hreq hconf hbound
    have hty' : ∀ sub, f.ty ≠ .msg sub := fun sub h => hty sub h
    rw [conf_elem_leaf S f v hty'] at hconf
    rw [enc_elem_leaf S f v hty'] at hbound ⊢
    obtain ⟨hn0, hn1⟩ := fieldOk_num hfok
    obtain ⟨hw8, hw4⟩ := wireType_lt f.ty
    obtain ⟨hdec, hk1, hk2, hk3⟩ := tag_facts f.num (wireType f.ty) (leaf f.ty v ++ tail) hn0 hn1 hw8
    rw [List.append_assoc]
    have hl : (leaf f.ty v).length < 2 ^ 63 := by simp only [List.length_append] at hbound; omega
    have hleaf := decLeaf_leaf f alt (Val.get acc i) v tail hty' hnp hconf hl
    have hpos := sov_pos (f.num * 8 + wireType f.ty)
    exact decMsg_unfold_leaf S D m acc _ (f.num * 8 + wireType f.ty) _ ⟨i, f, alt⟩ _ tail hdec (by rw [hk1]; exact hw4) hk3
      (by rw [hk2]; exact hfind) hty' (by rw [hk1]; exact hleaf) (by simp [tag_length]; omega)
  case case5 f e rest ih2 ih1 =>
    intro m i acc tail hfind hfok hcard hin hprop hconf hbound
    rw [conf_reps_cons, Bool.and_eq_true] at hconf
    rw [enc_reps_cons, List.length_append] at hbound
    rw [enc_reps_cons, List.append_assoc]
    have h1 := ih2 m i false acc (enc S (.reps f) rest ++ tail) hfind hfok (Or.inr (by simp [hcard]))
      (by intro _ h; simp [hcard] at h) hconf.1 (by omega)
    rw [h1]
    have hupd : upd f false (Val.get acc i) e = Val.snoc (Val.get acc i) e := by simp [upd, hcard]
    rw [hupd]
    have h2 := ih1 m i (Val.set acc i (Val.snoc (Val.get acc i) e)) tail hfind hfok hcard (InRange_set hin _)
      (by rw [hin]; exact proper_snoc _ _) hconf.2 (by omega)
    rw [h2, set_set, hin, snoc_eq_app, app_assoc]; simp [app]
  case case6 f v hne =>
    intro m i acc tail hfind hfok hcard hin hprop hconf hbound
    have hv := conf_reps_nil S f v hne hconf
    subst hv
    simp [enc, app_nil _ hprop, set_get_self]
  case case7 f v hc hz =>
    intro m i acc tail hat hin hget hconf hbound
    simp only [SlotAt] at hat
    rw [conf] at hconf
    simp only [hc, Bool.and_eq_true, Bool.not_eq_true'] at hconf
    have hv := opt_zero_default D f v hc hat.1 hconf.1 hconf.2 hz
    have henc : enc S (.slot (.one f)) v = [] := by (conv => lhs; rw [enc]); simp [hc, hz]
    rw [henc, hv, ← hget, set_get_self]; simp
  case case8 f v hc hz ih =>
    intro m i acc tail hat hin hget hconf hbound
    simp only [SlotAt] at hat
    have hty : ∀ sub, f.ty ≠ .msg sub := by
      intro sub h
      have := hat.1
      simp [fieldOk, hc, h] at this
    rw [conf] at hconf
    simp only [hc, Bool.and_eq_true] at hconf
    have henc : enc S (.slot (.one f)) v = enc S (.elem f) v := by (conv => lhs; rw [enc]); simp [hc, hz]
    rw [henc] at hbound ⊢
    have := ih m i false acc tail hat.2 hat.1 (Or.inr (by simp [hc])) (by intro _ h; simp [hc] at h)
      (by rw [conf_elem_leaf S f v hty]; exact hconf.1) hbound
    rw [this]; simp [upd, hc]
  case case9 f v hc ih =>
    intro m i acc tail hat hin hget hconf hbound
    simp only [SlotAt] at hat
    rw [conf] at hconf
    simp only [hc] at hconf
    have henc : enc S (.slot (.one f)) v = enc S (.elem f) v := by (conv => lhs; rw [enc]); simp [hc]
    rw [henc] at hbound ⊢
    have := ih m i false acc tail hat.2 hat.1 (Or.inr (by simp [hc]))
      (by intro _ _ sub hty; rw [hget]; simp [slotDefault, hc, hty]) hconf hbound
    rw [this]; simp [upd, hc]
  case case10 f v hc ih =>
    intro m i acc tail hat hin hget hconf hbound
    simp only [SlotAt] at hat
    rw [conf] at hconf
    simp only [hc] at hconf
    have henc : enc S (.slot (.one f)) v = enc S (.reps f) v := by (conv => lhs; rw [enc]); simp [hc]
    rw [henc] at hbound ⊢
    have hd : Val.get acc i = .nil := by rw [hget]; simp [slotDefault, hc]
    have := ih m i acc tail hat.2 hat.1 hc hin (by rw [hd]; rfl) hconf hbound
    rw [this, hd]; simp [app]
  case case11 f v hc hv =>
    intro m i acc tail hat hin hget hconf hbound
    simp only [SlotAt] at hat
    rw [conf] at hconf
    simp only [hc] at hconf
    have henc : enc S (.slot (.one f)) v = tag f.num 2 ++ lenPrefixed (packedBody f.ty v) := by (conv => lhs; rw [enc]); simp [hc, hv]
    rw [henc] at hbound ⊢
    have hs : isScalar f.ty = true := by
      have := hat.1
      simp only [fieldOk, hc, Bool.false_eq_true, if_false, Bool.and_eq_true] at this
      exact this.2
    have hty : ∀ sub, f.ty ≠ .msg sub := by intro sub h; simp [h, isScalar] at hs
    obtain ⟨hn0, hn1⟩ := fieldOk_num hat.1
    obtain ⟨hdec, hk1, hk2, hk3⟩ := tag_facts f.num 2 (lenPrefixed (packedBody f.ty v) ++ tail) hn0 hn1 (by omega)
    rw [List.append_assoc]
    have hl : (lenPrefixed (packedBody f.ty v)).length < 2 ^ 63 := by simp only [List.length_append] at hbound; omega
    have hd : Val.get acc i = .nil := by rw [hget]; simp [slotDefault, hc]
    have hleaf := decLeaf_packed f v tail hc hs hconf hl
    have hpos := sov_pos (f.num * 8 + 2)
    exact decMsg_unfold_leaf S D m acc _ (f.num * 8 + 2) _ ⟨i, f, false⟩ _ tail hdec (by omega) hk3
      (by rw [hk2]; exact hat.2) hty (by rw [hk1]; simp only []; rw [hd]; exact hleaf) (by simp [tag_length]; omega)
  case case12 f v hc hv =>
    intro m i acc tail hat hin hget hconf hbound
    rw [conf] at hconf
    simp only [hc] at hconf
    have henc : enc S (.slot (.one f)) v = [] := by (conv => lhs; rw [enc]); simp [hc, hv]
    have hvn : v = .nil := by
      cases v with
      | cons a b => simp [Val.isCons] at hv
      | nil => rfl
      | _ => simp [packedOk] at hconf
    have hd : Val.get acc i = .nil := by rw [hget]; simp [slotDefault, hc]
    rw [henc, hvn, ← hd, set_get_self]; simp
  case case13 g alts k p a hfa ih =>
    intro m i acc tail hat hin hget hconf hbound
    simp only [SlotAt] at hat
    obtain ⟨hmem, hk⟩ := mem_of_findAlt hfa
    obtain ⟨hfok, hfind, _⟩ := hat a hmem
    have hconf' : conf S false (.elem a) p = true := by rw [conf] at hconf; simpa [hfa] using hconf
    have henc : enc S (.slot (.oneof g alts)) (.cons (.num k) (.cons p .nil)) = enc S (.elem a) p := by
      (conv => lhs; rw [enc]); simp [hfa]
    rw [henc] at hbound ⊢
    have := ih m i true acc tail hfind hfok (Or.inl rfl) (by intro h; simp at h) hconf' hbound
    rw [this]; simp [upd, hk]
  case case14 g alts k p hfa =>
    intro m i acc tail hat hin hget hconf hbound
    rw [conf] at hconf; simp [hfa] at hconf
  case case15 g alts v hne =>
    intro m i acc tail hat hin hget hconf hbound
    have hvn : v = .nil := by
      cases v with
      | nil => rfl
      | cons a b =>
        cases a with
        | num k =>
          cases b with
          | cons p c =>
            cases c with
            | nil => exact (hne k p rfl).elim
            | _ => simp [conf] at hconf
          | _ => simp [conf] at hconf
        | _ => simp [conf] at hconf
      | _ => simp [conf] at hconf
    have hd : Val.get acc i = .nil := by rw [hget]; simp [slotDefault]
    have henc : enc S (.slot (.oneof g alts)) v = [] := by subst hvn; rw [enc]; exact hne
    rw [henc, hvn, ← hd, set_get_self]; simp


end OtelVerif.C08
