import OtelVerif.Lemmas.C08Json
import OtelVerif.Lemmas.C08Mig
import OtelVerif.Lemmas.C08Dec
/-! helper lemmas for C08: payloads built through the public API (`apiVal`) are JSON-representable (`jcov`) and carry no
deprecated data (`migrate` is a no-op on them); `normV` preserves both predicates. Core Lean only. -/
namespace OtelVerif.C08
open OtelVerif.Wire OtelVerif.Proto

theorem apiVal_slots_cons (S : Schema) (s : Slot) (ss : List Slot) (x xs : Val) :
    apiVal S (.slots (s :: ss)) (.cons x xs) = (apiVal S (.slot s) x && apiVal S (.slots ss) xs) := by conv => lhs; rw [apiVal]
theorem apiVal_reps_cons (S : Schema) (f : Field) (e rest : Val) :
    apiVal S (.reps f) (.cons e rest) = (apiVal S (.elem f) e && apiVal S (.reps f) rest) := by conv => lhs; rw [apiVal]
theorem apiVal_slot_one (S : Schema) (f : Field) (v : Val) :
    apiVal S (.slot (.one f)) v = ((!isDep f || !v.isCons) &&
      (match f.card with
       | .rep | .packed => apiVal S (.reps f) v
       | _ => apiVal S (.elem f) v)) := by
  conv => lhs; rw [apiVal]
  cases f with | mk num go json orig ty card => cases card <;> rfl
theorem apiVal_slot_oneof (S : Schema) (g : String) (alts : List Field) (k : Nat) (p : Val) :
    apiVal S (.slot (.oneof g alts)) (.cons (.num k) (.cons p .nil)) =
      match findAlt alts k with
      | some a => apiVal S (.elem a) p
      | none => true := by
  conv => lhs; rw [apiVal]
  cases findAlt alts k <;> rfl
theorem apiVal_elem_msg (S : Schema) (f : Field) (v : Val) (sub : Nat) (hty : f.ty = .msg sub) :
    apiVal S (.elem f) v = apiVal S (.slots (S.slots sub)) v := by
  (conv => lhs; rw [apiVal.eq_def]); simp [hty]
theorem apiVal_elem_bytes (S : Schema) (f : Field) (b : List Nat) (hty : f.ty = .bytes ∨ ∃ n, f.ty = .id n) :
    apiVal S (.elem f) (.bytes b) = bytesOk b := by
  (conv => lhs; rw [apiVal.eq_def])
  rcases hty with h | ⟨n, h⟩ <;> simp [h]

/-- side condition of `jcov_of_apiVal` per mode: the slots in hand belong to message `m` and are covered -/
def CovSide (S : Schema) (m : Nat) : Mode → Prop
  | .slots rem => ∀ s, s ∈ rem → slotCovOk S m s = true
  | .slot s => slotCovOk S m s = true
  | _ => True

/-- **API-built values are JSON-representable** when every non-deprecated field has its `case` -/
theorem jcov_of_apiVal (S : Schema) (hcov : ∀ m s, s ∈ S.slots m → slotCovOk S m s = true)
    (m : Nat) (mode : Mode) (v : Val) :
    apiVal S mode v = true → CovSide S m mode → jcov S m mode v = true := by
  fun_induction jcov S m mode v
  case case1 m s ss x xs ih2 ih1 =>
    intro ha hs
    rw [apiVal_slots_cons, Bool.and_eq_true] at ha
    rw [Bool.and_eq_true]
    exact ⟨ih2 ha.1 (hs s (by simp)), ih1 ha.2 (fun s' hs' => hs s' (by simp [hs']))⟩
  case case3 m f v sub hty ih =>
    intro ha _
    rw [apiVal_elem_msg S f v sub hty] at ha
    exact ih ha (fun s hs => hcov sub s hs)
  case case4 m f hty b =>
    intro ha _
    rw [apiVal_elem_bytes S f b (Or.inl hty)] at ha; exact ha
  case case6 m f n hty b =>
    intro ha _
    rw [apiVal_elem_bytes S f b (Or.inr ⟨n, hty⟩)] at ha; exact ha
  case case9 m f e rest ih2 ih1 =>
    intro ha _
    rw [apiVal_reps_cons, Bool.and_eq_true] at ha
    rw [Bool.and_eq_true]
    exact ⟨ih2 ha.1 trivial, ih1 ha.2 trivial⟩
  case case11 m f v ih2 ih1 =>
    intro ha hs
    rw [apiVal_slot_one, Bool.and_eq_true] at ha
    simp only [CovSide, slotCovOk, Bool.or_eq_true, Bool.and_eq_true, beq_iff_eq] at hs
    rcases hs with ⟨hd, hc⟩ | hc
    · -- deprecated list: never populated, hence omitted
      have h1 := ha.1
      simp only [hd, Bool.not_true, Bool.false_or, Bool.not_eq_true'] at h1
      simp [jsonOmit, hc, h1]
    · rw [Bool.or_eq_true, Bool.and_eq_true]
      right
      refine ⟨hc, ?_⟩
      have h2 := ha.2
      cases hcard : f.card <;> simp only [hcard] at h2 ⊢
      · exact ih1 h2 trivial
      · exact ih1 h2 trivial
      · exact ih2 h2 trivial
      · exact ih2 h2 trivial
  case case12 m g alts k p a hfa ih =>
    intro ha hs
    rw [apiVal_slot_oneof] at ha; simp only [hfa] at ha
    simp only [CovSide, slotCovOk, List.all_eq_true] at hs
    rw [Bool.and_eq_true]
    exact ⟨hs a (mem_of_findAlt hfa).1, ih ha trivial⟩
  all_goals (intro _ _; rfl)

theorem covOk_mem {S : Schema} (h : covOk S = true) (m : Nat) (s : Slot) (hs : s ∈ S.slots m) : slotCovOk S m s = true := by
  simp only [covOk, List.all_eq_true, List.mem_range, covOkAt] at h
  by_cases hm : m < S.msgs.length
  · exact h m hm s hs
  · have : S.slots m = [] := by
      simp only [Schema.slots]; rw [List.getElem?_eq_none (by omega)]; rfl
    rw [this] at hs; cases hs


theorem conf_api_get (S : Schema) : ∀ (ss : List Slot) (v : Val) (j : Nat) (s : Slot),
    conf S false (.slots ss) v = true → apiVal S (.slots ss) v = true → ss[j]? = some s →
    conf S false (.slot s) (Val.get v j) = true ∧ apiVal S (.slot s) (Val.get v j) = true := by
  intro ss
  induction ss with
  | nil => intro v j s _ _ h; simp at h
  | cons s0 ss ih =>
    intro v j s hc ha hj
    cases v with
    | cons x xs =>
      rw [conf_slots_cons, Bool.and_eq_true] at hc
      rw [apiVal_slots_cons, Bool.and_eq_true] at ha
      cases j with
      | zero => simp at hj; subst hj; exact ⟨hc.1, ha.1⟩
      | succ j => simp at hj; exact ih xs j s hc.2 ha.2 hj
    | _ => simp [conf] at hc

theorem conf_api_mem (S : Schema) (f : Field) : ∀ (l : Val) (x : Val),
    conf S false (.reps f) l = true → apiVal S (.reps f) l = true → x ∈ Val.toList l →
    conf S false (.elem f) x = true ∧ apiVal S (.elem f) x = true := by
  intro l
  induction l with
  | cons h t _ iht =>
    intro x hc ha hx
    rw [conf_reps_cons, Bool.and_eq_true] at hc
    rw [apiVal_reps_cons, Bool.and_eq_true] at ha
    simp only [Val.toList, List.mem_cons] at hx
    rcases hx with h1 | h1
    · subst h1; exact ⟨hc.1, ha.1⟩
    · exact iht x hc.2 ha.2 h1
  | _ => intro x _ _ hx; simp [Val.toList] at hx

theorem conf_reps_chainy (S : Schema) (f : Field) (x : Val) (h : conf S false (.reps f) x = true) : chainy x := by
  cases x with
  | nil => exact Or.inl rfl
  | cons a b => exact Or.inr rfl
  | _ => simp [conf] at h

theorem migrateRes_noop' (ss : List Slot) (rv : Val)
    (h : ∀ d, slotIdx ss 1000 = some d → Val.get rv d = .nil ∧ ∀ i, slotIdx ss 2 = some i → chainy (Val.get rv i)) :
    migrateRes ss rv = rv := by
  cases h1000 : slotIdx ss 1000 with
  | none => unfold migrateRes; rw [h1000]; cases slotIdx ss 2 <;> rfl
  | some d =>
    obtain ⟨hd, hi⟩ := h d h1000
    exact migrateRes_noop ss rv (fun d' hd' => by rw [h1000] at hd'; cases hd'; exact hd) hi

/-- a resource built through the API has no deprecated data: `migrateRes` leaves it alone -/
theorem migrateRes_noop_api (S : Schema) (ss : List Slot) (rv : Val) (hshape : migShapeAt ss = true)
    (hc : conf S false (.slots ss) rv = true) (ha : apiVal S (.slots ss) rv = true) : migrateRes ss rv = rv := by
  apply migrateRes_noop'
  intro d hd
  simp only [migShapeAt, hd, Bool.and_eq_true] at hshape
  obtain ⟨h1, h2⟩ := hshape
  split at h1
  · next f hsd =>
    simp only [Bool.and_eq_true, beq_iff_eq] at h1
    obtain ⟨hcd, had⟩ := conf_api_get S ss rv d _ hc ha hsd
    rw [conf_slot_one] at hcd; simp only [h1.2] at hcd
    rw [apiVal_slot_one, Bool.and_eq_true] at had
    have hnc : (Val.get rv d).isCons = false := by simpa [h1.1] using had.1
    refine ⟨?_, ?_⟩
    · rcases conf_reps_chainy S f _ hcd with hn | hcons
      · exact hn
      · rw [hcons] at hnc; cases hnc
    · intro i hi
      simp only [hi] at h2
      split at h2
      · next f2 hsi =>
        simp only [beq_iff_eq] at h2
        obtain ⟨hci, _⟩ := conf_api_get S ss rv i _ hc ha hsi
        rw [conf_slot_one] at hci; simp only [h2] at hci
        exact conf_reps_chainy S f2 _ hci
      · cases h2
  · cases h1

/-- **"no deprecated data" is derived**: a payload built through the public API is left alone by `otlp.Migrate*` -/
theorem migrate_noop_api (S : Schema) (hshape : migShapeOk S = true) (m : Nat) (v : Val)
    (hfirst : ∀ f rest, S.slots m = .one f :: rest → f.card = .rep)
    (hc : conf S false (.slots (S.slots m)) v = true) (ha : apiVal S (.slots (S.slots m)) v = true) :
    migrate S m v = v := by
  unfold migrate
  cases hs : S.slots m with
  | nil => rfl
  | cons s rest =>
    cases s with
    | oneof g alts => rfl
    | one f =>
      simp only []
      cases hty : f.ty <;> simp only []
      next r =>
        have hcard := hfirst f rest hs
        rw [hs] at hc ha
        cases v with
        | cons x xs =>
          rw [conf_slots_cons, Bool.and_eq_true] at hc
          rw [apiVal_slots_cons, Bool.and_eq_true] at ha
          have hcx := hc.1; have hax := ha.1
          rw [conf_slot_one] at hcx; simp only [hcard] at hcx
          rw [apiVal_slot_one, Bool.and_eq_true] at hax
          have hax2 := hax.2; simp only [hcard] at hax2
          have hsh : migShapeAt (S.slots r) = true := by
            simp only [migShapeOk, List.all_eq_true] at hshape
            simp only [Schema.slots]
            cases hm : S.msgs[r]? with
            | none => rfl
            | some msg => simpa using hshape msg (List.mem_of_getElem? hm)
          simp only [Val.get, Val.set]
          rw [mapChain_id]
          intro rv hrv
          obtain ⟨h1, h2⟩ := conf_api_mem S f x rv hcx hax2 hrv
          rw [conf] at h1; simp only [hty] at h1
          rw [apiVal_elem_msg S f rv r hty] at h2
          exact migrateRes_noop_api S _ rv hsh h1 h2
        | _ => simp [conf] at hc


theorem normLeaf_isCons (ty : Ty) (v : Val) : (normLeaf ty v).isCons = v.isCons := by
  cases ty <;> cases v <;> rfl

theorem isCons_normV (S : Schema) (mode : Mode) (v : Val) : (normV S mode v).isCons = v.isCons := by
  fun_induction normV S mode v <;> first | rfl | assumption | (exact normLeaf_isCons _ _) | simp_all [Val.isCons]

theorem normNaN_lt (n : Nat) (h : n < 2 ^ 64) : normNaN n < 2 ^ 64 := by
  unfold normNaN; split
  · decide
  · exact h

theorem normNaN_ne (n : Nat) (h : n ≠ 2 ^ 63) : normNaN n ≠ 2 ^ 63 := by
  unfold normNaN; split
  · decide
  · exact h

theorem leafOk_normLeaf (ty : Ty) (v : Val) (h : leafOk ty v = true) : leafOk ty (normLeaf ty v) = true := by
  cases ty <;> cases v <;> simp_all [normLeaf, leafOk, scalarOk]
  exact normNaN_lt _ h

theorem normLeaf_negzero (ty : Ty) (v : Val) (h : (ty == .double && v == .num (2 ^ 63)) = false) :
    (ty == .double && normLeaf ty v == .num (2 ^ 63)) = false := by
  cases ty <;> cases v <;> simp_all [normLeaf]
  intro hh; exact absurd hh (normNaN_ne _ h)

theorem normV_elem_leaf (S : Schema) (f : Field) (v : Val) (hty : ∀ sub, f.ty ≠ .msg sub) :
    normV S (.elem f) v = normLeaf f.ty v := by
  (conv => lhs; rw [normV]); split
  · next sub h => exact absurd h (hty sub)
  · rfl

theorem scalarOk_notMsg (ty : Ty) (n : Nat) (h : scalarOk ty n = true) : ∀ sub, ty ≠ .msg sub := by
  intro sub hh; subst hh; simp [scalarOk] at h

theorem packedOk_normV (S : Schema) (f : Field) : ∀ v, packedOk f.ty v = true →
    packedOk f.ty (normV S (.reps f) v) = true := by
  intro v
  induction v with
  | cons h t _ iht =>
    intro hp
    cases h with
    | num n =>
      simp only [packedOk, Bool.and_eq_true] at hp
      have hty := scalarOk_notMsg f.ty n hp.1
      rw [normV_reps_cons, normV_elem_leaf S f _ hty]
      have := leafOk_normLeaf f.ty (.num n) (by rw [leafOk_num]; exact hp.1)
      cases hn : normLeaf f.ty (.num n) with
      | num k => rw [hn, leafOk_num] at this; simp [packedOk, this, iht hp.2]
      | _ => cases hft : f.ty <;> simp [hft, normLeaf] at hn
    | _ => simp [packedOk] at hp
  | nil => intro _; rw [normV_nil]; rfl
  | _ => intro hp; simp [packedOk] at hp

theorem leafOk_notMsg (ty : Ty) (v : Val) (h : leafOk ty v = true) : ∀ sub, ty ≠ .msg sub := by
  intro sub hh; subst hh; cases v <;> simp [leafOk, scalarOk] at h

theorem conf_normV (S : Schema) (mode : Mode) (v : Val) :
    conf S false mode v = true → conf S false mode (normV S mode v) = true := by
  fun_induction normV S mode v
  case case1 s ss x xs ih2 ih1 =>
    intro h
    rw [conf_slots_cons, Bool.and_eq_true] at h
    rw [conf_slots_cons, Bool.and_eq_true]; exact ⟨ih2 h.1, ih1 h.2⟩
  case case3 f v sub hty ih =>
    intro h
    have h' : conf S false (.slots (S.slots sub)) v = true := by rw [conf] at h; simpa [hty] using h
    (conv => lhs; rw [conf]); simp only [hty]; exact ih h'
  case case4 f v hty =>
    intro h
    have hty' : ∀ sub, f.ty ≠ .msg sub := fun sub hh => hty sub hh
    rw [conf_elem_leaf S f v hty'] at h
    rw [conf_elem_leaf S f _ hty']; exact leafOk_normLeaf _ _ h
  case case5 f e rest ih2 ih1 =>
    intro h
    rw [conf_reps_cons, Bool.and_eq_true] at h
    rw [conf_reps_cons, Bool.and_eq_true]; exact ⟨ih2 h.1, ih1 h.2⟩
  case case7 f v hc ih =>
    intro h
    rw [conf_slot_one] at h ⊢; simp only [hc] at h ⊢; exact ih h
  case case8 f v hc ih =>
    intro h
    rw [conf_slot_one] at h ⊢; simp only [hc] at h ⊢; exact packedOk_normV S f v h
  case case9 f v hc1 hc2 ih =>
    intro h
    rw [conf_slot_one] at h ⊢
    cases hc : f.card
    · simp only [hc, Bool.and_eq_true, Bool.not_eq_true'] at h ⊢
      have hty := leafOk_notMsg f.ty v h.1
      rw [normV_elem_leaf S f v hty]
      exact ⟨leafOk_normLeaf _ _ h.1, normLeaf_negzero _ _ h.2⟩
    · simp only [hc] at h ⊢; exact ih h
    · exact (hc1 hc).elim
    · exact (hc2 hc).elim
  case case10 g alts k p a hfa ih =>
    intro h
    rw [conf_slot_oneof] at h ⊢; simp only [hfa] at h ⊢; exact ih h
  all_goals (intro h; exact h)

theorem apiVal_elem_double (S : Schema) (f : Field) (v : Val) (hty : f.ty = .double) : apiVal S (.elem f) v = true := by
  rw [apiVal.eq_def]; simp [hty]

theorem normLeaf_eq (ty : Ty) (v : Val) (h : ty ≠ .double) : normLeaf ty v = v := by
  cases ty <;> cases v <;> first | rfl | exact absurd rfl h

theorem apiVal_normV (S : Schema) (mode : Mode) (v : Val) :
    apiVal S mode v = true → apiVal S mode (normV S mode v) = true := by
  fun_induction normV S mode v
  case case1 s ss x xs ih2 ih1 =>
    intro h
    rw [apiVal_slots_cons, Bool.and_eq_true] at h
    rw [apiVal_slots_cons, Bool.and_eq_true]; exact ⟨ih2 h.1, ih1 h.2⟩
  case case3 f v sub hty ih =>
    intro h
    rw [apiVal_elem_msg S f v sub hty] at h
    rw [apiVal_elem_msg S f _ sub hty]; exact ih h
  case case4 f v hty =>
    intro h
    by_cases hd : f.ty = .double
    · exact apiVal_elem_double S f _ hd
    · rw [normLeaf_eq _ _ hd]; exact h
  case case5 f e rest ih2 ih1 =>
    intro h
    rw [apiVal_reps_cons, Bool.and_eq_true] at h
    rw [apiVal_reps_cons, Bool.and_eq_true]; exact ⟨ih2 h.1, ih1 h.2⟩
  case case7 f v hc ih =>
    intro h
    rw [apiVal_slot_one, Bool.and_eq_true] at h ⊢
    simp only [hc] at h ⊢
    exact ⟨by rw [isCons_normV]; exact h.1, ih h.2⟩
  case case8 f v hc ih =>
    intro h
    rw [apiVal_slot_one, Bool.and_eq_true] at h ⊢
    simp only [hc] at h ⊢
    exact ⟨by rw [isCons_normV]; exact h.1, ih h.2⟩
  case case9 f v hc1 hc2 ih =>
    intro h
    rw [apiVal_slot_one, Bool.and_eq_true] at h ⊢
    refine ⟨by rw [isCons_normV]; exact h.1, ?_⟩
    have h2 := h.2
    cases hc : f.card <;> simp only [hc] at h2 ⊢
    · exact ih h2
    · exact ih h2
    · exact (hc1 hc).elim
    · exact (hc2 hc).elim
  case case10 g alts k p a hfa ih =>
    intro h
    rw [apiVal_slot_oneof] at h ⊢; simp only [hfa] at h ⊢; exact ih h
  all_goals (intro h; exact h)

end OtelVerif.C08
