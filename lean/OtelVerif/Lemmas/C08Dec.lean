import OtelVerif.Lemmas.C08
/-! helper lemmas for C08: the protobuf decoder returns decoder-shaped (`confD`) values, defaults conform, `canon` maps them to
canonical values without changing the encoding. Core Lean only. -/
namespace OtelVerif.C08
open OtelVerif.Wire OtelVerif.Proto

/-! unfolding lemmas for `confD` -/
theorem confD_slots_cons (S : Schema) (s : Slot) (ss : List Slot) (x xs : Val) :
    confD S (.slots (s :: ss)) (.cons x xs) = (confD S (.slot s) x && confD S (.slots ss) xs) := by conv => lhs; rw [confD]
theorem confD_slots_nil (S : Schema) : confD S (.slots []) .nil = true := by rw [confD]
theorem confD_reps_cons (S : Schema) (f : Field) (e rest : Val) :
    confD S (.reps f) (.cons e rest) = (confD S (.elem f) e && confD S (.reps f) rest) := by conv => lhs; rw [confD]
theorem confD_reps_nil (S : Schema) (f : Field) : confD S (.reps f) .nil = true := by rw [confD]
theorem confD_slot_one (S : Schema) (f : Field) (v : Val) :
    confD S (.slot (.one f)) v =
      match f.card with
      | .opt => leafOk f.ty v
      | .req => confD S (.elem f) v
      | .rep => confD S (.reps f) v
      | .packed => packedOk f.ty v := by
  conv => lhs; rw [confD]
  cases f with | mk num go json orig ty card => cases card <;> rfl
theorem confD_slot_oneof (S : Schema) (g : String) (alts : List Field) (k : Nat) (p : Val) :
    confD S (.slot (.oneof g alts)) (.cons (.num k) (.cons p .nil)) =
      match findAlt alts k with
      | some a => confD S (.elem a) p
      | none => false := by
  conv => lhs; rw [confD]
  cases findAlt alts k <;> rfl
theorem confD_slot_oneof_nil (S : Schema) (g : String) (alts : List Field) : confD S (.slot (.oneof g alts)) .nil = true := by
  rw [confD]
theorem confD_elem_leaf (S : Schema) (f : Field) (v : Val) (hty : ∀ sub, f.ty ≠ .msg sub) :
    confD S (.elem f) v = leafOk f.ty v := by
  rw [confD]; split
  · next sub h => exact absurd h (hty sub)
  · rfl
theorem confD_elem_msg (S : Schema) (f : Field) (v : Val) (sub : Nat) (hty : f.ty = .msg sub) :
    confD S (.elem f) v = confD S (.slots (S.slots sub)) v := by
  (conv => lhs; rw [confD]); simp [hty]

theorem findSlot_spec : ∀ (ss : List Slot) (i n : Nat) (hit : Hit), findSlot ss i n = some hit →
    ∃ j, hit.idx = i + j ∧
      ((hit.alt = false ∧ ss[j]? = some (.one hit.f) ∧ hit.f.num = n) ∨
       (hit.alt = true ∧ ∃ g alts, ss[j]? = some (.oneof g alts) ∧ findAlt alts n = some hit.f)) := by
  intro ss
  induction ss with
  | nil => intro i n hit h; simp [findSlot] at h
  | cons s ss ih =>
    intro i n hit h
    cases s with
    | one f =>
      simp only [findSlot] at h
      split at h
      · next heq =>
        cases h
        exact ⟨0, rfl, Or.inl ⟨rfl, rfl, by simpa using heq⟩⟩
      · obtain ⟨j, hj, hr⟩ := ih (i + 1) n hit h
        refine ⟨j + 1, by omega, ?_⟩
        simpa using hr
    | oneof g alts =>
      simp only [findSlot] at h
      split at h
      · next a ha =>
        cases h
        exact ⟨0, rfl, Or.inr ⟨rfl, g, alts, rfl, ha⟩⟩
      · obtain ⟨j, hj, hr⟩ := ih (i + 1) n hit h
        refine ⟨j + 1, by omega, ?_⟩
        simpa using hr

theorem confD_set (S : Schema) : ∀ (ss : List Slot) (acc : Val) (j : Nat) (s : Slot) (nv : Val),
    confD S (.slots ss) acc = true → ss[j]? = some s → confD S (.slot s) nv = true →
    confD S (.slots ss) (Val.set acc j nv) = true := by
  intro ss
  induction ss with
  | nil => intro acc j s nv _ h; simp at h
  | cons s0 ss ih =>
    intro acc j s nv hc hj hn
    cases acc with
    | cons x xs =>
      rw [confD_slots_cons, Bool.and_eq_true] at hc
      cases j with
      | zero =>
        simp at hj; subst hj
        simp only [Val.set]; rw [confD_slots_cons, Bool.and_eq_true]; exact ⟨hn, hc.2⟩
      | succ j =>
        simp at hj
        simp only [Val.set]; rw [confD_slots_cons, Bool.and_eq_true]; exact ⟨hc.1, ih xs j s nv hc.2 hj hn⟩
    | _ => simp [confD] at hc

theorem confD_get (S : Schema) : ∀ (ss : List Slot) (acc : Val) (j : Nat) (s : Slot),
    confD S (.slots ss) acc = true → ss[j]? = some s → confD S (.slot s) (Val.get acc j) = true := by
  intro ss
  induction ss with
  | nil => intro acc j s _ h; simp at h
  | cons s0 ss ih =>
    intro acc j s hc hj
    cases acc with
    | cons x xs =>
      rw [confD_slots_cons, Bool.and_eq_true] at hc
      cases j with
      | zero => simp at hj; subst hj; exact hc.1
      | succ j => simp at hj; exact ih xs j s hc.2 hj
    | _ => simp [confD] at hc

theorem confD_reps_snoc (S : Schema) (f : Field) : ∀ (cur x : Val), confD S (.reps f) cur = true → confD S (.elem f) x = true →
    confD S (.reps f) (Val.snoc cur x) = true := by
  intro cur
  induction cur with
  | cons h t _ iht =>
    intro x hc hx
    rw [confD_reps_cons, Bool.and_eq_true] at hc
    simp only [Val.snoc]; rw [confD_reps_cons, Bool.and_eq_true]; exact ⟨hc.1, iht x hc.2 hx⟩
  | nil => intro x _ hx; simp only [Val.snoc]; rw [confD_reps_cons, hx, confD_reps_nil]; rfl
  | _ => intro x hc; simp [confD] at hc

theorem packedOk_snoc (ty : Ty) : ∀ (cur : Val) (n : Nat), packedOk ty cur = true → scalarOk ty n = true →
    packedOk ty (Val.snoc cur (.num n)) = true := by
  intro cur
  induction cur with
  | cons h t _ iht =>
    intro n hc hn
    cases h with
    | num k =>
      simp only [packedOk, Bool.and_eq_true] at hc
      simp only [Val.snoc, packedOk, Bool.and_eq_true]; exact ⟨hc.1, iht n hc.2 hn⟩
    | _ => simp [packedOk] at hc
  | nil => intro n _ hn; simp [Val.snoc, packedOk, hn]
  | _ => intro n hc; simp [packedOk] at hc

theorem fromVarint_ok (ty : Ty) (w : Nat) (hw : w < 2 ^ 64) (h0 : wireType ty = 0) : scalarOk ty (fromVarint ty w) = true := by
  cases ty <;> simp [wireType] at h0 <;> simp only [scalarOk, fromVarint, unzigzag32] <;> (try split) <;> (apply decide_eq_true) <;> omega

theorem decScalar_ok (ty : Ty) (r : Bytes) (v : Nat) (r' : Bytes) (hs : isScalar ty = true)
    (h : decScalar ty r = some (v, r')) : scalarOk ty v = true ∧ r'.length < r.length := by
  simp only [decScalar] at h
  split at h
  · next h0 =>
    split at h
    · next w r'' heq =>
      simp only [Option.some.injEq, Prod.mk.injEq] at h
      rw [← h.1, ← h.2]
      exact ⟨fromVarint_ok ty w (decVarint_lt heq) h0, decVarint_length heq⟩
    · cases h
  · next h1 =>
    have hl := unle_lt _ _ _ _ h
    have hn := unle_length _ _ _ _ h
    refine ⟨?_, by omega⟩
    cases ty <;> simp [wireType] at h1 <;> simp only [scalarOk] <;> (apply decide_eq_true) <;> simpa using hl
  · next h5 =>
    have hl := unle_lt _ _ _ _ h
    have hn := unle_length _ _ _ _ h
    refine ⟨?_, by omega⟩
    cases ty <;> simp [wireType] at h5 <;> simp only [scalarOk] <;> (apply decide_eq_true) <;> simpa using hl
  · cases h

theorem decPackedLoop_ok (ty : Ty) (hs : isScalar ty = true) : ∀ (fuel budget : Nat) (acc : Val) (r : Bytes) (nv : Val) (r' : Bytes),
    packedOk ty acc = true → decPackedLoop ty fuel budget acc r = some (nv, r') →
    packedOk ty nv = true ∧ r'.length ≤ r.length := by
  intro fuel
  induction fuel with
  | zero => intro b acc r nv r' _ h; simp [decPackedLoop] at h
  | succ fuel ih =>
    intro b acc r nv r' ha h
    simp only [decPackedLoop] at h
    split at h
    · cases h; exact ⟨ha, Nat.le_refl _⟩
    · split at h
      · cases h
      · next v r1 heq =>
        obtain ⟨hv, hl⟩ := decScalar_ok ty r v r1 hs heq
        obtain ⟨h1, h2⟩ := ih _ _ _ _ _ (packedOk_snoc ty acc v ha hv) h
        exact ⟨h1, by omega⟩


theorem slotsOk_get (all : List Slot) : ∀ (rem : List Slot) (i j : Nat) (s : Slot),
    slotsOkFrom all rem i = true → rem[j]? = some s →
    (∀ f, s = .one f → fieldOk false f = true) ∧ (∀ g alts a, s = .oneof g alts → a ∈ alts → fieldOk true a = true) := by
  intro rem
  induction rem with
  | nil => intro i j s _ h; simp at h
  | cons s0 rem ih =>
    intro i j s hok hj
    cases j with
    | zero =>
      simp at hj; subst hj
      cases s0 with
      | one f =>
        simp only [slotsOkFrom, Bool.and_eq_true] at hok
        exact ⟨fun f' h => (by cases h; exact hok.1.1), fun g alts a h => (by cases h)⟩
      | oneof g alts =>
        simp only [slotsOkFrom, Bool.and_eq_true, List.all_eq_true] at hok
        refine ⟨fun f h => (by cases h), fun g' alts' a h ha => ?_⟩
        cases h
        exact (hok.1 a ha).1.1
    | succ j =>
      simp at hj
      have hok' : slotsOkFrom all rem (i + 1) = true := by
        cases s0 with
        | one f => simp only [slotsOkFrom, Bool.and_eq_true] at hok; exact hok.2
        | oneof g alts => simp only [slotsOkFrom, Bool.and_eq_true] at hok; exact hok.2
      exact ih (i + 1) j s hok' hj

/-- which slot a hit belongs to -/
def SlotOf (s : Slot) (f : Field) (alt : Bool) : Prop :=
  (alt = false ∧ s = .one f) ∨ (alt = true ∧ ∃ g alts, s = .oneof g alts ∧ findAlt alts f.num = some f)

theorem confD_wrap_alt (S : Schema) (g : String) (alts : List Field) (f : Field) (x : Val)
    (hfa : findAlt alts f.num = some f) (hx : confD S (.elem f) x = true) :
    confD S (.slot (.oneof g alts)) (.cons (.num f.num) (.cons x .nil)) = true := by
  rw [confD_slot_oneof]; simp [hfa, hx]

theorem leafOk_num (ty : Ty) (n : Nat) : leafOk ty (.num n) = scalarOk ty n := by cases ty <;> rfl

theorem decLeaf_confD (S : Schema) (f : Field) (alt : Bool) (s : Slot) (wt : Nat) (cur : Val) (r : Bytes) (nv : Val) (r' : Bytes)
    (hs : SlotOf s f alt) (hf : fieldOk alt f = true) (hcur : confD S (.slot s) cur = true)
    (h : decLeaf f alt wt cur r = some (nv, r')) : confD S (.slot s) nv = true := by
  have hwrap : ∀ x, leafOk f.ty x = true → (∀ sub, f.ty ≠ .msg sub) → f.card ≠ .packed ∨ alt = true →
      confD S (.slot s) (if alt then Val.cons (.num f.num) (.cons x .nil) else if f.card = .rep then Val.snoc cur x else x) = true := by
    intro x hx hty hnp
    rcases hs with ⟨ha, hs⟩ | ⟨ha, g, alts, hs, hfa⟩
    · subst ha; subst hs
      simp only [Bool.false_eq_true, if_false]
      rw [confD_slot_one] at hcur ⊢
      cases hc : f.card <;> simp only [hc] at hcur ⊢ <;> simp only [reduceCtorEq, if_false, if_true]
      · exact hx
      · rw [confD_elem_leaf S f x hty]; exact hx
      · exact confD_reps_snoc S f cur x hcur (by rw [confD_elem_leaf S f x hty]; exact hx)
      · rcases hnp with h | h
        · exact absurd hc h
        · cases h
    · subst ha; subst hs
      simp only [if_true]
      exact confD_wrap_alt S g alts f x hfa (by rw [confD_elem_leaf S f x hty]; exact hx)
  simp only [decLeaf] at h
  cases hty : f.ty with
  | msg sub => simp [hty] at h
  | string =>
    simp only [hty] at h
    split at h
    · cases h
    · split at h
      · cases h
      · next p r1 _ =>
        simp only [Option.some.injEq, Prod.mk.injEq] at h
        rw [← h.1]
        refine hwrap (.bytes p) (by rw [hty]; rfl) (by intro sub hh; rw [hty] at hh; cases hh) ?_
        cases alt with
        | true => exact Or.inr rfl
        | false =>
          left; intro hc
          simp [fieldOk, hc, hty, isScalar] at hf
  | bytes =>
    simp only [hty] at h
    split at h
    · cases h
    · split at h
      · cases h
      · next p r1 _ =>
        simp only [Option.some.injEq, Prod.mk.injEq] at h
        rw [← h.1]
        refine hwrap (.bytes p) (by rw [hty]; rfl) (by intro sub hh; rw [hty] at hh; cases hh) ?_
        cases alt with
        | true => exact Or.inr rfl
        | false =>
          left; intro hc
          simp [fieldOk, hc, hty, isScalar] at hf
  | id k =>
    simp only [hty] at h
    have hnp : f.card ≠ .packed ∨ alt = true := by
      cases alt with
      | true => exact Or.inr rfl
      | false => left; intro hc; simp [fieldOk, hc, hty, isScalar] at hf
    have htym : ∀ sub, f.ty ≠ .msg sub := by intro sub hh; rw [hty] at hh; cases hh
    split at h
    · cases h
    · split at h
      · cases h
      · next p r1 _ =>
        split at h
        · simp only [Option.some.injEq, Prod.mk.injEq] at h
          rw [← h.1]
          exact hwrap (.bytes []) (by rw [hty]; rfl) htym hnp
        · split at h
          · cases h
          · next hne hlen =>
            simp only [Option.some.injEq, Prod.mk.injEq] at h
            rw [← h.1]
            refine hwrap _ ?_ htym hnp
            rw [hty]
            by_cases hz : allZero p = true
            · simp [hz, leafOk]
            · have hlen' : p.length = k := by simpa using hlen
              simp [hz, leafOk, hlen']
  | u64 | i64 | u32 | i32 | bool | s32 | fixed64 | sfixed64 | double | fixed32 | enum _ =>
    simp only [hty] at h
    have hsc : isScalar f.ty = true := by rw [hty]; rfl
    have htym : ∀ sub, f.ty ≠ .msg sub := by intro sub hh; rw [hty] at hh; cases hh
    split at h
    · next hpk =>
      -- packed field
      obtain ⟨hc, ha⟩ := hpk
      have ha' : alt = false := by simpa using ha
      rcases hs with ⟨_, hs⟩ | ⟨ha2, _⟩
      · subst hs
        rw [confD_slot_one] at hcur ⊢
        simp only [hc] at hcur ⊢
        split at h
        · split at h
          · cases h
          · next v r1 heq =>
            simp only [Option.some.injEq, Prod.mk.injEq] at h
            rw [← h.1, hty]
            rw [hty] at hcur
            exact packedOk_snoc _ cur v hcur (decScalar_ok _ r v r1 (by rfl) heq).1
        · split at h
          · split at h
            · cases h
            · next len r1 _ =>
              split at h
              · cases h
              · split at h
                · cases h
                · rw [hty] at hcur ⊢
                  exact (decPackedLoop_ok _ (by rfl) _ _ _ _ _ _ hcur h).1
          · cases h
      · rw [ha'] at ha2; cases ha2
    · next hnpk =>
      split at h
      · cases h
      · split at h
        · cases h
        · next v r1 heq =>
          simp only [Option.some.injEq, Prod.mk.injEq] at h
          rw [← h.1]
          refine hwrap (.num v) ?_ htym ?_
          · rw [leafOk_num, hty]; exact (decScalar_ok _ r v r1 (by rfl) heq).1
          · cases alt with
            | true => exact Or.inr rfl
            | false => left; intro hc; exact hnpk ⟨hc, rfl⟩


theorem confD_slots_map (S : Schema) (D : List Val) : ∀ (ss : List Slot),
    (∀ s, s ∈ ss → confD S (.slot s) (slotDefault D s) = true) →
    confD S (.slots ss) (Val.ofList (ss.map (slotDefault D))) = true := by
  intro ss
  induction ss with
  | nil => intro _; exact confD_slots_nil S
  | cons s ss ih =>
    intro h
    simp only [List.map_cons, Val.ofList]
    rw [confD_slots_cons, Bool.and_eq_true]
    exact ⟨h s (List.mem_cons_self), ih (fun s' hs' => h s' (List.mem_cons_of_mem _ hs'))⟩

theorem mem_reqSubs (ss : List Slot) (f : Field) (sub : Nat) (hm : Slot.one f ∈ ss) (hc : f.card = .req) (hty : f.ty = .msg sub) :
    sub ∈ reqSubs ss := by
  simp only [reqSubs, List.mem_filterMap]
  exact ⟨.one f, hm, by simp [hc, hty]⟩

/-- every default value (`&T{}` with embedded messages filled in) has the decoder-result shape -/
theorem defaults_confD (S : Schema) (D : List Val) (r : List Nat)
    (hwf : ∀ m, slotsOkFrom (S.slots m) (S.slots m) 0 = true)
    (hD : ∀ sub, D.getD sub .nil = msgDefault D (S.slots sub))
    (hr : reqRankOk S r = true) :
    ∀ (n sub : Nat), r.getD sub 0 ≤ n → confD S (.slots (S.slots sub)) (D.getD sub .nil) = true := by
  intro n
  induction n using Nat.strongRecOn with
  | _ n ih =>
    intro sub hn
    rw [hD sub, msgDefault]
    apply confD_slots_map
    intro s hs
    obtain ⟨j, hj⟩ := List.getElem?_of_mem hs
    obtain ⟨h1, _⟩ := slotsOk_get (S.slots sub) (S.slots sub) 0 j s (hwf sub) hj
    cases s with
    | oneof g alts => simp only [slotDefault]; exact confD_slot_oneof_nil S g alts
    | one f =>
      have hf := h1 f rfl
      rw [confD_slot_one]
      cases hc : f.card <;> simp only [slotDefault, hc]
      · -- opt
        cases hty : f.ty <;> simp [fieldOk, hc, hty] at hf <;> simp [isScalar, leafOk, scalarOk]
      · -- req
        cases hty : f.ty <;> simp [fieldOk, hc, hty] at hf
        · next k => rw [confD_elem_leaf S f _ (by intro sub' h; rw [hty] at h; cases h), hty]; simp [leafOk]
        · next sub' =>
          rw [confD_elem_msg S f _ sub' hty]
          -- rank decreases
          have hsub_lt : sub < S.msgs.length := by
            by_cases hlt : sub < S.msgs.length
            · exact hlt
            · have : S.slots sub = [] := by
                simp only [Schema.slots]; rw [List.getElem?_eq_none (by omega)]; rfl
              rw [this] at hs; cases hs
          simp only [reqRankOk, List.all_eq_true, List.mem_range, Bool.and_eq_true, decide_eq_true_eq] at hr
          have := hr sub hsub_lt sub' (mem_reqSubs _ f sub' hs hc hty)
          exact ih (r.getD sub' 0) (by omega) sub' (Nat.le_refl _)
      · exact confD_reps_nil S f
      · rfl


theorem slotOf_of_find (S : Schema) (m : Nat) (n : Nat) (hit : Hit)
    (hwf : slotsOkFrom (S.slots m) (S.slots m) 0 = true)
    (h : findSlot (S.slots m) 0 n = some hit) :
    ∃ s, (S.slots m)[hit.idx]? = some s ∧ SlotOf s hit.f hit.alt ∧ fieldOk hit.alt hit.f = true := by
  obtain ⟨j, hj, hr⟩ := findSlot_spec (S.slots m) 0 n hit h
  have hj' : hit.idx = j := by omega
  rcases hr with ⟨ha, hs, _⟩ | ⟨ha, g, alts, hs, hfa⟩
  · refine ⟨.one hit.f, by rw [hj']; exact hs, Or.inl ⟨ha, rfl⟩, ?_⟩
    rw [ha]; exact (slotsOk_get _ _ 0 j _ hwf hs).1 _ rfl
  · obtain ⟨hmem, hnum⟩ := mem_of_findAlt hfa
    refine ⟨.oneof g alts, by rw [hj']; exact hs, Or.inr ⟨ha, g, alts, rfl, by rw [hnum]; exact hfa⟩, ?_⟩
    rw [ha]; exact (slotsOk_get _ _ 0 j _ hwf hs).2 g alts _ rfl hmem

/-- **the decoder returns decoder-shaped values** -/
theorem decMsg_confD (S : Schema) (D : List Val)
    (hwf : ∀ m, slotsOkFrom (S.slots m) (S.slots m) 0 = true)
    (hdef : ∀ sub, confD S (.slots (S.slots sub)) (D.getD sub .nil) = true) :
    ∀ (n : Nat) (bs : Bytes), bs.length ≤ n → ∀ (m : Nat) (acc v : Val),
      confD S (.slots (S.slots m)) acc = true → decMsg S D m acc bs = some v →
      confD S (.slots (S.slots m)) v = true := by
  intro n
  induction n using Nat.strongRecOn with
  | _ n ih =>
    intro bs hn m acc v hacc h
    rw [decMsg] at h
    split at h
    · cases h; exact hacc
    · split at h
      · cases h
      · next key r hdec =>
        simp only [] at h
        split at h
        · cases h
        · split at h
          · cases h
          · split at h
            · -- unknown field
              split at h
              · cases h
              · next r' _ =>
                split at h
                · next hlt => exact ih r'.length (by omega) r' (Nat.le_refl _) m acc v hacc h
                · cases h
            · next hit hfind =>
              obtain ⟨s, hs, hso, hfok⟩ := slotOf_of_find S m _ hit (hwf m) hfind
              have hcur := confD_get S _ acc hit.idx s hacc hs
              split at h
              · next sub hty =>
                split at h
                · cases h
                · split at h
                  · cases h
                  · next p r' _ =>
                    split at h
                    · next hlt =>
                      split at h
                      · cases h
                      · next x hx =>
                        -- the nested message
                        have hstart : confD S (.slots (S.slots sub))
                            (if hit.alt = true then D.getD sub .nil
                             else if hit.f.card = .req then Val.get acc hit.idx else D.getD sub .nil) = true := by
                          cases ha : hit.alt with
                          | true => simp only [if_true]; exact hdef sub
                          | false =>
                            simp only [Bool.false_eq_true, if_false]
                            by_cases hc : hit.f.card = .req
                            · simp only [hc, if_true]
                              rcases hso with ⟨_, hs1⟩ | ⟨ha2, _⟩
                              · subst hs1
                                rw [confD_slot_one] at hcur; simp only [hc] at hcur
                                rw [confD_elem_msg S _ _ sub hty] at hcur; exact hcur
                              · rw [ha] at ha2; cases ha2
                            · simp only [hc, if_false]; exact hdef sub
                        have hxc := ih p.length (by omega) p (Nat.le_refl _) sub _ x hstart hx
                        have hnv : confD S (.slot s)
                            (if hit.alt = true then Val.cons (.num hit.f.num) (.cons x .nil)
                             else if hit.f.card = .req then x else Val.snoc (Val.get acc hit.idx) x) = true := by
                          rcases hso with ⟨ha, hs1⟩ | ⟨ha, g, alts, hs1, hfa⟩
                          · subst hs1
                            simp only [ha, Bool.false_eq_true, if_false]
                            rw [confD_slot_one] at hcur ⊢
                            rw [ha] at hfok
                            cases hc : hit.f.card <;> simp only [hc] at hcur ⊢ <;> simp only [reduceCtorEq, if_false, if_true]
                            · simp [fieldOk, hc, hty] at hfok
                            · rw [confD_elem_msg S _ _ sub hty]; exact hxc
                            · exact confD_reps_snoc S _ _ x hcur (by rw [confD_elem_msg S _ _ sub hty]; exact hxc)
                            · simp [fieldOk, hc, hty, isScalar] at hfok
                          · subst hs1
                            simp only [ha, if_true]
                            exact confD_wrap_alt S g alts _ x hfa (by rw [confD_elem_msg S _ _ sub hty]; exact hxc)
                        exact ih r'.length (by omega) r' (Nat.le_refl _) m _ v (confD_set S _ acc hit.idx s _ hacc hs hnv) h
                    · cases h
              · split at h
                · cases h
                · next nv r' hleaf =>
                  split at h
                  · next hlt =>
                    have hnv := decLeaf_confD S hit.f hit.alt s _ _ r nv r' hso hfok hcur hleaf
                    exact ih r'.length (by omega) r' (Nat.le_refl _) m _ v (confD_set S _ acc hit.idx s nv hacc hs hnv) h
                  · cases h


theorem conf_slot_one' (S : Schema) (api : Bool) (f : Field) (v : Val) :
    conf S api (.slot (.one f)) v =
      match f.card with
      | .opt => leafOk f.ty v && !(f.ty == .double && v == .num (2 ^ 63))
      | .req => conf S api (.elem f) v
      | .rep => conf S api (.reps f) v
      | .packed => packedOk f.ty v := by
  conv => lhs; rw [conf]
  cases f with | mk num go json orig ty card => cases card <;> rfl

theorem conf_slot_oneof' (S : Schema) (api : Bool) (g : String) (alts : List Field) (k : Nat) (p : Val) :
    conf S api (.slot (.oneof g alts)) (.cons (.num k) (.cons p .nil)) =
      match findAlt alts k with
      | some a => conf S api (.elem a) p
      | none => false := by
  conv => lhs; rw [conf]
  cases findAlt alts k <;> rfl

theorem canon_conf (S : Schema) (mode : Mode) (v : Val) :
    confD S mode v = true → conf S false mode (canon S mode v) = true := by
  fun_induction canon S mode v
  case case1 s ss x xs ih2 ih1 =>
    intro h
    rw [confD_slots_cons, Bool.and_eq_true] at h
    rw [conf_slots_cons, Bool.and_eq_true]; exact ⟨ih2 h.1, ih1 h.2⟩
  case case2 ss v hne =>
    intro h
    cases ss with
    | nil => cases v <;> simp [confD] at h; exact conf_slots_nil_nil S
    | cons s ss =>
      cases v with
      | cons x xs => exact (hne s ss x xs rfl rfl).elim
      | _ => simp [confD] at h
  case case3 f v sub hty ih =>
    intro h
    rw [confD_elem_msg S f v sub hty] at h
    have := ih h
    (conv => lhs; rw [conf]); simp only [hty]; exact this
  case case4 f v hty =>
    intro h
    have hty' : ∀ sub, f.ty ≠ .msg sub := fun sub hh => hty sub hh
    rw [confD_elem_leaf S f v hty'] at h
    rw [conf_elem_leaf S f v hty']; exact h
  case case5 f e rest ih2 ih1 =>
    intro h
    rw [confD_reps_cons, Bool.and_eq_true] at h
    rw [conf_reps_cons, Bool.and_eq_true]; exact ⟨ih2 h.1, ih1 h.2⟩
  case case6 f v hne =>
    intro h
    cases v with
    | cons e r => exact (hne e r rfl).elim
    | nil => rw [conf]
    | _ => simp [confD] at h
  case case7 f v hc hz =>
    intro _
    rw [conf_slot_one']; simp only [hc]
    simp only [Bool.and_eq_true, beq_iff_eq] at hz
    rw [hz.1]; decide
  case case8 f v hc hz =>
    intro h
    rw [confD_slot_one] at h; simp only [hc] at h
    rw [conf_slot_one']; simp only [hc]
    simp only [Bool.not_eq_true] at hz
    simp [h, hz]
  case case9 f v hc ih =>
    intro h
    rw [confD_slot_one] at h; simp only [hc] at h
    rw [conf_slot_one']; simp only [hc]; exact ih h
  case case10 f v hc ih =>
    intro h
    rw [confD_slot_one] at h; simp only [hc] at h
    rw [conf_slot_one']; simp only [hc]; exact ih h
  case case11 f v hc =>
    intro h
    rw [confD_slot_one] at h; simp only [hc] at h
    rw [conf_slot_one']; simp only [hc]; exact h
  case case12 g alts k p a hfa ih =>
    intro h
    rw [confD_slot_oneof] at h; simp only [hfa] at h
    rw [conf_slot_oneof']; simp only [hfa]; exact ih h
  case case13 g alts k p hfa =>
    intro h
    rw [confD_slot_oneof] at h; simp [hfa] at h
  case case14 g alts v hne =>
    intro h
    cases v with
    | nil => rw [conf]
    | cons a b =>
      cases a with
      | num k =>
        cases b with
        | cons p c =>
          cases c with
          | nil => exact (hne k p rfl).elim
          | _ => simp [confD] at h
        | _ => simp [confD] at h
      | _ => simp [confD] at h
    | _ => simp [confD] at h

theorem canon_enc (S : Schema) (mode : Mode) (v : Val) : enc S mode (canon S mode v) = enc S mode v := by
  fun_induction canon S mode v
  case case1 s ss x xs ih2 ih1 => rw [enc_slots_cons, enc_slots_cons, ih2, ih1]
  case case3 f v sub hty ih =>
    have h1 : ∀ w, enc S (.elem f) w = tag f.num 2 ++ lenPrefixed (enc S (.slots (S.slots sub)) w) := by
      intro w; (conv => lhs; rw [enc]); simp [hty]
    rw [h1, h1, ih]
  case case5 f e rest ih2 ih1 => rw [enc_reps_cons, enc_reps_cons, ih2, ih1]
  case case7 f v hc hz =>
    simp only [Bool.and_eq_true, beq_iff_eq] at hz
    have h1 : ∀ w, isZero f.ty w = true → enc S (.slot (.one f)) w = [] := by
      intro w hw; (conv => lhs; rw [enc]); simp [hc, hw]
    rw [h1 _ (by rw [hz.1]; rfl), h1 _ (by rw [hz.1, hz.2]; rfl)]
  case case9 f v hc ih =>
    have h1 : ∀ w, enc S (.slot (.one f)) w = enc S (.elem f) w := by
      intro w; (conv => lhs; rw [enc]); simp [hc]
    rw [h1, h1, ih]
  case case10 f v hc ih =>
    have h1 : ∀ w, enc S (.slot (.one f)) w = enc S (.reps f) w := by
      intro w; (conv => lhs; rw [enc]); simp [hc]
    rw [h1, h1, ih]
  case case12 g alts k p a hfa ih =>
    have h1 : ∀ w, enc S (.slot (.oneof g alts)) (.cons (.num k) (.cons w .nil)) = enc S (.elem a) w := by
      intro w; (conv => lhs; rw [enc]); simp [hfa]
    rw [h1, h1, ih]
  all_goals rfl

end OtelVerif.C08
