import OtelVerif.Lemmas.C08Root
import OtelVerif.Lemmas.C08Txt
/-! helper lemmas for C08: the JSON readers return decoder-shaped, JSON-representable values for EVERY tree (`fromJ_CJ`),
`canon`/`normV` preserve that, migration after a JSON decode is the identity: JSON fixed point. Core Lean only. -/
namespace OtelVerif.C08
open OtelVerif.Wire OtelVerif.Proto

/-! ## leaves -/

theorem parseInt_lt (T : Txt) (signed : Bool) (w : Nat) (t : List Nat) (n : Nat) (hw : 0 < w)
    (h : parseInt T signed w t = some n) : n < 2 ^ w := by
  have hp : 2 ^ w = 2 * 2 ^ (w - 1) := by
    cases w with
    | zero => omega
    | succ k => simp [Nat.pow_succ]; omega
  unfold parseInt at h
  split at h
  · split at h
    · cases h
    · split at h
      · split at h
        · cases h; exact Nat.mod_lt _ (Nat.pow_pos (by decide))
        · cases h
      · cases h
  · split at h
    · cases h
    · split at h
      · split at h
        · cases h; omega
        · cases h
      · cases h
  · split at h
    · next n' _ =>
      cases signed
      · simp only [Bool.false_eq_true, if_false] at h
        split at h
        · cases h; assumption
        · cases h
      · simp only [if_true] at h
        split at h
        · cases h; omega
        · cases h
    · cases h

theorem jiterDigits_lt (w : Nat) (hw : 4 ≤ w) : ∀ (cs : List Nat) (v n : Nat), v < 2 ^ w → jiterDigits w v cs = some n → n < 2 ^ w := by
  have h16 : 16 ≤ 2 ^ w := by
    calc 16 = 2 ^ 4 := by decide
      _ ≤ 2 ^ w := Nat.pow_le_pow_right (by decide) hw
  intro cs
  induction cs with
  | nil => intro v n hv h; simp only [jiterDigits] at h; cases h; exact hv
  | cons c cs ih =>
    intro v n hv h
    simp only [jiterDigits] at h
    split at h
    · next hc =>
      split at h
      · split at h
        · cases h
        · exact ih _ n (Nat.mod_lt _ (Nat.pow_pos (by decide))) h
      · next hsafe =>
        refine ih _ n ?_ h
        have : v ≤ (2 ^ w - 1) / 10 - 1 := by omega
        have h10 : (2 ^ w - 1) / 10 * 10 ≤ 2 ^ w - 1 := Nat.div_mul_le_self _ _
        omega
    · cases h

theorem jiterUint_lt (w : Nat) (hw : 4 ≤ w) (t : List Nat) (n : Nat) (h : jiterUint w t = some n) : n < 2 ^ w := by
  have h16 : 16 ≤ 2 ^ w := by
    calc 16 = 2 ^ 4 := by decide
      _ ≤ 2 ^ w := Nat.pow_le_pow_right (by decide) hw
  unfold jiterUint at h
  split at h
  · cases h
  · cases h; omega
  · cases h
  · split at h
    · exact jiterDigits_lt w hw _ _ n (by omega) h
    · cases h

theorem parseNum_lt (signed : Bool) (w : Nat) (t : List Nat) (n : Nat) (hw : 4 ≤ w)
    (h : parseNum signed w t = some n) : n < 2 ^ w := by
  unfold parseNum at h
  split at h
  · split at h
    · cases h
    · split at h
      · split at h
        · cases h
        · cases h; exact Nat.mod_lt _ (Nat.pow_pos (by decide))
      · cases h
  · split at h
    · next v hv =>
      split at h
      · cases h
      · cases h; exact jiterUint_lt w hw _ _ hv
    · cases h

/-- what a JSON leaf reader returns conforms and, for bytes / ids, consists of bytes -/
theorem readLeaf_ok (S : Schema) (T : Txt) (hT : TxtOut T) (he : enumsOk S = true) (ty : Ty) (j : Json) (x : Val)
    (h : readLeaf S T ty j = some x) :
    leafOk ty x = true ∧ (∀ b, x = .bytes b → (ty = .bytes ∨ ∃ k, ty = .id k) → bytesOk b = true) := by
  have hnum : ∀ (signed : Bool) (w : Nat) (t : List Nat), 0 < w → (parseInt T signed w t).map Val.num = some x →
      ∃ n, x = .num n ∧ n < 2 ^ w := by
    intro signed w t hw hh
    simp only [Option.map_eq_some_iff] at hh
    obtain ⟨n, hn, hx⟩ := hh
    exact ⟨n, hx.symm, parseInt_lt T signed w t n hw hn⟩
  have hnum2 : ∀ (signed : Bool) (w : Nat) (t : List Nat), 4 ≤ w → (parseNum signed w t).map Val.num = some x →
      ∃ n, x = .num n ∧ n < 2 ^ w := by
    intro signed w t hw hh
    simp only [Option.map_eq_some_iff] at hh
    obtain ⟨n, hn, hx⟩ := hh
    exact ⟨n, hx.symm, parseNum_lt signed w t n hw hn⟩
  cases ty <;> simp only [readLeaf] at h
  case u64 =>
    split at h <;> first | cases h | (obtain ⟨n, hx, hl⟩ := hnum _ _ _ (by decide) h; subst hx; exact ⟨by simp [leafOk, scalarOk]; exact hl, by intro b hb; cases hb⟩) | (obtain ⟨n, hx, hl⟩ := hnum2 _ _ _ (by decide) h; subst hx; exact ⟨by simp [leafOk, scalarOk]; exact hl, by intro b hb; cases hb⟩)
  case fixed64 =>
    split at h <;> first | cases h | (obtain ⟨n, hx, hl⟩ := hnum _ _ _ (by decide) h; subst hx; exact ⟨by simp [leafOk, scalarOk]; exact hl, by intro b hb; cases hb⟩) | (obtain ⟨n, hx, hl⟩ := hnum2 _ _ _ (by decide) h; subst hx; exact ⟨by simp [leafOk, scalarOk]; exact hl, by intro b hb; cases hb⟩)
  case i64 =>
    split at h <;> first | cases h | (obtain ⟨n, hx, hl⟩ := hnum _ _ _ (by decide) h; subst hx; exact ⟨by simp [leafOk, scalarOk]; exact hl, by intro b hb; cases hb⟩) | (obtain ⟨n, hx, hl⟩ := hnum2 _ _ _ (by decide) h; subst hx; exact ⟨by simp [leafOk, scalarOk]; exact hl, by intro b hb; cases hb⟩)
  case sfixed64 =>
    split at h <;> first | cases h | (obtain ⟨n, hx, hl⟩ := hnum _ _ _ (by decide) h; subst hx; exact ⟨by simp [leafOk, scalarOk]; exact hl, by intro b hb; cases hb⟩) | (obtain ⟨n, hx, hl⟩ := hnum2 _ _ _ (by decide) h; subst hx; exact ⟨by simp [leafOk, scalarOk]; exact hl, by intro b hb; cases hb⟩)
  case u32 =>
    split at h <;> first | cases h | (obtain ⟨n, hx, hl⟩ := hnum _ _ _ (by decide) h; subst hx; exact ⟨by simp [leafOk, scalarOk]; exact hl, by intro b hb; cases hb⟩) | (obtain ⟨n, hx, hl⟩ := hnum2 _ _ _ (by decide) h; subst hx; exact ⟨by simp [leafOk, scalarOk]; exact hl, by intro b hb; cases hb⟩)
  case fixed32 =>
    split at h <;> first | cases h | (obtain ⟨n, hx, hl⟩ := hnum _ _ _ (by decide) h; subst hx; exact ⟨by simp [leafOk, scalarOk]; exact hl, by intro b hb; cases hb⟩) | (obtain ⟨n, hx, hl⟩ := hnum2 _ _ _ (by decide) h; subst hx; exact ⟨by simp [leafOk, scalarOk]; exact hl, by intro b hb; cases hb⟩)
  case i32 =>
    split at h <;> first | cases h | (obtain ⟨n, hx, hl⟩ := hnum _ _ _ (by decide) h; subst hx; exact ⟨by simp [leafOk, scalarOk]; exact hl, by intro b hb; cases hb⟩) | (obtain ⟨n, hx, hl⟩ := hnum2 _ _ _ (by decide) h; subst hx; exact ⟨by simp [leafOk, scalarOk]; exact hl, by intro b hb; cases hb⟩)
  case s32 =>
    split at h <;> first | cases h | (obtain ⟨n, hx, hl⟩ := hnum _ _ _ (by decide) h; subst hx; exact ⟨by simp [leafOk, scalarOk]; exact hl, by intro b hb; cases hb⟩) | (obtain ⟨n, hx, hl⟩ := hnum2 _ _ _ (by decide) h; subst hx; exact ⟨by simp [leafOk, scalarOk]; exact hl, by intro b hb; cases hb⟩)
  case enum e =>
    split at h
    · obtain ⟨n, hx, hl⟩ := hnum2 _ _ _ (by decide) h; subst hx
      exact ⟨by simp [leafOk, scalarOk]; exact hl, by intro b hb; cases hb⟩
    · simp only [Option.map_eq_some_iff, enumByName] at h
      obtain ⟨n, hn, hx⟩ := h
      subst hx
      refine ⟨?_, by intro b hb; cases hb⟩
      split at hn
      · next en hen =>
        simp only [Option.map_eq_some_iff] at hn
        obtain ⟨p, hp, hpn⟩ := hn
        simp only [enumsOk, List.all_eq_true, decide_eq_true_eq] at he
        have := he en (List.mem_of_getElem? hen) p (List.mem_of_find?_eq_some hp)
        simp [leafOk, scalarOk]; omega
      · cases hn
    · cases h
  case bool =>
    split at h <;> first | (cases h; exact ⟨by simp [leafOk, scalarOk], by intro b hb; cases hb⟩) | cases h
  case double =>
    split at h <;> first
      | cases h
      | (simp only [Option.map_eq_some_iff] at h
         obtain ⟨n, hn, hx⟩ := h
         subst hx
         exact ⟨by simp [leafOk, scalarOk]; exact hT.fparse_lt _ _ hn, by intro b hb; cases hb⟩)
  case string =>
    split at h <;> first | (cases h; exact ⟨rfl, by intro b _ hb; rcases hb with hb | ⟨k, hb⟩ <;> cases hb⟩) | cases h
  case bytes =>
    split at h
    · simp only [Option.map_eq_some_iff] at h
      obtain ⟨b, hb, hx⟩ := h
      subst hx
      exact ⟨rfl, by intro b' hb' _; cases hb'; exact hT.unb64_bytes _ _ hb⟩
    · cases h; exact ⟨rfl, by intro b hb _; cases hb; rfl⟩
    · cases h
  case id n =>
    split at h
    · next b0 =>
      split at h
      · cases h; exact ⟨by simp [leafOk], by intro b hb _; cases hb; rfl⟩
      · split at h
        · cases h
        · next hne hlen =>
          simp only [Option.map_eq_some_iff] at h
          obtain ⟨p, hp, hx⟩ := h
          subst hx
          obtain ⟨hbo, hl⟩ := hT.unhex_bytes _ _ hp
          have hlen' : (stripQuotes b0).length = 2 * n := by simpa using hlen
          have hpn : p.length = n := by omega
          refine ⟨?_, ?_⟩
          · by_cases hz : allZero p = true
            · simp [hz, leafOk]
            · simp [hz, leafOk, hpn]
          · intro b hb _
            by_cases hz : allZero p = true
            · rw [if_pos hz] at hb; cases hb; rfl
            · rw [if_neg hz] at hb; cases hb; exact hbo
    · cases h; exact ⟨by simp [leafOk], by intro b hb _; cases hb; rfl⟩
    · cases h
  case msg sub => cases h


/-! ## `jcov` through `get` / `set` -/

theorem jcov_set (S : Schema) (m : Nat) : ∀ (ss : List Slot) (acc : Val) (j : Nat) (s : Slot) (nv : Val),
    confD S (.slots ss) acc = true → jcov S m (.slots ss) acc = true → ss[j]? = some s → jcov S m (.slot s) nv = true →
    jcov S m (.slots ss) (Val.set acc j nv) = true := by
  intro ss
  induction ss with
  | nil => intro acc j s nv _ _ h; simp at h
  | cons s0 ss ih =>
    intro acc j s nv hc hj0 hj hn
    cases acc with
    | cons x xs =>
      rw [confD_slots_cons, Bool.and_eq_true] at hc
      rw [jcov_slots_cons, Bool.and_eq_true] at hj0
      cases j with
      | zero =>
        simp at hj; subst hj
        simp only [Val.set]; rw [jcov_slots_cons, Bool.and_eq_true]; exact ⟨hn, hj0.2⟩
      | succ j =>
        simp at hj
        simp only [Val.set]; rw [jcov_slots_cons, Bool.and_eq_true]; exact ⟨hj0.1, ih xs j s nv hc.2 hj0.2 hj hn⟩
    | _ => simp [confD] at hc

theorem jcov_get (S : Schema) (m : Nat) : ∀ (ss : List Slot) (acc : Val) (j : Nat) (s : Slot),
    confD S (.slots ss) acc = true → jcov S m (.slots ss) acc = true → ss[j]? = some s →
    jcov S m (.slot s) (Val.get acc j) = true := by
  intro ss
  induction ss with
  | nil => intro acc j s _ _ h; simp at h
  | cons s0 ss ih =>
    intro acc j s hc hj0 hj
    cases acc with
    | cons x xs =>
      rw [confD_slots_cons, Bool.and_eq_true] at hc
      rw [jcov_slots_cons, Bool.and_eq_true] at hj0
      cases j with
      | zero => simp at hj; subst hj; exact hj0.1
      | succ j => simp at hj; exact ih xs j s hc.2 hj0.2 hj
    | _ => simp [confD] at hc

/-! ## `findKey` -/

def nameMatch (f : Field) (k : List Nat) : Prop := (str f.json == k || str f.orig == k) = true

theorem findKey_spec : ∀ (ss : List Slot) (i : Nat) (k : List Nat) (hit : Hit), findKey ss i k = some hit →
    ∃ j, hit.idx = i + j ∧ nameMatch hit.f k ∧
      ((hit.alt = false ∧ ss[j]? = some (.one hit.f)) ∨
       (hit.alt = true ∧ ∃ g alts, ss[j]? = some (.oneof g alts) ∧ hit.f ∈ alts)) := by
  intro ss
  induction ss with
  | nil => intro i k hit h; simp [findKey] at h
  | cons s ss ih =>
    intro i k hit h
    cases s with
    | one f =>
      simp only [findKey] at h
      split at h
      · next heq => cases h; exact ⟨0, rfl, heq, Or.inl ⟨rfl, rfl⟩⟩
      · obtain ⟨j, hj, hn, hr⟩ := ih (i + 1) k hit h
        exact ⟨j + 1, by omega, hn, by simpa using hr⟩
    | oneof g alts =>
      simp only [findKey] at h
      split at h
      · next a ha =>
        cases h
        exact ⟨0, rfl, by have := List.find?_some ha; exact this, Or.inr ⟨rfl, g, alts, rfl, List.mem_of_find?_eq_some ha⟩⟩
      · obtain ⟨j, hj, hn, hr⟩ := ih (i + 1) k hit h
        exact ⟨j + 1, by omega, hn, by simpa using hr⟩

theorem slotsOk_get_alt (all : List Slot) : ∀ (rem : List Slot) (i j : Nat) (g : String) (alts : List Field) (a : Field),
    slotsOkFrom all rem i = true → rem[j]? = some (.oneof g alts) → a ∈ alts → findAlt alts a.num = some a := by
  intro rem
  induction rem with
  | nil => intro i j g alts a _ h; simp at h
  | cons s0 rem ih =>
    intro i j g alts a hok hj ha
    cases j with
    | zero =>
      simp at hj; subst hj
      simp only [slotsOkFrom, Bool.and_eq_true, List.all_eq_true] at hok
      have := (hok.1 a ha).2
      simpa using this
    | succ j =>
      simp at hj
      have hok' : slotsOkFrom all rem (i + 1) = true := by
        cases s0 with
        | one f => simp only [slotsOkFrom, Bool.and_eq_true] at hok; exact hok.2
        | oneof g' alts' => simp only [slotsOkFrom, Bool.and_eq_true] at hok; exact hok.2
      exact ih (i + 1) j g alts a hok' hj ha

/-- a key that passed the reader's `case` test and selected field `f` means the reader covers `f` -/
theorem covered_of_key (S : Schema) (hsym : keysSymOk S = true) (m : Nat) (s : Slot) (hs : s ∈ S.slots m) (f : Field)
    (hf : s = .one f ∨ ∃ g alts, s = .oneof g alts ∧ f ∈ alts) (k : List Nat)
    (hkey : (jsonKeysOf S m).any (fun x => str x == k) = true) (hn : nameMatch f k) : covered S m f = true := by
  simp only [nameMatch, Bool.or_eq_true, beq_iff_eq] at hn
  rcases hn with hj | ho
  · simp only [covered]; rw [hj]; exact hkey
  · have hm : m < S.msgs.length := by
      by_cases hlt : m < S.msgs.length
      · exact hlt
      · have : S.slots m = [] := by simp only [Schema.slots]; rw [List.getElem?_eq_none (by omega)]; rfl
        rw [this] at hs; cases hs
    simp only [keysSymOk, List.all_eq_true, List.mem_range, keysSymAt] at hsym
    have h1 := hsym m hm s hs
    rw [← ho] at hkey
    rcases hf with h | ⟨g, alts, h, hmem⟩
    · subst h; simp only [Bool.or_eq_true, Bool.not_eq_true'] at h1
      rcases h1 with h1 | h1
      · rw [hkey] at h1; cases h1
      · exact h1
    · subst h; simp only [List.all_eq_true, Bool.or_eq_true, Bool.not_eq_true'] at h1
      rcases h1 f hmem with h1 | h1
      · rw [hkey] at h1; cases h1
      · exact h1


theorem jcov_slots_nil_any (S : Schema) (m : Nat) (v : Val) : jcov S m (.slots []) v = true := by
  rw [jcov]; intro s ss x xs _ h; cases h
theorem jcov_oneof_nil (S : Schema) (m : Nat) (g : String) (alts : List Field) : jcov S m (.slot (.oneof g alts)) .nil = true := by
  rw [jcov]; intro k p h; cases h
theorem jcov_reps_nil (S : Schema) (m : Nat) (f : Field) : jcov S m (.reps f) .nil = true := by
  rw [jcov]; intro e r h; cases h
theorem jcov_elem_leaf (S : Schema) (m : Nat) (f : Field) (x : Val) (hty : ∀ sub, f.ty ≠ .msg sub) :
    jcov S m (.elem f) x = (match f.ty, x with
      | .bytes, .bytes b => bytesOk b
      | .id _, .bytes b => bytesOk b
      | _, _ => true) := by
  rw [jcov.eq_def]
  cases hft : f.ty <;> cases x <;> simp [hft] <;> (try exact absurd hft (hty _))

theorem jcov_slots_map (S : Schema) (m : Nat) (D : List Val) : ∀ (ss : List Slot),
    (∀ s, s ∈ ss → jcov S m (.slot s) (slotDefault D s) = true) →
    jcov S m (.slots ss) (Val.ofList (ss.map (slotDefault D))) = true := by
  intro ss
  induction ss with
  | nil => intro _; exact jcov_slots_nil_any S m _
  | cons s ss ih =>
    intro h
    simp only [List.map_cons, Val.ofList]
    rw [jcov_slots_cons, Bool.and_eq_true]
    exact ⟨h s (List.mem_cons_self), ih (fun s' hs' => h s' (List.mem_cons_of_mem _ hs'))⟩

theorem isZero_default (ty : Ty) : isZero ty (if isScalar ty then Val.num 0 else Val.bytes []) = true := by
  cases ty <;> simp [isScalar, isZero]

/-- every default value is JSON-representable -/
theorem defaults_jcov (S : Schema) (D : List Val) (r : List Nat)
    (hcov : covOk S = true)
    (hD : ∀ sub, D.getD sub .nil = msgDefault D (S.slots sub))
    (hr : reqRankOk S r = true) :
    ∀ (n sub : Nat), r.getD sub 0 ≤ n → jcov S sub (.slots (S.slots sub)) (D.getD sub .nil) = true := by
  intro n
  induction n using Nat.strongRecOn with
  | _ n ih =>
    intro sub hn
    rw [hD sub, msgDefault]
    apply jcov_slots_map
    intro s hs
    have hcs := covOk_mem hcov sub s hs
    cases s with
    | oneof g alts => simp only [slotDefault]; exact jcov_oneof_nil S sub g alts
    | one f =>
      rw [jcov_slot_one]
      cases hc : f.card <;> simp only [slotDefault, hc, jsonOmit]
      · simp [isZero_default]
      · -- req
        simp only [slotCovOk, hc, Bool.or_eq_true, Bool.and_eq_true, beq_iff_eq] at hcs
        have hcv : covered S sub f = true := by
          rcases hcs with ⟨_, h⟩ | h
          · cases h
          · exact h
        simp only [Bool.false_or, hcv, Bool.true_and]
        cases hty : f.ty
        case msg sub' =>
          simp only []
          rw [jcov_elem_msg S sub f _ sub' hty]
          have hsub_lt : sub < S.msgs.length := by
            by_cases hlt : sub < S.msgs.length
            · exact hlt
            · have : S.slots sub = [] := by
                simp only [Schema.slots]; rw [List.getElem?_eq_none (by omega)]; rfl
              rw [this] at hs; cases hs
          simp only [reqRankOk, List.all_eq_true, List.mem_range, Bool.and_eq_true, decide_eq_true_eq] at hr
          have := hr sub hsub_lt sub' (mem_reqSubs _ f sub' hs hc hty)
          exact ih (r.getD sub' 0) (by omega) sub' (Nat.le_refl _)
        all_goals (simp only []; rw [jcov_elem_leaf S sub f _ (by intro s' h'; rw [hty] at h'; cases h'), hty]; try simp [bytesOk])
      · simp [Val.isCons]
      · simp [Val.isCons]


theorem jcov_elem_of_leaf (S : Schema) (m : Nat) (f : Field) (x : Val) (hty : ∀ sub, f.ty ≠ .msg sub)
    (hb : ∀ b, x = .bytes b → (f.ty = .bytes ∨ ∃ k, f.ty = .id k) → bytesOk b = true) : jcov S m (.elem f) x = true := by
  rw [jcov_elem_leaf S m f x hty]
  split
  · next b hft => exact hb b rfl (Or.inl hft)
  · next k b hft => exact hb b rfl (Or.inr ⟨k, hft⟩)
  · rfl

theorem jcov_reps_snoc (S : Schema) (m : Nat) (f : Field) : ∀ (cur x : Val), jcov S m (.reps f) cur = true →
    jcov S m (.elem f) x = true → jcov S m (.reps f) (Val.snoc cur x) = true := by
  intro cur
  induction cur with
  | cons h t _ iht =>
    intro x hc hx
    rw [jcov_reps_cons, Bool.and_eq_true] at hc
    simp only [Val.snoc]; rw [jcov_reps_cons, Bool.and_eq_true]; exact ⟨hc.1, iht x hc.2 hx⟩
  | _ => intro x _ hx; simp only [Val.snoc]; rw [jcov_reps_cons, hx, jcov_reps_nil]; rfl

/-- array of leaves into a repeated (non packed) field -/
theorem readLeafArr_reps_ok (S : Schema) (T : Txt) (hT : TxtOut T) (he : enumsOk S = true) (m : Nat) (f : Field)
    (hty : ∀ sub, f.ty ≠ .msg sub) : ∀ (j : Json) (cur x : Val),
    confD S (.reps f) cur = true → jcov S m (.reps f) cur = true → readLeafArr S T f.ty cur j = some x →
    confD S (.reps f) x = true ∧ jcov S m (.reps f) x = true := by
  intro j
  induction j with
  | acons h t _ iht =>
    intro cur x hc hj hr
    simp only [readLeafArr] at hr
    split at hr
    · next y hy =>
      obtain ⟨hok, hb⟩ := readLeaf_ok S T hT he f.ty h y hy
      exact iht _ x (confD_reps_snoc S f cur y hc (by rw [confD_elem_leaf S f y hty]; exact hok))
        (jcov_reps_snoc S m f cur y hj (jcov_elem_of_leaf S m f y hty hb)) hr
    · cases hr
  | anil => intro cur x hc hj hr; simp only [readLeafArr] at hr; cases hr; exact ⟨hc, hj⟩
  | null => intro cur x hc hj hr; simp only [readLeafArr] at hr; cases hr; exact ⟨hc, hj⟩
  | _ => intro cur x _ _ hr; simp [readLeafArr] at hr

theorem jcov_reps_packed (S : Schema) (m : Nat) (f : Field) (hs : isScalar f.ty = true) : ∀ x, packedOk f.ty x = true →
    jcov S m (.reps f) x = true := by
  have hty : ∀ sub, f.ty ≠ .msg sub := by intro sub h; simp [h, isScalar] at hs
  intro x
  induction x with
  | cons h t _ iht =>
    intro hp
    cases h with
    | num n =>
      simp only [packedOk, Bool.and_eq_true] at hp
      rw [jcov_reps_cons, iht hp.2, jcov_elem_of_leaf S m f _ hty (by intro b hb; cases hb)]; rfl
    | _ => simp [packedOk] at hp
  | nil => intro _; exact jcov_reps_nil S m f
  | _ => intro hp; simp [packedOk] at hp

/-- array of scalars into a packed field -/
theorem readLeafArr_packed_ok (S : Schema) (T : Txt) (hT : TxtOut T) (he : enumsOk S = true) (ty : Ty) (hs : isScalar ty = true) :
    ∀ (j : Json) (cur x : Val), packedOk ty cur = true → readLeafArr S T ty cur j = some x → packedOk ty x = true := by
  intro j
  induction j with
  | acons h t _ iht =>
    intro cur x hc hr
    simp only [readLeafArr] at hr
    split at hr
    · next y hy =>
      obtain ⟨hok, _⟩ := readLeaf_ok S T hT he ty h y hy
      cases y with
      | num n => rw [leafOk_num] at hok; exact iht _ x (packedOk_snoc ty cur n hc hok) hr
      | _ => cases ty <;> simp [isScalar] at hs <;> simp [leafOk] at hok
    · cases hr
  | anil => intro cur x hc hr; simp only [readLeafArr] at hr; cases hr; exact hc
  | null => intro cur x hc hr; simp only [readLeafArr] at hr; cases hr; exact hc
  | _ => intro cur x _ hr; simp [readLeafArr] at hr


/-- decoder-shaped and JSON-representable -/
def CJ (S : Schema) (m : Nat) (v : Val) : Prop :=
  confD S (.slots (S.slots m)) v = true ∧ jcov S m (.slots (S.slots m)) v = true

structure JHyp (S : Schema) (T : Txt) (D : List Val) : Prop where
  hwf : ∀ m, slotsOkFrom (S.slots m) (S.slots m) 0 = true
  hsym : keysSymOk S = true
  hT : TxtOut T
  he : enumsOk S = true
  hdef : ∀ sub, CJ S sub (D.getD sub .nil)

theorem slotRead_leaf (S : Schema) (T : Txt) (D : List Val) (f : Field) (alt : Bool) (cur : Val) (jv : Json)
    (hty : ∀ sub, f.ty ≠ .msg sub) :
    slotRead S T D f alt cur jv =
      if (!alt) = true ∧ (f.card = .rep ∨ f.card = .packed) then readLeafArr S T f.ty cur jv
      else (readLeaf S T f.ty jv).map (fun x => if alt = true then Val.cons (.num f.num) (.cons x .nil) else x) := by
  unfold slotRead
  cases h : f.ty <;> first | exact absurd h (hty _) | rfl

/-- what one member does to its slot keeps the slot decoder-shaped and JSON-representable; `ihA`/`ihB`: the statement for the
(smaller) member value -/
theorem slotRead_ok (S : Schema) (T : Txt) (D : List Val) (H : JHyp S T D) (m : Nat) (s : Slot) (hs : s ∈ S.slots m)
    (f : Field) (alt : Bool) (hso : SlotOf s f alt) (hfok : fieldOk alt f = true) (hcv : covered S m f = true)
    (cur : Val) (hcur : confD S (.slot s) cur = true) (hjcur : jcov S m (.slot s) cur = true)
    (jv : Json) (nv : Val) (hr : slotRead S T D f alt cur jv = some nv)
    (ihA : ∀ m' acc v, CJ S m' acc → fromJ S T D m' acc jv = some v → CJ S m' v)
    (ihB : ∀ sub g m' c x, g.ty = .msg sub → confD S (.reps g) c = true → jcov S m' (.reps g) c = true →
      fromJ.fromJArr S T D sub c jv = some x → confD S (.reps g) x = true ∧ jcov S m' (.reps g) x = true) :
    confD S (.slot s) nv = true ∧ jcov S m (.slot s) nv = true := by
  cases hty : f.ty with
  | msg sub =>
    simp only [slotRead, hty] at hr
    rcases hso with ⟨ha, hs1⟩ | ⟨ha, g, alts, hs1, hfa⟩
    · -- plain field
      subst ha; subst hs1
      simp only [Bool.false_eq_true, if_false] at hr
      rw [confD_slot_one] at hcur ⊢
      rw [jcov_slot_one] at hjcur ⊢
      simp only [fieldOk, hty, Bool.false_eq_true, if_false, Bool.and_eq_true] at hfok
      by_cases hc : f.card = .req
      · simp only [hc, if_true] at hr hcur hjcur ⊢
        simp only [jsonOmit, hc, Bool.false_or, Bool.and_eq_true] at hjcur ⊢
        rw [confD_elem_msg S f _ sub hty] at hcur ⊢
        rw [jcov_elem_msg S m f _ sub hty] at hjcur ⊢
        obtain ⟨h1, h2⟩ := ihA sub cur nv ⟨hcur, hjcur.2⟩ hr
        exact ⟨h1, hcv, h2⟩
      · have hrep : f.card = .rep := by
          cases hcc : f.card <;> simp [hcc, isScalar] at hfok hc ⊢
        simp only [hrep, reduceCtorEq, if_false] at hr hcur hjcur ⊢
        have hjc : jcov S m (.reps f) cur = true := by
          simp only [jsonOmit, hrep, Bool.or_eq_true, Bool.and_eq_true, Bool.not_eq_true'] at hjcur
          rcases hjcur with h0 | h0
          · rcases confD_reps_chainy S f cur hcur with hn | hcons
            · rw [hn]; exact jcov_reps_nil S m f
            · rw [hcons] at h0; cases h0
          · exact h0.2
        obtain ⟨h1, h2⟩ := ihB sub f m cur nv hty hcur hjc hr
        refine ⟨h1, ?_⟩
        simp only [Bool.or_eq_true, Bool.and_eq_true]
        exact Or.inr ⟨hcv, h2⟩
    · -- one-of alternative: a fresh message
      subst ha; subst hs1
      simp only [if_true, Option.map_eq_some_iff] at hr
      obtain ⟨x, hx, hnv⟩ := hr
      subst hnv
      obtain ⟨h1, h2⟩ := ihA sub _ x (H.hdef sub) hx
      refine ⟨confD_wrap_alt S g alts f x hfa (by rw [confD_elem_msg S f _ sub hty]; exact h1), ?_⟩
      rw [jcov_slot_oneof]; simp only [hfa, Bool.and_eq_true]
      exact ⟨hcv, by rw [jcov_elem_msg S m f _ sub hty]; exact h2⟩
  | _ =>
    have htym : ∀ sub, f.ty ≠ .msg sub := by intro sub h; rw [hty] at h; cases h
    rw [slotRead_leaf S T D f alt cur jv htym] at hr
    have hr' := hr
    clear hr
    split at hr'
    · next hcond =>
      obtain ⟨ha, hcard⟩ := hcond
      have ha' : alt = false := by simpa using ha
      rcases hso with ⟨_, hs1⟩ | ⟨ha2, _⟩
      · subst hs1
        rw [confD_slot_one] at hcur ⊢
        rw [jcov_slot_one] at hjcur ⊢
        rcases hcard with hc | hc
        · -- repeated leaves
          simp only [hc] at hcur hjcur ⊢
          have hjc : jcov S m (.reps f) cur = true := by
            simp only [jsonOmit, hc, Bool.or_eq_true, Bool.and_eq_true, Bool.not_eq_true'] at hjcur
            rcases hjcur with h0 | h0
            · rcases confD_reps_chainy S f cur hcur with hn | hcons
              · rw [hn]; exact jcov_reps_nil S m f
              · rw [hcons] at h0; cases h0
            · exact h0.2
          obtain ⟨h1, h2⟩ := readLeafArr_reps_ok S T H.hT H.he m f htym jv cur nv hcur hjc hr'
          refine ⟨h1, ?_⟩
          simp only [Bool.or_eq_true, Bool.and_eq_true]
          exact Or.inr ⟨hcv, h2⟩
        · -- packed scalars
          simp only [hc] at hcur hjcur ⊢
          have hsc : isScalar f.ty = true := by
            rw [ha'] at hfok
            simp only [fieldOk, hc, Bool.false_eq_true, if_false, Bool.and_eq_true] at hfok; exact hfok.2
          have h1 := readLeafArr_packed_ok S T H.hT H.he f.ty hsc jv cur nv hcur hr'
          refine ⟨h1, ?_⟩
          simp only [Bool.or_eq_true, Bool.and_eq_true]
          exact Or.inr ⟨hcv, jcov_reps_packed S m f hsc nv h1⟩
      · rw [ha'] at ha2; cases ha2
    · next hcond =>
      simp only [Option.map_eq_some_iff] at hr'
      obtain ⟨x, hx, hnv⟩ := hr'
      obtain ⟨hok, hb⟩ := readLeaf_ok S T H.hT H.he f.ty jv x hx
      have hje := jcov_elem_of_leaf S m f x htym hb
      rcases hso with ⟨ha, hs1⟩ | ⟨ha, g, alts, hs1, hfa⟩
      · subst ha; subst hs1
        simp only [Bool.false_eq_true, if_false] at hnv
        subst hnv
        have hnr : ¬ (f.card = .rep ∨ f.card = .packed) := by
          intro h; exact hcond ⟨rfl, h⟩
        rw [confD_slot_one, jcov_slot_one]
        cases hc : f.card
        · simp only [hc]; exact ⟨hok, by simp only [Bool.or_eq_true, Bool.and_eq_true]; exact Or.inr ⟨hcv, hje⟩⟩
        · simp only [hc]
          exact ⟨by rw [confD_elem_leaf S f x htym]; exact hok,
            by simp only [Bool.or_eq_true, Bool.and_eq_true]; exact Or.inr ⟨hcv, hje⟩⟩
        · exact absurd (Or.inl hc) hnr
        · exact absurd (Or.inr hc) hnr
      · subst ha; subst hs1
        simp only [if_true] at hnv
        subst hnv
        refine ⟨confD_wrap_alt S g alts f x hfa (by rw [confD_elem_leaf S f x htym]; exact hok), ?_⟩
        rw [jcov_slot_oneof]; simp only [hfa, Bool.and_eq_true]
        exact ⟨hcv, hje⟩


theorem mem_of_getElem?' {α : Type} {l : List α} {i : Nat} {a : α} (h : l[i]? = some a) : a ∈ l := List.mem_of_getElem? h

/-- **the JSON readers return decoder-shaped, JSON-representable values** (both `fromJ` and its array helper), for every tree -/
theorem fromJ_CJ (S : Schema) (T : Txt) (D : List Val) (H : JHyp S T D) : ∀ (n : Nat),
    (∀ j : Json, j.size ≤ n → ∀ m acc v, CJ S m acc → fromJ S T D m acc j = some v → CJ S m v) ∧
    (∀ j : Json, j.size ≤ n → ∀ sub g m' c x, g.ty = .msg sub → confD S (.reps g) c = true → jcov S m' (.reps g) c = true →
      fromJ.fromJArr S T D sub c j = some x → confD S (.reps g) x = true ∧ jcov S m' (.reps g) x = true) := by
  intro n
  induction n using Nat.strongRecOn with
  | _ n ih =>
    constructor
    · intro j hn m acc v hacc h
      cases j with
      | onil => rw [fromJ] at h; cases h; exact hacc
      | null => rw [fromJ] at h; cases h; exact hacc
      | ocons k jv tl =>
        have hsz : jv.size < n ∧ tl.size < n := by simp only [Json.size] at hn; omega
        have ihtl := (ih tl.size hsz.2).1 tl (Nat.le_refl _)
        by_cases hkey : (jsonKeysOf S m).any (fun s => str s == k) = true
        · cases hfind : findKey (S.slots m) 0 k with
          | none =>
            rw [fromJ] at h
            simp only [jsonKeysOf] at hkey
            simp only [hkey, Bool.not_true, Bool.false_eq_true, if_false, hfind] at h
            split at h
            · exact ihtl m acc v hacc h
            · cases h
          | some hit =>
            rw [fromJ_step S T D m acc k jv tl hit hkey hfind] at h
            split at h
            · next nv hnv =>
              obtain ⟨j0, hj0, hname, hr⟩ := findKey_spec (S.slots m) 0 k hit hfind
              have hidx : hit.idx = j0 := by omega
              -- the slot, its well-formedness facts
              obtain ⟨s, hs, hso, hfok, hfmem⟩ : ∃ s, (S.slots m)[hit.idx]? = some s ∧ SlotOf s hit.f hit.alt ∧
                  fieldOk hit.alt hit.f = true ∧ (s = .one hit.f ∨ ∃ g alts, s = .oneof g alts ∧ hit.f ∈ alts) := by
                rcases hr with ⟨ha, hs⟩ | ⟨ha, g, alts, hs, hmem⟩
                · refine ⟨.one hit.f, by rw [hidx]; exact hs, Or.inl ⟨ha, rfl⟩, ?_, Or.inl rfl⟩
                  rw [ha]; exact (slotsOk_get _ _ 0 j0 _ (H.hwf m) hs).1 _ rfl
                · refine ⟨.oneof g alts, by rw [hidx]; exact hs,
                    Or.inr ⟨ha, g, alts, rfl, slotsOk_get_alt _ _ 0 j0 g alts _ (H.hwf m) hs hmem⟩, ?_, Or.inr ⟨g, alts, rfl, hmem⟩⟩
                  rw [ha]; exact (slotsOk_get _ _ 0 j0 _ (H.hwf m) hs).2 g alts _ rfl hmem
              have hsm : s ∈ S.slots m := List.mem_of_getElem? hs
              have hcv := covered_of_key S H.hsym m s hsm hit.f hfmem k hkey hname
              have hcur := confD_get S _ acc hit.idx s hacc.1 hs
              have hjcur := jcov_get S m _ acc hit.idx s hacc.1 hacc.2 hs
              obtain ⟨h1, h2⟩ := slotRead_ok S T D H m s hsm hit.f hit.alt hso hfok hcv _ hcur hjcur jv nv hnv
                (fun m' acc' v' => (ih jv.size hsz.1).1 jv (Nat.le_refl _) m' acc' v')
                (fun sub g m' c x => (ih jv.size hsz.1).2 jv (Nat.le_refl _) sub g m' c x)
              exact ihtl m _ v ⟨confD_set S _ acc hit.idx s nv hacc.1 hs h1, jcov_set S m _ acc hit.idx s nv hacc.1 hacc.2 hs h2⟩ h
            · cases h
        · rw [fromJ] at h
          simp only [jsonKeysOf] at hkey
          simp only [hkey, Bool.not_false, if_true] at h
          split at h
          · exact ihtl m acc v hacc h
          · cases h
      | _ => simp [fromJ] at h
    · intro j hn sub g m' c x hty hc hj h
      cases j with
      | anil => rw [fromJ.fromJArr] at h; cases h; exact ⟨hc, hj⟩
      | null => rw [fromJ.fromJArr] at h; cases h; exact ⟨hc, hj⟩
      | acons hd tl =>
        have hsz : hd.size < n ∧ tl.size < n := by simp only [Json.size] at hn; omega
        rw [fromJ.fromJArr] at h
        split at h
        · next y hy =>
          obtain ⟨h1, h2⟩ := (ih hd.size hsz.1).1 hd (Nat.le_refl _) sub _ y (H.hdef sub) hy
          exact (ih tl.size hsz.2).2 tl (Nat.le_refl _) sub g m' _ x hty
            (confD_reps_snoc S g c y hc (by rw [confD_elem_msg S g _ sub hty]; exact h1))
            (jcov_reps_snoc S m' g c y hj (by rw [jcov_elem_msg S m' g _ sub hty]; exact h2)) h
        · cases h
      | _ => simp [fromJ.fromJArr] at h


theorem isCons_canon (S : Schema) (mode : Mode) (v : Val) : (canon S mode v).isCons = v.isCons := by
  fun_induction canon S mode v <;> first | rfl | assumption | simp_all [Val.isCons]

theorem jcov_canon (S : Schema) (mode : Mode) (v : Val) :
    ∀ m, jcov S m mode v = true → jcov S m mode (canon S mode v) = true := by
  fun_induction canon S mode v
  case case1 s ss x xs ih2 ih1 =>
    intro m h
    rw [jcov_slots_cons, Bool.and_eq_true] at h
    rw [jcov_slots_cons, Bool.and_eq_true]; exact ⟨ih2 m h.1, ih1 m h.2⟩
  case case3 f v sub hty ih =>
    intro m h
    rw [jcov_elem_msg S m f v sub hty] at h
    rw [jcov_elem_msg S m f _ sub hty]; exact ih sub h
  case case5 f e rest ih2 ih1 =>
    intro m h
    rw [jcov_reps_cons, Bool.and_eq_true] at h
    rw [jcov_reps_cons, Bool.and_eq_true]; exact ⟨ih2 m h.1, ih1 m h.2⟩
  case case7 f v hc hz =>
    intro m _
    rw [jcov_slot_one]
    simp only [Bool.and_eq_true, beq_iff_eq] at hz
    simp [jsonOmit, hc, hz.1, isZero]
  case case9 f v hc ih =>
    intro m h
    rw [jcov_slot_one] at h ⊢
    simp only [hc, jsonOmit, Bool.false_or, Bool.and_eq_true] at h ⊢
    exact ⟨h.1, ih m h.2⟩
  case case10 f v hc ih =>
    intro m h
    rw [jcov_slot_one] at h ⊢
    simp only [hc, jsonOmit, Bool.or_eq_true, Bool.and_eq_true, Bool.not_eq_true'] at h ⊢
    rcases h with h | h
    · left; rw [isCons_canon]; exact h
    · right; exact ⟨h.1, ih m h.2⟩
  case case12 g alts k p a hfa ih =>
    intro m h
    rw [jcov_slot_oneof] at h ⊢
    simp only [hfa, Bool.and_eq_true] at h ⊢
    exact ⟨h.1, ih m h.2⟩
  all_goals (intro m h; exact h)

theorem isZero_normLeaf (ty : Ty) (v : Val) (h : leafOk ty v = true) : isZero ty (normLeaf ty v) = isZero ty v := by
  cases ty <;> cases v <;> simp_all [normLeaf, isZero, leafOk, scalarOk]
  rename_i n
  unfold normNaN
  split
  · next hn =>
    simp only [isNaN, Bool.and_eq_true, beq_iff_eq, bne_iff_ne, ne_eq, canonNaN] at hn ⊢
    have : n % 9223372036854775808 ≠ 0 := by omega
    simp [this]
  · rfl

theorem jcov_normV (S : Schema) (mode : Mode) (v : Val) :
    ∀ m, conf S false mode v = true → jcov S m mode v = true → jcov S m mode (normV S mode v) = true := by
  fun_induction normV S mode v
  case case1 s ss x xs ih2 ih1 =>
    intro m hc h
    rw [conf_slots_cons, Bool.and_eq_true] at hc
    rw [jcov_slots_cons, Bool.and_eq_true] at h
    rw [jcov_slots_cons, Bool.and_eq_true]; exact ⟨ih2 m hc.1 h.1, ih1 m hc.2 h.2⟩
  case case3 f v sub hty ih =>
    intro m hc h
    have hc' : conf S false (.slots (S.slots sub)) v = true := by rw [conf] at hc; simpa [hty] using hc
    rw [jcov_elem_msg S m f v sub hty] at h
    rw [jcov_elem_msg S m f _ sub hty]; exact ih sub hc' h
  case case4 f v hty =>
    intro m _ h
    by_cases hd : f.ty = .double
    · have hty' : ∀ sub, f.ty ≠ .msg sub := fun sub hh => hty sub hh
      rw [jcov_elem_leaf S m f _ hty', hd]
    · rw [normLeaf_eq _ _ hd]; exact h
  case case5 f e rest ih2 ih1 =>
    intro m hc h
    rw [conf_reps_cons, Bool.and_eq_true] at hc
    rw [jcov_reps_cons, Bool.and_eq_true] at h
    rw [jcov_reps_cons, Bool.and_eq_true]; exact ⟨ih2 m hc.1 h.1, ih1 m hc.2 h.2⟩
  case case7 f v hc ih =>
    intro m hcf h
    rw [conf_slot_one] at hcf; simp only [hc] at hcf
    rw [jcov_slot_one] at h ⊢
    simp only [hc, jsonOmit, Bool.or_eq_true, Bool.and_eq_true, Bool.not_eq_true'] at h ⊢
    rcases h with h | h
    · left; rw [isCons_normV]; exact h
    · right; exact ⟨h.1, ih m hcf h.2⟩
  case case8 f v hc ih =>
    intro m hcf h
    rw [conf_slot_one] at hcf; simp only [hc] at hcf
    rw [jcov_slot_one] at h ⊢
    simp only [hc, jsonOmit, Bool.or_eq_true, Bool.and_eq_true, Bool.not_eq_true'] at h ⊢
    rcases h with h | h
    · left; rw [isCons_normV]; exact h
    · right
      refine ⟨h.1, ?_⟩
      have hs : isScalar f.ty = true ∨ v = .nil := by
        cases v with
        | nil => exact Or.inr rfl
        | cons a b =>
          cases a with
          | num n =>
            simp only [packedOk, Bool.and_eq_true] at hcf
            left; cases hft : f.ty <;> simp [hft, scalarOk] at hcf <;> rfl
          | _ => simp [packedOk] at hcf
        | _ => simp [packedOk] at hcf
      rcases hs with hs | hs
      · exact jcov_reps_packed S m f hs _ (packedOk_normV S f v hcf)
      · subst hs; rw [normV_nil]; exact jcov_reps_nil S m f
  case case9 f v hc1 hc2 ih =>
    intro m hcf h
    rw [conf_slot_one] at hcf
    rw [jcov_slot_one] at h ⊢
    cases hc : f.card
    · simp only [hc, Bool.and_eq_true, Bool.not_eq_true'] at hcf
      have hty := leafOk_notMsg f.ty v hcf.1
      simp only [hc, jsonOmit, Bool.or_eq_true, Bool.and_eq_true] at h ⊢
      rw [normV_elem_leaf S f v hty, isZero_normLeaf _ _ hcf.1]
      rcases h with h | h
      · exact Or.inl h
      · right
        refine ⟨h.1, ?_⟩
        have := ih m (by rw [conf_elem_leaf S f v hty]; exact hcf.1) h.2
        rw [normV_elem_leaf S f v hty] at this; exact this
    · simp only [hc] at hcf
      simp only [hc, jsonOmit, Bool.false_or, Bool.and_eq_true] at h ⊢
      exact ⟨h.1, ih m hcf h.2⟩
    · exact (hc1 hc).elim
    · exact (hc2 hc).elim
  case case10 g alts k p a hfa ih =>
    intro m hcf h
    rw [conf_slot_oneof] at hcf; simp only [hfa] at hcf
    rw [jcov_slot_oneof] at h ⊢
    simp only [hfa, Bool.and_eq_true] at h ⊢
    exact ⟨h.1, ih m hcf h.2⟩
  all_goals (intro m _ h; exact h)

theorem normNaN_idem (n : Nat) : normNaN (normNaN n) = normNaN n := by
  unfold normNaN
  split
  · have : isNaN canonNaN = true := by decide
    simp [this]
  · next h => simp [h]

theorem normLeaf_idem (ty : Ty) (v : Val) : normLeaf ty (normLeaf ty v) = normLeaf ty v := by
  cases ty <;> cases v <;> simp [normLeaf, normNaN_idem]

theorem normV_idem (S : Schema) (mode : Mode) (v : Val) : normV S mode (normV S mode v) = normV S mode v := by
  fun_induction normV S mode v
  case case1 s ss x xs ih2 ih1 => rw [normV_slots_cons, ih2, ih1]
  case case3 f v sub hty ih =>
    have h1 : ∀ w, normV S (.elem f) w = normV S (.slots (S.slots sub)) w := by
      intro w; (conv => lhs; rw [normV]); simp [hty]
    rw [h1, ih]
  case case4 f v hty =>
    have hty' : ∀ sub, f.ty ≠ .msg sub := fun sub hh => hty sub hh
    rw [normV_elem_leaf S f _ hty', normLeaf_idem]
  case case5 f e rest ih2 ih1 => rw [normV_reps_cons, ih2, ih1]
  case case7 f v hc ih => rw [normV_slot_one]; simp only [hc]; exact ih
  case case8 f v hc ih => rw [normV_slot_one]; simp only [hc]; exact ih
  case case9 f v hc1 hc2 ih =>
    rw [normV_slot_one]
    cases hc : f.card
    · simp only [hc]; exact ih
    · simp only [hc]; exact ih
    · exact (hc1 hc).elim
    · exact (hc2 hc).elim
  case case10 g alts k p a hfa ih =>
    have h1 : ∀ w, normV S (.slot (.oneof g alts)) (.cons (.num k) (.cons w .nil)) = .cons (.num k) (.cons (normV S (.elem a) w) .nil) := by
      intro w; (conv => lhs; rw [normV]); simp [hfa]
    rw [h1, ih]
  case case11 g alts k p hfa =>
    (conv => lhs; rw [normV]); simp [hfa]
  all_goals first | rfl | (rw [normV]; assumption) | skip


theorem jcov_reps_mem (S : Schema) (m : Nat) (f : Field) : ∀ (l x : Val), jcov S m (.reps f) l = true → x ∈ Val.toList l →
    jcov S m (.elem f) x = true := by
  intro l
  induction l with
  | cons h t _ iht =>
    intro x hc hx
    rw [jcov_reps_cons, Bool.and_eq_true] at hc
    simp only [Val.toList, List.mem_cons] at hx
    rcases hx with h1 | h1
    · subst h1; exact hc.1
    · exact iht x hc.2 h1
  | _ => intro x _ hx; simp [Val.toList] at hx

/-- a JSON-decoded resource has no deprecated data -/
theorem migrateRes_noop_jcov (S : Schema) (r : Nat) (rv : Val) (hsh : migShape2At (S.slots r) = true)
    (hdu : depUncovAt S r = true) (hc : confD S (.slots (S.slots r)) rv = true) (hj : jcov S r (.slots (S.slots r)) rv = true) :
    migrateRes (S.slots r) rv = rv := by
  apply migrateRes_noop'
  intro d hd
  simp only [depUncovAt, hd] at hdu
  split at hdu
  · next fd hsd =>
    simp only [Bool.and_eq_true, Bool.not_eq_true', beq_iff_eq] at hdu
    have hcd := confD_get S _ rv d _ hc hsd
    rw [confD_slot_one] at hcd; simp only [hdu.2] at hcd
    have hjd := jcov_get S r _ rv d _ hc hj hsd
    rw [jcov_slot_one] at hjd
    simp only [hdu.1, Bool.false_and, Bool.or_false, jsonOmit, hdu.2, Bool.not_eq_true'] at hjd
    refine ⟨?_, ?_⟩
    · rcases confD_reps_chainy S fd _ hcd with hn | hcons
      · exact hn
      · rw [hcons] at hjd; cases hjd
    · intro i hi
      simp only [migShape2At, hd, hi, Bool.and_eq_true] at hsh
      obtain ⟨_, hsl⟩ := hsh
      split at hsl
      · next fd' fi hsd' hsi =>
        simp only [Bool.and_eq_true, beq_iff_eq] at hsl
        have hci := confD_get S _ rv i _ hc hsi
        rw [confD_slot_one] at hci; simp only [hsl.1.2] at hci
        exact confD_reps_chainy S fi _ hci
      · cases hsl
  · cases hdu

theorem depUncov_at {S : Schema} (h : depUncovOk S = true) (r : Nat) : depUncovAt S r = true := by
  simp only [depUncovOk, List.all_eq_true, List.mem_range] at h
  by_cases hr : r < S.msgs.length
  · exact h r hr
  · have : S.slots r = [] := by simp only [Schema.slots]; rw [List.getElem?_eq_none (by omega)]; rfl
    simp [depUncovAt, this, slotIdx, findSlot]

/-- `otlp.Migrate*` after a JSON decode is the identity: the readers cannot populate the deprecated lists -/
theorem migrate_noop_jcov (S : Schema) (hsh : migShape2Ok S = true) (hdu : depUncovOk S = true) (m : Nat) (v : Val)
    (hfirst : ∀ f rest, S.slots m = .one f :: rest → f.card = .rep) (hcj : CJ S m v) : migrate S m v = v := by
  apply migrate_noop_of_res
  intro f rest r hs hty rv hrv
  have hcard := hfirst f rest hs
  have hs0 : (S.slots m)[0]? = some (.one f) := by rw [hs]; rfl
  have hc0 := confD_get S _ v 0 _ hcj.1 hs0
  rw [confD_slot_one] at hc0; simp only [hcard] at hc0
  have hj0 := jcov_get S m _ v 0 _ hcj.1 hcj.2 hs0
  rw [jcov_slot_one] at hj0
  simp only [hcard, jsonOmit, Bool.or_eq_true, Bool.and_eq_true, Bool.not_eq_true'] at hj0
  have hjr : jcov S m (.reps f) (Val.get v 0) = true := by
    rcases hj0 with h0 | h0
    · rcases confD_reps_chainy S f _ hc0 with hn | hcons
      · rw [hn]; exact jcov_reps_nil S m f
      · rw [hcons] at h0; cases h0
    · exact h0.2
  have h1 := confD_reps_mem S f _ rv hc0 hrv
  rw [confD_elem_msg S f _ r hty] at h1
  have h2 := jcov_reps_mem S m f _ rv hjr hrv
  rw [jcov_elem_msg S m f _ r hty] at h2
  exact migrateRes_noop_jcov S r rv (migShape2_slots hsh r) (depUncov_at hdu r) h1 h2

/-! ## the concrete decoders return well-formed data -/

theorem hexVal_lt (c x : Nat) (h : hexVal c = some x) : x < 16 := by
  unfold hexVal at h
  split at h
  · cases h; omega
  · split at h
    · cases h; omega
    · split at h
      · cases h; omega
      · cases h

theorem hexDec_out : ∀ (t b : List Nat), hexDec t = some b → bytesOk b = true ∧ 2 * b.length = t.length := by
  intro t
  induction t using hexDec.induct with
  | case1 => intro b h; simp only [hexDec] at h; cases h; exact ⟨rfl, rfl⟩
  | case2 c => intro b h; simp [hexDec] at h
  | case3 a c rest x y tl htl hy hx ih =>
    intro b h
    simp only [hexDec, hx, hy, htl] at h
    cases h
    obtain ⟨h1, h2⟩ := ih tl htl
    have := hexVal_lt _ _ hx
    have := hexVal_lt _ _ hy
    refine ⟨?_, by simp; omega⟩
    simp only [bytesOk, List.all_cons, Bool.and_eq_true, decide_eq_true_eq]
    exact ⟨by omega, by simpa [bytesOk] using h1⟩
  | case4 a c rest hne ih =>
    intro b h
    simp only [hexDec] at h
    first
      | cases h
      | (split at h
         · next x y tl hx hy htl => exact (hne x y tl hx hy htl).elim
         · cases h)

theorem b64dec_out : ∀ (t b : List Nat), b64dec t = some b → bytesOk b = true := by
  intro t
  induction t using b64dec.induct <;> intro b h
  all_goals (simp_all [b64dec, bytesOk])
  case case2 => subst h; intro x hx; simp only [List.mem_cons, List.mem_nil_iff, or_false] at hx; omega
  case case4 => subst h; intro x hx; simp only [List.mem_cons, List.mem_nil_iff, or_false] at hx; omega
  case case6 =>
    rename_i ih1
    subst h; intro x hx; simp only [List.mem_cons] at hx
    rcases hx with h1 | h1 | h1 | h1
    · omega
    · omega
    · omega
    · exact ih1 _ h1

theorem b64Read_out (t b : List Nat) (h : b64Read t = some b) : bytesOk b = true := b64dec_out _ b h

/-! ## ids and base64 as the code does them (round 2, second item): connecting lemmas -/
theorem stripQuotes_noquote (b : List Nat) (h : b.head? ≠ some 34) : stripQuotes b = b := by
  unfold stripQuotes
  have : ¬ (b.length ≥ 2 ∧ b.head? = some 34 ∧ b.getLast? = some 34) := fun hh => h hh.2.1
  simp [this]

theorem stripQuotes_quoted (x : List Nat) : stripQuotes (34 :: x ++ [34]) = x := by
  unfold stripQuotes
  have h1 : (34 :: x ++ [34]).length ≥ 2 := by simp
  have h2 : (34 :: x ++ [34]).getLast? = some 34 := by
    rw [show 34 :: x ++ [34] = (34 :: x) ++ [34] from rfl, List.getLast?_append]; simp
  simp only [h1, h2, List.head?_cons, and_self, if_true]
  simp

theorem allZero_replicate_true (n : Nat) : allZero (List.replicate n 0) = true := by
  induction n with
  | zero => rfl
  | succ k ih => simpa [allZero, List.replicate_succ] using ih

theorem hexChar_up_ne_quote (n : Nat) : hexUp (hexChar n) ≠ 34 := by
  unfold hexUp hexChar; split <;> split <;> omega

/-- the model's id reader IS `UnmarshalJSON` followed by the canonical form (zero id ≡ empty) -/
theorem readLeaf_id_eq (S : Schema) (ffmt : Nat → List Nat) (fparse : List Nat → Option Nat) (n : Nat) (t : List Nat) :
    readLeaf S (mkTxtF ffmt fparse) (.id n) (.str t)
      = (idUnmarshalJSON n t).map (fun q => .bytes (if allZero q then [] else q)) := by
  simp only [readLeaf, idUnmarshalJSON, mkTxtF]
  by_cases he : (stripQuotes t).isEmpty = true
  · simp [he, allZero_replicate_true]
  · simp only [he, Bool.false_eq_true, if_false]
    by_cases hl : (stripQuotes t).length = 2 * n
    · have : ¬ (n ≠ (stripQuotes t).length / 2) := by omega
      simp [hl, this]
    · by_cases hh : n = (stripQuotes t).length / 2
      · have hodd : (stripQuotes t).length % 2 = 1 := by omega
        simp [hl, hh, hexDec_odd _ hodd]
      · simp [hl, hh]

theorem b64dec_chars : ∀ (t b : List Nat), b64dec t = some b → ∀ c ∈ t, c = 61 ∨ (b64val c).isSome = true := by
  intro t
  induction t using b64dec.induct <;> intro b h c hc
  all_goals (simp_all [b64dec])
  case case2 => rcases hc with hc | hc | hc <;> first | exact Or.inl hc | (subst hc; simp_all)
  case case4 => rcases hc with hc | hc | hc | hc <;> first | exact Or.inl hc | (subst hc; simp_all)
  case case6 =>
    rename_i ih1
    rcases hc with hc | hc | hc | hc | hc
    · subst hc; simp_all
    · subst hc; simp_all
    · subst hc; simp_all
    · subst hc; simp_all
    · exact ih1 c hc

theorem b64Read_chars (t b : List Nat) (h : b64Read t = some b) : ∀ c ∈ t, c = 10 ∨ c = 13 ∨ c = 61 ∨ (b64val c).isSome = true := by
  intro c hc
  by_cases h1 : c = 10
  · exact Or.inl h1
  · by_cases h2 : c = 13
    · exact Or.inr (Or.inl h2)
    · have : c ∈ t.filter (fun c => c != 10 && c != 13) := by simp [List.mem_filter, hc, h1, h2]
      exact Or.inr (Or.inr (b64dec_chars _ b h c this))


end OtelVerif.C08
