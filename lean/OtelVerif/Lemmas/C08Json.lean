import OtelVerif.Lemmas.C08
/-! helper lemmas for the JSON half of C08: leaf readers, the per-member step of `fromJ`, and the message-level
round trip `jrt_all` (functional induction over `toJ`). Core Lean only. -/
namespace OtelVerif.C08
open OtelVerif.Wire OtelVerif.Proto

theorem parseInt_dec' (T : Txt) (h : DecLaws T) (signed : Bool) (w n : Nat)
    (hn : n < (if signed then 2 ^ (w - 1) else 2 ^ w)) : parseInt T signed w (T.dec n) = some n := by
  unfold parseInt
  split
  · next ds heq => exact absurd heq (h.dec_nosign n ds)
  · next ds heq => exact absurd heq (h.dec_noplus n ds)
  · simp [h.undec_dec, hn]

/-- NUMBER branch (jsoniter) on the marshaler's decimal text -/
theorem parseNum_dec' (T : Txt) (h : DecLaws T) (signed : Bool) (w n : Nat) (hw : 0 < w)
    (hn : n < (if signed then 2 ^ (w - 1) else 2 ^ w)) : parseNum signed w (T.dec n) = some n := by
  have hp : 2 ^ w = 2 * 2 ^ (w - 1) := by
    cases w with
    | zero => omega
    | succ k => simp [Nat.pow_succ]; omega
  have hlt : n < 2 ^ w := by cases signed <;> simp at hn <;> omega
  unfold parseNum
  split
  · next ds heq => exact absurd heq (h.dec_nosign n ds)
  · rw [h.jnum_dec w n hlt]
    cases signed
    · simp
    · simp only [if_true] at hn
      have : ¬ (n ≥ 2 ^ (w - 1)) := by omega
      simp [this]

theorem parseNum_sdec (T : Txt) (h : DecLaws T) (w n : Nat) (hw : 0 < w) (hn : n < 2 ^ w) :
    parseNum true w (sdec T w n) = some n := by
  have hp : 2 ^ w = 2 * 2 ^ (w - 1) := by
    cases w with
    | zero => omega
    | succ k => simp [Nat.pow_succ]; omega
  unfold sdec
  split
  · next hlt => exact parseNum_dec' T h true w n hw (by simpa using hlt)
  · next hge =>
    have h1 : 2 ^ w - n < 2 ^ w := by omega
    simp only [parseNum, Bool.not_true, Bool.false_eq_true, if_false, h.jnum_dec w _ h1]
    have h2 : ¬ (2 ^ w - n > 2 ^ (w - 1)) := by omega
    simp only [h2, if_false]
    congr 1
    have : 2 ^ w - (2 ^ w - n) = n := by omega
    rw [this]; exact Nat.mod_eq_of_lt hn

theorem parseInt_sdec (T : Txt) (h : DecLaws T) (w n : Nat) (hw : 0 < w) (hn : n < 2 ^ w) :
    parseInt T true w (sdec T w n) = some n := by
  have hp : 2 ^ w = 2 * 2 ^ (w - 1) := by
    cases w with
    | zero => omega
    | succ k => simp [Nat.pow_succ]; omega
  unfold sdec
  split
  · next hlt => exact parseInt_dec' T h true w n (by simpa using hlt)
  · next hge =>
    simp only [parseInt, Bool.not_true, Bool.false_eq_true, if_false, h.undec_dec]
    have h1 : 2 ^ w - n ≤ 2 ^ (w - 1) := by omega
    simp only [h1, if_true]
    congr 1
    have : 2 ^ w - (2 ^ w - n) = n := by omega
    rw [this]; exact Nat.mod_eq_of_lt hn

theorem readLeaf_leafJson (S : Schema) (T : Txt) (h : TxtLaws T) (ty : Ty) (v : Val)
    (hty : ∀ sub, ty ≠ .msg sub) (hok : leafOk ty v = true)
    (hb : ∀ b, v = .bytes b → (ty = .bytes ∨ ∃ k, ty = .id k) → bytesOk b = true) :
    readLeaf S T ty (leafJson T ty v) = some (normLeaf ty v) := by
  have hd := h.toDecLaws
  cases v with
  | num n =>
    have hs : scalarOk ty n = true := by rw [← hok]; cases ty <;> rfl
    cases ty <;> simp [scalarOk] at hs <;> simp only [leafJson, readLeaf, normLeaf]
    case u64 => simp [parseInt_dec' T hd false 64 n (by simpa using hs)]
    case fixed64 => simp [parseInt_dec' T hd false 64 n (by simpa using hs)]
    case i64 => simp [parseInt_sdec T hd 64 n (by omega) hs]
    case sfixed64 => simp [parseInt_sdec T hd 64 n (by omega) hs]
    case u32 => simp [parseNum_dec' T hd false 32 n (by omega) (by simpa using hs)]
    case fixed32 => simp [parseNum_dec' T hd false 32 n (by omega) (by simpa using hs)]
    case i32 => simp [parseNum_sdec T hd 32 n (by omega) hs]
    case s32 => simp [parseNum_sdec T hd 32 n (by omega) hs]
    case enum e => simp [parseNum_sdec T hd 32 n (by omega) hs]
    case bool =>
      have : n = 0 ∨ n = 1 := by omega
      rcases this with h0 | h1
      · subst h0; simp
      · subst h1; simp
    case double =>
      by_cases hnan : isNaN n = true
      · simp [hnan, h.fparse_nan, normNaN]
      · have hnan' : isNaN n = false := by simpa using hnan
        by_cases hp : n = posInf
        · subst hp; simp [hnan', h.fparse_pinf, normNaN]
        · by_cases hq : n = negInf
          · subst hq; simp [hnan', hp, h.fparse_ninf, normNaN]
          · simp [hnan', hp, hq, h.fparse_ffmt n hs hnan' hp hq, normNaN]
  | bytes b =>
    cases ty <;> simp [leafOk] at hok <;> simp only [leafJson, readLeaf, normLeaf]
    case bytes => simp [h.unb64_b64 b (hb b rfl (Or.inl rfl))]
    case id k =>
      have hbo := hb b rfl (Or.inr ⟨k, rfl⟩)
      simp only [h.hex_noquote]
      rcases hok with h0 | ⟨h1, h2⟩
      · subst h0
        have : T.hex [] = [] := List.length_eq_zero_iff.mp (by rw [h.hex_length]; rfl)
        simp [this]
      · have hne : (T.hex b).isEmpty = false := by
          cases hh : T.hex b with
          | nil =>
            have := h.hex_length b; rw [hh] at this; simp at this
            have hb0 : b = [] := List.length_eq_zero_iff.mp (by omega)
            subst hb0; simp [allZero] at h2
          | cons _ _ => rfl
        simp [hne, h.hex_length, h1, h.unhex_hex b hbo, h2]
  | nil => cases ty <;> simp [leafOk] at hok
  | cons _ _ => cases ty <;> simp [leafOk] at hok


/-- proof device: the per-member dispatch of `fromJ` -/
def slotRead (S : Schema) (T : Txt) (D : List Val) (f : Field) (alt : Bool) (cur : Val) (j : Json) : Option Val :=
  match f.ty with
  | .msg sub =>
    if alt then (fromJ S T D sub (D.getD sub .nil) j).map (fun x => Val.cons (.num f.num) (.cons x .nil))
    else if f.card = .req then fromJ S T D sub cur j
    else fromJ.fromJArr S T D sub cur j
  | ty =>
    if !alt ∧ (f.card = .rep ∨ f.card = .packed) then readLeafArr S T ty cur j
    else (readLeaf S T ty j).map (fun x => if alt then Val.cons (.num f.num) (.cons x .nil) else x)

theorem fromJ_onil (S : Schema) (T : Txt) (D : List Val) (m : Nat) (acc : Val) : fromJ S T D m acc .onil = some acc := by
  rw [fromJ]

theorem fromJ_step (S : Schema) (T : Txt) (D : List Val) (m : Nat) (acc : Val) (k : List Nat) (v tl : Json) (hit : Hit)
    (hkey : (jsonKeysOf S m).any (fun s => str s == k) = true)
    (hfind : findKey (S.slots m) 0 k = some hit) :
    fromJ S T D m acc (.ocons k v tl) =
      match slotRead S T D hit.f hit.alt (Val.get acc hit.idx) v with
      | some nv => fromJ S T D m (Val.set acc hit.idx nv) tl
      | none => none := by
  rw [fromJ]
  simp only [jsonKeysOf] at hkey
  simp only [hkey, Bool.not_true, Bool.false_eq_true, if_false, hfind, slotRead]
  cases hty : hit.f.ty <;> simp only [] <;>
    (first
      | (cases halt : hit.alt <;> simp <;> (try (by_cases hc : hit.f.card = .req <;> simp [hc])) <;> (split <;> simp_all))
      | skip)
  all_goals (first | rfl | (split <;> rfl) | (split <;> simp_all) | trace_state)


def JAt (S : Schema) (m : Nat) (all : List Slot) (i : Nat) : Slot → Prop
  | .one f => covered S m f = true → findKey all 0 (str f.json) = some ⟨i, f, false⟩
  | .oneof _ alts => ∀ a, a ∈ alts → covered S m a = true → findKey all 0 (str a.json) = some ⟨i, a, true⟩

theorem jslotsOk_at (S : Schema) (m : Nat) (all : List Slot) : ∀ (pre' : List Slot) (i : Nat) (s : Slot) (post : List Slot),
    jslotsOkFrom S m all (pre' ++ s :: post) i = true → JAt S m all (i + pre'.length) s := by
  intro pre'
  induction pre' with
  | nil =>
    intro i s post h
    cases s with
    | one f =>
      simp only [List.nil_append, jslotsOkFrom, Bool.and_eq_true, Bool.or_eq_true, Bool.not_eq_true', beq_iff_eq] at h
      intro hc
      rcases h.1 with h1 | h1
      · rw [hc] at h1; cases h1
      · simpa using h1
    | oneof g alts =>
      simp only [List.nil_append, jslotsOkFrom, Bool.and_eq_true, List.all_eq_true, Bool.or_eq_true, Bool.not_eq_true', beq_iff_eq] at h
      intro a ha hc
      rcases h.1 a ha with h1 | h1
      · rw [hc] at h1; cases h1
      · simpa using h1
  | cons s' pre' ih =>
    intro i s post h
    have h' : jslotsOkFrom S m all (pre' ++ s :: post) (i + 1) = true := by
      cases s' with
      | one f => simp only [List.cons_append, jslotsOkFrom, Bool.and_eq_true] at h; exact h.2
      | oneof g alts => simp only [List.cons_append, jslotsOkFrom, Bool.and_eq_true] at h; exact h.2
    have := ih (i + 1) s post h'
    simp only [List.length_cons]
    rw [show i + (pre'.length + 1) = i + 1 + pre'.length by omega]
    exact this

theorem jwf_slots {S : Schema} (h : JWF S = true) (m : Nat) : jslotsOkFrom S m (S.slots m) (S.slots m) 0 = true := by
  simp only [JWF, List.all_eq_true, List.mem_range] at h
  by_cases hm : m < S.msgs.length
  · exact h m hm
  · have : S.slots m = [] := by
      simp only [Schema.slots]
      rw [List.getElem?_eq_none (by omega)]; rfl
    rw [this]; rfl


/-! unfolding lemmas -/
theorem toJ_slots_one (S : Schema) (T : Txt) (f : Field) (ss : List Slot) (x xs : Val) :
    toJ S T (.slots (.one f :: ss)) (.cons x xs) =
      if jsonOmit f x then toJ S T (.slots ss) xs
      else .ocons (str f.json) (toJ S T (.slot (.one f)) x) (toJ S T (.slots ss) xs) := by
  conv => lhs; rw [toJ]
theorem toJ_slots_oneof (S : Schema) (T : Txt) (g : String) (alts : List Field) (ss : List Slot) (x xs : Val) :
    toJ S T (.slots (.oneof g alts :: ss)) (.cons x xs) =
      match oneofKey alts x with
      | some key => .ocons key (toJ S T (.slot (.oneof g alts)) x) (toJ S T (.slots ss) xs)
      | none => toJ S T (.slots ss) xs := by
  conv => lhs; rw [toJ]
  cases oneofKey alts x <;> rfl
theorem normV_slots_cons (S : Schema) (s : Slot) (ss : List Slot) (x xs : Val) :
    normV S (.slots (s :: ss)) (.cons x xs) = .cons (normV S (.slot s) x) (normV S (.slots ss) xs) := by
  conv => lhs; rw [normV]
theorem jcov_slots_cons (S : Schema) (m : Nat) (s : Slot) (ss : List Slot) (x xs : Val) :
    jcov S m (.slots (s :: ss)) (.cons x xs) = (jcov S m (.slot s) x && jcov S m (.slots ss) xs) := by
  conv => lhs; rw [jcov]
theorem jcov_slot_one (S : Schema) (m : Nat) (f : Field) (v : Val) :
    jcov S m (.slot (.one f)) v = (jsonOmit f v || (covered S m f &&
      (match f.card with
       | .rep | .packed => jcov S m (.reps f) v
       | _ => jcov S m (.elem f) v))) := by
  conv => lhs; rw [jcov]
  cases f with | mk num go json orig ty card => cases card <;> rfl
theorem jcov_slot_oneof (S : Schema) (m : Nat) (g : String) (alts : List Field) (k : Nat) (p : Val) :
    jcov S m (.slot (.oneof g alts)) (.cons (.num k) (.cons p .nil)) =
      match findAlt alts k with
      | some a => covered S m a && jcov S m (.elem a) p
      | none => true := by
  conv => lhs; rw [jcov]
  cases findAlt alts k <;> rfl
theorem conf_slot_oneof (S : Schema) (api : Bool) (g : String) (alts : List Field) (k : Nat) (p : Val) :
    conf S api (.slot (.oneof g alts)) (.cons (.num k) (.cons p .nil)) =
      match findAlt alts k with
      | some a => conf S api (.elem a) p
      | none => false := by
  conv => lhs; rw [conf]
  cases findAlt alts k <;> rfl
theorem conf_slot_one (S : Schema) (api : Bool) (f : Field) (v : Val) :
    conf S api (.slot (.one f)) v =
      match f.card with
      | .opt => leafOk f.ty v && !(f.ty == .double && v == .num (2 ^ 63))
      | .req => conf S api (.elem f) v
      | .rep => conf S api (.reps f) v
      | .packed => packedOk f.ty v := by
  conv => lhs; rw [conf]
  cases f with | mk num go json orig ty card => cases card <;> rfl
theorem normV_reps_cons (S : Schema) (f : Field) (e rest : Val) :
    normV S (.reps f) (.cons e rest) = .cons (normV S (.elem f) e) (normV S (.reps f) rest) := by
  conv => lhs; rw [normV]
theorem jcov_reps_cons (S : Schema) (m : Nat) (f : Field) (e rest : Val) :
    jcov S m (.reps f) (.cons e rest) = (jcov S m (.elem f) e && jcov S m (.reps f) rest) := by
  conv => lhs; rw [jcov]
theorem toJ_reps_cons (S : Schema) (T : Txt) (f : Field) (e rest : Val) :
    toJ S T (.reps f) (.cons e rest) = .acons (toJ S T (.elem f) e) (toJ S T (.reps f) rest) := by
  conv => lhs; rw [toJ]
theorem normV_slot_one (S : Schema) (f : Field) (v : Val) :
    normV S (.slot (.one f)) v =
      match f.card with
      | .rep | .packed => normV S (.reps f) v
      | _ => normV S (.elem f) v := by
  conv => lhs; rw [normV]
  cases f with | mk num go json orig ty card => cases card <;> rfl
theorem toJ_slot_one (S : Schema) (T : Txt) (f : Field) (v : Val) :
    toJ S T (.slot (.one f)) v =
      match f.card with
      | .rep | .packed => toJ S T (.reps f) v
      | _ => toJ S T (.elem f) v := by
  conv => lhs; rw [toJ]
  cases f with | mk num go json orig ty card => cases card <;> rfl
theorem toJ_slots_nil (S : Schema) (T : Txt) (v : Val) : toJ S T (.slots []) v = .onil := by
  rw [toJ]; intro s ss x xs _ h; cases h
theorem toJ_elem_msg (S : Schema) (T : Txt) (f : Field) (v : Val) (sub : Nat) (hty : f.ty = .msg sub) :
    toJ S T (.elem f) v = toJ S T (.slots (S.slots sub)) v := by
  (conv => lhs; rw [toJ]); simp [hty]
theorem toJ_elem_leaf (S : Schema) (T : Txt) (f : Field) (v : Val) (hty : ∀ sub, f.ty ≠ .msg sub) :
    toJ S T (.elem f) v = leafJson T f.ty v := by
  (conv => lhs; rw [toJ]); split
  · next sub h => exact absurd h (hty sub)
  · rfl
theorem jcov_elem_msg (S : Schema) (m : Nat) (f : Field) (v : Val) (sub : Nat) (hty : f.ty = .msg sub) :
    jcov S m (.elem f) v = jcov S sub (.slots (S.slots sub)) v := by
  (conv => lhs; rw [jcov.eq_def]); simp [hty]

theorem normLeaf_nil (ty : Ty) : normLeaf ty .nil = .nil := by cases ty <;> rfl

theorem normV_nil (S : Schema) (md : Mode) : normV S md .nil = .nil := by
  cases md with
  | slots ss => rw [normV]; intro s ss' x xs h; cases h
  | elem f =>
    rw [normV]; split
    · next sub _ => rw [normV]; intro s ss' x xs h; cases h
    · exact normLeaf_nil _
  | reps f => rw [normV]; intro e r h; cases h
  | slot s =>
    cases s with
    | one f =>
      rw [normV]
      have h1 : normV S (.reps f) .nil = .nil := by rw [normV]; intro e r h; cases h
      have h2 : normV S (.elem f) .nil = .nil := by
        rw [normV]; split
        · next sub _ => rw [normV]; intro s ss' x xs h; cases h
        · exact normLeaf_nil _
      split <;> assumption
    | oneof g alts => rw [normV]; intro k p h; cases h

theorem proper_normV_slots (S : Schema) : ∀ (v : Val) (rem : List Slot), proper v = true → proper (normV S (.slots rem) v) = true := by
  intro v
  induction v with
  | cons x xs _ ih =>
    intro rem h
    cases rem with
    | nil => rw [normV]; exact h; intro s ss x' xs' _ h'; cases h'
    | cons s ss => rw [normV_slots_cons]; simp only [proper] at h ⊢; exact ih ss h
  | nil => intro rem _; rw [normV_nil]; rfl
  | _ => intro rem h; simp [proper] at h

theorem packedOk_conf_reps (S : Schema) (f : Field) (hs : isScalar f.ty = true) : ∀ v, packedOk f.ty v = true → conf S false (.reps f) v = true := by
  intro v
  induction v with
  | cons h t _ iht =>
    intro hp
    cases h with
    | num n =>
      simp only [packedOk, Bool.and_eq_true] at hp
      rw [conf_reps_cons, Bool.and_eq_true]
      refine ⟨?_, iht hp.2⟩
      rw [conf_elem_leaf S f _ (by intro sub h; simp [h, isScalar] at hs)]
      rw [← hp.1]; cases f.ty <;> rfl
    | _ => simp [packedOk] at hp
  | nil => intro _; rw [conf]
  | _ => intro hp; simp [packedOk] at hp

theorem normNaN_zero : normNaN 0 = 0 := by decide

/-- an omitted plain field holds its default, which normalisation leaves alone -/
theorem omit_default (S : Schema) (D : List Val) (f : Field) (x : Val) (hf : fieldOk false f = true)
    (hc : conf S false (.slot (.one f)) x = true) (ho : jsonOmit f x = true) :
    x = slotDefault D (.one f) ∧ normV S (.slot (.one f)) x = x := by
  rw [conf_slot_one] at hc
  cases hcard : f.card <;> simp only [hcard, jsonOmit] at hc ho
  · -- opt
    simp only [Bool.and_eq_true, Bool.not_eq_true'] at hc
    have hx := opt_zero_default D f x hcard hf hc.1 hc.2 ho
    refine ⟨hx, ?_⟩
    rw [normV_slot_one]; simp only [hcard]
    have hty : ∀ sub, f.ty ≠ .msg sub := by intro sub h; simp [fieldOk, hcard, h] at hf
    rw [normV]; split
    · next sub h => exact absurd h (hty sub)
    · rw [hx]; simp only [slotDefault, hcard]
      cases f.ty <;> simp [isScalar, normLeaf, normNaN_zero]
  · cases ho
  · -- rep
    have hx : x = .nil := by
      cases x with
      | cons a b => simp [Val.isCons] at ho
      | nil => rfl
      | _ => simp [conf] at hc
    subst hx
    exact ⟨by simp [slotDefault, hcard], normV_nil S _⟩
  · -- packed
    have hx : x = .nil := by
      cases x with
      | cons a b => simp [Val.isCons] at ho
      | nil => rfl
      | _ => simp [packedOk] at hc
    subst hx
    exact ⟨by simp [slotDefault, hcard], normV_nil S _⟩

/-- the JSON round-trip statement, per mode of `toJ` -/
def JRT (S : Schema) (T : Txt) (D : List Val) : Mode → Val → Prop
  | .slots rem, v => ∀ (m : Nat) (pre : List Slot) (done : List Val),
      S.slots m = pre ++ rem → done.length = pre.length →
      conf S false (.slots rem) v = true → jcov S m (.slots rem) v = true →
      fromJ S T D m (Val.ofList (done ++ rem.map (slotDefault D))) (toJ S T (.slots rem) v)
        = some (Val.ofList (done ++ Val.toList (normV S (.slots rem) v)))
  | .elem f, v => ∀ (m : Nat), conf S false (.elem f) v = true → jcov S m (.elem f) v = true →
      (∀ sub, f.ty = .msg sub →
        fromJ S T D sub (D.getD sub .nil) (toJ S T (.elem f) v) = some (normV S (.elem f) v)) ∧
      ((∀ sub, f.ty ≠ .msg sub) → readLeaf S T f.ty (toJ S T (.elem f) v) = some (normV S (.elem f) v))
  | .reps f, v => ∀ (m : Nat) (cur : Val), conf S false (.reps f) v = true → jcov S m (.reps f) v = true →
      proper cur = true →
      (∀ sub, f.ty = .msg sub →
        fromJ.fromJArr S T D sub cur (toJ S T (.reps f) v) = some (app cur (normV S (.reps f) v))) ∧
      ((∀ sub, f.ty ≠ .msg sub) →
        readLeafArr S T f.ty cur (toJ S T (.reps f) v) = some (app cur (normV S (.reps f) v)))
  | .slot (.one f), v => ∀ (m : Nat), fieldOk false f = true → conf S false (.slot (.one f)) v = true →
      jsonOmit f v = false → jcov S m (.slot (.one f)) v = true →
      slotRead S T D f false (slotDefault D (.one f)) (toJ S T (.slot (.one f)) v) = some (normV S (.slot (.one f)) v)
  | .slot (.oneof g alts), v => ∀ (m k : Nat) (p : Val) (a : Field) (cur : Val),
      v = .cons (.num k) (.cons p .nil) → findAlt alts k = some a → fieldOk true a = true →
      conf S false (.elem a) p = true → jcov S m (.elem a) p = true →
      slotRead S T D a true cur (toJ S T (.slot (.oneof g alts)) v) = some (normV S (.slot (.oneof g alts)) v)

theorem jrt_all (S : Schema) (T : Txt) (D : List Val) (hT : TxtLaws T)
    (hwf : ∀ m, slotsOkFrom (S.slots m) (S.slots m) 0 = true)
    (hj : ∀ m, jslotsOkFrom S m (S.slots m) (S.slots m) 0 = true)
    (hD : ∀ sub, D.getD sub .nil = msgDefault D (S.slots sub)) :
    ∀ mode v, JRT S T D mode v := by
  intro mode v
  fun_induction toJ S T mode v
  case case1 ss x xs f ho ih1 =>
    intro m pre done hsl hlen hconf hcov
    rw [conf_slots_cons, Bool.and_eq_true] at hconf
    rw [jcov_slots_cons, Bool.and_eq_true] at hcov
    have hat : SlotAt (S.slots m) pre.length (.one f) := by
      have := slotsOk_at (S.slots m) pre 0 (.one f) ss (by rw [← hsl]; exact hwf m)
      simpa using this
    obtain ⟨hx, hn⟩ := omit_default S D f x hat.1 hconf.1 ho
    rw [toJ_slots_one, normV_slots_cons, hn]
    simp only [ho, if_true, List.map_cons, Val.toList]
    have h2 := ih1 m (pre ++ [.one f]) (done ++ [x]) (by simp [hsl]) (by simp [hlen]) hconf.2 hcov.2
    simp only [List.append_assoc, List.singleton_append] at h2
    rw [← hx]; exact h2
  case case2 ss x xs f ho ih2 ih1 =>
    intro m pre done hsl hlen hconf hcov
    have ho' : jsonOmit f x = false := by simpa using ho
    rw [conf_slots_cons, Bool.and_eq_true] at hconf
    rw [jcov_slots_cons, Bool.and_eq_true] at hcov
    have hat : SlotAt (S.slots m) pre.length (.one f) := by
      have := slotsOk_at (S.slots m) pre 0 (.one f) ss (by rw [← hsl]; exact hwf m)
      simpa using this
    have hjat : JAt S m (S.slots m) pre.length (.one f) := by
      have := jslotsOk_at S m (S.slots m) pre 0 (.one f) ss (by rw [← hsl]; exact hj m)
      simpa using this
    have hc1 := hcov.1
    rw [jcov_slot_one, ho', Bool.false_or, Bool.and_eq_true] at hc1
    have hfind := hjat hc1.1
    rw [toJ_slots_one, normV_slots_cons]
    simp only [ho', Bool.false_eq_true, if_false, List.map_cons, Val.toList]
    rw [fromJ_step S T D m _ (str f.json) _ _ ⟨pre.length, f, false⟩ hc1.1 hfind]
    simp only []
    rw [← hlen, get_ofList_append, ih2 m hat.1 hconf.1 ho' hcov.1]
    simp only []
    rw [set_ofList_append]
    have h2 := ih1 m (pre ++ [.one f]) (done ++ [normV S (.slot (.one f)) x]) (by simp [hsl]) (by simp [hlen]) hconf.2 hcov.2
    simp only [List.append_assoc, List.singleton_append] at h2
    exact h2
  case case3 ss x xs g alts key hk ih2 ih1 =>
    intro m pre done hsl hlen hconf hcov
    rw [conf_slots_cons, Bool.and_eq_true] at hconf
    rw [jcov_slots_cons, Bool.and_eq_true] at hcov
    -- shape of x
    obtain ⟨k, p, a, hx, hfa, hkey⟩ : ∃ k p a, x = .cons (.num k) (.cons p .nil) ∧ findAlt alts k = some a ∧ key = str a.json := by
      cases x with
      | cons h t =>
        cases h with
        | num k =>
          simp only [oneofKey, Option.map_eq_some_iff] at hk
          obtain ⟨a, hfa, hkey⟩ := hk
          cases t with
          | cons p c =>
            cases c with
            | nil => exact ⟨k, p, a, rfl, hfa, hkey.symm⟩
            | _ => simp [conf] at hconf
          | _ => simp [conf] at hconf
        | _ => simp [oneofKey] at hk
      | _ => simp [oneofKey] at hk
    subst hx
    obtain ⟨hmem, hnum⟩ := mem_of_findAlt hfa
    have hat : SlotAt (S.slots m) pre.length (.oneof g alts) := by
      have := slotsOk_at (S.slots m) pre 0 (.oneof g alts) ss (by rw [← hsl]; exact hwf m)
      simpa using this
    have hjat : JAt S m (S.slots m) pre.length (.oneof g alts) := by
      have := jslotsOk_at S m (S.slots m) pre 0 (.oneof g alts) ss (by rw [← hsl]; exact hj m)
      simpa using this
    obtain ⟨hfok, _, _⟩ := hat a hmem
    have hc1 := hcov.1
    rw [jcov_slot_oneof] at hc1
    simp only [hfa, Bool.and_eq_true] at hc1
    have hcf := hconf.1
    rw [conf_slot_oneof] at hcf
    simp only [hfa] at hcf
    have hfind := hjat a hmem hc1.1
    rw [toJ_slots_oneof, normV_slots_cons]
    simp only [hk, List.map_cons, Val.toList]
    rw [hkey, fromJ_step S T D m _ (str a.json) _ _ ⟨pre.length, a, true⟩ hc1.1 hfind]
    simp only []
    rw [ih2 m k p a _ rfl hfa hfok hcf hc1.2]
    simp only []
    rw [← hlen, set_ofList_append]
    have h2 := ih1 m (pre ++ [.oneof g alts]) (done ++ [normV S (.slot (.oneof g alts)) (.cons (.num k) (.cons p .nil))])
      (by simp [hsl]) (by simp [hlen]) hconf.2 hcov.2
    simp only [List.append_assoc, List.singleton_append] at h2
    exact h2
  case case4 ss x xs g alts hk ih1 =>
    intro m pre done hsl hlen hconf hcov
    rw [conf_slots_cons, Bool.and_eq_true] at hconf
    rw [jcov_slots_cons, Bool.and_eq_true] at hcov
    have hx : x = .nil := by
      cases x with
      | nil => rfl
      | cons h t =>
        cases h with
        | num k =>
          cases t with
          | cons p c =>
            cases c with
            | nil =>
              have hcf := hconf.1
              rw [conf_slot_oneof] at hcf
              cases hfa : findAlt alts k with
              | none => simp [hfa] at hcf
              | some a => simp [oneofKey, hfa] at hk
            | _ => simp [conf] at hconf
          | _ => simp [conf] at hconf
        | _ => simp [conf] at hconf
      | _ => simp [conf] at hconf
    subst hx
    rw [toJ_slots_oneof, normV_slots_cons, normV_nil]
    simp only [hk, List.map_cons, Val.toList]
    have h2 := ih1 m (pre ++ [.oneof g alts]) (done ++ [.nil]) (by simp [hsl]) (by simp [hlen]) hconf.2 hcov.2
    simp only [List.append_assoc, List.singleton_append] at h2
    simpa [slotDefault] using h2
  case case5 ss v hne =>
    intro m pre done hsl hlen hconf hcov
    have hv : ss = [] ∧ v = .nil := by
      cases ss with
      | nil => cases v <;> simp [conf] at hconf; exact ⟨rfl, rfl⟩
      | cons s ss =>
        cases v with
        | cons x xs => exact (hne s ss x xs rfl rfl).elim
        | _ => simp [conf] at hconf
    obtain ⟨h1, h2⟩ := hv
    subst h1; subst h2
    rw [normV_nil, toJ_slots_nil, fromJ_onil]
    simp [Val.toList]
  case case6 f v sub hty ih =>
    intro m hconf hcov
    have hconf' : conf S false (.slots (S.slots sub)) v = true := by rw [conf] at hconf; simpa [hty] using hconf
    have hcov' : jcov S sub (.slots (S.slots sub)) v = true := by rw [jcov_elem_msg S m f v sub hty] at hcov; exact hcov
    have hn : normV S (.elem f) v = normV S (.slots (S.slots sub)) v := by
      (conv => lhs; rw [normV]); simp [hty]
    refine ⟨?_, fun h => absurd hty (h sub)⟩
    intro sub' hty'
    have hs : sub' = sub := by rw [hty] at hty'; cases hty'; rfl
    subst hs
    have := ih sub' [] [] (by simp) rfl hconf' hcov'
    simp only [List.nil_append] at this
    rw [toJ_elem_msg S T f v sub' hty, hD sub', msgDefault, this, hn, ofList_toList _ (proper_normV_slots S v _ (conf_slots_proper S false v _ hconf'))]
  case case7 f v hty =>
    intro m hconf hcov
    have hty' : ∀ sub, f.ty ≠ .msg sub := fun sub h => hty sub h
    refine ⟨fun sub h => absurd h (hty' sub), fun _ => ?_⟩
    rw [conf_elem_leaf S f v hty'] at hconf
    have hn : normV S (.elem f) v = normLeaf f.ty v := by
      (conv => lhs; rw [normV]); split
      · next sub h => exact absurd h (hty' sub)
      · rfl
    rw [hn, toJ_elem_leaf S T f v hty']
    refine readLeaf_leafJson S T hT f.ty v hty' hconf ?_
    intro b hv hbty
    subst hv
    rw [jcov] at hcov
    rcases hbty with h | ⟨k, h⟩ <;> simpa [h] using hcov
  case case8 f e rest ih2 ih1 =>
    intro m cur hconf hcov hp
    rw [conf_reps_cons, Bool.and_eq_true] at hconf
    rw [jcov_reps_cons, Bool.and_eq_true] at hcov
    obtain ⟨he1, he2⟩ := ih2 m hconf.1 hcov.1
    rw [toJ_reps_cons, normV_reps_cons]
    constructor
    · intro sub hty
      rw [fromJ.fromJArr, he1 sub hty]
      simp only []
      rw [(ih1 m (Val.snoc cur (normV S (.elem f) e)) hconf.2 hcov.2 (proper_snoc _ _)).1 sub hty, snoc_eq_app, app_assoc]
      simp [app]
    · intro hty
      rw [readLeafArr, he2 hty]
      simp only []
      rw [(ih1 m (Val.snoc cur (normV S (.elem f) e)) hconf.2 hcov.2 (proper_snoc _ _)).2 hty, snoc_eq_app, app_assoc]
      simp [app]
  case case9 f v hne =>
    intro m cur hconf hcov hp
    have hv := conf_reps_nil S f v hne hconf
    subst hv
    have ht : toJ S T (.reps f) .nil = .anil := by rw [toJ]; intro e r h; cases h
    rw [ht, normV_nil, app_nil _ hp]
    constructor
    · intro sub _; rw [fromJ.fromJArr]
    · intro _; rw [readLeafArr]
  case case10 f v hc ih =>
    intro m hf hconf ho hcov
    rw [conf_slot_one] at hconf; simp only [hc] at hconf
    rw [jcov_slot_one, ho, Bool.false_or, Bool.and_eq_true] at hcov
    simp only [hc] at hcov
    rw [toJ_slot_one, normV_slot_one]; simp only [hc]
    obtain ⟨h1, h2⟩ := ih m .nil hconf hcov.2 rfl
    simp only [slotRead, slotDefault, hc]
    cases hty : f.ty with
    | msg sub => simp only []; simp [h1 sub hty, app]
    | _ =>
      simp only [Bool.not_false, true_and, true_or, and_self, if_true]
      rw [← hty, h2 (by intro sub h; rw [hty] at h; cases h)]; simp [app]
  case case11 f v hc ih =>
    intro m hf hconf ho hcov
    rw [conf_slot_one] at hconf; simp only [hc] at hconf
    rw [jcov_slot_one, ho, Bool.false_or, Bool.and_eq_true] at hcov
    simp only [hc] at hcov
    have hs : isScalar f.ty = true := by
      simp only [fieldOk, hc, Bool.false_eq_true, if_false, Bool.and_eq_true] at hf; exact hf.2
    rw [toJ_slot_one, normV_slot_one]; simp only [hc]
    obtain ⟨_, h2⟩ := ih m .nil (packedOk_conf_reps S f hs v hconf) hcov.2 rfl
    have hty' : ∀ sub, f.ty ≠ .msg sub := by intro sub h; simp [h, isScalar] at hs
    simp only [slotRead, slotDefault, hc]
    cases hty : f.ty with
    | msg sub => exact absurd hty (hty' sub)
    | _ =>
      simp only [Bool.not_false, true_and, or_true, and_self, if_true]
      rw [← hty, h2 hty']; simp [app]
  case case12 f v hc1 hc2 ih =>
    intro m hf hconf ho hcov
    have hcard : f.card = .opt ∨ f.card = .req := by
      cases h : f.card
      · exact Or.inl rfl
      · exact Or.inr rfl
      · exact (hc1 h).elim
      · exact (hc2 h).elim
    rw [jcov_slot_one, ho, Bool.false_or, Bool.and_eq_true] at hcov
    rw [conf_slot_one] at hconf
    rw [toJ_slot_one, normV_slot_one]
    rcases hcard with hc | hc
    · -- opt: a leaf
      simp only [hc, Bool.and_eq_true] at hconf hcov ⊢
      have hty' : ∀ sub, f.ty ≠ .msg sub := by intro sub h; simp [fieldOk, hc, h] at hf
      obtain ⟨_, h2⟩ := ih m (by rw [conf_elem_leaf S f v hty']; exact hconf.1) hcov.2
      simp only [slotRead]
      cases hty : f.ty with
      | msg sub => exact absurd hty (hty' sub)
      | _ =>
        simp only [hc, Bool.not_false, true_and, reduceCtorEq, or_self, if_false, Bool.false_eq_true]
        rw [← hty, h2 hty']; rfl
    · -- req: embedded message or id
      simp only [hc] at hconf hcov ⊢
      obtain ⟨h1, h2⟩ := ih m hconf hcov.2
      simp only [slotRead]
      cases hty : f.ty with
      | msg sub =>
        simp only [hc, Bool.false_eq_true, if_false, if_true]
        have : slotDefault D (.one f) = D.getD sub .nil := by simp [slotDefault, hc, hty]
        rw [this]; exact h1 sub hty
      | _ =>
        simp only [hc, Bool.not_false, true_and, reduceCtorEq, or_self, if_false, Bool.false_eq_true]
        rw [← hty, h2 (by intro sub h; rw [hty] at h; cases h)]; rfl
  case case13 g alts k p a hfa ih =>
    intro m k' p' a' cur hv hfa' hfok hconf hcov
    cases hv
    rw [hfa] at hfa'; cases hfa'
    obtain ⟨_, hnum⟩ := mem_of_findAlt hfa
    obtain ⟨h1, h2⟩ := ih m hconf hcov
    have ht : toJ S T (.slot (.oneof g alts)) (.cons (.num k) (.cons p .nil)) = toJ S T (.elem a) p := by
      (conv => lhs; rw [toJ]); simp [hfa]
    have hn : normV S (.slot (.oneof g alts)) (.cons (.num k) (.cons p .nil)) = .cons (.num k) (.cons (normV S (.elem a) p) .nil) := by
      (conv => lhs; rw [normV]); simp [hfa]
    rw [ht, hn]
    simp only [slotRead]
    cases hty : a.ty with
    | msg sub => simp only [if_true]; rw [h1 sub hty]; simp [hnum]
    | _ =>
      simp only [Bool.not_true, Bool.false_eq_true, false_and, if_false, if_true]
      rw [← hty, h2 (by intro sub h; rw [hty] at h; cases h)]; simp [hnum]
  case case14 g alts k p hfa =>
    intro m k' p' a' cur hv hfa' _ _ _
    cases hv
    rw [hfa] at hfa'; cases hfa'
  case case15 g alts v hne =>
    intro m k p a cur hv _ _ _ _
    exact (hne k p hv).elim

end OtelVerif.C08
