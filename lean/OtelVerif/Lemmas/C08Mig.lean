import OtelVerif.Lemmas.C08
/-! helper lemmas for C08: `otlp.Migrate*` is idempotent and a no-op when no deprecated data is present. Core Lean only. -/
namespace OtelVerif.C08
open OtelVerif.Wire OtelVerif.Proto

theorem get_set_ne (v : Val) : ∀ (i d : Nat) (x : Val), i ≠ d → Val.get (Val.set v d x) i = Val.get v i := by
  induction v with
  | cons h t _ iht =>
    intro i d x hne
    cases d with
    | zero =>
      cases i with
      | zero => exact absurd rfl hne
      | succ i => simp [Val.set, Val.get]
    | succ d =>
      cases i with
      | zero => simp [Val.set, Val.get]
      | succ i => simp only [Val.set, Val.get]; exact iht i d x (by omega)
  | _ => intro i d x _; cases d <;> simp [Val.set]

/-- reading back a written slot gives the written value, or `nil` when the index is outside the chain -/
theorem get_set_self_or (v : Val) : ∀ (i : Nat) (x : Val), Val.get (Val.set v i x) i = x ∨
    (Val.get (Val.set v i x) i = .nil ∧ Val.set v i x = v) := by
  induction v with
  | cons h t _ iht =>
    intro i x
    cases i with
    | zero => left; simp [Val.set, Val.get]
    | succ i =>
      simp only [Val.set, Val.get]
      rcases iht i x with h1 | ⟨h1, h2⟩
      · exact Or.inl h1
      · exact Or.inr ⟨h1, by rw [h2]⟩
  | _ => intro i x; right; cases i <;> simp [Val.set, Val.get]

theorem get_set_nil (v : Val) (d : Nat) : Val.get (Val.set v d .nil) d = .nil := by
  rcases get_set_self_or v d .nil with h | ⟨h, _⟩ <;> exact h

theorem set_nil_of_get_nil (v : Val) (i : Nat) (h : Val.get v i = .nil) : Val.set v i .nil = v := by
  rw [← h, set_get_self]

/-- a repeated slot holds a chain: empty or a `cons` -/
def chainy (x : Val) : Prop := x = .nil ∨ x.isCons = true

theorem migrateRes_idem (ss : List Slot) (rv : Val)
    (hne : ∀ i d, slotIdx ss 2 = some i → slotIdx ss 1000 = some d → i ≠ d)
    (hch : ∀ d, slotIdx ss 1000 = some d → chainy (Val.get rv d)) :
    migrateRes ss (migrateRes ss rv) = migrateRes ss rv := by
  unfold migrateRes
  cases hi : slotIdx ss 2 with
  | none => rfl
  | some i =>
    cases hd : slotIdx ss 1000 with
    | none => rfl
    | some d =>
      have hid := hne i d hi hd
      simp only []
      by_cases hc : (Val.get rv i).isCons = true
      · simp only [hc, if_true]
        rw [get_set_ne _ i d _ hid, hc]; simp only [if_true]; rw [set_set]
      · simp only [hc, Bool.false_eq_true, if_false]
        rw [get_set_ne _ i d _ hid]
        rcases get_set_self_or rv i (Val.get rv d) with h1 | ⟨h1, h2⟩
        · -- slot i now holds the deprecated list
          rcases hch d hd with hn | hcons
          · rw [h1, hn]
            simp only [Val.isCons, Bool.false_eq_true, if_false]
            rw [get_set_nil, set_nil_of_get_nil _ i (by rw [get_set_ne _ i d _ hid, ← hn]; exact h1), set_set]
          · rw [h1, hcons]; simp only [if_true]; rw [set_set]
        · rw [h1]
          simp only [Val.isCons, Bool.false_eq_true, if_false]
          rw [get_set_nil, set_nil_of_get_nil _ i (by rw [get_set_ne _ i d _ hid, h1]), set_set]

theorem mapChain_idem (f : Val → Val) : ∀ (l : Val), (∀ x, x ∈ Val.toList l → f (f x) = f x) →
    mapChain f (mapChain f l) = mapChain f l := by
  intro l
  induction l with
  | cons h t _ iht =>
    intro hf
    simp only [mapChain]
    rw [hf h (by simp [Val.toList]), iht (fun x hx => hf x (by simp [Val.toList, hx]))]
  | _ => intro _; simp [mapChain]


/-- hypotheses of the migration lemmas for the resource message with slots `ss` and the resource list `l` -/
def MigOk (ss : List Slot) (l : Val) : Prop :=
  (∀ i d, slotIdx ss 2 = some i → slotIdx ss 1000 = some d → i ≠ d) ∧
  (∀ rv, rv ∈ Val.toList l → ∀ d, slotIdx ss 1000 = some d → chainy (Val.get rv d))

theorem migrate_idem_aux (S : Schema) (m : Nat) (v : Val)
    (h : ∀ f rest r, S.slots m = .one f :: rest → f.ty = .msg r → MigOk (S.slots r) (Val.get v 0)) :
    migrate S m (migrate S m v) = migrate S m v := by
  unfold migrate
  cases hs : S.slots m with
  | nil => rfl
  | cons s rest =>
    cases s with
    | oneof g alts => rfl
    | one f =>
      simp only []
      cases hty : f.ty <;> simp only []
      next r =>
        obtain ⟨hne, hch⟩ := h f rest r hs hty
        rcases get_set_self_or v 0 (mapChain (migrateRes (S.slots r)) (Val.get v 0)) with h1 | ⟨_, h2⟩
        · rw [h1, set_set, mapChain_idem _ _ (fun x hx => migrateRes_idem _ x hne (hch x hx))]
        · rw [h2]; exact h2

theorem mapChain_id (f : Val → Val) : ∀ (l : Val), (∀ x, x ∈ Val.toList l → f x = x) → mapChain f l = l := by
  intro l
  induction l with
  | cons h t _ iht =>
    intro hf
    simp only [mapChain]
    rw [hf h (by simp [Val.toList]), iht (fun x hx => hf x (by simp [Val.toList, hx]))]
  | _ => intro _; simp [mapChain]

/-- a resource whose deprecated list is empty (and whose regular list is a chain) is left alone -/
theorem migrateRes_noop (ss : List Slot) (rv : Val)
    (hd : ∀ d, slotIdx ss 1000 = some d → Val.get rv d = .nil)
    (hi : ∀ i, slotIdx ss 2 = some i → chainy (Val.get rv i)) : migrateRes ss rv = rv := by
  unfold migrateRes
  cases h2 : slotIdx ss 2 with
  | none => rfl
  | some i =>
    cases h1000 : slotIdx ss 1000 with
    | none => rfl
    | some d =>
      simp only []
      rcases hi i h2 with hn | hc
      · rw [hn, hd d h1000]
        simp only [Val.isCons, Bool.false_eq_true, if_false]
        rw [set_nil_of_get_nil rv i hn, set_nil_of_get_nil rv d (hd d h1000)]
      · rw [hc]; simp only [if_true]; exact set_nil_of_get_nil rv d (hd d h1000)

theorem migrate_noop_aux (S : Schema) (m : Nat) (v : Val)
    (h : ∀ f rest r, S.slots m = .one f :: rest → f.ty = .msg r → ∀ rv, rv ∈ Val.toList (Val.get v 0) →
      (∀ d, slotIdx (S.slots r) 1000 = some d → Val.get rv d = .nil) ∧
      (∀ i, slotIdx (S.slots r) 2 = some i → chainy (Val.get rv i))) :
    migrate S m v = v := by
  unfold migrate
  cases hs : S.slots m with
  | nil => rfl
  | cons s rest =>
    cases s with
    | oneof g alts => rfl
    | one f =>
      simp only []
      cases hty : f.ty <;> simp only []
      next r =>
        rw [mapChain_id _ _ (fun x hx => migrateRes_noop _ x (h f rest r hs hty x hx).1 (h f rest r hs hty x hx).2), set_get_self]

end OtelVerif.C08
