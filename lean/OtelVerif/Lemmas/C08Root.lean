import OtelVerif.Lemmas.C08Api
/-! helper lemmas for C08: `otlp.Migrate*` keeps decoder-shaped values decoder-shaped, and the API observation of a migrated
decoder result is a fixed point of migration (root-level fixed point). Core Lean only. -/
namespace OtelVerif.C08
open OtelVerif.Wire OtelVerif.Proto

theorem confD_reps_congr (S : Schema) (f g : Field) (hty : f.ty = g.ty) : ∀ x, confD S (.reps f) x = confD S (.reps g) x := by
  intro x
  induction x with
  | cons h t _ iht =>
    rw [confD_reps_cons, confD_reps_cons, iht]
    congr 1
    rw [confD.eq_def, confD.eq_def]; simp only [hty]
  | nil => rw [confD_reps_nil, confD_reps_nil]
  | _ => simp [confD]

theorem confD_reps_chainy (S : Schema) (f : Field) (x : Val) (h : confD S (.reps f) x = true) : chainy x := by
  cases x with
  | nil => exact Or.inl rfl
  | cons a b => exact Or.inr rfl
  | _ => simp [confD] at h

/-- `migrateRes` keeps a decoder-shaped resource decoder-shaped -/
theorem confD_migrateRes (S : Schema) (ss : List Slot) (rv : Val) (hsh : migShape2At ss = true)
    (hc : confD S (.slots ss) rv = true) : confD S (.slots ss) (migrateRes ss rv) = true := by
  unfold migrateRes
  cases hi : slotIdx ss 2 with
  | none => exact hc
  | some i =>
    cases hd : slotIdx ss 1000 with
    | none => exact hc
    | some d =>
      simp only [migShape2At, hd, hi, Bool.and_eq_true, bne_iff_ne, ne_eq] at hsh
      obtain ⟨hne, hsl⟩ := hsh
      split at hsl
      · next fd fi hsd hsi =>
        simp only [Bool.and_eq_true, beq_iff_eq] at hsl
        obtain ⟨⟨hcd, hci⟩, hty⟩ := hsl
        have hgd := confD_get S ss rv d _ hc hsd
        rw [confD_slot_one] at hgd; simp only [hcd] at hgd
        have h1 : confD S (.slots ss) (if (Val.get rv i).isCons = true then rv else Val.set rv i (Val.get rv d)) = true := by
          split
          · exact hc
          · apply confD_set S ss rv i _ _ hc hsi
            rw [confD_slot_one]; simp only [hci]
            rw [← confD_reps_congr S fd fi hty]; exact hgd
        simp only []
        apply confD_set S ss _ d _ _ h1 hsd
        rw [confD_slot_one]; simp only [hcd]; exact confD_reps_nil S fd
      · cases hsl

theorem confD_reps_mapChain (S : Schema) (f : Field) (g : Val → Val)
    (hg : ∀ x, confD S (.elem f) x = true → confD S (.elem f) (g x) = true) :
    ∀ l, confD S (.reps f) l = true → confD S (.reps f) (mapChain g l) = true := by
  intro l
  induction l with
  | cons h t _ iht =>
    intro hc
    rw [confD_reps_cons, Bool.and_eq_true] at hc
    simp only [mapChain]; rw [confD_reps_cons, Bool.and_eq_true]; exact ⟨hg h hc.1, iht hc.2⟩
  | nil => intro h; exact h
  | _ => intro h; simp [confD] at h

theorem migShape2_slots {S : Schema} (h : migShape2Ok S = true) (r : Nat) : migShape2At (S.slots r) = true := by
  simp only [migShape2Ok, List.all_eq_true] at h
  simp only [Schema.slots]
  cases hm : S.msgs[r]? with
  | none => rfl
  | some msg => simpa using h msg (List.mem_of_getElem? hm)

/-- `migrate` keeps a decoder-shaped root value decoder-shaped -/
theorem confD_migrate (S : Schema) (hsh : migShape2Ok S = true) (m : Nat) (v : Val)
    (hfirst : ∀ f rest, S.slots m = .one f :: rest → f.card = .rep)
    (hc : confD S (.slots (S.slots m)) v = true) : confD S (.slots (S.slots m)) (migrate S m v) = true := by
  unfold migrate
  cases hs : S.slots m with
  | nil => rw [hs] at hc; exact hc
  | cons s rest =>
    cases s with
    | oneof g alts => rw [hs] at hc; exact hc
    | one f =>
      simp only []
      cases hty : f.ty <;> simp only [] <;> (try (rw [hs] at hc; exact hc))
      next r =>
        have hcard := hfirst f rest hs
        rw [hs] at hc
        have hs0 : (Slot.one f :: rest)[0]? = some (.one f) := rfl
        have hg0 := confD_get S _ v 0 _ hc hs0
        apply confD_set S _ v 0 _ _ hc hs0
        rw [confD_slot_one] at hg0 ⊢; simp only [hcard] at hg0 ⊢
        apply confD_reps_mapChain S f _ _ _ hg0
        intro x hx
        rw [confD_elem_msg S f _ r hty] at hx ⊢
        exact confD_migrateRes S _ x (migShape2_slots hsh r) hx


theorem canon_slots_cons (S : Schema) (s : Slot) (ss : List Slot) (x xs : Val) :
    canon S (.slots (s :: ss)) (.cons x xs) = .cons (canon S (.slot s) x) (canon S (.slots ss) xs) := by
  conv => lhs; rw [canon]
theorem canon_reps_cons (S : Schema) (f : Field) (e rest : Val) :
    canon S (.reps f) (.cons e rest) = .cons (canon S (.elem f) e) (canon S (.reps f) rest) := by
  conv => lhs; rw [canon]
theorem canon_reps_nil (S : Schema) (f : Field) : canon S (.reps f) .nil = .nil := by
  rw [canon]; intro e r h; cases h
theorem canon_slot_one (S : Schema) (f : Field) (v : Val) :
    canon S (.slot (.one f)) v =
      match f.card with
      | .opt => if f.ty == .double && v == .num (2 ^ 63) then .num 0 else v
      | .req => canon S (.elem f) v
      | .rep => canon S (.reps f) v
      | .packed => v := by
  conv => lhs; rw [canon]
  cases f with | mk num go json orig ty card => cases card <;> rfl

theorem get_canon (S : Schema) : ∀ (ss : List Slot) (y : Val) (j : Nat) (s : Slot),
    confD S (.slots ss) y = true → ss[j]? = some s →
    Val.get (canon S (.slots ss) y) j = canon S (.slot s) (Val.get y j) := by
  intro ss
  induction ss with
  | nil => intro y j s _ h; simp at h
  | cons s0 ss ih =>
    intro y j s hc hj
    cases y with
    | cons x xs =>
      rw [confD_slots_cons, Bool.and_eq_true] at hc
      rw [canon_slots_cons]
      cases j with
      | zero => simp at hj; subst hj; simp [Val.get]
      | succ j => simp at hj; simp only [Val.get]; exact ih xs j s hc.2 hj
    | _ => simp [confD] at hc

theorem canon_reps_chainy (S : Schema) (f : Field) (x : Val) (h : chainy x) : chainy (canon S (.reps f) x) := by
  rcases h with h | h
  · subst h; rw [canon_reps_nil]; exact Or.inl rfl
  · cases x with
    | cons a b => rw [canon_reps_cons]; exact Or.inr rfl
    | _ => simp [Val.isCons] at h

theorem mem_canon_reps (S : Schema) (f : Field) : ∀ (l x : Val), x ∈ Val.toList (canon S (.reps f) l) →
    ∃ y, y ∈ Val.toList l ∧ x = canon S (.elem f) y := by
  intro l
  induction l with
  | cons h t _ iht =>
    intro x hx
    rw [canon_reps_cons] at hx
    simp only [Val.toList, List.mem_cons] at hx ⊢
    rcases hx with h1 | h1
    · exact ⟨h, Or.inl rfl, h1⟩
    · obtain ⟨y, hy, he⟩ := iht x h1
      exact ⟨y, Or.inr hy, he⟩
  | nil => intro x hx; rw [canon_reps_nil] at hx; simp [Val.toList] at hx
  | num n => intro x hx; rw [canon] at hx; simp [Val.toList] at hx; intro e r h; cases h
  | bytes b => intro x hx; rw [canon] at hx; simp [Val.toList] at hx; intro e r h; cases h

theorem mem_mapChain (g : Val → Val) : ∀ (l x : Val), x ∈ Val.toList (mapChain g l) → ∃ y, y ∈ Val.toList l ∧ x = g y := by
  intro l
  induction l with
  | cons h t _ iht =>
    intro x hx
    simp only [mapChain, Val.toList, List.mem_cons] at hx ⊢
    rcases hx with h1 | h1
    · exact ⟨h, Or.inl rfl, h1⟩
    · obtain ⟨y, hy, he⟩ := iht x h1
      exact ⟨y, Or.inr hy, he⟩
  | _ => intro x hx; simp [mapChain, Val.toList] at hx

theorem confD_reps_mem (S : Schema) (f : Field) : ∀ (l x : Val), confD S (.reps f) l = true → x ∈ Val.toList l →
    confD S (.elem f) x = true := by
  intro l
  induction l with
  | cons h t _ iht =>
    intro x hc hx
    rw [confD_reps_cons, Bool.and_eq_true] at hc
    simp only [Val.toList, List.mem_cons] at hx
    rcases hx with h1 | h1
    · subst h1; exact hc.1
    · exact iht x hc.2 h1
  | _ => intro x _ hx; simp [Val.toList] at hx

/-- a migrated decoder-shaped resource, as the API observes it, is left alone by a second migration -/
theorem migrateRes_canon_migrateRes (S : Schema) (ss : List Slot) (rv : Val) (hsh : migShape2At ss = true)
    (hc : confD S (.slots ss) rv = true) :
    migrateRes ss (canon S (.slots ss) (migrateRes ss rv)) = canon S (.slots ss) (migrateRes ss rv) := by
  have hy := confD_migrateRes S ss rv hsh hc
  cases hi : slotIdx ss 2 with
  | none => unfold migrateRes; simp only [hi]
  | some i =>
    cases hd : slotIdx ss 1000 with
    | none => unfold migrateRes; simp only [hi, hd]
    | some d =>
      simp only [migShape2At, hd, hi, Bool.and_eq_true, bne_iff_ne, ne_eq] at hsh
      obtain ⟨hne, hsl⟩ := hsh
      split at hsl
      · next fd fi hsd hsi =>
        simp only [Bool.and_eq_true, beq_iff_eq] at hsl
        obtain ⟨⟨hcd, hci⟩, _⟩ := hsl
        apply migrateRes_noop
        · intro d' hd'
          rw [hd] at hd'; cases hd'
          rw [get_canon S ss _ d _ hy hsd, canon_slot_one]; simp only [hcd]
          have : Val.get (migrateRes ss rv) d = .nil := by
            unfold migrateRes; simp only [hi, hd]; exact get_set_nil _ d
          rw [this, canon_reps_nil]
        · intro i' hi'
          rw [hi] at hi'; cases hi'
          rw [get_canon S ss _ i _ hy hsi, canon_slot_one]; simp only [hci]
          apply canon_reps_chainy
          have := confD_get S ss _ i _ hy hsi
          rw [confD_slot_one] at this; simp only [hci] at this
          exact confD_reps_chainy S fi _ this
      · cases hsl

theorem migrate_noop_of_res (S : Schema) (m : Nat) (v : Val)
    (h : ∀ f rest r, S.slots m = .one f :: rest → f.ty = .msg r → ∀ rv, rv ∈ Val.toList (Val.get v 0) →
      migrateRes (S.slots r) rv = rv) : migrate S m v = v := by
  unfold migrate
  cases hs : S.slots m with
  | nil => rfl
  | cons s rest =>
    cases s with
    | oneof g alts => rfl
    | one f =>
      simp only []
      cases hty : f.ty <;> simp only []
      next r => rw [mapChain_id _ _ (fun x hx => h f rest r hs hty x hx), set_get_self]

/-- **stationarity through `otlp.Migrate*`**: what the API observes of a migrated decoder result is a fixed point of migration -/
theorem migrate_canon_migrate (S : Schema) (hsh : migShape2Ok S = true) (m : Nat) (v : Val)
    (hfirst : ∀ f rest, S.slots m = .one f :: rest → f.card = .rep)
    (hc : confD S (.slots (S.slots m)) v = true) :
    migrate S m (canon S (.slots (S.slots m)) (migrate S m v)) = canon S (.slots (S.slots m)) (migrate S m v) := by
  have hw := confD_migrate S hsh m v hfirst hc
  apply migrate_noop_of_res
  intro f rest r hs hty rv'' hrv
  have hcard := hfirst f rest hs
  have hs0 : (S.slots m)[0]? = some (.one f) := by rw [hs]; rfl
  rw [get_canon S _ _ 0 _ hw hs0, canon_slot_one] at hrv
  simp only [hcard] at hrv
  obtain ⟨y, hy, he⟩ := mem_canon_reps S f _ _ hrv
  -- y is an element of the migrated resource list
  have hget : Val.get (migrate S m v) 0 = mapChain (migrateRes (S.slots r)) (Val.get v 0) := by
    unfold migrate
    rw [hs]; simp only [hty]
    rw [hs] at hc
    cases v with
    | cons x xs => simp [Val.set, Val.get]
    | _ => simp [confD] at hc
  rw [hget] at hy
  obtain ⟨rv, hrvm, hye⟩ := mem_mapChain _ _ _ hy
  have hg0 := confD_get S _ v 0 _ hc hs0
  rw [confD_slot_one] at hg0; simp only [hcard] at hg0
  have hrvc := confD_reps_mem S f _ rv hg0 hrvm
  rw [confD_elem_msg S f _ r hty] at hrvc
  have hcanon : canon S (.elem f) y = canon S (.slots (S.slots r)) y := by
    (conv => lhs; rw [canon]); simp [hty]
  rw [he, hcanon, hye]
  exact migrateRes_canon_migrateRes S _ rv (migShape2_slots hsh r) hrvc

end OtelVerif.C08
