import OtelVerif.Model.C08Txt
/-! laws of the concrete text codecs of `Model/C08Txt.lean` (decimal, hex, base64). Core Lean only. -/
namespace OtelVerif.C08

/-! ## decimal -/
theorem decDigits_digits (n : Nat) : ∀ c, c ∈ decDigits n → isDigit c = true := by
  induction n using Nat.strongRecOn with
  | _ n ih =>
    intro c hc
    rw [decDigits] at hc
    split at hc
    · simp at hc; subst hc; simp [isDigit]; omega
    · simp only [List.mem_append, List.mem_singleton] at hc
      rcases hc with h | h
      · exact ih (n / 10) (by omega) c h
      · subst h; simp [isDigit]; omega

theorem decDigits_ne_nil (n : Nat) : decDigits n ≠ [] := by
  rw [decDigits]; split <;> simp

theorem decDigits_fold (n : Nat) : (decDigits n).foldl (fun a c => a * 10 + (c - 48)) 0 = n := by
  induction n using Nat.strongRecOn with
  | _ n ih =>
    rw [decDigits]
    split
    · simp
    · rw [List.foldl_append, ih (n / 10) (by omega)]; simp; omega

theorem undec_dec (n : Nat) : undecDigits (decDigits n) = some n := by
  unfold undecDigits
  have h1 : (decDigits n).isEmpty = false := by
    cases h : decDigits n with
    | nil => exact absurd h (decDigits_ne_nil n)
    | cons _ _ => rfl
  have h2 : (decDigits n).all isDigit = true := List.all_eq_true.mpr (decDigits_digits n)
  simp [h1, h2, decDigits_fold]

theorem dec_nosign (n : Nat) (ds : List Nat) : decDigits n ≠ 45 :: ds := by
  intro h
  have := decDigits_digits n 45 (by rw [h]; simp)
  simp [isDigit] at this

theorem dec_noplus (n : Nat) (ds : List Nat) : decDigits n ≠ 43 :: ds := by
  intro h
  have := decDigits_digits n 43 (by rw [h]; simp)
  simp [isDigit] at this

/-! ## decimal text read back by jsoniter's digit loop (`jiterUint`) -/
theorem jiterDigits_append (w : Nat) : ∀ (a b : List Nat) (v : Nat),
    jiterDigits w v (a ++ b) = (jiterDigits w v a).bind (fun v' => jiterDigits w v' b) := by
  intro a
  induction a with
  | nil => intro b v; simp [jiterDigits]
  | cons c cs ih =>
    intro b v
    simp only [List.cons_append, jiterDigits]
    split
    · split
      · split
        · rfl
        · exact ih b _
      · exact ih b _
    · rfl

/-- one more digit `d` after a prefix whose value is `q`, the total `q*10+d` still below `2^w`: no (false) overflow -/
theorem jiterDigits_step (w q d : Nat) (hd : d < 10) (hlt : q * 10 + d < 2 ^ w) :
    jiterDigits w q [48 + d] = some (q * 10 + d) := by
  have h1 : 48 ≤ 48 + d ∧ 48 + d ≤ 57 := by omega
  have h2 : 48 + d - 48 = d := by omega
  simp only [jiterDigits, h1, and_self, if_true, h2]
  split
  · have hm : (q * 10 + d) % 2 ^ w = q * 10 + d := Nat.mod_eq_of_lt hlt
    simp only [hm]
    have : ¬ (q * 10 + d < q) := by omega
    simp [this]
  · rfl

/-- for `n ≥ 1` the text starts with a non-zero digit and the loop over the rest returns `n` -/
theorem jiter_dec_pos (w : Nat) : ∀ n, 0 < n → n < 2 ^ w →
    ∃ c cs, decDigits n = c :: cs ∧ 49 ≤ c ∧ c ≤ 57 ∧ jiterDigits w (c - 48) cs = some n := by
  intro n
  induction n using Nat.strongRecOn with
  | _ n ih =>
    intro hpos hlt
    rw [decDigits]
    split
    · next h10 => exact ⟨48 + n, [], rfl, by omega, by omega, by simp [jiterDigits]⟩
    · next h10 =>
      obtain ⟨c, cs, he, hc1, hc2, hj⟩ := ih (n / 10) (by omega) (by omega) (by omega)
      refine ⟨c, cs ++ [48 + n % 10], by rw [he]; rfl, hc1, hc2, ?_⟩
      rw [jiterDigits_append, hj]
      simp only [Option.bind_some]
      have := jiterDigits_step w (n / 10) (n % 10) (Nat.mod_lt _ (by decide)) (by omega)
      rw [this]; congr 1; omega

/-- **`strconv` decimal text is read back exactly by jsoniter's integer reader**, for every width and every value in range -/
theorem jiter_dec (w n : Nat) (hlt : n < 2 ^ w) : jiterUint w (decDigits n) = some n := by
  by_cases h0 : n = 0
  · subst h0; rw [decDigits]; simp [jiterUint]
  · obtain ⟨c, cs, he, hc1, hc2, hj⟩ := jiter_dec_pos w n (by omega) hlt
    rw [he]
    have hne : c ≠ 48 := by omega
    unfold jiterUint
    split
    · next h => cases h
    · next h => cases h; omega
    · next h => cases h; omega
    · next c' cs' _ _ h => cases h; simp [hc1, hc2, hj]

/-! ## a string the `strconv` branch accepts, if it is a JSON number token, is read to the same value by jsoniter's branch -/
theorem natLit_cases (ds : List Nat) (h : natLit ds = true) :
    ds = [48] ∨ ∃ c cs, ds = c :: cs ∧ 49 ≤ c ∧ c ≤ 57 ∧ cs.all isDigit = true := by
  match ds, h with
  | [48], _ => exact Or.inl rfl
  | c :: cs, h =>
    by_cases h48 : c = 48 ∧ cs = []
    · obtain ⟨h1, h2⟩ := h48; subst h1; subst h2; exact Or.inl rfl
    · right
      have : natLit (c :: cs) = ((decide (49 ≤ c) && decide (c ≤ 57)) && cs.all isDigit) := by
        rw [natLit.eq_def]
        split
        · next heq => cases heq; exact absurd ⟨rfl, rfl⟩ h48
        · next heq => cases heq; rfl
        · next heq => cases heq
      rw [this] at h
      simp only [Bool.and_eq_true, decide_eq_true_eq] at h
      exact ⟨c, cs, rfl, h.1.1, h.1.2, h.2⟩
  | [], h => simp [natLit] at h

theorem jiterUint_cons (w c : Nat) (cs : List Nat) (h1 : 49 ≤ c) (h2 : c ≤ 57) :
    jiterUint w (c :: cs) = jiterDigits w (c - 48) cs := by
  rw [jiterUint.eq_def]
  split
  · next heq => cases heq
  · next heq => cases heq; omega
  · next heq => cases heq; omega
  · next c' cs' _ _ heq => cases heq; simp [h1, h2]

theorem foldDigits_ge : ∀ (cs : List Nat) (v : Nat), v ≤ cs.foldl (fun a c => a * 10 + (c - 48)) v := by
  intro cs
  induction cs with
  | nil => intro v; exact Nat.le_refl _
  | cons c cs ih => intro v; simp only [List.foldl_cons]; exact Nat.le_trans (by omega) (ih _)

theorem jiterDigits_fold (w : Nat) : ∀ (cs : List Nat) (v : Nat), cs.all isDigit = true →
    cs.foldl (fun a c => a * 10 + (c - 48)) v < 2 ^ w →
    jiterDigits w v cs = some (cs.foldl (fun a c => a * 10 + (c - 48)) v) := by
  intro cs
  induction cs with
  | nil => intro v _ _; rfl
  | cons c cs ih =>
    intro v hd hlt
    simp only [List.all_cons, Bool.and_eq_true] at hd
    have hc : 48 ≤ c ∧ c ≤ 57 := by simpa [isDigit] using hd.1
    simp only [List.foldl_cons] at hlt ⊢
    have hge := foldDigits_ge cs (v * 10 + (c - 48))
    simp only [jiterDigits, hc, and_self, if_true]
    split
    · have hm : (v * 10 + (c - 48)) % 2 ^ w = v * 10 + (c - 48) := Nat.mod_eq_of_lt (by omega)
      simp only [hm]
      have : ¬ (v * 10 + (c - 48) < v) := by omega
      simp only [this, if_false]
      exact ih _ hd.2 hlt
    · exact ih _ hd.2 hlt

theorem jiterUint_of_undec (w : Nat) (ds : List Nat) (n : Nat) (hl : natLit ds = true) (hu : undecDigits ds = some n)
    (hlt : n < 2 ^ w) : jiterUint w ds = some n := by
  rcases natLit_cases ds hl with h | ⟨c, cs, h, h1, h2, h3⟩
  · subst h
    have : undecDigits [48] = some 0 := by decide
    rw [this] at hu; cases hu; simp [jiterUint]
  · subst h
    have hall : (c :: cs).all isDigit = true := by
      simp only [List.all_cons, Bool.and_eq_true]; exact ⟨by simp [isDigit]; omega, h3⟩
    simp only [undecDigits, List.isEmpty_cons, hall, Bool.not_true, Bool.or_self, Bool.false_eq_true, if_false,
      Option.some.injEq, List.foldl_cons, Nat.zero_mul, Nat.zero_add] at hu
    subst hu
    rw [jiterUint_cons w c cs h1 h2]
    exact jiterDigits_fold w cs _ h3 hlt

theorem natLit_noSign (ds : List Nat) (h : natLit ds = true) : (∀ r, ds ≠ 45 :: r) ∧ (∀ r, ds ≠ 43 :: r) := by
  rcases natLit_cases ds h with h | ⟨c, cs, h, h1, h2, _⟩ <;> subst h
  · exact ⟨(by intro r hr; cases hr), (by intro r hr; cases hr)⟩
  · exact ⟨(by intro r hr; cases hr; omega), (by intro r hr; cases hr; omega)⟩

theorem parseNum_of_parseInt (ffmt : Nat → List Nat) (fparse : List Nat → Option Nat) (signed : Bool) (w : Nat) (t : List Nat) (n : Nat)
    (hw : 0 < w) (hlit : jsonIntLit t = true) (h : parseInt (mkTxtF ffmt fparse) signed w t = some n) : parseNum signed w t = some n := by
  have hp : 2 ^ w = 2 * 2 ^ (w - 1) := by
    cases w with
    | zero => omega
    | succ k => simp [Nat.pow_succ]; omega
  by_cases hneg : ∃ ds, t = 45 :: ds
  · obtain ⟨ds, ht⟩ := hneg
    subst ht
    have hl : natLit ds = true := by simpa [jsonIntLit] using hlit
    cases signed
    · simp [parseInt] at h
    · simp only [parseInt, mkTxtF, Bool.not_true, Bool.false_eq_true, if_false] at h
      cases hu : undecDigits ds with
      | none => simp [hu] at h
      | some m =>
        simp only [hu] at h
        split at h
        · next hle =>
          cases h
          have hpos : 0 < 2 ^ (w - 1) := Nat.pow_pos (by decide)
          have hlt : m < 2 ^ w := by omega
          simp only [parseNum, Bool.not_true, Bool.false_eq_true, if_false, jiterUint_of_undec w ds m hl hu hlt]
          have : ¬ (m > 2 ^ (w - 1)) := by omega
          simp [this]
        · cases h
  · have hl : natLit t = true := by
      unfold jsonIntLit at hlit
      split at hlit
      · next ds => exact absurd ⟨ds, rfl⟩ hneg
      · exact hlit
    have hns := natLit_noSign t hl
    unfold parseInt at h
    split at h
    · next ds => exact absurd rfl (hns.1 ds)
    · next ds => exact absurd rfl (hns.2 ds)
    · simp only [mkTxtF] at h
      cases hu : undecDigits t with
      | none => simp [hu] at h
      | some m =>
        simp only [hu] at h
        by_cases hle : m < (if signed = true then 2 ^ (w - 1) else 2 ^ w)
        · simp only [hle, if_true, Option.some.injEq] at h
          subst h
          have hlt : m < 2 ^ w := by
            cases signed
            · simpa using hle
            · simp only [if_true] at hle; omega
          unfold parseNum
          split
          · exact absurd rfl (hns.1 _)
          · rw [jiterUint_of_undec w _ m hl hu hlt]
            cases signed
            · simp
            · simp only [if_true] at hle
              have : ¬ (m ≥ 2 ^ (w - 1)) := by omega
              simp [this]
        · simp [hle] at h
/-! ## hex -/
theorem hexVal_hexChar (n : Nat) (h : n < 16) : hexVal (hexChar n) = some n := by
  unfold hexChar hexVal
  by_cases h10 : n < 10
  · simp [h10]; omega
  · simp [h10]
    have : ¬ (87 + n ≤ 57) := by omega
    simp [this]; omega

theorem hexDec_hexEnc : ∀ (b : List Nat), bytesOk b = true → hexDec (hexEnc b) = some b := by
  intro b
  induction b with
  | nil => intro _; rfl
  | cons x rest ih =>
    intro h
    simp only [bytesOk, List.all_cons, Bool.and_eq_true, decide_eq_true_eq] at h
    simp only [hexEnc, hexDec, hexVal_hexChar _ (Nat.mod_lt _ (by decide)), ih (by simpa [bytesOk] using h.2)]
    congr 2
    omega

theorem hexEnc_length (b : List Nat) : (hexEnc b).length = 2 * b.length := by
  induction b with
  | nil => rfl
  | cons x rest ih => simp [hexEnc, ih]; omega

theorem hexChar_ne_quote (n : Nat) : hexChar n ≠ 34 := by unfold hexChar; split <;> omega

theorem hexEnc_noquote (b : List Nat) : stripQuotes (hexEnc b) = hexEnc b := by
  cases b with
  | nil => rfl
  | cons x rest =>
    simp only [stripQuotes, hexEnc, List.head?_cons, Option.some.injEq]
    simp [hexChar_ne_quote]

/-! ## base64 -/
theorem b64val_b64char_all : ∀ n, n < 64 → b64val (b64char n) = some n := by decide
theorem b64val_b64char (n : Nat) (h : n < 64) : b64val (b64char n) = some n := b64val_b64char_all n h

theorem b64char_ne_pad (n : Nat) : b64char n ≠ 61 := by
  unfold b64char; split <;> (try split) <;> (try split) <;> (try split) <;> omega

theorem b64dec_b64enc : ∀ (b : List Nat), bytesOk b = true → b64dec (b64enc b) = some b := by
  intro b
  induction b using b64enc.induct with
  | case1 a b c rest ih =>
    intro h
    simp only [bytesOk, List.all_cons, Bool.and_eq_true, decide_eq_true_eq] at h
    obtain ⟨ha, hb, hc, hr⟩ := h
    simp only [b64enc]
    rw [b64dec]
    · simp only [b64val_b64char _ (Nat.mod_lt _ (by decide)), ih (by simpa [bytesOk] using hr)]
      simp only [Option.some.injEq, List.cons.injEq, and_true]
      refine ⟨by omega, by omega, by omega⟩
    · intro h1 h2 _; exact b64char_ne_pad _ h2
    · intro h1 _; exact b64char_ne_pad _ h1
  | case2 a b =>
    intro h
    simp only [bytesOk, List.all_cons, Bool.and_eq_true, decide_eq_true_eq] at h
    obtain ⟨ha, hb, _⟩ := h
    simp only [b64enc]
    rw [b64dec]
    · simp only [b64val_b64char _ (Nat.mod_lt _ (by decide))]
      simp only [Option.some.injEq, List.cons.injEq, and_true]
      refine ⟨by omega, by omega⟩
    · intro h1; exact b64char_ne_pad _ h1
  | case3 a =>
    intro h
    simp only [bytesOk, List.all_cons, Bool.and_eq_true, decide_eq_true_eq] at h
    simp only [b64enc, b64dec, b64val_b64char _ (Nat.mod_lt _ (by decide))]
    simp only [Option.some.injEq, List.cons.injEq, and_true]
    omega
  | case4 => intro _; rfl

/-! ## base64 as the reader does it (`b64Read`) -/
theorem b64char_ge (n : Nat) : 43 ≤ b64char n := by
  unfold b64char; split <;> (try split) <;> (try split) <;> (try split) <;> omega

theorem b64enc_ge : ∀ (b : List Nat) (c : Nat), c ∈ b64enc b → 43 ≤ c := by
  intro b
  induction b using b64enc.induct with
  | case1 a b c rest ih =>
    intro x hx
    simp only [b64enc, List.mem_cons] at hx
    rcases hx with h | h | h | h | h
    · subst h; exact b64char_ge _
    · subst h; exact b64char_ge _
    · subst h; exact b64char_ge _
    · subst h; exact b64char_ge _
    · exact ih x h
  | case2 a b =>
    intro x hx
    simp only [b64enc, List.mem_cons, List.not_mem_nil, or_false] at hx
    rcases hx with h | h | h | h <;> subst h <;> first | exact b64char_ge _ | decide
  | case3 a =>
    intro x hx
    simp only [b64enc, List.mem_cons, List.not_mem_nil, or_false] at hx
    rcases hx with h | h | h | h <;> subst h <;> first | exact b64char_ge _ | decide
  | case4 => intro x hx; simp [b64enc] at hx

theorem b64Read_b64enc (b : List Nat) (h : bytesOk b = true) : b64Read (b64enc b) = some b := by
  unfold b64Read
  have : (b64enc b).filter (fun c => c != 10 && c != 13) = b64enc b := by
    apply List.filter_eq_self.mpr
    intro c hc
    have := b64enc_ge b c hc
    simp; omega
  rw [this]; exact b64dec_b64enc b h

/-- unpadded input (length not a multiple of four once `\r`/`\n` are dropped) is rejected -/
theorem b64dec_len : ∀ (t b : List Nat), b64dec t = some b → t.length % 4 = 0 := by
  intro t
  induction t using b64dec.induct <;> intro b h
  all_goals (simp_all [b64dec])
  all_goals omega

/-! ## hex: either case -/
theorem hexVal_hexUp (c : Nat) : hexVal (hexUp c) = hexVal c := by
  unfold hexUp
  split
  · next h => unfold hexVal; simp; split <;> (try split) <;> (try split) <;> (try split) <;> (try split) <;> (try split) <;> first | rfl | omega | (simp; omega)
  · rfl

theorem hexDec_map_hexUp : ∀ (t : List Nat), hexDec (t.map hexUp) = hexDec t
  | [] => rfl
  | [_] => rfl
  | a :: b :: rest => by simp only [List.map_cons, hexDec, hexVal_hexUp, hexDec_map_hexUp rest]

theorem hexDec_odd : ∀ (t : List Nat), t.length % 2 = 1 → hexDec t = none
  | [] => by intro h; simp at h
  | [_] => by intro _; rfl
  | a :: b :: rest => by
    intro h
    have := hexDec_odd rest (by simp at h; omega)
    simp [hexDec, this]

theorem hexDec_hexchars : ∀ (t b : List Nat), hexDec t = some b → ∀ c ∈ t, (hexVal c).isSome = true
  | [], _ => by intro _ c hc; cases hc
  | [_], _ => by intro h; simp [hexDec] at h
  | a :: b :: rest, out => by
    intro h c hc
    simp only [hexDec] at h
    split at h
    · next x y tl hx hy htl =>
      simp only [List.mem_cons] at hc
      rcases hc with hc | hc | hc
      · subst hc; simp [hx]
      · subst hc; simp [hy]
      · exact hexDec_hexchars rest tl htl c hc
    · cases h

theorem allZero_replicate : ∀ (p : List Nat), allZero p = true → p = List.replicate p.length 0 := by
  intro p
  induction p with
  | nil => intro _; rfl
  | cons x xs ih =>
    intro h
    simp only [allZero, List.all_cons, Bool.and_eq_true, beq_iff_eq] at h
    rw [List.length_cons, List.replicate_succ, h.1]
    congr 1
    exact ih (by simpa [allZero] using h.2)

theorem hexEnc_nil_iff (p : List Nat) : hexEnc p = [] ↔ p = [] := by
  cases p <;> simp [hexEnc]

/-- **Id JSON round trip, as the code does it**: for an `n`-byte id `p` (any `n`), `UnmarshalJSON(MarshalJSON(p)) = p` — the all-zero
id through `""`, every other id through its `2n` lower-case hex digits -/
theorem idJSON_roundtrip (n : Nat) (p : List Nat) (hl : p.length = n) (hb : bytesOk p = true) :
    idUnmarshalJSON n (idMarshalJSON p) = some p := by
  unfold idMarshalJSON idUnmarshalJSON
  by_cases hz : allZero p = true
  · simp only [hz, if_true]
    have : stripQuotes ([] : List Nat) = [] := rfl
    simp only [this, List.isEmpty_nil, if_true]
    rw [← hl]; exact congrArg some (allZero_replicate p hz).symm
  · simp only [hz, Bool.false_eq_true, if_false, hexEnc_noquote]
    have hne : p ≠ [] := by intro h; subst h; exact hz rfl
    have h1 : (hexEnc p).isEmpty = false := by
      cases p with
      | nil => exact absurd rfl hne
      | cons x xs => simp [hexEnc]
    simp only [h1, Bool.false_eq_true, if_false, hexEnc_length]
    have : ¬ (n ≠ 2 * p.length / 2) := by omega
    simp only [this, if_false]
    exact hexDec_hexEnc p hb


end OtelVerif.C08
