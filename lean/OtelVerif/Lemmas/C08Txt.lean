import OtelVerif.Model.C08Txt
/-! laws of the concrete text codecs of `Model/C08Txt.lean` (decimal, hex, base64). Core Lean only. -/
namespace OtelVerif.C08

/-! ## decimal -/
theorem decDigits_digits (n : Nat) : ∀ c, c ∈ decDigits n → isDigit c = true := by
  induction n using Nat.strongRecOn with
  | _ n ih =>
    intro c hc
    rw [decDigits] at hc
    split at hc
    · simp at hc; subst hc; simp [isDigit]; omega
    · simp only [List.mem_append, List.mem_singleton] at hc
      rcases hc with h | h
      · exact ih (n / 10) (by omega) c h
      · subst h; simp [isDigit]; omega

theorem decDigits_ne_nil (n : Nat) : decDigits n ≠ [] := by
  rw [decDigits]; split <;> simp

theorem decDigits_fold (n : Nat) : (decDigits n).foldl (fun a c => a * 10 + (c - 48)) 0 = n := by
  induction n using Nat.strongRecOn with
  | _ n ih =>
    rw [decDigits]
    split
    · simp
    · rw [List.foldl_append, ih (n / 10) (by omega)]; simp; omega

theorem undec_dec (n : Nat) : undecDigits (decDigits n) = some n := by
  unfold undecDigits
  have h1 : (decDigits n).isEmpty = false := by
    cases h : decDigits n with
    | nil => exact absurd h (decDigits_ne_nil n)
    | cons _ _ => rfl
  have h2 : (decDigits n).all isDigit = true := List.all_eq_true.mpr (decDigits_digits n)
  simp [h1, h2, decDigits_fold]

theorem dec_nosign (n : Nat) (ds : List Nat) : decDigits n ≠ 45 :: ds := by
  intro h
  have := decDigits_digits n 45 (by rw [h]; simp)
  simp [isDigit] at this

/-! ## hex -/
theorem hexVal_hexChar (n : Nat) (h : n < 16) : hexVal (hexChar n) = some n := by
  unfold hexChar hexVal
  by_cases h10 : n < 10
  · simp [h10]; omega
  · simp [h10]
    have : ¬ (87 + n ≤ 57) := by omega
    simp [this]; omega

theorem hexDec_hexEnc : ∀ (b : List Nat), bytesOk b = true → hexDec (hexEnc b) = some b := by
  intro b
  induction b with
  | nil => intro _; rfl
  | cons x rest ih =>
    intro h
    simp only [bytesOk, List.all_cons, Bool.and_eq_true, decide_eq_true_eq] at h
    simp only [hexEnc, hexDec, hexVal_hexChar _ (Nat.mod_lt _ (by decide)), ih (by simpa [bytesOk] using h.2)]
    congr 2
    omega

theorem hexEnc_length (b : List Nat) : (hexEnc b).length = 2 * b.length := by
  induction b with
  | nil => rfl
  | cons x rest ih => simp [hexEnc, ih]; omega

theorem hexChar_ne_quote (n : Nat) : hexChar n ≠ 34 := by unfold hexChar; split <;> omega

theorem hexEnc_noquote (b : List Nat) : stripQuotes (hexEnc b) = hexEnc b := by
  cases b with
  | nil => rfl
  | cons x rest =>
    simp only [stripQuotes, hexEnc, List.head?_cons, Option.some.injEq]
    simp [hexChar_ne_quote]

/-! ## base64 -/
theorem b64val_b64char_all : ∀ n, n < 64 → b64val (b64char n) = some n := by decide
theorem b64val_b64char (n : Nat) (h : n < 64) : b64val (b64char n) = some n := b64val_b64char_all n h

theorem b64char_ne_pad (n : Nat) : b64char n ≠ 61 := by
  unfold b64char; split <;> (try split) <;> (try split) <;> (try split) <;> omega

theorem b64dec_b64enc : ∀ (b : List Nat), bytesOk b = true → b64dec (b64enc b) = some b := by
  intro b
  induction b using b64enc.induct with
  | case1 a b c rest ih =>
    intro h
    simp only [bytesOk, List.all_cons, Bool.and_eq_true, decide_eq_true_eq] at h
    obtain ⟨ha, hb, hc, hr⟩ := h
    simp only [b64enc]
    rw [b64dec]
    · simp only [b64val_b64char _ (Nat.mod_lt _ (by decide)), ih (by simpa [bytesOk] using hr)]
      simp only [Option.some.injEq, List.cons.injEq, and_true]
      refine ⟨by omega, by omega, by omega⟩
    · intro h1 h2 _; exact b64char_ne_pad _ h2
    · intro h1 _; exact b64char_ne_pad _ h1
  | case2 a b =>
    intro h
    simp only [bytesOk, List.all_cons, Bool.and_eq_true, decide_eq_true_eq] at h
    obtain ⟨ha, hb, _⟩ := h
    simp only [b64enc]
    rw [b64dec]
    · simp only [b64val_b64char _ (Nat.mod_lt _ (by decide))]
      simp only [Option.some.injEq, List.cons.injEq, and_true]
      refine ⟨by omega, by omega⟩
    · intro h1; exact b64char_ne_pad _ h1
  | case3 a =>
    intro h
    simp only [bytesOk, List.all_cons, Bool.and_eq_true, decide_eq_true_eq] at h
    simp only [b64enc, b64dec, b64val_b64char _ (Nat.mod_lt _ (by decide))]
    simp only [Option.some.injEq, List.cons.injEq, and_true]
    omega
  | case4 => intro _; rfl

end OtelVerif.C08
