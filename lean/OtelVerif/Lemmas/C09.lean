import OtelVerif.Model.C09
/-! helper lemmas for C09 / C10 (core Lean only) -/
namespace OtelVerif.C09

/-! ## dedup -/

theorem mem_dedup {α : Type} [DecidableEq α] {a : α} {l : List α} : a ∈ dedup l ↔ a ∈ l := by
  induction l with
  | nil => simp [dedup]
  | cons b l ih =>
    by_cases h : b ∈ l
    · simp only [dedup, h, if_true, ih, List.mem_cons]
      constructor
      · intro h'; exact Or.inr h'
      · rintro (rfl | h')
        · exact h
        · exact h'
    · simp only [dedup, h, if_false, List.mem_cons, ih]

theorem nodup_dedup {α : Type} [DecidableEq α] (l : List α) : (dedup l).Nodup := by
  induction l with
  | nil => simp [dedup]
  | cons b l ih =>
    by_cases h : b ∈ l
    · simpa only [dedup, h, if_true] using ih
    · simp only [dedup, h, if_false, List.nodup_cons]
      exact ⟨fun h' => h (mem_dedup.mp h'), ih⟩

/-! ## successors -/

theorem mem_succOf {E : List (Node × Node)} {n m : Node} : m ∈ succOf E n ↔ (n, m) ∈ E := by
  simp only [succOf, mem_dedup, List.mem_filterMap]
  constructor
  · rintro ⟨⟨a, b⟩, he, h⟩
    by_cases hab : a = n
    · simp only [hab, if_true, Option.some.injEq] at h
      subst hab; subst h; exact he
    · simp [hab] at h
  · intro h
    exact ⟨(n, m), h, by simp⟩

theorem nodup_succOf (E : List (Node × Node)) (n : Node) : (succOf E n).Nodup := nodup_dedup _

/-! ## walks -/

/-- `n`, then the nodes of the list in order, is a directed walk that stops at the first exporter it meets -/
def IsRouteWalk (E : List (Node × Node)) : Node → List Node → Prop
  | n, [] => n.isExp = true
  | n, m :: w => n.isExp = false ∧ (n, m) ∈ E ∧ IsRouteWalk E m w

/-- one or more edges -/
inductive Path (E : List (Node × Node)) : Node → Node → Prop
  | single {a b : Node} : (a, b) ∈ E → Path E a b
  | cons {a b c : Node} : (a, b) ∈ E → Path E b c → Path E a c

theorem Path.trans {E : List (Node × Node)} {a b c : Node} (h1 : Path E a b) (h2 : Path E b c) : Path E a c := by
  induction h1 with
  | single h => exact Path.cons h h2
  | cons h _ ih => exact Path.cons h (ih h2)

theorem mem_expandNC {E : List (Node × Node)} {l : List Node} {a : Node} (h : a ∈ expandNC E l) :
    a ∈ l ∨ ∃ n, n ∈ l ∧ (n, a) ∈ E := by
  simp only [expandNC, List.mem_flatMap] at h
  obtain ⟨n, hn, ha⟩ := h
  by_cases hc : n.isComp = true
  · simp only [hc, if_true, List.mem_singleton] at ha
    subst ha; exact Or.inl hn
  · simp only [hc] at ha
    exact Or.inr ⟨n, hn, mem_succOf.mp ha⟩

theorem compNext_path {E : List (Node × Node)} {a b : Node} (h : a ∈ compNext E b) : Path E b a := by
  simp only [compNext, List.mem_filter] at h
  have reach1 : ∀ x, x ∈ succOf E b → Path E b x := fun x hx => Path.single (mem_succOf.mp hx)
  have reach2 : ∀ x, x ∈ expandNC E (succOf E b) → Path E b x := by
    intro x hx
    rcases mem_expandNC hx with h1 | ⟨n, hn, hE⟩
    · exact reach1 x h1
    · exact (reach1 n hn).trans (Path.single hE)
  rcases mem_expandNC h.1 with h1 | ⟨n, hn, hE⟩
  · exact reach2 a h1
  · exact (reach2 n hn).trans (Path.single hE)

theorem linkedChain_path {E : List (Node × Node)} : ∀ (l : List Node) (a : Node), linkedChain E a l = true →
    ∀ x, x ∈ l → Path E a x := by
  intro l
  induction l with
  | nil => intro a _ x hx; cases hx
  | cons b l ih =>
    intro a h x hx
    simp only [linkedChain, Bool.and_eq_true, decide_eq_true_eq] at h
    rcases List.mem_cons.mp hx with rfl | hx'
    · exact compNext_path h.1
    · exact (compNext_path h.1).trans (ih b h.2 x hx')

/-! ## collect / deliver -/

theorem collect_mem {f : Node → Option (List (List Node))} {l : List Node} {ws : List (List Node)}
    (h : collect f l = some ws) (w : List Node) :
    w ∈ ws ↔ ∃ m, m ∈ l ∧ ∃ a, f m = some a ∧ ∃ w', w' ∈ a ∧ w = m :: w' := by
  induction l generalizing ws with
  | nil =>
    simp only [collect, Option.some.injEq] at h
    subst h; simp
  | cons m ms ih =>
    simp only [collect] at h
    cases hfm : f m with
    | none => simp [hfm] at h
    | some a =>
      cases hc : collect f ms with
      | none => simp [hfm, hc] at h
      | some b =>
        simp only [hfm, hc, Option.some.injEq] at h
        subst h
        simp only [List.mem_append, List.mem_map, ih hc, List.mem_cons]
        constructor
        · rintro (⟨w', hw', rfl⟩ | ⟨m', hm', a', ha', w', hw', rfl⟩)
          · exact ⟨m, Or.inl rfl, a, hfm, w', hw', rfl⟩
          · exact ⟨m', Or.inr hm', a', ha', w', hw', rfl⟩
        · rintro ⟨m', (rfl | hm'), a', ha', w', hw', rfl⟩
          · rw [hfm] at ha'; cases ha'
            exact Or.inl ⟨w', hw', rfl⟩
          · exact Or.inr ⟨m', hm', a', ha', w', hw', rfl⟩

theorem nodup_map_cons (m : Node) {a : List (List Node)} (h : a.Nodup) : (a.map (m :: ·)).Nodup := by
  induction a with
  | nil => simp
  | cons x xs ih =>
    rw [List.nodup_cons] at h
    simp only [List.map_cons, List.nodup_cons, List.mem_map]
    refine ⟨?_, ih h.2⟩
    rintro ⟨y, hy, heq⟩
    have : y = x := (List.cons.inj heq).2
    subst this
    exact h.1 hy

theorem collect_nodup {f : Node → Option (List (List Node))} {l : List Node} {ws : List (List Node)}
    (h : collect f l = some ws) (hl : l.Nodup) (hf : ∀ m ∈ l, ∀ a, f m = some a → a.Nodup) : ws.Nodup := by
  induction l generalizing ws with
  | nil =>
    simp only [collect, Option.some.injEq] at h
    subst h; simp
  | cons m ms ih =>
    simp only [collect] at h
    cases hfm : f m with
    | none => simp [hfm] at h
    | some a =>
      cases hc : collect f ms with
      | none => simp [hfm, hc] at h
      | some b =>
        simp only [hfm, hc, Option.some.injEq] at h
        subst h
        rw [List.nodup_cons] at hl
        rw [List.nodup_append]
        refine ⟨?_, ih hc hl.2 (fun m' hm' => hf m' (List.mem_cons_of_mem _ hm')), ?_⟩
        · have ha := hf m (List.mem_cons_self) a hfm
          exact nodup_map_cons m ha
        · intro x hx y hy hxy
          subst hxy
          simp only [List.mem_map] at hx
          obtain ⟨w', _, rfl⟩ := hx
          obtain ⟨m', hm', _, _, w'', _, heq⟩ := (collect_mem hc _).mp hy
          have : m = m' := (List.cons.inj heq).1
          subst this
          exact hl.1 hm'

theorem collect_congr {f g : Node → Option (List (List Node))} {l : List Node} {ws : List (List Node)}
    (h : collect f l = some ws) (hfg : ∀ m ∈ l, ∀ a, f m = some a → g m = some a) : collect g l = some ws := by
  induction l generalizing ws with
  | nil => simpa [collect] using h
  | cons m ms ih =>
    simp only [collect] at h ⊢
    cases hfm : f m with
    | none => simp [hfm] at h
    | some a =>
      cases hc : collect f ms with
      | none => simp [hfm, hc] at h
      | some b =>
        simp only [hfm, hc] at h
        rw [hfg m List.mem_cons_self a hfm, ih hc (fun m' hm' => hfg m' (List.mem_cons_of_mem _ hm'))]
        exact h

theorem collect_total {f : Node → Option (List (List Node))} {l : List Node}
    (hf : ∀ m ∈ l, ∃ a, f m = some a) : ∃ ws, collect f l = some ws := by
  induction l with
  | nil => exact ⟨[], rfl⟩
  | cons m ms ih =>
    obtain ⟨a, ha⟩ := hf m List.mem_cons_self
    obtain ⟨b, hb⟩ := ih (fun m' hm' => hf m' (List.mem_cons_of_mem _ hm'))
    exact ⟨a.map (m :: ·) ++ b, by simp only [collect, ha, hb]⟩

/-- more fuel never changes a result -/
theorem deliver_mono_succ (sc : Node → List Node) : ∀ (k : Nat) (n : Node) (ws : List (List Node)),
    deliver sc k n = some ws → deliver sc (k + 1) n = some ws := by
  intro k
  induction k with
  | zero => intro n ws h; simp [deliver] at h
  | succ k ih =>
    intro n ws h
    simp only [deliver] at h ⊢
    by_cases he : n.isExp = true
    · simpa only [he, if_true] using h
    · simp only [he] at h ⊢
      exact collect_congr h (fun m _ a ha => by simpa only [deliver] using ih m a ha)

theorem deliver_mono (sc : Node → List Node) {k k' : Nat} {n : Node} {ws : List (List Node)}
    (h : deliver sc k n = some ws) (hk : k ≤ k') : deliver sc k' n = some ws := by
  induction hk with
  | refl => exact h
  | step _ ih => exact deliver_mono_succ sc _ n ws ih

/-- the result does not depend on the fuel -/
theorem deliver_det (sc : Node → List Node) {k k' : Nat} {n : Node} {a b : List (List Node)}
    (h1 : deliver sc k n = some a) (h2 : deliver sc k' n = some b) : a = b := by
  have := deliver_mono sc h1 (Nat.le_max_left k k')
  rw [deliver_mono sc h2 (Nat.le_max_right k k')] at this
  exact (Option.some.inj this).symm

/-- whatever `deliver` returns is exactly the set of route walks, each once -/
theorem deliver_spec (E : List (Node × Node)) : ∀ (k : Nat) (n : Node) (ws : List (List Node)),
    deliver (succOf E) k n = some ws → ws.Nodup ∧ ∀ w, w ∈ ws ↔ IsRouteWalk E n w := by
  intro k
  induction k with
  | zero => intro n ws h; simp [deliver] at h
  | succ k ih =>
    intro n ws h
    simp only [deliver] at h
    by_cases he : n.isExp = true
    · simp only [he, if_true, Option.some.injEq] at h
      subst h
      refine ⟨by simp, fun w => ?_⟩
      cases w with
      | nil => simp [IsRouteWalk, he]
      | cons m w => simp [IsRouteWalk, he]
    · simp only [he] at h
      have he' : n.isExp = false := by simpa using he
      refine ⟨collect_nodup h (nodup_succOf E n) (fun m _ a ha => (ih m a ha).1), fun w => ?_⟩
      rw [collect_mem h]
      cases w with
      | nil =>
        simp only [IsRouteWalk, he]
        constructor
        · rintro ⟨m, _, a, _, w', _, hw⟩; cases hw
        · intro h'; cases h'
      | cons m w =>
        simp only [IsRouteWalk, he']
        constructor
        · rintro ⟨m', hm', a, ha, w', hw', heq⟩
          obtain ⟨rfl, rfl⟩ := List.cons.inj heq
          exact ⟨trivial, mem_succOf.mp hm', ((ih m a ha).2 w).mp hw'⟩
        · rintro ⟨_, hE, hw⟩
          have hm : m ∈ succOf E n := mem_succOf.mpr hE
          -- the successor's own delivery list exists because `collect` succeeded
          have : ∃ a, deliver (succOf E) k m = some a := by
            clear hw
            revert h
            generalize succOf E n = l at hm
            intro h
            induction l generalizing ws with
            | nil => cases hm
            | cons x xs ihl =>
              simp only [collect] at h
              cases hfx : deliver (succOf E) k x with
              | none => simp [hfx] at h
              | some a =>
                cases hc : collect (deliver (succOf E) k) xs with
                | none => simp [hfx, hc] at h
                | some b =>
                  rcases List.mem_cons.mp hm with rfl | hm'
                  · exact ⟨a, hfx⟩
                  · exact ihl b hm' hc
          obtain ⟨a, ha⟩ := this
          exact ⟨m, hm, a, ha, w, ((ih m a ha).2 w).mpr hw, rfl⟩

/-! ## peel -/

theorem mem_peel_succ {sc : Node → List Node} {ns : List Node} {k : Nat} {n : Node} :
    n ∈ peel sc ns (k + 1) ↔ n ∈ peel sc ns k ∨ (n ∈ ns ∧ ∀ m ∈ sc n, m ∈ peel sc ns k) := by
  simp only [peel, peelStep, List.mem_append, List.mem_filter, Bool.and_eq_true, Bool.not_eq_true',
    decide_eq_false_iff_not, List.all_eq_true, decide_eq_true_eq]
  constructor
  · rintro (h | ⟨h1, _, h3⟩)
    · exact Or.inl h
    · exact Or.inr ⟨h1, h3⟩
  · rintro (h | ⟨h1, h3⟩)
    · exact Or.inl h
    · by_cases hd : n ∈ peel sc ns k
      · exact Or.inl hd
      · exact Or.inr ⟨h1, hd, h3⟩

theorem peel_mono {sc : Node → List Node} {ns : List Node} {k k' : Nat} {n : Node}
    (h : n ∈ peel sc ns k) (hk : k ≤ k') : n ∈ peel sc ns k' := by
  induction hk with
  | refl => exact h
  | step _ ih => exact mem_peel_succ.mpr (Or.inl ih)

/-- a marked node's successors were marked in an earlier round -/
theorem peel_edge {sc : Node → List Node} {ns : List Node} : ∀ (k : Nat) (n m : Node),
    n ∈ peel sc ns k → m ∈ sc n → ∃ j, j < k ∧ m ∈ peel sc ns j := by
  intro k
  induction k with
  | zero => intro n m h; simp [peel] at h
  | succ k ih =>
    intro n m h hm
    rcases mem_peel_succ.mp h with h' | ⟨_, h'⟩
    · obtain ⟨j, hj, hmj⟩ := ih n m h' hm
      exact ⟨j, Nat.lt_succ_of_lt hj, hmj⟩
    · exact ⟨k, Nat.lt_succ_self k, h' m hm⟩

theorem peel_path {E : List (Node × Node)} {ns : List Node} {n m : Node} (hp : Path E n m) :
    ∀ k, n ∈ peel (succOf E) ns k → ∃ j, j < k ∧ m ∈ peel (succOf E) ns j := by
  induction hp with
  | single h => intro k hk; exact peel_edge k _ _ hk (mem_succOf.mpr h)
  | cons h _ ih =>
    intro k hk
    obtain ⟨j, hj, hb⟩ := peel_edge k _ _ hk (mem_succOf.mpr h)
    obtain ⟨j', hj', hc⟩ := ih j hb
    exact ⟨j', Nat.lt_trans hj' hj, hc⟩

/-- a marked node lies on no closed walk -/
theorem peel_acyclic {E : List (Node × Node)} {ns : List Node} : ∀ (k : Nat) (n : Node),
    n ∈ peel (succOf E) ns k → ¬ Path E n n := by
  intro k
  induction k using Nat.strongRecOn with
  | _ k ih =>
    intro n hn hp
    obtain ⟨j, hj, hnj⟩ := peel_path hp k hn
    exact ih j hj n hnj hp

/-- `deliver` terminates on a marked node -/
theorem peel_deliver {sc : Node → List Node} {ns : List Node} : ∀ (k : Nat) (n : Node),
    n ∈ peel sc ns k → ∃ ws, deliver sc k n = some ws := by
  intro k
  induction k with
  | zero => intro n h; simp [peel] at h
  | succ k ih =>
    intro n h
    rcases mem_peel_succ.mp h with h' | ⟨_, h'⟩
    · obtain ⟨ws, hws⟩ := ih n h'
      exact ⟨ws, deliver_mono_succ sc k n ws hws⟩
    · simp only [deliver]
      by_cases he : n.isExp = true
      · exact ⟨[[]], by simp [he]⟩
      · simp only [he]
        exact collect_total (fun m hm => ih m (h' m hm))

/-- `deliver` also terminates for any behaviour that uses only some of the graph's edges -/
theorem peel_deliver_sub {sc sc' : Node → List Node} {ns : List Node} (hsub : ∀ n m, m ∈ sc' n → m ∈ sc n) :
    ∀ (k : Nat) (n : Node), n ∈ peel sc ns k → ∃ ws, deliver sc' k n = some ws := by
  intro k
  induction k with
  | zero => intro n h; simp [peel] at h
  | succ k ih =>
    intro n h
    rcases mem_peel_succ.mp h with h' | ⟨_, h'⟩
    · obtain ⟨ws, hws⟩ := ih n h'
      exact ⟨ws, deliver_mono_succ sc' k n ws hws⟩
    · simp only [deliver]
      by_cases he : n.isExp = true
      · exact ⟨[[]], by simp [he]⟩
      · simp only [he]
        exact collect_total (fun m hm => ih m (h' m (hsub n m hm)))

/-- every step of the walk `n, w` passes the filter -/
def PairsOk (f : Node × Node → Bool) : Node → List Node → Prop
  | _, [] => True
  | n, m :: w => f (n, m) = true ∧ PairsOk f m w

theorem isRouteWalk_filter {E : List (Node × Node)} {f : Node × Node → Bool} : ∀ (w : List Node) (n : Node),
    IsRouteWalk (E.filter f) n w ↔ IsRouteWalk E n w ∧ PairsOk f n w := by
  intro w
  induction w with
  | nil => intro n; simp [IsRouteWalk, PairsOk]
  | cons m w ih =>
    intro n
    simp only [IsRouteWalk, PairsOk, List.mem_filter, ih m]
    constructor
    · rintro ⟨h1, ⟨h2, h3⟩, h4, h5⟩; exact ⟨⟨h1, h2, h4⟩, h3, h5⟩
    · rintro ⟨⟨h1, h2, h4⟩, h3, h5⟩; exact ⟨h1, ⟨h2, h3⟩, h4, h5⟩

theorem sortable_mem {sc : Node → List Node} {ns : List Node} (h : sortable sc ns = true) {n : Node} (hn : n ∈ ns) :
    n ∈ peel sc ns ns.length := by
  simp only [sortable, List.all_eq_true, decide_eq_true_eq] at h
  exact h n hn

end OtelVerif.C09
