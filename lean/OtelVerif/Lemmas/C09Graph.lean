import OtelVerif.Lemmas.C09
/-! structure of the graph built from a configuration (core Lean only) -/
namespace OtelVerif.C09

/-! ## which nodes a pipeline attaches on its two sides -/

theorem mem_pipeRecvNodes {cfg : Cfg} {q : Pipeline} {n : Node} :
    n ∈ pipeRecvNodes cfg q ↔
      (∃ r, r ∈ q.recv ∧ cfg.isConn r = false ∧ n = Node.recv q.id.sig r) ∨
      (∃ c, c ∈ q.recv ∧ cfg.isConn c = true ∧ ∃ p, p ∈ cfg.pipes ∧ c ∈ p.exps ∧
        cfg.supp c p.id.sig q.id.sig = true ∧ n = Node.conn p.id.sig q.id.sig c) := by
  simp only [pipeRecvNodes, mem_dedup, List.mem_flatMap]
  constructor
  · rintro ⟨r, hr, h⟩
    by_cases hc : cfg.isConn r = true
    · simp only [hc, if_true, List.mem_map, List.mem_filter, asExp, decide_eq_true_eq] at h
      obtain ⟨p, ⟨⟨hp, hce⟩, hs⟩, rfl⟩ := h
      exact Or.inr ⟨r, hr, hc, p, hp, hce, hs, rfl⟩
    · have hc' : cfg.isConn r = false := by simpa using hc
      simp only [hc'] at h
      exact Or.inl ⟨r, hr, hc', by simpa using h⟩
  · rintro (⟨r, hr, hc, rfl⟩ | ⟨c, hc, hic, p, hp, hce, hs, rfl⟩)
    · exact ⟨r, hr, by simp [hc]⟩
    · refine ⟨c, hc, ?_⟩
      simp only [hic, if_true, List.mem_map, List.mem_filter, asExp, decide_eq_true_eq]
      exact ⟨p, ⟨⟨hp, hce⟩, hs⟩, rfl⟩

theorem mem_pipeExpNodes {cfg : Cfg} {p : Pipeline} {n : Node} :
    n ∈ pipeExpNodes cfg p ↔
      (∃ e, e ∈ p.exps ∧ cfg.isConn e = false ∧ n = Node.exp p.id.sig e) ∨
      (∃ c, c ∈ p.exps ∧ cfg.isConn c = true ∧ ∃ q, q ∈ cfg.pipes ∧ c ∈ q.recv ∧
        cfg.supp c p.id.sig q.id.sig = true ∧ n = Node.conn p.id.sig q.id.sig c) := by
  simp only [pipeExpNodes, mem_dedup, List.mem_flatMap]
  constructor
  · rintro ⟨r, hr, h⟩
    by_cases hc : cfg.isConn r = true
    · simp only [hc, if_true, List.mem_map, List.mem_filter, asRecv, decide_eq_true_eq] at h
      obtain ⟨q, ⟨⟨hq, hcr⟩, hs⟩, rfl⟩ := h
      exact Or.inr ⟨r, hr, hc, q, hq, hcr, hs, rfl⟩
    · have hc' : cfg.isConn r = false := by simpa using hc
      simp only [hc'] at h
      exact Or.inl ⟨r, hr, hc', by simpa using h⟩
  · rintro (⟨r, hr, hc, rfl⟩ | ⟨c, hc, hic, q, hq, hcr, hs, rfl⟩)
    · exact ⟨r, hr, by simp [hc]⟩
    · refine ⟨c, hc, ?_⟩
      simp only [hic, if_true, List.mem_map, List.mem_filter, asRecv, decide_eq_true_eq]
      exact ⟨q, ⟨⟨hq, hcr⟩, hs⟩, rfl⟩

/-! ## the processor chain -/

theorem chain_src_mem {a z x y : Node} {l : List Node} (h : (x, y) ∈ chain a l z) : x ∈ a :: l := by
  induction l generalizing a with
  | nil =>
    simp only [chain, List.mem_singleton, Prod.mk.injEq] at h
    simp [h.1]
  | cons b l ih =>
    simp only [chain, List.mem_cons, Prod.mk.injEq] at h
    rcases h with ⟨rfl, _⟩ | h
    · simp
    · exact List.mem_cons_of_mem _ (ih h)

/-- the chain is a walk -/
theorem walk_chain {E : List (Node × Node)} {a z : Node} {l rest : List Node}
    (hE : ∀ e, e ∈ chain a l z → e ∈ E) (ha : a.isExp = false) (hl : ∀ x ∈ l, x.isExp = false)
    (hz : IsRouteWalk E z rest) : IsRouteWalk E a (l ++ z :: rest) := by
  induction l generalizing a with
  | nil => exact ⟨ha, hE _ (by simp [chain]), hz⟩
  | cons b l ih =>
    refine ⟨ha, hE _ (by simp [chain]), ?_⟩
    exact ih (fun e he => hE e (by simp [chain, he])) (hl b List.mem_cons_self)
      (fun x hx => hl x (List.mem_cons_of_mem _ hx))

theorem path_chain {E : List (Node × Node)} {a z : Node} {l : List Node}
    (hE : ∀ e, e ∈ chain a l z → e ∈ E) : Path E a z := by
  induction l generalizing a with
  | nil => exact Path.single (hE _ (by simp [chain]))
  | cons b l ih =>
    exact Path.cons (b := b) (hE (a, b) (by simp [chain])) (ih (a := b) (fun e he => hE e (by simp [chain, he])))

/-- a walk that starts on the chain, in a graph where chain nodes have no other out-edges, runs along it -/
theorem walk_forced {E : List (Node × Node)} {z : Node} : ∀ (l : List Node) (a : Node) (w : List Node),
    (a :: l).Nodup → (∀ x, x ∈ a :: l → x.isExp = false) →
    (∀ x y, x ∈ a :: l → (x, y) ∈ E → (x, y) ∈ chain a l z) →
    IsRouteWalk E a w → ∃ rest, w = l ++ z :: rest ∧ IsRouteWalk E z rest := by
  intro l
  induction l with
  | nil =>
    intro a w _ hne hout hw
    cases w with
    | nil =>
      have := hne a List.mem_cons_self
      simp only [IsRouteWalk] at hw
      rw [this] at hw; cases hw
    | cons m w =>
      obtain ⟨_, hE, hw'⟩ := hw
      have := hout a m List.mem_cons_self hE
      simp only [chain, List.mem_singleton, Prod.mk.injEq] at this
      obtain ⟨_, rfl⟩ := this
      exact ⟨w, rfl, hw'⟩
  | cons b l ih =>
    intro a w hnd hne hout hw
    cases w with
    | nil =>
      have := hne a List.mem_cons_self
      simp only [IsRouteWalk] at hw
      rw [this] at hw; cases hw
    | cons m w =>
      obtain ⟨_, hE, hw'⟩ := hw
      have hnd' := List.nodup_cons.mp hnd
      have h1 := hout a m List.mem_cons_self hE
      simp only [chain, List.mem_cons, Prod.mk.injEq] at h1
      have hm : m = b := by
        rcases h1 with ⟨_, h⟩ | h
        · exact h
        · exact absurd (chain_src_mem h) hnd'.1
      subst hm
      obtain ⟨rest, hr, hz⟩ := ih m w hnd'.2 (fun x hx => hne x (List.mem_cons_of_mem _ hx))
        (fun x y hx hxy => by
          have h2 := hout x y (List.mem_cons_of_mem _ hx) hxy
          simp only [chain, List.mem_cons, Prod.mk.injEq] at h2
          rcases h2 with ⟨rfl, _⟩ | h2
          · exact absurd hx hnd'.1
          · exact h2) hw'
      exact ⟨rest, by rw [hr]; rfl, hz⟩

/-! ## edges -/

theorem mem_edges {cfg : Cfg} {a b : Node} :
    (a, b) ∈ edges cfg ↔ ∃ p, p ∈ cfg.pipes ∧
      ((a ∈ pipeRecvNodes cfg p ∧ b = Node.cap p.id) ∨
       (a, b) ∈ chain (Node.cap p.id) (procNodes p) (Node.fanout p.id) ∨
       (a = Node.fanout p.id ∧ b ∈ pipeExpNodes cfg p)) := by
  simp only [edges, List.mem_flatMap, pipeEdges, List.mem_append, List.mem_map, Prod.mk.injEq]
  constructor
  · rintro ⟨p, hp, (⟨r, hr, rfl, rfl⟩ | h) | ⟨e, he, rfl, rfl⟩⟩
    · exact ⟨p, hp, Or.inl ⟨hr, rfl⟩⟩
    · exact ⟨p, hp, Or.inr (Or.inl h)⟩
    · exact ⟨p, hp, Or.inr (Or.inr ⟨rfl, he⟩)⟩
  · rintro ⟨p, hp, ⟨hr, rfl⟩ | h | ⟨rfl, he⟩⟩
    · exact ⟨p, hp, Or.inl (Or.inl ⟨a, hr, rfl, rfl⟩)⟩
    · exact ⟨p, hp, Or.inl (Or.inr h)⟩
    · exact ⟨p, hp, Or.inr ⟨b, he, rfl, rfl⟩⟩

theorem pipe_eq_of_id {cfg : Cfg} (wf : cfg.WF) {p q : Pipeline} (hp : p ∈ cfg.pipes) (hq : q ∈ cfg.pipes)
    (h : p.id = q.id) : p = q := by
  have := wf.ids_nodup
  generalize cfg.pipes = l at hp hq this
  induction l with
  | nil => cases hp
  | cons x xs ih =>
    simp only [List.map_cons, List.nodup_cons, List.mem_map] at this
    rcases List.mem_cons.mp hp with rfl | hp' <;> rcases List.mem_cons.mp hq with rfl | hq'
    · rfl
    · exact absurd ⟨q, hq', h.symm⟩ this.1
    · exact absurd ⟨p, hp', h⟩ this.1
    · exact ih hp' hq' this.2

theorem recvNode_kind {cfg : Cfg} {q : Pipeline} {n : Node} (h : n ∈ pipeRecvNodes cfg q) :
    (∃ s r, n = Node.recv s r) ∨ (∃ es rs c, n = Node.conn es rs c) := by
  rcases mem_pipeRecvNodes.mp h with ⟨r, _, _, rfl⟩ | ⟨c, _, _, p, _, _, _, rfl⟩
  · exact Or.inl ⟨_, _, rfl⟩
  · exact Or.inr ⟨_, _, _, rfl⟩

theorem chainNode_kind {p : Pipeline} {x : Node} (h : x ∈ Node.cap p.id :: procNodes p) :
    x = Node.cap p.id ∨ ∃ i, i ∈ p.procs ∧ x = Node.proc p.id i := by
  rcases List.mem_cons.mp h with rfl | h
  · exact Or.inl rfl
  · simp only [procNodes, List.mem_map] at h
    obtain ⟨i, hi, rfl⟩ := h
    exact Or.inr ⟨i, hi, rfl⟩

/-- out-edges of the capabilities node / a processor node of `p` are exactly `p`'s chain edges -/
theorem chain_out {cfg : Cfg} (wf : cfg.WF) {p : Pipeline} (hp : p ∈ cfg.pipes) {x y : Node}
    (hx : x ∈ Node.cap p.id :: procNodes p) (h : (x, y) ∈ edges cfg) :
    (x, y) ∈ chain (Node.cap p.id) (procNodes p) (Node.fanout p.id) := by
  obtain ⟨p', hp', h1 | h2 | h3⟩ := mem_edges.mp h
  · rcases recvNode_kind h1.1 with ⟨s, r, rfl⟩ | ⟨es, rs, c, rfl⟩ <;>
      rcases chainNode_kind hx with h' | ⟨i, _, h'⟩ <;> cases h'
  · have hx' := chain_src_mem h2
    have : p'.id = p.id := by
      rcases chainNode_kind hx with h1 | ⟨i, _, h1⟩ <;> rcases chainNode_kind hx' with h2 | ⟨j, _, h2⟩
      · rw [h1] at h2; exact (Node.cap.inj h2).symm
      · rw [h1] at h2; cases h2
      · rw [h1] at h2; cases h2
      · rw [h1] at h2; exact (Node.proc.inj h2).1.symm
    have := pipe_eq_of_id wf hp' hp this
    subst this
    exact h2
  · rcases chainNode_kind hx with h' | ⟨i, _, h'⟩ <;> rw [h'] at h3 <;> cases h3.1

theorem fanout_out {cfg : Cfg} (wf : cfg.WF) {p : Pipeline} (hp : p ∈ cfg.pipes) {y : Node}
    (h : (Node.fanout p.id, y) ∈ edges cfg) : y ∈ pipeExpNodes cfg p := by
  obtain ⟨p', hp', h1 | h2 | h3⟩ := mem_edges.mp h
  · rcases recvNode_kind h1.1 with ⟨s, r, h'⟩ | ⟨es, rs, c, h'⟩ <;> cases h'
  · rcases chainNode_kind (chain_src_mem h2) with h' | ⟨j, _, h'⟩ <;> cases h'
  · have : p'.id = p.id := by
      have := h3.1
      injection this with h'
      exact h'.symm
    have := pipe_eq_of_id wf hp' hp this
    subst this
    exact h3.2

/-- out-edges of a receiver / connector node lead to the capabilities node of a pipeline that attached it -/
theorem src_out {cfg : Cfg} {x y : Node} (hk : (∃ s r, x = Node.recv s r) ∨ (∃ es rs c, x = Node.conn es rs c))
    (h : (x, y) ∈ edges cfg) : ∃ q, q ∈ cfg.pipes ∧ x ∈ pipeRecvNodes cfg q ∧ y = Node.cap q.id := by
  obtain ⟨p', hp', h1 | h2 | h3⟩ := mem_edges.mp h
  · exact ⟨p', hp', h1.1, h1.2⟩
  · rcases chainNode_kind (chain_src_mem h2) with h' | ⟨j, _, h'⟩ <;>
      rcases hk with ⟨s, r, rfl⟩ | ⟨es, rs, c, rfl⟩ <;> cases h'
  · rcases hk with ⟨s, r, rfl⟩ | ⟨es, rs, c, rfl⟩ <;> cases h3.1

theorem chain_nodup {cfg : Cfg} (wf : cfg.WF) {p : Pipeline} (hp : p ∈ cfg.pipes) :
    (Node.cap p.id :: procNodes p).Nodup := by
  rw [List.nodup_cons]
  constructor
  · intro h
    simp only [procNodes, List.mem_map] at h
    obtain ⟨i, _, hi⟩ := h
    cases hi
  · have := wf.procs_nodup p hp
    simp only [procNodes]
    generalize p.procs = l at this
    induction l with
    | nil => simp
    | cons x xs ih =>
      rw [List.nodup_cons] at this
      simp only [List.map_cons, List.nodup_cons, List.mem_map]
      refine ⟨?_, ih this.2⟩
      rintro ⟨y, hy, heq⟩
      injection heq with _ h2
      subst h2
      exact this.1 hy

theorem chain_nonexp {p : Pipeline} : ∀ x, x ∈ Node.cap p.id :: procNodes p → x.isExp = false := by
  intro x hx
  rcases chainNode_kind hx with rfl | ⟨i, _, rfl⟩ <;> rfl

/-! ## nodes -/

theorem mem_nodes {cfg : Cfg} {n : Node} : n ∈ nodes cfg ↔ ∃ p, p ∈ cfg.pipes ∧ n ∈ pipeNodes cfg p := by
  simp [nodes, mem_dedup, List.mem_flatMap]

theorem cap_mem_nodes {cfg : Cfg} {p : Pipeline} (hp : p ∈ cfg.pipes) : Node.cap p.id ∈ nodes cfg := by
  refine mem_nodes.mpr ⟨p, hp, ?_⟩
  simp [pipeNodes]

/-- targets of edges are nodes of the graph -/
theorem edge_target_mem {cfg : Cfg} {a b : Node} (h : (a, b) ∈ edges cfg) : b ∈ nodes cfg := by
  obtain ⟨p, hp, ⟨_, rfl⟩ | h2 | ⟨_, h3⟩⟩ := mem_edges.mp h
  · exact cap_mem_nodes hp
  · refine mem_nodes.mpr ⟨p, hp, ?_⟩
    have : b ∈ procNodes p ∨ b = Node.fanout p.id := by
      generalize Node.cap p.id = s at h2
      generalize procNodes p = l at h2 ⊢
      induction l generalizing s with
      | nil => simp only [chain, List.mem_singleton, Prod.mk.injEq] at h2; exact Or.inr h2.2
      | cons x xs ih =>
        simp only [chain, List.mem_cons, Prod.mk.injEq] at h2
        rcases h2 with ⟨_, rfl⟩ | h2
        · exact Or.inl List.mem_cons_self
        · rcases ih x h2 with h' | h'
          · exact Or.inl (List.mem_cons_of_mem _ h')
          · exact Or.inr h'
    simp only [pipeNodes, List.mem_append, List.mem_singleton]
    rcases this with h' | h'
    · exact Or.inl (Or.inl (Or.inr h'))
    · exact Or.inl (Or.inr h')
  · refine mem_nodes.mpr ⟨p, hp, ?_⟩
    simp only [pipeNodes, List.mem_append]
    exact Or.inr h3

/-! ## closed walks: from nodes to pipelines -/

theorem chain_tgt_mem {a z x y : Node} {l : List Node} (h : (x, y) ∈ chain a l z) : y ∈ l ∨ y = z := by
  induction l generalizing a with
  | nil =>
    simp only [chain, List.mem_singleton, Prod.mk.injEq] at h
    exact Or.inr h.2
  | cons b l ih =>
    simp only [chain, List.mem_cons, Prod.mk.injEq] at h
    rcases h with ⟨_, rfl⟩ | h
    · exact Or.inl List.mem_cons_self
    · rcases ih h with h' | h'
      · exact Or.inl (List.mem_cons_of_mem _ h')
      · exact Or.inr h'

/-- an exporter node has no out-edge -/
theorem exp_no_out {cfg : Cfg} {s : Sig} {e : CompId} {b : Node} : (Node.exp s e, b) ∉ edges cfg := by
  intro h
  obtain ⟨p, _, h1 | h2 | h3⟩ := mem_edges.mp h
  · rcases recvNode_kind h1.1 with ⟨_, _, h'⟩ | ⟨_, _, _, h'⟩ <;> cases h'
  · rcases chainNode_kind (chain_src_mem h2) with h' | ⟨_, _, h'⟩ <;> cases h'
  · cases h3.1

/-- a closed walk can be re-based at its second node -/
theorem path_rotate {E : List (Node × Node)} {x : Node} (h : Path E x x) : ∃ b, (x, b) ∈ E ∧ Path E b b := by
  cases h with
  | single h => exact ⟨x, h, Path.single h⟩
  | cons h rest => exact ⟨_, h, rest.trans (Path.single h)⟩

theorem path_first {E : List (Node × Node)} {x y : Node} (h : Path E x y) : ∃ b, (x, b) ∈ E := by
  cases h with
  | single h => exact ⟨_, h⟩
  | cons h _ => exact ⟨_, h⟩

/-- a closed walk through a node of a chain whose nodes have no other out-edges passes through the chain's end -/
theorem closed_forced {E : List (Node × Node)} {z : Node} : ∀ (l : List Node) (a : Node),
    (a :: l).Nodup → (∀ x y, x ∈ a :: l → (x, y) ∈ E → (x, y) ∈ chain a l z) →
    ∀ x, x ∈ a :: l → Path E x x → Path E z z := by
  intro l
  induction l with
  | nil =>
    intro a _ hout x hx hp
    have hxa : x = a := by simpa using hx
    subst hxa
    obtain ⟨b, hE, hb⟩ := path_rotate hp
    have := hout x b List.mem_cons_self hE
    simp only [chain, List.mem_singleton, Prod.mk.injEq] at this
    rw [this.2] at hb
    exact hb
  | cons b0 l ih =>
    intro a hnd hout x hx hp
    have hnd' := List.nodup_cons.mp hnd
    have hout' : ∀ u v, u ∈ b0 :: l → (u, v) ∈ E → (u, v) ∈ chain b0 l z := by
      intro u v hu huv
      have h2 := hout u v (List.mem_cons_of_mem _ hu) huv
      simp only [chain, List.mem_cons, Prod.mk.injEq] at h2
      rcases h2 with ⟨hua, _⟩ | h2
      · rw [hua] at hu; exact absurd hu hnd'.1
      · exact h2
    rcases List.mem_cons.mp hx with rfl | hx'
    · obtain ⟨b, hE, hb⟩ := path_rotate hp
      have h1 := hout x b List.mem_cons_self hE
      simp only [chain, List.mem_cons, Prod.mk.injEq] at h1
      have hbb : b = b0 := by
        rcases h1 with ⟨_, h⟩ | h
        · exact h
        · exact absurd (chain_src_mem h) hnd'.1
      subst hbb
      exact ih b hnd'.2 hout' b List.mem_cons_self hb
    · exact ih b0 hnd'.2 hout' x hx' hp

/-- a connector node attached on the exporter side of `p` and on the receiver side of `q` makes `p` feed `q` -/
theorem feeds_of_conn {cfg : Cfg} {p q : Pipeline} {es rs : Sig} {c : CompId}
    (h1 : Node.conn es rs c ∈ pipeExpNodes cfg p) (h2 : Node.conn es rs c ∈ pipeRecvNodes cfg q) : feeds cfg p q = true := by
  rcases mem_pipeExpNodes.mp h1 with ⟨_, _, _, h'⟩ | ⟨c1, hc1, hic, _, _, _, _, h'⟩
  · cases h'
  rcases mem_pipeRecvNodes.mp h2 with ⟨_, _, _, h''⟩ | ⟨c2, hc2, _, p2, _, _, hs, h''⟩
  · cases h''
  injection h' with e1 _ e3
  injection h'' with f1 f2 f3
  subst e3
  subst f3
  simp only [feeds, List.any_eq_true, Bool.and_eq_true, decide_eq_true_eq]
  refine ⟨c, hc1, ⟨hic, hc2⟩, ?_⟩
  rw [← e1, f1, ← f2] at *
  exact hs

/-- every closed walk of the built graph can be re-based at the capabilities node of some pipeline -/
theorem closed_to_cap {cfg : Cfg} (wf : cfg.WF) {x : Node} (hp : Path (edges cfg) x x) :
    ∃ q, q ∈ cfg.pipes ∧ Path (edges cfg) (Node.cap q.id) (Node.cap q.id) := by
  -- closed walk at a fan-out node
  have fan : ∀ p, p ∈ cfg.pipes → Path (edges cfg) (Node.fanout p.id) (Node.fanout p.id) →
      ∃ q, q ∈ cfg.pipes ∧ Path (edges cfg) (Node.cap q.id) (Node.cap q.id) := by
    intro p hpm hpp
    obtain ⟨e, hE, he⟩ := path_rotate hpp
    obtain ⟨m, hE2, hm⟩ := path_rotate he
    rcases mem_pipeExpNodes.mp (fanout_out wf hpm hE) with ⟨_, _, _, rfl⟩ | ⟨c, _, _, q, _, _, _, rfl⟩
    · exact absurd hE2 exp_no_out
    · obtain ⟨q', hq', _, rfl⟩ := src_out (Or.inr ⟨_, _, _, rfl⟩) hE2
      exact ⟨q', hq', hm⟩
  obtain ⟨b, hE, hb⟩ := path_rotate hp
  obtain ⟨p, hpm, h1 | h2 | h3⟩ := mem_edges.mp hE
  · obtain ⟨_, rfl⟩ := h1
    exact ⟨p, hpm, hb⟩
  · exact fan p hpm (closed_forced (procNodes p) (Node.cap p.id) (chain_nodup wf hpm)
      (fun x y hx hxy => chain_out wf hpm hx hxy) x (chain_src_mem h2) hp)
  · obtain ⟨rfl, _⟩ := h3
    exact fan p hpm hp

end OtelVerif.C09
