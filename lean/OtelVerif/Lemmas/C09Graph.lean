import OtelVerif.Lemmas.C09
/-! structure of the graph built from a configuration (core Lean only) -/
namespace OtelVerif.C09

/-! ## which nodes a pipeline attaches on its two sides -/

theorem mem_pipeRecvNodes {cfg : Cfg} {q : Pipeline} {n : Node} :
    n ∈ pipeRecvNodes cfg q ↔
      (∃ r, r ∈ q.recv ∧ cfg.isConn r = false ∧ n = Node.recv q.id.sig r) ∨
      (∃ c, c ∈ q.recv ∧ cfg.isConn c = true ∧ ∃ p, p ∈ cfg.pipes ∧ c ∈ p.exps ∧
        cfg.supp c p.id.sig q.id.sig = true ∧ n = Node.conn p.id.sig q.id.sig c) := by
  simp only [pipeRecvNodes, mem_dedup, List.mem_flatMap]
  constructor
  · rintro ⟨r, hr, h⟩
    by_cases hc : cfg.isConn r = true
    · simp only [hc, if_true, List.mem_map, List.mem_filter, asExp, decide_eq_true_eq] at h
      obtain ⟨p, ⟨⟨hp, hce⟩, hs⟩, rfl⟩ := h
      exact Or.inr ⟨r, hr, hc, p, hp, hce, hs, rfl⟩
    · have hc' : cfg.isConn r = false := by simpa using hc
      simp only [hc'] at h
      exact Or.inl ⟨r, hr, hc', by simpa using h⟩
  · rintro (⟨r, hr, hc, rfl⟩ | ⟨c, hc, hic, p, hp, hce, hs, rfl⟩)
    · exact ⟨r, hr, by simp [hc]⟩
    · refine ⟨c, hc, ?_⟩
      simp only [hic, if_true, List.mem_map, List.mem_filter, asExp, decide_eq_true_eq]
      exact ⟨p, ⟨⟨hp, hce⟩, hs⟩, rfl⟩

theorem mem_pipeExpNodes {cfg : Cfg} {p : Pipeline} {n : Node} :
    n ∈ pipeExpNodes cfg p ↔
      (∃ e, e ∈ p.exps ∧ cfg.isConn e = false ∧ n = Node.exp p.id.sig e) ∨
      (∃ c, c ∈ p.exps ∧ cfg.isConn c = true ∧ ∃ q, q ∈ cfg.pipes ∧ c ∈ q.recv ∧
        cfg.supp c p.id.sig q.id.sig = true ∧ n = Node.conn p.id.sig q.id.sig c) := by
  simp only [pipeExpNodes, mem_dedup, List.mem_flatMap]
  constructor
  · rintro ⟨r, hr, h⟩
    by_cases hc : cfg.isConn r = true
    · simp only [hc, if_true, List.mem_map, List.mem_filter, asRecv, decide_eq_true_eq] at h
      obtain ⟨q, ⟨⟨hq, hcr⟩, hs⟩, rfl⟩ := h
      exact Or.inr ⟨r, hr, hc, q, hq, hcr, hs, rfl⟩
    · have hc' : cfg.isConn r = false := by simpa using hc
      simp only [hc'] at h
      exact Or.inl ⟨r, hr, hc', by simpa using h⟩
  · rintro (⟨r, hr, hc, rfl⟩ | ⟨c, hc, hic, q, hq, hcr, hs, rfl⟩)
    · exact ⟨r, hr, by simp [hc]⟩
    · refine ⟨c, hc, ?_⟩
      simp only [hic, if_true, List.mem_map, List.mem_filter, asRecv, decide_eq_true_eq]
      exact ⟨q, ⟨⟨hq, hcr⟩, hs⟩, rfl⟩

/-! ## the processor chain -/

theorem chain_src_mem {a z x y : Node} {l : List Node} (h : (x, y) ∈ chain a l z) : x ∈ a :: l := by
  induction l generalizing a with
  | nil =>
    simp only [chain, List.mem_singleton, Prod.mk.injEq] at h
    simp [h.1]
  | cons b l ih =>
    simp only [chain, List.mem_cons, Prod.mk.injEq] at h
    rcases h with ⟨rfl, _⟩ | h
    · simp
    · exact List.mem_cons_of_mem _ (ih h)

/-- the chain is a walk -/
theorem walk_chain {E : List (Node × Node)} {a z : Node} {l rest : List Node}
    (hE : ∀ e, e ∈ chain a l z → e ∈ E) (ha : a.isExp = false) (hl : ∀ x ∈ l, x.isExp = false)
    (hz : IsRouteWalk E z rest) : IsRouteWalk E a (l ++ z :: rest) := by
  induction l generalizing a with
  | nil => exact ⟨ha, hE _ (by simp [chain]), hz⟩
  | cons b l ih =>
    refine ⟨ha, hE _ (by simp [chain]), ?_⟩
    exact ih (fun e he => hE e (by simp [chain, he])) (hl b List.mem_cons_self)
      (fun x hx => hl x (List.mem_cons_of_mem _ hx))

theorem path_chain {E : List (Node × Node)} {a z : Node} {l : List Node}
    (hE : ∀ e, e ∈ chain a l z → e ∈ E) : Path E a z := by
  induction l generalizing a with
  | nil => exact Path.single (hE _ (by simp [chain]))
  | cons b l ih =>
    exact Path.cons (b := b) (hE (a, b) (by simp [chain])) (ih (a := b) (fun e he => hE e (by simp [chain, he])))

/-- a walk that starts on the chain, in a graph where chain nodes have no other out-edges, runs along it -/
theorem walk_forced {E : List (Node × Node)} {z : Node} : ∀ (l : List Node) (a : Node) (w : List Node),
    (a :: l).Nodup → (∀ x, x ∈ a :: l → x.isExp = false) →
    (∀ x y, x ∈ a :: l → (x, y) ∈ E → (x, y) ∈ chain a l z) →
    IsRouteWalk E a w → ∃ rest, w = l ++ z :: rest ∧ IsRouteWalk E z rest := by
  intro l
  induction l with
  | nil =>
    intro a w _ hne hout hw
    cases w with
    | nil =>
      have := hne a List.mem_cons_self
      simp only [IsRouteWalk] at hw
      rw [this] at hw; cases hw
    | cons m w =>
      obtain ⟨_, hE, hw'⟩ := hw
      have := hout a m List.mem_cons_self hE
      simp only [chain, List.mem_singleton, Prod.mk.injEq] at this
      obtain ⟨_, rfl⟩ := this
      exact ⟨w, rfl, hw'⟩
  | cons b l ih =>
    intro a w hnd hne hout hw
    cases w with
    | nil =>
      have := hne a List.mem_cons_self
      simp only [IsRouteWalk] at hw
      rw [this] at hw; cases hw
    | cons m w =>
      obtain ⟨_, hE, hw'⟩ := hw
      have hnd' := List.nodup_cons.mp hnd
      have h1 := hout a m List.mem_cons_self hE
      simp only [chain, List.mem_cons, Prod.mk.injEq] at h1
      have hm : m = b := by
        rcases h1 with ⟨_, h⟩ | h
        · exact h
        · exact absurd (chain_src_mem h) hnd'.1
      subst hm
      obtain ⟨rest, hr, hz⟩ := ih m w hnd'.2 (fun x hx => hne x (List.mem_cons_of_mem _ hx))
        (fun x y hx hxy => by
          have h2 := hout x y (List.mem_cons_of_mem _ hx) hxy
          simp only [chain, List.mem_cons, Prod.mk.injEq] at h2
          rcases h2 with ⟨rfl, _⟩ | h2
          · exact absurd hx hnd'.1
          · exact h2) hw'
      exact ⟨rest, by rw [hr]; rfl, hz⟩

/-! ## edges -/

theorem mem_edges {cfg : Cfg} {a b : Node} :
    (a, b) ∈ edges cfg ↔ ∃ p, p ∈ cfg.pipes ∧
      ((a ∈ pipeRecvNodes cfg p ∧ b = Node.cap p.id) ∨
       (a, b) ∈ chain (Node.cap p.id) (procNodes p) (Node.fanout p.id) ∨
       (a = Node.fanout p.id ∧ b ∈ pipeExpNodes cfg p)) := by
  simp only [edges, List.mem_flatMap, pipeEdges, List.mem_append, List.mem_map, Prod.mk.injEq]
  constructor
  · rintro ⟨p, hp, (⟨r, hr, rfl, rfl⟩ | h) | ⟨e, he, rfl, rfl⟩⟩
    · exact ⟨p, hp, Or.inl ⟨hr, rfl⟩⟩
    · exact ⟨p, hp, Or.inr (Or.inl h)⟩
    · exact ⟨p, hp, Or.inr (Or.inr ⟨rfl, he⟩)⟩
  · rintro ⟨p, hp, ⟨hr, rfl⟩ | h | ⟨rfl, he⟩⟩
    · exact ⟨p, hp, Or.inl (Or.inl ⟨a, hr, rfl, rfl⟩)⟩
    · exact ⟨p, hp, Or.inl (Or.inr h)⟩
    · exact ⟨p, hp, Or.inr ⟨b, he, rfl, rfl⟩⟩

theorem pipe_eq_of_id {cfg : Cfg} (wf : cfg.WF) {p q : Pipeline} (hp : p ∈ cfg.pipes) (hq : q ∈ cfg.pipes)
    (h : p.id = q.id) : p = q := by
  have := wf.ids_nodup
  generalize cfg.pipes = l at hp hq this
  induction l with
  | nil => cases hp
  | cons x xs ih =>
    simp only [List.map_cons, List.nodup_cons, List.mem_map] at this
    rcases List.mem_cons.mp hp with rfl | hp' <;> rcases List.mem_cons.mp hq with rfl | hq'
    · rfl
    · exact absurd ⟨q, hq', h.symm⟩ this.1
    · exact absurd ⟨p, hp', h⟩ this.1
    · exact ih hp' hq' this.2

theorem recvNode_kind {cfg : Cfg} {q : Pipeline} {n : Node} (h : n ∈ pipeRecvNodes cfg q) :
    (∃ s r, n = Node.recv s r) ∨ (∃ es rs c, n = Node.conn es rs c) := by
  rcases mem_pipeRecvNodes.mp h with ⟨r, _, _, rfl⟩ | ⟨c, _, _, p, _, _, _, rfl⟩
  · exact Or.inl ⟨_, _, rfl⟩
  · exact Or.inr ⟨_, _, _, rfl⟩

theorem chainNode_kind {p : Pipeline} {x : Node} (h : x ∈ Node.cap p.id :: procNodes p) :
    x = Node.cap p.id ∨ ∃ i, i ∈ p.procs ∧ x = Node.proc p.id i := by
  rcases List.mem_cons.mp h with rfl | h
  · exact Or.inl rfl
  · simp only [procNodes, List.mem_map] at h
    obtain ⟨i, hi, rfl⟩ := h
    exact Or.inr ⟨i, hi, rfl⟩

/-- out-edges of the capabilities node / a processor node of `p` are exactly `p`'s chain edges -/
theorem chain_out {cfg : Cfg} (wf : cfg.WF) {p : Pipeline} (hp : p ∈ cfg.pipes) {x y : Node}
    (hx : x ∈ Node.cap p.id :: procNodes p) (h : (x, y) ∈ edges cfg) :
    (x, y) ∈ chain (Node.cap p.id) (procNodes p) (Node.fanout p.id) := by
  obtain ⟨p', hp', h1 | h2 | h3⟩ := mem_edges.mp h
  · rcases recvNode_kind h1.1 with ⟨s, r, rfl⟩ | ⟨es, rs, c, rfl⟩ <;>
      rcases chainNode_kind hx with h' | ⟨i, _, h'⟩ <;> cases h'
  · have hx' := chain_src_mem h2
    have : p'.id = p.id := by
      rcases chainNode_kind hx with h1 | ⟨i, _, h1⟩ <;> rcases chainNode_kind hx' with h2 | ⟨j, _, h2⟩
      · rw [h1] at h2; exact (Node.cap.inj h2).symm
      · rw [h1] at h2; cases h2
      · rw [h1] at h2; cases h2
      · rw [h1] at h2; exact (Node.proc.inj h2).1.symm
    have := pipe_eq_of_id wf hp' hp this
    subst this
    exact h2
  · rcases chainNode_kind hx with h' | ⟨i, _, h'⟩ <;> rw [h'] at h3 <;> cases h3.1

theorem fanout_out {cfg : Cfg} (wf : cfg.WF) {p : Pipeline} (hp : p ∈ cfg.pipes) {y : Node}
    (h : (Node.fanout p.id, y) ∈ edges cfg) : y ∈ pipeExpNodes cfg p := by
  obtain ⟨p', hp', h1 | h2 | h3⟩ := mem_edges.mp h
  · rcases recvNode_kind h1.1 with ⟨s, r, h'⟩ | ⟨es, rs, c, h'⟩ <;> cases h'
  · rcases chainNode_kind (chain_src_mem h2) with h' | ⟨j, _, h'⟩ <;> cases h'
  · have : p'.id = p.id := by
      have := h3.1
      injection this with h'
      exact h'.symm
    have := pipe_eq_of_id wf hp' hp this
    subst this
    exact h3.2

/-- out-edges of a receiver / connector node lead to the capabilities node of a pipeline that attached it -/
theorem src_out {cfg : Cfg} {x y : Node} (hk : (∃ s r, x = Node.recv s r) ∨ (∃ es rs c, x = Node.conn es rs c))
    (h : (x, y) ∈ edges cfg) : ∃ q, q ∈ cfg.pipes ∧ x ∈ pipeRecvNodes cfg q ∧ y = Node.cap q.id := by
  obtain ⟨p', hp', h1 | h2 | h3⟩ := mem_edges.mp h
  · exact ⟨p', hp', h1.1, h1.2⟩
  · rcases chainNode_kind (chain_src_mem h2) with h' | ⟨j, _, h'⟩ <;>
      rcases hk with ⟨s, r, rfl⟩ | ⟨es, rs, c, rfl⟩ <;> cases h'
  · rcases hk with ⟨s, r, rfl⟩ | ⟨es, rs, c, rfl⟩ <;> cases h3.1

theorem chain_nodup {cfg : Cfg} (wf : cfg.WF) {p : Pipeline} (hp : p ∈ cfg.pipes) :
    (Node.cap p.id :: procNodes p).Nodup := by
  rw [List.nodup_cons]
  constructor
  · intro h
    simp only [procNodes, List.mem_map] at h
    obtain ⟨i, _, hi⟩ := h
    cases hi
  · have := wf.procs_nodup p hp
    simp only [procNodes]
    generalize p.procs = l at this
    induction l with
    | nil => simp
    | cons x xs ih =>
      rw [List.nodup_cons] at this
      simp only [List.map_cons, List.nodup_cons, List.mem_map]
      refine ⟨?_, ih this.2⟩
      rintro ⟨y, hy, heq⟩
      injection heq with _ h2
      subst h2
      exact this.1 hy

theorem chain_nonexp {p : Pipeline} : ∀ x, x ∈ Node.cap p.id :: procNodes p → x.isExp = false := by
  intro x hx
  rcases chainNode_kind hx with rfl | ⟨i, _, rfl⟩ <;> rfl

/-! ## nodes -/

theorem mem_nodes {cfg : Cfg} {n : Node} : n ∈ nodes cfg ↔ ∃ p, p ∈ cfg.pipes ∧ n ∈ pipeNodes cfg p := by
  simp [nodes, mem_dedup, List.mem_flatMap]

theorem cap_mem_nodes {cfg : Cfg} {p : Pipeline} (hp : p ∈ cfg.pipes) : Node.cap p.id ∈ nodes cfg := by
  refine mem_nodes.mpr ⟨p, hp, ?_⟩
  simp [pipeNodes]

/-- targets of edges are nodes of the graph -/
theorem edge_target_mem {cfg : Cfg} {a b : Node} (h : (a, b) ∈ edges cfg) : b ∈ nodes cfg := by
  obtain ⟨p, hp, ⟨_, rfl⟩ | h2 | ⟨_, h3⟩⟩ := mem_edges.mp h
  · exact cap_mem_nodes hp
  · refine mem_nodes.mpr ⟨p, hp, ?_⟩
    have : b ∈ procNodes p ∨ b = Node.fanout p.id := by
      generalize Node.cap p.id = s at h2
      generalize procNodes p = l at h2 ⊢
      induction l generalizing s with
      | nil => simp only [chain, List.mem_singleton, Prod.mk.injEq] at h2; exact Or.inr h2.2
      | cons x xs ih =>
        simp only [chain, List.mem_cons, Prod.mk.injEq] at h2
        rcases h2 with ⟨_, rfl⟩ | h2
        · exact Or.inl List.mem_cons_self
        · rcases ih x h2 with h' | h'
          · exact Or.inl (List.mem_cons_of_mem _ h')
          · exact Or.inr h'
    simp only [pipeNodes, List.mem_append, List.mem_singleton]
    rcases this with h' | h'
    · exact Or.inl (Or.inl (Or.inr h'))
    · exact Or.inl (Or.inr h')
  · refine mem_nodes.mpr ⟨p, hp, ?_⟩
    simp only [pipeNodes, List.mem_append]
    exact Or.inr h3

end OtelVerif.C09
