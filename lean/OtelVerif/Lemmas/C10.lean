import OtelVerif.Model.C10
import OtelVerif.Lemmas.C09Graph
/-! helper lemmas for C10 (core Lean only) -/
namespace OtelVerif.C10
open OtelVerif.C09

/-! ## `Before` -/

section before
variable {α β : Type}

theorem Before.mem_left {l : List α} {x y : α} (h : Before l x y) : x ∈ l := by
  obtain ⟨l1, l2, l3, rfl⟩ := h; simp

theorem Before.mem_right {l : List α} {x y : α} (h : Before l x y) : y ∈ l := by
  obtain ⟨l1, l2, l3, rfl⟩ := h; simp

theorem before_append_left {l : List α} {x y : α} (m : List α) (h : Before l x y) : Before (l ++ m) x y := by
  obtain ⟨l1, l2, l3, rfl⟩ := h
  exact ⟨l1, l2, l3 ++ m, by simp⟩

theorem before_append_right {l : List α} {x y : α} (m : List α) (h : Before l x y) : Before (m ++ l) x y := by
  obtain ⟨l1, l2, l3, rfl⟩ := h
  exact ⟨m ++ l1, l2, l3, by simp⟩

theorem before_append_mid {l m : List α} {x y : α} (hx : x ∈ l) (hy : y ∈ m) : Before (l ++ m) x y := by
  obtain ⟨a, b, rfl⟩ := List.append_of_mem hx
  obtain ⟨c, d, rfl⟩ := List.append_of_mem hy
  exact ⟨a, b ++ c, d, by simp⟩

theorem before_map (f : α → β) {l : List α} {x y : α} (h : Before l x y) : Before (l.map f) (f x) (f y) := by
  obtain ⟨l1, l2, l3, rfl⟩ := h
  exact ⟨l1.map f, l2.map f, l3.map f, by simp⟩

theorem before_filter (p : α → Bool) {l : List α} {x y : α} (h : Before l x y) (hx : p x = true) (hy : p y = true) :
    Before (l.filter p) x y := by
  obtain ⟨l1, l2, l3, rfl⟩ := h
  exact ⟨l1.filter p, l2.filter p, l3.filter p, by simp [List.filter_append, hx, hy]⟩

theorem before_reverse {l : List α} {x y : α} (h : Before l x y) : Before l.reverse y x := by
  obtain ⟨l1, l2, l3, rfl⟩ := h
  exact ⟨l3.reverse, l2.reverse, l1.reverse, by simp⟩

/-- in a duplicate-free list the place of an element is unique -/
theorem split_unique : ∀ (a c : List α) {b d : List α} {y : α}, (a ++ y :: b).Nodup → a ++ y :: b = c ++ y :: d → a = c ∧ b = d := by
  intro a
  induction a with
  | nil =>
    intro c b d y hnd h
    cases c with
    | nil => simp only [List.nil_append, List.cons.injEq, true_and] at h; exact ⟨rfl, h⟩
    | cons z c =>
      simp only [List.nil_append, List.cons_append, List.cons.injEq] at h
      obtain ⟨rfl, rfl⟩ := h
      simp only [List.nil_append, List.nodup_cons, List.mem_append, List.mem_cons, true_or, or_true, not_true_eq_false,
        false_and] at hnd
  | cons z a ih =>
    intro c b d y hnd h
    cases c with
    | nil =>
      simp only [List.nil_append, List.cons_append, List.cons.injEq] at h
      obtain ⟨rfl, rfl⟩ := h
      simp only [List.cons_append, List.nodup_cons, List.mem_append, List.mem_cons, true_or, or_true, not_true_eq_false,
        false_and] at hnd
    | cons w c =>
      simp only [List.cons_append, List.cons.injEq] at h
      obtain ⟨rfl, h⟩ := h
      simp only [List.cons_append, List.nodup_cons] at hnd
      obtain ⟨rfl, rfl⟩ := ih c hnd.2 h
      exact ⟨rfl, rfl⟩

theorem before_trans {l : List α} {x y z : α} (hnd : l.Nodup) (h1 : Before l x y) (h2 : Before l y z) : Before l x z := by
  obtain ⟨l1, l2, l3, rfl⟩ := h1
  obtain ⟨m1, m2, m3, h⟩ := h2
  have h' : (l1 ++ x :: l2) ++ y :: l3 = m1 ++ y :: (m2 ++ z :: m3) := by simpa using h
  have hnd' : ((l1 ++ x :: l2) ++ y :: l3).Nodup := by simpa using hnd
  obtain ⟨_, rfl⟩ := split_unique _ _ hnd' h'
  exact ⟨l1, l2 ++ y :: m2, m3, by simp⟩

/-- `Before` survives cutting the list after (an occurrence of) the later element -/
theorem before_prefix {pre suf : List α} {x y : α} (hnd : (pre ++ suf).Nodup) (hy : y ∈ pre)
    (h : Before (pre ++ suf) x y) : Before pre x y := by
  obtain ⟨l1, l2, l3, h⟩ := h
  obtain ⟨p1, p2, rfl⟩ := List.append_of_mem hy
  have h' : p1 ++ y :: (p2 ++ suf) = (l1 ++ x :: l2) ++ y :: l3 := by simpa using h
  have hnd' : (p1 ++ y :: (p2 ++ suf)).Nodup := by simpa using hnd
  obtain ⟨rfl, _⟩ := split_unique _ _ hnd' h'
  exact ⟨l1, l2, p2, by simp⟩

theorem before_irrefl {l : List α} {x : α} (hnd : l.Nodup) : ¬ Before l x x := by
  rintro ⟨l1, l2, l3, rfl⟩
  have : x ∈ l2 ++ x :: l3 := by simp
  simp only [List.append_assoc, List.cons_append] at hnd
  exact (List.nodup_cons.mp (List.nodup_append.mp hnd).2.1).1 this

end before

/-! ## the loops -/

theorem runStarts_cons_ok {f : Comp → Bool} {c : Comp} {rest : List Comp} (h : f c = false) :
    runStarts f (c :: rest) = (c, true) :: runStarts f rest := by simp [runStarts, h]

theorem runStarts_cons_fail {f : Comp → Bool} {c : Comp} {rest : List Comp} (h : f c = true) :
    runStarts f (c :: rest) = [(c, false)] := by simp [runStarts, h]

theorem runStarts_prefix (f : Comp → Bool) : ∀ plan : List Comp, ∃ suf, (runStarts f plan).map (·.1) ++ suf = plan := by
  intro plan
  induction plan with
  | nil => exact ⟨[], rfl⟩
  | cons c rest ih =>
    cases h : f c with
    | true => exact ⟨rest, by rw [runStarts_cons_fail h]; rfl⟩
    | false =>
      obtain ⟨suf, hs⟩ := ih
      exact ⟨suf, by rw [runStarts_cons_ok h]; simp [hs]⟩

theorem runStarts_allOk (f : Comp → Bool) : ∀ plan : List Comp,
    allOk (runStarts f plan) = true ↔ ∀ c, c ∈ plan → f c = false := by
  intro plan
  induction plan with
  | nil => simp [runStarts, allOk]
  | cons c rest ih =>
    cases h : f c with
    | true =>
      rw [runStarts_cons_fail h]
      simp only [allOk, List.all_cons, List.all_nil, Bool.and_true, List.mem_cons, forall_eq_or_imp, h]
      simp
    | false =>
      rw [runStarts_cons_ok h]
      simp only [allOk, List.all_cons, Bool.true_and, List.mem_cons, forall_eq_or_imp, h, true_and]
      simpa [allOk] using ih

theorem runStarts_ok_all (f : Comp → Bool) : ∀ plan : List Comp, allOk (runStarts f plan) = true →
    (runStarts f plan).map (·.1) = plan := by
  intro plan
  induction plan with
  | nil => intro _; rfl
  | cons c rest ih =>
    intro h
    cases hc : f c with
    | true => rw [runStarts_cons_fail hc] at h; simp [allOk] at h
    | false =>
      rw [runStarts_cons_ok hc] at h ⊢
      simp only [allOk, List.all_cons, Bool.true_and] at h
      simp only [List.map_cons, List.cons.injEq, true_and]
      exact ih (by simpa [allOk] using h)

theorem runStarts_flags (f : Comp → Bool) : ∀ plan : List Comp, ∀ e, e ∈ runStarts f plan → e.2 = !(f e.1) := by
  intro plan
  induction plan with
  | nil => intro e he; cases he
  | cons c rest ih =>
    intro e he
    cases hc : f c with
    | true =>
      rw [runStarts_cons_fail hc, List.mem_singleton] at he
      subst he; simp [hc]
    | false =>
      rw [runStarts_cons_ok hc, List.mem_cons] at he
      rcases he with he | he
      · subst he; simp [hc]
      · exact ih e he

theorem failedStartIsLast_runStarts (f : Comp → Bool) : ∀ plan : List Comp, failedStartIsLast (runStarts f plan) = true := by
  intro plan
  have key : ∀ plan : List Comp, ∀ pre x, runStarts f plan = pre ++ [x] → pre.all (·.2) = true := by
    intro plan
    induction plan with
    | nil => intro pre x h; simp [runStarts] at h
    | cons c rest ih =>
      intro pre x h
      cases hc : f c with
      | true =>
        rw [runStarts_cons_fail hc] at h
        cases pre with
        | nil => rfl
        | cons p ps => simp at h
      | false =>
        rw [runStarts_cons_ok hc] at h
        cases pre with
        | nil => rfl
        | cons p ps =>
          simp only [List.cons_append, List.cons.injEq] at h
          obtain ⟨hp, h⟩ := h
          subst hp
          simp only [List.all_cons, Bool.true_and]
          exact ih ps x h
  simp only [failedStartIsLast]
  cases hrev : (runStarts f plan).reverse with
  | nil => rfl
  | cons x earlier =>
    have : runStarts f plan = earlier.reverse ++ [x] := by
      have := congrArg List.reverse hrev
      simpa using this
    have := key plan _ _ this
    simpa using this

theorem runStarts_append (f : Comp → Bool) (a b : List Comp) :
    runStarts f (a ++ b) = if allOk (runStarts f a) then runStarts f a ++ runStarts f b else runStarts f a := by
  induction a with
  | nil => simp [runStarts, allOk]
  | cons c rest ih =>
    cases hc : f c with
    | true =>
      rw [List.cons_append, runStarts_cons_fail hc, runStarts_cons_fail hc]
      simp [allOk]
    | false =>
      rw [List.cons_append, runStarts_cons_ok hc, runStarts_cons_ok hc, ih]
      simp only [allOk, List.all_cons, Bool.true_and]
      by_cases hr : (runStarts f rest).all (·.2) = true
      · simp [hr, allOk]
      · simp [hr, allOk]

/-- `Service.Start` is one early-exit loop over extensions followed by the graph's start plan -/
theorem serviceStart_eq (sys : Sys) (f : Comp → Bool) :
    serviceStart sys f = runStarts f (sys.eorder.map Comp.ext ++ startPlan sys.gorderStart) := by
  unfold serviceStart extStart graphStart
  rw [runStarts_append]

/-! ## who sends to whom -/

theorem mem_expand {E : List (Node × Node)} {l : List Node} {a : Node} (h : a ∈ expand E l) :
    a ∈ l ∨ ∃ n, n ∈ l ∧ (n, a) ∈ E := by
  simp only [expand, List.mem_flatMap] at h
  obtain ⟨n, hn, ha⟩ := h
  by_cases hc : n.isComp = true
  · simp only [hc, if_true, List.mem_singleton] at ha
    subst ha; exact Or.inl hn
  · simp only [hc] at ha
    exact Or.inr ⟨n, hn, mem_succOf.mp ha⟩

theorem compSucc_path {E : List (Node × Node)} {a b : Node} (h : a ∈ compSucc E b) : Path E b a := by
  simp only [compSucc, List.mem_filter] at h
  have reach1 : ∀ x, x ∈ succOf E b → Path E b x := fun x hx => Path.single (mem_succOf.mp hx)
  have reach2 : ∀ x, x ∈ expand E (succOf E b) → Path E b x := by
    intro x hx
    rcases mem_expand hx with h1 | ⟨n, hn, hE⟩
    · exact reach1 x h1
    · exact (reach1 n hn).trans (Path.single hE)
  rcases mem_expand h.1 with h1 | ⟨n, hn, hE⟩
  · exact reach2 a h1
  · exact (reach2 n hn).trans (Path.single hE)

theorem compSucc_isComp {E : List (Node × Node)} {a b : Node} (h : a ∈ compSucc E b) : a.isComp = true := by
  simp only [compSucc, List.mem_filter] at h
  exact h.2

/-- no edge of a built graph points at a receiver -/
theorem edge_target_not_recv {cfg : Cfg} {x a : Node} (h : (x, a) ∈ edges cfg) : isRecvN a = false := by
  obtain ⟨p, _, ⟨_, rfl⟩ | h2 | ⟨_, h3⟩⟩ := mem_edges.mp h
  · rfl
  · have : a ∈ procNodes p ∨ a = Node.fanout p.id := by
      generalize Node.cap p.id = s at h2
      generalize procNodes p = l at h2 ⊢
      induction l generalizing s with
      | nil => simp only [chain, List.mem_singleton, Prod.mk.injEq] at h2; exact Or.inr h2.2
      | cons y ys ih =>
        simp only [chain, List.mem_cons, Prod.mk.injEq] at h2
        rcases h2 with ⟨_, rfl⟩ | h2
        · exact Or.inl List.mem_cons_self
        · rcases ih y h2 with h' | h'
          · exact Or.inl (List.mem_cons_of_mem _ h')
          · exact Or.inr h'
    rcases this with h' | rfl
    · simp only [procNodes, List.mem_map] at h'
      obtain ⟨i, _, rfl⟩ := h'
      rfl
    · rfl
  · rcases mem_pipeExpNodes.mp h3 with ⟨e, _, _, rfl⟩ | ⟨c, _, _, q, _, _, _, rfl⟩ <;> rfl

theorem path_target_not_recv {cfg : Cfg} {x a : Node} (h : Path (edges cfg) x a) : isRecvN a = false := by
  induction h with
  | single h => exact edge_target_not_recv h
  | cons _ _ ih => exact ih

/-- a topological order puts the source of every path before its target -/
theorem topo_path {ns : List Node} {E : List (Node × Node)} {order : List Node} (ht : IsTopo ns E order)
    {a b : Node} (h : Path E a b) : Before order a b := by
  induction h with
  | single h => exact ht.fwd _ _ h
  | cons h _ ih => exact before_trans ht.nodup (ht.fwd _ _ h) ih

/-! ## plans are duplicate-free -/

theorem nodup_map_node {l : List Node} (h : l.Nodup) : (l.map Comp.node).Nodup := by
  induction l with
  | nil => simp
  | cons x xs ih =>
    rw [List.nodup_cons] at h
    simp only [List.map_cons, List.nodup_cons, List.mem_map]
    refine ⟨?_, ih h.2⟩
    rintro ⟨y, hy, heq⟩
    injection heq with h'
    subst h'
    exact h.1 hy

theorem nodup_map_ext {l : List Nat} (h : l.Nodup) : (l.map Comp.ext).Nodup := by
  induction l with
  | nil => simp
  | cons x xs ih =>
    rw [List.nodup_cons] at h
    simp only [List.map_cons, List.nodup_cons, List.mem_map]
    refine ⟨?_, ih h.2⟩
    rintro ⟨y, hy, heq⟩
    injection heq with h'
    subst h'
    exact h.1 hy

theorem nodup_split_filter {l : List Node} (p : Node → Bool) (h : l.Nodup) :
    (l.filter (fun n => !(p n)) ++ l.filter p).Nodup := by
  rw [List.nodup_append]
  refine ⟨h.sublist List.filter_sublist, h.sublist List.filter_sublist, ?_⟩
  intro a ha b hb hab
  subst hab
  simp only [List.mem_filter, Bool.not_eq_true'] at ha hb
  rw [ha.2] at hb
  cases hb.2

theorem mem_startPlan {order : List Node} {c : Comp} :
    c ∈ startPlan order ↔ ∃ n, n ∈ order ∧ n.isComp = true ∧ c = Comp.node n := by
  simp only [startPlan, List.mem_map, List.mem_append, List.mem_filter, List.mem_reverse, Bool.not_eq_true']
  constructor
  · rintro ⟨n, (⟨⟨h1, h2⟩, _⟩ | ⟨⟨h1, h2⟩, _⟩), rfl⟩ <;> exact ⟨n, h1, h2, rfl⟩
  · rintro ⟨n, h1, h2, rfl⟩
    cases hr : isRecvN n with
    | false => exact ⟨n, Or.inl ⟨⟨h1, h2⟩, hr⟩, rfl⟩
    | true => exact ⟨n, Or.inr ⟨⟨h1, h2⟩, hr⟩, rfl⟩

theorem nodup_startPlan {order : List Node} (h : order.Nodup) : (startPlan order).Nodup := by
  simp only [startPlan]
  apply nodup_map_node
  apply nodup_split_filter
  exact ((List.reverse_perm order).nodup_iff.mpr h).sublist List.filter_sublist

theorem mem_stopPlan {order : List Node} {c : Comp} :
    c ∈ stopPlan order ↔ ∃ n, n ∈ order ∧ n.isComp = true ∧ c = Comp.node n := by
  simp only [stopPlan, List.mem_map, List.mem_append, List.mem_filter, Bool.not_eq_true']
  constructor
  · rintro ⟨n, (⟨⟨h1, h2⟩, _⟩ | ⟨⟨h1, h2⟩, _⟩), rfl⟩ <;> exact ⟨n, h1, h2, rfl⟩
  · rintro ⟨n, h1, h2, rfl⟩
    cases hr : n.isExp with
    | false => exact ⟨n, Or.inl ⟨⟨h1, h2⟩, hr⟩, rfl⟩
    | true => exact ⟨n, Or.inr ⟨⟨h1, h2⟩, hr⟩, rfl⟩

theorem nodup_stopPlan {order : List Node} (h : order.Nodup) : (stopPlan order).Nodup := by
  simp only [stopPlan]
  apply nodup_map_node
  apply nodup_split_filter
  exact h.sublist List.filter_sublist

/-- whoever sends data to something is not an exporter -/
theorem compSucc_src_not_exp {cfg : Cfg} {a b : Node} (h : a ∈ compSucc (edges cfg) b) : b.isExp = false := by
  obtain ⟨m, hm⟩ := path_first (compSucc_path h)
  cases b with
  | exp s e => exact absurd hm exp_no_out
  | _ => rfl

theorem mem_compsOf {order : List Node} {c : Comp} :
    c ∈ compsOf order ↔ ∃ n, n ∈ order ∧ n.isComp = true ∧ c = Comp.node n := by
  simp only [compsOf, List.mem_map, List.mem_filter]
  constructor
  · rintro ⟨n, ⟨h1, h2⟩, rfl⟩; exact ⟨n, h1, h2, rfl⟩
  · rintro ⟨n, h1, h2, rfl⟩; exact ⟨n, ⟨h1, h2⟩, rfl⟩

theorem nodup_compsOf {order : List Node} (h : order.Nodup) : (compsOf order).Nodup :=
  nodup_map_node (h.sublist List.filter_sublist)

theorem nodup_plan_append {a : List Nat} {b : List Comp} (ha : a.Nodup) (hb : b.Nodup)
    (hbn : ∀ c, c ∈ b → ∃ n, c = Comp.node n) : (a.map Comp.ext ++ b).Nodup := by
  rw [List.nodup_append]
  refine ⟨nodup_map_ext ha, hb, ?_⟩
  intro x hx y hy hxy
  subst hxy
  simp only [List.mem_map] at hx
  obtain ⟨e, _, rfl⟩ := hx
  obtain ⟨n, hn⟩ := hbn _ hy
  cases hn

/-! ## the Bool monitor reflects `Before` -/

theorem before_of_idx {α : Type} [DecidableEq α] {x y : α} : ∀ l : List α, y ∈ l → List.idxOf x l < List.idxOf y l → Before l x y := by
  intro l
  induction l with
  | nil => intro hy _; cases hy
  | cons a l ih =>
    intro hy hlt
    by_cases hax : a = x
    · subst hax
      by_cases hay : a = y
      · subst hay; simp [List.idxOf_cons] at hlt
      · have hy' : y ∈ l := by
          rcases List.mem_cons.mp hy with h' | h'
          · exact absurd h'.symm hay
          · exact h'
        obtain ⟨c, d, rfl⟩ := List.append_of_mem hy'
        exact ⟨[], c, d, by simp⟩
    · by_cases hay : a = y
      · subst hay
        simp [List.idxOf_cons] at hlt
      · have hy' : y ∈ l := by
          rcases List.mem_cons.mp hy with h' | h'
          · exact absurd h'.symm hay
          · exact h'
        have hlt' : List.idxOf x l < List.idxOf y l := by
          have h1 : (a == x) = false := by simpa using hax
          have h2 : (a == y) = false := by simpa using hay
          simpa [List.idxOf_cons, h1, h2] using hlt
        obtain ⟨l1, l2, l3, rfl⟩ := ih hy' hlt'
        exact ⟨a :: l1, l2, l3, by simp⟩

theorem before_of_beforeB {α : Type} [DecidableEq α] {l : List α} {x y : α} (h : beforeB l x y = true) : Before l x y := by
  simp only [beforeB, Bool.and_eq_true, decide_eq_true_eq, idx] at h
  exact before_of_idx l h.1.2 (of_decide_eq_true h.2)

theorem nodup_of_nodupB {α : Type} [DecidableEq α] {l : List α} (h : nodupB l = true) : l.Nodup := by
  induction l with
  | nil => simp
  | cons a l ih =>
    simp only [nodupB, Bool.and_eq_true, Bool.not_eq_true', decide_eq_false_iff_not] at h
    exact List.nodup_cons.mpr ⟨h.1, ih h.2⟩

theorem nodupB_of_nodup {α : Type} [DecidableEq α] {l : List α} (h : l.Nodup) : nodupB l = true := by
  induction l with
  | nil => rfl
  | cons a l ih =>
    rw [List.nodup_cons] at h
    simp only [nodupB, Bool.and_eq_true, Bool.not_eq_true', decide_eq_false_iff_not]
    exact ⟨h.1, ih h.2⟩

theorem idxOf_lt_of_split {α : Type} [DecidableEq α] {x y : α} {l2 l3 : List α} : ∀ l1 : List α,
    (l1 ++ x :: l2 ++ y :: l3).Nodup → List.idxOf x (l1 ++ x :: l2 ++ y :: l3) < List.idxOf y (l1 ++ x :: l2 ++ y :: l3) := by
  intro l1
  induction l1 with
  | nil =>
    intro hnd
    have hxy : x ≠ y := by
      intro h; subst h
      simp at hnd
    have : (x == y) = false := by simpa using hxy
    simp [List.idxOf_cons, this]
  | cons a l1 ih =>
    intro hnd
    simp only [List.cons_append, List.nodup_cons] at hnd
    have hax : (a == x) = false := by
      have : a ≠ x := by intro h; subst h; exact hnd.1 (by simp)
      simpa using this
    have hay : (a == y) = false := by
      have : a ≠ y := by intro h; subst h; exact hnd.1 (by simp)
      simpa using this
    have := ih (by simpa using hnd.2)
    simp only [List.cons_append, List.idxOf_cons, hax, hay]
    simpa using this

/-- on duplicate-free lists the Bool monitor is complete for `Before` -/
theorem beforeB_of_before {α : Type} [DecidableEq α] {l : List α} {x y : α} (hnd : l.Nodup) (h : Before l x y) :
    beforeB l x y = true := by
  have hx := h.mem_left
  have hy := h.mem_right
  obtain ⟨l1, l2, l3, rfl⟩ := h
  simp only [beforeB, Bool.and_eq_true, decide_eq_true_eq, idx]
  exact ⟨⟨hx, hy⟩, decide_eq_true (idxOf_lt_of_split l1 hnd)⟩

theorem not_before_of_beforeB_false {α : Type} [DecidableEq α] {l : List α} {x y : α} (hnd : l.Nodup)
    (h : beforeB l x y = false) : ¬ Before l x y := by
  intro hb
  rw [beforeB_of_before hnd hb] at h
  cases h

theorem isTopo_of_isTopoB {α : Type} [DecidableEq α] {ns : List α} {E : List (α × α)} {order : List α}
    (h : isTopoB ns E order = true) : IsTopo ns E order := by
  simp only [isTopoB, Bool.and_eq_true, List.all_eq_true, decide_eq_true_eq] at h
  obtain ⟨⟨⟨h1, h2⟩, h3⟩, h4⟩ := h
  exact ⟨nodup_of_nodupB h1, fun n => ⟨h2 n, h3 n⟩, fun a b hab => before_of_beforeB (h4 (a, b) hab)⟩

end OtelVerif.C10
