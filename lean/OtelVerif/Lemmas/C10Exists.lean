import OtelVerif.Lemmas.C10
/-!
# C10: an accepted service HAS topological orders

`topo.Sort` is a parameter of the C10 theorems (`Sys.Admissible`).  This file shows that the hypothesis is
satisfiable for every service `newService` accepts: the peeling that models gonum's success condition
(`C09.sortable`, `extSortable`) itself yields a topological order — the reverse of the peeling order for the
component graph (sinks are peeled first), the peeling order for the extension graph (dependencies are released
first).  Core Lean only.
-/
namespace OtelVerif.C10
open OtelVerif.C09

/-! ## component graph -/

theorem peel_sub {sc : Node → List Node} {ns : List Node} : ∀ (k : Nat) (n : Node), n ∈ peel sc ns k → n ∈ ns := by
  intro k
  induction k with
  | zero => intro n h; simp [peel] at h
  | succ k ih =>
    intro n h
    rcases mem_peel_succ.mp h with h | h
    · exact ih n h
    · exact h.1

theorem peel_nodup {sc : Node → List Node} {ns : List Node} (hnd : ns.Nodup) : ∀ k : Nat, (peel sc ns k).Nodup := by
  intro k
  induction k with
  | zero => simp [peel]
  | succ k ih =>
    simp only [peel, peelStep]
    refine List.nodup_append.mpr ⟨ih, hnd.filter _, ?_⟩
    intro a ha b hb hab
    subst hab
    simp only [List.mem_filter, Bool.and_eq_true, Bool.not_eq_true', decide_eq_false_iff_not] at hb
    exact hb.2.1 ha

/-- in the peeling order every successor of a marked node stands before it -/
theorem peel_before {sc : Node → List Node} {ns : List Node} : ∀ (k : Nat) (a b : Node),
    a ∈ peel sc ns k → b ∈ sc a → Before (peel sc ns k) b a := by
  intro k
  induction k with
  | zero => intro a b h; simp [peel] at h
  | succ k ih =>
    intro a b ha hb
    simp only [peel, peelStep] at ha ⊢
    rcases List.mem_append.mp ha with h | h
    · exact before_append_left _ (ih a b h hb)
    · have h' := h
      simp only [List.mem_filter, Bool.and_eq_true, Bool.not_eq_true', decide_eq_false_iff_not,
        List.all_eq_true, decide_eq_true_eq] at h'
      exact before_append_mid (h'.2.2 b hb) h

theorem nodup_reverse' {α : Type} {l : List α} (h : l.Nodup) : l.reverse.Nodup := by
  rw [List.Nodup, List.pairwise_reverse]
  exact List.Pairwise.imp (fun h => Ne.symm h) h

/-- the model of gonum's success condition yields a topological order: the reverse of the peeling order -/
theorem isTopo_of_sortable (E : List (Node × Node)) (ns : List Node) (hnd : ns.Nodup)
    (hsrc : ∀ a b, (a, b) ∈ E → a ∈ ns)
    (h : sortable (succOf E) ns = true) :
    IsTopo ns E (peel (succOf E) ns ns.length).reverse where
  nodup := nodup_reverse' (peel_nodup hnd _)
  mem := fun n => by
    rw [List.mem_reverse]
    exact ⟨peel_sub _ n, fun hn => sortable_mem h hn⟩
  fwd := fun a b hab => by
    have ha : a ∈ peel (succOf E) ns ns.length := sortable_mem h (hsrc a b hab)
    exact before_reverse (peel_before _ a b ha (mem_succOf.mpr hab))

/-- sources of edges are nodes of the graph -/
theorem edge_source_mem {cfg : Cfg} {a b : Node} (h : (a, b) ∈ edges cfg) : a ∈ nodes cfg := by
  obtain ⟨p, hp, ⟨h1, _⟩ | h2 | ⟨h3, _⟩⟩ := mem_edges.mp h
  · refine mem_nodes.mpr ⟨p, hp, ?_⟩
    simp only [pipeNodes, List.mem_append, List.mem_singleton]
    exact Or.inl (Or.inl (Or.inl (Or.inl h1)))
  · refine mem_nodes.mpr ⟨p, hp, ?_⟩
    have := chain_src_mem h2
    simp only [pipeNodes, List.mem_append, List.mem_singleton]
    rcases List.mem_cons.mp this with h' | h'
    · exact Or.inl (Or.inl (Or.inl (Or.inr h')))
    · exact Or.inl (Or.inl (Or.inr h'))
  · refine mem_nodes.mpr ⟨p, hp, ?_⟩
    simp only [pipeNodes, List.mem_append, List.mem_singleton]
    exact Or.inl (Or.inr h3)

theorem isTopo_of_build {cfg : Cfg} (h : build cfg = none) :
    IsTopo (nodes cfg) (edges cfg) (peel (succOf (edges cfg)) (nodes cfg) (nodes cfg).length).reverse := by
  refine isTopo_of_sortable _ _ (nodup_dedup _) (fun a b hab => edge_source_mem hab) ?_
  simp only [build] at h
  by_cases h1 : createNodesOk cfg = true
  · by_cases h2 : sortable (succOf (edges cfg)) (nodes cfg) = true
    · exact h2
    · simp [h1, h2] at h
  · simp [h1] at h

/-! ## extension dependency graph -/

theorem mem_extPeel_succ {exts : List Ext} {k : Nat} {i : Nat} :
    i ∈ extPeel exts (k + 1) ↔ i ∈ extPeel exts k ∨
      (i ∉ extPeel exts k ∧ ∃ e, e ∈ exts ∧ e.id = i ∧ ∀ d ∈ e.deps, d ∈ extPeel exts k) := by
  simp only [extPeel, extPeelStep, List.mem_append, List.mem_map, List.mem_filter, Bool.and_eq_true,
    Bool.not_eq_true', decide_eq_false_iff_not, List.all_eq_true, decide_eq_true_eq]
  constructor
  · rintro (h | ⟨e, ⟨he, hnd, hd⟩, rfl⟩)
    · exact Or.inl h
    · exact Or.inr ⟨hnd, e, he, rfl, hd⟩
  · rintro (h | ⟨hnd, e, he, rfl, hd⟩)
    · exact Or.inl h
    · exact Or.inr ⟨e, ⟨he, hnd, hd⟩, rfl⟩

theorem extPeel_sub {exts : List Ext} : ∀ (k : Nat) (i : Nat), i ∈ extPeel exts k → i ∈ exts.map (·.id) := by
  intro k
  induction k with
  | zero => intro i h; simp [extPeel] at h
  | succ k ih =>
    intro i h
    rcases mem_extPeel_succ.mp h with h | ⟨_, e, he, rfl, _⟩
    · exact ih i h
    · exact List.mem_map.mpr ⟨e, he, rfl⟩

theorem nodup_map_filter_id {exts : List Ext} (p : Ext → Bool) (hnd : (exts.map (·.id)).Nodup) :
    ((exts.filter p).map (·.id)).Nodup := by
  induction exts with
  | nil => simp
  | cons e l ih =>
    simp only [List.map_cons, List.nodup_cons] at hnd
    by_cases hp : p e = true
    · simp only [List.filter_cons_of_pos hp, List.map_cons, List.nodup_cons]
      refine ⟨?_, ih hnd.2⟩
      intro hm
      obtain ⟨x, hx, hxe⟩ := List.mem_map.mp hm
      exact hnd.1 (List.mem_map.mpr ⟨x, (List.mem_filter.mp hx).1, hxe⟩)
    · simp only [List.filter_cons_of_neg hp]
      exact ih hnd.2

theorem extPeel_nodup {exts : List Ext} (hnd : (exts.map (·.id)).Nodup) : ∀ k : Nat, (extPeel exts k).Nodup := by
  intro k
  induction k with
  | zero => simp [extPeel]
  | succ k ih =>
    simp only [extPeel, extPeelStep]
    refine List.nodup_append.mpr ⟨ih, nodup_map_filter_id _ hnd, ?_⟩
    intro a ha b hb hab
    subst hab
    obtain ⟨e, he, rfl⟩ := List.mem_map.mp hb
    simp only [List.mem_filter, Bool.and_eq_true, Bool.not_eq_true', decide_eq_false_iff_not] at he
    exact he.2.1 ha

theorem ext_eq_of_id {exts : List Ext} (hnd : (exts.map (·.id)).Nodup) {e e' : Ext} (he : e ∈ exts) (he' : e' ∈ exts)
    (h : e.id = e'.id) : e = e' := by
  induction exts with
  | nil => cases he
  | cons x l ih =>
    simp only [List.map_cons, List.nodup_cons] at hnd
    rcases List.mem_cons.mp he with rfl | h1 <;> rcases List.mem_cons.mp he' with rfl | h2
    · rfl
    · exact absurd (List.mem_map.mpr ⟨e', h2, h.symm⟩) hnd.1
    · exact absurd (List.mem_map.mpr ⟨e, h1, h⟩) hnd.1
    · exact ih hnd.2 h1 h2

/-- in the release order every dependency of a released extension stands before it -/
theorem extPeel_before {exts : List Ext} (hnd : (exts.map (·.id)).Nodup) : ∀ (k : Nat) (e : Ext) (d : Nat),
    e ∈ exts → e.id ∈ extPeel exts k → d ∈ e.deps → Before (extPeel exts k) d e.id := by
  intro k
  induction k with
  | zero => intro e d _ h; simp [extPeel] at h
  | succ k ih =>
    intro e d he hm hd
    rcases mem_extPeel_succ.mp hm with h | ⟨hnot, e', he', hid, hdeps⟩
    · simp only [extPeel, extPeelStep]
      exact before_append_left _ (ih e d he h hd)
    · have : e' = e := ext_eq_of_id hnd he' he hid
      subst this
      have hnew : e'.id ∈ (exts.filter (fun e => !(decide (e.id ∈ extPeel exts k)) &&
          e.deps.all (fun d => decide (d ∈ extPeel exts k)))).map (·.id) := by
        refine List.mem_map.mpr ⟨e', ?_, rfl⟩
        simp only [List.mem_filter, Bool.and_eq_true, Bool.not_eq_true', decide_eq_false_iff_not,
          List.all_eq_true, decide_eq_true_eq]
        exact ⟨he, hnot, hdeps⟩
      simp only [extPeel, extPeelStep]
      exact before_append_mid (hdeps d hd) hnew

theorem extSortable_mem {exts : List Ext} (h : extSortable exts = true) {e : Ext} (he : e ∈ exts) :
    e.id ∈ extPeel exts exts.length := by
  simp only [extSortable, List.all_eq_true, decide_eq_true_eq] at h
  exact h e he

/-- the release order of the extension peeling is a topological order of the dependency graph -/
theorem isTopo_of_extSortable (exts : List Ext) (hnd : (exts.map (·.id)).Nodup)
    (h : extSortable exts = true) :
    IsTopo (exts.map (·.id)) (extEdges exts) (extPeel exts exts.length) where
  nodup := extPeel_nodup hnd _
  mem := fun n => by
    refine ⟨extPeel_sub _ n, fun hn => ?_⟩
    obtain ⟨e, he, rfl⟩ := List.mem_map.mp hn
    exact extSortable_mem h he
  fwd := fun a b hab => by
    simp only [extEdges, List.mem_flatMap, List.mem_map, Prod.mk.injEq] at hab
    obtain ⟨e, he, d, hd, rfl, rfl⟩ := hab
    exact extPeel_before hnd _ e d he (extSortable_mem h he) hd

theorem extSortable_of_newService {cfg : Cfg} {exts : List Ext} (h : newService cfg exts = none) :
    build cfg = none ∧ extMissing exts = false ∧ extSortable exts = true := by
  simp only [newService] at h
  cases hb : build cfg with
  | some e => rw [hb] at h; cases e <;> simp at h
  | none =>
    rw [hb] at h
    by_cases h1 : extMissing exts = true
    · simp [h1] at h
    · by_cases h2 : extSortable exts = true
      · exact ⟨rfl, by simpa using h1, h2⟩
      · simp [h1, h2] at h

/-! ## conversely: an extension list that HAS a dependency-respecting order passes `computeOrder`'s two checks -/

theorem extPeel_mono {exts : List Ext} {k k' : Nat} {i : Nat} (h : i ∈ extPeel exts k) (hk : k ≤ k') : i ∈ extPeel exts k' := by
  induction hk with
  | refl => exact h
  | step _ ih => exact mem_extPeel_succ.mpr (Or.inl ih)

theorem length_le_of_nodup_subset {α : Type} [DecidableEq α] : ∀ (l m : List α), l.Nodup → (∀ x, x ∈ l → x ∈ m) → l.length ≤ m.length := by
  intro l
  induction l with
  | nil => intro m _ _; simp
  | cons a l ih =>
    intro m hnd hsub
    simp only [List.nodup_cons] at hnd
    have ham : a ∈ m := hsub a List.mem_cons_self
    have hsub' : ∀ x, x ∈ l → x ∈ m.erase a := by
      intro x hx
      have hne : x ≠ a := fun h => hnd.1 (h ▸ hx)
      exact (List.mem_erase_of_ne hne).mpr (hsub x (List.mem_cons_of_mem _ hx))
    have := ih (m.erase a) hnd.2 hsub'
    rw [List.length_erase_of_mem ham] at this
    have hpos : 0 < m.length := List.length_pos_of_mem ham
    simp only [List.length_cons]
    omega

/-- walking along a topological order of the dependency graph, the first `n` extensions are released after `n` rounds -/
theorem extPeel_take {exts : List Ext} {order : List Nat} (ht : IsTopo (exts.map (·.id)) (extEdges exts) order) :
    ∀ n : Nat, ∀ i, i ∈ order.take n → i ∈ extPeel exts n := by
  intro n
  induction n with
  | zero => intro i h; simp at h
  | succ n ih =>
    intro i hi
    rw [List.take_add_one] at hi
    rcases List.mem_append.mp hi with h | h
    · exact extPeel_mono (ih i h) (Nat.le_succ n)
    · -- i is the element at position n
      have hget : order[n]? = some i := by
        cases hg : order[n]? with
        | none => simp [hg] at h
        | some x => simp [hg] at h; rw [h]
      have hsplit : order = order.take n ++ i :: order.drop (n + 1) := by
        have hlt : n < order.length := by
          rcases Nat.lt_or_ge n order.length with hlt | hge
          · exact hlt
          · rw [List.getElem?_eq_none hge] at hget; cases hget
        have hgi : order[n] = i := by
          rw [List.getElem?_eq_getElem hlt] at hget
          exact Option.some.inj hget
        conv => lhs; rw [← List.take_append_drop n order]
        rw [List.drop_eq_getElem_cons hlt, hgi]
      have himem : i ∈ exts.map (·.id) := (ht.mem i).mp (by rw [hsplit]; simp)
      obtain ⟨e, he, rfl⟩ := List.mem_map.mp himem
      by_cases hin : e.id ∈ extPeel exts n
      · exact mem_extPeel_succ.mpr (Or.inl hin)
      · refine mem_extPeel_succ.mpr (Or.inr ⟨hin, e, he, rfl, ?_⟩)
        intro d hd
        have hedge : (d, e.id) ∈ extEdges exts := by
          simp only [extEdges, List.mem_flatMap, List.mem_map, Prod.mk.injEq]
          exact ⟨e, he, d, hd, rfl, rfl⟩
        obtain ⟨l1, l2, l3, hb⟩ := ht.fwd d e.id hedge
        have hnd := ht.nodup
        have heq : (l1 ++ d :: l2) ++ e.id :: l3 = order.take n ++ e.id :: order.drop (n + 1) := by
          rw [← hsplit, hb]
        have hnd' : ((l1 ++ d :: l2) ++ e.id :: l3).Nodup := by rw [← hb]; exact hnd
        have := (split_unique (l1 ++ d :: l2) (order.take n) hnd' heq).1
        exact ih d (by rw [← this]; simp)

/-- an extension list for which a dependency-respecting order exists has no missing dependency and is sortable -/
theorem extSortable_of_isTopo (exts : List Ext) (order : List Nat)
    (ht : IsTopo (exts.map (·.id)) (extEdges exts) order) :
    extMissing exts = false ∧ extSortable exts = true := by
  constructor
  · rw [Bool.eq_false_iff]
    intro hm
    simp only [extMissing, List.any_eq_true, Bool.not_eq_true', Bool.eq_false_iff, ne_eq, beq_iff_eq] at hm
    obtain ⟨e, he, d, hd, hno⟩ := hm
    have hedge : (d, e.id) ∈ extEdges exts := by
      simp only [extEdges, List.mem_flatMap, List.mem_map, Prod.mk.injEq]
      exact ⟨e, he, d, hd, rfl, rfl⟩
    have hdm : d ∈ exts.map (·.id) := (ht.mem d).mp (ht.fwd d e.id hedge).mem_left
    obtain ⟨x, hx, hxd⟩ := List.mem_map.mp hdm
    exact hno ⟨x, hx, hxd⟩
  · simp only [extSortable, List.all_eq_true, decide_eq_true_eq]
    intro e he
    have hmem : e.id ∈ order := (ht.mem e.id).mpr (List.mem_map.mpr ⟨e, he, rfl⟩)
    have h1 : e.id ∈ extPeel exts order.length := extPeel_take ht order.length e.id (by rw [List.take_length]; exact hmem)
    have hlen : order.length ≤ exts.length := by
      have := length_le_of_nodup_subset order (exts.map (·.id)) ht.nodup (fun x hx => (ht.mem x).mp hx)
      simpa using this
    exact extPeel_mono h1 hlen

end OtelVerif.C10
