import OtelVerif.Model.C11Inst
/-! # C11 — lemmas about `normPipes` (core Lean only) -/
namespace OtelVerif.C11

theorem mem_insertU (x y : Nat) (l : List Nat) : y ∈ insertU x l ↔ y = x ∨ y ∈ l := by
  induction l with
  | nil => simp [insertU]
  | cons z zs ih =>
    simp only [insertU]
    by_cases h1 : x < z
    · simp [h1]
    · by_cases h2 : x = z
      · subst h2; simp [h1]
      · simp only [h1, h2, if_false, List.mem_cons, ih]
        constructor
        · rintro (h | h | h)
          · exact Or.inr (Or.inl h)
          · exact Or.inl h
          · exact Or.inr (Or.inr h)
        · rintro (h | h | h)
          · exact Or.inr (Or.inl h)
          · exact Or.inl h
          · exact Or.inr (Or.inr h)

theorem mem_normPipes (y : Nat) (l : List Nat) : y ∈ normPipes l ↔ y ∈ l := by
  induction l with
  | nil => simp [normPipes]
  | cons x xs ih =>
    have : normPipes (x :: xs) = insertU x (normPipes xs) := rfl
    rw [this, mem_insertU, ih]; simp

theorem insertU_sorted (x : Nat) (l : List Nat) (h : l.Pairwise (· < ·)) : (insertU x l).Pairwise (· < ·) := by
  induction l with
  | nil => simp [insertU]
  | cons z zs ih =>
    rw [List.pairwise_cons] at h
    simp only [insertU]
    by_cases h1 : x < z
    · simp only [h1, if_true, List.pairwise_cons]
      refine ⟨?_, h.1, h.2⟩
      intro a ha
      simp only [List.mem_cons] at ha
      rcases ha with rfl | ha
      · exact h1
      · exact Nat.lt_trans h1 (h.1 a ha)
    · by_cases h2 : x = z
      · subst h2
        have hzz : ¬ x < x := Nat.lt_irrefl x
        simp only [hzz, if_false, if_true, List.pairwise_cons]; exact h
      · simp only [h1, h2, if_false, List.pairwise_cons]
        refine ⟨?_, ih h.2⟩
        intro a ha
        rw [mem_insertU] at ha
        rcases ha with rfl | ha
        · omega
        · exact h.1 a ha

theorem normPipes_sorted (l : List Nat) : (normPipes l).Pairwise (· < ·) := by
  induction l with
  | nil => simp [normPipes]
  | cons x xs ih => exact insertU_sorted x _ ih

/-- a strictly increasing list is determined by its members -/
theorem sorted_ext (l1 l2 : List Nat) (h1 : l1.Pairwise (· < ·)) (h2 : l2.Pairwise (· < ·))
    (h : ∀ x, x ∈ l1 ↔ x ∈ l2) : l1 = l2 := by
  induction l1 generalizing l2 with
  | nil =>
    cases l2 with
    | nil => rfl
    | cons b bs => exact absurd ((h b).mpr (by simp)) (by simp)
  | cons a as ih =>
    cases l2 with
    | nil => exact absurd ((h a).mp (by simp)) (by simp)
    | cons b bs =>
      rw [List.pairwise_cons] at h1 h2
      have hab : a = b := by
        have ha : a ∈ b :: bs := (h a).mp (by simp)
        have hb : b ∈ a :: as := (h b).mpr (by simp)
        simp only [List.mem_cons] at ha hb
        rcases ha with ha | ha
        · exact ha
        · rcases hb with hb | hb
          · exact hb.symm
          · have := h1.1 b hb; have := h2.1 a ha; omega
      subst hab
      congr 1
      apply ih bs h1.2 h2.2
      intro x
      constructor
      · intro hx
        have := (h x).mp (by simp [hx])
        simp only [List.mem_cons] at this
        rcases this with rfl | this
        · exact absurd (h1.1 x hx) (by omega)
        · exact this
      · intro hx
        have := (h x).mpr (by simp [hx])
        simp only [List.mem_cons] at this
        rcases this with rfl | this
        · exact absurd (h2.1 x hx) (by omega)
        · exact this

theorem normPipes_canonical (l1 l2 : List Nat) (h : ∀ x, x ∈ l1 ↔ x ∈ l2) : normPipes l1 = normPipes l2 :=
  sorted_ext _ _ (normPipes_sorted l1) (normPipes_sorted l2) (fun x => by rw [mem_normPipes, mem_normPipes]; exact h x)

end OtelVerif.C11
