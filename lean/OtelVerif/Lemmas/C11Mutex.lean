import OtelVerif.Model.C11Mutex
/-!
# C11 — the reporter mutex makes a report atomic (lemmas; core Lean only)

`mutex_atomic`: in the sub-step LTS of `Model/C11Mutex.lean` with the lock, at every reachable state — any number of goroutines,
any programs, any scheduler — the events delivered to the watchers are a prefix of (and, whenever the lock is free, exactly) what
the ATOMIC reporter model delivers for the calls taken in the order in which they passed `Lock`, and every goroutine's calls are
taken in its program order.  `mutex_unlocked_breaks`: without the lock a concrete schedule delivers `Starting` twice.
-/
namespace OtelVerif.C11.Mutex
open OtelVerif.C11

/-! ## the atomic model depends on a reporter only through `cur` -/

def agree (r r' : Reporter) : Prop := ∀ i, r.cur i = r'.cur i

theorem lookup_filter_ne' (l : List (Inst × St)) (i j : Inst) (h : j ≠ i) :
    (l.filter (fun p => p.1 != i)).lookup j = l.lookup j := by
  induction l with
  | nil => rfl
  | cons p ps ih =>
    by_cases hp : p.1 = i
    · have h1 : (j == p.1) = false := by simpa [hp] using h
      have hp' : (p.1 != i) = false := by simpa using hp
      simp only [List.filter, hp', List.lookup, h1, ih]
    · have hp' : (p.1 != i) = true := by simpa using hp
      simp only [List.filter, hp', List.lookup]
      cases hj : (j == p.1) <;> simp [ih]

theorem cur_set_same (r : Reporter) (i : Inst) (s : St) : (r.set i s).cur i = s := by
  simp [Reporter.cur, Reporter.set]

theorem cur_set_other (r : Reporter) (i j : Inst) (s : St) (h : j ≠ i) : (r.set i s).cur j = r.cur j := by
  have hne : (j == i) = false := by simpa using h
  simp only [Reporter.cur, Reporter.set, List.lookup, hne, lookup_filter_ne' _ _ _ h]

theorem agree_set (r r' : Reporter) (i : Inst) (s : St) (h : agree r r') : agree (r.set i s) (r'.set i s) := by
  intro j
  by_cases hj : j = i
  · subst hj; rw [cur_set_same, cur_set_same]
  · rw [cur_set_other _ _ _ _ hj, cur_set_other _ _ _ _ hj]; exact h j

theorem agree_set_self (r r' : Reporter) (i : Inst) (h : agree r r') : agree r (r'.set i (r'.cur i)) := by
  intro j
  by_cases hj : j = i
  · subst hj; rw [cur_set_same]; exact h j
  · rw [cur_set_other _ _ _ _ hj]; exact h j

theorem report_fst (r : Reporter) (i : Inst) (rep : Report) : (r.report i rep).1 = r.set i (step (r.cur i) rep).1 := rfl
theorem report_snd (r : Reporter) (i : Inst) (rep : Report) : (r.report i rep).2 = (step (r.cur i) rep).2 := rfl

theorem agree_report (r r' : Reporter) (i : Inst) (rep : Report) (h : agree r r') :
    agree (r.report i rep).1 (r'.report i rep).1 := by
  rw [report_fst, report_fst, h i]; exact agree_set _ _ _ _ h

theorem runAll_agree (r r' : Reporter) (ops : List (Inst × Report)) (h : agree r r') : r.runAll ops = r'.runAll ops := by
  induction ops generalizing r r' with
  | nil => rfl
  | cons op rest ih =>
    obtain ⟨i, rep⟩ := op
    simp only [Reporter.runAll, report_snd, h i]
    rw [ih _ _ (agree_report r r' i rep h)]

theorem after_cons (r : Reporter) (op : Inst × Report) (ops : List (Inst × Report)) :
    after r (op :: ops) = after (r.report op.1 op.2).1 ops := rfl

theorem after_append (r : Reporter) (a b : List (Inst × Report)) : after r (a ++ b) = after (after r a) b := by
  simp [after, List.foldl_append]

theorem after_agree (r r' : Reporter) (ops : List (Inst × Report)) (h : agree r r') : agree (after r ops) (after r' ops) := by
  induction ops generalizing r r' with
  | nil => exact h
  | cons op rest ih => rw [after_cons, after_cons]; exact ih _ _ (agree_report _ _ _ _ h)

theorem runAll_append (r : Reporter) (a b : List (Inst × Report)) :
    r.runAll (a ++ b) = r.runAll a ++ (after r a).runAll b := by
  induction a generalizing r with
  | nil => rfl
  | cons op rest ih =>
    obtain ⟨i, rep⟩ := op
    simp only [List.cons_append, Reporter.runAll, after_cons]
    cases (r.report i rep).2 <;> simp [ih]

theorem runAll_single (r : Reporter) (i : Inst) (rep : Report) :
    r.runAll [(i, rep)] = (step (r.cur i) rep).2.toList.map (fun e => (i, e)) := by
  simp only [Reporter.runAll, report_snd]
  cases (step (r.cur i) rep).2 <;> rfl

/-- a report that delivers no event leaves the state machine where it was -/
theorem step_none_state (c : St) (rep : Report) (h : (step c rep).2 = Option.none) : (step c rep).1 = c := by
  cases rep with
  | status s =>
    simp only [step, transition] at h ⊢
    by_cases ha : allowed c s = true
    · simp [ha] at h
    · simp [ha]
  | okIfStarting =>
    simp only [step, transition] at h ⊢
    by_cases hc : c = .starting
    · subst hc
      by_cases ha : allowed .starting .ok = true
      · simp [ha] at h
      · simp [ha]
    · simp [hc]

/-! ## the sub-steps -/

theorem fire_some {s s' : MState} {t : Nat} (h : fire s t = some s') :
    ∃ th i r rest, s.threads[t]? = some th ∧ th.todo = (i, r) :: rest ∧
      ((th.phase = .idle ∧ (s.useLock && s.holder.isSome) = false ∧
          s' = { s with threads := s.threads.set t { todo := (i, r) :: rest, phase := .locked }
                        holder := if s.useLock then some t else s.holder
                        hist := s.hist ++ [(t, i, r)] }) ∨
       (th.phase = .locked ∧ s' = { s with threads := s.threads.set t { todo := (i, r) :: rest, phase := .read (s.rep.cur i) } }) ∨
       (∃ seen, th.phase = .read seen ∧
          s' = { s with threads := s.threads.set t { todo := (i, r) :: rest, phase := .wrote (step seen r).2 }
                        rep := if (step seen r).2.isSome then s.rep.set i (step seen r).1 else s.rep }) ∨
       (∃ ev, th.phase = .wrote ev ∧
          s' = { s with threads := s.threads.set t { todo := (i, r) :: rest, phase := .notified }
                        log := s.log ++ ev.toList.map (fun e => (i, e)) }) ∨
       (th.phase = .notified ∧
          s' = { s with threads := s.threads.set t { todo := rest, phase := .idle }
                        holder := if s.useLock then Option.none else s.holder })) := by
  simp only [fire] at h
  cases hth : s.threads[t]? with
  | none => simp [hth] at h
  | some th =>
    simp only [hth] at h
    cases htd : th.todo with
    | nil => simp [htd] at h
    | cons op rest =>
      obtain ⟨i, r⟩ := op
      simp only [htd] at h
      refine ⟨th, i, r, rest, rfl, htd, ?_⟩
      cases hph : th.phase with
      | idle =>
        simp only [hph] at h
        by_cases hb : (s.useLock && s.holder.isSome) = true
        · simp [hb] at h
        · simp only [hb] at h
          left
          refine ⟨rfl, by simpa using hb, ?_⟩
          simpa using h.symm
      | locked => simp only [hph] at h; right; left; exact ⟨rfl, by simpa using h.symm⟩
      | read seen => simp only [hph] at h; right; right; left; exact ⟨seen, rfl, by simpa using h.symm⟩
      | wrote ev => simp only [hph] at h; right; right; right; left; exact ⟨ev, rfl, by simpa using h.symm⟩
      | notified => simp only [hph] at h; right; right; right; right; exact ⟨rfl, by simpa using h.symm⟩

/-! ## lock discipline and what has been delivered -/

def PhaseOk (s : MState) (ops0 : List (Inst × Report)) (i : Inst) (r : Report) : Phase → Prop
  | .idle => False
  | .locked => s.log = Reporter.runAll {} ops0 ∧ agree s.rep (after {} ops0)
  | .read seen => s.log = Reporter.runAll {} ops0 ∧ agree s.rep (after {} ops0) ∧ seen = (after {} ops0).cur i
  | .wrote ev => s.log = Reporter.runAll {} ops0 ∧ agree s.rep (after {} s.ops) ∧ ev = (step ((after {} ops0).cur i) r).2
  | .notified => s.log = Reporter.runAll {} s.ops ∧ agree s.rep (after {} s.ops)

def Held (s : MState) (t : Nat) : Prop :=
  ∃ i r rest ph ops0, s.threads[t]? = some ⟨(i, r) :: rest, ph⟩ ∧
    (∀ (t' : Nat) (th' : Thread), t' ≠ t → s.threads[t']? = some th' → th'.phase = Phase.idle) ∧
    s.ops = ops0 ++ [(i, r)] ∧ PhaseOk s ops0 i r ph

def Free (s : MState) : Prop :=
  (∀ (t : Nat) (th : Thread), s.threads[t]? = some th → th.phase = Phase.idle) ∧ s.log = Reporter.runAll {} s.ops ∧ agree s.rep (after {} s.ops)

def InvB (s : MState) : Prop :=
  s.useLock = true ∧ match s.holder with
    | Option.none => Free s
    | some t => Held s t

theorem getElem?_set_self' {α} (l : List α) (t : Nat) (a x : α) (h : l[t]? = some a) : (l.set t x)[t]? = some x := by
  have hlt : t < l.length := by
    rcases Nat.lt_or_ge t l.length with h1 | h1
    · exact h1
    · rw [List.getElem?_eq_none h1] at h; cases h
  simp [hlt]

theorem getElem?_set_ne' {α} (l : List α) (t t' : Nat) (x : α) (h : t' ≠ t) : (l.set t x)[t']? = l[t']? := by
  simp [Ne.symm h]

theorem ops_hist_append (s : MState) (t : Nat) (i : Inst) (r : Report) :
    (s.hist ++ [(t, i, r)]).map (·.2) = s.ops ++ [(i, r)] := by simp [MState.ops]

theorem InvB_init (progs : List (List (Inst × Report))) : InvB (init true progs) := by
  refine ⟨rfl, ?_⟩
  show Free (init true progs)
  refine ⟨?_, rfl, fun _ => rfl⟩
  intro t th h
  simp only [init, List.getElem?_map] at h
  cases hp : progs[t]? with
  | none => simp [hp] at h
  | some p => simp [hp] at h; rw [← h]; done

theorem InvB_fire {s s' : MState} {t : Nat} (hinv : InvB s) (hf : fire s t = some s') : InvB s' := by
  obtain ⟨hlock, hmatch⟩ := hinv
  obtain ⟨th, i, r, rest, hth, htd, hcases⟩ := fire_some hf
  cases hh : s.holder with
  | none =>
    rw [hh] at hmatch
    obtain ⟨hidle, hlog, hrep⟩ := (hmatch : Free s)
    have hph : th.phase = .idle := hidle t th hth
    rcases hcases with ⟨_, _, hs'⟩ | ⟨h1, _⟩ | ⟨_, h1, _⟩ | ⟨_, h1, _⟩ | ⟨h1, _⟩
    · subst hs'
      refine ⟨hlock, ?_⟩
      simp only [hlock, if_true]
      show Held _ t
      refine ⟨i, r, rest, .locked, s.ops, getElem?_set_self' _ _ _ _ hth, ?_, ops_hist_append s t i r, hlog, hrep⟩
      intro t' th' hne h'
      rw [getElem?_set_ne' _ _ _ _ hne] at h'
      exact hidle t' th' h'
    all_goals (rw [hph] at h1; cases h1)
  | some hd =>
    rw [hh] at hmatch
    obtain ⟨i0, r0, rest0, ph, ops0, hthd, hothers, hops, hphase⟩ := (hmatch : Held s hd)
    have htEq : t = hd := by
      apply Classical.byContradiction
      intro hne
      have hph : th.phase = .idle := hothers t th hne hth
      rcases hcases with ⟨_, hb, _⟩ | ⟨h1, _⟩ | ⟨_, h1, _⟩ | ⟨_, h1, _⟩ | ⟨h1, _⟩
      · simp [hlock, hh] at hb
      all_goals (rw [hph] at h1; cases h1)
    subst htEq
    rw [hth] at hthd
    have hthEq : th = ⟨(i0, r0) :: rest0, ph⟩ := Option.some.inj hthd
    subst hthEq
    simp only [List.cons.injEq, Prod.mk.injEq] at htd
    obtain ⟨⟨hi, hr⟩, hrest⟩ := htd
    subst hi; subst hr; subst hrest
    have hothers' : ∀ x, ∀ t' th', t' ≠ t → (s.threads.set t x)[t']? = some th' → th'.phase = .idle := by
      intro x t' th' hne h'
      rw [getElem?_set_ne' _ _ _ _ hne] at h'
      exact hothers t' th' hne h'
    rcases hcases with ⟨h1, _, _⟩ | ⟨h1, hs'⟩ | ⟨seen, h1, hs'⟩ | ⟨ev, h1, hs'⟩ | ⟨h1, hs'⟩
    · simp only at h1; subst h1; exact absurd hphase (by simp [PhaseOk])
    · simp only at h1; subst h1; subst hs'
      refine ⟨hlock, ?_⟩
      simp only [hh]
      show Held _ t
      obtain ⟨hl, ha⟩ := hphase
      exact ⟨i0, r0, rest0, _, ops0, getElem?_set_self' _ _ _ _ hth, hothers' _, hops, hl, ha, ha i0⟩
    · simp only at h1; subst h1; subst hs'
      refine ⟨hlock, ?_⟩
      simp only [hh]
      show Held _ t
      obtain ⟨hl, ha, hseen⟩ := hphase
      refine ⟨i0, r0, rest0, _, ops0, getElem?_set_self' _ _ _ _ hth, hothers' _, hops, hl, ?_, by rw [hseen]⟩
      show agree _ (after {} s.ops)
      rw [hops, after_append, after_cons, report_fst]
      show agree _ ((after {} ops0).set i0 (step ((after {} ops0).cur i0) r0).1)
      rw [← hseen]
      cases hsome : (step seen r0).2 with
      | none =>
        simp only [Option.isSome_none, Bool.false_eq_true, if_false]
        rw [step_none_state _ _ hsome, hseen]
        exact agree_set_self _ _ _ ha
      | some e =>
        simp only [Option.isSome_some, if_true]
        exact agree_set _ _ _ _ ha
    · simp only at h1; subst h1; subst hs'
      refine ⟨hlock, ?_⟩
      simp only [hh]
      show Held _ t
      obtain ⟨hl, ha, hev⟩ := hphase
      refine ⟨i0, r0, rest0, _, ops0, getElem?_set_self' _ _ _ _ hth, hothers' _, hops, ?_, ha⟩
      show s.log ++ _ = Reporter.runAll {} s.ops
      rw [hops, runAll_append, runAll_single, hl, hev]
    · simp only at h1; subst h1; subst hs'
      refine ⟨hlock, ?_⟩
      simp only [hlock, if_true]
      show Free _
      obtain ⟨hl, ha⟩ := hphase
      refine ⟨?_, hl, ha⟩
      intro t' th' h'
      by_cases hne : t' = t
      · subst hne
        rw [getElem?_set_self' _ _ _ _ hth] at h'
        rw [← Option.some.inj h']
      · exact hothers' _ t' th' hne h'

theorem runSched_inv {P : MState → Prop} (hstep : ∀ s s' t, P s → fire s t = some s' → P s')
    (sched : List Nat) (s s' : MState) (h0 : P s) (h : runSched s sched = some s') : P s' := by
  induction sched generalizing s with
  | nil => simp only [runSched] at h; rw [← Option.some.inj h]; exact h0
  | cons t ts ih =>
    simp only [runSched] at h
    cases hf : fire s t with
    | none => simp [hf] at h
    | some s1 => simp only [hf, Option.bind_some] at h; exact ih s1 (hstep s s1 t h0 hf) h

/-! ## every goroutine's calls are taken in its program order -/

def InvA (progs : List (List (Inst × Report))) (s : MState) : Prop :=
  ∀ (t : Nat) (th : Thread), s.threads[t]? = some th → ∃ done, progs[t]? = some (done ++ th.todo) ∧
    s.taken t = done ++ (if th.phase = Phase.idle then [] else th.todo.take 1)

theorem InvA_init (useLock : Bool) (progs : List (List (Inst × Report))) : InvA progs (init useLock progs) := by
  intro t th h
  simp only [init, List.getElem?_map] at h
  cases hp : progs[t]? with
  | none => simp [hp] at h
  | some p =>
    simp only [hp, Option.map_some, Option.some.injEq] at h
    subst h
    exact ⟨[], by simp, by simp [MState.taken, init]⟩

theorem InvA_fire {progs : List (List (Inst × Report))} {s s' : MState} {t : Nat} (hinv : InvA progs s)
    (hf : fire s t = some s') : InvA progs s' := by
  obtain ⟨th, i, r, rest, hth, htd, hcases⟩ := fire_some hf
  obtain ⟨done, hprog, htaken⟩ := hinv t th hth
  have hthEq : th = ⟨(i, r) :: rest, th.phase⟩ := by cases th; simp only at htd; subst htd; rfl
  -- a step that changes neither the history nor any `todo`, and keeps goroutine `t` busy
  have busy : ∀ (ph : Phase) (s1 : MState), th.phase ≠ Phase.idle → ph ≠ Phase.idle → s1.hist = s.hist →
      s1.threads = s.threads.set t ⟨(i, r) :: rest, ph⟩ → InvA progs s1 := by
    intro ph s1 hp1 hp2 hh ht t' th' h'
    rw [ht] at h'
    by_cases hne : t' = t
    · subst hne
      rw [getElem?_set_self' _ _ _ _ hth] at h'
      have := Option.some.inj h'; subst this
      refine ⟨done, by rw [hprog, htd], ?_⟩
      have : s1.taken t' = s.taken t' := by simp [MState.taken, hh]
      rw [this, htaken, htd]; simp [hp1, hp2]
    · rw [getElem?_set_ne' _ _ _ _ hne] at h'
      obtain ⟨d, h1, h2⟩ := hinv t' th' h'
      exact ⟨d, h1, by rw [← h2]; simp [MState.taken, hh]⟩
  rcases hcases with ⟨h1, _, hs'⟩ | ⟨h1, hs'⟩ | ⟨seen, h1, hs'⟩ | ⟨ev, h1, hs'⟩ | ⟨h1, hs'⟩
  · subst hs'
    intro t' th' h'
    simp only at h'
    by_cases hne : t' = t
    · subst hne
      rw [getElem?_set_self' _ _ _ _ hth] at h'
      have := Option.some.inj h'; subst this
      refine ⟨done, by rw [hprog, htd], ?_⟩
      have : MState.taken { s with threads := s.threads.set t' ⟨(i, r) :: rest, Phase.locked⟩,
                                   holder := if s.useLock then some t' else s.holder,
                                   hist := s.hist ++ [(t', i, r)] } t' = s.taken t' ++ [(i, r)] := by
        simp [MState.taken, List.filter_append]
      rw [this, htaken, h1]; simp
    · rw [getElem?_set_ne' _ _ _ _ hne] at h'
      obtain ⟨d, hd1, hd2⟩ := hinv t' th' h'
      refine ⟨d, hd1, ?_⟩
      rw [← hd2]
      have hb : (t == t') = false := by simpa using Ne.symm hne
      simp [MState.taken, List.filter_append, hb]
  · subst hs'; exact busy _ _ (by rw [h1]; simp) (by simp) rfl rfl
  · subst hs'; exact busy _ _ (by rw [h1]; simp) (by simp) rfl rfl
  · subst hs'; exact busy _ _ (by rw [h1]; simp) (by simp) rfl rfl
  · subst hs'
    intro t' th' h'
    simp only at h'
    by_cases hne : t' = t
    · subst hne
      rw [getElem?_set_self' _ _ _ _ hth] at h'
      have := Option.some.inj h'; subst this
      refine ⟨done ++ [(i, r)], by rw [hprog, htd]; simp, ?_⟩
      have : MState.taken { s with threads := s.threads.set t' ⟨rest, Phase.idle⟩,
                                   holder := if s.useLock then Option.none else s.holder } t' = s.taken t' := rfl
      rw [this, htaken, h1, htd]; simp
    · rw [getElem?_set_ne' _ _ _ _ hne] at h'
      exact hinv t' th' h'

/-! ## main statements -/

theorem mutex_atomic (progs : List (List (Inst × Report))) (sched : List Nat) (s : MState)
    (h : runSched (init true progs) sched = some s) :
    (∀ (t : Nat) (th : Thread), s.threads[t]? = some th → ∃ done, progs[t]? = some (done ++ th.todo) ∧
        s.taken t = done ++ (if th.phase = Phase.idle then [] else th.todo.take 1)) ∧
    (s.holder = Option.none → s.log = Reporter.runAll {} s.ops ∧ ∀ i, s.rep.cur i = (after {} s.ops).cur i) ∧
    (∃ k, s.log = (Reporter.runAll {} s.ops).take k) := by
  have hA : InvA progs s := runSched_inv (P := InvA progs) (fun _ _ _ hp hf => InvA_fire hp hf) sched _ s (InvA_init true progs) h
  have hB : InvB s := runSched_inv (P := InvB) (fun _ _ _ hp hf => InvB_fire hp hf) sched _ s (InvB_init progs) h
  refine ⟨hA, ?_, ?_⟩
  · intro hh
    obtain ⟨_, hm⟩ := hB
    rw [hh] at hm
    exact ⟨(hm : Free s).2.1, (hm : Free s).2.2⟩
  · obtain ⟨_, hm⟩ := hB
    cases hh : s.holder with
    | none => rw [hh] at hm; exact ⟨s.log.length, by rw [← (hm : Free s).2.1]; simp⟩
    | some t =>
      rw [hh] at hm
      obtain ⟨i, r, rest, ph, ops0, _, _, hops, hph⟩ := (hm : Held s t)
      have hpre : ∀ l : List (Inst × St), l = Reporter.runAll {} ops0 → ∃ k, l = (Reporter.runAll {} s.ops).take k := by
        intro l hl
        refine ⟨l.length, ?_⟩
        rw [hops, runAll_append, hl]; simp
      cases ph with
      | idle => exact absurd hph (by simp [PhaseOk])
      | locked => exact hpre _ hph.1
      | read seen => exact hpre _ hph.1
      | wrote ev => exact hpre _ hph.1
      | notified => exact ⟨s.log.length, by rw [← hph.1]; simp⟩

/-- without the lock the property breaks: two goroutines report `Starting` for the same instance; both read `None`, both write,
both notify — the watcher is shown `Starting` twice -/
theorem mutex_unlocked_breaks :
    ∃ sched s, runSched (init false [[(0, Report.status St.starting)], [(0, Report.status St.starting)]]) sched = some s ∧
      s.log = [(0, St.starting), (0, St.starting)] := by
  refine ⟨[0, 1, 0, 1, 0, 1, 0, 1], _, rfl, ?_⟩
  decide

theorem filterMap_take_exists {α β} (f : α → Option β) (l : List α) (k : Nat) :
    ∃ k', (l.take k).filterMap f = (l.filterMap f).take k' := by
  induction l generalizing k with
  | nil => exact ⟨0, by simp⟩
  | cons a as ih =>
    cases k with
    | zero => exact ⟨0, by simp⟩
    | succ k =>
      obtain ⟨k', hk'⟩ := ih k
      simp only [List.take_succ_cons, List.filterMap_cons]
      cases f a with
      | none => exact ⟨k', hk'⟩
      | some b => exact ⟨k' + 1, by simp [hk']⟩

end OtelVerif.C11.Mutex
