import OtelVerif.Model.C11Sys
/-! # C11 — lemmas about the shared-component LTS of `Model/C11Sys.lean` (core Lean only) -/
namespace OtelVerif.C11
open OtelVerif.Gen

/-- what `startOnce` / `stopOnce` and the `hostWrapper == nil` tests maintain -/
def SCInv (c : SC) : Prop :=
  (c.hw.isSome = c.startOnce) ∧ c.innerStarts = (if c.startOnce then 1 else 0) ∧ c.innerStops = (if c.stopOnce then 1 else 0)

theorem SCInv_fresh (sc : Script) : SCInv { script := sc } := by simp [SCInv]

theorem SCInv_fire (cap : Nat) (c : SC) (l : SCLabel) (h : SCInv c) : SCInv (c.fire cap l).1 := by
  obtain ⟨h1, h2, h3⟩ := h
  cases l with
  | start i hr =>
    simp only [SC.fire, SC.start]
    cases hw : c.hw with
    | none =>
      have hso : c.startOnce = false := by rw [← h1, hw]; rfl
      simp only [hso]
      refine ⟨by simp, by simp [h2, hso], by simpa using h3⟩
    | some h0 =>
      have hso : c.startOnce = true := by rw [← h1, hw]; rfl
      cases hr <;> simp [SCInv, hso, h2, h3, hw]
  | shutdown =>
    simp only [SC.fire, SC.shutdown]
    cases hst : c.stopOnce with
    | true => simp [SCInv, h1, h2, h3, hst]
    | false =>
      cases hw : c.hw with
      | none => simp [SCInv, ← h1, h2, h3, hst, hw]
      | some h0 => simp [SCInv, ← h1, h2, h3, hst, hw]
  | report e =>
    simp only [SC.fire]
    cases hw : c.hw with
    | none => simp [SCInv, h1, h2, h3]
    | some h0 => simp [SCInv, ← h1, h2, h3, hw]

theorem SCInv_fireAll (cap : Nat) (c : SC) (ls : List SCLabel) (h : SCInv c) : SCInv (SC.fireAll cap c ls).1 := by
  induction ls generalizing c with
  | nil => simpa [SC.fireAll] using h
  | cons l ls ih => simp only [SC.fireAll]; exact ih _ (SCInv_fire cap c l h)


def SC.sources (c : SC) : List Inst := (c.hw.map (·.sources)).getD []

def attached : List SCLabel → List Inst
  | [] => []
  | .start i true :: r => i :: attached r
  | _ :: r => attached r

theorem HW.report_sources (cap : Nat) (h : HW) (e : St) : (h.report cap e).1.sources = h.sources := rfl

theorem HW.reportAll_sources (cap : Nat) (h : HW) (es : List St) : (HW.reportAll cap h es).1.sources = h.sources := by
  induction es generalizing h with
  | nil => rfl
  | cons e es ih => simp only [HW.reportAll]; rw [ih]; rfl

theorem SC.fire_sources (cap : Nat) (c : SC) (l : SCLabel) (h : c.hw.isSome = c.startOnce) :
    (c.fire cap l).1.sources = c.sources ++ attached [l] := by
  cases l with
  | start i hr =>
    simp only [SC.fire, SC.start]
    cases hw : c.hw with
    | none =>
      have hso : c.startOnce = false := by rw [← h, hw]; rfl
      cases hr <;> cases hf : c.script.failStart <;>
        simp [hso, SC.sources, hw, attached, HW.report_sources, HW.reportAll_sources, HW.addSource]
    | some h0 => cases hr <;> simp [SC.sources, hw, attached, HW.addSource]
  | shutdown =>
    simp only [SC.fire, SC.shutdown]
    cases hst : c.stopOnce with
    | true => simp [attached]
    | false =>
      cases hw : c.hw with
      | none => simp [SC.sources, hw, attached]
      | some h0 => simp [SC.sources, hw, attached, HW.report_sources, HW.reportAll_sources]
  | report e =>
    simp only [SC.fire]
    cases hw : c.hw with
    | none => simp [SC.sources, hw, attached]
    | some h0 => simp [SC.sources, hw, attached, HW.report_sources]
theorem attached_cons (l : SCLabel) (r : List SCLabel) : attached (l :: r) = attached [l] ++ attached r := by
  cases l with
  | start i hr => cases hr <;> simp [attached]
  | shutdown => simp [attached]
  | report e => simp [attached]

theorem attached_append (a b : List SCLabel) : attached (a ++ b) = attached a ++ attached b := by
  induction a with
  | nil => simp [attached]
  | cons l r ih => rw [List.cons_append, attached_cons, ih, attached_cons l r, List.append_assoc]

theorem SC.fireAll_append (cap : Nat) (c : SC) (a b : List SCLabel) :
    SC.fireAll cap c (a ++ b) = ((SC.fireAll cap (SC.fireAll cap c a).1 b).1, (SC.fireAll cap c a).2 ++ (SC.fireAll cap (SC.fireAll cap c a).1 b).2) := by
  induction a generalizing c with
  | nil => simp [SC.fireAll]
  | cons l r ih => simp only [List.cons_append, SC.fireAll, ih, List.append_assoc]

theorem SC.fireAll_sources (cap : Nat) (c : SC) (ls : List SCLabel) (h : SCInv c) :
    (SC.fireAll cap c ls).1.sources = c.sources ++ attached ls := by
  induction ls generalizing c with
  | nil => simp [SC.fireAll, attached]
  | cons l r ih =>
    simp only [SC.fireAll]
    rw [ih _ (SCInv_fire cap c l h), SC.fire_sources cap c l h.1, attached_cons l r, List.append_assoc]


/-! ## the interpreted, regenerated loops are the documented ones -/

/-- the documented loop shapes (docs/component-status.md, "Automation"): Starting before `Start`, PermanentError and abort when it
fails, else OK-if-still-starting; Stopping before `Shutdown`, PermanentError (and carry on) when it fails, else Stopped -/
def docStart (hostWrapped : Bool) : LoopSkel := ⟨[.rep .starting], [.rep .permanent], .ret, [.okIf], hostWrapped⟩
def docStop : LoopSkel := ⟨[.rep .stopping], [.rep .permanent], .cont, [.rep .stopped], false⟩

theorem loopAll_docStart (cap : Nat) (hw hr : Bool) (g : GState) (nodes : List Node) :
    loopAll cap (docStart hw) true hr g nodes = startAll cap hr g nodes := by
  induction nodes generalizing g with
  | nil => rfl
  | cons n rest ih =>
    simp only [loopAll, startAll, if_true, docStart, List.map_cons, List.map_nil, GAct.op]
    cases hf : (g.startNode cap n hr).2.2 with
    | true => simp
    | false =>
      have := ih (g.startNode cap n hr).1
      simp only [docStart] at this
      simp [this]

theorem loopAll_docStop (cap : Nat) (hr : Bool) (g : GState) (nodes : List Node) :
    (loopAll cap docStop false hr g nodes).1 = (stopAll cap hr g nodes).1 ∧
    (loopAll cap docStop false hr g nodes).2.1 = (stopAll cap hr g nodes).2 := by
  induction nodes generalizing g with
  | nil => exact ⟨rfl, rfl⟩
  | cons n rest ih =>
    have := ih (g.stopNode cap n hr).1
    simp only [docStop] at this
    simp only [loopAll, stopAll, docStop, List.map_cons, List.map_nil, GAct.op, Bool.false_eq_true, if_false]
    cases hf : (g.stopNode cap n hr).2.2 with
    | true => simp [this.1, this.2]
    | false => simp [this.1, this.2]

theorem glue_skeletons :
    StatusGlue.graphStart = docStart true ∧ StatusGlue.graphStop = docStop ∧
    StatusGlue.extStart = docStart false ∧ StatusGlue.extStop = docStop ∧ StatusGlue.extStopBackwards = true ∧
    StatusGlue.serviceStart = [.extensions, .pipelines] ∧ StatusGlue.serviceStop = [.pipelines, .extensions] := by decide

theorem glue_as_documented (cap : Nat) (s : Sys) : s.ops cap = s.opsDoc cap := by
  obtain ⟨h1, h2, h3, h4, h5, h6, h7⟩ := glue_skeletons
  have e1 := fun g l => (loopAll_docStop cap true g l).1
  have e2 := fun g l => (loopAll_docStop cap true g l).2
  have e4 := fun g l => (loopAll_docStop cap false g l).2
  simp only [Sys.ops, Sys.opsDoc, h6, h7, Sys.startLayers, Sys.stopLayers, h1, h2, h3, h4, h5, if_true, loopAll_docStart]
  simp only [docStart]
  by_cases hE : (startAll cap false s.g0 s.exts).2.2 = true
  · by_cases hP : (startAll cap true (startAll cap false s.g0 s.exts).1 s.startOrder).2.2 = true
    · simp [hE, hP, e1, e2, e4]
    · simp [hE, hP, e1, e2, e4]
  · simp [hE, e1, e2, e4]

/-! ## refinement: what one plain component instance receives in a whole service run is `Life.reports` -/

def pr (t : Inst) (ops : List Op) : List Report := ops.filterMap (projOp t)

@[simp] theorem pr_nil (t : Inst) : pr t [] = [] := rfl

theorem pr_append (t : Inst) (a b : List Op) : pr t (a ++ b) = pr t a ++ pr t b := by simp [pr]

theorem pr_map_ne (t : Inst) (l : List Inst) (r : Report) (h : t ∉ l) : pr t (l.map (fun i => (i, r))) = [] := by
  induction l with
  | nil => rfl
  | cons i is ih =>
    have hi : i ≠ t := fun e => h (by simp [e])
    have : t ∉ is := fun e => h (by simp [e])
    simp [pr, projOp, hi] at ih ⊢
    exact ih this

theorem pr_own_ne (t i : Inst) (hr : Bool) (l : List St) (h : i ≠ t) : pr t (ownReports i hr l) = [] := by
  cases hr <;> simp [ownReports, pr, projOp, h]

theorem pr_own_self (t : Inst) (hr : Bool) (l : List St) :
    pr t (ownReports t hr l) = if hr then l.map Report.status else [] := by
  cases hr
  · simp [ownReports, pr]
  · simp only [ownReports, if_true, pr]
    induction l with
    | nil => rfl
    | cons e es ih => simp [projOp, ih]

theorem pr_map_self (t : Inst) (l : List St) : pr t (l.map (fun e => (t, Report.status e))) = l.map Report.status := by
  have := pr_own_self t true l
  simpa [ownReports] using this

theorem HW.report_pr (cap : Nat) (t : Inst) (h : HW) (e : St) (hs : t ∉ h.sources) : pr t (h.report cap e).2 = [] :=
  pr_map_ne t _ _ hs

theorem HW.reportAll_pr (cap : Nat) (t : Inst) (h : HW) (es : List St) (hs : t ∉ h.sources) :
    pr t (HW.reportAll cap h es).2 = [] := by
  induction es generalizing h with
  | nil => rfl
  | cons e es ih =>
    simp only [HW.reportAll, pr_append]
    rw [HW.report_pr cap t h e hs, ih _ (by rw [HW.report_sources]; exact hs)]; rfl

theorem HW.addSource_pr (t i : Inst) (h : HW) (hi : i ≠ t) : pr t (h.addSource i).2 = [] := by
  simp [HW.addSource, pr, projOp, hi]

theorem pr_ring_ne (t i : Inst) (ring : List St) (hi : i ≠ t) : pr t (ring.map (fun e => (i, Report.status e))) = [] := by
  simp [pr, projOp, hi]

theorem SC.start_foreign (cap : Nat) (t i : Inst) (hr : Bool) (c : SC) (hi : i ≠ t) (hs : t ∉ c.sources) :
    t ∉ (c.start cap i hr).1.sources ∧ pr t (c.start cap i hr).2.1 = [] := by
  have hti : t ≠ i := fun e => hi e.symm
  simp only [SC.start]
  cases hw : c.hw with
  | none =>
    cases hso : c.startOnce with
    | true => simp [SC.sources, hw]
    | false =>
      cases hr <;> cases hf : c.script.failStart <;>
        simp [SC.sources, HW.reportAll_sources, HW.addSource, pr_append, HW.reportAll_pr, hti]
  | some h0 =>
    have hs0 : t ∉ h0.sources := by simpa [SC.sources, hw] using hs
    cases hr
    · simp [SC.sources, hw, hs0]
    · simp [SC.sources, HW.addSource, hs0, hti, pr_ring_ne _ _ _ hi]

theorem SC.shutdown_foreign (cap : Nat) (t : Inst) (c : SC) (hs : t ∉ c.sources) :
    t ∉ (c.shutdown cap).1.sources ∧ pr t (c.shutdown cap).2.1 = [] := by
  simp only [SC.shutdown]
  cases hst : c.stopOnce with
  | true => simp [hs]
  | false =>
    cases hw : c.hw with
    | none => simp [SC.sources, hw]
    | some h0 =>
      have hs0 : t ∉ h0.sources := by simpa [SC.sources, hw] using hs
      simp [SC.sources, HW.reportAll_sources, hs0, HW.reportAll_pr, pr_append]

theorem SC.run_foreign (cap : Nat) (t : Inst) (c : SC) (hs : t ∉ c.sources) :
    t ∉ (c.run cap).1.sources ∧ pr t (c.run cap).2 = [] := by
  simp only [SC.run]
  cases hw : c.hw with
  | none => simp [SC.sources, hw]
  | some h0 =>
    have hs0 : t ∉ h0.sources := by simpa [SC.sources, hw] using hs
    simp [SC.sources, HW.reportAll_sources, hs0, HW.reportAll_pr]

/-- no shared component fans out to instance `t` -/
def Quiet (t : Inst) (g : GState) : Prop := ∀ c ∈ g.scs, t ∉ c.sources

theorem Quiet.sc {t : Inst} {g : GState} (h : Quiet t g) (k : Nat) : t ∉ (g.sc k).sources := by
  simp only [GState.sc, List.getD_eq_getElem?_getD]
  cases hk : g.scs[k]? with
  | none => simp [SC.sources]
  | some c => exact h c (List.mem_of_getElem? hk)

theorem Quiet.setSc {t : Inst} {g : GState} (h : Quiet t g) (k : Nat) (c : SC) (hc : t ∉ c.sources) : Quiet t (g.setSc k c) := by
  intro c' hc'
  simp only [GState.setSc] at hc'
  rcases List.mem_or_eq_of_mem_set hc' with h1 | h1
  · exact h c' h1
  · rw [h1]; exact hc

/-- a step that concerns another instance leaves `t` alone -/
def Foreign (t : Inst) (g g' : GState) (ops : List Op) : Prop :=
  Quiet t g' ∧ pr t ops = [] ∧ g'.hosted.contains t = g.hosted.contains t

theorem startNode_foreign (cap : Nat) (t : Inst) (hr : Bool) (g : GState) (n : Node) (hn : n.inst ≠ t) (hq : Quiet t g) :
    Foreign t g (g.startNode cap n hr).1 (g.startNode cap n hr).2.1 := by
  simp only [GState.startNode]
  cases hk : n.kind with
  | plain sc =>
    refine ⟨hq, pr_own_ne t _ hr _ hn, ?_⟩
    have : (t == n.inst) = false := by simpa using Ne.symm hn
    simp only [List.contains_cons, this, Bool.false_or]
  | shared k =>
    obtain ⟨h1, h2⟩ := SC.start_foreign cap t n.inst hr (g.sc k) hn (hq.sc k)
    exact ⟨hq.setSc k _ h1, h2, rfl⟩

theorem stopNode_foreign (cap : Nat) (t : Inst) (hr : Bool) (g : GState) (n : Node) (hn : n.inst ≠ t) (hq : Quiet t g) :
    Foreign t g (g.stopNode cap n hr).1 (g.stopNode cap n hr).2.1 := by
  obtain ⟨ni, kind⟩ := n
  simp only at hn
  cases kind with
  | plain sc =>
    simp only [GState.stopNode]
    refine ⟨hq, ?_, rfl⟩
    split
    · exact pr_own_ne t _ hr _ hn
    · rfl
  | shared k =>
    simp only [GState.stopNode]
    obtain ⟨h1, h2⟩ := SC.shutdown_foreign cap t (g.sc k) (hq.sc k)
    exact ⟨hq.setSc k _ h1, h2, rfl⟩

theorem Foreign.refl {t : Inst} {g : GState} (hq : Quiet t g) : Foreign t g g [] := ⟨hq, rfl, rfl⟩

theorem Foreign.trans {t : Inst} {g g1 g2 : GState} {o1 o2 : List Op} (h1 : Foreign t g g1 o1) (h2 : Foreign t g1 g2 o2) :
    Foreign t g g2 (o1 ++ o2) :=
  ⟨h2.1, by rw [pr_append, h1.2.1, h2.2.1]; rfl, by rw [h2.2.2, h1.2.2]⟩

theorem pr_cons_ne (t i : Inst) (r : Report) (l : List Op) (h : i ≠ t) : pr t ((i, r) :: l) = pr t l := by simp [pr, projOp, h]
theorem pr_cons_self (t : Inst) (r : Report) (l : List Op) : pr t ((t, r) :: l) = r :: pr t l := by simp [pr, projOp]

theorem pr_single_ne (t i : Inst) (r : Report) (h : i ≠ t) : pr t [(i, r)] = [] := by simp [pr, projOp, h]
theorem pr_single_self (t : Inst) (r : Report) : pr t [(t, r)] = [r] := by simp [pr, projOp]

theorem startAll_foreign (cap : Nat) (t : Inst) (hr : Bool) (l : List Node) (hl : ∀ n ∈ l, n.inst ≠ t) (g : GState)
    (hq : Quiet t g) : Foreign t g (startAll cap hr g l).1 (startAll cap hr g l).2.1 := by
  induction l generalizing g with
  | nil => exact Foreign.refl hq
  | cons n rest ih =>
    have hn : n.inst ≠ t := hl n (by simp)
    have hrest : ∀ m ∈ rest, m.inst ≠ t := fun m hm => hl m (by simp [hm])
    obtain ⟨f1, f2, f3⟩ := startNode_foreign cap t hr g n hn hq
    simp only [startAll]
    by_cases hf : (g.startNode cap n hr).2.2 = true
    · simp only [hf, if_true]
      exact ⟨f1, by simp [pr_append, pr_cons_ne _ _ _ _ hn, f2], f3⟩
    · have hf' : (g.startNode cap n hr).2.2 = false := by simpa using hf
      simp only [hf', Bool.false_eq_true, if_false]
      obtain ⟨i1, i2, i3⟩ := ih hrest _ f1
      exact ⟨i1, by simp [pr_append, pr_cons_ne _ _ _ _ hn, f2, i2], by rw [i3, f3]⟩

theorem stopAll_foreign (cap : Nat) (t : Inst) (hr : Bool) (l : List Node) (hl : ∀ n ∈ l, n.inst ≠ t) (g : GState)
    (hq : Quiet t g) : Foreign t g (stopAll cap hr g l).1 (stopAll cap hr g l).2 := by
  induction l generalizing g with
  | nil => exact Foreign.refl hq
  | cons n rest ih =>
    have hn : n.inst ≠ t := hl n (by simp)
    have hrest : ∀ m ∈ rest, m.inst ≠ t := fun m hm => hl m (by simp [hm])
    obtain ⟨f1, f2, f3⟩ := stopNode_foreign cap t hr g n hn hq
    obtain ⟨i1, i2, i3⟩ := ih hrest _ f1
    simp only [stopAll]
    exact ⟨i1, by simp [pr_append, pr_cons_ne _ _ _ _ hn, f2, i2], by rw [i3, f3]⟩

theorem runPlain_foreign (t : Inst) (hr : Bool) (l : List Node) (hl : ∀ n ∈ l, n.inst ≠ t) : pr t (runPlain hr l) = [] := by
  induction l with
  | nil => rfl
  | cons n rest ih =>
    have hn : n.inst ≠ t := hl n (by simp)
    have hrest : ∀ m ∈ rest, m.inst ≠ t := fun m hm => hl m (by simp [hm])
    simp only [runPlain, pr_append, ih hrest]
    cases n.kind with
    | plain sc => simp [pr_own_ne t _ hr _ hn]
    | shared k => simp

theorem runShared_foreign (cap : Nat) (t : Inst) (scs : List SC) (h : ∀ c ∈ scs, t ∉ c.sources) :
    (∀ c ∈ (runShared cap scs).1, t ∉ c.sources) ∧ pr t (runShared cap scs).2 = [] := by
  induction scs with
  | nil => exact ⟨by simp [runShared], rfl⟩
  | cons c cs ih =>
    obtain ⟨h1, h2⟩ := SC.run_foreign cap t c (h c (by simp))
    obtain ⟨i1, i2⟩ := ih (fun c' hc' => h c' (by simp [hc']))
    simp only [runShared]
    refine ⟨?_, by rw [pr_append, h2, i2]; rfl⟩
    intro c' hc'
    simp only [List.mem_cons] at hc'
    rcases hc' with rfl | hc'
    · exact h1
    · exact i1 c' hc'

theorem startAll_append (cap : Nat) (hr : Bool) (g : GState) (a l : List Node) :
    startAll cap hr g (a ++ l) =
      if (startAll cap hr g a).2.2 then
        ((startAll cap hr (startAll cap hr g a).1 l).1, (startAll cap hr g a).2.1 ++ (startAll cap hr (startAll cap hr g a).1 l).2.1,
          (startAll cap hr (startAll cap hr g a).1 l).2.2)
      else startAll cap hr g a := by
  induction a generalizing g with
  | nil => simp [startAll]
  | cons n rest ih =>
    simp only [List.cons_append, startAll]
    by_cases hf : (g.startNode cap n hr).2.2 = true
    · simp [hf]
    · simp only [hf, ih]
      by_cases h2 : (startAll cap hr (g.startNode cap n hr).1 rest).2.2 = true
      · simp [h2]
      · simp [h2]

theorem stopAll_append (cap : Nat) (hr : Bool) (g : GState) (a l : List Node) :
    stopAll cap hr g (a ++ l) =
      ((stopAll cap hr (stopAll cap hr g a).1 l).1, (stopAll cap hr g a).2 ++ (stopAll cap hr (stopAll cap hr g a).1 l).2) := by
  induction a generalizing g with
  | nil => simp [stopAll]
  | cons n rest ih => simp only [List.cons_append, stopAll, ih, List.append_assoc]

theorem runPlain_append (hr : Bool) (a b : List Node) : runPlain hr (a ++ b) = runPlain hr a ++ runPlain hr b := by
  induction a with
  | nil => rfl
  | cons n rest ih => simp only [List.cons_append, runPlain, ih, List.append_assoc]

theorem start_with_target (cap : Nat) (t : Inst) (hr : Bool) (sc : Script) (a b : List Node) (g : GState)
    (ha : ∀ n ∈ a, n.inst ≠ t) (hb : ∀ n ∈ b, n.inst ≠ t) (hq : Quiet t g) (hh : g.hosted.contains t = false) :
    Quiet t (startAll cap hr g (a ++ ⟨t, .plain sc⟩ :: b)).1 ∧
    pr t (startAll cap hr g (a ++ ⟨t, .plain sc⟩ :: b)).2.1 =
      (if (startAll cap hr g a).2.2 then
        Report.status .starting :: ((if hr then sc.duringStart.map Report.status else []) ++
          [if sc.failStart then Report.status .permanent else Report.okIfStarting])
       else []) ∧
    (startAll cap hr g (a ++ ⟨t, .plain sc⟩ :: b)).1.hosted.contains t = (startAll cap hr g a).2.2 := by
  obtain ⟨a1, a2, a3⟩ := startAll_foreign cap t hr a ha g hq
  rw [startAll_append]
  by_cases hA : (startAll cap hr g a).2.2 = true
  · simp only [hA, if_true]
    have hq' : Quiet t ({ (startAll cap hr g a).1 with hosted := t :: (startAll cap hr g a).1.hosted } : GState) := a1
    obtain ⟨b1, b2, b3⟩ := startAll_foreign cap t hr b hb _ hq'
    simp only [startAll, GState.startNode]
    by_cases hf : sc.failStart = true
    · simp only [hf, if_true]
      exact ⟨a1, by simp [pr_append, a2, pr_cons_self, pr_own_self], by simp⟩
    · have hf' : sc.failStart = false := by simpa using hf
      simp only [hf', Bool.false_eq_true, if_false]
      exact ⟨b1, by simp [pr_append, a2, b2, pr_cons_self, pr_own_self], by rw [b3]; simp⟩
  · have hA' : (startAll cap hr g a).2.2 = false := by simpa using hA
    simp only [hA', Bool.false_eq_true, if_false]
    exact ⟨a1, a2, by rw [a3, hh]⟩

theorem stop_with_target (cap : Nat) (t : Inst) (hr : Bool) (sc : Script) (c d : List Node) (g : GState)
    (hc : ∀ n ∈ c, n.inst ≠ t) (hd : ∀ n ∈ d, n.inst ≠ t) (hq : Quiet t g) :
    Quiet t (stopAll cap hr g (c ++ ⟨t, .plain sc⟩ :: d)).1 ∧
    pr t (stopAll cap hr g (c ++ ⟨t, .plain sc⟩ :: d)).2 =
      Report.status .stopping :: ((if g.hosted.contains t && hr then sc.duringStop.map Report.status else []) ++
        [Report.status (if sc.failStop then .permanent else .stopped)]) := by
  obtain ⟨c1, c2, c3⟩ := stopAll_foreign cap t hr c hc g hq
  rw [stopAll_append]
  obtain ⟨d1, d2, _⟩ := stopAll_foreign cap t hr d hd (stopAll cap hr g c).1 c1
  simp only [stopAll, GState.stopNode]
  refine ⟨d1, ?_⟩
  rw [c3]
  cases hh : g.hosted.contains t <;> cases hr <;>
    simp [pr_append, c2, d2, pr_cons_self, pr_own_self, ownReports, pr_map_self]

theorem run_with_target (t : Inst) (hr : Bool) (sc : Script) (a b : List Node)
    (ha : ∀ n ∈ a, n.inst ≠ t) (hb : ∀ n ∈ b, n.inst ≠ t) :
    pr t (runPlain hr (a ++ ⟨t, .plain sc⟩ :: b)) = if hr then sc.running.map Report.status else [] := by
  rw [runPlain_append]
  simp only [runPlain, pr_append, runPlain_foreign t hr a ha, runPlain_foreign t hr b hb, pr_own_self]
  simp

/-- did start-up get past the extensions and the pipeline instances `a` (those `StartAll` visits before the one in question)? -/
def Sys.reaches (cap : Nat) (s : Sys) (a : List Node) : Bool :=
  (startAll cap false s.g0 s.exts).2.2 && (startAll cap true (startAll cap false s.g0 s.exts).1 a).2.2

/-- did the whole start-up succeed? -/
def Sys.startedUp (cap : Nat) (s : Sys) : Bool :=
  (startAll cap false s.g0 s.exts).2.2 && (startAll cap true (startAll cap false s.g0 s.exts).1 s.startOrder).2.2

theorem Quiet_g0 (t : Inst) (s : Sys) : Quiet t s.g0 := by
  intro c hc
  simp only [Sys.g0, List.mem_map] at hc
  obtain ⟨sc, _, rfl⟩ := hc
  simp [SC.sources]

theorem startAll_ok_prefix (cap : Nat) (hr : Bool) (g : GState) (a l : List Node)
    (h : (startAll cap hr g (a ++ l)).2.2 = true) : (startAll cap hr g a).2.2 = true := by
  rw [startAll_append] at h
  by_cases hA : (startAll cap hr g a).2.2 = true
  · exact hA
  · have hA' : (startAll cap hr g a).2.2 = false := by simpa using hA
    simp [hA'] at h

theorem sys_plain_is_life_doc (cap : Nat) (s : Sys) (t : Inst) (sc : Script) (a b c d : List Node)
    (hS : s.startOrder = a ++ ⟨t, .plain sc⟩ :: b) (hT : s.stopOrder = c ++ ⟨t, .plain sc⟩ :: d)
    (ha : ∀ n ∈ a, n.inst ≠ t) (hb : ∀ n ∈ b, n.inst ≠ t) (hc : ∀ n ∈ c, n.inst ≠ t) (hd : ∀ n ∈ d, n.inst ≠ t)
    (he : ∀ n ∈ s.exts, n.inst ≠ t) :
    pr t (s.opsDoc cap) =
      (Life.mk (s.reaches cap a) sc.duringStart sc.failStart (s.startedUp cap) sc.running sc.duringStop sc.failStop).reports := by
  have her : ∀ n ∈ s.exts.reverse, n.inst ≠ t := fun n hn => he n (by simpa using hn)
  obtain ⟨e1, e2, e3⟩ := startAll_foreign cap t false s.exts he s.g0 (Quiet_g0 t s)
  have e3' : (startAll cap false s.g0 s.exts).1.hosted.contains t = false := by rw [e3]; rfl
  have hfin : ∀ f : Bool, Report.status (if f then St.permanent else St.stopped) =
      (if f then Report.status .permanent else Report.status .stopped) := by intro f; cases f <;> rfl
  simp only [Sys.opsDoc, Sys.reaches, Sys.startedUp, Life.reports]
  by_cases hE : (startAll cap false s.g0 s.exts).2.2 = true
  · simp only [hE, if_true, Bool.true_and]
    obtain ⟨p1, p2, p3⟩ := start_with_target cap t true sc a b _ ha hb e1 e3'
    rw [← hS] at p1 p2 p3
    by_cases hP : (startAll cap true (startAll cap false s.g0 s.exts).1 s.startOrder).2.2 = true
    · have hA : (startAll cap true (startAll cap false s.g0 s.exts).1 a).2.2 = true :=
        startAll_ok_prefix cap true _ a _ (by rw [← hS]; exact hP)
      obtain ⟨r1, r2⟩ := runShared_foreign cap t _ p1
      simp only [hP, if_true]
      have hq2 : Quiet t ({ (startAll cap true (startAll cap false s.g0 s.exts).1 s.startOrder).1 with
          scs := (runShared cap (startAll cap true (startAll cap false s.g0 s.exts).1 s.startOrder).1.scs).1 } : GState) := r1
      obtain ⟨s1, s2⟩ := stop_with_target cap t true sc c d _ hc hd hq2
      obtain ⟨_, x2, _⟩ := stopAll_foreign cap t false s.exts.reverse her _ s1
      rw [← hT] at s2 x2
      have hrun := run_with_target t true sc a b ha hb
      rw [← hS] at hrun
      rw [pr_append, pr_append, pr_append, pr_append, pr_append, e2, p2, s2, x2, r2, hrun]
      simp only [p3, hA, hfin]
      cases sc.failStart <;> cases sc.failStop <;> simp
    · have hP' : (startAll cap true (startAll cap false s.g0 s.exts).1 s.startOrder).2.2 = false := by simpa using hP
      simp only [hP', Bool.false_eq_true, if_false]
      have hq2 : Quiet t ({ (startAll cap true (startAll cap false s.g0 s.exts).1 s.startOrder).1 with
          scs := (startAll cap true (startAll cap false s.g0 s.exts).1 s.startOrder).1.scs } : GState) := p1
      obtain ⟨s1, s2⟩ := stop_with_target cap t true sc c d _ hc hd hq2
      obtain ⟨_, x2, _⟩ := stopAll_foreign cap t false s.exts.reverse her _ s1
      rw [← hT] at s2 x2
      rw [pr_append, pr_append, pr_append, pr_append, e2, p2, s2, x2]
      simp only [p3, hfin, pr_nil]
      cases (startAll cap true (startAll cap false s.g0 s.exts).1 a).2.2 <;> cases sc.failStart <;> cases sc.failStop <;> simp
  · have hE' : (startAll cap false s.g0 s.exts).2.2 = false := by simpa using hE
    simp only [hE', Bool.false_eq_true, if_false, Bool.false_and]
    have hq2 : Quiet t ({ (startAll cap false s.g0 s.exts).1 with scs := (startAll cap false s.g0 s.exts).1.scs } : GState) := e1
    obtain ⟨s1, s2⟩ := stop_with_target cap t true sc c d _ hc hd hq2
    obtain ⟨_, x2, _⟩ := stopAll_foreign cap t false s.exts.reverse her _ s1
    rw [← hT] at s2 x2
    rw [pr_append, pr_append, pr_append, pr_append, e2, s2, x2]
    simp only [e3', hfin, pr_nil]
    cases sc.failStop <;> simp

theorem sys_ext_is_life_doc (cap : Nat) (s : Sys) (t : Inst) (sc : Script) (ea eb : List Node)
    (hX : s.exts = ea ++ ⟨t, .plain sc⟩ :: eb)
    (ha : ∀ n ∈ ea, n.inst ≠ t) (hb : ∀ n ∈ eb, n.inst ≠ t)
    (hS : ∀ n ∈ s.startOrder, n.inst ≠ t) (hT : ∀ n ∈ s.stopOrder, n.inst ≠ t) :
    pr t (s.opsDoc cap) =
      (Life.mk (startAll cap false s.g0 ea).2.2 [] sc.failStart (s.startedUp cap) [] [] sc.failStop).reports := by
  have hrev : s.exts.reverse = eb.reverse ++ ⟨t, .plain sc⟩ :: ea.reverse := by rw [hX]; simp
  have har : ∀ n ∈ ea.reverse, n.inst ≠ t := fun n hn => ha n (by simpa using hn)
  have hbr : ∀ n ∈ eb.reverse, n.inst ≠ t := fun n hn => hb n (by simpa using hn)
  have hfin : ∀ f : Bool, Report.status (if f then St.permanent else St.stopped) =
      (if f then Report.status .permanent else Report.status .stopped) := by intro f; cases f <;> rfl
  obtain ⟨e1, e2, e3⟩ := start_with_target cap t false sc ea eb s.g0 ha hb (Quiet_g0 t s) rfl
  rw [← hX] at e1 e2 e3
  simp only [Sys.opsDoc, Sys.startedUp, Life.reports]
  -- pipelines start (if reached), running phase, pipelines stop: all foreign
  by_cases hE : (startAll cap false s.g0 s.exts).2.2 = true
  · simp only [hE, if_true, Bool.true_and]
    obtain ⟨p1, p2, p3⟩ := startAll_foreign cap t true s.startOrder hS _ e1
    by_cases hP : (startAll cap true (startAll cap false s.g0 s.exts).1 s.startOrder).2.2 = true
    · simp only [hP, if_true]
      obtain ⟨r1, r2⟩ := runShared_foreign cap t _ p1
      have hq2 : Quiet t ({ (startAll cap true (startAll cap false s.g0 s.exts).1 s.startOrder).1 with
          scs := (runShared cap (startAll cap true (startAll cap false s.g0 s.exts).1 s.startOrder).1.scs).1 } : GState) := r1
      obtain ⟨q1, q2, q3⟩ := stopAll_foreign cap t true s.stopOrder hT _ hq2
      obtain ⟨_, x2⟩ := stop_with_target cap t false sc eb.reverse ea.reverse _ hbr har q1
      rw [← hrev] at x2
      rw [pr_append, pr_append, pr_append, pr_append, pr_append, e2, p2, q2, x2, r2, runPlain_foreign t true _ hS]
      simp only [hfin]
      cases (startAll cap false s.g0 ea).2.2 <;> cases sc.failStart <;> cases sc.failStop <;> simp
    · have hP' : (startAll cap true (startAll cap false s.g0 s.exts).1 s.startOrder).2.2 = false := by simpa using hP
      simp only [hP', Bool.false_eq_true, if_false]
      have hq2 : Quiet t ({ (startAll cap true (startAll cap false s.g0 s.exts).1 s.startOrder).1 with
          scs := (startAll cap true (startAll cap false s.g0 s.exts).1 s.startOrder).1.scs } : GState) := p1
      obtain ⟨q1, q2, q3⟩ := stopAll_foreign cap t true s.stopOrder hT _ hq2
      obtain ⟨_, x2⟩ := stop_with_target cap t false sc eb.reverse ea.reverse _ hbr har q1
      rw [← hrev] at x2
      rw [pr_append, pr_append, pr_append, pr_append, e2, p2, q2, x2]
      simp only [hfin, pr_nil]
      cases (startAll cap false s.g0 ea).2.2 <;> cases sc.failStart <;> cases sc.failStop <;> simp
  · have hE' : (startAll cap false s.g0 s.exts).2.2 = false := by simpa using hE
    simp only [hE', Bool.false_eq_true, if_false, Bool.false_and]
    have hq2 : Quiet t ({ (startAll cap false s.g0 s.exts).1 with scs := (startAll cap false s.g0 s.exts).1.scs } : GState) := e1
    obtain ⟨q1, q2, q3⟩ := stopAll_foreign cap t true s.stopOrder hT _ hq2
    obtain ⟨_, x2⟩ := stop_with_target cap t false sc eb.reverse ea.reverse _ hbr har q1
    rw [← hrev] at x2
    rw [pr_append, pr_append, pr_append, pr_append, e2, q2, x2]
    simp only [hfin, pr_nil]
    cases (startAll cap false s.g0 ea).2.2 <;> cases sc.failStart <;> cases sc.failStop <;> simp

/-! ## system level: a shared component's running reports reach EVERY instance whose `Start` was called -/

theorem GState.sc_setSc (g : GState) (k' k : Nat) (c : SC) :
    (g.setSc k' c).sc k = if k' = k ∧ k' < g.scs.length then c else g.sc k := by
  simp only [GState.sc, GState.setSc, List.getD_eq_getElem?_getD, List.getElem?_set]
  by_cases h : k' = k
  · subst h
    by_cases hl : k' < g.scs.length
    · simp [hl]
    · simp [hl]
  · simp [h]

theorem GState.setSc_length (g : GState) (k : Nat) (c : SC) : (g.setSc k c).scs.length = g.scs.length := by
  simp [GState.setSc]

theorem SC.start_sources (cap : Nat) (c : SC) (i : Inst) (hr : Bool) (h : SCInv c) :
    (c.start cap i hr).1.sources = c.sources ++ (if hr then [i] else []) := by
  have := SC.fire_sources cap c (.start i hr) h.1
  simp only [SC.fire] at this
  rw [this]; cases hr <;> simp [attached]

theorem SC.shutdown_sources (cap : Nat) (c : SC) (h : SCInv c) : (c.shutdown cap).1.sources = c.sources := by
  have := SC.fire_sources cap c .shutdown h.1
  simp only [SC.fire] at this
  rw [this]; simp [attached]

theorem SCInv_start (cap : Nat) (c : SC) (i : Inst) (hr : Bool) (h : SCInv c) : SCInv (c.start cap i hr).1 :=
  SCInv_fire cap c (.start i hr) h

theorem SCInv_shutdown (cap : Nat) (c : SC) (h : SCInv c) : SCInv (c.shutdown cap).1 :=
  SCInv_fire cap c .shutdown h

theorem SC.run_sources (cap : Nat) (c : SC) : (c.run cap).1.sources = c.sources := by
  simp only [SC.run]
  cases hw : c.hw with
  | none => simp [SC.sources, hw]
  | some h0 => simp [SC.sources, hw, HW.reportAll_sources]

theorem SCInv_run (cap : Nat) (c : SC) (h : SCInv c) : SCInv (c.run cap).1 := by
  simp only [SC.run]
  cases hw : c.hw with
  | none => simpa [hw] using h
  | some h0 =>
    obtain ⟨h1, h2, h3⟩ := h
    exact ⟨by simp [← h1, hw], h2, h3⟩

/-- every shared component of the state satisfies the once-invariant -/
def Good (g : GState) : Prop := ∀ k, SCInv (g.sc k)

theorem SCInv_default : SCInv ({ script := {} } : SC) := by simp [SCInv]

theorem Good.setSc {g : GState} (h : Good g) (k : Nat) (c : SC) (hc : SCInv c) : Good (g.setSc k c) := by
  intro k'
  rw [GState.sc_setSc]
  split
  · exact hc
  · exact h k'

/-- `x` stays attached to shared component `k`, the state stays good and keeps its size -/
def Keeps (k : Nat) (x : Inst) (g g' : GState) : Prop :=
  Good g' ∧ g'.scs.length = g.scs.length ∧ (x ∈ (g.sc k).sources → x ∈ (g'.sc k).sources) ∧ (g'.sc k).script = (g.sc k).script

theorem Keeps.refl {k : Nat} {x : Inst} {g : GState} (h : Good g) : Keeps k x g g := ⟨h, rfl, id, rfl⟩

theorem Keeps.trans {k : Nat} {x : Inst} {g g1 g2 : GState} (h1 : Keeps k x g g1) (h2 : Keeps k x g1 g2) : Keeps k x g g2 :=
  ⟨h2.1, by rw [h2.2.1, h1.2.1], fun h => h2.2.2.1 (h1.2.2.1 h), by rw [h2.2.2.2, h1.2.2.2]⟩

theorem SC.start_script (cap : Nat) (c : SC) (i : Inst) (hr : Bool) : (c.start cap i hr).1.script = c.script := by
  simp only [SC.start]
  cases c.hw <;> cases c.startOnce <;> cases hr <;> simp

theorem SC.shutdown_script (cap : Nat) (c : SC) : (c.shutdown cap).1.script = c.script := by
  simp only [SC.shutdown]
  cases c.stopOnce <;> cases c.hw <;> simp

theorem SC.run_script (cap : Nat) (c : SC) : (c.run cap).1.script = c.script := by
  simp only [SC.run]
  cases c.hw <;> simp

theorem startNode_keeps (cap : Nat) (k : Nat) (x : Inst) (hr : Bool) (g : GState) (n : Node) (hg : Good g) :
    Keeps k x g (g.startNode cap n hr).1 := by
  obtain ⟨ni, kind⟩ := n
  cases kind with
  | plain sc => exact ⟨hg, rfl, id, rfl⟩
  | shared k' =>
    simp only [GState.startNode]
    refine ⟨hg.setSc k' _ (SCInv_start cap _ _ _ (hg k')), GState.setSc_length _ _ _, ?_, ?_⟩
    · intro hx
      rw [GState.sc_setSc]
      split
      · rename_i h; obtain ⟨rfl, _⟩ := h
        rw [SC.start_sources cap _ _ _ (hg k')]; simp [hx]
      · exact hx
    · rw [GState.sc_setSc]
      split
      · rename_i h; obtain ⟨rfl, _⟩ := h
        exact SC.start_script cap _ _ _
      · rfl

theorem stopNode_keeps (cap : Nat) (k : Nat) (x : Inst) (hr : Bool) (g : GState) (n : Node) (hg : Good g) :
    Keeps k x g (g.stopNode cap n hr).1 := by
  obtain ⟨ni, kind⟩ := n
  cases kind with
  | plain sc => exact ⟨hg, rfl, id, rfl⟩
  | shared k' =>
    simp only [GState.stopNode]
    refine ⟨hg.setSc k' _ (SCInv_shutdown cap _ (hg k')), GState.setSc_length _ _ _, ?_, ?_⟩
    · intro hx
      rw [GState.sc_setSc]
      split
      · rename_i h; obtain ⟨rfl, _⟩ := h
        rw [SC.shutdown_sources cap _ (hg k')]; exact hx
      · exact hx
    · rw [GState.sc_setSc]
      split
      · rename_i h; obtain ⟨rfl, _⟩ := h
        exact SC.shutdown_script cap _
      · rfl

theorem startAll_keeps (cap : Nat) (k : Nat) (x : Inst) (hr : Bool) (l : List Node) (g : GState) (hg : Good g) :
    Keeps k x g (startAll cap hr g l).1 := by
  induction l generalizing g with
  | nil => exact Keeps.refl hg
  | cons n rest ih =>
    have h1 := startNode_keeps cap k x hr g n hg
    simp only [startAll]
    by_cases hf : (g.startNode cap n hr).2.2 = true
    · simp only [hf, if_true]; exact h1
    · have hf' : (g.startNode cap n hr).2.2 = false := by simpa using hf
      simp only [hf', Bool.false_eq_true, if_false]
      exact h1.trans (ih _ h1.1)

theorem stopAll_keeps (cap : Nat) (k : Nat) (x : Inst) (hr : Bool) (l : List Node) (g : GState) (hg : Good g) :
    Keeps k x g (stopAll cap hr g l).1 := by
  induction l generalizing g with
  | nil => exact Keeps.refl hg
  | cons n rest ih =>
    have h1 := stopNode_keeps cap k x hr g n hg
    simp only [stopAll]
    exact h1.trans (ih _ h1.1)

theorem Good_g0 (s : Sys) : Good s.g0 := by
  intro k
  simp only [GState.sc, Sys.g0, List.getD_eq_getElem?_getD, List.getElem?_map]
  cases s.shared[k]? with
  | none => exact SCInv_default
  | some sc => exact SCInv_fresh sc

theorem g0_script (s : Sys) (k : Nat) : (s.g0.sc k).script = s.shared.getD k {} := by
  simp only [GState.sc, Sys.g0, List.getD_eq_getElem?_getD, List.getElem?_map]
  cases s.shared[k]? <;> rfl

theorem startAll_attaches (cap : Nat) (k : Nat) (x : Inst) (a b : List Node) (g : GState) (hg : Good g)
    (hk : k < g.scs.length) (hok : (startAll cap true g (a ++ ⟨x, .shared k⟩ :: b)).2.2 = true) :
    x ∈ ((startAll cap true g (a ++ ⟨x, .shared k⟩ :: b)).1.sc k).sources := by
  have hA := startAll_ok_prefix cap true g a _ hok
  have kA := startAll_keeps cap k x true a g hg
  rw [startAll_append] at hok ⊢
  simp only [hA, if_true] at hok ⊢
  simp only [startAll] at hok ⊢
  by_cases hf : ((startAll cap true g a).1.startNode cap ⟨x, .shared k⟩ true).2.2 = true
  · simp [hf] at hok
  · have hf' : ((startAll cap true g a).1.startNode cap ⟨x, .shared k⟩ true).2.2 = false := by simpa using hf
    simp only [hf', Bool.false_eq_true, if_false] at hok ⊢
    have kX := startNode_keeps cap k x true (startAll cap true g a).1 ⟨x, .shared k⟩ kA.1
    have kB := startAll_keeps cap k x true b _ kX.1
    apply kB.2.2.1
    simp only [GState.startNode]
    rw [GState.sc_setSc]
    have hl : k < (startAll cap true g a).1.scs.length := by rw [kA.2.1]; exact hk
    simp only [hl, and_self, if_true]
    rw [SC.start_sources cap _ _ _ (kA.1 k)]
    simp

theorem HW.reportAll_mem (cap : Nat) (h : HW) (es : List St) (e : St) (i : Inst) (he : e ∈ es) (hi : i ∈ h.sources) :
    (i, Report.status e) ∈ (HW.reportAll cap h es).2 := by
  induction es generalizing h with
  | nil => cases he
  | cons e' es ih =>
    simp only [HW.reportAll, List.mem_append]
    simp only [List.mem_cons] at he
    rcases he with rfl | he
    · left; simp only [HW.report, List.mem_map]; exact ⟨i, hi, rfl⟩
    · right; exact ih _ he (by rw [HW.report_sources]; exact hi)

theorem SC.run_mem (cap : Nat) (c : SC) (e : St) (i : Inst) (he : e ∈ c.script.running) (hi : i ∈ c.sources) :
    (i, Report.status e) ∈ (c.run cap).2 := by
  simp only [SC.run]
  cases hw : c.hw with
  | none => simp [SC.sources, hw] at hi
  | some h0 =>
    have hi0 : i ∈ h0.sources := by simpa [SC.sources, hw] using hi
    exact HW.reportAll_mem cap h0 _ e i he hi0

theorem runShared_mem (cap : Nat) (scs : List SC) (k : Nat) (c : SC) (hk : scs[k]? = some c) (op : Op)
    (hop : op ∈ (c.run cap).2) : op ∈ (runShared cap scs).2 := by
  induction scs generalizing k with
  | nil => simp at hk
  | cons c' cs ih =>
    simp only [runShared, List.mem_append]
    cases k with
    | zero => simp at hk; subst hk; exact Or.inl hop
    | succ k => simp at hk; exact Or.inr (ih k hk)

/-- a shared component's running reports reach every instance whose `Start` the successful start-up called -/
theorem sys_shared_running_delivered_doc (cap : Nat) (s : Sys) (k : Nat) (x : Inst) (a b : List Node)
    (hS : s.startOrder = a ++ ⟨x, .shared k⟩ :: b) (hk : k < s.shared.length) (hup : s.startedUp cap = true)
    (e : St) (he : e ∈ (s.shared.getD k {}).running) :
    (x, Report.status e) ∈ s.opsDoc cap := by
  simp only [Sys.startedUp, Bool.and_eq_true] at hup
  obtain ⟨hE, hP⟩ := hup
  have kE := startAll_keeps cap k x false s.exts s.g0 (Good_g0 s)
  have hkE : k < (startAll cap false s.g0 s.exts).1.scs.length := by rw [kE.2.1]; simpa [Sys.g0] using hk
  have kP := startAll_keeps cap k x true s.startOrder _ kE.1
  have hatt : x ∈ ((startAll cap true (startAll cap false s.g0 s.exts).1 s.startOrder).1.sc k).sources := by
    rw [hS] at hP ⊢
    exact startAll_attaches cap k x a b _ kE.1 hkE hP
  have hscript : ((startAll cap true (startAll cap false s.g0 s.exts).1 s.startOrder).1.sc k).script = s.shared.getD k {} := by
    rw [kP.2.2.2, kE.2.2.2, g0_script]
  have hkP : k < (startAll cap true (startAll cap false s.g0 s.exts).1 s.startOrder).1.scs.length := by rw [kP.2.1]; exact hkE
  have hget : (startAll cap true (startAll cap false s.g0 s.exts).1 s.startOrder).1.scs[k]? =
      some ((startAll cap true (startAll cap false s.g0 s.exts).1 s.startOrder).1.sc k) := by
    simp [GState.sc, List.getD_eq_getElem?_getD, List.getElem?_eq_getElem hkP]
  have hmem := runShared_mem cap _ k _ hget (x, Report.status e)
    (SC.run_mem cap _ e x (by rw [hscript]; exact he) hatt)
  simp only [Sys.opsDoc, hE, hP, if_true, Bool.and_self, List.mem_append]
  left; left; right; right
  exact hmem

/-! ## replay within the ring, any number of instances (component level, code-shaped `SC`) -/

theorem pushRing_fit (cap : Nat) (ring : List St) (e : St) (h : ring.length < cap) : pushRing cap ring e = ring ++ [e] := by
  simp only [pushRing, List.length_append, List.length_cons, List.length_nil]
  have : ring.length + (0 + 1) - cap = 0 := by omega
  simp [this]

theorem HW.reportAll_ring (cap : Nat) (h : HW) (es : List St) (hs : h.sources ≠ [])
    (hfit : h.ring.length + es.length ≤ cap) : (HW.reportAll cap h es).1.ring = h.ring ++ es := by
  induction es generalizing h with
  | nil => simp [HW.reportAll]
  | cons e es ih =>
    simp only [List.length_cons] at hfit
    have hemp : h.sources.isEmpty = false := by cases hh : h.sources <;> simp_all
    have h1 : (h.report cap e).1.ring = h.ring ++ [e] := by
      simp [HW.report, hemp, pushRing_fit cap h.ring e (by omega)]
    simp only [HW.reportAll]
    rw [ih _ (by rw [HW.report_sources]; exact hs) (by rw [h1]; simp; omega), h1]; simp

theorem HW.reportAll_pr_single (cap : Nat) (x : Inst) (h : HW) (es : List St) (hs : h.sources = [x]) :
    pr x (HW.reportAll cap h es).2 = es.map Report.status := by
  induction es generalizing h with
  | nil => rfl
  | cons e es ih =>
    simp only [HW.reportAll, pr_append, List.map_cons]
    rw [ih _ (by rw [HW.report_sources]; exact hs)]
    simp [HW.report, hs, pr_cons_self]

/-- what the component itself reports through the wrapper during its (single) `Start` -/
def Script.startHistory (sc : Script) : List St :=
  StatusGlue.sharedStartPre ++ sc.duringStart ++ (if sc.failStart then StatusGlue.sharedStartErr else [])

theorem first_start (cap : Nat) (sc : Script) (x : Inst) (hfit : sc.startHistory.length ≤ cap) :
    ∃ h, (({ script := sc } : SC).start cap x true).1.hw = some h ∧ h.ring = sc.startHistory ∧ h.sources = [x] ∧
      pr x (({ script := sc } : SC).start cap x true).2.1 = sc.startHistory.map Report.status ∧
      ∀ z, z ≠ x → pr z (({ script := sc } : SC).start cap x true).2.1 = [] := by
  simp only [Script.startHistory, List.length_append] at hfit
  have hsrc : ∀ l, (HW.reportAll cap ({ sources := [x] } : HW) l).1.sources = [x] := fun l => HW.reportAll_sources _ _ _
  cases hf : sc.failStart with
  | false =>
    simp only [hf, Bool.false_eq_true, if_false, List.length_nil, Nat.add_zero] at hfit
    refine ⟨(HW.reportAll cap (HW.reportAll cap (({} : HW).addSource x).1 StatusGlue.sharedStartPre).1 sc.duringStart).1,
      by simp [SC.start, hf], ?_, ?_, ?_, ?_⟩
    · simp only [HW.addSource, List.nil_append]
      rw [HW.reportAll_ring _ _ _ (by rw [hsrc]; simp), HW.reportAll_ring _ _ _ (by simp)]
      · simp [Script.startHistory, hf]
      · simp; omega
      · rw [HW.reportAll_ring _ _ _ (by simp) (by simp; omega)]; simp; omega
    · simp [HW.addSource, HW.reportAll_sources]
    · simp only [SC.start, hf, if_true, Bool.false_eq_true, if_false, HW.addSource, List.map_nil, pr_append, pr_nil, List.append_nil, List.nil_append]
      rw [HW.reportAll_pr_single _ _ _ _ rfl, HW.reportAll_pr_single _ _ _ _ (hsrc _)]
      simp [Script.startHistory, hf]
    · intro z hz
      have hzs : ∀ l, z ∉ (HW.reportAll cap ({ sources := [x] } : HW) l).1.sources := by intro l; rw [hsrc]; simp [hz]
      simp only [SC.start, hf, if_true, Bool.false_eq_true, if_false, HW.addSource, List.map_nil, pr_append, pr_nil, List.append_nil, List.nil_append]
      rw [HW.reportAll_pr _ _ _ _ (by simp [hz]), HW.reportAll_pr _ _ _ _ (hzs _)]; rfl
  | true =>
    simp only [hf, if_true] at hfit
    have hsrc2 : ∀ l l', (HW.reportAll cap (HW.reportAll cap ({ sources := [x] } : HW) l).1 l').1.sources = [x] := by
      intro l l'; rw [HW.reportAll_sources, hsrc]
    refine ⟨(HW.reportAll cap (HW.reportAll cap (HW.reportAll cap (({} : HW).addSource x).1 StatusGlue.sharedStartPre).1 sc.duringStart).1
        StatusGlue.sharedStartErr).1, by simp [SC.start, hf], ?_, ?_, ?_, ?_⟩
    · simp only [HW.addSource, List.nil_append]
      rw [HW.reportAll_ring _ _ _ (by rw [hsrc2]; simp), HW.reportAll_ring _ _ _ (by rw [hsrc]; simp), HW.reportAll_ring _ _ _ (by simp)]
      · simp [Script.startHistory, hf]
      · simp; omega
      · rw [HW.reportAll_ring _ _ _ (by simp) (by simp; omega)]; simp; omega
      · rw [HW.reportAll_ring _ _ _ (by rw [hsrc]; simp), HW.reportAll_ring _ _ _ (by simp) (by simp; omega)]
        · simp; omega
        · rw [HW.reportAll_ring _ _ _ (by simp) (by simp; omega)]; simp; omega
    · simp [HW.addSource, HW.reportAll_sources]
    · simp only [SC.start, hf, if_true, Bool.false_eq_true, if_false, HW.addSource, List.map_nil, pr_append, pr_nil, List.append_nil, List.nil_append]
      rw [HW.reportAll_pr_single _ _ _ _ rfl, HW.reportAll_pr_single _ _ _ _ (hsrc _), HW.reportAll_pr_single _ _ _ _ (hsrc2 _ _)]
      simp [Script.startHistory, hf]
    · intro z hz
      have hzs : ∀ l, z ∉ (HW.reportAll cap ({ sources := [x] } : HW) l).1.sources := by intro l; rw [hsrc]; simp [hz]
      have hzs2 : ∀ l l', z ∉ (HW.reportAll cap (HW.reportAll cap ({ sources := [x] } : HW) l).1 l').1.sources := by
        intro l l'; rw [hsrc2]; simp [hz]
      simp only [SC.start, hf, if_true, Bool.false_eq_true, if_false, HW.addSource, List.map_nil, pr_append, pr_nil, List.append_nil, List.nil_append]
      rw [HW.reportAll_pr _ _ _ _ (by simp [hz]), HW.reportAll_pr _ _ _ _ (hzs _), HW.reportAll_pr _ _ _ _ (hzs2 _ _)]; rfl

theorem attach_step (cap : Nat) (c : SC) (h : HW) (y : Inst) (hw : c.hw = some h) :
    (c.start cap y true).1.hw = some { h with sources := h.sources ++ [y] } ∧
    (c.start cap y true).2.1 = h.ring.map (fun e => (y, Report.status e)) := by
  simp [SC.start, hw, HW.addSource]

theorem attach_many (cap : Nat) (c : SC) (h : HW) (ys : List Inst) (hw : c.hw = some h) :
    (SC.fireAll cap c (ys.map (fun y => SCLabel.start y true))).1.hw = some { h with sources := h.sources ++ ys } ∧
    ∀ t, t ∉ ys → pr t (SC.fireAll cap c (ys.map (fun y => SCLabel.start y true))).2 = [] := by
  induction ys generalizing c h with
  | nil => simp [SC.fireAll, hw]
  | cons y ys ih =>
    obtain ⟨a1, a2⟩ := attach_step cap c h y hw
    obtain ⟨i1, i2⟩ := ih (c.start cap y true).1 _ a1
    simp only [List.map_cons, SC.fireAll, SC.fire]
    refine ⟨by rw [i1]; simp, ?_⟩
    intro t ht
    have hty : y ≠ t := fun e => ht (by simp [e])
    have hts : t ∉ ys := fun e => ht (by simp [e])
    rw [pr_append, a2, pr_ring_ne _ _ _ hty, i2 t hts]; rfl

/-- **replay within the ring, any number of instances:** the inner component is started by the first instance `x`; however many
further instances attach before `z`, if what the component reported during its `Start` fits the ring, the late instance `z` is
handed exactly the reports the first one received -/
theorem shared_replay_N (cap : Nat) (sc : Script) (x z : Inst) (xs : List Inst) (hzx : z ≠ x) (hz : z ∉ xs) (hx : x ∉ xs)
    (hfit : sc.startHistory.length ≤ cap) :
    pr z (SC.fireAll cap { script := sc }
      (SCLabel.start x true :: (xs.map (fun y => SCLabel.start y true) ++ [SCLabel.start z true]))).2 = sc.startHistory.map Report.status ∧
    pr x (SC.fireAll cap { script := sc }
      (SCLabel.start x true :: (xs.map (fun y => SCLabel.start y true) ++ [SCLabel.start z true]))).2 = sc.startHistory.map Report.status := by
  obtain ⟨h, f1, f2, f3, f4, f5⟩ := first_start cap sc x hfit
  obtain ⟨m1, m2⟩ := attach_many cap _ h xs f1
  obtain ⟨l1, l2⟩ := attach_step cap _ _ z m1
  simp only [SC.fireAll, SC.fire, SC.fireAll_append, pr_append, List.append_nil]
  rw [f5 z hzx, m2 z hz, f4, m2 x hx, l2]
  simp only [f2]
  constructor
  · simp [pr_map_self]
  · simp [pr_ring_ne _ _ _ hzx]


/-! ## every instance of a shared component receives the same reports until the service starts stopping -/

/-- shared component `k` of the state: its inner component behaves like `sc`; it is either untouched or started with its whole
start history in the ring -/
def KInv (cap : Nat) (sc : Script) (k : Nat) (g : GState) : Prop :=
  k < g.scs.length ∧ (g.sc k = { script := sc } ∨ ∃ h, (g.sc k).hw = some h ∧ h.ring = sc.startHistory ∧ (g.sc k).script = sc)

theorem GState.sc_setSc_self (g : GState) (k : Nat) (c : SC) (hk : k < g.scs.length) : (g.setSc k c).sc k = c := by
  rw [GState.sc_setSc]; simp [hk]

theorem GState.sc_setSc_ne (g : GState) (k' k : Nat) (c : SC) (h : k' ≠ k) : (g.setSc k' c).sc k = g.sc k := by
  rw [GState.sc_setSc]; simp [h]

theorem attach_step_script (cap : Nat) (c : SC) (h : HW) (y : Inst) (hw : c.hw = some h) :
    (c.start cap y true).1.script = c.script := SC.start_script cap c y true

theorem KInv_startNode (cap : Nat) (sc : Script) (k : Nat) (g : GState) (n : Node)
    (hfit : sc.startHistory.length ≤ cap) (h : KInv cap sc k g) : KInv cap sc k (g.startNode cap n true).1 := by
  obtain ⟨hk, hst⟩ := h
  obtain ⟨ni, kind⟩ := n
  cases kind with
  | plain s0 => exact ⟨hk, hst⟩
  | shared k' =>
    simp only [GState.startNode]
    refine ⟨by rw [GState.setSc_length]; exact hk, ?_⟩
    by_cases hkk : k' = k
    · subst hkk
      rw [GState.sc_setSc_self _ _ _ hk]
      right
      rcases hst with hf | ⟨h0, hw, hr, hs⟩
      · rw [hf]
        obtain ⟨h1, f1, f2, _, _, _⟩ := first_start cap sc ni hfit
        exact ⟨h1, f1, f2, SC.start_script cap _ _ _⟩
      · obtain ⟨a1, _⟩ := attach_step cap _ h0 ni hw
        exact ⟨_, a1, hr, by rw [SC.start_script]; exact hs⟩
    · rw [GState.sc_setSc_ne _ _ _ _ hkk]; exact hst

theorem KInv_startAll (cap : Nat) (sc : Script) (k : Nat) (l : List Node) (g : GState)
    (hfit : sc.startHistory.length ≤ cap) (h : KInv cap sc k g) : KInv cap sc k (startAll cap true g l).1 := by
  induction l generalizing g with
  | nil => exact h
  | cons n rest ih =>
    have h1 := KInv_startNode cap sc k g n hfit h
    simp only [startAll]
    by_cases hf : (g.startNode cap n true).2.2 = true
    · simp only [hf, if_true]; exact h1
    · have hf' : (g.startNode cap n true).2.2 = false := by simpa using hf
      simp only [hf', Bool.false_eq_true, if_false]
      exact ih _ h1

/-- nodes that are not instances of `k` leave component `k` alone -/
theorem startAll_untouched (cap : Nat) (hr : Bool) (k : Nat) (l : List Node) (g : GState)
    (hl : ∀ n ∈ l, n.kind ≠ .shared k) : (startAll cap hr g l).1.sc k = g.sc k ∧ (startAll cap hr g l).1.scs.length = g.scs.length := by
  induction l generalizing g with
  | nil => exact ⟨rfl, rfl⟩
  | cons n rest ih =>
    have hn : n.kind ≠ .shared k := hl n (by simp)
    have hrest : ∀ m ∈ rest, m.kind ≠ .shared k := fun m hm => hl m (by simp [hm])
    have h1 : (g.startNode cap n hr).1.sc k = g.sc k ∧ (g.startNode cap n hr).1.scs.length = g.scs.length := by
      obtain ⟨ni, kind⟩ := n
      cases kind with
      | plain s0 => exact ⟨rfl, rfl⟩
      | shared k' =>
        have hkk : k' ≠ k := fun e => hn (by simp [e])
        simp only [GState.startNode]
        exact ⟨GState.sc_setSc_ne _ _ _ _ hkk, GState.setSc_length _ _ _⟩
    simp only [startAll]
    by_cases hf : (g.startNode cap n hr).2.2 = true
    · simp only [hf, if_true]; exact h1
    · have hf' : (g.startNode cap n hr).2.2 = false := by simpa using hf
      simp only [hf', Bool.false_eq_true, if_false]
      obtain ⟨i1, i2⟩ := ih (g.startNode cap n hr).1 hrest
      exact ⟨by rw [i1, h1.1], by rw [i2, h1.2]⟩

/-- `x` is attached exactly once to component `k` and to no other component -/
def J (sc : Script) (k : Nat) (x : Inst) (g : GState) : Prop :=
  k < g.scs.length ∧ (∀ k', k' ≠ k → x ∉ (g.sc k').sources) ∧
    ∃ h, (g.sc k).hw = some h ∧ h.sources.count x = 1 ∧ (g.sc k).script = sc

theorem startNode_shared_target (cap : Nat) (sc : Script) (k : Nat) (x : Inst) (g : GState)
    (hfit : sc.startHistory.length ≤ cap) (hq : Quiet x g) (hK : KInv cap sc k g) :
    pr x (g.startNode cap ⟨x, .shared k⟩ true).2.1 = sc.startHistory.map Report.status ∧
    J sc k x (g.startNode cap ⟨x, .shared k⟩ true).1 := by
  obtain ⟨hk, hst⟩ := hK
  simp only [GState.startNode]
  have hothers : ∀ c, ∀ k', k' ≠ k → x ∉ ((g.setSc k c).sc k').sources := by
    intro c k' hk'
    rw [GState.sc_setSc_ne _ _ _ _ (Ne.symm hk')]
    exact hq.sc k'
  rcases hst with hf | ⟨h0, hw, hr, hs⟩
  · rw [hf]
    obtain ⟨h1, f1, f2, f3, f4, _⟩ := first_start cap sc x hfit
    refine ⟨f4, by rw [GState.setSc_length]; exact hk, hothers _, ?_⟩
    rw [GState.sc_setSc_self _ _ _ hk]
    exact ⟨h1, f1, by rw [f3]; simp, SC.start_script cap _ _ _⟩
  · obtain ⟨a1, a2⟩ := attach_step cap _ h0 x hw
    have hx0 : x ∉ h0.sources := by have := hq.sc k; simpa [SC.sources, hw] using this
    refine ⟨by rw [a2, hr, pr_map_self], by rw [GState.setSc_length]; exact hk, hothers _, ?_⟩
    rw [GState.sc_setSc_self _ _ _ hk]
    refine ⟨_, a1, ?_, by rw [SC.start_script]; exact hs⟩
    simp [List.count_append, List.count_eq_zero_of_not_mem hx0]

theorem startNode_afterJ (cap : Nat) (sc : Script) (k : Nat) (x : Inst) (g : GState) (n : Node) (hn : n.inst ≠ x)
    (hJ : J sc k x g) : pr x (g.startNode cap n true).2.1 = [] ∧ J sc k x (g.startNode cap n true).1 := by
  obtain ⟨hk, ho, h0, hw, hc, hs⟩ := hJ
  obtain ⟨ni, kind⟩ := n
  simp only at hn
  cases kind with
  | plain s0 => exact ⟨pr_own_ne x _ true _ hn, hk, ho, h0, hw, hc, hs⟩
  | shared k' =>
    simp only [GState.startNode]
    by_cases hkk : k' = k
    · subst hkk
      obtain ⟨a1, a2⟩ := attach_step cap _ h0 ni hw
      refine ⟨by rw [a2]; exact pr_ring_ne _ _ _ hn, by rw [GState.setSc_length]; exact hk, ?_, ?_⟩
      · intro k'' hk''
        rw [GState.sc_setSc_ne _ _ _ _ (Ne.symm hk'')]; exact ho k'' hk''
      · rw [GState.sc_setSc_self _ _ _ hk]
        refine ⟨_, a1, ?_, by rw [SC.start_script]; exact hs⟩
        have : List.count x [ni] = 0 := by simp [hn]
        simp [List.count_append, hc, this]
    · obtain ⟨f1, f2⟩ := SC.start_foreign cap x ni true (g.sc k') hn (ho k' hkk)
      refine ⟨f2, by rw [GState.setSc_length]; exact hk, ?_, ?_⟩
      · intro k'' hk''
        rw [GState.sc_setSc]
        split
        · exact f1
        · exact ho k'' hk''
      · rw [GState.sc_setSc_ne _ _ _ _ hkk]
        exact ⟨h0, hw, hc, hs⟩

theorem startAll_afterJ (cap : Nat) (sc : Script) (k : Nat) (x : Inst) (l : List Node) (g : GState)
    (hl : ∀ n ∈ l, n.inst ≠ x) (hJ : J sc k x g) :
    pr x (startAll cap true g l).2.1 = [] ∧ J sc k x (startAll cap true g l).1 := by
  induction l generalizing g with
  | nil => exact ⟨rfl, hJ⟩
  | cons n rest ih =>
    have hn : n.inst ≠ x := hl n (by simp)
    have hrest : ∀ m ∈ rest, m.inst ≠ x := fun m hm => hl m (by simp [hm])
    obtain ⟨f1, f2⟩ := startNode_afterJ cap sc k x g n hn hJ
    simp only [startAll]
    by_cases hf : (g.startNode cap n true).2.2 = true
    · simp only [hf, if_true]
      exact ⟨by simp [pr_append, pr_cons_ne _ _ _ _ hn, f1], f2⟩
    · have hf' : (g.startNode cap n true).2.2 = false := by simpa using hf
      simp only [hf', Bool.false_eq_true, if_false]
      obtain ⟨i1, i2⟩ := ih _ hrest f2
      exact ⟨by simp [pr_append, pr_cons_ne _ _ _ _ hn, f1, i1], i2⟩

theorem pr_map_count (x : Inst) (l : List Inst) (r : Report) (h : l.count x = 1) : pr x (l.map (fun i => (i, r))) = [r] := by
  induction l with
  | nil => simp at h
  | cons i is ih =>
    by_cases hi : i = x
    · subst hi
      have h0 : is.count i = 0 := by simpa [List.count_cons] using h
      have hn : i ∉ is := List.count_eq_zero.mp h0
      rw [List.map_cons, pr_cons_self, pr_map_ne _ _ _ hn]
    · have h1 : is.count x = 1 := by simpa [List.count_cons, hi] using h
      rw [List.map_cons, pr_cons_ne _ _ _ _ hi, ih h1]

theorem HW.reportAll_pr_count (cap : Nat) (x : Inst) (h : HW) (es : List St) (hc : h.sources.count x = 1) :
    pr x (HW.reportAll cap h es).2 = es.map Report.status := by
  induction es generalizing h with
  | nil => rfl
  | cons e es ih =>
    simp only [HW.reportAll, pr_append, List.map_cons]
    rw [ih _ (by rw [HW.report_sources]; exact hc)]
    simp only [HW.report]
    rw [pr_map_count x _ _ hc]; rfl

theorem SC.run_target (cap : Nat) (x : Inst) (c : SC) (h : HW) (hw : c.hw = some h) (hc : h.sources.count x = 1) :
    pr x (c.run cap).2 = c.script.running.map Report.status := by
  simp only [SC.run, hw]
  exact HW.reportAll_pr_count cap x h _ hc

theorem runShared_target (cap : Nat) (x : Inst) (scs : List SC) (k : Nat) (c : SC) (h : HW)
    (hkc : scs[k]? = some c) (hw : c.hw = some h) (hc : h.sources.count x = 1)
    (ho : ∀ k' c', k' ≠ k → scs[k']? = some c' → x ∉ c'.sources) :
    pr x (runShared cap scs).2 = c.script.running.map Report.status := by
  induction scs generalizing k with
  | nil => simp at hkc
  | cons c0 cs ih =>
    simp only [runShared, pr_append]
    cases k with
    | zero =>
      simp at hkc; subst hkc
      have hrest : ∀ c' ∈ cs, x ∉ c'.sources := by
        intro c' hc'
        obtain ⟨j, hj⟩ := List.getElem?_of_mem hc'
        exact ho (j + 1) c' (by omega) (by simpa using hj)
      rw [SC.run_target cap x c0 h hw hc, (runShared_foreign cap x cs hrest).2]; simp
    | succ k =>
      simp at hkc
      have h0 : x ∉ c0.sources := ho 0 c0 (by omega) (by simp)
      rw [(SC.run_foreign cap x c0 h0).2, ih k hkc (fun k' c' hk' hc' => ho (k' + 1) c' (by omega) (by simpa using hc'))]; rfl

theorem runPlain_shared_target (x : Inst) (hr : Bool) (l : List Node)
    (hl : ∀ n ∈ l, n.inst = x → ∃ k, n.kind = .shared k) : pr x (runPlain hr l) = [] := by
  induction l with
  | nil => rfl
  | cons n rest ih =>
    have hrest : ∀ m ∈ rest, m.inst = x → ∃ k, m.kind = .shared k := fun m hm => hl m (by simp [hm])
    simp only [runPlain, pr_append, ih hrest]
    obtain ⟨ni, kind⟩ := n
    cases kind with
    | plain sc =>
      have hn : ni ≠ x := by
        intro e
        obtain ⟨k, hk⟩ := hl ⟨ni, .plain sc⟩ (by simp) e
        cases hk
      simp [pr_own_ne x _ hr _ hn]
    | shared k => simp

/-- `service.Start` and the running phase / `service.Shutdown` of `Sys.opsDoc` -/
def Sys.upOpsDoc (cap : Nat) (s : Sys) : List Op :=
  let e := startAll cap false s.g0 s.exts
  let p := if e.2.2 then startAll cap true e.1 s.startOrder else (e.1, [], false)
  let ok := e.2.2 && p.2.2
  let rs := if ok then runShared cap p.1.scs else (p.1.scs, [])
  e.2.1 ++ p.2.1 ++ (if ok then runPlain true s.startOrder ++ rs.2 else [])

def Sys.downOpsDoc (cap : Nat) (s : Sys) : List Op :=
  let e := startAll cap false s.g0 s.exts
  let p := if e.2.2 then startAll cap true e.1 s.startOrder else (e.1, [], false)
  let ok := e.2.2 && p.2.2
  let rs := if ok then runShared cap p.1.scs else (p.1.scs, [])
  let g2 : GState := { p.1 with scs := rs.1 }
  let sp := stopAll cap true g2 s.stopOrder
  let se := stopAll cap false sp.1 s.exts.reverse
  sp.2 ++ se.2

theorem Sys.opsDoc_split (cap : Nat) (s : Sys) : s.opsDoc cap = s.upOpsDoc cap ++ s.downOpsDoc cap := by
  simp only [Sys.opsDoc, Sys.upOpsDoc, Sys.downOpsDoc, List.append_assoc]

theorem g0_sc (s : Sys) (k : Nat) (hk : k < s.shared.length) : s.g0.sc k = { script := s.shared.getD k {} } := by
  simp only [GState.sc, Sys.g0, List.getD_eq_getElem?_getD, List.getElem?_map, List.getElem?_eq_getElem hk]
  rfl

/-- **every instance of a shared component receives the same reports until the service starts stopping:** in any service whose
start-up succeeds, if what component `k` reports during its `Start` fits the ring (and no extension is an instance of `k`), the
reports reaching the state machine of ANY pipeline instance `x` of `k` during start-up and the running phase are
`Starting, <start history>, OK-if-starting, <running reports>` — the same list for every instance, first or late -/
theorem sys_shared_up_reports (cap : Nat) (s : Sys) (k : Nat) (x : Inst) (a b : List Node)
    (hS : s.startOrder = a ++ ⟨x, .shared k⟩ :: b) (ha : ∀ n ∈ a, n.inst ≠ x) (hb : ∀ n ∈ b, n.inst ≠ x)
    (he : ∀ n ∈ s.exts, n.inst ≠ x ∧ n.kind ≠ .shared k) (hk : k < s.shared.length)
    (hfit : (s.shared.getD k {}).startHistory.length ≤ cap) (hup : s.startedUp cap = true) :
    pr x (s.upOpsDoc cap) =
      Report.status .starting :: ((s.shared.getD k {}).startHistory.map Report.status ++
        Report.okIfStarting :: (s.shared.getD k {}).running.map Report.status) := by
  simp only [Sys.startedUp, Bool.and_eq_true] at hup
  obtain ⟨hE, hP⟩ := hup
  -- extensions: foreign to x, do not touch component k
  obtain ⟨e1, e2, _⟩ := startAll_foreign cap x false s.exts (fun n hn => (he n hn).1) s.g0 (Quiet_g0 x s)
  obtain ⟨u1, u2⟩ := startAll_untouched cap false k s.exts s.g0 (fun n hn => (he n hn).2)
  have hKE : KInv cap (s.shared.getD k {}) k (startAll cap false s.g0 s.exts).1 :=
    ⟨by rw [u2]; simpa [Sys.g0] using hk, Or.inl (by rw [u1, g0_sc s k hk])⟩
  -- the instances started before x
  rw [hS] at hP
  have hA := startAll_ok_prefix cap true _ a _ hP
  obtain ⟨a1, a2, _⟩ := startAll_foreign cap x true a ha _ e1
  have hKA := KInv_startAll cap _ k a _ hfit hKE
  -- x itself, then the rest
  obtain ⟨t1, t2⟩ := startNode_shared_target cap _ k x _ hfit a1 hKA
  rw [startAll_append] at hP
  simp only [hA, if_true, startAll] at hP
  have hX : ((startAll cap true (startAll cap false s.g0 s.exts).1 a).1.startNode cap ⟨x, .shared k⟩ true).2.2 = false := by
    by_cases hf : ((startAll cap true (startAll cap false s.g0 s.exts).1 a).1.startNode cap ⟨x, .shared k⟩ true).2.2 = true
    · simp [hf] at hP
    · simpa using hf
  simp only [hX, Bool.false_eq_true, if_false] at hP
  obtain ⟨b1, b2⟩ := startAll_afterJ cap _ k x b _ hb t2
  obtain ⟨jk, jo, h, jw, jc, js⟩ := b2
  -- assemble
  have hPeq : startAll cap true (startAll cap false s.g0 s.exts).1 s.startOrder =
      ((startAll cap true ((startAll cap true (startAll cap false s.g0 s.exts).1 a).1.startNode cap ⟨x, .shared k⟩ true).1 b).1,
       (startAll cap true (startAll cap false s.g0 s.exts).1 a).2.1 ++
        ([(x, Report.status .starting)] ++ ((startAll cap true (startAll cap false s.g0 s.exts).1 a).1.startNode cap ⟨x, .shared k⟩ true).2.1 ++
          [(x, Report.okIfStarting)] ++
          (startAll cap true ((startAll cap true (startAll cap false s.g0 s.exts).1 a).1.startNode cap ⟨x, .shared k⟩ true).1 b).2.1),
       (startAll cap true ((startAll cap true (startAll cap false s.g0 s.exts).1 a).1.startNode cap ⟨x, .shared k⟩ true).1 b).2.2) := by
    rw [hS, startAll_append]
    simp only [hA, if_true, startAll, hX, Bool.false_eq_true, if_false]
  have hget : ∀ k' c', (startAll cap true ((startAll cap true (startAll cap false s.g0 s.exts).1 a).1.startNode cap ⟨x, .shared k⟩ true).1 b).1.scs[k']? = some c' →
      (startAll cap true ((startAll cap true (startAll cap false s.g0 s.exts).1 a).1.startNode cap ⟨x, .shared k⟩ true).1 b).1.sc k' = c' := by
    intro k' c' hc'
    simp [GState.sc, List.getD_eq_getElem?_getD, hc']
  have hkc : ∀ (G : GState) (hk : k < G.scs.length), G.scs[k]? = some (G.sc k) := by
    intro G hk; simp [GState.sc, List.getD_eq_getElem?_getD, List.getElem?_eq_getElem hk]
  have hrun := runShared_target cap x _ k _ h (hkc _ jk) jw jc
    (fun k' c' hk' hc' => by rw [← hget k' c' hc']; exact jo k' hk')
  have hplain : pr x (runPlain true s.startOrder) = [] := by
    apply runPlain_shared_target
    intro n hn hx
    rw [hS] at hn
    simp only [List.mem_append, List.mem_cons] at hn
    rcases hn with hn | rfl | hn
    · exact absurd hx (ha n hn)
    · exact ⟨k, rfl⟩
    · exact absurd hx (hb n hn)
  simp only [Sys.upOpsDoc, hE, if_true, Bool.true_and, hPeq, hP, pr_append, e2, a2, t1, b1, hplain, hrun, js,
    pr_cons_self, pr_single_self, pr_nil, List.nil_append, List.append_nil]
  simp

end OtelVerif.C11
