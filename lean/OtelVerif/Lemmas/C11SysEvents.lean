import OtelVerif.Lemmas.C11Sys
import OtelVerif.Lemmas.C11Mutex
namespace OtelVerif.C11
open OtelVerif.Gen

/-! # C11 — lemmas (core Lean only)

## … hence their watchers are shown the same events before Stopping -/

/-- `l` is empty or begins with `r` -/
def HeadOrNil (r : Report) (l : List Report) : Prop := l = [] ∨ ∃ t, l = r :: t

theorem HeadOrNil.append {r : Report} {a b : List Report} (ha : HeadOrNil r a) (hb : HeadOrNil r b) : HeadOrNil r (a ++ b) := by
  rcases ha with rfl | ⟨t, rfl⟩
  · simpa using hb
  · exact Or.inr ⟨t ++ b, rfl⟩

theorem pr_map_head (x : Inst) (l : List Inst) (r : Report) : HeadOrNil r (pr x (l.map (fun i => (i, r)))) := by
  induction l with
  | nil => exact Or.inl rfl
  | cons i is ih =>
    by_cases hi : i = x
    · subst hi; rw [List.map_cons, pr_cons_self]; exact Or.inr ⟨_, rfl⟩
    · rw [List.map_cons, pr_cons_ne _ _ _ _ hi]; exact ih

theorem pr_map_cases (x : Inst) (l : List Inst) (r : Report) :
    (x ∉ l ∧ pr x (l.map (fun i => (i, r))) = []) ∨ ∃ t, pr x (l.map (fun i => (i, r))) = r :: t := by
  induction l with
  | nil => exact Or.inl ⟨by simp, rfl⟩
  | cons i is ih =>
    by_cases hi : i = x
    · subst hi; rw [List.map_cons, pr_cons_self]; exact Or.inr ⟨_, rfl⟩
    · rw [List.map_cons, pr_cons_ne _ _ _ _ hi]
      rcases ih with ⟨h1, h2⟩ | h
      · exact Or.inl ⟨by simp [Ne.symm hi, h1], h2⟩
      · exact Or.inr h

theorem HW.reportAll_head (cap : Nat) (x : Inst) (h : HW) (e : St) (es : List St) :
    (x ∉ h.sources ∧ pr x (HW.reportAll cap h (e :: es)).2 = []) ∨ ∃ t, pr x (HW.reportAll cap h (e :: es)).2 = Report.status e :: t := by
  simp only [HW.reportAll, pr_append]
  rcases pr_map_cases x h.sources (Report.status e) with ⟨h1, h2⟩ | ⟨t, h2⟩
  · left
    refine ⟨h1, ?_⟩
    have : pr x (h.report cap e).2 = [] := h2
    rw [this, HW.reportAll_pr cap x _ es (by rw [HW.report_sources]; exact h1)]; rfl
  · right
    have : pr x (h.report cap e).2 = Report.status e :: t := h2
    rw [this]; exact ⟨_, rfl⟩

theorem SC.shutdown_head (cap : Nat) (x : Inst) (c : SC) : HeadOrNil (Report.status .stopping) (pr x (c.shutdown cap).2.1) := by
  have hpre : StatusGlue.sharedStopPre = [St.stopping] := by decide
  simp only [SC.shutdown]
  cases c.stopOnce with
  | true => exact Or.inl rfl
  | false =>
    cases hw : c.hw with
    | none => exact Or.inl rfl
    | some h =>
      simp only [Bool.false_eq_true, if_false, pr_append, hpre]
      rcases HW.reportAll_head cap x h .stopping [] with ⟨hx, h1⟩ | ⟨t, h1⟩
      · left
        have hs1 : x ∉ (HW.reportAll cap h [St.stopping]).1.sources := by rw [HW.reportAll_sources]; exact hx
        have hs2 : x ∉ (HW.reportAll cap (HW.reportAll cap h [St.stopping]).1 c.script.duringStop).1.sources := by
          rw [HW.reportAll_sources]; exact hs1
        rw [h1, HW.reportAll_pr cap x _ _ hs1, HW.reportAll_pr cap x _ _ hs2]; rfl
      · rw [h1]; exact Or.inr ⟨_, rfl⟩

theorem stopAll_head (cap : Nat) (x : Inst) (hr : Bool) (l : List Node) (g : GState) :
    HeadOrNil (Report.status .stopping) (pr x (stopAll cap hr g l).2) := by
  induction l generalizing g with
  | nil => exact Or.inl rfl
  | cons n rest ih =>
    simp only [stopAll]
    by_cases hn : n.inst = x
    · rw [List.append_assoc, List.append_assoc, List.singleton_append, hn, pr_cons_self]; exact Or.inr ⟨_, rfl⟩
    · rw [List.append_assoc, List.append_assoc, List.singleton_append, pr_cons_ne _ _ _ _ hn, pr_append, pr_append,
        pr_single_ne _ _ _ hn, List.nil_append]
      apply HeadOrNil.append _ (ih _)
      obtain ⟨ni, kind⟩ := n
      cases kind with
      | plain sc =>
        simp only [GState.stopNode]
        left
        split
        · exact pr_own_ne x _ hr _ hn
        · rfl
      | shared k => simp only [GState.stopNode]; exact SC.shutdown_head cap x _

theorem run_app (cur : St) (a b : List Report) : run cur (a ++ b) = run cur a ++ run (runState cur a) b := by
  induction a generalizing cur with
  | nil => rfl
  | cons x xs ih =>
    simp only [List.cons_append, run, runState]
    cases (step cur x).2 <;> simp [ih]

theorem takeWhile_append_stop {α} (p : α → Bool) (A B : List α) (b : α) (hb : p b = false) :
    (A ++ b :: B).takeWhile p = A.takeWhile p := by
  induction A with
  | nil => simp [List.takeWhile, hb]
  | cons a A ih => simp only [List.cons_append, List.takeWhile_cons, ih]

theorem takeWhile_append_mem {α} (p : α → Bool) (A T : List α) (h : ∃ a ∈ A, p a = false) :
    (A ++ T).takeWhile p = A.takeWhile p := by
  induction A with
  | nil => obtain ⟨a, ha, _⟩ := h; cases ha
  | cons a A ih =>
    simp only [List.cons_append, List.takeWhile_cons]
    cases hpa : p a with
    | false => rfl
    | true =>
      simp only [if_true]
      congr 1
      apply ih
      obtain ⟨a', ha', hp'⟩ := h
      simp only [List.mem_cons] at ha'
      rcases ha' with rfl | ha'
      · rw [hpa] at hp'; cases hp'
      · exact ⟨a', ha', hp'⟩

theorem run_terminal (q : St) (hq : q = .fatal ∨ q = .stopped) (l : List Report) : run q l = [] := by
  induction l with
  | nil => rfl
  | cons r rs ih =>
    have hno : ∀ s, allowed q s = false := by rcases hq with rfl | rfl <;> intro s <;> cases s <;> decide
    have hst : step q r = (q, Option.none) := by
      cases r with
      | status s => simp [step, transition, hno s]
      | okIfStarting => rcases hq with rfl | rfl <;> simp [step]
    simp only [run, hst]; exact ih

theorem runState_mem (cur : St) (R : List Report) : runState cur R = cur ∨ runState cur R ∈ run cur R := by
  induction R generalizing cur with
  | nil => exact Or.inl rfl
  | cons r rs ih =>
    simp only [runState, run]
    cases he : (step cur r).2 with
    | none =>
      have := Mutex.step_none_state cur r he
      rw [this]; exact ih cur
    | some e =>
      have hcur : (step cur r).1 = e := by
        cases r with
        | status s =>
          simp only [step, transition] at he ⊢
          by_cases ha : allowed cur s = true
          · simp [ha] at he ⊢; exact he
          · simp [ha] at he
        | okIfStarting =>
          simp only [step, transition] at he ⊢
          by_cases hc : cur = .starting
          · subst hc
            by_cases ha : allowed .starting .ok = true
            · simp [ha] at he ⊢; exact he
            · simp [ha] at he
          · simp [hc] at he
      rw [hcur]
      rcases ih e with h | h
      · rw [h]; exact Or.inr (by simp)
      · exact Or.inr (by simp [h])

theorem runState_ne_none (cur : St) (R : List Report) (h : cur ≠ .none) : runState cur R ≠ .none := by
  induction R generalizing cur with
  | nil => exact h
  | cons r rs ih =>
    simp only [runState]
    apply ih
    cases r with
    | status s =>
      simp only [step, transition]
      by_cases ha : allowed cur s = true
      · simp only [ha, if_true]
        intro e; subst e
        revert ha; cases cur <;> decide
      · simp only [ha]; exact h
    | okIfStarting =>
      simp only [step, transition]
      by_cases hc : cur = .starting
      · subst hc
        have : allowed .starting .ok = true := by decide
        simp [this]
      · simp [hc]; exact h

/-- whatever follows, if it begins with `Stopping` (or is empty) the events before the first Stopping are decided by `R` alone -/
theorem beforeStopping_run (R' D : List Report) (hD : HeadOrNil (Report.status .stopping) D) :
    beforeStopping (run .none ((Report.status .starting :: R') ++ D)) = beforeStopping (run .none (Report.status .starting :: R')) := by
  rw [run_app]
  rcases hD with rfl | ⟨t, rfl⟩
  · simp [run]
  · have hq : runState .none (Report.status .starting :: R') ≠ .none := by
      have h0 : allowed .none .starting = true := by decide
      simp only [runState, step, transition, h0, if_true]
      exact runState_ne_none _ _ (by decide)
    have hstop : ∀ q, allowed q .stopping = true → beforeStopping (run .none (Report.status .starting :: R') ++ run q (Report.status .stopping :: t)) =
        beforeStopping (run .none (Report.status .starting :: R')) := by
      intro q ha
      simp only [run, step, transition, ha, if_true]
      exact takeWhile_append_stop _ _ _ _ (by decide)
    cases hqq : runState .none (Report.status .starting :: R') with
    | none => exact absurd hqq hq
    | starting => exact hstop _ (by decide)
    | ok => exact hstop _ (by decide)
    | recoverable => exact hstop _ (by decide)
    | permanent => exact hstop _ (by decide)
    | fatal => rw [run_terminal _ (Or.inl rfl)]; simp
    | stopped => rw [run_terminal _ (Or.inr rfl)]; simp
    | stopping =>
      rcases runState_mem .none (Report.status .starting :: R') with h | h
      · rw [hqq] at h; cases h
      · rw [hqq] at h
        exact takeWhile_append_mem _ _ _ ⟨_, h, by decide⟩

/-- **the `_partial` of `C11_sys_shared_same_events_full`:** within the ring, all pipeline instances of a shared component are shown
the same events before Stopping — the events of `Starting, <start history>, OK-if-starting, <running reports>` -/
theorem sys_shared_same_events (cap : Nat) (s : Sys) (k : Nat) (x : Inst) (a b : List Node)
    (hS : s.startOrder = a ++ ⟨x, .shared k⟩ :: b) (ha : ∀ n ∈ a, n.inst ≠ x) (hb : ∀ n ∈ b, n.inst ≠ x)
    (he : ∀ n ∈ s.exts, n.inst ≠ x ∧ n.kind ≠ .shared k) (hk : k < s.shared.length)
    (hfit : (s.shared.getD k {}).startHistory.length ≤ cap) (hup : s.startedUp cap = true) :
    beforeStopping (s.events cap x) =
      beforeStopping (run .none (Report.status .starting :: ((s.shared.getD k {}).startHistory.map Report.status ++
        Report.okIfStarting :: (s.shared.getD k {}).running.map Report.status))) := by
  have hup' := sys_shared_up_reports cap s k x a b hS ha hb he hk hfit hup
  have hdown : HeadOrNil (Report.status .stopping) (pr x (s.downOpsDoc cap)) := by
    simp only [Sys.downOpsDoc, pr_append]
    exact HeadOrNil.append (stopAll_head cap x true _ _) (stopAll_head cap x false _ _)
  have hev : s.events cap x = run .none (pr x (s.upOpsDoc cap) ++ pr x (s.downOpsDoc cap)) := by
    simp only [Sys.events]
    rw [glue_as_documented, Sys.opsDoc_split]
    show run .none (pr x (s.upOpsDoc cap ++ s.downOpsDoc cap)) = _
    rw [pr_append]
  rw [hev, hup']
  exact beforeStopping_run _ _ hdown
end OtelVerif.C11
