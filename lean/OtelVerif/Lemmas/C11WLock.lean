import OtelVerif.Model.C11WLock
/-!
# C11 — `hostWrapper.lock` makes `Report` / `addSource` atomic (lemmas; core Lean only)
-/
namespace OtelVerif.C11.WLock
open OtelVerif.C11

theorem applyCalls_snoc (cap : Nat) (p : HW × List Op) (cs : List WCall) (c : WCall) :
    applyCalls cap p (cs ++ [c]) = applyCall cap (applyCalls cap p cs) c := by
  simp [applyCalls, List.foldl_append]

def PhOk (s : WState) (cap : Nat) (p0 : HW × List Op) (c : WCall) : WPhase → Prop
  | .idle => False
  | .locked => s.hw = p0.1 ∧ s.out = p0.2
  | .fanout e rem =>
    c = .report e ∧ s.hw = (p0.1.report cap e).1 ∧
      ∃ done, p0.1.sources = done ++ rem ∧ s.out = p0.2 ++ done.map (fun i => (i, Report.status e))
  | .replay i rem =>
    c = .attach i ∧ s.hw = p0.1 ∧ ∃ done, p0.1.ring = done ++ rem ∧ s.out = p0.2 ++ done.map (fun e => (i, Report.status e))
  | .finished => (s.hw, s.out) = applyCall cap p0 c

def Held (hw0 : HW) (s : WState) (t : Nat) : Prop :=
  ∃ c rest ph cs0, s.threads[t]? = some ⟨c :: rest, ph⟩ ∧
    (∀ (t' : Nat) (th' : WThread), t' ≠ t → s.threads[t']? = some th' → th'.phase = WPhase.idle) ∧
    s.calls = cs0 ++ [c] ∧ PhOk s s.cap (applyCalls s.cap (hw0, []) cs0) c ph

def Free (hw0 : HW) (s : WState) : Prop :=
  (∀ (t : Nat) (th : WThread), s.threads[t]? = some th → th.phase = WPhase.idle) ∧
    (s.hw, s.out) = applyCalls s.cap (hw0, []) s.calls

def InvW (cap : Nat) (hw0 : HW) (s : WState) : Prop :=
  s.useLock = true ∧ s.cap = cap ∧ match s.holder with
    | Option.none => Free hw0 s
    | some t => Held hw0 s t

theorem get_set_self {α} (l : List α) (t : Nat) (a x : α) (h : l[t]? = some a) : (l.set t x)[t]? = some x := by
  have hlt : t < l.length := by
    rcases Nat.lt_or_ge t l.length with h1 | h1
    · exact h1
    · rw [List.getElem?_eq_none h1] at h; cases h
  simp [hlt]

theorem get_set_ne {α} (l : List α) (t t' : Nat) (x : α) (h : t' ≠ t) : (l.set t x)[t']? = l[t']? := by
  simp [Ne.symm h]

theorem InvW_init (cap : Nat) (hw0 : HW) (progs : List (List WCall)) : InvW cap hw0 (init true cap hw0 progs) := by
  refine ⟨rfl, rfl, ?_⟩
  show Free hw0 (init true cap hw0 progs)
  refine ⟨?_, rfl⟩
  intro t th h
  simp only [init, List.getElem?_map] at h
  cases hp : progs[t]? with
  | none => simp [hp] at h
  | some p => simp [hp] at h; rw [← h]

theorem calls_snoc (s : WState) (t : Nat) (c : WCall) : (s.hist ++ [(t, c)]).map (·.2) = s.calls ++ [c] := by simp [WState.calls]

theorem InvW_fire {cap : Nat} {hw0 : HW} {s s' : WState} {t : Nat} (hinv : InvW cap hw0 s) (hf : fire s t = some s') : InvW cap hw0 s' := by
  obtain ⟨hlock, hcap, hmatch⟩ := hinv
  simp only [fire] at hf
  cases hth : s.threads[t]? with
  | none => simp [hth] at hf
  | some th =>
    obtain ⟨todo, ph⟩ := th
    cases todo with
    | nil => simp [hth] at hf
    | cons c rest =>
      cases hh : s.holder with
      | none =>
        rw [hh] at hmatch
        obtain ⟨hidle, heq⟩ := (hmatch : Free hw0 s)
        have hph : ph = WPhase.idle := hidle t _ hth
        subst hph
        simp [hth, hlock, hh] at hf
        subst hf
        refine ⟨rfl, hcap, ?_⟩
        show Held hw0 _ t
        refine ⟨c, rest, .locked, s.calls, get_set_self _ _ _ _ hth, ?_, calls_snoc s t c, ?_⟩
        · intro t' th' hne h'
          rw [get_set_ne _ _ _ _ hne] at h'
          exact hidle t' th' h'
        · have h1 : s.hw = (applyCalls s.cap (hw0, []) s.calls).1 := by rw [← heq]
          have h2 : s.out = (applyCalls s.cap (hw0, []) s.calls).2 := by rw [← heq]
          exact ⟨h1, h2⟩
      | some hd =>
        rw [hh] at hmatch
        obtain ⟨c0, rest0, ph0, cs0, hthd, hothers, hcalls, hphase⟩ := (hmatch : Held hw0 s hd)
        have htEq : t = hd := by
          apply Classical.byContradiction
          intro hne
          have hph : ph = WPhase.idle := hothers t _ hne hth
          subst hph
          simp [hth, hlock, hh] at hf
        subst htEq
        rw [hth] at hthd
        have hthEq := Option.some.inj hthd
        simp only [WThread.mk.injEq, List.cons.injEq] at hthEq
        obtain ⟨⟨hc, hrest⟩, hph⟩ := hthEq
        subst hc; subst hrest; subst hph
        have hothers' : ∀ x, ∀ (t' : Nat) (th' : WThread), t' ≠ t → (s.threads.set t x)[t']? = some th' → th'.phase = WPhase.idle := by
          intro x t' th' hne h'
          rw [get_set_ne _ _ _ _ hne] at h'
          exact hothers t' th' hne h'
        cases ph with
        | idle => exact absurd hphase (by simp [PhOk])
        | locked =>
          obtain ⟨hhw, hout⟩ := hphase
          cases c with
          | report e =>
            simp [hth] at hf
            subst hf
            refine ⟨hlock, hcap, ?_⟩
            simp only [hh]
            show Held hw0 _ t
            refine ⟨_, rest, _, cs0, get_set_self _ _ _ _ hth, hothers' _, hcalls, rfl, ?_, [], ?_, ?_⟩
            · simp [HW.report, hhw]
            · simp [hhw]
            · simp [hout]
          | attach i =>
            simp [hth] at hf
            subst hf
            refine ⟨hlock, hcap, ?_⟩
            simp only [hh]
            show Held hw0 _ t
            exact ⟨_, rest, _, cs0, get_set_self _ _ _ _ hth, hothers' _, hcalls, rfl, hhw, [], by simp [hhw], by simp [hout]⟩
        | fanout e rem =>
          obtain ⟨hc, hhw, done, hsrc, hout⟩ := hphase
          subst hc
          cases rem with
          | nil =>
            simp [hth] at hf
            subst hf
            refine ⟨hlock, hcap, ?_⟩
            simp only [hh]
            show Held hw0 _ t
            refine ⟨_, rest, _, cs0, get_set_self _ _ _ _ hth, hothers' _, hcalls, ?_⟩
            show (s.hw, s.out) = applyCall s.cap _ (.report e)
            simp only [applyCall, hhw, hout]
            simp only [List.append_nil] at hsrc
            simp [HW.report, hsrc]
          | cons i is =>
            simp [hth] at hf
            subst hf
            refine ⟨hlock, hcap, ?_⟩
            simp only [hh]
            show Held hw0 _ t
            exact ⟨_, rest, _, cs0, get_set_self _ _ _ _ hth, hothers' _, hcalls, rfl, hhw, done ++ [i], by simp [hsrc], by simp [hout]⟩
        | replay i rem =>
          obtain ⟨hc, hhw, done, hring, hout⟩ := hphase
          subst hc
          cases rem with
          | nil =>
            simp [hth] at hf
            subst hf
            refine ⟨hlock, hcap, ?_⟩
            simp only [hh]
            show Held hw0 _ t
            refine ⟨_, rest, _, cs0, get_set_self _ _ _ _ hth, hothers' _, hcalls, ?_⟩
            show (_, s.out) = applyCall s.cap _ (.attach i)
            simp only [applyCall, hhw, hout]
            simp only [List.append_nil] at hring
            simp [HW.addSource, hring]
          | cons e es =>
            simp [hth] at hf
            subst hf
            refine ⟨hlock, hcap, ?_⟩
            simp only [hh]
            show Held hw0 _ t
            exact ⟨_, rest, _, cs0, get_set_self _ _ _ _ hth, hothers' _, hcalls, rfl, hhw, done ++ [e], by simp [hring], by simp [hout]⟩
        | finished =>
          simp [hth, hlock] at hf
          subst hf
          refine ⟨rfl, hcap, ?_⟩
          show Free hw0 _
          refine ⟨?_, ?_⟩
          · intro t' th' h'
            by_cases hne : t' = t
            · subst hne
              rw [get_set_self _ _ _ _ hth] at h'
              rw [← Option.some.inj h']
            · exact hothers' _ t' th' hne h'
          · show (s.hw, s.out) = applyCalls s.cap (hw0, []) s.calls
            rw [hcalls, applyCalls_snoc]
            exact hphase

theorem runSched_inv {P : WState → Prop} (hstep : ∀ s s' t, P s → fire s t = some s' → P s')
    (sched : List Nat) (s s' : WState) (h0 : P s) (h : runSched s sched = some s') : P s' := by
  induction sched generalizing s with
  | nil => simp only [runSched] at h; rw [← Option.some.inj h]; exact h0
  | cons t ts ih =>
    simp only [runSched] at h
    cases hf : fire s t with
    | none => simp [hf] at h
    | some s1 => simp only [hf, Option.bind_some] at h; exact ih s1 (hstep s s1 t h0 hf) h

theorem applyCall_snd (cap : Nat) (p : HW × List Op) (c : WCall) : ∃ X, (applyCall cap p c).2 = p.2 ++ X := by
  cases c <;> exact ⟨_, rfl⟩

theorem prefix_of_append {α} (A Y Z : List α) : ∃ k, A ++ Y = ((A ++ (Y ++ Z))).take k := by
  refine ⟨(A ++ Y).length, ?_⟩
  rw [← List.append_assoc, List.take_left']
  rfl

/-- with the lock: at every reachable state — any number of goroutines, any programs of `Report` / `addSource` calls, any
scheduler — the deliveries made so far are a prefix of, and whenever the lock is free the wrapper and the deliveries are exactly,
what the ATOMIC model (`HW.report` / `HW.addSource`) yields for the calls in `Lock` order -/
theorem wlock_atomic (cap : Nat) (hw0 : HW) (progs : List (List WCall)) (sched : List Nat) (s : WState)
    (h : runSched (init true cap hw0 progs) sched = some s) :
    (s.holder = Option.none → (s.hw, s.out) = applyCalls cap (hw0, []) s.calls) ∧
    (∃ k, s.out = (applyCalls cap (hw0, []) s.calls).2.take k) := by
  have hI : InvW cap hw0 s :=
    runSched_inv (P := InvW cap hw0) (fun _ _ _ hp hf => InvW_fire hp hf) sched _ s (InvW_init cap hw0 progs) h
  obtain ⟨_, hcap, hm⟩ := hI
  constructor
  · intro hh
    rw [hh] at hm
    rw [← hcap]; exact (hm : Free hw0 s).2
  · cases hh : s.holder with
    | none =>
      rw [hh] at hm
      have := (hm : Free hw0 s).2
      rw [hcap] at this
      exact ⟨s.out.length, by rw [← this]; simp⟩
    | some t =>
      rw [hh] at hm
      obtain ⟨c, rest, ph, cs0, _, _, hcalls, hph⟩ := (hm : Held hw0 s t)
      rw [hcap] at hph
      rw [hcalls, applyCalls_snoc]
      generalize applyCalls cap (hw0, []) cs0 = p0 at hph ⊢
      cases ph with
      | idle => exact absurd hph (by simp [PhOk])
      | locked =>
        obtain ⟨X, hX⟩ := applyCall_snd cap p0 c
        rw [hX, hph.2]
        exact ⟨p0.2.length, by simp⟩
      | fanout e rem =>
        obtain ⟨hc, _, done, hsrc, hout⟩ := hph
        subst hc
        rw [hout]
        simp only [applyCall, HW.report, hsrc, List.map_append]
        exact prefix_of_append _ _ _
      | replay i rem =>
        obtain ⟨hc, _, done, hring, hout⟩ := hph
        subst hc
        rw [hout]
        simp only [applyCall, HW.addSource, hring, List.map_append]
        exact prefix_of_append _ _ _
      | finished =>
        have : s.out = (applyCall cap p0 c).2 := by rw [← hph]
        exact ⟨s.out.length, by rw [← this]; simp⟩

/-- without the lock a late instance can miss a report for good: instance 0 is attached, the component reports `OK` while the graph
attaches instance 1; `addSource` reads the (still empty) ring before `Report` remembers the event, and `Report` has read the source
list before `addSource` appends to it — instance 1 ends attached, yet `OK` is neither replayed nor fanned out to it (in either
sequential order it would receive it) -/
theorem wlock_unlocked_breaks :
    ∃ sched s, runSched (init false 5 { sources := [0] } [[.report .ok], [.attach 1]]) sched = some s ∧
      (∀ th ∈ s.threads, th.todo = []) ∧ s.hw.sources = [0, 1] ∧ s.out = [(0, Report.status .ok)] := by
  refine ⟨[1, 1, 0, 0, 1, 1, 0, 0, 0], _, rfl, ?_⟩
  decide
end OtelVerif.C11.WLock
